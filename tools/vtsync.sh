#!/bin/sh
# Sync the integration clone /tmp/vt with /verif HEAD and its repo worktree with /repo HEAD.
set -e
cd /tmp/vt
git reset -q --hard
git clean -fdq -e .cache -e lean/.lake
git pull -q
sed -i 's#path = "/repo"#path = "/tmp/vt-repo"#' harness/Cargo.toml
cd /tmp/vt-repo
git checkout -q -- .
git checkout -q --detach "$(git -C /repo rev-parse HEAD)"
echo "vt at $(git -C /tmp/vt rev-parse --short HEAD), vt-repo at $(git -C /tmp/vt-repo rev-parse --short HEAD)"
