#!/bin/sh
# tools/seedrepo.sh <seed dir> <ID> [tier]
# The brief's own procedure: apply a seeded change to /repo itself, run the registered check from /verif, undo it
# straight afterwards. Use only when nothing else is building against /repo (otherwise tools/seedtest.sh).
set -e
[ -z "$(git -C /repo status --porcelain)" ] || { echo "/repo not clean"; exit 2; }
git -C /repo apply "/verif/seeded/$1/patch.diff" || { echo "patch does not apply"; exit 2; }
cd /verif
set +e
./check "$2" --tier "${3:-quick}" > "/verif/.cache/tmp/seedrepo-$1-$2.log" 2>&1; rc=$?
git -C /repo checkout -- .
grep -E "^VIOLATION|^KNOWN-FINDING|^\[$2\]" "/verif/.cache/tmp/seedrepo-$1-$2.log" | cut -c1-240
echo "seed $1 on $2: exit $rc"
