#!/bin/sh
# tools/seedtest.sh <seed dir> <ID> [tier]   apply seeded/<dir>/patch.diff to /repo, run ./check <ID>, undo
cd /repo || exit 2
[ -z "$(git status --porcelain)" ] || { echo "/repo not clean"; exit 2; }
git apply "/verif/seeded/$1/patch.diff" || { echo "patch does not apply"; exit 2; }
cd /verif && ./check "$2" --tier "${3:-quick}"; rc=$?
git -C /repo checkout -- .
echo "seed $1 on $2: exit $rc"
