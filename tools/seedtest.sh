#!/bin/sh
# tools/seedtest.sh <seed dir> <ID> [tier]
# Runs ./check <ID> against a seeded change WITHOUT touching /repo (other work may be building against it):
# uses the integration clone /tmp/vt (git clone of /verif, harness pointed at the worktree /tmp/vt-repo).
# Create them with:  git clone /verif /tmp/vt; git -C /repo worktree add /tmp/vt-repo HEAD;
#                    sed -i 's#path = "/repo"#path = "/tmp/vt-repo"#' /tmp/vt/harness/Cargo.toml
set -e
cd /tmp/vt-repo
git checkout -q --detach "$(git -C /repo rev-parse HEAD)"
git checkout -q -- .
git apply "/verif/seeded/$1/patch.diff" || { echo "patch does not apply"; exit 2; }
cd /tmp/vt
set +e
NV_REPO=/tmp/vt-repo ./check "$2" --tier "${3:-quick}"; rc=$?
git -C /tmp/vt-repo checkout -q -- .
echo "seed $1 on $2: exit $rc"
