#!/bin/sh
# tools/applyfix.sh <diff> "<commit message starting with fix:>"   apply to /repo, run the full suite, commit if green
set -e
cd /repo
[ -z "$(git status --porcelain)" ] || { echo "/repo not clean"; exit 2; }
git apply "$1" || patch -p1 < "$1"
out=$(cargo test --workspace --no-fail-fast --offline 2>&1 || true)
echo "$out" | grep -E "^test result" | awk '{p+=$4; f+=$6} END {print "passed="p" failed="f}'
if echo "$out" | grep -qE "^test result: FAILED|error(\[|:)"; then
  echo "$out" | grep -E "FAILED|failed|error" | head -20
  echo "NOT COMMITTED (working tree left modified)"; exit 1
fi
git add -A
git commit -qm "$2"
git log --oneline | head -1
