#!/usr/bin/env python3
"""tools/gen_wide_corpus.py -- writes corpus/wide/*.ns: ordinary programs in which ONE countable thing (parameters,
arguments, array elements, placeholders, functions, variables, blocks, string bytes, identifier bytes,
index; recursion depth is C08's subject) sits at 255 / 256 / 257 (and, where cheap, 65 535 / 65 536 / 65 537).  The models count in Nat, so a
count, length or id narrowed to u8 / u16 in the implementation (seed C09-f1: the arity kept as `len() as u8`;
C12-f1: the granule count as u16) answers differently from the model exactly there and nowhere near the sizes a
random generator produces.  Also appends the arity cases as source texts to corpus/C09/front.src (verdict stream).
Deterministic; the output is committed (re-run only to change the shapes)."""
import os

VERIF = os.path.dirname(os.path.dirname(os.path.abspath(__file__)))
OUT = os.path.join(VERIF, "corpus", "wide")
SMALL = (255, 256, 257)
BIG = (65535, 65536, 65537)


def w(name, text):
    open(os.path.join(OUT, name + ".ns"), "w").write(text)


def params(n, k=None, ctx="top"):
    k = n if k is None else k
    ps = ", ".join(f"p{i}" for i in range(n))
    args = ", ".join(str(i + 1) for i in range(k))
    d = f"do big({ps}) start\n    return p0 add p{n - 1} times 2\nend\n"
    call = f"shout(big({args}))\n"
    if ctx == "fn":
        call = f"do wrap() start\n    jasi (true) start\n        {call.strip()}\n        comot\n    end\n    return 0\nend\nwrap()\n"
    return d + "shout(\"before\")\n" + call


def main():
    os.makedirs(OUT, exist_ok=True)
    for f in os.listdir(OUT):
        if f.endswith(".ns"):
            os.unlink(os.path.join(OUT, f))
    for n in SMALL + (300, 512, 513):
        w(f"params_{n}", params(n))
        w(f"params_{n}_in_fn", params(n, ctx="fn"))
    for n in SMALL + BIG:
        els = ", ".join(str(i % 97) for i in range(n))
        w(f"array_{n}", f"make a get [{els}]\nshout(a.len())\nshout(a[{n - 1}])\na[{n - 1}] get 7\nshout(a[{n - 1}] add a[0])\n"
                         f"a.push(5)\nshout(a.len())\nshout(a[{n}])\nmake b get a\nb[{n - 2}] get 1000\nshout(a[{n - 2}])\nshout(b[{n - 2}])\n")
    for n in SMALL:
        ph = "".join("{x}" for _ in range(n))
        w(f"placeholders_{n}", f"make x get 7\nmake s get \"{ph}\"\nshout(s.len())\ndo f(x) start\n    return \"{ph}|{{x}}\"\nend\nshout(f(3).len())\nshout(f(\"ab\").slice(0, 4))\n")
        fs = "".join(f"do f{i}() start return {i} end\n" for i in range(n))
        w(f"functions_{n}", fs + f"shout(f0() add f{n - 1}() add f{n // 2}())\ndo g() start\n    return f{n - 1}() minus f{n - 2}()\nend\nshout(g())\n")
        vs = "".join(f"make v{i} get {i}\n" for i in range(n))
        w(f"locals_{n}", vs + f"shout(v0 add v{n - 1})\nv{n - 1} get 1000\nshout(v{n - 1} add v{n - 2})\ndo rd() start\n    return v{n - 1} add v1\nend\nshout(rd())\n"
                              f"do own() start\n" + "".join(f"    make w{i} get {i} add 1\n" for i in range(n)) + f"    w{n - 1} get w{n - 1} add w0\n    return w{n - 1}\nend\nshout(own())\n")
        bl = "".join(f"start\n    make x get {i}\n    t get t add x\nend\n" for i in range(n))
        w(f"blocks_{n}", "make t get 0\n" + bl + "shout(t)\n")
        ident = "v" + "a" * (n - 1)
        w(f"ident_{n}", f"make {ident} get 5\nshout({ident} add 1)\ndo f_{ident}({ident}) start\n    return {ident} times 2\nend\nshout(f_{ident}(4))\nshout(\"{{{ident}}}\")\n")
        w(f"index_{n}", f"make a get []\nmake i get 0\njasi (i small pass {n + 3}) start\n    a.push(i)\n    i get i add 1\nend\nshout(a[{n}])\na[{n}] get 0 minus 1\nshout(a[{n}])\nshout(a[{n - 1}] add a[{n + 1}])\nshout(a.len())\n")
        args = ", ".join(str(i) for i in range(n))
        w(f"concat_{n}", "make s get \"\"\nmake i get 0\n" + f"jasi (i small pass {n}) start\n    s get s add \"x\"\n    i get i add 1\nend\nshout(s.len())\nshout(s.find(\"xx\"))\nshout((s add \"y\").find(\"y\"))\nshout(s.slice({n - 2}, {n}).len())\n")
    for n in SMALL + BIG:
        w(f"string_{n}", f"make s get \"{'a' * (n - 1)}b\"\nshout(s.len())\nshout(s.find(\"b\"))\nshout(s.slice({n - 3}, {n}))\nmake t get s add \"c\"\nshout(t.len())\nshout(t.find(\"bc\"))\nshout(s.to_uppercase().find(\"B\"))\nshout(s.replace(\"ab\", \"Z\").len())\n")
    # C09 verdict stream: the arity cases as texts, with the wrong counts a narrowed arity would accept
    front = os.path.join(VERIF, "corpus", "C09", "front.src")
    old = open(front, encoding="utf-8").read()
    mark = "## wide arities (tools/gen_wide_corpus.py)"
    old = old.split(mark)[0].rstrip("\n") + "\n"
    lines = [mark + ": a call is checked against the real parameter count, whatever its size"]
    for n in SMALL + (300, 512, 513):
        for k in sorted({n, n - 1, n + 1, n % 256, n - 256 if n >= 256 else 0, 0}):
            for ctx in ("top", "fn"):
                lines.append(params(n, k, ctx).rstrip("\n").replace("\n", "\\n"))
    open(front, "w", encoding="utf-8").write(old + "\n".join(lines) + "\n")
    print(len(os.listdir(OUT)), "programs in corpus/wide;", len(lines) - 1, "texts appended to corpus/C09/front.src")


if __name__ == "__main__":
    main()
