#!/usr/bin/env python3
"""tools/seedprompts5.py  -- write the fifth-round seeding prompts /tmp/seedprompts/<ID>e.txt from the
second-round ones (<ID>b.txt, or <ID>.txt): new worktree path /tmp/seed3-<ID>, and the list of mechanisms
already tried in rounds 1 to 4 (DESIGN.md §12) so that the fresh agent looks elsewhere.  The prompt gives
the agent the property text and its worktree only - nothing from /verif."""
import os
import re
import sys

TRIED = {
    "C01": "index evaluated before the array operand in a[i]; only the first {placeholder} of a string keeps its binding; divide/mod by a tiny non-zero divisor reports division by zero; hoisting skips definitions an analysis plan removes; join tests buffer emptiness instead of the index; divide/mod by a literal not spelled \"0\" classed no-trap; transitive capture reads extended with the callee's direct reads only; slice takes len in bytes for negative indexes",
    "C02": "process-builder strings kept frame-backed; relocated return string allocated between stage mark and reset; Arena::deallocate pops the last block with a stale parameter vector; receiver temporary of a string method returns its pool slot early (arr.pop().trim()); pool free-list index array sized in bytes instead of u32 entries; loop frame mark rounded down to 8; index assignment of an empty array skips promotion; push promotes with the persistent arena instead of the frame",
    "C03": "`next` edge of the analysis CFG skips the loop condition; functions whose definition statement is unreachable pruned although hoisted and called; liveness bit index taken modulo 32; max-local-reference guard reads direct instead of transitive capture writes; summary fixpoint's changed flag assigned instead of accumulated; CFG join of an if wired from else_entry instead of else_tail; effective class folded over callees with an inverted early exit",
    "C04": "repeated {x} in one string binds only once (by-name fallback); predeclaration stops at a block's first return; x[i].push() finds the root variable by name; second make with a different definite type silently gets a fresh variable; runtime fast path dispatches same-named calls to the running function; stale one-entry lookup memo in the resolver; record_user_call skips calls by node address order",
    "C05": "x[i].push() finds the root by name; nested empty array moved instead of re-promoted; `return <parameter>` moves out of a captured parameter; returned string > 256 bytes points at reclaimed staging memory; push looks its receiver up twice (side-effecting index expressions run twice); array arguments held by a variable copied after the later arguments ran; v[i] copies the element out of the live variable after evaluating i; subscripts of a nested mutation target evaluated last to first",
    "C06": "integer fast path for mod (i64::MIN % -1); index validated against a stale length; functions reachable only from a hoisted function in dead code pruned; find/replace 3-16-byte tier slices past the haystack; slice copies a byte range ending at offset-of-last-char + 1; string add number formatted into a 32-byte stack buffer; call-binding table keyed by (caller, callee); recursive join helper skipping the non-empty check",
    "C07": "comment closed by bare CR at end of input; label column relative to the caret; renderer line end before CRLF; return-type inference iterated to a non-existent fixed point; quadratic reservation in scan_string; parser error placeholder with an empty span; replace argument check indexes args[1] after the arity error; non-ASCII character width from its lead byte with an off-by-one; function id of a duplicate definition looked up by name",
    "C08": "stack probe only in the Call arm; budget raised to 7 MiB; `return <call>` bypasses the probe; root-variable helpers rewritten as recursion over index chains; parse_unary recursing on itself without a probe; literal-condition fast path skipping eval_expr's probe; Value::nesting follows the first array element; resolver read-only walks consult only the too-deep latch",
    "C09": "static type stale after same-block re-declaration; method lookup ignores the receiver's static type; loop-context counter turned into a flag; template scanner does not close {x} before }}; make declares its variable before checking the initialiser; return context restored from the owner; shadow-name lists not cleared after a function without return; comparisons accept any two operands of the same static type",
    "C10": "keyword look-ahead fast path fails for space + more whitespace; comment ends only at LF; unary operand (x) taken alone with postfix applied to the unary node; 8-byte whitespace fast path also skips parentheses; comment run skipped after the token start was recorded; doubled parentheses continue with binding power 0; empty comment swallows the next line; run_stdin validates UTF-8 per chunk",
    "C11": "failed allocation leaves commit raised; decommit rounds the freed size; fit test ignores alignment padding; grow_zeroed zero-fills through the old pointer; grow tests is-last-block with the new size; vec_replace_impl reserves from the capacity instead of the length; zero-size fast path skips alignment; in-place shrink returns the old extent",
    "C12": "exhausted class borrows from the next class; ownership test as one range check; free-list array sized for u16; zero-size release never returns its slot; ownership test excludes the last slot of a class; one slot size typed 216 instead of 224; index_of by a fixed-point reciprocal; fallback buffer reports the slot length",
    "C13": "quick-search skip jumps over an occurrence right behind the window; slice truncates instead of flooring negative fractional bounds; join drops separators after leading empty strings; to_number(\"-0\") gives +0.0; two-byte needle path reads h[index+1] unchecked; empty-pattern replace compares a byte offset with len-1; find answers -1 for an empty haystack in the method wrapper; case conversion drops multi-character mappings",
    "C14": "run_stdin stops at a short read; runtime.run(root) without facts when there is no plan; exit status = error count as u8; line table cached across runs by (address, length); run_file validates UTF-8 per 8 KiB block; decommit keeps slack in its bookkeeping but releases it; run_file trusts the stat size; host error texts in a write-once process-wide static",
    "C15": "builder strings formatted into the frame arena; no writer thread for empty stdin; total-argument-bytes limit checked before adding the last argument; empty override dropped when the parent lacks the variable; relative program path canonicalised when a cwd is set; env override keys matched ignoring ASCII case; stdin length checked against the capture limit; PWD set when a cwd is configured",
    "C16": "child killed only after reader threads are joined; reader chunk sized from the cap (cap 0); overflow flag read before the stderr reader is joined; limit only checked when the buffer grows; failed read of a captured stream treated as end of file; stdin writer joined before the wait loop; blocking wait once all readers are done; output ending inside a multi-byte character cut instead of rejected",
    "C17": "stale newline-scan offset after compaction; per-read UTF-8 validation splits a character; short read taken for end of input; buffer shrink after a >= 64 KiB line drops read-ahead; pending buffer stops growing at 4 MiB; wrapper strips a trailing carriage return; read-ahead buffer per thread; read_line classed as a pure builtin",
    "C18": "liveness bound per function (max) instead of summed; runtime drops binding facts when the plan is absent; locals limit ignores parameters; summary event budget split evenly per call-graph component; call bindings only sorted when the analyses run; summary_event_bound mis-grouped; summary budget charged per membership probe; blocks-per-function cap compared with ops per function",
}


def main():
    d = "/tmp/seedprompts"
    for pid, tried in TRIED.items():
        src = os.path.join(d, pid + "b.txt")
        if not os.path.exists(src):
            src = os.path.join(d, pid + ".txt")
        if not os.path.exists(src):
            print("missing prompt for", pid, file=sys.stderr)
            continue
        t = open(src).read()
        t = re.sub(r"/tmp/seed-" + pid + r"(-b)?", "/tmp/seed5-" + pid, t)
        new = ("Other people have already tried these ideas, so do something DIFFERENT in mechanism and location: "
               + tried + ". The two")
        if "Other people have already tried these ideas" in t:
            t = re.sub(r"Other people have already tried these ideas[^\n]*?\. The two", lambda m: new, t, count=1, flags=re.S)
        else:
            t = t.replace("The two changes must differ", new + " changes must differ", 1)
        open(os.path.join(d, pid + "e.txt"), "w").write(t)
        print(pid, "ok", "tried-list" if tried[:20] in t else "NO-TRIED-LIST")


if __name__ == "__main__":
    main()
