#!/bin/sh
# tools/scratch.sh <name>        private copies for trying changes to the Rust code:
#                                /tmp/<name>-repo  (copy of /repo without target/)
#                                /tmp/<name>-verif (copy of /verif with its Lean build, own cargo cache)
#                                then:  cd /tmp/<name>-verif && NV_REPO=/tmp/<name>-repo ./check Cxx --tier quick
# tools/scratch.sh <name> --rm   remove both
set -e
name="$1"
[ -n "$name" ] || { echo "usage: $0 <name> [--rm]"; exit 2; }
R=/tmp/$name-repo
V=/tmp/$name-verif
if [ "$2" = "--rm" ]; then rm -rf "$R" "$V"; echo removed; exit 0; fi
rm -rf "$R" "$V"
mkdir -p "$R" "$V"
rsync -a --exclude target --exclude .git /repo/ "$R"/ || [ $? -eq 24 ]
rsync -a --exclude .cache --exclude .git --exclude evidence/replays /verif/ "$V"/ || [ $? -eq 24 ]
sed -i "s#path = \"/repo\"#path = \"$R\"#" "$V/harness/Cargo.toml"
echo "cd $V && NV_REPO=$R ./check <ID> --tier quick     # edit $R/src/... first; remove with: $0 $name --rm"
