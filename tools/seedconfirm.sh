#!/bin/sh
# tools/seedconfirm.sh <seed>   -- confirm a seed stored in /verif/seeded/<seed> in the worktree /tmp/vt-repo:
# patch applies, full suite passes with it, demo.rs fails with it and passes without it.
set -e
S=/verif/seeded/$1
export CARGO_TARGET_DIR=/tmp/vt/.cache/repo-target
cd /tmp/vt-repo
git checkout -q --detach "$(git -C /repo rev-parse HEAD)"; git checkout -q -- .; git clean -fdq tests
cp "$S/demo.rs" tests/seed_demo.rs
echo "== without patch"; cargo test --offline --features verif-hooks --test seed_demo -- --test-threads=1 2>&1 | grep "^test result" || echo "NO RESULT"
git apply "$S/patch.diff"
echo "== with patch: demo"; cargo test --offline --features verif-hooks --test seed_demo -- --test-threads=1 2>&1 | grep "^test result\|^error\[" || echo "NO RESULT"
rm tests/seed_demo.rs
echo "== with patch: suite"; cargo test --workspace --no-fail-fast --offline 2>&1 | grep "^test result" | awk '{p+=$4; f+=$6} END {print "passed",p,"failed",f}'
git checkout -q -- .; git clean -fdq tests
