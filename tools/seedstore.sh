#!/bin/sh
# tools/seedstore.sh <ID>   copy /tmp/seed-<ID>-b/out/{1,2} to seeded/<ID>-b{1,2}, confirm both, remove the worktree
set -e
P=$1
for n in 1 2; do mkdir -p /verif/seeded/$P-b$n; cp -r /tmp/seed-$P-b/out/$n/* /verif/seeded/$P-b$n/; done
git -C /repo worktree remove --force /tmp/seed-$P-b; rm -rf /tmp/seed-$P-b; git -C /repo worktree prune
for n in 1 2; do echo "#### $P-b$n"; /verif/tools/seedconfirm.sh $P-b$n; done
