#!/bin/sh
# tools/seedconfirm3.sh <seed>   -- confirm a seed stored in /verif/seeded/<seed> in the worktree /tmp/vc-repo (git -C /repo worktree add --detach /tmp/vc-repo HEAD):
# the patch applies, the full suite passes with it, the demonstration fails with it and passes without it.
# Demonstration forms: demo.rs (integration test, copied to tests/seed_demo.rs), demo.sh [binary] (shell script run
# with the debug binary built from the worktree; exit 0 = pass), demo.diff (second patch adding a #[cfg(test)] unit
# test whose name contains "seed_demo" or is given in demo_test.txt).
S=/verif/seeded/$1
export CARGO_TARGET_DIR=/tmp/vc-target
cd /tmp/vc-repo || exit 2
clean() { git checkout -q -- .; git clean -fdq tests src 2>/dev/null; }
git checkout -q --detach "$(git -C /repo rev-parse HEAD)"; clean
demo() {   # prints PASS / FAIL
  if [ -f "$S/demo.rs" ]; then
    cp "$S/demo.rs" tests/seed_demo.rs
    out=$(cargo test --offline --features verif-hooks --test seed_demo -- --test-threads=1 2>&1); rm -f tests/seed_demo.rs
    echo "$out" | grep -q "^test result: ok" && echo PASS || { echo FAIL; echo "$out" | grep -E "^test result|panicked|^error" | head -5; }
  elif [ -f "$S/demo.diff" ]; then
    git apply "$S/demo.diff" || { echo "demo.diff does not apply"; return; }
    name=$(cat "$S/demo_test.txt" 2>/dev/null || echo seed_demo)
    out=$(cargo test --offline --features verif-hooks "$name" 2>&1)
    git apply -R "$S/demo.diff"
    if echo "$out" | grep -q "test result: FAILED\|^error"; then echo FAIL; echo "$out" | grep -E "panicked|^error" | head -5
    elif echo "$out" | grep -q "test result: ok. [1-9]"; then echo PASS; else echo "NO-TEST-RAN"; fi
  elif [ -f "$S/demo.sh" ]; then
    cargo build --offline 2>&1 | grep -E "^error" | head -3
    out=$(sh "$S/demo.sh" "$CARGO_TARGET_DIR/debug/naija" 2>&1); rc=$?
    [ $rc -eq 0 ] && echo PASS || { echo FAIL; echo "$out" | tail -6; }
  else
    echo "NO-DEMO"
  fi
}
echo "== without patch: demo (expect PASS)"; demo
git apply "$S/patch.diff" || { echo "PATCH DOES NOT APPLY"; clean; exit 2; }
echo "== with patch: demo (expect FAIL)"; demo
echo "== with patch: suite"; cargo test --workspace --no-fail-fast --offline 2>&1 | grep "^test result" | awk '{p+=$4; f+=$6} END {print "passed",p,"failed",f}'
clean
