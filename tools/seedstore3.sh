#!/bin/sh
# tools/seedstore3.sh <ID>   copy /tmp/seed${R:-3}-<ID>/out/{1,2} to seeded/<ID>-c{1,2}, remove the worktree, confirm both
set -e
P=$1
for n in 1 2; do [ -d /tmp/seed${R:-3}-$P/out/$n ] || continue; mkdir -p /verif/seeded/$P-${L:-c}$n; cp -r /tmp/seed${R:-3}-$P/out/$n/* /verif/seeded/$P-${L:-c}$n/; done
git -C /repo worktree remove --force /tmp/seed${R:-3}-$P; rm -rf /tmp/seed${R:-3}-$P; git -C /repo worktree prune
for n in 1 2; do [ -d /verif/seeded/$P-${L:-c}$n ] || continue; echo "#### $P-${L:-c}$n"; /verif/tools/seedconfirm3.sh $P-${L:-c}$n; done
