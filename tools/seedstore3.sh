#!/bin/sh
# tools/seedstore3.sh <ID>   copy /tmp/seed3-<ID>/out/{1,2} to seeded/<ID>-c{1,2}, remove the worktree, confirm both
set -e
P=$1
for n in 1 2; do [ -d /tmp/seed3-$P/out/$n ] || continue; mkdir -p /verif/seeded/$P-c$n; cp -r /tmp/seed3-$P/out/$n/* /verif/seeded/$P-c$n/; done
git -C /repo worktree remove --force /tmp/seed3-$P; rm -rf /tmp/seed3-$P; git -C /repo worktree prune
for n in 1 2; do [ -d /verif/seeded/$P-c$n ] || continue; echo "#### $P-c$n"; /verif/tools/seedconfirm3.sh $P-c$n; done
