//! `nvcaprd`: the implementation side of the `rd` requests of the `capture` protocol (C16) — the REAL
//! reader loop `read_captured_stream` (hook `naijascript::sys::verif_read_captured_stream`) on scripted
//! readers. A binary of its own, built only by `checks/c16.py` (which writes the manifest, so that the
//! path of the crate and the name of the hook's cargo feature follow the tree being checked): the hook
//! names a private function, and a change of that function must break this build only.
//!
//! stdin: request lines `rd cap=<bytes> code=<1|2> flag=<0|1|2> ev=<event>,...` (protocol: see
//! `harness/src/capture.rs`); stdout: one answer per line, `ok:<len>:<flag>` / `err:<flag>` (`bad-op`,
//! `panic`); stderr: `ORACLE-FAIL <1-based line> <what>`.

use std::io::{self, BufRead, Read, Write};
use std::sync::Arc;
use std::sync::atomic::{AtomicUsize, Ordering};

use naijascript::sys;

const EURO: [u8; 3] = [0xE2, 0x82, 0xAC]; // "€"


#[derive(Clone, Debug)]
enum RdEvent {
    Data { kind: u8, n: usize },
    Zero,
    Fail(io::ErrorKind),
}

/// Byte at offset `off` of the script's data under kind `k` (same table as `rdBytes` in the driver).
fn rd_byte(k: u8, off: usize) -> u8 {
    match k {
        b'd' => b'a' + (off % 26) as u8,
        b'm' => EURO[off % 3],
        _ => 0xFF,
    }
}

fn parse_events(txt: &str) -> Option<Vec<RdEvent>> {
    if txt == "-" || txt.is_empty() {
        return Some(Vec::new());
    }
    let mut out = Vec::new();
    for w in txt.split(',') {
        let b = w.as_bytes();
        match *b.first()? {
            b'z' if w.len() == 1 => out.push(RdEvent::Zero),
            b'E' => {
                let kind = match w.strip_prefix("E:")? {
                    "interrupted" => io::ErrorKind::Interrupted,
                    "wouldblock" => io::ErrorKind::WouldBlock,
                    "other" => io::ErrorKind::Other,
                    "brokenpipe" => io::ErrorKind::BrokenPipe,
                    "unexpectedeof" => io::ErrorKind::UnexpectedEof,
                    "timedout" => io::ErrorKind::TimedOut,
                    "connreset" => io::ErrorKind::ConnectionReset,
                    _ => return None,
                };
                out.push(RdEvent::Fail(kind));
            }
            k @ (b'd' | b'm' | b'x') => out.push(RdEvent::Data { kind: k, n: w[1..].parse().ok()? }),
            _ => return None,
        }
    }
    Some(out)
}

/// A `Read` that plays a script; `calls` counts the reads the loop made.
struct Scripted {
    evs: Vec<RdEvent>,
    idx: usize,
    done_in_ev: usize,
    off: usize,
    calls: Arc<AtomicUsize>,
}

impl Read for Scripted {
    fn read(&mut self, buf: &mut [u8]) -> io::Result<usize> {
        self.calls.fetch_add(1, Ordering::Relaxed);
        match self.evs.get(self.idx).cloned() {
            None => Ok(0),
            Some(RdEvent::Zero) => {
                self.idx += 1;
                Ok(0)
            }
            Some(RdEvent::Fail(kind)) => {
                self.idx += 1;
                Err(io::Error::new(kind, "scripted read failure"))
            }
            Some(RdEvent::Data { kind, n }) => {
                let k = (n - self.done_in_ev).min(buf.len());
                for (i, slot) in buf[..k].iter_mut().enumerate() {
                    *slot = rd_byte(kind, self.off + i);
                }
                self.off += k;
                self.done_in_ev += k;
                if self.done_in_ev >= n {
                    self.idx += 1;
                    self.done_in_ev = 0;
                }
                Ok(k)
            }
        }
    }
}

/// (all data of the script in order, the data before the first zero-length read unless a failing
/// read comes first)
fn script_data(evs: &[RdEvent]) -> (Vec<u8>, Option<Vec<u8>>) {
    let mut all = Vec::new();
    let mut clean: Option<Vec<u8>> = None;
    let mut stopped = false;
    let mut failed = false;
    for e in evs {
        match e {
            RdEvent::Data { kind, n } => {
                if *n == 0 && !stopped && !failed {
                    stopped = true;
                    clean = Some(all.clone());
                }
                for _ in 0..*n {
                    let off = all.len();
                    all.push(rd_byte(*kind, off));
                }
            }
            RdEvent::Zero => {
                if !stopped && !failed {
                    stopped = true;
                    clean = Some(all.clone());
                }
            }
            RdEvent::Fail(_) => {
                if !stopped {
                    failed = true;
                }
            }
        }
    }
    if !stopped && !failed {
        clean = Some(all.clone());
    }
    (all, clean)
}

fn rd_answer(line: &str, oracle: &mut Vec<String>) -> String {
    let (mut cap, mut code, mut flag, mut evs) = (None, None, None, None);
    for w in line.split_whitespace().skip(1) {
        let Some((k, v)) = w.split_once('=') else { return "bad-op".to_string() };
        match k {
            "cap" => cap = v.parse::<u32>().ok(),
            "code" => code = v.parse::<u8>().ok(),
            "flag" => flag = v.parse::<u8>().ok(),
            "ev" => evs = parse_events(v),
            _ => return "bad-op".to_string(),
        }
    }
    let (Some(cap), Some(code), Some(flag), Some(evs)) = (cap, code, flag, evs) else {
        return "bad-op".to_string();
    };
    if !(code == 1 || code == 2) || flag > 2 {
        return "bad-op".to_string();
    }
    let (all, clean) = script_data(&evs);
    let calls = Arc::new(AtomicUsize::new(0));
    let reader =
        Scripted { evs: evs.clone(), idx: 0, done_in_ev: 0, off: 0, calls: Arc::clone(&calls) };
    let (res, flag_after) = sys::verif_read_captured_stream(reader, cap, code, flag);
    if flag_after != flag && !(flag == 0 && flag_after == code) {
        oracle.push(format!("the overflow flag went from {flag} to {flag_after} (reader code {code})"));
    }
    match &res {
        Ok(buf) => {
            if flag_after == 0 {
                match &clean {
                    None => oracle.push(format!(
                        "the loop returned Ok({} bytes) with the overflow flag clear although a read failed before the end of the stream (of {} bytes scripted): a silently shortened stream",
                        buf.len(),
                        all.len()
                    )),
                    Some(exp) if exp != buf => oracle.push(format!(
                        "the loop returned Ok({} bytes) with the overflow flag clear, the stream has {} bytes before its end",
                        buf.len(),
                        exp.len()
                    )),
                    _ => {}
                }
            }
            if !all.starts_with(buf) {
                oracle.push("the loop's buffer is not a prefix of the scripted data".to_string());
            }
            if buf.len() > cap as usize {
                oracle.push(format!("the loop's buffer has {} bytes, cap {cap}", buf.len()));
            }
            format!("ok:{}:{flag_after}", buf.len())
        }
        Err(_) => format!("err:{flag_after}"),
    }
}

fn main() {
    std::panic::set_hook(Box::new(|_| {}));
    let stdin = io::stdin();
    let mut out = io::stdout().lock();
    let mut err = io::stderr().lock();
    for (i, line) in stdin.lock().lines().enumerate() {
        let Ok(line) = line else { break };
        let l = line.trim().to_string();
        let r = std::panic::catch_unwind(move || {
            let mut orc = Vec::new();
            let a = if l.starts_with("rd ") { rd_answer(&l, &mut orc) } else { "bad-op".to_string() };
            (a, orc)
        });
        match r {
            Ok((a, orc)) => {
                let _ = writeln!(out, "{a}");
                for what in orc {
                    let _ = writeln!(err, "ORACLE-FAIL {} {}", i + 1, what);
                }
            }
            Err(_) => {
                let _ = writeln!(out, "panic");
            }
        }
    }
}
