# D-19 witness: writes the program that aborted the front end before fix 7525b16 (exit 134, 'memory allocation failed').
import sys
sys.stdout.write(''.join('shout("a\\nb%d")\n' % i for i in range(20000)))
