import NaijaVerif.Model.Ast
/-
The documented operator grammar of NaijaScript expressions (docs/NUMBERS.md, BOOLEANS.md,
CONDITIONALS.md, STRINGS.md and the examples there, e.g. `(minus 3.5).abs()`, `9.0.sqrt()`):

  loosest   `or`
            `and`
            `na`  `pass`  `small pass`
            `add`  `minus`
  tightest  `times`  `divide`  `mod`

all binary operators associate to the left; the prefix operators `not` and `minus` bind tighter than
every binary operator; postfix forms (call, index, member access) bind tighter still.

`docOrder` says what it means for a Pratt binding-power table to implement this order; it is a
decidable statement about the *whole* table, checked against the table extracted from the source
(`Gen/Pratt.lean`) in `Props/C01Parse.lean` (`gen_matches_doc`).  It does not mention the numbers,
so a renumbering that keeps the order is accepted.
-/
namespace NaijaVerif.Spec.DocGrammar
open NaijaVerif

/-- Precedence classes, loosest first: `(token, operator)`. -/
def levels : List (List (Tok × BinOp)) :=
  [[(.or, .or)],
   [(.and, .and)],
   [(.na, .eq), (.pass, .gt), (.smallPass, .lt)],
   [(.add, .add), (.minus, .minus)],
   [(.times, .times), (.divide, .divide), (.mod, .mod)]]

/-- Prefix operators. -/
def prefixOps : List (Tok × UnOp) := [(.not, .not), (.minus, .neg)]

/-- The documented class of an operator token (index into `levels`). -/
def levelOf (t : Tok) (op : BinOp) : Option Nat :=
  (levels.zipIdx.find? (fun l => l.1.contains (t, op))).map (·.2)

def allPairs : List (Tok × BinOp) := levels.flatten

/--
`bin` rows are `(token, operator, l_bp, r_bp)`, `un` rows `(token, operator, operand bp)`.
* the rows are exactly the documented `(token, operator)` pairs, each once;
* for two rows in the same class the loop stops on the second operator (`l₂ < r₁`: left-associative);
* for a row in a looser class followed by one in a tighter class the loop continues (`r₁ ≤ l₂`), and
  the other way round it stops (`l₁ < r₂`);
* the prefix operators are exactly the documented ones and their operand power is above every
  binary `l_bp` (so `not a and b` is `(not a) and b`).
-/
def docOrder (bin : List (Tok × BinOp × Nat × Nat)) (un : List (Tok × UnOp × Nat)) : Bool :=
  (bin.map fun r => (r.1, r.2.1)).all (allPairs.contains ·) &&
  allPairs.all ((bin.map fun r => (r.1, r.2.1)).contains ·) &&
  bin.length == allPairs.length &&
  bin.all (fun r1 => bin.all fun r2 =>
    match levelOf r1.1 r1.2.1, levelOf r2.1 r2.2.1 with
    | some i, some j =>
      if i == j then r2.2.2.1 < r1.2.2.2          -- same class: stop ⇒ left-associative
      else if i < j then r1.2.2.2 ≤ r2.2.2.1 && r1.2.2.1 < r2.2.2.2
      else true
    | _, _ => false) &&
  (un.map fun r => (r.1, r.2.1)).all (prefixOps.contains ·) &&
  prefixOps.all ((un.map fun r => (r.1, r.2.1)).contains ·) &&
  un.length == prefixOps.length &&
  un.all (fun u => bin.all fun r => r.2.2.1 < u.2.2)

end NaijaVerif.Spec.DocGrammar
