/-
Reference notions for C15 (process commands), independent of the builder and of `validate`:
what "the texts passed to `arg`", "the last value written for a key", "first-insertion order" and
"every limit respected" mean.  The property theorems in `Props/C15.lean` are stated with these.
-/
import NaijaVerif.Model.Proc

namespace NaijaVerif.Proc

/-- The last `some` that `f` yields along a call sequence. -/
def lastOf {α : Type} (f : Op → Option α) : List Op → Option α
  | [] => none
  | op :: rest =>
      match lastOf f rest with
      | some a => some a
      | none => f op

def Op.argText : Op → Option Bytes
  | .arg v => some v
  | _ => none

def Op.cwdText : Op → Option Bytes
  | .cwd v => some v
  | _ => none

def Op.envWrite : Op → Option (Bytes × Bytes)
  | .env k v => some (k, v)
  | _ => none

def Op.stdinSet : Op → Option StdinPol
  | .stdinText v => some (.text v)
  | .stdinInherit => some .inherit
  | .stdinNull => some .null
  | _ => none

def Op.stdoutSet : Op → Option OutPol
  | .stdoutCapture => some .capture
  | .stdoutInherit => some .inherit
  | .stdoutNull => some .null
  | _ => none

def Op.stderrSet : Op → Option OutPol
  | .stderrCapture => some .capture
  | .stderrInherit => some .inherit
  | .stderrNull => some .null
  | _ => none

def Op.timeoutSet : Op → Option Nat
  | .timeout ms => some ms
  | _ => none

/-- The texts passed to `arg`, in call order. -/
def argTexts (ops : List Op) : List Bytes := ops.filterMap Op.argText

/-- The `(key, value)` pairs passed to `env`, in call order. -/
def envWrites (ops : List Op) : List (Bytes × Bytes) := ops.filterMap Op.envWrite

/-- Keep the first occurrence of every key. -/
def dedup : List Bytes → List Bytes
  | [] => []
  | k :: rest => k :: (dedup rest).filter (· ≠ k)

/-- What `validate_named_text` demands of a text: non-empty unless `allowEmpty`, no NUL byte, no
`=` if `forbidEq`, at most `max` bytes. -/
def TextOk (v : Bytes) (max : Nat) (allowEmpty forbidEq : Bool) : Prop :=
  (allowEmpty = false → v ≠ []) ∧ 0 ∉ v ∧ (forbidEq = true → 61 ∉ v) ∧ v.length ≤ max

instance (v : Bytes) (max : Nat) (a f : Bool) : Decidable (TextOk v max a f) := by
  unfold TextOk; exact inferInstance

/-- Total of the argument lengths. -/
def argBytes (args : List Bytes) : Nat := (args.map List.length).sum

/-- Total of the key and value lengths. -/
def envBytes (env : List (Bytes × Bytes)) : Nat := (env.map (fun p => p.1.length + p.2.length)).sum

/-- The declarative reading of the limits: what a command must satisfy to be run. -/
structure Valid (c : Cmd) (caps : Caps) : Prop where
  /-- program: non-empty, no NUL, `≤ max_program_bytes` -/
  program   : c.program ≠ [] ∧ 0 ∉ c.program ∧ c.program.length ≤ caps.maxProgram
  /-- `≤ max_args` arguments -/
  argCount  : c.args.length ≤ caps.maxArgs
  /-- `≤ max_env_pairs` environment pairs -/
  envCount  : c.env.length ≤ caps.maxEnvPairs
  /-- every argument (may be empty): no NUL, `≤ max_arg_bytes` -/
  args      : ∀ a ∈ c.args, 0 ∉ a ∧ a.length ≤ caps.maxArg
  /-- all arguments together `≤ max_total_arg_bytes` -/
  argTotal  : argBytes c.args ≤ caps.maxTotalArg
  /-- cwd, if set: non-empty, no NUL, `≤ max_cwd_bytes` -/
  cwd       : ∀ d, c.cwd = some d → d ≠ [] ∧ 0 ∉ d ∧ d.length ≤ caps.maxCwd
  /-- every key: non-empty, no NUL, no `=`, `≤ max_env_key_bytes` -/
  envKeys   : ∀ p ∈ c.env, p.1 ≠ [] ∧ 0 ∉ p.1 ∧ 61 ∉ p.1 ∧ p.1.length ≤ caps.maxEnvKey
  /-- every value (may be empty): no NUL, `≤ max_env_value_bytes` -/
  envValues : ∀ p ∈ c.env, 0 ∉ p.2 ∧ p.2.length ≤ caps.maxEnvValue
  /-- keys and values together `≤ max_total_env_bytes` -/
  envTotal  : envBytes c.env ≤ caps.maxTotalEnv
  /-- stdin text, if set (may be empty): no NUL, `≤ max_stdin_bytes` -/
  stdin     : ∀ t, c.stdin = .text t → 0 ∉ t ∧ t.length ≤ caps.maxStdin
  /-- `0 < timeout ≤ max_timeout_ms` (the default when none was set) -/
  timeoutPos : 0 < effTimeout c caps
  timeoutMax : effTimeout c caps ≤ caps.maxTimeout

/-- The spec an accepted command is turned into: every field is the builder's, unchanged. -/
def specOf (c : Cmd) (caps : Caps) : Spec :=
  { program := c.program, args := c.args, cwd := c.cwd, env := c.env, stdin := c.stdin,
    stdout := c.stdout, stderr := c.stderr, timeout := effTimeout c caps }

/-- What each error name claims about the command. -/
def Violates (e : Err) (c : Cmd) (caps : Caps) : Prop :=
  match e with
  | .program => ¬ TextOk c.program caps.maxProgram false false
  | .argCount => caps.maxArgs < c.args.length
  | .envCount => caps.maxEnvPairs < c.env.length
  | .argument => ∃ a ∈ c.args, ¬ TextOk a caps.maxArg true false
  | .argBytes => caps.maxTotalArg < argBytes c.args
  | .cwd => ∃ d, c.cwd = some d ∧ ¬ TextOk d caps.maxCwd false false
  | .envKey => ∃ p ∈ c.env, ¬ TextOk p.1 caps.maxEnvKey false true
  | .envValue => ∃ p ∈ c.env, ¬ TextOk p.2 caps.maxEnvValue true false
  | .envBytes => caps.maxTotalEnv < envBytes c.env
  | .stdinText => ∃ t, c.stdin = .text t ∧ ¬ TextOk t caps.maxStdin true false
  | .timeoutZero => effTimeout c caps = 0
  | .timeoutLimit => caps.maxTimeout < effTimeout c caps

end NaijaVerif.Proc
