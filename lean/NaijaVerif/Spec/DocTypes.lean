import NaijaVerif.Model.Types
/-
The DOCUMENTED static typing tables (specification side of C09), written from `docs/*.md` and the
operand types the language defines a meaning for:

* `NUMBERS.md`: `add minus times divide mod` are arithmetic on numbers.
* `STRINGS.md`: `add` concatenates strings (a number operand is formatted: `"x = " add 1`).
* `LOOPS.md` / `CONDITIONALS.md`: `na`, `pass`, `small pass` compare two values of the same kind
  (numbers, strings, booleans); `NULL.md`: `null` may be compared with anything.
* `BOOLEANS.md`: `and`, `or`, `not` are logical operators on booleans; `NULL.md`: `null` is falsy in
  boolean contexts.
* `ARRAYS.md`: indexing applies to arrays, with a number; conditions of `if to say` / `jasi` are
  boolean expressions.
* A `dynamic` operand (parameter, array element, `pop()` result) is only known at run time and is
  accepted wherever some static type would be.

The method tables of the documents (`STRINGS.md`, `ARRAYS.md`, `NUMBERS.md`, `PROCESS_EXECUTION.md`,
`BUILTIN_FUNCTIONS.md`) are `NaijaVerif.memberTable` / `GlobalB` of `Model/Types.lean` (checked
against the code by `Gen/Builtins.lean`); the documented *argument types* of the methods are
`Doc.methodArgs` below.  Core-only (the driver evaluates the specification).
-/
namespace NaijaVerif.Doc
open NaijaVerif

/-- A static type that a value could have at run time. -/
def concrete : List VType := [.number, .string, .bool, .array, .processCommand, .processResult, .null]

/-- The operator has a documented meaning on values of these two (non-dynamic) types, and then
yields a value of the given type. -/
def meaning (op : BinOp) (l r : VType) : Option VType :=
  match op with
  | .add =>
      match l, r with
      | .number, .number => some .number
      | .string, .string | .string, .number | .number, .string => some .string
      | _, _ => none
  | .minus | .times | .divide | .mod =>
      match l, r with
      | .number, .number => some .number
      | _, _ => none
  | .eq | .gt | .lt =>
      match l, r with
      | .number, .number | .string, .string | .bool, .bool => some .bool
      | .null, _ | _, .null => some .bool
      | _, _ => none
  | .and | .or =>
      match l, r with
      | .bool, .bool | .bool, .null | .null, .bool | .null, .null => some .bool
      | _, _ => none

/-- The types a static type stands for: itself, or any concrete type for `dynamic`. -/
def instances (t : VType) : List VType := if t = .dynamic then concrete else [t]

/-- Documented acceptance of a binary operator application on static types: some run-time
instance of the operand types has a meaning. -/
def binaryOk (op : BinOp) (l r : VType) : Bool :=
  (instances l).any fun a => (instances r).any fun b => (meaning op a b).isSome

def unaryMeaning (op : UnOp) (t : VType) : Option VType :=
  match op, t with
  | .not, .bool | .not, .null => some .bool
  | .neg, .number => some .number
  | _, _ => none

def unaryOk (op : UnOp) (t : VType) : Bool := (instances t).any fun a => (unaryMeaning op a).isSome

def condOk (t : VType) : Bool := (instances t).any fun a => a = .bool || a = .null
def indexBaseOk (t : VType) : Bool := (instances t).any fun a => a = .array
def indexIdxOk (t : VType) : Bool := (instances t).any fun a => a = .number
def stringArgOk (t : VType) : Bool := (instances t).any fun a => a = .string
def numberArgOk (t : VType) : Bool := (instances t).any fun a => a = .number

/-- Documented argument types of the methods (`none` = any value). -/
def methodArgs (k : MemberKind) (name : Bytes) : List (Option VType) :=
  if k = .string && name = b!"slice" then [some .number, some .number]
  else if k = .string && name = b!"find" then [some .string]
  else if k = .string && name = b!"replace" then [some .string, some .string]
  else if k = .string && name = b!"split" then [some .string]
  else if k = .array && name = b!"push" then [none]
  else if k = .array && name = b!"join" then [some .string]
  else if k = .processCommand && (name = b!"arg" || name = b!"stdin_text") then [none]
  else if k = .processCommand && name = b!"cwd" then [some .string]
  else if k = .processCommand && name = b!"env" then [some .string, none]
  else if k = .processCommand && name = b!"timeout_ms" then [some .number]
  else []

/-- An argument of static type `t` fits a documented parameter type. -/
def argOk (want : Option VType) (t : VType) : Bool :=
  match want with
  | none => true
  | some w => (instances t).any fun a => a = w

end NaijaVerif.Doc
