/-
Reference (declarative) definitions for C13.  The executable reference search `firstOcc`, the std
model `splitOn`, `chars` and `validChar` live in `Model/StrsStd.lean` (they are linked into the
driver); this file says what they *mean*.
-/
import NaijaVerif.Model.StrsStd

deriving instance DecidableEq for Except

namespace NaijaVerif.Strs
open NaijaVerif

/-- `n` occurs in `h` at byte offset `i`. -/
def OccAt (h n : Bytes) (i : Nat) : Prop := n <+: h.drop i

instance (h n : Bytes) (i : Nat) : Decidable (OccAt h n i) := by unfold OccAt; infer_instance

/-- `r` is the specified answer of a substring search: the first occurrence, or "not found"
exactly when there is none. -/
def IsFirstOcc (h n : Bytes) : Option Nat → Prop
  | some i => OccAt h n i ∧ ∀ j, j < i → ¬ OccAt h n j
  | none => ∀ j, ¬ OccAt h n j

/-- The only assumption about the external `memchr(b, h, o)`: it returns the first index `≥ o`
holding `b`, and `h.len()` when there is none. -/
structure MemchrSpec (mc : Nat → Bytes → Nat → Nat) : Prop where
  le_len : ∀ b h o, mc b h o ≤ h.length
  ge_off : ∀ b h o, o ≤ h.length → o ≤ mc b h o
  hit : ∀ b h o, mc b h o < h.length → h[mc b h o]? = some b
  least : ∀ b h o i, o ≤ i → i < mc b h o → h[i]? ≠ some b

/-- Greedy left-to-right replacement of non-overlapping occurrences of a non-empty pattern
(fuel `|h| + 1`; the defining equations are `replaceSpec_none` / `replaceSpec_some` in
`Props/C13.lean`). -/
def replaceSpecAux (f t : Bytes) : Nat → Bytes → Bytes
  | 0, h => h
  | fuel + 1, h =>
    match firstOcc h f with
    | none => h
    | some i => h.take i ++ t ++ replaceSpecAux f t fuel (h.drop (i + f.length))

/-- `replace`: non-empty pattern — greedy, left to right, non-overlapping; empty pattern — `t` in
front of every character and once more at the end. -/
def replaceSpec (h f t : Bytes) : Bytes :=
  if f = [] then ((chars h).map (t ++ ·)).flatten ++ t else replaceSpecAux f t (h.length + 1) h

/-- `sep`-separated concatenation. -/
def joinSpec (sep : Bytes) : List Bytes → Bytes
  | [] => []
  | [x] => x
  | x :: y :: r => x ++ sep ++ joinSpec sep (y :: r)

/-- A slice bound: negative counts from the end, then clamp to `[0, len]`. -/
def normIdx (len : Nat) (x : Int) : Nat := (max 0 (min (if x < 0 then x + len else x) len)).toNat

/-- Elements at positions `[normIdx a, normIdx b)`. -/
def sliceSpec {α : Type} (cs : List α) (a b : Int) : List α :=
  (cs.drop (normIdx cs.length a)).take (normIdx cs.length b - normIdx cs.length a)

/-- Well-formed UTF-8: a concatenation of well-formed encoded characters. -/
def ValidUtf8 (s : Bytes) : Prop := ∃ cs : List Bytes, (∀ c ∈ cs, validChar c = true) ∧ cs.flatten = s

/-- `i` is a character boundary of `s` in the semantic sense: cutting there leaves two well-formed
strings. -/
def Boundary (s : Bytes) (i : Nat) : Prop := i ≤ s.length ∧ ValidUtf8 (s.take i) ∧ ValidUtf8 (s.drop i)

end NaijaVerif.Strs
