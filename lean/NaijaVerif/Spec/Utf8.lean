import NaijaVerif.Model.Bytes
/-
Well-formed UTF-8 (Unicode 15, table 3-7) as a decidable predicate on byte lists — what a Rust
`&str` is guaranteed to hold, hence the precondition of every lexer theorem.  Core-only and
self-contained (the `strs` unit has its own code-point level definitions in `Spec/Strs.lean`).
-/
namespace NaijaVerif.Utf8

open NaijaVerif.Bytes (isCont)

/-- `validUtf8 s`: `s` is a concatenation of well-formed UTF-8 sequences
(1 byte `00..7F`; 2 bytes `C2..DF 80..BF`; 3 bytes `E0 A0..BF cont`, `E1..EC cont cont`,
`ED 80..9F cont`, `EE..EF cont cont`; 4 bytes `F0 90..BF cont cont`, `F1..F3 cont cont cont`,
`F4 80..8F cont cont`). -/
def validUtf8 : Bytes → Bool
  | [] => true
  | b0 :: r =>
    if b0 < 128 then validUtf8 r
    else if b0 < 194 then false
    else if b0 < 224 then
      match r with
      | b1 :: r' => isCont b1 && validUtf8 r'
      | _ => false
    else if b0 < 240 then
      match r with
      | b1 :: b2 :: r' =>
        isCont b1 && isCont b2 && !(b0 == 224 && b1 < 160) && !(b0 == 237 && 160 ≤ b1) && validUtf8 r'
      | _ => false
    else if b0 < 245 then
      match r with
      | b1 :: b2 :: b3 :: r' =>
        isCont b1 && isCont b2 && isCont b3 && !(b0 == 240 && b1 < 144) && !(b0 == 244 && 144 ≤ b1)
          && validUtf8 r'
      | _ => false
    else false

/-- The precondition of the lexer theorems: the text is a Rust `&str`. -/
def ValidUtf8 (s : Bytes) : Prop := validUtf8 s = true

instance (s : Bytes) : Decidable (ValidUtf8 s) := inferInstanceAs (Decidable (_ = true))

end NaijaVerif.Utf8
