import NaijaVerif.Model.Limits
/-
The analysis caps of the default configuration as pinned when the property was written
(`src/analysis/limits.rs` `DEFAULT_CAPS` at the pinned commit; DESIGN.md §5 C18), the documented
stage order and metric names of the resource-limit warning.  Hand-written, committed; the generated
`Gen/Caps.lean` is compared against it by `decide` in `Props/C18.lean`.
-/
namespace NaijaVerif.Doc
open NaijaVerif.Limits

def caps : Caps :=
  { maxFunctions := 16384
    maxLocals := 131072
    maxScopes := 131072
    maxStatements := 262144
    maxTotalOps := 262144
    maxOpsPerFunction := 262144
    maxTotalBlocks := 524288
    maxBlocksPerFunction := 65536
    maxDirectUserCalls := 262144
    maxSummaryEvents := 16777216
    maxLivenessEvents := 33554432 }

/-- The metric text of the warning label, as bytes. -/
def metricText : Metric → List Nat
  | .functions => b!"functions"
  | .locals => b!"locals"
  | .scopes => b!"scopes"
  | .statements => b!"statements"
  | .cfgOps => b!"cfg ops"
  | .opsInOneFunction => b!"ops in one function"
  | .cfgBlocks => b!"cfg blocks"
  | .blocksInOneFunction => b!"blocks in one function"
  | .directUserCalls => b!"direct user calls"
  | .summaryEvents => b!"summary events"
  | .livenessEvents => b!"liveness events"

/-- The `AnalysisCaps` field a metric is compared against, as bytes. -/
def capField : Metric → List Nat
  | .functions => b!"max_functions"
  | .locals => b!"max_locals"
  | .scopes => b!"max_scopes"
  | .statements => b!"max_statements"
  | .cfgOps => b!"max_total_ops"
  | .opsInOneFunction => b!"max_ops_per_function"
  | .cfgBlocks => b!"max_total_blocks"
  | .blocksInOneFunction => b!"max_blocks_per_function"
  | .directUserCalls => b!"max_direct_user_calls"
  | .summaryEvents => b!"max_summary_events"
  | .livenessEvents => b!"max_liveness_events"

/-- Bit width of the cap of a metric. -/
def capWidth : Metric → Nat
  | .summaryEvents | .livenessEvents => 64
  | _ => 32

end NaijaVerif.Doc
