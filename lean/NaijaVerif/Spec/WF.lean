import NaijaVerif.Model.Resolve
import NaijaVerif.Spec.DocTypes
/-
The documented static rules as a specification (C09), independent of the resolver model's
algorithm: name-only environments, no ids, no facts, no traversal state.

Part 1 — scoping rules (`scopeViolations`):
* a variable is *declared* at a point iff a `make` of that name precedes the point's statement in an
  enclosing block, or it is a parameter of an enclosing function (`docs/VARIABLES.md`, `FUNCTIONS.md`);
* a function is visible throughout the block that defines it, before and after the definition, from
  nested blocks and functions; the innermost defining block wins (`FUNCTIONS.md`); the first
  definition of a name in a block is the function, a later one is a rejected duplicate whose body is
  not analysed;
* `comot`/`next` need an enclosing loop **of the same function body**, `return` an enclosing function;
* builtin names cannot be declared; parameters are distinct; argument counts match.

Part 2 — typing (`typeViolations`): declared types over the documented tables of `Spec/DocTypes.lean`.
* The *declared type* of a variable is the static type of the initialiser of its latest `make` in the
  scope it lives in (dynamic if the initialiser has no static type; parameters are dynamic); `x get e`
  never changes it (static types are advisory).
* The *static result type of a function* `f` defined in a block `B` is a property of `B`, fixed before
  any statement of `B` or of `f` is looked at (`f` is callable throughout `B`).  Every `return e` of
  `f`'s body — bodies of nested functions excluded — is typed in the environment that holds at the
  entry of `B` (declared types of the variables of the enclosing blocks, result types of the visible
  functions), in which every name whose binding is not lexically determined from outside is DYNAMIC:
  `f`'s parameters, every variable that a `make` anywhere in `f`'s body declares, every variable that
  a `make` directly in `B` declares (not declared yet at the entry of `B`, and declared or not when `f`
  runs depending on where it is called from), and every function defined anywhere in `f`'s body.
  `return` without a value has type null, an expression without a static type counts as dynamic.  The
  result type is the type all `return`s agree on, null if there is none, dynamic otherwise.
  Why not the declared types of `f`'s own variables: a local may be re-declared with another type
  further down, may be declared in one branch only, and a variable of `B` may or may not exist yet when
  `f` is called; dynamic is the one answer that never rejects a valid program.  Only a name that
  neither `f` nor `B` can rebind has one declaration whenever `f` runs, and that is the one in scope at
  the entry of `B`.
* The functions of a block are typed together: all result types start as dynamic and are recomputed in
  definition order (a new type is visible to the later functions of the same round) once per function
  of the block (`fnTable`); this makes the result types of (mutually) recursive functions well defined.
* Documented argument types of methods; a member expression is only a method callee, a callee is a name
  or a method, an index assignment is rooted in a variable.

Part 3 — `ReturnsTyped`: the side condition "every `return` expression breaks no typing rule in the
environment in which its function's result type is determined".

`WF p := scopeViolations p = [] ∧ typeViolations p = []`.  Core-only: the driver evaluates it.
-/
namespace NaijaVerif.Spec
open NaijaVerif NaijaVerif.Resolve

/-! ## Part 1: scoping -/

structure Ctx where
  /-- names declared so far in each enclosing block / parameter list, innermost first -/
  vars : List (List Bytes)
  /-- (name, arity) of the functions defined in each enclosing block, innermost first -/
  fns : List (List (Bytes × Nat))
  /-- number of enclosing loops inside the current function body -/
  loops : Nat
  inFn : Bool
deriving Repr, Inhabited

def declared (vars : List (List Bytes)) (x : Bytes) : Bool := vars.any (·.contains x)

def findSig (t : List (Bytes × Nat)) (x : Bytes) : Option Nat := (t.find? (fun p => p.1 == x)).map (·.2)

/-- Arity of the function `x` refers to: the one of the innermost enclosing block defining `x`. -/
def fnArity : List (List (Bytes × Nat)) → Bytes → Option Nat
  | [], _ => none
  | t :: ts, x => match findSig t x with
    | some a => some a
    | none => fnArity ts x

/-- The functions of a block: first definition of each name, in order. -/
def blockFns : List Stmt → List (Bytes × Nat) → List (Bytes × Nat)
  | [], acc => acc
  | .fnDef name _ ps _ _ _ _ :: rest, acc =>
      if (findSig acc name).isSome then blockFns rest acc else blockFns rest (acc ++ [(name, ps.length)])
  | _ :: rest, acc => blockFns rest acc

abbrev Viol := Rule × Span

def vIf (c : Bool) (r : Rule) (s : Span) : List Viol := if c then [(r, s)] else []

def segsV (vars : List (List Bytes)) (span : Span) : List Seg → List Viol
  | [] => []
  | .lit _ :: rest => segsV vars span rest
  | .var n _ :: rest => vIf (!declared vars n) .undeclaredSeg span ++ segsV vars span rest

mutual
  def exprV (c : Ctx) : Expr → List Viol
    | .num _ _ | .bool _ _ | .null _ | .str (.static _) _ => []
    | .str (.interp segs) s => segsV c.vars s segs
    | .array es _ => exprsV c es
    | .index a i _ _ => exprV c a ++ exprV c i
    | .var v _ s => vIf (!declared c.vars v) .undeclaredVar s
    | .binary _ l r _ => exprV c l ++ exprV c r
    | .unary _ e _ => exprV c e
    | .member o _ _ _ => exprV c o
    | .call callee args _ s =>
        match callee with
        | .var fname _ _ =>
            match GlobalB.ofName fname with
            | some g => vIf (args.length != g.arity) .arityGlobal s ++ exprsV c args
            | none =>
                match fnArity c.fns fname with
                | some a => vIf (args.length != a) .arityUser s ++ exprsV c args
                | none => (Rule.undeclaredFn, s) :: exprsV c args
        | .member obj _ _ _ => exprV c obj ++ exprsV c args
        | f => exprV c f ++ exprsV c args
  def exprsV (c : Ctx) : List Expr → List Viol
    | [] => []
    | e :: es => exprV c e ++ exprsV c es
end

def paramsV (seen : List Bytes) : List Param → List Viol
  | [] => []
  | p :: ps =>
      vIf (isReservedName p.name) .reservedParam p.span ++ vIf (seen.contains p.name) .dupParam p.span
        ++ paramsV (p.name :: seen) ps

/-- Violations visible in the headers of a block's function definitions. -/
def headersV (seen : List Bytes) : List Stmt → List Viol
  | [] => []
  | .fnDef name nsp ps _ _ _ _ :: rest =>
      vIf (isReservedName name) .reservedFn nsp ++
        (if seen.contains name then (Rule.dupFunction, nsp) :: headersV seen rest
         else paramsV [] ps ++ headersV (name :: seen) rest)
  | _ :: rest => headersV seen rest

/-- The names declared in the block after the statement (a second `make` of a name declares nothing new). -/
def nextCur (cur : List Bytes) : Stmt → List Bytes
  | .assign x _ _ _ _ _ => if cur.contains x then cur else x :: cur
  | _ => cur

/-- The function names whose definition has been passed after the statement. -/
def nextSeen (seen : List Bytes) : Stmt → List Bytes
  | .fnDef name _ _ _ _ _ _ => if seen.contains name then seen else name :: seen
  | _ => seen

mutual
  /-- `cur`: names declared so far in this block; `seen`: function definitions already passed. -/
  def stmtV (c : Ctx) (cur seen : List Bytes) : Stmt → List Viol
    | .assign x xs e _ _ _ => vIf (isReservedName x) .reservedVar xs ++ exprV { c with vars := cur :: c.vars } e
    | .assignExisting x xs e _ _ _ =>
        vIf (!declared (cur :: c.vars) x) .assignUndeclared xs ++ exprV { c with vars := cur :: c.vars } e
    | .assignIndex t e _ _ => exprV { c with vars := cur :: c.vars } t ++ exprV { c with vars := cur :: c.vars } e
    | .ifS cnd t e _ _ =>
        exprV { c with vars := cur :: c.vars } cnd ++ blockV { c with vars := cur :: c.vars } t
          ++ optBlockV { c with vars := cur :: c.vars } e
    | .loop cnd b _ _ =>
        exprV { c with vars := cur :: c.vars } cnd ++ blockV { c with vars := cur :: c.vars, loops := c.loops + 1 } b
    | .block b _ _ => blockV { c with vars := cur :: c.vars } b
    | .fnDef name _ ps body _ _ _ =>
        if seen.contains name then [] else
          blockV { c with vars := (ps.map (·.name)).reverse :: cur :: c.vars, loops := 0, inFn := true } body
    | .ret e _ sp =>
        vIf (!c.inFn) .returnOutside sp ++
          (match e with | some e => exprV { c with vars := cur :: c.vars } e | none => [])
    | .brk _ sp => vIf (c.loops == 0) .breakOutside sp
    | .cont _ sp => vIf (c.loops == 0) .continueOutside sp
    | .expr e _ _ => exprV { c with vars := cur :: c.vars } e
  def stmtsV (c : Ctx) (cur seen : List Bytes) : List Stmt → List Viol
    | [] => []
    | s :: ss =>
        stmtV c cur seen s ++ stmtsV c (nextCur cur s) (nextSeen seen s) ss
  /-- `c.vars`: all enclosing binders. -/
  def blockV (c : Ctx) : Block → List Viol
    | .mk ss _ => headersV [] ss ++ stmtsV { c with fns := blockFns ss [] :: c.fns } [] [] ss
  def optBlockV (c : Ctx) : Option Block → List Viol
    | none => []
    | some b => blockV c b
end

def rootCtx : Ctx := { vars := [], fns := [], loops := 0, inFn := false }

/-- Every violation of a scoping rule, with the span the rule is reported at. -/
def scopeViolations (p : Block) : List Viol := blockV rootCtx p

/-! ## Part 2: typing -/

abbrev TScope := List (Bytes × VType)

structure TEnv where
  vars : List TScope
  fns : List (List (Bytes × VType))
deriving Repr, Inhabited

def tFind (s : TScope) (x : Bytes) : Option VType := (s.find? (fun p => p.1 == x)).map (·.2)

def tLookup : List (List (Bytes × VType)) → Bytes → Option VType
  | [], _ => none
  | s :: ss, x => match tFind s x with
    | some t => some t
    | none => tLookup ss x

def tDeclare (s : TScope) (x : Bytes) (t : VType) : TScope :=
  if (tFind s x).isSome then s.map (fun p => if p.1 == x then (x, t) else p) else (x, t) :: s

/-- Documented result type of an accepted operator application. -/
def resultType (op : BinOp) (l r : VType) : VType :=
  match op with
  | .minus | .times | .divide | .mod => .number
  | .eq | .gt | .lt | .and | .or => .bool
  | .add =>
      if l = .string || r = .string then .string
      else if l = .number && r = .number then .number
      else .dynamic

def typeOf (te : TEnv) : Expr → Option VType
  | .num _ _ => some .number
  | .null _ => some .null
  | .str _ _ => some .string
  | .bool _ _ => some .bool
  | .array _ _ => some .array
  | .index _ _ _ _ => some .dynamic
  | .var v _ _ => tLookup te.vars v
  | .binary op l r _ =>
      match typeOf te l, typeOf te r with
      | some a, some b => if Doc.binaryOk op a b then some (resultType op a b) else none
      | _, _ => none
  | .unary op e _ =>
      match typeOf te e with
      | some t => if Doc.unaryOk op t then some (match op with | .not => .bool | .neg => .number) else none
      | none => none
  | .member _ _ _ _ => some .dynamic
  | .call callee _ _ _ =>
      match callee with
      | .var fname _ _ =>
          match GlobalB.ofName fname with
          | some g => some g.retType
          | none => tLookup te.fns fname
      | .member obj field _ _ =>
          match typeOf te obj with
          | none => none
          | some rt =>
              match MemberKind.ofType rt with
              | none => some .dynamic
              | some k => match memberOf k field with
                | some m => some m.ret
                | none => some .dynamic
      | _ => none

/-- Argument types against the documented parameter types. -/
def argsOk (te : TEnv) : List (Option VType) → List Expr → Bool
  | w :: ws, a :: as => (match typeOf te a with | some t => Doc.argOk w t | none => true) && argsOk te ws as
  | _, _ => true

def tyIf (t : Option VType) (ok : VType → Bool) (r : Rule) (s : Span) : List Viol :=
  match t with
  | some t => vIf (!ok t) r s
  | none => []

mutual
  def exprT (te : TEnv) : Expr → List Viol
    | .num _ _ | .bool _ _ | .null _ | .str _ _ | .var _ _ _ => []
    | .array es _ => exprsT te es
    | .index a i isp s =>
        exprT te a ++ exprT te i ++ tyIf (typeOf te a) Doc.indexBaseOk .tyIndexBase s
          ++ tyIf (typeOf te i) Doc.indexIdxOk .tyIndexIdx isp
    | .binary op l r s =>
        exprT te l ++ exprT te r ++
          (match typeOf te l, typeOf te r with
           | some a, some b => vIf (!Doc.binaryOk op a b) .tyBinary s
           | _, _ => [])
    | .unary op e s => exprT te e ++ tyIf (typeOf te e) (Doc.unaryOk op) .tyUnary s
    | .member o _ _ s => exprT te o ++ [(Rule.bareMember, s)]
    | .call callee args _ s =>
        match callee with
        | .var fname _ _ =>
            (match GlobalB.ofName fname, args with
             | some .command, a :: _ => tyIf (typeOf te a) Doc.stringArgOk .tyCommandArg s
             | _, _ => []) ++ exprsT te args
        | .member obj field _ ms =>
            exprT te obj ++
              (match typeOf te obj with
               | none => []
               | some rt =>
                   if rt = .dynamic then [] else
                   match (MemberKind.ofType rt).bind (fun k => memberOf k field) with
                   | none => [(Rule.methodUnknown, ms)]
                   | some m =>
                       vIf (m.mutRecv && m.kind == .processCommand && !isVarRooted obj) .tyMutReceiver ms
                         ++ vIf (args.length != m.arity) .arityMethod ms
                         ++ vIf (!argsOk te (Doc.methodArgs m.kind m.name) args) .tyMethodArg ms)
              ++ exprsT te args
        | f => exprT te f ++ [(Rule.badCallee, s)] ++ exprsT te args
  def exprsT (te : TEnv) : List Expr → List Viol
    | [] => []
    | e :: es => exprT te e ++ exprsT te es
end

def commonType : List VType → VType
  | [] => .null
  | t :: ts => if ts.all (· == t) then t else .dynamic

/-- First definitions of a block: (name, parameter names, body). -/
def blockDefs : List Stmt → List Bytes → List (Bytes × List Bytes × Block)
  | [], _ => []
  | .fnDef name _ ps body _ _ _ :: rest, seen =>
      if seen.contains name then blockDefs rest seen
      else (name, ps.map (·.name), body) :: blockDefs rest (name :: seen)
  | _ :: rest, seen => blockDefs rest seen

/-- Names declared by `make` directly in a block. -/
def blockMakes : List Stmt → List Bytes
  | [] => []
  | .assign x _ _ _ _ _ :: rest => x :: blockMakes rest
  | _ :: rest => blockMakes rest

def setAt {α : Type} : List α → Nat → α → List α
  | [], _, _ => []
  | _ :: as, 0, x => x :: as
  | a :: as, n + 1, x => a :: setAt as n x

/-! ### The static result type of a function -/

def madeName : Stmt → List Bytes
  | .assign x _ _ _ _ _ => [x]
  | _ => []

def definedName : Stmt → List Bytes
  | .fnDef name _ _ _ _ _ _ => [name]
  | _ => []

mutual
  /-- `pick` of every statement of the list and of its nested blocks (branches, loop bodies, plain
  blocks); bodies of nested functions are not entered. -/
  def gather (pick : Stmt → List Bytes) : Stmt → List Bytes
    | .ifS _ t e _ _ => gatherB pick t ++ gatherO pick e
    | .loop _ b _ _ => gatherB pick b
    | .block b _ _ => gatherB pick b
    | s => pick s
  def gatherL (pick : Stmt → List Bytes) : List Stmt → List Bytes
    | [] => []
    | s :: ss => gather pick s ++ gatherL pick ss
  def gatherB (pick : Stmt → List Bytes) : Block → List Bytes
    | .mk ss _ => gatherL pick ss
  def gatherO (pick : Stmt → List Bytes) : Option Block → List Bytes
    | none => []
    | some b => gatherB pick b
end

mutual
  /-- Types of the `return`s of a statement, typed in `te`; nested function bodies excluded. -/
  def retTypes (te : TEnv) : Stmt → List VType
    | .ret (some e) _ _ => [(typeOf te e).getD .dynamic]
    | .ret none _ _ => [.null]
    | .ifS _ t e _ _ => retTypesB te t ++ retTypesO te e
    | .loop _ b _ _ => retTypesB te b
    | .block b _ _ => retTypesB te b
    | _ => []
  def retTypesL (te : TEnv) : List Stmt → List VType
    | [] => []
    | s :: ss => retTypes te s ++ retTypesL te ss
  def retTypesB (te : TEnv) : Block → List VType
    | .mk ss _ => retTypesL te ss
  def retTypesO (te : TEnv) : Option Block → List VType
    | none => []
    | some b => retTypesB te b
end

abbrev FnTable := List (Bytes × VType)

/-- The environment in which the result type of a function (parameters `params`, body `body`) is
determined: `te` at the entry of the defining block, whose functions currently have the result types
`tab` and which declares `makes`; every name the function or the block may bind is dynamic. -/
def retEnv (te : TEnv) (tab : FnTable) (makes params : List Bytes) (body : Block) : TEnv :=
  { vars := ((params ++ makes ++ gatherB madeName body).map fun x => (x, VType.dynamic)) :: te.vars,
    fns := ((gatherB definedName body).map fun x => (x, VType.dynamic)) :: tab :: te.fns }

/-- One round: every function's result type from its own `return`s, in definition order, in place. -/
def tableRound (te : TEnv) (makes : List Bytes) : List (Bytes × List Bytes × Block) → Nat → FnTable → FnTable
  | [], _, tab => tab
  | (name, ps, body) :: rest, i, tab =>
      tableRound te makes rest (i + 1)
        (setAt tab i (name, commonType (retTypesB (retEnv te tab makes ps body) body)))

def tableIter (te : TEnv) (makes : List Bytes) (defs : List (Bytes × List Bytes × Block)) : Nat → FnTable → FnTable
  | 0, tab => tab
  | k + 1, tab => tableIter te makes defs k (tableRound te makes defs 0 tab)

/-- Result types of the functions of a block whose entry environment is `te`. -/
def fnTable (te : TEnv) (ss : List Stmt) : FnTable :=
  let defs := blockDefs ss []
  tableIter te (blockMakes ss) defs defs.length (defs.map fun d => (d.1, VType.dynamic))

/-! ### Violations of the typing rules -/

/-- The declared types of the block after the statement. -/
def nextT (te : TEnv) (cur : TScope) : Stmt → TScope
  | .assign x _ e _ _ _ => tDeclare cur x ((typeOf { te with vars := cur :: te.vars } e).getD .dynamic)
  | _ => cur

mutual
  /-- `te`: the enclosing blocks; `cur`: declared types of this block so far; `seen`: function
  definitions of this block already passed (a later one of the same name is a rejected duplicate
  whose body is not analysed). -/
  def stmtT (te : TEnv) (cur : TScope) (seen : List Bytes) : Stmt → List Viol
    | .assign _ _ e _ _ _ => exprT { te with vars := cur :: te.vars } e
    | .assignExisting _ _ e _ _ _ => exprT { te with vars := cur :: te.vars } e
    | .assignIndex t e _ sp =>
        exprT { te with vars := cur :: te.vars } t ++ exprT { te with vars := cur :: te.vars } e
          ++ vIf (!isVarRooted t) .badIndexRoot sp
    | .ifS c t e _ _ =>
        exprT { te with vars := cur :: te.vars } c
          ++ tyIf (typeOf { te with vars := cur :: te.vars } c) Doc.condOk .tyCond c.span
          ++ blockT { te with vars := cur :: te.vars } t ++ optBlockT { te with vars := cur :: te.vars } e
    | .loop c b _ _ =>
        exprT { te with vars := cur :: te.vars } c
          ++ tyIf (typeOf { te with vars := cur :: te.vars } c) Doc.condOk .tyCond c.span
          ++ blockT { te with vars := cur :: te.vars } b
    | .block b _ _ => blockT { te with vars := cur :: te.vars } b
    | .fnDef name _ ps body _ _ _ =>
        if seen.contains name then [] else
          blockT { te with vars := (ps.map (fun p => (p.name, VType.dynamic))).reverse :: cur :: te.vars } body
    | .ret (some e) _ _ => exprT { te with vars := cur :: te.vars } e
    | .ret none _ _ => []
    | .brk _ _ => []
    | .cont _ _ => []
    | .expr e _ _ => exprT { te with vars := cur :: te.vars } e
  def stmtsT (te : TEnv) (cur : TScope) (seen : List Bytes) : List Stmt → List Viol
    | [] => []
    | s :: ss => stmtT te cur seen s ++ stmtsT te (nextT te cur s) (nextSeen seen s) ss
  /-- `te`: the environment at the entry of the block. -/
  def blockT (te : TEnv) : Block → List Viol
    | .mk ss _ => stmtsT { te with fns := fnTable te ss :: te.fns } [] [] ss
  def optBlockT (te : TEnv) : Option Block → List Viol
    | none => []
    | some b => blockT te b
end

/-- Every violation of a typing rule, with the span the rule is reported at. -/
def typeViolations (p : Block) : List Viol := blockT { vars := [], fns := [] } p

/-! ## Part 3: return expressions well typed where result types are determined -/

mutual
  /-- Every `return e` of the statement breaks no typing rule in `te`. -/
  def retsOk (te : TEnv) : Stmt → Bool
    | .ret (some e) _ _ => (exprT te e).isEmpty
    | .ifS _ t e _ _ => retsOkB te t && retsOkO te e
    | .loop _ b _ _ => retsOkB te b
    | .block b _ _ => retsOkB te b
    | _ => true
  def retsOkL (te : TEnv) : List Stmt → Bool
    | [] => true
    | s :: ss => retsOk te s && retsOkL te ss
  def retsOkB (te : TEnv) : Block → Bool
    | .mk ss _ => retsOkL te ss
  def retsOkO (te : TEnv) : Option Block → Bool
    | none => true
    | some b => retsOkB te b
end

def roundOk (te : TEnv) (makes : List Bytes) : List (Bytes × List Bytes × Block) → Nat → FnTable → Bool
  | [], _, _ => true
  | (name, ps, body) :: rest, i, tab =>
      retsOkB (retEnv te tab makes ps body) body &&
        roundOk te makes rest (i + 1)
          (setAt tab i (name, commonType (retTypesB (retEnv te tab makes ps body) body)))

def iterOk (te : TEnv) (makes : List Bytes) (defs : List (Bytes × List Bytes × Block)) : Nat → FnTable → Bool
  | 0, _ => true
  | k + 1, tab => roundOk te makes defs 0 tab && iterOk te makes defs k (tableRound te makes defs 0 tab)

/-- In every round of `fnTable te ss`, every `return` expression is well typed where it is typed. -/
def tableOk (te : TEnv) (ss : List Stmt) : Bool :=
  let defs := blockDefs ss []
  iterOk te (blockMakes ss) defs defs.length (defs.map fun d => (d.1, VType.dynamic))

mutual
  /-- `tableOk` at every block the statement contains (same environments as `stmtT`). -/
  def stmtRT (te : TEnv) (cur : TScope) (seen : List Bytes) : Stmt → Bool
    | .ifS _ t e _ _ => blockRT { te with vars := cur :: te.vars } t && optBlockRT { te with vars := cur :: te.vars } e
    | .loop _ b _ _ => blockRT { te with vars := cur :: te.vars } b
    | .block b _ _ => blockRT { te with vars := cur :: te.vars } b
    | .fnDef name _ ps body _ _ _ =>
        seen.contains name ||
          blockRT { te with vars := (ps.map (fun p => (p.name, VType.dynamic))).reverse :: cur :: te.vars } body
    | _ => true
  def stmtsRT (te : TEnv) (cur : TScope) (seen : List Bytes) : List Stmt → Bool
    | [] => true
    | s :: ss => stmtRT te cur seen s && stmtsRT te (nextT te cur s) (nextSeen seen s) ss
  def blockRT (te : TEnv) : Block → Bool
    | .mk ss _ => tableOk te ss && stmtsRT { te with fns := fnTable te ss :: te.fns } [] [] ss
  def optBlockRT (te : TEnv) : Option Block → Bool
    | none => true
    | some b => blockRT te b
end

/-- Whenever the result type of a function of `p` is determined, its `return` expressions break no
typing rule in the environment they are typed in. -/
def ReturnsTyped (p : Block) : Prop := blockRT { vars := [], fns := [] } p = true

instance (p : Block) : Decidable (ReturnsTyped p) := by unfold ReturnsTyped; infer_instance

/-- The documented judgement: the program breaks no static rule. -/
def WF (p : Block) : Prop := scopeViolations p = [] ∧ typeViolations p = []

instance (p : Block) : Decidable (WF p) := by unfold WF; infer_instance

end NaijaVerif.Spec
