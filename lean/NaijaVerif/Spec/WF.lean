import NaijaVerif.Model.Resolve
import NaijaVerif.Spec.DocTypes
/-
The documented static rules as a specification (C09), independent of the resolver model's
algorithm: name-only environments, no ids, no facts, no traversal state.

Part 1 — scoping rules (`scopeViolations`):
* a variable is *declared* at a point iff a `make` of that name precedes the point's statement in an
  enclosing block, or it is a parameter of an enclosing function (`docs/VARIABLES.md`, `FUNCTIONS.md`);
* a function is visible throughout the block that defines it, before and after the definition, from
  nested blocks and functions; the innermost defining block wins (`FUNCTIONS.md`); the first
  definition of a name in a block is the function, a later one is a rejected duplicate whose body is
  not analysed;
* `comot`/`next` need an enclosing loop **of the same function body**, `return` an enclosing function;
* builtin names cannot be declared; parameters are distinct; argument counts match.

Part 2 — typing (`typeViolations`): flow-insensitive declared types over the documented tables of
`Spec/DocTypes.lean`; a function's result type is the common type of its `return` expressions typed
**in its own scope**, else dynamic; documented argument types of methods; a member expression is only
a method callee, a callee is a name or a method, an index assignment is rooted in a variable.

`WF p := scopeViolations p = [] ∧ typeViolations p = []`.  Core-only: the driver evaluates it.
-/
namespace NaijaVerif.Spec
open NaijaVerif NaijaVerif.Resolve

/-! ## Part 1: scoping -/

structure Ctx where
  /-- names declared so far in each enclosing block / parameter list, innermost first -/
  vars : List (List Bytes)
  /-- (name, arity) of the functions defined in each enclosing block, innermost first -/
  fns : List (List (Bytes × Nat))
  /-- number of enclosing loops inside the current function body -/
  loops : Nat
  inFn : Bool
deriving Repr, Inhabited

def declared (vars : List (List Bytes)) (x : Bytes) : Bool := vars.any (·.contains x)

def findSig (t : List (Bytes × Nat)) (x : Bytes) : Option Nat := (t.find? (fun p => p.1 == x)).map (·.2)

/-- Arity of the function `x` refers to: the one of the innermost enclosing block defining `x`. -/
def fnArity : List (List (Bytes × Nat)) → Bytes → Option Nat
  | [], _ => none
  | t :: ts, x => match findSig t x with
    | some a => some a
    | none => fnArity ts x

/-- The functions of a block: first definition of each name, in order. -/
def blockFns : List Stmt → List (Bytes × Nat) → List (Bytes × Nat)
  | [], acc => acc
  | .fnDef name _ ps _ _ _ _ :: rest, acc =>
      if (findSig acc name).isSome then blockFns rest acc else blockFns rest (acc ++ [(name, ps.length)])
  | _ :: rest, acc => blockFns rest acc

abbrev Viol := Rule × Span

def vIf (c : Bool) (r : Rule) (s : Span) : List Viol := if c then [(r, s)] else []

def segsV (vars : List (List Bytes)) (span : Span) : List Seg → List Viol
  | [] => []
  | .lit _ :: rest => segsV vars span rest
  | .var n _ :: rest => vIf (!declared vars n) .undeclaredSeg span ++ segsV vars span rest

mutual
  def exprV (c : Ctx) : Expr → List Viol
    | .num _ _ | .bool _ _ | .null _ | .str (.static _) _ => []
    | .str (.interp segs) s => segsV c.vars s segs
    | .array es _ => exprsV c es
    | .index a i _ _ => exprV c a ++ exprV c i
    | .var v _ s => vIf (!declared c.vars v) .undeclaredVar s
    | .binary _ l r _ => exprV c l ++ exprV c r
    | .unary _ e _ => exprV c e
    | .member o _ _ _ => exprV c o
    | .call callee args _ s =>
        match callee with
        | .var fname _ _ =>
            match GlobalB.ofName fname with
            | some g => vIf (args.length != g.arity) .arityGlobal s ++ exprsV c args
            | none =>
                match fnArity c.fns fname with
                | some a => vIf (args.length != a) .arityUser s ++ exprsV c args
                | none => (Rule.undeclaredFn, s) :: exprsV c args
        | .member obj _ _ _ => exprV c obj ++ exprsV c args
        | f => exprV c f ++ exprsV c args
  def exprsV (c : Ctx) : List Expr → List Viol
    | [] => []
    | e :: es => exprV c e ++ exprsV c es
end

def paramsV (seen : List Bytes) : List Param → List Viol
  | [] => []
  | p :: ps =>
      vIf (isReservedName p.name) .reservedParam p.span ++ vIf (seen.contains p.name) .dupParam p.span
        ++ paramsV (p.name :: seen) ps

/-- Violations visible in the headers of a block's function definitions. -/
def headersV (seen : List Bytes) : List Stmt → List Viol
  | [] => []
  | .fnDef name nsp ps _ _ _ _ :: rest =>
      vIf (isReservedName name) .reservedFn nsp ++
        (if seen.contains name then (Rule.dupFunction, nsp) :: headersV seen rest
         else paramsV [] ps ++ headersV (name :: seen) rest)
  | _ :: rest => headersV seen rest

/-- The names declared in the block after the statement (a second `make` of a name declares nothing new). -/
def nextCur (cur : List Bytes) : Stmt → List Bytes
  | .assign x _ _ _ _ _ => if cur.contains x then cur else x :: cur
  | _ => cur

/-- The function names whose definition has been passed after the statement. -/
def nextSeen (seen : List Bytes) : Stmt → List Bytes
  | .fnDef name _ _ _ _ _ _ => if seen.contains name then seen else name :: seen
  | _ => seen

mutual
  /-- `cur`: names declared so far in this block; `seen`: function definitions already passed. -/
  def stmtV (c : Ctx) (cur seen : List Bytes) : Stmt → List Viol
    | .assign x xs e _ _ _ => vIf (isReservedName x) .reservedVar xs ++ exprV { c with vars := cur :: c.vars } e
    | .assignExisting x xs e _ _ _ =>
        vIf (!declared (cur :: c.vars) x) .assignUndeclared xs ++ exprV { c with vars := cur :: c.vars } e
    | .assignIndex t e _ _ => exprV { c with vars := cur :: c.vars } t ++ exprV { c with vars := cur :: c.vars } e
    | .ifS cnd t e _ _ =>
        exprV { c with vars := cur :: c.vars } cnd ++ blockV { c with vars := cur :: c.vars } t
          ++ optBlockV { c with vars := cur :: c.vars } e
    | .loop cnd b _ _ =>
        exprV { c with vars := cur :: c.vars } cnd ++ blockV { c with vars := cur :: c.vars, loops := c.loops + 1 } b
    | .block b _ _ => blockV { c with vars := cur :: c.vars } b
    | .fnDef name _ ps body _ _ _ =>
        if seen.contains name then [] else
          blockV { c with vars := (ps.map (·.name)).reverse :: cur :: c.vars, loops := 0, inFn := true } body
    | .ret e _ sp =>
        vIf (!c.inFn) .returnOutside sp ++
          (match e with | some e => exprV { c with vars := cur :: c.vars } e | none => [])
    | .brk _ sp => vIf (c.loops == 0) .breakOutside sp
    | .cont _ sp => vIf (c.loops == 0) .continueOutside sp
    | .expr e _ _ => exprV { c with vars := cur :: c.vars } e
  def stmtsV (c : Ctx) (cur seen : List Bytes) : List Stmt → List Viol
    | [] => []
    | s :: ss =>
        stmtV c cur seen s ++ stmtsV c (nextCur cur s) (nextSeen seen s) ss
  /-- `c.vars`: all enclosing binders. -/
  def blockV (c : Ctx) : Block → List Viol
    | .mk ss _ => headersV [] ss ++ stmtsV { c with fns := blockFns ss [] :: c.fns } [] [] ss
  def optBlockV (c : Ctx) : Option Block → List Viol
    | none => []
    | some b => blockV c b
end

def rootCtx : Ctx := { vars := [], fns := [], loops := 0, inFn := false }

/-- Every violation of a scoping rule, with the span the rule is reported at. -/
def scopeViolations (p : Block) : List Viol := blockV rootCtx p

/-! ## Part 2: typing -/

abbrev TScope := List (Bytes × VType)

structure TEnv where
  vars : List TScope
  fns : List (List (Bytes × VType))
deriving Repr, Inhabited

def tFind (s : TScope) (x : Bytes) : Option VType := (s.find? (fun p => p.1 == x)).map (·.2)

def tLookup : List (List (Bytes × VType)) → Bytes → Option VType
  | [], _ => none
  | s :: ss, x => match tFind s x with
    | some t => some t
    | none => tLookup ss x

def tDeclare (s : TScope) (x : Bytes) (t : VType) : TScope :=
  if (tFind s x).isSome then s.map (fun p => if p.1 == x then (x, t) else p) else (x, t) :: s

/-- Documented result type of an accepted operator application. -/
def resultType (op : BinOp) (l r : VType) : VType :=
  match op with
  | .minus | .times | .divide | .mod => .number
  | .eq | .gt | .lt | .and | .or => .bool
  | .add =>
      if l = .string || r = .string then .string
      else if l = .number && r = .number then .number
      else .dynamic

def typeOf (te : TEnv) : Expr → Option VType
  | .num _ _ => some .number
  | .null _ => some .null
  | .str _ _ => some .string
  | .bool _ _ => some .bool
  | .array _ _ => some .array
  | .index _ _ _ _ => some .dynamic
  | .var v _ _ => tLookup te.vars v
  | .binary op l r _ =>
      match typeOf te l, typeOf te r with
      | some a, some b => if Doc.binaryOk op a b then some (resultType op a b) else none
      | _, _ => none
  | .unary op e _ =>
      match typeOf te e with
      | some t => if Doc.unaryOk op t then some (match op with | .not => .bool | .neg => .number) else none
      | none => none
  | .member _ _ _ _ => some .dynamic
  | .call callee _ _ _ =>
      match callee with
      | .var fname _ _ =>
          match GlobalB.ofName fname with
          | some g => some g.retType
          | none => tLookup te.fns fname
      | .member obj field _ _ =>
          match typeOf te obj with
          | none => none
          | some rt =>
              match MemberKind.ofType rt with
              | none => some .dynamic
              | some k => match memberOf k field with
                | some m => some m.ret
                | none => some .dynamic
      | _ => none

/-- Argument types against the documented parameter types. -/
def argsOk (te : TEnv) : List (Option VType) → List Expr → Bool
  | w :: ws, a :: as => (match typeOf te a with | some t => Doc.argOk w t | none => true) && argsOk te ws as
  | _, _ => true

def tyIf (t : Option VType) (ok : VType → Bool) (r : Rule) (s : Span) : List Viol :=
  match t with
  | some t => vIf (!ok t) r s
  | none => []

mutual
  def exprT (te : TEnv) : Expr → List Viol
    | .num _ _ | .bool _ _ | .null _ | .str _ _ | .var _ _ _ => []
    | .array es _ => exprsT te es
    | .index a i isp s =>
        exprT te a ++ exprT te i ++ tyIf (typeOf te a) Doc.indexBaseOk .tyIndexBase s
          ++ tyIf (typeOf te i) Doc.indexIdxOk .tyIndexIdx isp
    | .binary op l r s =>
        exprT te l ++ exprT te r ++
          (match typeOf te l, typeOf te r with
           | some a, some b => vIf (!Doc.binaryOk op a b) .tyBinary s
           | _, _ => [])
    | .unary op e s => exprT te e ++ tyIf (typeOf te e) (Doc.unaryOk op) .tyUnary s
    | .member o _ _ s => exprT te o ++ [(Rule.bareMember, s)]
    | .call callee args _ s =>
        match callee with
        | .var fname _ _ =>
            (match GlobalB.ofName fname, args with
             | some .command, a :: _ => tyIf (typeOf te a) Doc.stringArgOk .tyCommandArg s
             | _, _ => []) ++ exprsT te args
        | .member obj field _ ms =>
            exprT te obj ++
              (match typeOf te obj with
               | none => []
               | some rt =>
                   if rt = .dynamic then [] else
                   match (MemberKind.ofType rt).bind (fun k => memberOf k field) with
                   | none => [(Rule.methodUnknown, ms)]
                   | some m =>
                       vIf (m.mutRecv && m.kind == .processCommand && !isVarRooted obj) .tyMutReceiver ms
                         ++ vIf (args.length != m.arity) .arityMethod ms
                         ++ vIf (!argsOk te (Doc.methodArgs m.kind m.name) args) .tyMethodArg ms)
              ++ exprsT te args
        | f => exprT te f ++ [(Rule.badCallee, s)] ++ exprsT te args
  def exprsT (te : TEnv) : List Expr → List Viol
    | [] => []
    | e :: es => exprT te e ++ exprsT te es
end

def commonType : List VType → VType
  | [] => .null
  | t :: ts => if ts.all (· == t) then t else .dynamic

/-- First definitions of a block: (name, parameter names, body). -/
def blockDefs : List Stmt → List Bytes → List (Bytes × List Bytes × Block)
  | [], _ => []
  | .fnDef name _ ps body _ _ _ :: rest, seen =>
      if seen.contains name then blockDefs rest seen
      else (name, ps.map (·.name), body) :: blockDefs rest (name :: seen)
  | _ :: rest, seen => blockDefs rest seen

/-- Names declared by `make` directly in a block. -/
def blockMakes : List Stmt → List Bytes
  | [] => []
  | .assign x _ _ _ _ _ :: rest => x :: blockMakes rest
  | _ :: rest => blockMakes rest

def setAt {α : Type} : List α → Nat → α → List α
  | [], _, _ => []
  | _ :: as, 0, x => x :: as
  | a :: as, n + 1, x => a :: setAt as n x

/-! The functions below are fuel-indexed: the fuel bounds the recursion *depth* (every call passes
the decremented fuel to its callees), `4 * size p + 8` suffices for a program `p`. -/

mutual
  /-- Types of the `return` expressions of a statement list, each typed where it stands
  (`cur` = the declared types of the enclosing block so far); nested function bodies excluded. -/
  def rStmts : Nat → TEnv → TScope → List Stmt → List VType
    | 0, _, _, _ => []
    | _ + 1, _, _, [] => []
    | n + 1, te, cur, s :: ss =>
        let here : TEnv := { te with vars := cur :: te.vars }
        match s with
        | .assign x _ e _ _ _ => rStmts n te (tDeclare cur x ((typeOf here e).getD .dynamic)) ss
        | .ret (some e) _ _ => (typeOf here e).getD .dynamic :: rStmts n te cur ss
        | .ret none _ _ => .null :: rStmts n te cur ss
        | .ifS _ (.mk t _) e _ _ =>
            rBlock n here t ++ (match e with | some (.mk e _) => rBlock n here e | none => []) ++ rStmts n te cur ss
        | .loop _ (.mk b _) _ _ => rBlock n here b ++ rStmts n te cur ss
        | .block (.mk b _) _ _ => rBlock n here b ++ rStmts n te cur ss
        | _ => rStmts n te cur ss
  /-- Return types inside a nested block (its own functions are visible in it). -/
  def rBlock : Nat → TEnv → List Stmt → List VType
    | 0, _, _ => []
    | n + 1, te, ss => rStmts n { te with fns := fnTable n te ss :: te.fns } [] ss
  /-- One round: every function's result type from its own `return`s, in definition order. -/
  def tableRound : Nat → TEnv → List Bytes → List (Bytes × List Bytes × Block) → Nat →
      List (Bytes × VType) → List (Bytes × VType)
    | 0, _, _, _, _, tab => tab
    | _ + 1, _, _, [], _, tab => tab
    | n + 1, te, makes, (name, ps, .mk body _) :: rest, i, tab =>
        let inner : TEnv := { vars := (ps.map (fun p => (p, VType.dynamic))).reverse
                                        :: makes.map (fun m => (m, VType.dynamic)) :: te.vars,
                              fns := tab :: te.fns }
        let t := commonType (rBlock n inner body)
        tableRound n te makes rest (i + 1) (setAt tab i (name, t))
  def tableIter : Nat → TEnv → List Bytes → List (Bytes × List Bytes × Block) → Nat →
      List (Bytes × VType) → List (Bytes × VType)
    | 0, _, _, _, _, tab => tab
    | _ + 1, _, _, _, 0, tab => tab
    | n + 1, te, makes, defs, k + 1, tab =>
        let tab' := tableRound n te makes defs 0 tab
        if tab' == tab then tab else tableIter n te makes defs k tab'
  /-- Result types of the functions of a block. -/
  def fnTable : Nat → TEnv → List Stmt → List (Bytes × VType)
    | 0, _, _ => []
    | n + 1, te, ss =>
        let defs := blockDefs ss []
        tableIter n te (blockMakes ss) defs defs.length (defs.map fun d => (d.1, VType.dynamic))
end

mutual
  def stmtsT : Nat → TEnv → TScope → List Bytes → List Stmt → List Viol
    | 0, _, _, _, _ => []
    | _ + 1, _, _, _, [] => []
    | n + 1, te, cur, seen, s :: ss =>
        let here : TEnv := { te with vars := cur :: te.vars }
        match s with
        | .assign x _ e _ _ _ =>
            exprT here e ++ stmtsT n te (tDeclare cur x ((typeOf here e).getD .dynamic)) seen ss
        | .assignExisting _ _ e _ _ _ => exprT here e ++ stmtsT n te cur seen ss
        | .assignIndex t e _ sp =>
            exprT here t ++ exprT here e ++ vIf (!isVarRooted t) .badIndexRoot sp ++ stmtsT n te cur seen ss
        | .ifS c t e _ _ =>
            exprT here c ++ tyIf (typeOf here c) Doc.condOk .tyCond c.span ++ blockT n here t
              ++ (match e with | some e => blockT n here e | none => []) ++ stmtsT n te cur seen ss
        | .loop c b _ _ =>
            exprT here c ++ tyIf (typeOf here c) Doc.condOk .tyCond c.span ++ blockT n here b
              ++ stmtsT n te cur seen ss
        | .block b _ _ => blockT n here b ++ stmtsT n te cur seen ss
        | .fnDef name _ ps body _ _ _ =>
            if seen.contains name then stmtsT n te cur seen ss else
              blockT n { here with vars := (ps.map (fun p => (p.name, VType.dynamic))).reverse :: here.vars } body
                ++ stmtsT n te cur (name :: seen) ss
        | .ret (some e) _ _ => exprT here e ++ stmtsT n te cur seen ss
        | .expr e _ _ => exprT here e ++ stmtsT n te cur seen ss
        | _ => stmtsT n te cur seen ss
  def blockT : Nat → TEnv → Block → List Viol
    | 0, _, _ => []
    | n + 1, te, .mk ss _ => stmtsT n { te with fns := fnTable n te ss :: te.fns } [] [] ss
end

/-! Size of a program: an upper bound of the recursion depth of the fuel-indexed functions. -/
mutual
  def sizeStmt : Stmt → Nat
    | .fnDef _ _ _ b _ _ _ => 2 + sizeBlock b
    | .ifS _ t e _ _ => 2 + sizeBlock t + sizeOptBlock e
    | .loop _ b _ _ => 2 + sizeBlock b
    | .block b _ _ => 2 + sizeBlock b
    | _ => 1
  def sizeStmts : List Stmt → Nat
    | [] => 0
    | s :: ss => sizeStmt s + sizeStmts ss
  def sizeBlock : Block → Nat
    | .mk ss _ => 2 + sizeStmts ss
  def sizeOptBlock : Option Block → Nat
    | none => 0
    | some b => sizeBlock b
end

def typeViolations (p : Block) : List Viol := blockT (4 * sizeBlock p + 8) { vars := [], fns := [] } p

/-- The documented judgement: the program breaks no static rule. -/
def WF (p : Block) : Prop := scopeViolations p = [] ∧ typeViolations p = []

instance (p : Block) : Decidable (WF p) := by unfold WF; infer_instance

end NaijaVerif.Spec
