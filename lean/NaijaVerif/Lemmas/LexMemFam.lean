import NaijaVerif.Lemmas.LexMemSum
/-
A concrete family for D-19: the source `"\n"` repeated `n` times (4·n bytes, `n` owned string tokens).
The lexer model is evaluated on it symbolically, for every `n`: the pinned reservation
(`reserve_exact(bytes.len())`) sums to `n·(2n+1)`, the fixed one to `2n`.
-/
namespace NaijaVerif.Lex
open NaijaVerif NaijaVerif.Utf8

/-- `"\n"` repeated `n` times -/
def escFamily : Nat → Bytes
  | 0 => []
  | n + 1 => 34 :: 92 :: 110 :: 34 :: escFamily n

theorem escFamily_length (n : Nat) : (escFamily n).length = 4 * n := by
  induction n with
  | zero => rfl
  | succ n ih => simp only [escFamily, List.length_cons, ih]; omega

theorem escFamily_valid (n : Nat) : validUtf8 (escFamily n) = true := by
  induction n with
  | zero => exact valid_nil
  | succ n ih =>
    simp only [escFamily]
    rw [valid_cons_ascii (by omega), valid_cons_ascii (by omega), valid_cons_ascii (by omega),
      valid_cons_ascii (by omega)]
    exact ih

/-- one `"\n"`: an owned string token of four bytes -/
theorem step_fam (p : Nat) (r : Bytes) :
    step ⟨p, 34 :: 92 :: 110 :: 34 :: r⟩ = .tok ⟨.str [10] true, ⟨p, p + 4⟩⟩ ⟨p + 4, r⟩ [] := by
  simp [step, skipWs, Cur.skipWhile, isWs, commentChar, quoteChars, scanString, scanStrLoop, notQuoteEsc, notNl,
    escapeOf, escTable]

theorem step_nil (p : Nat) : step ⟨p, []⟩ = .eof p := by
  simp [step, skipWs, Cur.skipWhile]

/-- the pinned code reserves everything that follows the opening quote -/
theorem buf_fam_pinned (r : Bytes) (f : Nat) :
    bufLoop hintPinned 34 (f + 2) (92 :: 110 :: 34 :: r) 0 false ⟨0, 0⟩ = ⟨r.length + 3, 1, true, r, false⟩ := by
  simp [bufLoop, notQuoteEsc, notNl, escapeOf, escTable, hintPinned, Buf.reserveExact, Buf.push, Buf.reserve]

/-- the fixed code reserves up to the closing quote -/
theorem buf_fam_fixed (r : Bytes) (f : Nat) :
    bufLoop hintFixed 34 (f + 2) (92 :: 110 :: 34 :: r) 0 false ⟨0, 0⟩ = ⟨2, 1, true, r, false⟩ := by
  simp [bufLoop, notQuoteEsc, notNl, escapeOf, escTable, hintFixed, memchr2From, Buf.reserveExact, Buf.push, Buf.reserve]

def famToks (p : Nat) : Nat → List SpTok
  | 0 => []
  | n + 1 => ⟨.str [10] true, ⟨p, p + 4⟩⟩ :: famToks (p + 4) n

theorem lexGo_fam : ∀ (n f p : Nat), n < f → (lexGo f ⟨p, escFamily n⟩).1 = famToks p n := by
  intro n
  induction n with
  | zero =>
    intro f p h
    cases f with
    | zero => omega
    | succ f => exact lexGo_toks_eof (step_nil p)
  | succ n ih =>
    intro f p h
    cases f with
    | zero => omega
    | succ f =>
      rw [escFamily, lexGo_toks_tok (step_fam p _), ih f (p + 4) (by omega)]
      rfl

theorem drop_fam : ∀ (k n : Nat), (escFamily (k + n)).drop (4 * k) = escFamily n := by
  intro k
  induction k with
  | zero => intro n; simp
  | succ k ih =>
    intro n
    rw [show k + 1 + n = (k + n) + 1 by omega, show 4 * (k + 1) = 4 + 4 * k by omega, escFamily,
      ← List.drop_drop]
    exact ih n

/-- capacities of a run of `n` tokens, `g i` = capacity of a token followed by `i` more -/
def famCaps (g : Nat → Nat) : Nat → List Nat
  | 0 => []
  | n + 1 => g n :: famCaps g n

theorem capsOf_fam (cap : Bytes → Nat → Nat) (g : Nat → Nat) (N : Nat)
    (hcap : ∀ k n, k + (n + 1) = N → cap (escFamily N) (4 * k) = g n) :
    ∀ (n k : Nat), k + n = N → capsOf cap (escFamily N) (famToks (4 * k) n) = famCaps g n := by
  intro n
  induction n with
  | zero => intro k _; rfl
  | succ n ih =>
    intro k hk
    rw [famToks, capsOf_cons]
    have : isOwnedStr ⟨.str [10] true, ⟨4 * k, 4 * k + 4⟩⟩ = true := rfl
    rw [if_pos this, show 4 * k + 4 = 4 * (k + 1) by omega, ih (k + 1) (by omega)]
    simp only [famCaps]
    rw [hcap k n hk]

theorem strBuf_fam (hint : Nat → Bytes → Nat → Nat → Nat) (N k n : Nat) (h : k + (n + 1) = N) :
    strBuf hint (escFamily N) (4 * k) =
      bufLoop hint 34 ((escFamily n).length + 2 + 2) (92 :: 110 :: 34 :: escFamily n) 0 false ⟨0, 0⟩ := by
  subst h
  have hd := drop_fam k (n + 1)
  simp only [strBuf]
  rw [hd]
  rfl

theorem strCapPinned_fam (N k n : Nat) (h : k + (n + 1) = N) : strCapPinned (escFamily N) (4 * k) = 4 * n + 3 := by
  rw [strCapPinned, strBuf_fam _ N k n h, buf_fam_pinned, escFamily_length]

theorem strCap_fam (N k n : Nat) (h : k + (n + 1) = N) : strCap (escFamily N) (4 * k) = 2 := by
  rw [strCap, strBuf_fam _ N k n h, buf_fam_fixed]

theorem famCaps_pinned_sum (n : Nat) : (famCaps (fun i => 4 * i + 3) n).sum = n * (2 * n + 1) := by
  induction n with
  | zero => rfl
  | succ n ih =>
    simp only [famCaps, List.sum_cons, ih, Nat.add_mul, Nat.mul_add, Nat.mul_one, Nat.one_mul]
    have : n * (2 * n) = 2 * (n * n) := by rw [Nat.mul_left_comm]
    have : 2 * n * n = 2 * (n * n) := Nat.mul_assoc _ _ _
    omega

theorem famCaps_fixed_sum (n : Nat) : (famCaps (fun _ => 2) n).sum = 2 * n := by
  induction n with
  | zero => rfl
  | succ n ih => simp only [famCaps, List.sum_cons, ih]; omega

theorem lexCapsPinned_fam (n : Nat) : (lexCapsPinned (escFamily n)).sum = n * (2 * n + 1) := by
  rw [lexCapsPinned, capsOf_lex, lexGo_fam n _ 0 (by rw [escFamily_length]; omega)]
  have := capsOf_fam strCapPinned (fun i => 4 * i + 3) n (fun k m h => strCapPinned_fam n k m h) n 0 (by omega)
  rw [show 4 * 0 = 0 from rfl] at this
  rw [this, famCaps_pinned_sum]

theorem lexCaps_fam (n : Nat) : (lexCaps (escFamily n)).sum = 2 * n := by
  rw [lexCaps, capsOf_lex, lexGo_fam n _ 0 (by rw [escFamily_length]; omega)]
  have := capsOf_fam strCap (fun _ => 2) n (fun k m h => strCap_fam n k m h) n 0 (by omega)
  rw [show 4 * 0 = 0 from rfl] at this
  rw [this, famCaps_fixed_sum]

end NaijaVerif.Lex
