import NaijaVerif.Lemmas.EvalScopeLookup
/-
C04, dynamic half — `MR` on evaluator states: the lookups of the two modes agree, and every
state-changing primitive (`updateAt`, `define`, block entry with hoisting, the parameter scope of a
call, `popScope`) preserves the invariant and the frame.
-/
namespace NaijaVerif.Eval
open NaijaVerif

variable {N : Type}

/-! ### Lookups in a state -/

theorem slotOf_agree {cfg : RunCfg} {Γ : List Binder} {st : State N} (h : MR cfg Γ st)
    {b : Option Nat} (hb : boundIn Γ b = true) (name : Bytes) :
    slotOf cfg.dyn st b name = slotOf cfg.lex st b name := by
  cases b with
  | none => simp [boundIn] at hb
  | some l =>
    have h1 : slotOf cfg.dyn st (some l) name = findOwned l st.env := rfl
    have h2 : slotOf cfg.lex st (some l) name =
        findPos (fun s : Scope N => st.chain.contains s.uid) (fun sl : Slot N => sl.id == some l) st.env := by
      show findPos (visible cfg.lex st.chain) (Slot.matches (some l) name) st.env = _
      have : visible (N := N) cfg.lex st.chain = fun s : Scope N => st.chain.contains s.uid :=
        funext (visible_lex cfg st.chain)
      rw [this]; rfl
    rw [h1, h2]
    exact findOwned_eq_findPos h.link h.ctx h.slots hb

theorem lookupVal_agree {cfg : RunCfg} {Γ : List Binder} {st : State N} (h : MR cfg Γ st)
    {b : Option Nat} (hb : boundIn Γ b = true) (name : Bytes) :
    lookupVal cfg.dyn st b name = lookupVal cfg.lex st b name := by
  simp only [lookupVal, slotOf_agree h hb]

theorem assign_agree {cfg : RunCfg} {Γ : List Binder} {st : State N} (h : MR cfg Γ st)
    {b : Option Nat} (hb : boundIn Γ b = true) (name : Bytes) (v : Value N) :
    assign cfg.dyn st b name v = assign cfg.lex st b name v := by
  simp only [assign, slotOf_agree h hb]

theorem lookupFn_agree {cfg : RunCfg} {Γ : List Binder} {st : State N} (h : MR cfg Γ st)
    {a : Option Nat} (ha : fnBoundIn Γ a = true) (name : Bytes) :
    lookupFn cfg.dyn st a name = lookupFn cfg.lex st a name := by
  cases a with
  | none => simp [fnBoundIn] at ha
  | some i =>
    have hd : visible (N := N) cfg.dyn st.chain = fun _ : Scope N => true :=
      funext (visible_dyn cfg st.chain)
    have hl : visible (N := N) cfg.lex st.chain = fun s : Scope N => st.chain.contains s.uid :=
      funext (visible_lex cfg st.chain)
    simp only [lookupFn, hd, hl]
    exact findFn_agree h.link h.ctx ha

theorem lookupFn_lex_spec {cfg : RunCfg} {Γ : List Binder} {st : State N} (h : MR cfg Γ st)
    {a : Option Nat} {name : Bytes} {fd : FnEntry} (hf : lookupFn cfg.lex st a name = some fd) :
    ∃ j, fd.chain = st.chain.drop j ∧ WSFn (Γ.drop j) fd ∧ ∃ i, fd.id = some i := by
  have hl : visible (N := N) cfg.lex st.chain = fun s : Scope N => st.chain.contains s.uid :=
    funext (visible_lex cfg st.chain)
  have hid : ∃ i, fd.id = some i := by
    -- every hoisted function carries an id
    have key : ∀ (vis : Scope N → Bool) (p : FnEntry → Bool) (env : List (Scope N)),
        findFn vis p env = some fd → ∃ T ∈ env, fd ∈ T.fns := by
      intro vis p env
      induction env with
      | nil => intro hh; simp [findFn] at hh
      | cons S r ih =>
        intro hh
        simp only [findFn] at hh
        split at hh
        · split at hh
          · next fd' hfd' =>
            cases hh
            exact ⟨S, List.mem_cons_self, List.mem_of_find?_eq_some hfd'⟩
          · obtain ⟨T, hT, hm⟩ := ih hh
            exact ⟨T, List.mem_cons_of_mem _ hT, hm⟩
        · obtain ⟨T, hT, hm⟩ := ih hh
          exact ⟨T, List.mem_cons_of_mem _ hT, hm⟩
    have : ∃ T ∈ st.env, fd ∈ T.fns := by
      cases a with
      | some i => exact key _ _ _ (by simpa only [lookupFn] using hf)
      | none => exact key _ _ _ (by simpa only [lookupFn] using hf)
    obtain ⟨T, hT, hm⟩ := this
    obtain ⟨i, hi, _⟩ := h.link.unpruned T hT fd hm
    exact ⟨i, hi⟩
  cases a with
  | some i =>
    simp only [lookupFn, hl] at hf
    obtain ⟨j, h1, h2⟩ := findFn_lex_spec h.link hf
    exact ⟨j, h1, h2, hid⟩
  | none =>
    simp only [lookupFn, hl] at hf
    obtain ⟨j, h1, h2⟩ := findFn_lex_spec h.link hf
    exact ⟨j, h1, h2, hid⟩

/-! ### What the skeleton determines -/

/-- Skeleton plus the ids of the slots: what `SlotsOK` reads. -/
def Scope.key (s : Scope N) : Skel × List (Option Nat) := (s.skel, s.slots.map (·.id))

theorem SlotsOK.congr {env env' : List (Scope N)} (h : SlotsOK env)
    (he : env'.map Scope.key = env.map Scope.key) : SlotsOK env' := by
  intro S' hS' sl' hsl'
  have hm : S'.key ∈ env.map Scope.key := by rw [← he]; exact List.mem_map_of_mem hS'
  obtain ⟨S, hS, e⟩ := List.mem_map.1 hm
  have e1 : S.decls = S'.decls := congrArg (fun k => k.1.decls) e
  have e2 : S.slots.map (·.id) = S'.slots.map (·.id) := congrArg (fun k => k.2) e
  have : sl'.id ∈ S.slots.map (·.id) := by rw [e2]; exact List.mem_map_of_mem hsl'
  obtain ⟨sl, hsl, e3⟩ := List.mem_map.1 this
  obtain ⟨l, hl, hm⟩ := h S hS sl hsl
  exact ⟨l, by rw [← e3]; exact hl, by rw [← e1]; exact hm⟩

theorem SlotsOK.tail {env : List (Scope N)} (h : SlotsOK env) : SlotsOK env.tail :=
  fun S hS => h S (List.mem_of_mem_tail hS)

theorem modify_map_eq {α β : Type} (F : α → β) (g : α → α) (hg : ∀ a, F (g a) = F a) :
    ∀ (l : List α) (i : Nat), (l.modify i g).map F = l.map F
  | [], _ => by simp
  | a :: l, 0 => by simp [hg]
  | a :: l, i + 1 => by simp [modify_map_eq F g hg l i]

theorem updateAt_key (env : List (Scope N)) (pos : Nat × Nat) (f : Value N → Value N) :
    (updateAt env pos f).map Scope.key = env.map Scope.key := by
  unfold updateAt
  apply modify_map_eq
  intro s
  simp only [Scope.key, Scope.skel]
  congr 1
  apply modify_map_eq (fun sl : Slot N => sl.id)
  intro _; rfl

theorem key_skel {env env' : List (Scope N)} (h : env'.map Scope.key = env.map Scope.key) :
    env'.map Scope.skel = env.map Scope.skel := by
  have := congrArg (List.map Prod.fst) h
  simpa [List.map_map, Function.comp_def, Scope.key] using this

/-- The skeleton, the chain and the slot discipline decide `MR`. -/
theorem MR.transfer {cfg : RunCfg} {Γ : List Binder} {st st' : State N} (h : MR cfg Γ st)
    (hsk : st'.env.map Scope.skel = st.env.map Scope.skel) (hch : st'.chain = st.chain)
    (hn : st.next ≤ st'.next) (hsl : SlotsOK st'.env) : MR cfg Γ st' := by
  refine ⟨?_, h.ctx, hsl, ?_, ?_⟩
  · rw [hch]; exact h.link.congr hsk
  · intro S hS
    have hm : S.skel ∈ st.env.map Scope.skel := by rw [← hsk]; exact List.mem_map_of_mem hS
    obtain ⟨S0, hS0, e⟩ := List.mem_map.1 hm
    have : S.uid = S0.uid := (congrArg Skel.uid e).symm
    have := h.fresh S0 hS0
    omega
  · intro β Γ' hΓ
    obtain ⟨S, rest, he, hd⟩ := h.top β Γ' hΓ
    rw [he] at hsk
    cases hst : st'.env with
    | nil => rw [hst] at hsk; simp at hsk
    | cons S' rest' =>
      rw [hst] at hsk
      simp only [List.map_cons, List.cons.injEq] at hsk
      exact ⟨S', rest', rfl, by rw [← hd]; exact congrArg Skel.decls hsk.1⟩

/-- Output and input are not part of the invariant. -/
theorem MR.of_env {cfg : RunCfg} {Γ : List Binder} {st st' : State N} (h : MR cfg Γ st)
    (he : st'.env = st.env) (hc : st'.chain = st.chain) (hn : st'.next = st.next) : MR cfg Γ st' :=
  h.transfer (by rw [he]) hc (by omega) (by rw [he]; exact h.slots)

theorem Frame.of_env {st st' : State N} (he : st'.env = st.env) (hc : st'.chain = st.chain)
    (hn : st'.next = st.next) : Frame st st' :=
  ⟨hc, by rw [he], by omega⟩

/-! ### Stores -/

theorem MR.updateAt {cfg : RunCfg} {Γ : List Binder} {st : State N} (h : MR cfg Γ st)
    (pos : Nat × Nat) (f : Value N → Value N) :
    MR cfg Γ { st with env := updateAt st.env pos f } ∧ Frame st { st with env := updateAt st.env pos f } := by
  have hk := updateAt_key st.env pos f
  exact ⟨h.transfer (key_skel hk) rfl (Nat.le_refl _) (h.slots.congr hk), ⟨rfl, key_skel hk, Nat.le_refl _⟩⟩

theorem MR.define {cfg : RunCfg} {Γ : List Binder} {st : State N} (h : MR cfg Γ st)
    {b : Option Nat} (hb : headDecl Γ b = true) (name : Bytes) (v : Value N) :
    MR cfg Γ (define st b name v) ∧ Frame st (define st b name v) := by
  cases Γ with
  | nil => simp [headDecl] at hb
  | cons β Γ' =>
    cases b with
    | none => simp [headDecl] at hb
    | some l =>
      have hl : l ∈ β.decls := by simpa [headDecl] using hb
      obtain ⟨S, rest, he, hd⟩ := h.top β Γ' rfl
      have hsl := h.slots
      unfold NaijaVerif.Eval.define
      rw [he] at hsl ⊢
      simp only
      split
      · next j _ =>
        have hk : (({ S with slots := S.slots.modify j (fun sl => { sl with val := v }) } : Scope N) :: rest).map Scope.key
            = (S :: rest).map Scope.key := by
          simp only [List.map_cons, Scope.key, Scope.skel]
          congr 2
          apply modify_map_eq (fun sl : Slot N => sl.id)
          intro _; rfl
        have hsk := key_skel hk
        refine ⟨h.transfer (by simpa [he] using hsk) rfl (Nat.le_refl _) (hsl.congr hk),
          ⟨rfl, by simpa [he] using hsk, Nat.le_refl _⟩⟩
      · have hsk : (({ S with slots := { id := some l, name := name, val := v } :: S.slots } : Scope N) :: rest).map Scope.skel
            = (S :: rest).map Scope.skel := by
          simp [Scope.skel]
        refine ⟨h.transfer (by simpa [he] using hsk) rfl (Nat.le_refl _) ?_,
          ⟨rfl, by simpa [he] using hsk, Nat.le_refl _⟩⟩
        intro T hT sl hsl'
        rcases List.mem_cons.1 hT with rfl | hT
        · rcases List.mem_cons.1 hsl' with rfl | hsl'
          · exact ⟨l, rfl, by show l ∈ S.decls; rw [hd]; exact hl⟩
          · exact hsl S List.mem_cons_self sl hsl'
        · exact hsl T (List.mem_cons_of_mem _ hT) sl hsl'

/-! ### Scopes -/

/-- Leaving a scope (block exit, return): the stack below is as it was, up to values. -/
theorem MR.pop {cfg : RunCfg} {Γ : List Binder} {st sti st2 : State N} (h : MR cfg Γ st)
    {T : Scope N} (hi : sti.env = T :: st.env) (hn : st.next ≤ sti.next) (hf : Frame sti st2)
    (hs : SlotsOK st2.env) :
    MR cfg Γ (popScope st2 st.chain) ∧ Frame st (popScope st2 st.chain) := by
  have hsk : st2.env.tail.map Scope.skel = st.env.map Scope.skel := by
    have := hf.skel
    rw [hi] at this
    cases h2 : st2.env with
    | nil => rw [h2] at this; simp at this
    | cons S' r' =>
      rw [h2] at this
      simp only [List.map_cons, List.cons.injEq] at this
      simpa using this.2
  have hnx : st.next ≤ st2.next := Nat.le_trans hn hf.next
  exact ⟨h.transfer hsk rfl hnx hs.tail, ⟨rfl, hsk, hnx⟩⟩

theorem hoist_cfg (cfg cfg' : RunCfg) (hp : cfg'.plan = cfg.plan) (ss : List Stmt) (st : State N) :
    hoist cfg' ss st = hoist cfg ss st := by
  induction ss generalizing st with
  | nil => rfl
  | cons s rest ih =>
    cases s <;> simp only [hoist, hp, ih]

/-- What `hoist` does to the innermost scope: it registers exactly the un-pruned definitions, each
with the current static chain; under well-scopedness they satisfy `FnsOK`'s first clause. -/
theorem hoist_spec {cfg : RunCfg} {β : Binder} {Γ : List Binder} {ch : List Nat} :
    ∀ (ss : List Stmt) (st : State N) (T : Scope N) (r : List (Scope N)),
      st.env = T :: r → st.chain = ch → wsStmts (β :: Γ) ss = true →
      (∀ fd ∈ T.fns, ∃ i, fd.id = some i ∧ i ∈ β.fnIds ∧ Plan.prunesFn cfg.plan (some i) = false ∧
          fd.chain = ch ∧ WSFn (β :: Γ) fd) →
      ∃ T' : Scope N, hoist cfg ss st = { st with env := T' :: r } ∧ T'.uid = T.uid ∧ T'.decls = T.decls ∧
        T'.slots = T.slots ∧
        (∀ fd ∈ T'.fns, ∃ i, fd.id = some i ∧ i ∈ β.fnIds ∧ Plan.prunesFn cfg.plan (some i) = false ∧
          fd.chain = ch ∧ WSFn (β :: Γ) fd) ∧
        (∀ fd ∈ T.fns, fd ∈ T'.fns) ∧
        (∀ i ∈ fnIdsOf ss, Plan.prunesFn cfg.plan (some i) = false → ∃ fd ∈ T'.fns, fd.id = some i) := by
  intro ss
  induction ss with
  | nil =>
    intro st T r he _ _ hT
    exact ⟨T, by simp [hoist, ← he], rfl, rfl, rfl, hT, fun _ h => h, by simp [fnIdsOf]⟩
  | cons s rest ih =>
    intro st T r he hch hws hT
    simp only [wsStmts, Bool.and_eq_true] at hws
    obtain ⟨hs, hrest⟩ := hws
    have other : (∀ st' : State N, hoist cfg (s :: rest) st = hoist cfg rest st) → fnIdsOf (s :: rest) = fnIdsOf rest →
        ∃ T' : Scope N, hoist cfg (s :: rest) st = { st with env := T' :: r } ∧ T'.uid = T.uid ∧ T'.decls = T.decls ∧
        T'.slots = T.slots ∧
        (∀ fd ∈ T'.fns, ∃ i, fd.id = some i ∧ i ∈ β.fnIds ∧ Plan.prunesFn cfg.plan (some i) = false ∧
          fd.chain = ch ∧ WSFn (β :: Γ) fd) ∧
        (∀ fd ∈ T.fns, fd ∈ T'.fns) ∧
        (∀ i ∈ fnIdsOf (s :: rest), Plan.prunesFn cfg.plan (some i) = false → ∃ fd ∈ T'.fns, fd.id = some i) := by
      intro h1 h2
      rw [h1 st, h2]
      exact ih st T r he hch hrest hT
    cases s with
    | fnDef name nsp params body fn sid sp =>
      simp only [wsStmt, Bool.and_eq_true] at hs
      obtain ⟨⟨⟨hfn, hps⟩, hfr⟩, hbody⟩ := hs
      cases fn with
      | none => simp [headFn] at hfn
      | some i =>
        have hi : i ∈ β.fnIds := by simpa [headFn] using hfn
        cases hp : Plan.prunesFn cfg.plan (some i) with
        | true =>
          have h1 : hoist cfg (.fnDef name nsp params body (some i) sid sp :: rest) st = hoist cfg rest st := by
            simp only [hoist, hp, if_true]
          obtain ⟨T', e, a1, a2, a3, a4, a5, a6⟩ := ih st T r he hch hrest hT
          refine ⟨T', by rw [h1, e], a1, a2, a3, a4, a5, ?_⟩
          intro i' hi' hnp
          simp only [fnIdsOf, List.mem_cons] at hi'
          rcases hi' with rfl | hi'
          · rw [hp] at hnp; cases hnp
          · exact a6 i' hi' hnp
        | false =>
          let fd : FnEntry := { id := some i, name := name, params := params, body := body, chain := st.chain }
          let T1 : Scope N := { T with fns := fd :: T.fns }
          have h1 : hoist cfg (.fnDef name nsp params body (some i) sid sp :: rest) st =
              hoist cfg rest { st with env := T1 :: r } := by
            simp only [hoist, hp, he]; rfl
          have hT1 : ∀ fd' ∈ T1.fns, ∃ i, fd'.id = some i ∧ i ∈ β.fnIds ∧ Plan.prunesFn cfg.plan (some i) = false ∧
              fd'.chain = ch ∧ WSFn (β :: Γ) fd' := by
            intro fd' hfd'
            rcases List.mem_cons.1 hfd' with rfl | hfd'
            · exact ⟨i, rfl, hi, hp, hch, hps, hfr, hbody⟩
            · exact hT fd' hfd'
          obtain ⟨T', e, a1, a2, a3, a4, a5, a6⟩ := ih { st with env := T1 :: r } T1 r rfl hch hrest hT1
          refine ⟨T', by rw [h1, e], a1, a2, a3, a4, fun fd' hfd' => a5 fd' (List.mem_cons_of_mem _ hfd'), ?_⟩
          intro i' hi' hnp
          simp only [fnIdsOf, List.mem_cons] at hi'
          rcases hi' with rfl | hi'
          · exact ⟨fd, a5 fd List.mem_cons_self, rfl⟩
          · exact a6 i' hi' hnp
    | assign _ _ _ b _ _ => exact other (fun _ => by simp only [hoist]) (by simp only [fnIdsOf])
    | assignExisting => exact other (fun _ => by simp only [hoist]) (by simp only [fnIdsOf])
    | assignIndex => exact other (fun _ => by simp only [hoist]) (by simp only [fnIdsOf])
    | ifS => exact other (fun _ => by simp only [hoist]) (by simp only [fnIdsOf])
    | loop => exact other (fun _ => by simp only [hoist]) (by simp only [fnIdsOf])
    | block => exact other (fun _ => by simp only [hoist]) (by simp only [fnIdsOf])
    | ret => exact other (fun _ => by simp only [hoist]) (by simp only [fnIdsOf])
    | brk => exact other (fun _ => by simp only [hoist]) (by simp only [fnIdsOf])
    | cont => exact other (fun _ => by simp only [hoist]) (by simp only [fnIdsOf])
    | expr => exact other (fun _ => by simp only [hoist]) (by simp only [fnIdsOf])

/-- **Block entry** preserves MR: the new scope is the most recent instance of its block, and a
block is not its own lexical ancestor (`freshIn`). -/
theorem MR.enterBlock {cfg : RunCfg} {Γ : List Binder} {st : State N} (h : MR cfg Γ st)
    (kind : ScopeKind) (ss : List Stmt) (hfr : freshIn Γ (.ofStmts ss) = true)
    (hws : wsStmts (.ofStmts ss :: Γ) ss = true) :
    ∃ T : Scope N, hoist cfg ss (pushScope st kind st.chain [] (declIds ss)) =
        { pushScope st kind st.chain [] (declIds ss) with env := T :: st.env } ∧
      MR cfg (.ofStmts ss :: Γ) { pushScope st kind st.chain [] (declIds ss) with env := T :: st.env } := by
  let T0 : Scope N := { uid := st.next, kind := kind, slots := [], fns := [], decls := declIds ss }
  obtain ⟨T', e, a1, a2, a3, a4, _, a6⟩ :=
    hoist_spec (cfg := cfg) (β := .ofStmts ss) (Γ := Γ) (ch := st.next :: st.chain) ss
      (pushScope st kind st.chain [] (declIds ss)) T0 st.env rfl rfl hws (by intro fd hfd; cases hfd)
  refine ⟨T', e, ?_, ⟨hfr, h.ctx⟩, ?_, ?_, ?_⟩
  · show Link cfg (.ofStmts ss :: Γ) (st.next :: st.chain) (T' :: st.env)
    have hl : Link cfg (.ofStmts ss :: Γ) (T'.uid :: st.chain) (T' :: st.env) :=
      .take T' (.ofStmts ss) (by rw [a1]; exact h.fresh) (by rw [a2]; rfl)
        ⟨by rw [a1]; exact a4, fun i hi hp => a6 i hi hp⟩ h.link
    rw [a1] at hl; exact hl
  · intro S hS sl hsl
    rcases List.mem_cons.1 hS with rfl | hS
    · rw [a3] at hsl; cases hsl
    · exact h.slots S hS sl hsl
  · intro S hS
    show S.uid < st.next + 1
    rcases List.mem_cons.1 hS with rfl | hS
    · rw [a1]; exact Nat.lt_succ_self _
    · exact Nat.lt_succ_of_lt (h.fresh S hS)
  · intro β Γ' hΓ
    cases hΓ
    exact ⟨T', st.env, rfl, by rw [a2]; rfl⟩

/-- The slots of a parameter scope hold the parameters' ids. -/
theorem paramSlots_ids (params : List Param) (vs : List (Value N))
    (hall : params.all (fun p => p.bind.isSome) = true) :
    ∀ sl ∈ paramSlots params (params.map (·.bind)) vs,
      ∃ l, sl.id = some l ∧ l ∈ (params.map (·.bind)).filterMap id := by
  intro sl hsl
  simp only [paramSlots, List.mem_reverse, List.mem_map] at hsl
  obtain ⟨q, hq, rfl⟩ := hsl
  have h1 : q.1 ∈ params.zip (params.map (·.bind)) := (List.of_mem_zip (a := q.1) (b := q.2) (by simpa using hq)).1
  have h2 : q.1.2 ∈ params.map (·.bind) := (List.of_mem_zip (a := q.1.1) (b := q.1.2) (by simpa using h1)).2
  obtain ⟨p, hp, e⟩ := List.mem_map.1 h2
  have hs : p.bind.isSome = true := (List.all_eq_true.1 hall) p hp
  obtain ⟨l, hl⟩ := Option.isSome_iff_exists.1 hs
  refine ⟨l, by simp only; rw [← e, hl], ?_⟩
  rw [List.mem_filterMap]
  exact ⟨some l, by rw [← hl]; exact List.mem_map_of_mem hp, rfl⟩

/-- **Call** preserves MR: the callee's chain is the caller's chain cut at the callee's defining
scope (functions are not first-class), every scope above that one — the rest of the caller's chain
included — is now off the chain and declares nothing the callee's ancestors declare. -/
theorem MR.enterCall {cfg : RunCfg} {Γ : List Binder} {st : State N} (h : MR cfg Γ st)
    {a : Option Nat} {name : Bytes} {fd : FnEntry} (hf : lookupFn cfg.lex st a name = some fd)
    {ids : List (Option Nat)} (hids : paramIds fd = some ids) (vs : List (Value N)) :
    ∃ j, fd.chain = st.chain.drop j ∧
      MR cfg (.ofParams fd.params :: Γ.drop j)
        (pushScope st (.params fd.id) fd.chain (paramSlots fd.params ids vs) (ids.filterMap id)) ∧
      wsBlock (.ofParams fd.params :: Γ.drop j) fd.body = true := by
  obtain ⟨j, hch, ⟨hall, hfr, hbody⟩, i, hid⟩ := lookupFn_lex_spec h hf
  have hids' : ids = fd.params.map (·.bind) := by
    simp only [paramIds, hid, hall, if_true] at hids
    exact (Option.some.inj hids).symm
  have hdecl : ids.filterMap id = (Binder.ofParams fd.params).decls := by
    rw [hids']; simp [Binder.ofParams, List.filterMap_map, Function.comp_def]
  refine ⟨j, hch, ⟨?_, ⟨hfr, h.ctx.drop j⟩, ?_, ?_, ?_⟩, hbody⟩
  · show Link cfg (.ofParams fd.params :: Γ.drop j) (st.next :: fd.chain) (_ :: st.env)
    rw [hch]
    exact .take { uid := st.next, kind := .params fd.id, slots := paramSlots fd.params ids vs, fns := [],
                  decls := ids.filterMap id } (.ofParams fd.params) h.fresh hdecl
      ⟨(by intro fd' hfd'; cases hfd'), (by intro i' hi'; cases hi')⟩ (h.link.cut j h.ctx)
  · intro S hS sl hsl
    rcases List.mem_cons.1 hS with rfl | hS
    · have := paramSlots_ids fd.params vs hall sl (by rw [← hids']; exact hsl)
      rw [← hids'] at this
      exact this
    · exact h.slots S hS sl hsl
  · intro S hS
    show S.uid < st.next + 1
    rcases List.mem_cons.1 hS with rfl | hS
    · exact Nat.lt_succ_self _
    · exact Nat.lt_succ_of_lt (h.fresh S hS)
  · intro β Γ' hΓ
    cases hΓ
    exact ⟨_, st.env, rfl, hdecl⟩

/-- The state `run` starts from satisfies MR in the context of the extra root scope. -/
theorem MR.init (cfg cfg' : RunCfg) : MR (N := N) cfg [Binder.root] (State.init cfg') := by
  refine ⟨?_, ⟨by simp [freshIn, Binder.root], trivial⟩, ?_, ?_, ?_⟩
  · exact .take { uid := 0, kind := .root, slots := [], fns := [], decls := [] } Binder.root
      (by intro T hT; cases hT) rfl ⟨(by intro fd hfd; cases hfd), (by intro i hi; cases hi)⟩ .nil
  · intro S hS sl hsl
    simp only [State.init, List.mem_singleton] at hS
    subst hS; cases hsl
  · intro S hS
    simp only [State.init, List.mem_singleton] at hS
    subst hS; exact Nat.zero_lt_one
  · intro β Γ' hΓ
    cases hΓ
    exact ⟨_, [], rfl, rfl⟩

end NaijaVerif.Eval
