import NaijaVerif.Model.Analysis
import NaijaVerif.Lemmas.ParseDefs
/-
C07, behind the parser (2): the spans of the analysis warnings.

Every warning of `Analysis.analyse root facts` (unreachable code, unused assignment / variable /
function) is reported at the span of a row of the statement table — the statement's own span, the
`var_span` of an assignment or the `name_span` of a function definition — and every such span is a span
of `root` (`Parse.blockSpans`).  The one span the model synthesises is the default `0..0` of `spanOf`
for a statement id without a row; it is kept in the statement (it is safe for every text).
-/
namespace NaijaVerif.SpanSafe
open NaijaVerif NaijaVerif.Parse NaijaVerif.Analysis

theorem span_mem_stmtSpans (s : Stmt) : s.span ∈ stmtSpans s := by
  cases s with
  | ifS c t e sid sp => cases e <;> simp [Stmt.span, stmtSpans]
  | ret e sid sp => cases e <;> simp [Stmt.span, stmtSpans]
  | _ => simp [Stmt.span, stmtSpans]

theorem stmtAux_mem_stmtSpans (s : Stmt) : stmtAux s ∈ stmtSpans s := by
  cases s with
  | ifS c t e sid sp => cases e <;> simp [stmtAux, Stmt.span, stmtSpans]
  | ret e sid sp => cases e <;> simp [stmtAux, Stmt.span, stmtSpans]
  | _ => simp [stmtAux, Stmt.span, stmtSpans]

theorem mkRow_spans (pl live : Bool) (s : Stmt) (r : Row) (h : r ∈ mkRow pl live s) :
    r.span ∈ stmtSpans s ∧ r.auxSpan ∈ stmtSpans s := by
  unfold mkRow at h
  split at h
  · simp only [List.mem_singleton] at h
    subst h
    exact ⟨span_mem_stmtSpans s, stmtAux_mem_stmtSpans s⟩
  · simp at h

/-- Both spans of a row are spans of the statement the row was made for. -/
def RowIn (l : List Span) (r : Row) : Prop := r.span ∈ l ∧ r.auxSpan ∈ l

theorem RowIn.mono {l l' : List Span} {r : Row} (h : RowIn l r) (hs : ∀ s ∈ l, s ∈ l') : RowIn l' r :=
  ⟨hs _ h.1, hs _ h.2⟩

mutual
  theorem rowsStmt_spans : ∀ (s : Stmt) (pl live : Bool) (r : Row), r ∈ rowsStmt pl live s → RowIn (stmtSpans s) r
    | .fnDef n ns ps (.mk body bs) f sid sp, pl, live, r, h => by
        simp only [rowsStmt, List.mem_append] at h
        rcases h with h | h
        · exact mkRow_spans pl live _ r h
        · exact (rowsStmts_spans body _ _ r h).mono (by intro x hx; simp [stmtSpans, blockSpans, hx])
    | .ifS c (.mk t ts) none sid sp, pl, live, r, h => by
        simp only [rowsStmt, List.mem_append] at h
        rcases h with h | h
        · exact mkRow_spans pl live _ r h
        · exact (rowsStmts_spans t _ _ r h).mono (by intro x hx; simp [stmtSpans, blockSpans, hx])
    | .ifS c (.mk t ts) (some (.mk e es)) sid sp, pl, live, r, h => by
        simp only [rowsStmt, List.mem_append] at h
        rcases h with (h | h) | h
        · exact mkRow_spans pl live _ r h
        · exact (rowsStmts_spans t _ _ r h).mono (by intro x hx; simp [stmtSpans, blockSpans, hx])
        · exact (rowsStmts_spans e _ _ r h).mono (by intro x hx; simp [stmtSpans, blockSpans, hx])
    | .loop c (.mk b bs) sid sp, pl, live, r, h => by
        simp only [rowsStmt, List.mem_append] at h
        rcases h with h | h
        · exact mkRow_spans pl live _ r h
        · exact (rowsStmts_spans b _ _ r h).mono (by intro x hx; simp [stmtSpans, blockSpans, hx])
    | .block (.mk b bs) sid sp, pl, live, r, h => by
        simp only [rowsStmt, List.mem_append] at h
        rcases h with h | h
        · exact mkRow_spans pl live _ r h
        · exact (rowsStmts_spans b _ _ r h).mono (by intro x hx; simp [stmtSpans, blockSpans, hx])
    | .assign v vs e b sid sp, pl, live, r, h => by
        simp only [rowsStmt] at h; exact mkRow_spans pl live _ r h
    | .assignExisting v vs e b sid sp, pl, live, r, h => by
        simp only [rowsStmt] at h; exact mkRow_spans pl live _ r h
    | .assignIndex t e sid sp, pl, live, r, h => by
        simp only [rowsStmt] at h; exact mkRow_spans pl live _ r h
    | .ret e sid sp, pl, live, r, h => by
        simp only [rowsStmt] at h; exact mkRow_spans pl live _ r h
    | .brk sid sp, pl, live, r, h => by
        simp only [rowsStmt] at h; exact mkRow_spans pl live _ r h
    | .cont sid sp, pl, live, r, h => by
        simp only [rowsStmt] at h; exact mkRow_spans pl live _ r h
    | .expr e sid sp, pl, live, r, h => by
        simp only [rowsStmt] at h; exact mkRow_spans pl live _ r h
  theorem rowsStmts_spans : ∀ (ss : List Stmt) (pl live : Bool) (r : Row), r ∈ rowsStmts pl live ss →
      RowIn (stmtsSpans ss) r
    | [], pl, live, r, h => by simp [rowsStmts] at h
    | s :: ss, pl, live, r, h => by
        simp only [rowsStmts, List.mem_append] at h
        rcases h with h | h
        · exact (rowsStmt_spans s _ _ r h).mono (by intro x hx; simp [stmtsSpans, hx])
        · exact (rowsStmts_spans ss _ _ r h).mono (by intro x hx; simp [stmtsSpans, hx])
end

/-- Both spans of every row of the statement table are spans of the program. -/
theorem rows_spans (root : Block) (r : Row) (h : r ∈ rows root) : RowIn (blockSpans root) r := by
  cases root with
  | mk ss sp =>
    exact (rowsStmts_spans ss true true r h).mono (by intro x hx; simp [blockSpans, hx])

theorem mem_insertWarn (w x : Warn) : ∀ ws : List Warn, x ∈ insertWarn w ws ↔ x = w ∨ x ∈ ws
  | [] => by simp [insertWarn]
  | y :: ys => by
    simp only [insertWarn]
    split
    · simp
    · simp only [List.mem_cons, mem_insertWarn w x ys]
      exact or_left_comm

theorem mem_foldr_insertWarn (x : Warn) : ∀ ws : List Warn, x ∈ ws.foldr insertWarn [] ↔ x ∈ ws
  | [] => by simp
  | w :: ws => by simp only [List.foldr_cons, mem_insertWarn, mem_foldr_insertWarn x ws, List.mem_cons]

/-- **The spans of the analysis warnings**: every warning is reported at a span of the program it
analysed, or at the default `0..0` (a statement id without a row). -/
theorem analyse_warn_spans (root : Block) (facts : Facts) (w : Warn) (h : w ∈ (analyse root facts).warns) :
    w.span ∈ blockSpans root ∨ w.span = ⟨0, 0⟩ := by
  have hrow : ∀ r ∈ (mkCtx root facts).rows, RowIn (blockSpans root) r := fun r hr => rows_spans root r hr
  have hspanOf : ∀ (s : Nat) (aux : Bool),
      (match (mkCtx root facts).row? s with
        | some r => if aux then r.auxSpan else r.span
        | none => (⟨0, 0⟩ : Span)) ∈ blockSpans root ∨
      (match (mkCtx root facts).row? s with
        | some r => if aux then r.auxSpan else r.span
        | none => (⟨0, 0⟩ : Span)) = ⟨0, 0⟩ := by
    intro s aux
    cases hr : (mkCtx root facts).row? s with
    | none => exact Or.inr rfl
    | some r =>
      have hm : r ∈ (mkCtx root facts).rows := List.mem_of_find?_eq_some hr
      cases aux
      · exact Or.inl (hrow r hm).1
      · exact Or.inl (hrow r hm).2
  simp only [analyse, mem_foldr_insertWarn, List.mem_append, List.mem_map, List.mem_filter] at h
  rcases h with ((h | h) | h) | h
  · obtain ⟨r, ⟨hr, _⟩, rfl⟩ := h
    exact Or.inl (hrow r hr).1
  · obtain ⟨s, _, rfl⟩ := h
    exact hspanOf s false
  · obtain ⟨q, _, rfl⟩ := h
    exact hspanOf q.1 true
  · obtain ⟨q, _, rfl⟩ := h
    exact hspanOf q.1 true

end NaijaVerif.SpanSafe
