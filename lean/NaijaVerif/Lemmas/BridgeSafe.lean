import NaijaVerif.Lemmas.EvalScopeStep
import NaijaVerif.Lemmas.BridgeOk
/-
Bridge resolver → evaluator, part 6: the evaluator side of C06.

On a state satisfying `MR` (C04's invariant), for code that is well scoped (`ws…`) and has the
static guarantees (`ok…`, `Lemmas/BridgeOk.lean`), with every hoisted function having them too
(`FInv`), an evaluation of the current code (`cfg.panics = false`) panics at most at the sites an
`Allowed` set leaves open (`fun _ => False`: none): the fixed sites report a runtime error, and each
of the nine residual sites is excluded —
  `fnById` / `fnByName`  a bound call finds its function (`findFn_lex_some`, from `Link`);
  `callArity`            the table gives callee and call the same parameter count;
  `paramRange`           `WSFn`: every parameter of a hoisted function carries its `LocalId`;
  `flowEscape`           `comot` / `next` do not leave a function body (`FlowAll`);
  (a statement the plan removes is skipped by `execStmts` and needs no guarantee: `stmtSkipped`;
   the plan `C.plan` of the static check may remove MORE functions than the plan of the run —
   `PlanExt` — so that the bodies of hoisted functions no checked call is bound to are exempt:
   `FnOK` asks a body to have the guarantees only when `C.plan` keeps the function)
  `builtinArity`         a global builtin is called with one argument;
  `numLit`               the number lexemes parse (assumption on the `NumOps` instance) — or allowed;
  `assignIndexEmpty`     the target of an index assignment has an index — or allowed;
  `twMaximalSuffix`      `StrOps.find` / `replace` are total (C13, passed in as `StrTotal`) — or allowed.
The induction (`SafeAll`, `safe_all`) runs next to C04's (`ag_all`), which supplies the preservation
of `MR` and the frame; `FInv` follows from the frame (hoisted functions are part of the skeleton).
-/
namespace NaijaVerif.Bridge
open NaijaVerif NaijaVerif.Eval

variable {N : Type}

/-! ### Results that panic at most at allowed sites -/

/-- The sites a result may still panic at (`fun _ => False`: none). -/
abbrev Allowed := PanicSite → Prop

variable {A : Allowed}

/-- A panic, if any, is at an allowed site. -/
def Safe {α : Type} (A : Allowed) (r : Res N α) : Prop := ∀ site st, r = .panic site st → A site

theorem Safe.ok {α : Type} (a : α) (st : State N) : Safe A (Res.ok a st) := by intro s st' h; cases h
theorem Safe.err {α : Type} (k : RtKind) (sp : Span) (st : State N) : Safe A (Res.err k sp st : Res N α) := by
  intro s st' h; cases h
theorem Safe.fuel {α : Type} : Safe A (Res.fuel : Res N α) := by intro s st' h; cases h

theorem Safe.bind {α β : Type} {r : Res N α} {k : α → State N → Res N β} (h : Safe A r)
    (hk : ∀ a st1, r = .ok a st1 → Safe A (k a st1)) : Safe A (r.bind k) := by
  cases r with
  | ok a st1 => exact hk a st1 rfl
  | err kd sp st => exact Safe.err _ _ _
  | panic s st =>
    intro s' st' e
    simp only [Res.bind] at e
    cases e
    exact h s st rfl
  | fuel => exact Safe.fuel

theorem safe_trap {α : Type} {cfg : RunCfg} (hp : cfg.panics = false) {site : PanicSite} (hs : site.fixed = true)
    (sp : Span) (st : State N) : Safe A (trap cfg site sp st : Res N α) := by
  unfold trap; simp only [hp, hs, Bool.not_true, Bool.or_self, Bool.false_eq_true, if_false]
  exact Safe.err _ _ _

theorem safe_trap_allowed {α : Type} {cfg : RunCfg} {site : PanicSite} (ha : A site)
    (sp : Span) (st : State N) : Safe A (trap cfg site sp st : Res N α) := by
  unfold trap
  split
  · intro s st' e; cases e; exact ha
  · exact Safe.err _ _ _

/-- A pure step panics at fixed sites only. -/
def PureOK {α : Type} (x : Except Fault α) : Prop := ∀ s, x = .error (.panic s) → s.fixed = true

/-- A pure step panics at fixed or allowed sites only. -/
def PureOKA {α : Type} (A : Allowed) (x : Except Fault α) : Prop :=
  ∀ s, x = .error (.panic s) → s.fixed = true ∨ A s

theorem PureOK.weaken {α : Type} {x : Except Fault α} (h : PureOK x) : PureOKA A x :=
  fun s e => Or.inl (h s e)

theorem safe_ofFault {α : Type} {cfg : RunCfg} (hp : cfg.panics = false) {flt : Fault}
    (h : ∀ s, flt = .panic s → s.fixed = true ∨ A s) (sp : Span) (st : State N) :
    Safe A (Res.ofFault cfg flt sp st : Res N α) := by
  cases flt with
  | rt k s => exact Safe.err _ _ _
  | panic s =>
    rcases h s rfl with hf | ha
    · exact safe_trap hp hf _ _
    · exact safe_trap_allowed ha _ _

theorem safe_ofExcept {α : Type} {cfg : RunCfg} (hp : cfg.panics = false) {x : Except Fault α} (h : PureOKA A x)
    (sp : Span) (st : State N) : Safe A (Res.ofExcept cfg x sp st) := by
  cases x with
  | ok a => exact Safe.ok _ _
  | error flt => exact safe_ofFault hp (fun s e => h s (by rw [e])) _ _

/-! ### The pure steps -/

/-- `StrOps.find` / `StrOps.replace` never report the panic of `maximal_suffix` (C13). -/
def StrTotal : Prop :=
  (∀ h n : Bytes, (StrOps.find h n).isSome = true) ∧ (∀ h f t : Bytes, (StrOps.replace h f t).isSome = true)

macro "pure_tac" h:ident : tactic => `(tactic| (
  repeat' (split at $h:ident)
  all_goals (first | (cases $h:ident; done) | (cases $h:ident; rfl))))

section
variable [NumOps N]
set_option linter.unusedSectionVars false

theorem arith_pure (op : ArithOp) (l r : Value N) (sp : Span) : PureOK (arith op l r sp) := by
  intro s h; unfold arith at h; pure_tac h

theorem unary_pure (op : UnOp) (v : Value N) : PureOK (unary op v) := by
  intro s h; unfold unary at h; pure_tac h

theorem logicRhs_pure {site : PanicSite} (hs : site.fixed = true) (v : Value N) : PureOK (logicRhs site v) := by
  intro s h; unfold logicRhs at h
  split at h <;> first | (cases h; done) | (cases h; exact hs)

theorem truthy_pure {site : PanicSite} (hs : site.fixed = true) (v : Value N) : PureOK (truthy site v) := by
  intro s h; unfold truthy at h
  split at h <;> first | (cases h; done) | (cases h; exact hs)

theorem indexRead_pure (a i : Value N) (isp : Span) : PureOK (indexRead a i isp) := by
  intro s h
  unfold indexRead at h
  split at h
  · split at h
    · split at h
      · cases h
      · simp only at h
        split at h
        · cases h
        · split at h <;> cases h
    · cases h
  · cases h; rfl

theorem indexValue_pure (v : Value N) (isp : Span) : PureOK (indexValue v isp) := by
  intro s h; unfold indexValue at h; pure_tac h

theorem requiredString_pure (v : Value N) (sp : Span) : PureOK (requiredString v sp) := by
  intro s h; unfold requiredString at h; pure_tac h

theorem timeoutMs_pure (v : Value N) (sp : Span) : PureOK (timeoutMs v sp) := by
  intro s h; unfold timeoutMs at h; pure_tac h

theorem apply_pure (op : MutOp N) (cell : Value N) (sp : Span) : PureOK (op.apply cell sp) := by
  intro s h; unfold MutOp.apply at h; pure_tac h

theorem strMethod_pure (hst : A .twMaximalSuffix ∨ StrTotal) (std : StdOps) (m : StrM) (b : Bytes)
    (args : List (Value N)) : PureOKA A (strMethod std m b args) := by
  intro s h
  cases m with
  | find =>
    simp only [strMethod] at h
    split at h
    · next n =>
      split at h
      · next hn =>
        cases h
        rcases hst with ha | hst
        · exact Or.inr ha
        · have := hst.1 b n; rw [hn] at this; cases this
      · cases h
      · cases h
    · cases h; exact Or.inl rfl
  | replace =>
    simp only [strMethod] at h
    split at h
    · next o n =>
      split at h
      · next hn =>
        cases h
        rcases hst with ha | hst
        · exact Or.inr ha
        · have := hst.2 b o n; rw [hn] at this; cases this
      · cases h
    · cases h; exact Or.inl rfl
  | slice => simp only [strMethod] at h; refine Or.inl ?_; pure_tac h
  | split => simp only [strMethod] at h; refine Or.inl ?_; pure_tac h
  | len => simp only [strMethod] at h; cases h
  | upper => simp only [strMethod] at h; cases h
  | lower => simp only [strMethod] at h; cases h
  | trim => simp only [strMethod] at h; cases h
  | toNumber => simp only [strMethod] at h; cases h

theorem walkMut_pure : ∀ (v : Value N) (path : List (Nat × Span)), PureOK (walkMut v path) := by
  intro v path
  fun_induction walkMut v path with
  | case1 v => intro s h; cases h
  | case2 xs i sp p x hx ih => exact ih
  | case3 xs i sp p hx => intro s h; cases h
  | case4 v sp p _ => intro s h; cases h

theorem walkAssign_pure (ssp : Span) : ∀ (v : Value N) (path : List (Nat × Span)),
    path ≠ [] ∨ A .assignIndexEmpty → PureOKA A (walkAssign ssp v path) := by
  intro v path
  fun_induction walkAssign ssp v path <;> intro hne s h
  all_goals (try (first | (cases h; done)))
  · cases h
    rcases hne with hne | ha
    · exact absurd rfl hne
    · exact Or.inr ha
  · rename_i ih
    exact ih (Or.inl (by simp)) s h

end

/-! ### Lengths of evaluated lists -/

theorem evalSel_length [NumOps N] (cfg : RunCfg) : ∀ (f : Nat) (es : List (Except (PanicSite × Span) Expr))
    (st : State N) (vs : List (Value N)) (st' : State N), evalSel cfg f es st = .ok vs st' → vs.length = es.length
  | 0, _, _, _, _, h => by simp [evalSel] at h
  | f + 1, [], st, vs, st', h => by simp only [evalSel] at h; cases h; rfl
  | f + 1, .error s :: rest, st, vs, st', h => by
      simp only [evalSel] at h; exact absurd h (trap_ne_ok _ _ _ _ _ _)
  | f + 1, .ok e :: rest, st, vs, st', h => by
      simp only [evalSel] at h
      obtain ⟨v, st1, _, h2⟩ := Res.bind_eq_ok h
      obtain ⟨vs', st2, h3, h4⟩ := Res.bind_eq_ok h2
      cases h4
      simp [evalSel_length cfg f rest st1 vs' _ h3]

theorem evalIdxs_length [NumOps N] (cfg : RunCfg) : ∀ (f : Nat) (is : List (Expr × Span))
    (st : State N) (path : List (Nat × Span)) (st' : State N), evalIdxs cfg f is st = .ok path st' →
      path.length = is.length
  | 0, _, _, _, _, h => by simp [evalIdxs] at h
  | f + 1, [], st, vs, st', h => by simp only [evalIdxs] at h; cases h; rfl
  | f + 1, (e, isp) :: rest, st, vs, st', h => by
      simp only [evalIdxs] at h
      obtain ⟨v, st1, _, h2⟩ := Res.bind_eq_ok h
      obtain ⟨i, st1', _, h3⟩ := Res.bind_eq_ok h2
      obtain ⟨is', st2, h4, h5⟩ := Res.bind_eq_ok h3
      cases h5
      simp [evalIdxs_length cfg f rest st1' is' _ h4]

/-! ### The plan of the static check and the plan of the run

The static guarantees (`okBlock C`) are established for a plan `C.plan`; the run uses `cfg.plan`.
They need not be equal: it is enough that they skip the SAME statements and that the static plan
removes AT LEAST the functions the run removes (`PlanExt`).  The static plan may in addition
"remove" functions the run keeps (hoists) but no executing code ever looks up — the functions
outside a call-closed set `K` (`Lemmas/BridgeReach.lean`): their bodies are then exempt from the
guarantees, and every call of checked code goes to a function inside `K`. -/

structure PlanExt (static run : Option Plan) : Prop where
  /-- the same statements are skipped -/
  stmts : ∀ sid, Plan.prunesStmt static sid = Plan.prunesStmt run sid
  /-- a function the run removes is removed in the static plan -/
  fns : ∀ fn, Plan.prunesFn run fn = true → Plan.prunesFn static fn = true

theorem PlanExt.refl (p : Option Plan) : PlanExt p p := ⟨fun _ => rfl, fun _ h => h⟩

theorem PlanExt.of_eq {p q : Option Plan} (h : p = q) : PlanExt p q := h ▸ PlanExt.refl p

theorem PlanExt.kept {p q : Option Plan} (h : PlanExt p q) {fn : Option Nat} (hk : Plan.prunesFn p fn = false) :
    Plan.prunesFn q fn = false := by
  cases hq : Plan.prunesFn q fn with
  | false => rfl
  | true => rw [h.fns fn hq] at hk; cases hk

/-! ### Every hoisted function the static plan keeps has the static guarantees -/

/-- A hoisted function has the parameter count the table records, and — unless the static plan
removes it (then no checked call is bound to it) — a body with the static guarantees. -/
def FnOK (C : SCfg) (fd : FnEntry) : Prop :=
  C.fnOk fd.id fd.params.length = true ∧ (Plan.prunesFn C.plan fd.id = false → okBlock C false fd.body = true)

def FInv (C : SCfg) (env : List (Scope N)) : Prop := ∀ S ∈ env, ∀ fd ∈ S.fns, FnOK C fd

theorem FInv.of_skel {C : SCfg} {env env' : List (Scope N)} (h : FInv C env)
    (he : env'.map Scope.skel = env.map Scope.skel) : FInv C env' := by
  intro S' hS' fd hfd
  have : S'.skel ∈ env.map Scope.skel := by rw [← he]; exact List.mem_map_of_mem hS'
  obtain ⟨S, hS, e⟩ := List.mem_map.1 this
  have e2 : S.fns = S'.fns := congrArg Skel.fns e
  exact h S hS fd (by rw [e2]; exact hfd)

theorem FInv.of_frame {C : SCfg} {st st' : State N} (h : FInv C st.env) (hf : Frame st st') : FInv C st'.env :=
  h.of_skel hf.skel

theorem FInv.tail {C : SCfg} {env : List (Scope N)} (h : FInv C env) : FInv C env.tail :=
  fun S hS => h S (List.mem_of_mem_tail hS)

theorem FInv.push {C : SCfg} {st : State N} (h : FInv C st.env) (kind : ScopeKind) (chain : List Nat)
    (slots : List (Slot N)) (decls : List Nat) : FInv C (pushScope st kind chain slots decls).env := by
  intro S hS fd hfd
  simp only [pushScope] at hS
  rcases List.mem_cons.1 hS with rfl | hS
  · cases hfd
  · exact h S hS fd hfd

theorem okStmts_tail {C : SCfg} {d : Bool} {s : Stmt} {rest : List Stmt} (h : okStmts C d (s :: rest) = true) :
    (stmtSkipped C.plan s = true ∨ okStmt C d s = true) ∧ okStmts C d rest = true := by
  simpa [okStmts] using h

/-- A statement the evaluator does not skip has the guarantees. -/
theorem okStmt_of_not_pruned {C : SCfg} {cfg : RunCfg} (hpl : PlanExt C.plan cfg.plan) {d : Bool} {s : Stmt}
    (h : stmtSkipped C.plan s = true ∨ okStmt C d s = true) (hnp : ¬ Plan.prunesStmt cfg.plan s.sid = true) :
    okStmt C d s = true := by
  rcases h with a | a
  · exact absurd (by rw [← hpl.stmts]; exact stmtSkipped_prunes a) hnp
  · exact a

theorem FInv.hoist {C : SCfg} (cfg : RunCfg) {d : Bool} : ∀ (ss : List Stmt) (st : State N),
    okStmts C d ss = true → FInv C st.env → FInv C (hoist cfg ss st).env := by
  intro ss
  induction ss with
  | nil => intro st _ h; simpa [Eval.hoist] using h
  | cons s rest ih =>
    intro st hok h
    obtain ⟨hs, hrest⟩ := okStmts_tail hok
    cases s with
    | fnDef name nsp params body fn sid sp =>
      have hs : okStmt C d (.fnDef name nsp params body fn sid sp) = true := by
        rcases hs with a | a
        · simp [stmtSkipped] at a
        · exact a
      simp only [Eval.hoist]
      split
      · exact ih st hrest h
      · next hnp =>
        split
        · exact ih st hrest h
        · next S r heq =>
          apply ih _ hrest
          intro S' hS' fd hfd
          simp only at hS'
          rw [heq] at h
          rcases List.mem_cons.1 hS' with rfl | hS'
          · simp only at hfd
            rcases List.mem_cons.1 hfd with rfl | hfd
            · simp only [okStmt, Bool.and_eq_true, Bool.or_eq_true] at hs
              refine ⟨hs.1, ?_⟩
              rcases hs.2 with hq | hq
              · intro hk; rw [hq] at hk; cases hk
              · exact fun _ => hq
            · exact h S List.mem_cons_self fd hfd
          · exact h S' (List.mem_cons_of_mem _ hS') fd hfd
    | assign => simp only [Eval.hoist]; exact ih st hrest h
    | assignExisting => simp only [Eval.hoist]; exact ih st hrest h
    | assignIndex => simp only [Eval.hoist]; exact ih st hrest h
    | ifS => simp only [Eval.hoist]; exact ih st hrest h
    | loop => simp only [Eval.hoist]; exact ih st hrest h
    | block => simp only [Eval.hoist]; exact ih st hrest h
    | ret => simp only [Eval.hoist]; exact ih st hrest h
    | brk => simp only [Eval.hoist]; exact ih st hrest h
    | cont => simp only [Eval.hoist]; exact ih st hrest h
    | expr => simp only [Eval.hoist]; exact ih st hrest h

/-! ### A bound call finds its function -/

theorem findFn_found {vis : Scope N → Bool} {p : FnEntry → Bool} : ∀ {env : List (Scope N)} {fd : FnEntry},
    Eval.findFn vis p env = some fd → (∃ T ∈ env, fd ∈ T.fns) ∧ p fd = true
  | [], _, h => by simp [Eval.findFn] at h
  | S :: r, fd, h => by
      simp only [Eval.findFn] at h
      split at h
      · split at h
        · next fd' hfd' =>
          cases h
          exact ⟨⟨S, List.mem_cons_self, List.mem_of_find?_eq_some hfd'⟩, List.find?_some hfd'⟩
        · obtain ⟨⟨T, hT, hm⟩, hp⟩ := findFn_found h
          exact ⟨⟨T, List.mem_cons_of_mem _ hT, hm⟩, hp⟩
      · obtain ⟨⟨T, hT, hm⟩, hp⟩ := findFn_found h
        exact ⟨⟨T, List.mem_cons_of_mem _ hT, hm⟩, hp⟩

/-- Under `Link`, the lexical search finds every un-pruned function the context declares. -/
theorem findFn_lex_some {cfg : RunCfg} {Γ : List Binder} {chain : List Nat} {env : List (Scope N)}
    (h : Link cfg Γ chain env) {i : Nat} (hi : fnDeclared Γ i = true)
    (hp : Plan.prunesFn cfg.plan (some i) = false) :
    ∃ fd, Eval.findFn (fun s : Scope N => chain.contains s.uid) (fun fd => fd.id == some i) env = some fd := by
  induction h with
  | nil => simp [fnDeclared] at hi
  | @skip Γ chain env S hu _ _ hk ih =>
    have hnc := hk.not_on_chain hu
    rw [findFn_cons_invis (vis := fun s : Scope N => chain.contains s.uid) hnc]
    exact ih hi
  | @take Γ chain env S β hu _ hf hk ih =>
    rw [findFn_cons_vis (vis := fun s : Scope N => (S.uid :: chain).contains s.uid) (head_on_chain _ _)]
    cases hfind : S.fns.find? (fun fd => fd.id == some i) with
    | some fd => exact ⟨fd, rfl⟩
    | none =>
      simp only
      rw [findFn_congr _ env (vis_tail hu)]
      cases hq : β.fnIds.contains i with
      | true =>
        obtain ⟨fd, hfd, e⟩ := hf.2 i (by simpa using hq) hp
        rw [List.find?_eq_none] at hfind
        exact absurd (by rw [e]; simp) (hfind fd hfd)
      | false =>
        rw [fnDeclared_cons, hq] at hi
        simp only [Bool.false_or] at hi
        exact ih hi

theorem lookupFn_lex_some {cfg : RunCfg} {Γ : List Binder} {st : State N} (h : MR cfg Γ st) {i : Nat}
    (hi : fnDeclared Γ i = true) (hp : Plan.prunesFn cfg.plan (some i) = false) (name : Bytes) :
    ∃ fd, lookupFn cfg.lex st (some i) name = some fd := by
  have hl : visible (N := N) cfg.lex st.chain = fun s : Scope N => st.chain.contains s.uid :=
    funext (visible_lex cfg st.chain)
  simp only [lookupFn, hl]
  exact findFn_lex_some h.link hi hp

theorem lookupFn_found {cfg : RunCfg} {st : State N} {i : Nat} {name : Bytes} {fd : FnEntry}
    (h : lookupFn cfg st (some i) name = some fd) : (∃ T ∈ st.env, fd ∈ T.fns) ∧ fd.id = some i := by
  simp only [lookupFn] at h
  obtain ⟨h1, h2⟩ := findFn_found h
  exact ⟨h1, by simpa using h2⟩

/-! ### `comot` / `next` do not leave a function body -/

def isJump : Flow N → Bool
  | .brk => true
  | .next => true
  | _ => false

/-- Purely syntactic: a statement that is not inside a loop of its function body (`d = false`) never
ends with the flow `Break` / `Continue`; a loop never does. -/
structure FlowAll [NumOps N] (C : SCfg) (cfg : RunCfg) (f : Nat) : Prop where
  stmt : ∀ (d : Bool) (s : Stmt) (st : State N) (flow : Flow N) (st' : State N), okStmt C d s = true →
    execStmt cfg f s st = .ok flow st' → isJump flow = true → d = true
  stmts : ∀ (d : Bool) (ss : List Stmt) (st : State N) (flow : Flow N) (st' : State N), okStmts C d ss = true →
    execStmts cfg f ss st = .ok flow st' → isJump flow = true → d = true
  block : ∀ (d : Bool) (b : Block) (st : State N) (flow : Flow N) (st' : State N), okBlock C d b = true →
    execBlock cfg f b st = .ok flow st' → isJump flow = true → d = true
  loop : ∀ (c : Expr) (b : Block) (sp : Span) (st : State N) (flow : Flow N) (st' : State N),
    loopW cfg f c b sp st = .ok flow st' → isJump flow = false

section
variable [NumOps N]

theorem flow_zero (C : SCfg) (cfg : RunCfg) : FlowAll (N := N) C cfg 0 :=
  ⟨fun _ _ _ _ _ _ h => by simp [execStmt] at h, fun _ _ _ _ _ _ h => by simp [execStmts] at h,
   fun _ _ _ _ _ _ h => by simp [execBlock] at h, fun _ _ _ _ _ _ h => by simp [loopW] at h⟩

theorem flow_step {C : SCfg} {cfg : RunCfg} (hpl : PlanExt C.plan cfg.plan) {f : Nat} (ih : FlowAll (N := N) C cfg f) :
    FlowAll (N := N) C cfg (f + 1) := by
  refine ⟨?_, ?_, ?_, ?_⟩
  · intro d s st flow st' hok h hj
    cases s with
    | assign var vsp e bind sid sp =>
      simp only [execStmt] at h
      obtain ⟨v, st1, _, h2⟩ := Res.bind_eq_ok h
      cases h2; cases hj
    | assignExisting var vsp e bind sid sp =>
      simp only [execStmt] at h
      obtain ⟨v, st1, _, h2⟩ := Res.bind_eq_ok h
      split at h2
      · cases h2; cases hj
      · exact absurd h2 (trap_ne_ok _ _ _ _ _ _)
    | assignIndex target e sid sp =>
      simp only [execStmt] at h
      obtain ⟨v, st1, _, h2⟩ := Res.bind_eq_ok h
      split at h2
      · exact absurd h2 (trap_ne_ok _ _ _ _ _ _)
      · exact absurd h2 (trap_ne_ok _ _ _ _ _ _)
      · obtain ⟨path, st2, _, h3⟩ := Res.bind_eq_ok h2
        obtain ⟨_, st3, _, h4⟩ := Res.bind_eq_ok h3
        cases h4; cases hj
    | ifS cond thenB elseB sid sp =>
      simp only [okStmt, Bool.and_eq_true] at hok
      simp only [execStmt] at h
      obtain ⟨v, st1, _, h2⟩ := Res.bind_eq_ok h
      obtain ⟨c, st1', _, h3⟩ := Res.bind_eq_ok h2
      split at h3
      · exact ih.block d thenB _ _ _ hok.1.2 h3 hj
      · cases elseB with
        | none => simp only at h3; cases h3; cases hj
        | some eb => exact ih.block d eb _ _ _ (by simpa [okOptBlock] using hok.2) h3 hj
    | loop cond body sid sp =>
      simp only [execStmt] at h
      have := ih.loop _ _ _ _ _ _ h
      rw [this] at hj; cases hj
    | block b sid sp =>
      simp only [okStmt] at hok
      simp only [execStmt] at h
      exact ih.block d b _ _ _ hok h hj
    | fnDef => simp only [execStmt] at h; cases h; cases hj
    | ret e sid sp =>
      cases e with
      | none => simp only [execStmt] at h; cases h; cases hj
      | some e =>
        simp only [execStmt] at h
        obtain ⟨v, st1, _, h2⟩ := Res.bind_eq_ok h
        cases h2; cases hj
    | brk => simpa [okStmt] using hok
    | cont => simpa [okStmt] using hok
    | expr e sid sp =>
      simp only [execStmt] at h
      obtain ⟨v, st1, _, h2⟩ := Res.bind_eq_ok h
      cases h2; cases hj
  · intro d ss st flow st' hok h hj
    cases ss with
    | nil => simp only [execStmts] at h; cases h; cases hj
    | cons s rest =>
      obtain ⟨hs, hrest⟩ := okStmts_tail hok
      simp only [execStmts] at h
      split at h
      · exact ih.stmts d rest _ _ _ hrest h hj
      · next hnp =>
        have hs := okStmt_of_not_pruned hpl hs hnp
        obtain ⟨flow1, st1, h1, h2⟩ := Res.bind_eq_ok h
        cases flow1 with
        | cont => exact ih.stmts d rest _ _ _ hrest h2 hj
        | ret v => cases h2; cases hj
        | brk => cases h2; exact ih.stmt d s _ _ _ hs h1 rfl
        | next => cases h2; exact ih.stmt d s _ _ _ hs h1 rfl
  · intro d b st flow st' hok h hj
    cases b with
    | mk ss sp =>
      simp only [okBlock] at hok
      simp only [execBlock] at h
      obtain ⟨flow1, st1, h1, h2⟩ := Res.bind_eq_ok h
      cases h2
      exact ih.stmts d ss _ _ _ hok h1 hj
  · intro c b sp st flow st' h
    simp only [loopW] at h
    obtain ⟨v, st1, _, h2⟩ := Res.bind_eq_ok h
    obtain ⟨cv, st1', _, h3⟩ := Res.bind_eq_ok h2
    split at h3
    · obtain ⟨flow1, st2, _, h4⟩ := Res.bind_eq_ok h3
      cases flow1 with
      | brk => cases h4; rfl
      | ret v => cases h4; rfl
      | cont => exact ih.loop _ _ _ _ _ _ h4
      | next => exact ih.loop _ _ _ _ _ _ h4
    · cases h3; rfl

theorem flow_all (C : SCfg) (cfg : RunCfg) (hpl : PlanExt C.plan cfg.plan) : ∀ f, FlowAll (N := N) C cfg f
  | 0 => flow_zero C cfg
  | f + 1 => flow_step hpl (flow_all C cfg hpl f)

end

/-! ### The helpers -/

theorem safe_runCommand (cfg : RunCfg) (c : Proc.Cmd) (sp : Span) (st : State N) :
    Safe A (runCommand cfg c sp st) := by
  unfold runCommand
  split
  · exact Safe.err _ _ _
  · split
    · exact Safe.err _ _ _
    · split
      · exact Safe.err _ _ _
      · exact Safe.ok _ _

theorem safe_globalCall [NumOps N] {cfg : RunCfg} (hp : cfg.panics = false) (b : Eval.GlobalB) (v : Value N) (sp : Span)
    (st : State N) : Safe A (globalCall cfg b v sp st) := by
  unfold globalCall
  split
  · exact Safe.ok _ _
  · exact Safe.ok _ _
  · split <;> exact Safe.ok _ _
  · exact Safe.ok _ _
  · split
    · exact Safe.ok _ _
    · exact safe_trap hp rfl _ _

theorem safe_applyMut [NumOps N] {cfg : RunCfg} (hp : cfg.panics = false) (st : State N) (name : Bytes)
    (bind : Option Nat) (path : List (Nat × Span)) (op : MutOp N) (sp : Span) :
    Safe A (applyMut cfg st name bind path op sp) := by
  unfold applyMut
  split
  · show Safe A (trap cfg _ sp st)
    refine safe_trap hp ?_ _ _
    cases op <;> simp only <;> split <;> rfl
  · split
    · exact safe_trap hp rfl _ _
    · split
      · next flt hflt => exact safe_ofFault hp (fun s e => Or.inl (walkMut_pure _ _ s (by rw [hflt, e]))) _ _
      · split
        · next flt hflt => exact safe_ofFault hp (fun s e => Or.inl (apply_pure _ _ _ s (by rw [hflt, e]))) _ _
        · exact Safe.ok _ _

theorem safe_assignIndex [NumOps N] {cfg : RunCfg} (hp : cfg.panics = false) (st : State N) (name : Bytes)
    (bind : Option Nat) {path : List (Nat × Span)} (hne : path ≠ [] ∨ A .assignIndexEmpty) (v : Value N) (sp : Span) :
    Safe A (assignIndex cfg st name bind path v sp) := by
  unfold assignIndex
  split
  · exact safe_trap hp rfl _ _
  · split
    · exact safe_trap hp rfl _ _
    · split
      · next flt hflt => exact safe_ofFault hp (fun s e => walkAssign_pure _ _ _ hne s (by rw [hflt, e])) _ _
      · exact Safe.ok _ _

/-! ### The selections `evalSel` evaluates -/

theorem okExprs_mem {C : SCfg} : ∀ {es : List Expr}, okExprs C es = true → ∀ e ∈ es, okExpr C e = true
  | [], _, _, h => by cases h
  | e :: es, hok, e', h => by
    simp only [okExprs, Bool.and_eq_true] at hok
    rcases List.mem_cons.1 h with rfl | h
    · exact hok.1
    · exact okExprs_mem hok.2 e' h

/-- The expressions of a selection have the guarantees; a missing argument is a fixed site. -/
def OkSel (C : SCfg) (es : List (Except (PanicSite × Span) Expr)) : Prop :=
  (∀ e, Except.ok e ∈ es → okExpr C e = true) ∧ (∀ s, Except.error s ∈ es → s.1.fixed = true)

theorem OkSel.map_ok {C : SCfg} {es : List Expr} (h : okExprs C es = true) : OkSel C (es.map .ok) := by
  refine ⟨?_, ?_⟩
  · intro e he
    obtain ⟨e', he', e2⟩ := List.mem_map.1 he
    have e3 : e' = e := Except.ok.inj e2
    rw [← e3]; exact okExprs_mem h e' he'
  · intro s hs
    obtain ⟨e', _, e2⟩ := List.mem_map.1 hs
    cases e2

theorem OkSel.pick {C : SCfg} {args : List Expr} (h : okExprs C args = true) (idx : List (Nat × PanicSite))
    (hidx : idx.all (fun q => q.2.fixed) = true) (sp : Span) : OkSel C (pick args idx sp) := by
  refine ⟨?_, ?_⟩
  · intro e he
    simp only [Eval.pick, List.mem_map] at he
    obtain ⟨q, _, hq⟩ := he
    split at hq
    · next e' he' =>
      have e3 : e' = e := Except.ok.inj hq
      rw [← e3]; exact okExprs_mem h e' (List.mem_of_getElem? he')
    · cases hq
  · intro s hs
    simp only [Eval.pick, List.mem_map] at hs
    obtain ⟨q, hq1, hq⟩ := hs
    split at hq
    · cases hq
    · have e3 : (q.2, sp) = s := Except.error.inj hq
      rw [← e3]
      exact (List.all_eq_true.1 hidx) q hq1

theorem OkSel.head {C : SCfg} {e : Expr} {rest : List (Except (PanicSite × Span) Expr)}
    (h : OkSel C (.ok e :: rest)) : okExpr C e = true := h.1 e List.mem_cons_self

theorem OkSel.headErr {C : SCfg} {s : PanicSite × Span} {rest : List (Except (PanicSite × Span) Expr)}
    (h : OkSel C (.error s :: rest)) : s.1.fixed = true := h.2 s List.mem_cons_self

theorem OkSel.tail {C : SCfg} {x : Except (PanicSite × Span) Expr}
    {rest : List (Except (PanicSite × Span) Expr)} (h : OkSel C (x :: rest)) : OkSel C rest :=
  ⟨fun e he => h.1 e (List.mem_cons_of_mem _ he), fun s hs => h.2 s (List.mem_cons_of_mem _ hs)⟩

theorem argIdx_fixed (m : StrM) : m.argIdx.all (fun q => q.2.fixed) = true := by cases m <;> rfl

theorem flattenIdx_ok {C : SCfg} (e : Expr) (acc : List (Expr × Span)) (he : okExpr C e = true)
    (hacc : ∀ q ∈ acc, okExpr C q.1 = true) :
    okExpr C (flattenIdx e acc).1 = true ∧ (∀ q ∈ (flattenIdx e acc).2, okExpr C q.1 = true) ∧
      acc.length ≤ (flattenIdx e acc).2.length := by
  fun_induction flattenIdx e acc with
  | case1 a i isp sp acc ih =>
    simp only [okExpr, Bool.and_eq_true] at he
    have := ih he.1 (by
      intro q hq
      rcases List.mem_cons.1 hq with rfl | hq
      · exact he.2
      · exact hacc q hq)
    exact ⟨this.1, this.2.1, by have := this.2.2; simp only [List.length_cons] at this; omega⟩
  | case2 e acc _ => exact ⟨he, hacc, Nat.le_refl _⟩

/-- The index expressions of an l-value have the guarantees; an index expression has an index. -/
theorem lvOf_ok {C : SCfg} {e : Expr} (he : okExpr C e = true) {name : Bytes} {bind : Option Nat}
    {idxs : List (Expr × Span)} (h : lvOf e = .path name bind idxs) :
    (∀ q ∈ idxs, okExpr C q.1 = true) ∧ (isIndexExpr e = true → idxs ≠ []) := by
  unfold lvOf at h
  split at h
  · cases h
    exact ⟨(by intro q hq; cases hq), (by intro hi; simp [isIndexExpr] at hi)⟩
  · next a i isp sp =>
    have hfl : flattenIdx (.index a i isp sp) [] = flattenIdx a [(i, isp)] := by simp [flattenIdx]
    have hok : okExpr C a = true ∧ okExpr C i = true := by simpa [okExpr] using he
    have := flattenIdx_ok (C := C) a [(i, isp)] hok.1 (by
      intro q hq
      simp only [List.mem_singleton] at hq
      rw [hq]; exact hok.2)
    rw [hfl] at h
    split at h
    · next n b vsp idxs' hfl' =>
      cases h
      rw [hfl'] at this
      refine ⟨this.2.1, fun _ hnil => ?_⟩
      have h3 := this.2.2
      rw [hnil] at h3
      simp at h3
    · cases h
  · cases h

/-! ### The walk -/

/-- Safe, and a successful result re-establishes the invariants. -/
def Good (A : Allowed) (C : SCfg) (cfg : RunCfg) (Γ : List Binder) (st0 : State N) {α : Type} (r : Res N α) : Prop :=
  Safe A r ∧ ∀ a st', r = .ok a st' → MR cfg Γ st' ∧ Frame st0 st' ∧ FInv C st'.env

theorem good_of {C : SCfg} {cfg : RunCfg} {Γ : List Binder} {st0 : State N} {α : Type} {r r' : Res N α}
    (hs : Safe A r) (hag : Ag cfg Γ st0 r r') (hF : FInv C st0.env) : Good A C cfg Γ st0 r := by
  refine ⟨hs, fun a st' e => ?_⟩
  obtain ⟨hm, hf⟩ := hag.2 a st' (hag.1 ▸ e)
  exact ⟨hm, hf, hF.of_frame hf⟩

theorem good_ofExcept {C : SCfg} {cfg cfg' : RunCfg} (hp : cfg'.panics = false) {Γ : List Binder} {st : State N}
    {α : Type} {x : Except Fault α} (hx : PureOKA A x) (hm : MR cfg Γ st) (hF : FInv C st.env) (sp : Span) :
    Good A C cfg Γ st (Res.ofExcept cfg' x sp st) := by
  refine ⟨safe_ofExcept hp hx _ _, fun a st' e => ?_⟩
  obtain ⟨_, e2⟩ := Res.ofExcept_eq_ok e
  subst e2
  exact ⟨hm, Frame.refl _, hF⟩

theorem Safe.bindG {C : SCfg} {cfg : RunCfg} {Γ1 : List Binder} {s1 : State N} {α β : Type} {r : Res N α}
    {k : α → State N → Res N β} (h : Good A C cfg Γ1 s1 r)
    (hk : ∀ a st1, MR cfg Γ1 st1 → Frame s1 st1 → FInv C st1.env → Safe A (k a st1)) : Safe A (r.bind k) :=
  Safe.bind h.1 (fun a st1 e => by obtain ⟨a1, a2, a3⟩ := h.2 a st1 e; exact hk a st1 a1 a2 a3)

/-- What is assumed of the configuration and of the number type. -/
structure Hyp (N : Type) [NumOps N] (A : Allowed) (C : SCfg) (cfg : RunCfg) : Prop where
  /-- the current code: fixed sites report a runtime error -/
  panics : cfg.panics = false
  /-- the static guarantees were established for the plan the program is run with, or for one that
  skips the same statements and removes more functions -/
  plan : PlanExt C.plan cfg.plan
  /-- `NumOps.ofLit` accepts every lexeme `numOk` accepts (unless `numLit` is allowed) -/
  num : A .numLit ∨ ∀ lex, C.numOk lex = true → (NumOps.ofLit (N := N) lex).isSome = true
  /-- C13 (unless `twMaximalSuffix` is allowed) -/
  str : A .twMaximalSuffix ∨ StrTotal
  /-- index assignments have an index (unless `assignIndexEmpty` is allowed) -/
  idx : A .assignIndexEmpty ∨ C.strictIdx = true

section
variable [NumOps N]

structure SafeAll (A : Allowed) (C : SCfg) (cfg : RunCfg) (f : Nat) : Prop where
  expr : ∀ (Γ : List Binder) (e : Expr) (st : State N), MR cfg Γ st → wsExpr Γ e = true → okExpr C e = true →
    FInv C st.env → Good A C cfg Γ st (evalExpr cfg.dyn f e st)
  sel : ∀ (Γ : List Binder) es (st : State N), MR cfg Γ st → WsSel Γ es → OkSel C es →
    FInv C st.env → Good A C cfg Γ st (evalSel cfg.dyn f es st)
  idxs : ∀ (Γ : List Binder) (is : List (Expr × Span)) (st : State N), MR cfg Γ st →
    (∀ q ∈ is, wsExpr Γ q.1 = true) → (∀ q ∈ is, okExpr C q.1 = true) →
    FInv C st.env → Good A C cfg Γ st (evalIdxs cfg.dyn f is st)
  mutOp : ∀ (Γ : List Binder) m args sp (st : State N), MR cfg Γ st → wsExprs Γ args = true →
    okExprs C args = true → FInv C st.env → Good A C cfg Γ st (evalMutOp cfg.dyn f m args sp st)
  stmt : ∀ (Γ : List Binder) (d : Bool) s (st : State N), MR cfg Γ st → wsStmt Γ s = true →
    okStmt C d s = true → FInv C st.env → Good A C cfg Γ st (execStmt cfg.dyn f s st)
  stmts : ∀ (Γ : List Binder) (d : Bool) ss (st : State N), MR cfg Γ st → wsStmts Γ ss = true →
    okStmts C d ss = true → FInv C st.env → Good A C cfg Γ st (execStmts cfg.dyn f ss st)
  block : ∀ (Γ : List Binder) (d : Bool) b (st : State N), MR cfg Γ st → wsBlock Γ b = true →
    okBlock C d b = true → FInv C st.env → Good A C cfg Γ st (execBlock cfg.dyn f b st)
  loop : ∀ (Γ : List Binder) c b sp (st : State N), MR cfg Γ st → wsExpr Γ c = true → wsBlock Γ b = true →
    okExpr C c = true → okBlock C true b = true → FInv C st.env → Good A C cfg Γ st (loopW cfg.dyn f c b sp st)

/-- Side goals of the walk. -/
macro "side" : tactic => `(tactic| (
  first
    | assumption
    | (apply WsSel.map_ok; assumption)
    | (apply WsSel.pick; assumption)
    | (apply WsSel.head; assumption)
    | (apply WsSel.tail; assumption)
    | (apply OkSel.map_ok; assumption)
    | (apply OkSel.pick; assumption; first | exact argIdx_fixed _ | rfl)
    | (apply OkSel.head; assumption)
    | (apply OkSel.tail; assumption)))

macro "safe_close" h:ident hp:ident hst:ident : tactic => `(tactic| (
  repeat (first
    | exact Safe.fuel
    | exact Safe.err _ _ _
    | exact Safe.ok _ _
    | exact safe_trap $hp rfl _ _
    | exact safe_trap $hp (by split <;> rfl) _ _
    | exact safe_ofExcept $hp (PureOK.weaken (arith_pure _ _ _ _)) _ _
    | exact safe_ofExcept $hp (PureOK.weaken (unary_pure _ _)) _ _
    | exact safe_ofExcept $hp (PureOK.weaken (logicRhs_pure rfl _)) _ _
    | exact safe_ofExcept $hp (PureOK.weaken (indexRead_pure _ _ _)) _ _
    | exact safe_ofExcept $hp (strMethod_pure $hst _ _ _ _) _ _
    | exact safe_runCommand _ _ _ _
    | exact safe_globalCall $hp _ _ _ _
    | exact (SafeAll.stmts $h _ _ _ _ (by side) (by side) (by side) (by side)).1
    | exact (SafeAll.block $h _ _ _ _ (by side) (by side) (by side) (by side)).1
    | exact (SafeAll.loop $h _ _ _ _ _ (by side) (by side) (by side) (by side) (by side) (by side)).1
    | refine Safe.bindG (good_ofExcept $hp (PureOK.weaken (truthy_pure rfl _)) (by side) (by side) _) ?_
    | refine Safe.bindG (good_ofExcept $hp (PureOK.weaken (indexValue_pure _ _)) (by side) (by side) _) ?_
    | refine Safe.bindG (good_ofExcept $hp (PureOK.weaken (requiredString_pure _ _)) (by side) (by side) _) ?_
    | refine Safe.bindG (good_ofExcept $hp (PureOK.weaken (timeoutMs_pure _ _)) (by side) (by side) _) ?_
    | refine Safe.bindG (SafeAll.expr $h _ _ _ (by side) (by side) (by side) (by side)) ?_
    | refine Safe.bindG (SafeAll.sel $h _ _ _ (by side) (by side) (by side) (by side)) ?_
    | refine Safe.bindG (SafeAll.idxs $h _ _ _ (by side) (by side) (by side) (by side)) ?_
    | refine Safe.bindG (SafeAll.mutOp $h _ _ _ _ _ (by side) (by side) (by side) (by side)) ?_
    | refine Safe.bindG (SafeAll.stmt $h _ _ _ _ (by side) (by side) (by side) (by side)) ?_
    | refine Safe.bindG (SafeAll.stmts $h _ _ _ _ (by side) (by side) (by side) (by side)) ?_
    | refine Safe.bindG (SafeAll.block $h _ _ _ _ (by side) (by side) (by side) (by side)) ?_
    | refine Safe.bindG (SafeAll.loop $h _ _ _ _ _ (by side) (by side) (by side) (by side) (by side) (by side)) ?_
    | (intro _ _ _ _ _)
    | split)))

theorem safe_zero (A : Allowed) (C : SCfg) (cfg : RunCfg) : SafeAll (N := N) A C cfg 0 := by
  refine ⟨?_, ?_, ?_, ?_, ?_, ?_, ?_, ?_⟩
  · intro Γ e st hm hws _ hF
    exact good_of (by simp only [evalExpr]; exact Safe.fuel) ((ag_zero cfg).expr Γ e st hm hws) hF
  · intro Γ es st hm hws _ hF
    exact good_of (by simp only [evalSel]; exact Safe.fuel) ((ag_zero cfg).sel Γ es st hm hws) hF
  · intro Γ is st hm hws _ hF
    exact good_of (by simp only [evalIdxs]; exact Safe.fuel) ((ag_zero cfg).idxs Γ is st hm hws) hF
  · intro Γ m args sp st hm hws _ hF
    exact good_of (by simp only [evalMutOp]; exact Safe.fuel) ((ag_zero cfg).mutOp Γ m args sp st hm hws) hF
  · intro Γ d s st hm hws _ hF
    exact good_of (by simp only [execStmt]; exact Safe.fuel) ((ag_zero cfg).stmt Γ s st hm hws) hF
  · intro Γ d ss st hm hws _ hF
    exact good_of (by simp only [execStmts]; exact Safe.fuel) ((ag_zero cfg).stmts Γ ss st hm hws) hF
  · intro Γ d b st hm hws _ hF
    exact good_of (by simp only [execBlock]; exact Safe.fuel) ((ag_zero cfg).block Γ b st hm hws) hF
  · intro Γ c b sp st hm hc hb _ _ hF
    exact good_of (by simp only [loopW]; exact Safe.fuel) ((ag_zero cfg).loop Γ c b sp st hm hc hb) hF

end

/-! ### The induction step, one theorem per evaluator function -/

section
variable [NumOps N] {A : Allowed} {C : SCfg} {cfg : RunCfg} {f : Nat}

theorem safe_sel_step (H : Hyp N A C cfg) (h : SafeAll (N := N) A C cfg f) (Γ : List Binder)
    (es : List (Except (PanicSite × Span) Expr)) (st : State N) (hm : MR cfg Γ st) (hws : WsSel Γ es)
    (hok : OkSel C es) (hF : FInv C st.env) : Good A C cfg Γ st (evalSel cfg.dyn (f + 1) es st) := by
  refine good_of ?_ (ag_sel_step (ag_all cfg f) Γ es st hm hws) hF
  have hp := H.panics
  have hst := H.str
  cases es with
  | nil => simp only [evalSel]; safe_close h hp hst
  | cons e rest =>
    cases e with
    | error s => simp only [evalSel]; exact safe_trap hp hok.headErr _ _
    | ok e => simp only [evalSel]; safe_close h hp hst

theorem safe_idxs_step (H : Hyp N A C cfg) (h : SafeAll (N := N) A C cfg f) (Γ : List Binder)
    (is : List (Expr × Span)) (st : State N) (hm : MR cfg Γ st) (hws : ∀ q ∈ is, wsExpr Γ q.1 = true)
    (hok : ∀ q ∈ is, okExpr C q.1 = true) (hF : FInv C st.env) :
    Good A C cfg Γ st (evalIdxs cfg.dyn (f + 1) is st) := by
  refine good_of ?_ (ag_idxs_step (ag_all cfg f) Γ is st hm hws) hF
  have hp := H.panics
  have hst := H.str
  cases is with
  | nil => simp only [evalIdxs]; safe_close h hp hst
  | cons q rest =>
    obtain ⟨e, isp⟩ := q
    have h1 : wsExpr Γ e = true := hws (e, isp) List.mem_cons_self
    have h2 : ∀ q ∈ rest, wsExpr Γ q.1 = true := fun q hq => hws q (List.mem_cons_of_mem _ hq)
    have h3 : okExpr C e = true := hok (e, isp) List.mem_cons_self
    have h4 : ∀ q ∈ rest, okExpr C q.1 = true := fun q hq => hok q (List.mem_cons_of_mem _ hq)
    simp only [evalIdxs]; safe_close h hp hst

theorem safe_mutOp_step (H : Hyp N A C cfg) (h : SafeAll (N := N) A C cfg f) (Γ : List Binder)
    (m : MutM) (args : List Expr) (sp : Span) (st : State N) (hm : MR cfg Γ st) (hws : wsExprs Γ args = true)
    (hok : okExprs C args = true) (hF : FInv C st.env) :
    Good A C cfg Γ st (evalMutOp cfg.dyn (f + 1) m args sp st) := by
  refine good_of ?_ (ag_mutOp_step (ag_all cfg f) Γ m args sp st hm hws) hF
  have hp := H.panics
  have hst := H.str
  cases m with
  | cmd c => cases c <;> simp only [evalMutOp] <;> safe_close h hp hst
  | _ => simp only [evalMutOp] <;> safe_close h hp hst

theorem safe_stmts_step (H : Hyp N A C cfg) (h : SafeAll (N := N) A C cfg f) (Γ : List Binder) (d : Bool)
    (ss : List Stmt) (st : State N) (hm : MR cfg Γ st) (hws : wsStmts Γ ss = true)
    (hok : okStmts C d ss = true) (hF : FInv C st.env) :
    Good A C cfg Γ st (execStmts cfg.dyn (f + 1) ss st) := by
  refine good_of ?_ (ag_stmts_step (ag_all cfg f) Γ ss st hm hws) hF
  have hp := H.panics
  have hst := H.str
  cases ss with
  | nil => simp only [execStmts]; safe_close h hp hst
  | cons s rest =>
    simp only [wsStmts, Bool.and_eq_true] at hws
    obtain ⟨h1, h2⟩ := hws
    obtain ⟨h3, h4⟩ := okStmts_tail hok
    by_cases hpr : Plan.prunesStmt cfg.plan s.sid = true
    · simp only [execStmts, dyn_plan, hpr, ↓reduceIte]; safe_close h hp hst
    · have h3' := okStmt_of_not_pruned H.plan h3 hpr
      simp only [execStmts, dyn_plan, hpr]; safe_close h hp hst

theorem safe_loop_step (H : Hyp N A C cfg) (h : SafeAll (N := N) A C cfg f) (Γ : List Binder)
    (c : Expr) (b : Block) (sp : Span) (st : State N) (hm : MR cfg Γ st) (hc : wsExpr Γ c = true)
    (hb : wsBlock Γ b = true) (hoc : okExpr C c = true) (hob : okBlock C true b = true) (hF : FInv C st.env) :
    Good A C cfg Γ st (loopW cfg.dyn (f + 1) c b sp st) := by
  refine good_of ?_ (ag_loop_step (ag_all cfg f) Γ c b sp st hm hc hb) hF
  have hp := H.panics
  have hst := H.str
  simp only [loopW]; safe_close h hp hst

theorem safe_block_step (_H : Hyp N A C cfg) (h : SafeAll (N := N) A C cfg f) (Γ : List Binder) (d : Bool)
    (b : Block) (st : State N) (hm : MR cfg Γ st) (hws : wsBlock Γ b = true) (hok : okBlock C d b = true)
    (hF : FInv C st.env) : Good A C cfg Γ st (execBlock cfg.dyn (f + 1) b st) := by
  refine good_of ?_ (ag_block_step (ag_all cfg f) Γ b st hm hws) hF
  cases b with
  | mk ss sp =>
    simp only [wsBlock, Bool.and_eq_true] at hws
    obtain ⟨hfr, hss⟩ := hws
    simp only [okBlock] at hok
    simp only [execBlock, Block.stmts, Block.span]
    rw [hoist_cfg cfg cfg.dyn rfl]
    have hFI := FInv.hoist cfg ss _ hok (hF.push (.block sp) st.chain [] (declIds ss))
    obtain ⟨T, e, hmT⟩ := hm.enterBlock (.block sp) ss hfr hss
    rw [e] at hFI ⊢
    refine Safe.bindG (h.stmts _ d ss _ hmT hss hok hFI) ?_
    intro flow st2 _ _ _
    exact Safe.ok _ _

theorem safe_stmt_step (H : Hyp N A C cfg) (h : SafeAll (N := N) A C cfg f) (Γ : List Binder) (d : Bool)
    (s : Stmt) (st : State N) (hm : MR cfg Γ st) (hws : wsStmt Γ s = true) (hok : okStmt C d s = true)
    (hF : FInv C st.env) : Good A C cfg Γ st (execStmt cfg.dyn (f + 1) s st) := by
  refine good_of ?_ (ag_stmt_step (ag_all cfg f) Γ s st hm hws) hF
  have hp := H.panics
  have hst := H.str
  cases s with
  | assign var vsp e bind sid sp =>
    simp only [wsStmt, Bool.and_eq_true] at hws
    obtain ⟨he, hb⟩ := hws
    simp only [okStmt] at hok
    simp only [execStmt]; safe_close h hp hst
  | assignExisting var vsp e bind sid sp =>
    simp only [wsStmt, Bool.and_eq_true] at hws
    obtain ⟨he, hb⟩ := hws
    simp only [okStmt] at hok
    simp only [execStmt]; safe_close h hp hst
  | assignIndex target e sid sp =>
    simp only [wsStmt, Bool.and_eq_true] at hws
    obtain ⟨ht, he⟩ := hws
    simp only [okStmt, Bool.and_eq_true] at hok
    obtain ⟨⟨hot, hoe⟩, hidx⟩ := hok
    simp only [execStmt]
    refine Safe.bindG (h.expr _ _ _ hm he hoe hF) ?_
    intro v st1 hm1 hF1 hFI1
    cases hlv : lvOf target with
    | other => exact safe_trap hp rfl _ _
    | badRoot => exact safe_trap hp rfl _ _
    | path name bind idxs =>
      obtain ⟨hb, hidxws⟩ := lvOf_ws ht hlv
      obtain ⟨hidxok, hne⟩ := lvOf_ok hot hlv
      simp only
      refine Safe.bind (h.idxs _ _ _ hm1 hidxws hidxok hFI1).1 ?_
      intro path st2 e2
      have hlen := evalIdxs_length _ _ _ _ _ _ e2
      have hpne : path ≠ [] ∨ A .assignIndexEmpty := by
        rcases H.idx with ha | hs
        · exact Or.inr ha
        · left
          intro hnil
          rw [hnil] at hlen
          have hidx' : isIndexExpr target = true := by simpa [hs] using hidx
          exact hne hidx' (List.length_eq_zero_iff.1 hlen.symm)
      refine Safe.bind (safe_assignIndex (cfg := cfg.dyn) hp st2 name bind hpne v sp) ?_
      intro _ st3 _
      exact Safe.ok _ _
  | ifS cond thenB elseB sid sp =>
    simp only [wsStmt, Bool.and_eq_true] at hws
    obtain ⟨⟨hc, ht⟩, he⟩ := hws
    simp only [okStmt, Bool.and_eq_true] at hok
    obtain ⟨⟨hoc, hot⟩, hoe⟩ := hok
    cases elseB with
    | none => simp only [execStmt]; safe_close h hp hst
    | some eb =>
      have he' : wsBlock Γ eb = true := by simpa [wsOptBlock] using he
      have hoe' : okBlock C d eb = true := by simpa [okOptBlock] using hoe
      simp only [execStmt]; safe_close h hp hst
  | loop cond body sid sp =>
    simp only [wsStmt, Bool.and_eq_true] at hws
    obtain ⟨hc, hb⟩ := hws
    simp only [okStmt, Bool.and_eq_true] at hok
    obtain ⟨hoc, hob⟩ := hok
    simp only [execStmt]; safe_close h hp hst
  | block b sid sp =>
    simp only [wsStmt] at hws
    simp only [okStmt] at hok
    simp only [execStmt]; safe_close h hp hst
  | fnDef => simp only [execStmt]; safe_close h hp hst
  | ret e sid sp =>
    cases e with
    | none => simp only [execStmt]; safe_close h hp hst
    | some e =>
      simp only [wsStmt] at hws
      simp only [okStmt] at hok
      simp only [execStmt]; safe_close h hp hst
  | brk => simp only [execStmt]; safe_close h hp hst
  | cont => simp only [execStmt]; safe_close h hp hst
  | expr e sid sp =>
    simp only [wsStmt] at hws
    simp only [okStmt] at hok
    simp only [execStmt]; safe_close h hp hst

theorem safe_expr_step (H : Hyp N A C cfg) (h : SafeAll (N := N) A C cfg f) (Γ : List Binder)
    (e : Expr) (st : State N) (hm : MR cfg Γ st) (hws : wsExpr Γ e = true) (hok : okExpr C e = true)
    (hF : FInv C st.env) : Good A C cfg Γ st (evalExpr cfg.dyn (f + 1) e st) := by
  refine good_of ?_ (ag_expr_step (ag_all cfg f) Γ e st hm hws) hF
  have hp := H.panics
  have hst := H.str
  cases e with
  | num lex sp =>
    simp only [okExpr] at hok
    simp only [evalExpr]
    split
    · exact Safe.ok _ _
    · next hn =>
      rcases H.num with ha | hnum
      · exact safe_trap_allowed ha _ _
      · have := hnum lex hok; rw [hn] at this; cases this
  | bool b sp => simp only [evalExpr]; safe_close h hp hst
  | null sp => simp only [evalExpr]; safe_close h hp hst
  | str parts sp =>
    cases parts with
    | static s => simp only [evalExpr]; safe_close h hp hst
    | interp segs => simp only [evalExpr]; safe_close h hp hst
  | var name bind sp => simp only [evalExpr]; safe_close h hp hst
  | binary op l r sp =>
    simp only [wsExpr, Bool.and_eq_true] at hws
    obtain ⟨hl, hr⟩ := hws
    simp only [okExpr, Bool.and_eq_true] at hok
    obtain ⟨hol, hor⟩ := hok
    simp only [evalExpr]; safe_close h hp hst
  | unary op x sp =>
    simp only [wsExpr] at hws
    simp only [okExpr] at hok
    simp only [evalExpr]; safe_close h hp hst
  | array es sp =>
    simp only [wsExpr] at hws
    simp only [okExpr] at hok
    simp only [evalExpr]; safe_close h hp hst
  | index a i isp sp =>
    simp only [wsExpr, Bool.and_eq_true] at hws
    obtain ⟨ha, hi⟩ := hws
    simp only [okExpr, Bool.and_eq_true] at hok
    obtain ⟨hoa, hoi⟩ := hok
    simp only [evalExpr]; safe_close h hp hst
  | member obj field fsp sp => simp only [evalExpr]; safe_close h hp hst
  | call callee args fn sp =>
    cases callee with
    | member obj field fsp msp =>
      simp only [wsExpr, Bool.and_eq_true] at hws
      obtain ⟨hobj, hargs⟩ := hws
      simp only [okExpr, Bool.and_eq_true] at hok
      obtain ⟨hoobj, hoargs⟩ := hok
      simp only [evalExpr]
      cases hmm : MutM.ofName field with
      | some m =>
        simp only
        refine Safe.bindG (h.mutOp _ _ _ _ _ hm hargs hoargs hF) ?_
        intro op st1 hm1 hF1 hFI1
        cases hlv : lvOf obj with
        | other => exact Safe.err _ _ _
        | badRoot => exact safe_trap hp rfl _ _
        | path name bind idxs =>
          obtain ⟨hb, hidxws⟩ := lvOf_ws hobj hlv
          obtain ⟨hidxok, _⟩ := lvOf_ok hoobj hlv
          simp only
          refine Safe.bindG (h.idxs _ _ _ hm1 hidxws hidxok hFI1) ?_
          intro path st2 _ _ _
          exact safe_applyMut (N := N) (cfg := cfg.dyn) hp _ _ _ _ _ _
      | none =>
        simp only
        safe_close h hp hst
    | var name b vsp =>
      simp only [wsExpr, Bool.and_eq_true] at hws
      obtain ⟨hargs, hfn⟩ := hws
      simp only [okExpr, Bool.and_eq_true] at hok
      obtain ⟨hoargs, hcall⟩ := hok
      simp only [evalExpr]
      cases hg : Eval.GlobalB.ofName name with
      | some gb =>
        simp only [hg, Option.isSome_some, if_true] at hcall
        have h1 : args.length = 1 := by simpa using hcall
        simp only
        refine Safe.bind (h.sel _ _ _ hm (WsSel.map_ok hargs) (OkSel.map_ok hoargs) hF).1 ?_
        intro vs st1 e1
        have hlen := evalSel_length _ _ _ _ _ _ e1
        simp only [List.length_map, h1] at hlen
        obtain ⟨v, rfl⟩ : ∃ v, vs = [v] := by
          cases vs with
          | nil => simp at hlen
          | cons v t =>
            cases t with
            | nil => exact ⟨v, rfl⟩
            | cons _ _ => simp at hlen
        exact safe_globalCall hp _ _ _ _
      | none =>
        have hfb : fnBoundIn Γ fn = true := by simpa [hg] using hfn
        simp only [hg, Option.isSome_none, Bool.false_eq_true, if_false, Bool.and_eq_true,
          Bool.not_eq_true'] at hcall
        obtain ⟨hcall, hkeepC⟩ := hcall
        have hkeep := H.plan.kept hkeepC
        cases fn with
        | none => simp [SCfg.fnOk] at hcall
        | some i =>
          have hdecl : fnDeclared Γ i = true := hfb
          simp only
          rw [lookupFn_agree hm hfb]
          obtain ⟨fd, hfd⟩ := lookupFn_lex_some hm hdecl hkeep name
          rw [hfd]
          simp only
          obtain ⟨⟨T, hT, hmem⟩, hid⟩ := lookupFn_found hfd
          have hfnok := hF T hT fd hmem
          have hbodyok : okBlock C false fd.body = true := hfnok.2 (by rw [hid]; exact hkeepC)
          have har : fd.params.length = args.length := by
            have a1 := hfnok.1
            rw [hid] at a1
            simp only [SCfg.fnOk, beq_iff_eq] at a1 hcall
            rw [a1] at hcall
            exact Option.some.inj hcall
          have hsel := h.sel _ _ _ hm (WsSel.map_ok hargs) (OkSel.map_ok hoargs) hF
          refine Safe.bind hsel.1 ?_
          intro vs st1 e1
          obtain ⟨hm1, hF1, hFI1⟩ := hsel.2 vs st1 e1
          have hlen := evalSel_length _ _ _ _ _ _ e1
          simp only [List.length_map] at hlen
          split
          · next hne => exact absurd (by rw [hlen, har]) hne
          · have hfd1 : lookupFn cfg.lex st1 (some i) name = some fd := by
              rw [lookupFn_frame hF1]; exact hfd
            obtain ⟨j, _, hwsfn, _⟩ := lookupFn_lex_spec hm1 hfd1
            have hids : paramIds fd = some (fd.params.map (·.bind)) := by
              simp only [paramIds, hid, hwsfn.1, if_true]
            obtain ⟨j', _, hmP, hbody⟩ := hm1.enterCall hfd1 hids vs
            rw [hids]
            simp only
            refine Safe.bind (h.block _ false fd.body _ hmP hbody hbodyok (hFI1.push _ _ _ _)).1 ?_
            intro flow st3 e3
            have hj := (flow_all (N := N) C cfg.dyn H.plan f).block false fd.body _ flow st3 hbodyok e3
            cases flow with
            | cont => exact Safe.ok _ _
            | ret v => exact Safe.ok _ _
            | brk => exact absurd (hj rfl) (by decide)
            | next => exact absurd (hj rfl) (by decide)
    | _ => simp only [evalExpr]; safe_close h hp hst

/-- One more unit of fuel. -/
theorem safe_step (H : Hyp N A C cfg) (h : SafeAll (N := N) A C cfg f) : SafeAll (N := N) A C cfg (f + 1) :=
  ⟨safe_expr_step H h, safe_sel_step H h, safe_idxs_step H h, safe_mutOp_step H h, safe_stmt_step H h,
   safe_stmts_step H h, safe_block_step H h, safe_loop_step H h⟩

/-- **No evaluation panics**, for every fuel. -/
theorem safe_all (H : Hyp N A C cfg) : ∀ f, SafeAll (N := N) A C cfg f
  | 0 => safe_zero A C cfg
  | f + 1 => safe_step H (safe_all H f)

end

end NaijaVerif.Bridge
