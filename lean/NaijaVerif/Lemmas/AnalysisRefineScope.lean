import NaijaVerif.Lemmas.AnalysisRefineState
/-
BRIDGE, part 5: how the state relation `StSim` is kept by the state-level operations of the two
evaluators: variable lookup and store, `shout`, entering a block (push + hoist), entering a function
(parameter scope), leaving a scope.
-/
namespace NaijaVerif.C03
open NaijaVerif NaijaVerif.Analysis

variable {N : Type} {o : Orc} {ds : Nat → Option Nat} {drop : Nat → Bool}

/-! ### Lookup and store on states -/

theorem lookupVal_sim {rc : Eval.RunCfg} (hl : rc.lookup = .dynamic) {s : Eval.State N} {t : AEval.St (VE N)}
    (h : StSim o ds drop s t) (l : Nat) (name : Bytes) :
    Eval.lookupVal rc s (some l) name = AEval.lookupEnv ds l t.env := by
  simp only [Eval.lookupVal, Eval.slotOf, hl]
  exact lookup_sim l h.env

theorem slotOf_dynamic {rc : Eval.RunCfg} (hl : rc.lookup = .dynamic) (s : Eval.State N) (l : Nat) (name : Bytes) :
    Eval.slotOf rc s (some l) name = Eval.findOwned l s.env := by
  simp only [Eval.slotOf, hl]

theorem assign_eq {rc : Eval.RunCfg} (hl : rc.lookup = .dynamic) (s : Eval.State N) (l : Nat) (name : Bytes) (w : VE N) :
    Eval.assign rc s (some l) name w = (assignE l w s.env).map (fun e => { s with env := e }) := by
  simp only [Eval.assign, slotOf_dynamic hl, assignE]
  cases Eval.findOwned l s.env <;> rfl

/-- `assign_bound_local` against `assignEnv`. -/
theorem assign_st_sim {rc : Eval.RunCfg} (hl : rc.lookup = .dynamic) {s : Eval.State N} {t : AEval.St (VE N)}
    (h : StSim o ds drop s t) (l : Nat) (name : Bytes) (w : VE N) :
    ORel2 (fun s' env' => StSim o ds drop s' { t with env := env' }) (Eval.assign rc s (some l) name w)
      (AEval.assignEnv ds l w t.env) := by
  rw [assign_eq hl]
  have := assign_sim (o := o) (ds := ds) (drop := drop) l w h.env
  cases he : assignE l w s.env with
  | none =>
    cases ha : AEval.assignEnv ds l w t.env with
    | none => simp [ORel2]
    | some _ => simp [he, ha, ORel2] at this
  | some e =>
    cases ha : AEval.assignEnv ds l w t.env with
    | none => simp [he, ha, ORel2] at this
    | some e' =>
      simp only [he, ha, ORel2] at this
      simp only [Option.map_some, ORel2]
      exact ⟨this, h.out, h.input⟩

theorem shout_sim {s : Eval.State N} {t : AEval.St (VE N)} (h : StSim o ds drop s t) (v : VE N) :
    StSim o ds drop { s with out := s.out ++ [v] } { t with out := v :: t.out } :=
  ⟨h.env, by simp [h.out], h.input⟩

/-! ### Scopes -/

theorem push_sim {s : Eval.State N} {t : AEval.St (VE N)} (h : StSim o ds drop s t) {tag : Option Nat} {decls : List Nat}
    (htag : TagOk ds tag decls) (kind : Eval.ScopeKind) (chain : List Nat) :
    StSim o ds drop (Eval.pushScope s kind chain [] decls)
      { t with env := ⟨tag, []⟩ :: t.env, fns := [] :: t.fns } := by
  refine ⟨⟨⟨fun l => by simp [slotValE, AEval.findSlot], htag, fun g => ?_⟩, h.env⟩, h.out, h.input⟩
  cases drop g <;> simp [ORel2]

theorem pop_sim {s : Eval.State N} {t : AEval.St (VE N)} (h : StSim o ds drop s t) (chain : List Nat) :
    StSim o ds drop (Eval.popScope s chain) { t with env := t.env.drop 1, fns := t.fns.drop 1 } := by
  obtain ⟨henv, hout, hin⟩ := h
  refine ⟨?_, hout, hin⟩
  simp only [Eval.popScope]
  match hse : s.env, hte : t.env, htf : t.fns, henv with
  | [], [], [], _ => simp [EnvSim]
  | se :: es, ta :: ts, fa :: fs, ⟨_, hrest⟩ => simpa using hrest

/-! ### `find?` in a reversed list -/

theorem find?_reverse_of_unique {α : Type} (p : α → Bool) (l : List α)
    (hu : ∀ x y, x ∈ l → y ∈ l → p x = true → p y = true → x = y) : l.reverse.find? p = l.find? p := by
  cases h : l.find? p with
  | none =>
    rw [List.find?_eq_none] at h ⊢
    intro x hx
    exact h x (List.mem_reverse.mp hx)
  | some x =>
    have hx := List.find?_some h
    have hxm := List.mem_of_find?_eq_some h
    cases h' : l.reverse.find? p with
    | none =>
      rw [List.find?_eq_none] at h'
      exact absurd hx (h' x (List.mem_reverse.mpr hxm))
    | some y =>
      have hy := List.find?_some h'
      have hym := List.mem_reverse.mp (List.mem_of_find?_eq_some h')
      rw [hu y x hym hxm hy hx]

/-! ### Hoisting -/

/-- The entries `hoist` registers, in registration (source) order. -/
def hoistL (rc : Eval.RunCfg) (chain : List Nat) : List Stmt → List Eval.FnEntry
  | [] => []
  | .fnDef name _ params body fn _ _ :: rest =>
    if Eval.Plan.prunesFn rc.plan fn then hoistL rc chain rest
    else { id := fn, name := name, params := params, body := body, chain := chain } :: hoistL rc chain rest
  | .assign .. :: rest | .assignExisting .. :: rest | .assignIndex .. :: rest | .ifS .. :: rest
  | .loop .. :: rest | .block .. :: rest | .ret .. :: rest | .brk .. :: rest | .cont .. :: rest
  | .expr .. :: rest => hoistL rc chain rest

theorem hoist_eq (rc : Eval.RunCfg) : ∀ (stmts : List Stmt) (st : Eval.State N) (sc : Eval.Scope N) (r : List (Eval.Scope N)),
    st.env = sc :: r →
    Eval.hoist rc stmts st = { st with env := { sc with fns := (hoistL rc st.chain stmts).reverse ++ sc.fns } :: r }
  | [], st, sc, r, h => by simp [Eval.hoist, hoistL, ← h]
  | .fnDef name _ params body fn _ _ :: rest, st, sc, r, h => by
      simp only [Eval.hoist, hoistL]
      split
      · exact hoist_eq rc rest st sc r h
      · rw [h]
        simp only
        rw [hoist_eq rc rest _ _ r rfl]
        simp
  | .assign .. :: rest, st, sc, r, h | .assignExisting .. :: rest, st, sc, r, h
  | .assignIndex .. :: rest, st, sc, r, h | .ifS .. :: rest, st, sc, r, h | .loop .. :: rest, st, sc, r, h
  | .block .. :: rest, st, sc, r, h | .ret .. :: rest, st, sc, r, h | .brk .. :: rest, st, sc, r, h
  | .cont .. :: rest, st, sc, r, h | .expr .. :: rest, st, sc, r, h => by
      simp only [Eval.hoist, hoistL]
      exact hoist_eq rc rest st sc r h

/-- Ids of registered entries are ids of definitions of the block. -/
theorem hoistL_ids (rc : Eval.RunCfg) (chain : List Nat) : ∀ (stmts : List Stmt) (e : Eval.FnEntry) (i : Nat),
    e ∈ hoistL rc chain stmts → e.id = some i → i ∈ Eval.fnIdsOf stmts
  | [], _, _, h, _ => by simp [hoistL] at h
  | .fnDef name _ params body fn _ _ :: rest, e, i, h, hi => by
      simp only [hoistL] at h
      split at h
      · have := hoistL_ids rc chain rest e i h hi
        cases fn <;> simp [Eval.fnIdsOf, this]
      · rcases List.mem_cons.mp h with rfl | h
        · simp only at hi
          subst hi
          simp [Eval.fnIdsOf]
        · have := hoistL_ids rc chain rest e i h hi
          cases fn <;> simp [Eval.fnIdsOf, this]
  | .assign .. :: rest, e, i, h, hi | .assignExisting .. :: rest, e, i, h, hi
  | .assignIndex .. :: rest, e, i, h, hi | .ifS .. :: rest, e, i, h, hi | .loop .. :: rest, e, i, h, hi
  | .block .. :: rest, e, i, h, hi | .ret .. :: rest, e, i, h, hi | .brk .. :: rest, e, i, h, hi
  | .cont .. :: rest, e, i, h, hi | .expr .. :: rest, e, i, h, hi => by
      simp only [hoistL] at h
      simpa [Eval.fnIdsOf] using hoistL_ids rc chain rest e i h hi

/-- With distinct `FunctionId`s in the block, at most one registered entry has a given id. -/
theorem hoistL_unique (rc : Eval.RunCfg) (chain : List Nat) (g : Nat) : ∀ (stmts : List Stmt),
    (Eval.fnIdsOf stmts).Nodup → ∀ x y, x ∈ hoistL rc chain stmts → y ∈ hoistL rc chain stmts →
      (x.id == some g) = true → (y.id == some g) = true → x = y
  | [], _, x, _, hx, _, _, _ => by simp [hoistL] at hx
  | .fnDef name _ params body fn _ _ :: rest, hn, x, y, hx, hy, px, py => by
      have hn' : (Eval.fnIdsOf rest).Nodup := by
        cases fn with
        | none => simpa [Eval.fnIdsOf] using hn
        | some f => simp only [Eval.fnIdsOf, List.nodup_cons] at hn; exact hn.2
      simp only [hoistL] at hx hy
      by_cases hp : Eval.Plan.prunesFn rc.plan fn = true
      · simp only [hp, ↓reduceIte] at hx hy
        exact hoistL_unique rc chain g rest hn' x y hx hy px py
      · simp only [hp, Bool.false_eq_true, ↓reduceIte] at hx hy
        have hxi : x.id = some g := by simpa using px
        have hyi : y.id = some g := by simpa using py
        have hhead : ∀ z, z ∈ hoistL rc chain rest → z.id = some g → fn = some g → False := by
          intro z hz hzi hfn
          subst hfn
          simp only [Eval.fnIdsOf, List.nodup_cons] at hn
          exact hn.1 (hoistL_ids rc chain rest z g hz hzi)
        rcases List.mem_cons.mp hx with rfl | hx' <;> rcases List.mem_cons.mp hy with rfl | hy'
        · rfl
        · exact (hhead y hy' hyi (by simpa using hxi)).elim
        · exact (hhead x hx' hxi (by simpa using hyi)).elim
        · exact hoistL_unique rc chain g rest hn' x y hx' hy' px py
  | .assign .. :: rest, hn, x, y, hx, hy, px, py | .assignExisting .. :: rest, hn, x, y, hx, hy, px, py
  | .assignIndex .. :: rest, hn, x, y, hx, hy, px, py | .ifS .. :: rest, hn, x, y, hx, hy, px, py
  | .loop .. :: rest, hn, x, y, hx, hy, px, py | .block .. :: rest, hn, x, y, hx, hy, px, py
  | .ret .. :: rest, hn, x, y, hx, hy, px, py | .brk .. :: rest, hn, x, y, hx, hy, px, py
  | .cont .. :: rest, hn, x, y, hx, hy, px, py | .expr .. :: rest, hn, x, y, hx, hy, px, py => by
      simp only [hoistL] at hx hy
      exact hoistL_unique rc chain g rest (by simpa [Eval.fnIdsOf] using hn) x y hx hy px py

theorem hoistL_find_none (rc : Eval.RunCfg) (chain : List Nat) (stmts : List Stmt) (g : Nat)
    (hg : g ∉ Eval.fnIdsOf stmts) : (hoistL rc chain stmts).find? (fun fd => fd.id == some g) = none := by
  rw [List.find?_eq_none]
  intro e he hp
  exact hg (hoistL_ids rc chain stmts e g he (by simpa using hp))

/-- What a lookup by id finds among the entries registered for a block, against the fragment's
definitions of the block (`AEval.hoist`, which registers everything; the plan acts at the lookup). -/
theorem hoistL_find {rc : Eval.RunCfg} (hdrop : ∀ i, Eval.Plan.prunesFn rc.plan (some i) = drop i) (chain : List Nat) (g : Nat) :
    ∀ (stmts : List Stmt), okStmts o stmts = true → (Eval.fnIdsOf stmts).Nodup →
    ORel2 (FnRel o) ((hoistL rc chain stmts).find? (fun fd => fd.id == some g))
      (if drop g then none else (AEval.hoist stmts).find? (fun f => f.id == g))
  | [], _, _ => by cases drop g <;> simp [hoistL, AEval.hoist, ORel2]
  | .fnDef name nsp ps (.mk body bsp) none sid sp :: rest, hok, hn => by
      have ih := hoistL_find hdrop chain g rest (by simp only [okStmts, Bool.and_eq_true] at hok; exact hok.2)
        (by simpa [Eval.fnIdsOf] using hn)
      have hp : Eval.Plan.prunesFn rc.plan none = false := by cases rc.plan <;> rfl
      simpa [hoistL, hp, AEval.hoist] using ih
  | .fnDef name nsp ps (.mk body bsp) (some f) sid sp :: rest, hok, hn => by
      simp only [okStmts, okStmt, Bool.and_eq_true] at hok
      simp only [Eval.fnIdsOf, List.nodup_cons] at hn
      have ih := hoistL_find hdrop chain g rest hok.2 hn.2
      simp only [hoistL, hdrop, AEval.hoist, List.find?_cons]
      by_cases hgf : f = g
      · subst hgf
        cases hd : drop f with
        | true => simp only [↓reduceIte, hoistL_find_none rc chain rest f hn.1, ORel2]
        | false =>
          simp only [Bool.false_eq_true, ↓reduceIte, List.find?_cons, beq_self_eq_true, ORel2]
          exact ⟨rfl, rfl, rfl, hok.1.1.1, hok.1.1.2⟩
      · have h1 : (some f == some g) = false := by simpa using hgf
        have h2 : (f == g) = false := by simpa using hgf
        cases hd : drop f with
        | true => simpa only [↓reduceIte, h2, Bool.false_eq_true] using ih
        | false => simpa only [Bool.false_eq_true, ↓reduceIte, List.find?_cons, h1, h2] using ih
  | .assign .. :: rest, hok, hn | .assignExisting .. :: rest, hok, hn
  | .assignIndex .. :: rest, hok, hn | .ifS .. :: rest, hok, hn | .loop .. :: rest, hok, hn
  | .block .. :: rest, hok, hn | .ret .. :: rest, hok, hn | .brk .. :: rest, hok, hn
  | .cont .. :: rest, hok, hn | .expr .. :: rest, hok, hn => by
      have ih := hoistL_find hdrop chain g rest (by simp only [okStmts, Bool.and_eq_true] at hok; exact hok.2)
        (by simpa [Eval.fnIdsOf] using hn)
      simpa [hoistL, AEval.hoist] using ih

/-- Entering a block: `push_scope` + `hoist_block_functions` on both sides. -/
theorem block_enter_sim {rc : Eval.RunCfg} (hdrop : ∀ i, Eval.Plan.prunesFn rc.plan (some i) = drop i)
    {s : Eval.State N} {t : AEval.St (VE N)} (h : StSim o ds drop s t) (ss : Nat → Option Nat) (stmts : List Stmt)
    (htag : TagOk ds (AEval.blockTag ss stmts) (Eval.declIds stmts)) (hn : (Eval.fnIdsOf stmts).Nodup)
    (hok : okStmts o stmts = true) (sp : Span) :
    StSim o ds drop (Eval.hoist rc stmts (Eval.pushScope s (.block sp) s.chain [] (Eval.declIds stmts)))
      { t with env := ⟨AEval.blockTag ss stmts, []⟩ :: t.env, fns := AEval.hoist stmts :: t.fns } := by
  rw [hoist_eq rc stmts _ _ _ rfl]
  refine ⟨⟨⟨fun l => by simp [slotValE, AEval.findSlot], htag, fun g => ?_⟩, h.env⟩, h.out, h.input⟩
  simp only [List.append_nil]
  rw [find?_reverse_of_unique _ _ (hoistL_unique rc _ g stmts hn)]
  exact hoistL_find hdrop _ g stmts hok hn

/-! ### Parameter scopes -/

theorem unique_of_nodup_key {α : Type} (key : α → Option Nat) (g : Nat) : ∀ (l : List α), (l.filterMap key).Nodup →
    ∀ x y, x ∈ l → y ∈ l → key x = some g → key y = some g → x = y
  | [], _, x, _, hx, _, _, _ => by cases hx
  | a :: l, hn, x, y, hx, hy, kx, ky => by
      have hn' : (l.filterMap key).Nodup := by
        cases ha : key a with
        | none => simpa [List.filterMap_cons, ha] using hn
        | some k => simp only [List.filterMap_cons, ha, List.nodup_cons] at hn; exact hn.2
      have hhead : ∀ z, z ∈ l → key z = some g → key a = some g → False := by
        intro z hz kz ka
        simp only [List.filterMap_cons, ka, List.nodup_cons] at hn
        exact hn.1 (List.mem_filterMap.mpr ⟨z, hz, kz⟩)
      rcases List.mem_cons.mp hx with rfl | hx' <;> rcases List.mem_cons.mp hy with rfl | hy'
      · rfl
      · exact (hhead y hy' ky kx).elim
      · exact (hhead x hx' kx ky).elim
      · exact unique_of_nodup_key key g l hn' x y hx' hy' kx ky

/-- The parameter slots in parameter order (`paramSlots` is the reverse: the last parameter is
pushed last, so it is searched first). -/
def pslots : List Param → List (VE N) → List (Eval.Slot N)
  | p :: ps, v :: vs => { id := p.bind, name := p.name, val := v } :: pslots ps vs
  | [], _ => []
  | _ :: _, [] => []

theorem paramSlots_eq : ∀ (ps : List Param) (vs : List (VE N)),
    Eval.paramSlots ps (ps.map (·.bind)) vs = (pslots ps vs).reverse := by
  intro ps vs
  simp only [Eval.paramSlots]
  congr 1
  induction ps generalizing vs with
  | nil => simp [pslots]
  | cons p ps ih =>
    cases vs with
    | nil => simp [pslots]
    | cons v vs => simp [pslots, ih vs]

theorem bindParams_some_iff : ∀ (ps : List Param) (vs : List (VE N)), (∀ p ∈ ps, p.bind.isSome = true) →
    ((AEval.bindParams ps vs).isSome = true ↔ vs.length = ps.length)
  | [], [], _ => by simp [AEval.bindParams]
  | [], _ :: _, _ => by simp [AEval.bindParams]
  | _ :: _, [], _ => by simp [AEval.bindParams]
  | p :: ps, v :: vs, hb => by
      have ih := bindParams_some_iff ps vs (fun q hq => hb q (List.mem_cons_of_mem _ hq))
      have hp := hb p (List.mem_cons_self ..)
      cases hpb : p.bind with
      | none => simp [hpb] at hp
      | some id =>
        simp only [AEval.bindParams, hpb, List.length_cons, Nat.add_right_cancel_iff]
        cases hr : AEval.bindParams ps vs with
        | none => simp [hr] at ih ⊢; exact ih
        | some r => simp [hr] at ih ⊢; exact ih

theorem pslots_keys : ∀ (ps : List Param) (vs : List (VE N)) (slots : List (AEval.Slot (VE N))),
    AEval.bindParams ps vs = some slots → (pslots ps vs).filterMap (·.id) = ps.filterMap (·.bind)
  | [], [], _, _ => by simp [pslots]
  | [], _ :: _, _, h => by simp [AEval.bindParams] at h
  | _ :: _, [], _, h => by simp [AEval.bindParams] at h
  | p :: ps, v :: vs, slots, h => by
      simp only [AEval.bindParams] at h
      cases hpb : p.bind with
      | none => simp [hpb] at h
      | some id =>
        cases hr : AEval.bindParams ps vs with
        | none => simp [hpb, hr] at h
        | some r =>
          have ih := pslots_keys ps vs r hr
          simp [pslots, hpb, ih]

theorem pslots_find : ∀ (ps : List Param) (vs : List (VE N)) (slots : List (AEval.Slot (VE N))),
    AEval.bindParams ps vs = some slots → ∀ l,
      ((pslots ps vs).find? (fun sl => sl.id == some l)).map (·.val) = AEval.findSlot l slots
  | [], [], slots, h, l => by
      simp only [AEval.bindParams, Option.some.injEq] at h
      subst h
      simp [pslots, AEval.findSlot]
  | [], _ :: _, _, h, _ => by simp [AEval.bindParams] at h
  | _ :: _, [], _, h, _ => by simp [AEval.bindParams] at h
  | p :: ps, v :: vs, slots, h, l => by
      simp only [AEval.bindParams] at h
      cases hpb : p.bind with
      | none => simp [hpb] at h
      | some id =>
        cases hr : AEval.bindParams ps vs with
        | none => simp [hpb, hr] at h
        | some r =>
          simp only [hpb, hr, Option.some.injEq] at h
          subst h
          have ih := pslots_find ps vs r hr l
          simp only [pslots, hpb, List.find?_cons, AEval.findSlot]
          by_cases hl : id = l
          · subst hl; simp
          · have h1 : (some id == some l) = false := by simpa using hl
            have h2 : (id == l) = false := by simpa using hl
            simp only [h1, h2, Bool.false_eq_true, ↓reduceIte]
            exact ih

/-- Entering a function: the parameter scope on both sides. -/
theorem params_sim {s : Eval.State N} {t : AEval.St (VE N)} (h : StSim o ds drop s t) (ps : List Param) (vs : List (VE N))
    (slots : List (AEval.Slot (VE N))) (hb : AEval.bindParams ps vs = some slots)
    (hn : (ps.filterMap (·.bind)).Nodup) (htag : TagOk ds (AEval.paramTag ds ps) (ps.filterMap (·.bind)))
    (kind : Eval.ScopeKind) (chain : List Nat) :
    StSim o ds drop
      (Eval.pushScope s kind chain (Eval.paramSlots ps (ps.map (·.bind)) vs) ((ps.map (·.bind)).filterMap id))
      { t with env := ⟨AEval.paramTag ds ps, slots⟩ :: t.env, fns := [] :: t.fns } := by
  refine ⟨⟨⟨fun l => ?_, ?_, fun g => ?_⟩, h.env⟩, h.out, h.input⟩
  · simp only [Eval.pushScope, slotValE, paramSlots_eq]
    rw [find?_reverse_of_unique]
    · exact pslots_find ps vs slots hb l
    · intro x y hx hy px py
      refine unique_of_nodup_key (·.id) l (pslots ps vs) ?_ x y hx hy (by simpa using px) (by simpa using py)
      rw [pslots_keys ps vs slots hb]
      exact hn
  · simpa [Eval.pushScope, List.filterMap_map] using htag
  · cases drop g <;> simp [Eval.pushScope, ORel2]

end NaijaVerif.C03
