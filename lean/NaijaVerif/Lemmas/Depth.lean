/-
Generic lemmas about `Model/Depth.lean`: the potential function, the depth invariant, pumping along an
unguarded cycle.
-/
import NaijaVerif.Model.Depth

namespace NaijaVerif.Depth

set_option linter.unusedSectionVars false

variable {α : Type} [DecidableEq α]

theorem le_listMax {l : List Nat} {x : Nat} (h : x ∈ l) : x ≤ listMax l := by
  induction l with
  | nil => cases h
  | cons y ys ih =>
    simp only [listMax]
    cases h with
    | head => exact Nat.le_max_left _ _
    | tail _ h' => exact Nat.le_trans (ih h') (Nat.le_max_right _ _)

theorem listMax_map_mono {β : Type} (l : List β) (φ ψ : β → Nat) (h : ∀ x ∈ l, φ x ≤ ψ x) :
    listMax (l.map φ) ≤ listMax (l.map ψ) := by
  induction l with
  | nil => simp [listMax]
  | cons y ys ih =>
    simp only [List.map, listMax]
    have h1 : φ y ≤ ψ y := h y (by simp)
    have h2 := ih (fun x hx => h x (by simp [hx]))
    omega

theorem mem_succ {g : Graph α} {f h : α} (he : (f, h) ∈ g.edges) : h ∈ g.succ f := by
  unfold Graph.succ
  simp only [List.mem_map, List.mem_filter]
  exact ⟨(f, h), ⟨he, by simp⟩, rfl⟩

theorem pot_mono_succ (g : Graph α) (c : α → Nat) : ∀ (n : Nat) (f : α), pot g c n f ≤ pot g c (n + 1) f := by
  intro n
  induction n with
  | zero => intro f; simp [pot]
  | succ n ih =>
    intro f
    have e1 : pot g c (n + 1) f = c f + listMax ((g.succ f).map
        (fun h => if g.guarded h then c h else pot g c n h)) := rfl
    have e2 : pot g c (n + 1 + 1) f = c f + listMax ((g.succ f).map
        (fun h => if g.guarded h then c h else pot g c (n + 1) h)) := rfl
    rw [e2, e1]
    have := listMax_map_mono (g.succ f)
      (fun h => if g.guarded h then c h else pot g c n h)
      (fun h => if g.guarded h then c h else pot g c (n + 1) h)
      (by
        intro x _
        by_cases hx : g.guarded x = true
        · simp [hx]
        · simp only [hx]; exact ih x)
    omega

theorem pot_mono (g : Graph α) (c : α → Nat) {n m : Nat} (h : n ≤ m) (f : α) :
    pot g c n f ≤ pot g c m f := by
  induction h with
  | refl => exact Nat.le_refl _
  | step _ ih => exact Nat.le_trans ih (pot_mono_succ g c _ f)

theorem cost_le_potR (g : Graph α) (c r : α → Nat) (f : α) : c f ≤ potR g c r f := by
  simp [potR, pot]

/-- Calling a guarded function: the chain ends there. -/
theorem potR_edge_guarded (g : Graph α) (c r : α → Nat) {f h : α} (he : (f, h) ∈ g.edges)
    (hg : g.guarded h = true) : c f + c h ≤ potR g c r f := by
  simp only [potR, pot]
  have hm : (if g.guarded h then c h else pot g c (r f) h) ∈
      (g.succ f).map (fun h => if g.guarded h then c h else pot g c (r f) h) :=
    List.mem_map.mpr ⟨h, mem_succ he, rfl⟩
  have := le_listMax hm
  simp [hg] at this
  omega

/-- Calling an unguarded function: its whole potential fits under the caller's. -/
theorem potR_edge_free (g : Graph α) (c r : α → Nat) (hr : rankOK g r = true) {f h : α}
    (he : (f, h) ∈ g.edges) (hg : g.guarded h = false) : c f + potR g c r h ≤ potR g c r f := by
  have hrank : r h < r f := by
    have := List.all_eq_true.mp hr (f, h) he
    simp [hg] at this
    exact this
  simp only [potR]
  show c f + pot g c (r h + 1) h ≤ pot g c (r f + 1) f
  simp only [pot]
  have hm : (if g.guarded h then c h else pot g c (r f) h) ∈
      (g.succ f).map (fun h => if g.guarded h then c h else pot g c (r f) h) :=
    List.mem_map.mpr ⟨h, mem_succ he, rfl⟩
  have h1 := le_listMax hm
  simp [hg] at h1
  have h2 : pot g c (r h + 1) h ≤ pot g c (r f) h := pot_mono g c (by omega) h
  simp only [pot] at h2
  omega

theorem potR_le_gap (g : Graph α) (c r : α → Nat) (root : α) {f : α} (h : f ∈ anchors g root) :
    potR g c r f ≤ gap g c r root :=
  le_listMax (List.mem_map.mpr ⟨f, h, rfl⟩)

/-- The invariant behind the bound: below the top frame there is room for the top frame's whole
potential (unguarded top), resp. for its own frame (guarded top, which is a guard point itself). -/
def Inv (g : Graph α) (c r : α → Nat) (budget : Nat) (root : α) : List α → Prop
  | [] => True
  | f :: s =>
    (g.guarded f = true → potR g c r f ≤ gap g c r root ∧ depth c s + c f ≤ budget + gap g c r root) ∧
    (g.guarded f = false → depth c s + potR g c r f ≤ budget + gap g c r root)

theorem reachable_inv (g : Graph α) (c r : α → Nat) (budget : Nat) (root : α)
    (hr : rankOK g r = true) {s : List α} (h : Reachable g c budget root s) :
    Inv g c r budget root s := by
  induction h with
  | root =>
    have hroot : potR g c r root ≤ gap g c r root := potR_le_gap g c r root (by simp [anchors])
    have hc := cost_le_potR g c r root
    constructor
    · intro _; exact ⟨hroot, by simp [depth]; omega⟩
    · intro _; simp [depth]; omega
  | @call f h s _ he hguard ih =>
    -- room above the caller `f`: depth s + potR f ≤ budget + gap
    have hroom : depth c s + potR g c r f ≤ budget + gap g c r root := by
      by_cases hf : g.guarded f = true
      · have := (ih.1 hf).1
        have := hguard hf
        omega
      · have hf' : g.guarded f = false := by simpa using hf
        exact ih.2 hf'
    constructor
    · intro hh
      have hanchor : h ∈ anchors g root := by
        simp only [anchors, List.mem_cons, List.mem_filter, List.mem_map]
        exact Or.inr ⟨⟨(f, h), he, rfl⟩, hh⟩
      have := potR_edge_guarded g c r he hh
      exact ⟨potR_le_gap g c r root hanchor, by simp only [depth]; omega⟩
    · intro hh
      have := potR_edge_free g c r hr he hh
      simp only [depth]; omega

/-- Every reachable stack stays within `budget + G`. -/
theorem reachable_depth_le (g : Graph α) (c r : α → Nat) (budget : Nat) (root : α)
    (hr : rankOK g r = true) {s : List α} (h : Reachable g c budget root s) :
    depth c s ≤ budget + gap g c r root := by
  have hinv := reachable_inv g c r budget root hr h
  cases s with
  | nil => simp [depth]
  | cons f s =>
    simp only [Inv] at hinv
    simp only [depth]
    by_cases hf : g.guarded f = true
    · have := (hinv.1 hf).2; omega
    · have hf' : g.guarded f = false := by simpa using hf
      have := hinv.2 hf'
      have := cost_le_potR g c r f
      omega

theorem reachable_pop (g : Graph α) (c : α → Nat) (budget : Nat) (root : α) {h f : α} {s : List α}
    (hr : Reachable g c budget root (h :: f :: s)) : Reachable g c budget root (f :: s) := by
  cases hr with
  | call h' _ _ => exact h'

theorem exec_reachable (g : Graph α) (c : α → Nat) (budget : Nat) (root : α) {s : List α}
    (h : Exec g c budget root s) : Reachable g c budget root s := by
  induction h with
  | start => exact .root
  | step _ st ih =>
    cases st with
    | push he hg => exact .call ih he hg
    | pop => exact reachable_pop g c budget root ih

/-! ### Pumping along a cycle that avoids every guard -/

theorem depth_append (c : α → Nat) (a b : List α) : depth c (a ++ b) = depth c a + depth c b := by
  induction a with
  | nil => simp [depth]
  | cons x xs ih => simp [depth, ih]; omega

theorem depth_reverse (c : α → Nat) (a : List α) : depth c a.reverse = depth c a := by
  induction a with
  | nil => rfl
  | cons x xs ih => simp [depth_append, depth, ih]; omega

theorem reachable_walk (g : Graph α) (c : α → Nat) (budget : Nat) (root : α) :
    ∀ (l : List α) (f : α) (s : List α), Reachable g c budget root (f :: s) → freeWalk g f l = true →
      Reachable g c budget root (l.reverse ++ f :: s) := by
  intro l
  induction l with
  | nil => intro f s h _; simpa using h
  | cons x xs ih =>
    intro f s h hw
    simp only [freeWalk, Bool.and_eq_true, Bool.not_eq_true', List.contains_iff_mem] at hw
    obtain ⟨⟨hf, he⟩, hrest⟩ := hw
    have hx : Reachable g c budget root (x :: f :: s) := .call h he (by simp [hf])
    have := ih x (f :: s) hx hrest
    simpa using this

/-- If a cycle `f → init₁ → … → f` runs through unguarded callers only, the stack can be pumped: for
every `m` there is a reachable stack holding at least `m` copies of the cycle. -/
theorem pump (g : Graph α) (c : α → Nat) (budget : Nat) (root : α) (f : α) (init : List α)
    (hw : freeWalk g f (init ++ [f]) = true)
    (s0 : List α) (h0 : Reachable g c budget root (f :: s0)) :
    ∀ m : Nat, ∃ s, Reachable g c budget root (f :: s) ∧
      m * depth c (init ++ [f]) ≤ depth c (f :: s) := by
  intro m
  induction m with
  | zero => exact ⟨s0, h0, by simp⟩
  | succ m ih =>
    obtain ⟨s, hs, hd⟩ := ih
    have hr := reachable_walk g c budget root (init ++ [f]) f s hs hw
    have hrev : (init ++ [f]).reverse = f :: init.reverse := by simp
    rw [hrev] at hr
    refine ⟨init.reverse ++ f :: s, by simpa using hr, ?_⟩
    have hdl : depth c (init ++ [f]) = depth c init + c f := by
      rw [depth_append]; simp [depth]
    have hnew : depth c (f :: (init.reverse ++ f :: s)) = c f + depth c init + depth c (f :: s) := by
      simp only [depth, depth_append, depth_reverse]; omega
    rw [hnew, Nat.succ_mul]
    omega

end NaijaVerif.Depth
