import NaijaVerif.Model.Resolve
/-
Lexical binding of variables (static half of C04), stated on the resolver model's OUTPUT: the
annotated program.  `nearestDecl` is defined from the program text alone — the binder groups that
enclose an occurrence, innermost first: for a block the `make` statements that textually precede the
occurrence's statement, for a function its parameter list — and every declaration is identified by
the annotation it carries.  The scope-stack invariant (`CtxRel`): the resolver's variable scopes at
any point are exactly the declarations visible there.
-/
namespace NaijaVerif.Resolve
open NaijaVerif

/-- One enclosing binder group. -/
inductive Binder where
  /-- the statements of an enclosing block that precede the occurrence's statement, most recent first -/
  | stmts (before : List Stmt)
  /-- the parameter list of an enclosing function -/
  | params (ps : List Param)

/-- The most recent `make x` among the preceding statements of the block: its annotation. -/
def declStmts (x : Bytes) : List Stmt → Option (Option Nat)
  | [] => none
  | .assign y _ _ b _ _ :: rest => if y == x then some b else declStmts x rest
  | _ :: rest => declStmts x rest

/-- The parameter named `x` (the last one, should the erroneous list repeat a name). -/
def declParams (x : Bytes) : List Param → Option (Option Nat)
  | [] => none
  | p :: ps =>
      match declParams x ps with
      | some b => some b
      | none => if p.name == x then some p.bind else none

def Binder.decl (x : Bytes) : Binder → Option (Option Nat)
  | .stmts before => declStmts x before
  | .params ps => declParams x ps

/-- The nearest enclosing declaration of `x`: the innermost binder group declaring it. -/
def nearestDecl (x : Bytes) : List Binder → Option (Option Nat)
  | [] => none
  | b :: bs =>
      match b.decl x with
      | some r => some r
      | none => nearestDecl x bs

/-- The local a use of `x` must denote (`none`: no declaration is visible). -/
def nearestId (ctx : List Binder) (x : Bytes) : Option Nat := (nearestDecl x ctx).join

def lexSegs (ctx : List Binder) : List Seg → Bool
  | [] => true
  | .lit _ :: rest => lexSegs ctx rest
  | .var x b :: rest => b == nearestId ctx x && lexSegs ctx rest

/-- A callee that is a plain name is a function name, not a variable occurrence. -/
def isNameExpr : Expr → Bool
  | .var _ _ _ => true
  | _ => false

mutual
  /-- Every variable occurrence in the expression carries the nearest enclosing declaration. -/
  def lexExpr (ctx : List Binder) : Expr → Bool
    | .var x b _ => b == nearestId ctx x
    | .str (.interp segs) _ => lexSegs ctx segs
    | .str (.static _) _ | .num _ _ | .bool _ _ | .null _ => true
    | .array es _ => lexExprs ctx es
    | .index a i _ _ => lexExpr ctx a && lexExpr ctx i
    | .binary _ l r _ => lexExpr ctx l && lexExpr ctx r
    | .unary _ e _ => lexExpr ctx e
    | .member o _ _ _ => lexExpr ctx o
    | .call callee args _ _ => (isNameExpr callee || lexExpr ctx callee) && lexExprs ctx args
  def lexExprs (ctx : List Binder) : List Expr → Bool
    | [] => true
    | e :: es => lexExpr ctx e && lexExprs ctx es
end

/-- A `make` carries an annotation, and a second `make` of a name in the same block denotes the
same local as the first. -/
def sameLocal (before : List Stmt) : Stmt → Bool
  | .assign x _ _ b _ _ =>
      b.isSome && (match declStmts x before with
                   | some b' => b == b'
                   | none => true)
  | _ => true

mutual
  /-- `ctx` includes the binder group of the statement's own block. -/
  def lexStmt (ctx : List Binder) : Stmt → Bool
    | .assign _ _ e _ _ _ => lexExpr ctx e
    | .assignExisting x _ e b _ _ => b == nearestId ctx x && lexExpr ctx e
    | .assignIndex t e _ _ => lexExpr ctx t && lexExpr ctx e
    | .ifS c t e _ _ => lexExpr ctx c && lexBlock ctx t && lexOptBlock ctx e
    | .loop c b _ _ => lexExpr ctx c && lexBlock ctx b
    | .block b _ _ => lexBlock ctx b
    /- the body of a rejected duplicate definition (`fn = none`) is not analysed -/
    | .fnDef _ _ ps body fn _ _ => fn.isNone || lexBlock (.params ps :: ctx) body
    | .ret (some e) _ _ => lexExpr ctx e
    | .ret none _ _ => true
    | .brk _ _ => true
    | .cont _ _ => true
    | .expr e _ _ => lexExpr ctx e
  def lexStmts (ctx : List Binder) (before : List Stmt) : List Stmt → Bool
    | [] => true
    | s :: rest => lexStmt (.stmts before :: ctx) s && sameLocal before s && lexStmts ctx (s :: before) rest
  def lexBlock (ctx : List Binder) : Block → Bool
    | .mk ss _ => lexStmts ctx [] ss
  def lexOptBlock (ctx : List Binder) : Option Block → Bool
    | none => true
    | some b => lexBlock ctx b
end

/-! ### The scope-stack invariant -/

def entId (e : VarEntry) : Option Nat := some e.id

/-- A variable scope holds exactly the declarations of a binder group. -/
def BRel (s : Scope) (b : Binder) : Prop := ∀ x, (findVar s x).map entId = b.decl x

/-- The scope stack holds exactly the visible declarations. -/
def CtxRel (ss : List Scope) (ctx : List Binder) : Prop :=
  ∀ x, (lookupScopes ss x).map entId = nearestDecl x ctx

theorem CtxRel.nil : CtxRel [] [] := fun _ => rfl

theorem CtxRel.cons {s : Scope} {b : Binder} {ss : List Scope} {ctx : List Binder}
    (h1 : BRel s b) (h2 : CtxRel ss ctx) : CtxRel (s :: ss) (b :: ctx) := by
  intro x
  have h1x := h1 x
  simp only [lookupScopes, nearestDecl]
  cases h : findVar s x with
  | some e => simp [h, entId] at h1x; simp [← h1x, entId]
  | none => simp [h] at h1x; simp [← h1x]; exact h2 x

theorem CtxRel.id {ss : List Scope} {ctx : List Binder} (h : CtxRel ss ctx) (x : Bytes) :
    (lookupScopes ss x).map (·.id) = nearestId ctx x := by
  have := h x
  simp only [nearestId, ← this]
  cases lookupScopes ss x <;> simp [entId]

/-! ### Expressions -/

theorem checkSegs_lex (env : Env) (cur : Scope) (sid : Nat) (span : Span) (ctx : List Binder)
    (h : CtxRel (cur :: env.vars) ctx) :
    ∀ (segs : List Seg) (f : Facts), lexSegs ctx (checkSegs env cur sid span segs f).val = true
  | [], f => by simp [checkSegs, lexSegs]
  | .lit _ :: rest, f => by simp only [checkSegs, lexSegs]; exact checkSegs_lex env cur sid span ctx h rest f
  | .var n _ :: rest, f => by
      have hid := h.id n
      simp only [checkSegs]
      cases hl : lookupVar env cur n with
      | some e =>
        simp only [lookupVar] at hl
        simp only [hl, Option.map_some] at hid
        simp only [lexSegs, hid, beq_self_eq_true, Bool.true_and]
        exact checkSegs_lex env cur sid span ctx h rest _
      | none =>
        simp only [lookupVar] at hl
        simp only [hl, Option.map_none] at hid
        simp only [lexSegs, hid, beq_self_eq_true, Bool.true_and]
        exact checkSegs_lex env cur sid span ctx h rest _

mutual
  theorem checkExpr_lex (env : Env) (cur : Scope) (sid : Nat) (ctx : List Binder)
      (h : CtxRel (cur :: env.vars) ctx) :
      ∀ (e : Expr) (f : Facts), lexExpr ctx (checkExpr env cur sid e f).val = true
    | .num _ _, f => by simp [checkExpr, lexExpr]
    | .bool _ _, f => by simp [checkExpr, lexExpr]
    | .null _, f => by simp [checkExpr, lexExpr]
    | .str (.static _) _, f => by simp [checkExpr, lexExpr]
    | .str (.interp segs) s, f => by
        simp only [checkExpr, lexExpr]; exact checkSegs_lex env cur sid s ctx h segs f
    | .array es _, f => by
        simp only [checkExpr, lexExpr]; exact checkExprs_lex env cur sid ctx h es f
    | .index a i _ _, f => by
        simp only [checkExpr, lexExpr, Bool.and_eq_true]
        exact ⟨checkExpr_lex env cur sid ctx h a f, checkExpr_lex env cur sid ctx h i _⟩
    | .var v _ s, f => by
        have hid := h.id v
        simp only [checkExpr]
        cases hl : lookupVar env cur v with
        | some e =>
          simp only [lookupVar] at hl
          simp only [hl, Option.map_some] at hid
          simp [lexExpr, hid]
        | none =>
          simp only [lookupVar] at hl
          simp only [hl, Option.map_none] at hid
          simp [lexExpr, hid]
    | .binary _ l r _, f => by
        simp only [checkExpr, lexExpr, Bool.and_eq_true]
        exact ⟨checkExpr_lex env cur sid ctx h l f, checkExpr_lex env cur sid ctx h r _⟩
    | .unary _ e _, f => by
        simp only [checkExpr, lexExpr]; exact checkExpr_lex env cur sid ctx h e f
    | .member o _ _ _, f => by
        simp only [checkExpr, lexExpr]; exact checkExpr_lex env cur sid ctx h o f
    | .call callee args _ s, f => by
        have hc := checkExpr_lex env cur sid ctx h callee
        cases callee with
        | var fname vb vs =>
          simp only [checkExpr]
          cases GlobalB.ofName fname with
          | some g =>
            simp only [lexExpr, isNameExpr, Bool.true_or, Bool.true_and]
            exact checkExprs_lex env cur sid ctx h args _
          | none =>
            cases lookupFn env fname with
            | some g =>
              simp only [lexExpr, isNameExpr, Bool.true_or, Bool.true_and]
              exact checkExprs_lex env cur sid ctx h args _
            | none =>
              simp only [lexExpr, isNameExpr, Bool.true_or, Bool.true_and]
              exact checkExprs_lex env cur sid ctx h args _
        | member obj field fs ms =>
          simp only [checkExpr, lexExpr, Bool.and_eq_true, Bool.or_eq_true]
          exact ⟨Or.inr (checkExpr_lex env cur sid ctx h obj f), checkExprs_lex env cur sid ctx h args _⟩
        | _ =>
          rw [checkExpr.eq_def]
          simp only [lexExpr, Bool.and_eq_true, Bool.or_eq_true]
          exact ⟨Or.inr (hc f), checkExprs_lex env cur sid ctx h args _⟩
  theorem checkExprs_lex (env : Env) (cur : Scope) (sid : Nat) (ctx : List Binder)
      (h : CtxRel (cur :: env.vars) ctx) :
      ∀ (es : List Expr) (f : Facts), lexExprs ctx (checkExprs env cur sid es f).val = true
    | [], f => by simp [checkExprs, lexExprs]
    | e :: es, f => by
        simp only [checkExprs, lexExprs, Bool.and_eq_true]
        exact ⟨checkExpr_lex env cur sid ctx h e f, checkExprs_lex env cur sid ctx h es _⟩
end

/-! ### Parameters and `make` -/

theorem declareParams_decl (sp : Bool) (owner scope : Nat) : ∀ (ps : List Param) (sc : Scope) (f : Facts) (x : Bytes),
    (findVar (declareParams sp owner scope ps sc f).2.1 x).map entId =
      match declParams x (declareParams sp owner scope ps sc f).1 with
      | some b => some b
      | none => (findVar sc x).map entId
  | [], sc, f, x => by simp [declareParams, declParams]
  | p :: ps, sc, f, x => by
      simp only [declareParams, declParams]
      rw [declareParams_decl sp owner scope ps]
      cases declParams x (declareParams sp owner scope ps _ _).1 with
      | some b => rfl
      | none =>
        simp only [findVar, List.find?_cons]
        cases hx : p.name == x <;> simp [entId]

theorem declareParams_brel (sp : Bool) (owner scope : Nat) (ps : List Param) (f : Facts) :
    BRel (declareParams sp owner scope ps [] f).2.1 (.params (declareParams sp owner scope ps [] f).1) := by
  intro x
  rw [declareParams_decl]
  simp only [Binder.decl]
  cases declParams x (declareParams sp owner scope ps [] f).1 <;> simp [findVar]

theorem findVar_updateTy : ∀ (s : Scope) (x : Bytes) (t : VType) (y : Bytes),
    (findVar (updateTy s x t) y).map entId = (findVar s y).map entId
  | [], _, _, _ => by simp [updateTy]
  | e :: es, x, t, y => by
      simp only [updateTy]
      split
      · simp only [findVar, List.find?_cons]
        cases e.name == y <;> simp [entId]
      · have ih := findVar_updateTy es x t y
        simp only [findVar, List.find?_cons] at ih ⊢
        cases e.name == y
        · simpa using ih
        · simp

/-- How a statement extends the block's binder group: the block scope after the statement holds
exactly the `make`s up to and including it, and a repeated `make` re-uses the local. -/
theorem checkStmt_brel (env : Env) (cur : Cur) (s : Stmt) (f : Facts) (before : List Stmt)
    (h : BRel cur.vars (.stmts before)) :
    BRel (checkStmt env cur s f).cur.vars (.stmts ((checkStmt env cur s f).val :: before)) ∧
    sameLocal before (checkStmt env cur s f).val = true := by
  cases s with
  | assign x xs e b sid sp =>
    have hx := h x
    simp only [Binder.decl] at hx
    simp only [checkStmt]
    cases hf : findVar cur.vars x with
    | some ent =>
      simp only [hf, Option.map_some] at hx
      refine ⟨?_, ?_⟩
      · intro y
        simp only [Binder.decl, declStmts, findVar_updateTy]
        by_cases hxy : x == y
        · have : x = y := by simpa using hxy
          subst this
          simp [hf, entId]
        · simp only [hxy]; exact h y
      · simp [sameLocal, ← hx, entId]
    | none =>
      simp only [hf, Option.map_none] at hx
      refine ⟨?_, ?_⟩
      · intro y
        simp only [Binder.decl, declStmts, findVar, List.find?_cons]
        by_cases hxy : x == y
        · simp [hxy, entId]
        · simp only [hxy]; exact h y
      · simp [sameLocal, ← hx]
  | assignExisting x xs e b sid sp =>
    simp only [checkStmt]
    split <;> exact ⟨fun y => by simpa [Binder.decl, declStmts] using h y, by simp [sameLocal]⟩
  | fnDef name nsp ps body fn sid sp =>
    simp only [checkStmt]
    split <;> exact ⟨fun y => by simpa [Binder.decl, declStmts] using h y, by simp [sameLocal]⟩
  | ret e sid sp =>
    simp only [checkStmt]
    split <;> exact ⟨fun y => by simpa [Binder.decl, declStmts] using h y, by simp [sameLocal]⟩
  | assignIndex _ _ _ _ =>
    simp only [checkStmt]
    exact ⟨fun y => by simpa [Binder.decl, declStmts] using h y, by simp [sameLocal]⟩
  | ifS _ _ _ _ _ =>
    simp only [checkStmt]
    exact ⟨fun y => by simpa [Binder.decl, declStmts] using h y, by simp [sameLocal]⟩
  | loop _ _ _ _ =>
    simp only [checkStmt]
    exact ⟨fun y => by simpa [Binder.decl, declStmts] using h y, by simp [sameLocal]⟩
  | block _ _ _ =>
    simp only [checkStmt]
    exact ⟨fun y => by simpa [Binder.decl, declStmts] using h y, by simp [sameLocal]⟩
  | brk _ _ =>
    simp only [checkStmt]
    exact ⟨fun y => by simpa [Binder.decl, declStmts] using h y, by simp [sameLocal]⟩
  | cont _ _ =>
    simp only [checkStmt]
    exact ⟨fun y => by simpa [Binder.decl, declStmts] using h y, by simp [sameLocal]⟩
  | expr _ _ _ =>
    simp only [checkStmt]
    exact ⟨fun y => by simpa [Binder.decl, declStmts] using h y, by simp [sameLocal]⟩

/-! ### Statements and blocks -/

mutual
  theorem checkStmt_lex (env : Env) (cur : Cur) (ctx : List Binder)
      (h : CtxRel (cur.vars :: env.vars) ctx) :
      ∀ (s : Stmt) (f : Facts), lexStmt ctx (checkStmt env cur s f).val = true
    | .assign x xs e _ _ sp, f => by
        simp only [checkStmt]
        split <;> simp only [lexStmt] <;> exact checkExpr_lex env cur.vars _ ctx h e _
    | .assignExisting x xs e _ _ sp, f => by
        have hid := h.id x
        simp only [checkStmt]
        cases hl : lookupVar env cur.vars x with
        | some ent =>
          simp only [lookupVar] at hl
          simp only [hl, Option.map_some] at hid
          simp only [lexStmt, hid, beq_self_eq_true, Bool.true_and]
          exact checkExpr_lex env cur.vars _ ctx h e _
        | none =>
          simp only [lookupVar] at hl
          simp only [hl, Option.map_none] at hid
          simp only [lexStmt, hid, beq_self_eq_true, Bool.true_and]
          exact checkExpr_lex env cur.vars _ ctx h e _
    | .assignIndex t e _ sp, f => by
        simp only [checkStmt, lexStmt, Bool.and_eq_true]
        exact ⟨checkExpr_lex env cur.vars _ ctx h t _, checkExpr_lex env cur.vars _ ctx h e _⟩
    | .ifS c t e _ sp, f => by
        simp only [checkStmt, lexStmt, Bool.and_eq_true]
        exact ⟨⟨checkExpr_lex env cur.vars _ ctx h c _, checkBlock_lex _ _ ctx h t _⟩,
          checkOptBlock_lex _ _ ctx h e _⟩
    | .loop c b _ sp, f => by
        simp only [checkStmt, lexStmt, Bool.and_eq_true]
        exact ⟨checkExpr_lex env cur.vars _ ctx h c _, checkBlock_lex _ _ ctx h b _⟩
    | .block b _ sp, f => by
        simp only [checkStmt, lexStmt]
        exact checkBlock_lex _ _ ctx h b _
    | .fnDef name nsp ps body _ _ sp, f => by
        simp only [checkStmt]
        split
        · simp [lexStmt]
        · simp only [lexStmt, Option.isNone_some, Bool.false_or]
          exact checkBlock_lex _ _ _ (CtxRel.cons (declareParams_brel _ _ _ _ _) h) body _
    | .ret e _ sp, f => by
        simp only [checkStmt]
        cases e with
        | some e => simp only [lexStmt]; exact checkExpr_lex env cur.vars _ ctx h e _
        | none => simp [lexStmt]
    | .brk _ sp, f => by simp [checkStmt, lexStmt]
    | .cont _ sp, f => by simp [checkStmt, lexStmt]
    | .expr e _ sp, f => by
        simp only [checkStmt, lexStmt]
        exact checkExpr_lex env cur.vars _ ctx h e _
  theorem checkStmts_lex (env : Env) (ctx : List Binder) (hctx : CtxRel env.vars ctx) :
      ∀ (ss : List Stmt) (cur : Cur) (f : Facts) (before : List Stmt), BRel cur.vars (.stmts before) →
        lexStmts ctx before (checkStmts env cur ss f).val = true
    | [], cur, f, before, _ => by simp [checkStmts, lexStmts]
    | s :: ss, cur, f, before, hb => by
        have hs := checkStmt_brel env cur s f before hb
        simp only [checkStmts, lexStmts, Bool.and_eq_true]
        exact ⟨⟨checkStmt_lex env cur _ (CtxRel.cons hb hctx) s f, hs.2⟩,
          checkStmts_lex env ctx hctx ss _ _ _ hs.1⟩
  theorem checkBlock_lex (env : Env) (parent : Option Nat) (ctx : List Binder) (h : CtxRel env.vars ctx) :
      ∀ (b : Block) (f : Facts), lexBlock ctx (checkBlock env parent b f).val = true
    | .mk ss sp, f => by
        simp only [checkBlock, lexBlock]
        refine checkStmts_lex _ ctx ?_ ss _ _ [] ?_
        · exact h
        · intro x; simp [findVar, Binder.decl, declStmts]
  theorem checkOptBlock_lex (env : Env) (parent : Option Nat) (ctx : List Binder) (h : CtxRel env.vars ctx) :
      ∀ (b : Option Block) (f : Facts), lexOptBlock ctx (checkOptBlock env parent b f).val = true
    | none, f => by simp [checkOptBlock, lexOptBlock]
    | some b, f => by
        simp only [checkOptBlock, lexOptBlock]
        exact checkBlock_lex env parent ctx h b f
end

/-- **Lexical binding**: in the resolver's output every variable occurrence — expression,
assignment target, `{name}` placeholder — carries the nearest enclosing declaration, and a second
`make` of a name in a block re-uses the first one's local. -/
theorem resolve_lexical (spanLen : Bool) (p : Block) : lexBlock [] (resolveWith spanLen p).root = true :=
  checkBlock_lex _ _ [] CtxRel.nil p _

end NaijaVerif.Resolve
