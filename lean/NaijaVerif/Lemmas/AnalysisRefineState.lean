import NaijaVerif.Lemmas.AnalysisRefineOk
import NaijaVerif.Lemmas.AnalysisLive
/-
BRIDGE, part 4: the relation between a state of `Model/Eval.lean` (scopes with slots, hoisted
functions and `decls` merged, output oldest first) and a state of `Model/AnalysisEval.lean` (tagged
variable scopes, a parallel stack of function scopes, output newest first), and how the
environment operations of the two models correspond under it.
-/
namespace NaijaVerif.C03
open NaijaVerif NaijaVerif.Analysis

variable {N : Type}

abbrev VE (N : Type) := Eval.Value N

/-- Value of local `l` in a scope of `Eval` (most recently pushed slot first). -/
def slotValE (sc : Eval.Scope N) (l : Nat) : Option (VE N) :=
  (sc.slots.find? (fun sl => sl.id == some l)).map (·.val)

/-- Both defined and related, or both undefined. -/
def ORel2 {α β : Type} (r : α → β → Prop) : Option α → Option β → Prop
  | some a, some b => r a b
  | none, none => True
  | _, _ => False

structure FnRel (o : Orc) (fe : Eval.FnEntry) (fa : AEval.FnDef) : Prop where
  id : fe.id = some fa.id
  params : fe.params = fa.params
  body : fe.body.stmts = fa.body
  okp : o.par fa.params = true
  okb : okBlock o fe.body = true

/-- One scope of `Eval` against a variable scope and a function scope of the fragment. -/
structure ScopeSim (o : Orc) (ds : Nat → Option Nat) (drop : Nat → Bool) (se : Eval.Scope N) (ta : AEval.Scope (VE N))
    (fa : List AEval.FnDef) : Prop where
  slots : ∀ l, slotValE se l = AEval.findSlot l ta.slots
  tag : TagOk ds ta.tag se.decls
  fns : ∀ g, ORel2 (FnRel o) (se.fns.find? (fun fd => fd.id == some g))
    (if drop g then none else fa.find? (fun f => f.id == g))

def EnvSim (o : Orc) (ds : Nat → Option Nat) (drop : Nat → Bool) :
    List (Eval.Scope N) → List (AEval.Scope (VE N)) → List (List AEval.FnDef) → Prop
  | [], [], [] => True
  | se :: es, ta :: ts, fa :: fs => ScopeSim o ds drop se ta fa ∧ EnvSim o ds drop es ts fs
  | _, _, _ => False

structure StSim (o : Orc) (ds : Nat → Option Nat) (drop : Nat → Bool) (s : Eval.State N) (t : AEval.St (VE N)) : Prop where
  env : EnvSim o ds drop s.env t.env t.fns
  out : s.out = t.out.reverse
  input : s.input = []

section lemmas
variable {o : Orc} {ds : Nat → Option Nat} {drop : Nat → Bool}

/-! ### Slots -/

theorem find_findIdx {α : Type} (p : α → Bool) : ∀ (l : List α),
    (l.findIdx? p).bind (fun j => l[j]?) = l.find? p
  | [] => rfl
  | x :: xs => by
      simp only [List.findIdx?_cons, List.find?_cons]
      cases hp : p x with
      | true => simp
      | false =>
        simp only [Bool.false_eq_true, ↓reduceIte]
        have ih := find_findIdx p xs
        cases h : xs.findIdx? p with
        | none => simp [h] at ih ⊢; exact ih
        | some j => simp [h] at ih ⊢; exact ih

/-- Reading the slot `findOwned` finds. -/
theorem getAt_owned_head (se : Eval.Scope N) (rest : List (Eval.Scope N)) (l : Nat) :
    ((se.slots.findIdx? (fun sl => sl.id == some l)).map (fun j => ((0 : Nat), j))).bind (Eval.getAt (se :: rest)) =
      slotValE se l := by
  simp only [slotValE, ← find_findIdx]
  cases se.slots.findIdx? (fun sl => sl.id == some l) with
  | none => rfl
  | some j => simp [Eval.getAt]

theorem getAt_succ (se : Eval.Scope N) (rest : List (Eval.Scope N)) (q : Nat × Nat) :
    Eval.getAt (se :: rest) (q.1 + 1, q.2) = Eval.getAt rest q := by
  simp [Eval.getAt]

/-- `lookup_local_env` in both models. -/
theorem lookup_sim : ∀ {es : List (Eval.Scope N)} {ts : List (AEval.Scope (VE N))} {fs : List (List AEval.FnDef)} (l : Nat),
    EnvSim o ds drop es ts fs → (Eval.findOwned l es).bind (Eval.getAt es) = AEval.lookupEnv ds l ts
  | [], [], [], l, _ => by simp [Eval.findOwned, AEval.lookupEnv, AEval.findScope]; cases ds l <;> rfl
  | [], [], _ :: _, _, h | [], _ :: _, _, _, h | _ :: _, [], _, _, h | _ :: _, _ :: _, [], _, h => by cases h
  | se :: es, ta :: ts, fa :: fs, l, h => by
      obtain ⟨hs, hrest⟩ := h
      have ih := lookup_sim l hrest
      simp only [Eval.findOwned]
      cases hc : se.decls.contains l with
      | true =>
        obtain ⟨tg, htg, htag⟩ := (hs.tag l).mp hc
        simp only [↓reduceIte, getAt_owned_head, AEval.lookupEnv, htg, AEval.findScope, htag, beq_self_eq_true]
        exact hs.slots l
      | false =>
        simp only [Bool.false_eq_true, ↓reduceIte]
        have hne : ¬ ∃ tg, ds l = some tg ∧ ta.tag = some tg := fun hh => by
          rw [(hs.tag l).mpr hh] at hc; cases hc
        have e1 : ((Eval.findOwned l es).map (fun q => (q.1 + 1, q.2))).bind (Eval.getAt (se :: es)) =
            (Eval.findOwned l es).bind (Eval.getAt es) := by
          cases Eval.findOwned l es with
          | none => rfl
          | some q => simp [getAt_succ]
        rw [e1, ih]
        simp only [AEval.lookupEnv]
        cases hd : ds l with
        | none => rfl
        | some tg =>
          have : (ta.tag == some tg) = false := by
            cases hb : ta.tag == some tg with
            | false => rfl
            | true => exact absurd ⟨tg, hd, by simpa using hb⟩ hne
          simp only [AEval.findScope, this, Bool.false_eq_true, ↓reduceIte]

theorem owned_none_of_ds {l : Nat} (hd : ds l = none) : ∀ {es : List (Eval.Scope N)} {ts : List (AEval.Scope (VE N))}
    {fs : List (List AEval.FnDef)}, EnvSim o ds drop es ts fs → Eval.findOwned l es = none
  | [], [], [], _ => rfl
  | [], [], _ :: _, h | [], _ :: _, _, h | _ :: _, [], _, h | _ :: _, _ :: _, [], h => by cases h
  | se :: es, ta :: ts, fa :: fs, h => by
      obtain ⟨hs, hrest⟩ := h
      simp only [Eval.findOwned]
      cases hc : se.decls.contains l with
      | true =>
        obtain ⟨tg, htg, _⟩ := (hs.tag l).mp hc
        rw [hd] at htg; cases htg
      | false => simp [owned_none_of_ds hd hrest]

/-! ### Stores -/

/-- Overwriting the value of the first slot of local `l`. -/
theorem find_modify {l : Nat} {w : VE N} : ∀ (slots : List (Eval.Slot N)) (j : Nat),
    slots.findIdx? (fun sl => sl.id == some l) = some j → ∀ l',
    ((slots.modify j (fun sl => { sl with val := w })).find? (fun sl => sl.id == some l')).map (·.val) =
      if l' = l then some w else (slots.find? (fun sl => sl.id == some l')).map (·.val)
  | [], _, h, _ => by simp at h
  | x :: xs, j, h, l' => by
      simp only [List.findIdx?_cons] at h
      cases hx : x.id == some l with
      | true =>
        simp only [hx, ↓reduceIte, Option.some.injEq] at h
        subst h
        have hxl : x.id = some l := by simpa using hx
        simp only [List.modify_zero_cons, List.find?_cons]
        by_cases hl : l' = l
        · subst hl; simp [hxl]
        · have : (x.id == some l') = false := by rw [hxl]; simpa using fun e => hl e.symm
          simp [this, hl]
      | false =>
        simp only [hx, Bool.false_eq_true, ↓reduceIte] at h
        cases hj : xs.findIdx? (fun sl => sl.id == some l) with
        | none => simp [hj] at h
        | some j' =>
          simp only [hj, Option.map_some, Option.some.injEq] at h
          subst h
          have ih := find_modify (w := w) xs j' hj l'
          simp only [List.modify_succ_cons, List.find?_cons]
          by_cases hl : l' = l
          · subst hl
            simp only [hx, Bool.false_eq_true, ↓reduceIte] at ih ⊢
            exact ih
          · cases hx' : x.id == some l' with
            | true => simp [hl]
            | false =>
              simp only [Bool.false_eq_true, ↓reduceIte, hl] at ih ⊢
              exact ih

theorem findSlot_isNone_iff {sc : Eval.Scope N} {ta : AEval.Scope (VE N)} {fa : List AEval.FnDef}
    (hs : ScopeSim o ds drop sc ta fa) (l : Nat) :
    (sc.slots.findIdx? (fun sl => sl.id == some l)).isSome = (AEval.findSlot l ta.slots).isSome := by
  rw [← hs.slots l, slotValE, ← find_findIdx]
  cases h : sc.slots.findIdx? (fun sl => sl.id == some l) with
  | none => rfl
  | some j =>
    have := List.findIdx?_eq_some_iff_getElem.mp h
    obtain ⟨hj, _⟩ := this
    simp [hj]

/-- The store of `Eval`: at the slot `findOwned` finds. -/
def assignE (l : Nat) (w : VE N) (es : List (Eval.Scope N)) : Option (List (Eval.Scope N)) :=
  (Eval.findOwned l es).map (fun pos => Eval.updateAt es pos (fun _ => w))

theorem updateAt_zero (se : Eval.Scope N) (rest : List (Eval.Scope N)) (j : Nat) (f : VE N → VE N) :
    Eval.updateAt (se :: rest) (0, j) f =
      { se with slots := se.slots.modify j (fun sl => { sl with val := f sl.val }) } :: rest := by
  simp [Eval.updateAt]

theorem updateAt_succ (se : Eval.Scope N) (rest : List (Eval.Scope N)) (q : Nat × Nat) (f : VE N → VE N) :
    Eval.updateAt (se :: rest) (q.1 + 1, q.2) f = se :: Eval.updateAt rest q f := by
  simp [Eval.updateAt]

theorem assign_sim (l : Nat) (w : VE N) : ∀ {es : List (Eval.Scope N)} {ts : List (AEval.Scope (VE N))}
    {fs : List (List AEval.FnDef)}, EnvSim o ds drop es ts fs →
    ORel2 (fun es' ts' => EnvSim o ds drop es' ts' fs) (assignE l w es) (AEval.assignEnv ds l w ts)
  | [], [], [], _ => by
      simp only [assignE, Eval.findOwned, AEval.assignEnv, Option.map_none]
      cases ds l <;> simp [ORel2, AEval.setIn]
  | [], [], _ :: _, h | [], _ :: _, _, h | _ :: _, [], _, h | _ :: _, _ :: _, [], h => by cases h
  | se :: es, ta :: ts, fa :: fs, h => by
      obtain ⟨hs, hrest⟩ := h
      have ih := assign_sim l w hrest
      simp only [assignE, Eval.findOwned]
      cases hc : se.decls.contains l with
      | true =>
        obtain ⟨tg, htg, htag⟩ := (hs.tag l).mp hc
        simp only [↓reduceIte, AEval.assignEnv, htg, AEval.setIn, htag, beq_self_eq_true, Option.map_map]
        have hsome := findSlot_isNone_iff hs l
        rw [← setSlot_isSome (v := w)] at hsome
        cases hj : se.slots.findIdx? (fun sl => sl.id == some l) with
        | none =>
          cases hset : AEval.setSlot l w ta.slots with
          | none => simp [ORel2]
          | some s' => simp [hj, hset] at hsome
        | some j =>
          cases hset : AEval.setSlot l w ta.slots with
          | none => simp [hj, hset] at hsome
          | some s' =>
            simp only [Option.map_some, ORel2, Function.comp, updateAt_zero]
            refine ⟨⟨?_, fun l' => by rw [← htag]; exact hs.tag l', hs.fns⟩, hrest⟩
            intro l'
            simp only [slotValE]
            rw [find_modify se.slots j hj l']
            by_cases hl : l' = l
            · subst hl
              simp only [↓reduceIte]
              exact (findSlot_setSlot_eq _ _ hset).symm
            · simp only [hl, ↓reduceIte]
              rw [findSlot_setSlot_ne hl _ _ hset]
              exact hs.slots l'
      | false =>
        simp only [Bool.false_eq_true, ↓reduceIte, Option.map_map]
        cases hd : ds l with
        | none =>
          simp only [AEval.assignEnv, hd, owned_none_of_ds hd hrest, Option.map_none, ORel2]
        | some tg =>
          have hne : (ta.tag == some tg) = false := by
            cases hb : ta.tag == some tg with
            | false => rfl
            | true =>
              have := (hs.tag l).mpr ⟨tg, hd, by simpa using hb⟩
              rw [this] at hc; cases hc
          simp only [assignE, AEval.assignEnv, hd] at ih
          simp only [AEval.assignEnv, hd, AEval.setIn, hne, Bool.false_eq_true, ↓reduceIte]
          cases ho : Eval.findOwned l es with
          | none =>
            simp only [ho, Option.map_none] at ih ⊢
            cases hsi : AEval.setIn tg l w ts with
            | none => simp [ORel2]
            | some t' => simp [hsi, ORel2] at ih
          | some q =>
            simp only [ho, Option.map_some] at ih ⊢
            cases hsi : AEval.setIn tg l w ts with
            | none => simp [hsi, ORel2] at ih
            | some t' =>
              simp only [hsi, ORel2] at ih
              simp only [Option.map_some, ORel2, Function.comp, updateAt_succ]
              exact ⟨hs, ih⟩

/-- `updateAt` only looks at the value it replaces. -/
theorem updateAt_congr (f : VE N → VE N) {root : VE N} : ∀ (es : List (Eval.Scope N)) (pos : Nat × Nat),
    Eval.getAt es pos = some root → Eval.updateAt es pos f = Eval.updateAt es pos (fun _ => f root)
  | [], pos, h => by simp [Eval.getAt] at h
  | se :: es, (0, j), h => by
      simp only [Eval.getAt, List.getElem?_cons_zero] at h
      simp only [updateAt_zero]
      congr 2
      have key : ∀ (sl : List (Eval.Slot N)) (j : Nat), (sl[j]?).map (·.val) = some root →
          sl.modify j (fun s => { s with val := f s.val }) = sl.modify j (fun s => { s with val := f root }) := by
        intro sl
        induction sl with
        | nil => intro j _; simp
        | cons x xs ih =>
          intro j hj
          cases j with
          | zero =>
            simp only [List.getElem?_cons_zero, Option.map_some, Option.some.injEq] at hj
            simp [List.modify_zero_cons, hj]
          | succ j =>
            simp only [List.getElem?_cons_succ] at hj
            simp [List.modify_succ_cons, ih j hj]
      exact key se.slots j h
  | se :: es, (i + 1, j), h => by
      have h' : Eval.getAt es (i, j) = some root := by simpa [Eval.getAt] using h
      have e1 := updateAt_succ se es (i, j) f
      have e2 := updateAt_succ se es (i, j) (fun _ => f root)
      simp only at e1 e2
      rw [e1, e2, updateAt_congr f es (i, j) h']

/-- `define_bound_local` (overwrite or push in the innermost scope) against the fragment's push. -/
theorem define_scope_sim (l : Nat) (name : Bytes) (v : VE N) {se : Eval.Scope N} {ta : AEval.Scope (VE N)}
    {fa : List AEval.FnDef} (hs : ScopeSim o ds drop se ta fa) :
    ScopeSim o ds drop
      (match se.slots.findIdx? (Eval.Slot.matches (some l) name) with
       | some j => { se with slots := se.slots.modify j (fun sl => { sl with val := v }) }
       | none => { se with slots := { id := some l, name := name, val := v } :: se.slots })
      { ta with slots := ⟨l, v⟩ :: ta.slots } fa := by
  have hslots : ∀ (newSlots : List (Eval.Slot N)),
      (∀ l', (newSlots.find? (fun sl => sl.id == some l')).map (·.val) =
        if l' = l then some v else (se.slots.find? (fun sl => sl.id == some l')).map (·.val)) →
      ScopeSim o ds drop { se with slots := newSlots } { ta with slots := ⟨l, v⟩ :: ta.slots } fa := by
    intro ns hns
    refine ⟨?_, hs.tag, hs.fns⟩
    intro l'
    simp only [slotValE, hns l', AEval.findSlot]
    by_cases hl : l' = l
    · subst hl; simp
    · have : (l == l') = false := by simpa using fun e => hl e.symm
      simp only [hl, ↓reduceIte, this, Bool.false_eq_true]
      exact hs.slots l'
  have hm : Eval.Slot.matches (N := N) (some l) name = fun sl => sl.id == some l := by
    funext sl; simp [Eval.Slot.matches]
  rw [hm]
  cases hj : se.slots.findIdx? (fun sl => sl.id == some l) with
  | some j => exact hslots _ (fun l' => find_modify se.slots j hj l')
  | none =>
    refine hslots _ ?_
    intro l'
    simp only [List.find?_cons]
    by_cases hl : l' = l
    · subst hl; simp
    · have : (some l == some l') = false := by simpa using fun e => hl e.symm
      simp [this, hl]

theorem define_sim (l : Nat) (name : Bytes) (v : VE N) {s : Eval.State N} {t : AEval.St (VE N)}
    (h : StSim o ds drop s t) :
    StSim o ds drop (Eval.define s (some l) name v) { t with env := AEval.defineEnv l v t.env } := by
  obtain ⟨henv, hout, hin⟩ := h
  cases hse : s.env with
  | nil =>
    rw [hse] at henv
    cases hte : t.env with
    | nil =>
      cases htf : t.fns with
      | nil => exact ⟨by simp [Eval.define, hse, AEval.defineEnv, htf, EnvSim], by simpa [Eval.define, hse] using hout,
          by simpa [Eval.define, hse] using hin⟩
      | cons _ _ => rw [hte, htf] at henv; cases henv
    | cons _ _ => rw [hte] at henv; cases henv
  | cons se es =>
    rw [hse] at henv
    cases hte : t.env with
    | nil => rw [hte] at henv; cases henv
    | cons ta ts =>
      cases htf : t.fns with
      | nil => rw [hte, htf] at henv; cases henv
      | cons fa fs =>
        rw [hte, htf] at henv
        obtain ⟨hs, hrest⟩ := henv
        have hsc := define_scope_sim l name v hs
        simp only [Eval.define, hse, AEval.defineEnv]
        cases hj : se.slots.findIdx? (Eval.Slot.matches (some l) name) with
        | some j =>
          rw [hj] at hsc
          exact ⟨by simpa only [htf, EnvSim] using And.intro hsc hrest, hout, hin⟩
        | none =>
          rw [hj] at hsc
          exact ⟨by simpa only [htf, EnvSim] using And.intro hsc hrest, hout, hin⟩

/-! ### Functions -/

theorem findFn_sim (g : Nat) : ∀ {es : List (Eval.Scope N)} {ts : List (AEval.Scope (VE N))}
    {fs : List (List AEval.FnDef)}, EnvSim o ds drop es ts fs →
    ORel2 (FnRel o) (Eval.findFn (fun _ => true) (fun fd => fd.id == some g) es)
      (if drop g then none else AEval.findFn g fs)
  | [], [], [], _ => by simp [Eval.findFn, AEval.findFn, ORel2]
  | [], [], _ :: _, h | [], _ :: _, _, h | _ :: _, [], _, h | _ :: _, _ :: _, [], h => by cases h
  | se :: es, ta :: ts, fa :: fs, h => by
      obtain ⟨hs, hrest⟩ := h
      have ih := findFn_sim g hrest
      have hf := hs.fns g
      simp only [Eval.findFn, ↓reduceIte, AEval.findFn]
      cases hd : drop g with
      | true =>
        simp only [hd, ↓reduceIte] at hf ih ⊢
        cases he : se.fns.find? (fun fd => fd.id == some g) with
        | some fe => simp [he, ORel2] at hf
        | none => simpa using ih
      | false =>
        simp only [hd, Bool.false_eq_true, ↓reduceIte] at hf ih ⊢
        cases he : se.fns.find? (fun fd => fd.id == some g) with
        | some fe =>
          cases ha : fa.find? (fun f => f.id == g) with
          | none => simp [he, ha, ORel2] at hf
          | some f => simpa [he, ha, ORel2] using hf
        | none =>
          cases ha : fa.find? (fun f => f.id == g) with
          | some f => simp [he, ha, ORel2] at hf
          | none => simpa using ih

end lemmas

end NaijaVerif.C03
