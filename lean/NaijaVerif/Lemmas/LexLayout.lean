import NaijaVerif.Lemmas.LexInv
/-
C10, lexer part: separators, lexemes, valid layouts, and the lemmas of the round trip
`lex (render layout) = tokens` (structure of design-spikes/LexLayout.lean, for the full lexer).
-/
set_option linter.unusedSimpArgs false
namespace NaijaVerif.Lex
open NaijaVerif

/-! ## separators -/

/-- Separator texts: whitespace bytes (space, TAB, LF, FF, CR) and `#` comments that run up to and
including the first LF or CR (so CRLF ends a comment at the CR; the LF is then whitespace). -/
inductive Sep : Bytes → Prop
  | nil : Sep []
  | ws (b : Nat) (r : Bytes) : isWs b = true → Sep r → Sep (b :: r)
  | comment (body : Bytes) (t : Nat) (r : Bytes) :
      (∀ c ∈ body, notNl c = true) → notNl t = false → Sep r → Sep (35 :: body ++ t :: r)

/-- What may follow the last separator: nothing, or a comment that the end of the text cuts short. -/
def Trail (tr : Bytes) : Prop := tr = [] ∨ ∃ body, tr = 35 :: body ∧ ∀ c ∈ body, notNl c = true

/-- non-empty whitespace: what may stand between the words of a multi-word keyword (no comments:
`try_consume_word` skips whitespace only) -/
def WsGap (w : Bytes) : Prop := w ≠ [] ∧ ∀ c ∈ w, isWs c = true

/-! ## lexemes: the texts the lexer turns into one token without a diagnostic -/

/-- identifier / keyword shape: a letter or `_`, then letters, digits, `_` -/
def isWord : Bytes → Bool
  | [] => false
  | b :: r => isAlpha b && r.all isWordCh

/-- `StrBody q body content esc`: between two quotes `q`, `body` scans to `content`; chunks of plain
bytes (no quote `q`, backslash, LF, CR — any other byte, raw TAB and the other quote included)
separated by valid escapes; `esc` iff there is at least one escape (`ArenaCow::Owned`). -/
inductive StrBody (q : Nat) : Bytes → Bytes → Bool → Prop
  | plain (chunk : Bytes) : (∀ b ∈ chunk, notQuoteEsc q b = true ∧ notNl b = true) → StrBody q chunk chunk false
  | esc (chunk : Bytes) (x y : Nat) (body content : Bytes) (e : Bool) :
      (∀ b ∈ chunk, notQuoteEsc q b = true ∧ notNl b = true) → escapeOf q x = some y →
      StrBody q body content e → StrBody q (chunk ++ 92 :: x :: body) (chunk ++ y :: content) true

/-- `Lexeme t text`: `text` is a spelling of token `t`. Multi-word keywords have one spelling per
choice of whitespace between their words, strings one per quoting/escaping of their content. -/
inductive Lexeme : Tok → Bytes → Prop
  | punct (b : Nat) (t : Tok) : punct b = some t → Lexeme t [b]
  | kw (w : Bytes) (t : Tok) : kwTable.lookup w = some t → Lexeme t w
  | ident (w : Bytes) : isWord w = true → kwTable.lookup w = none → Lexeme (.ident w) w
  | numInt (d : Bytes) : d ≠ [] → (∀ c ∈ d, isDigit c = true) → Lexeme (.num d) d
  | numFrac (d e : Bytes) : d ≠ [] → e ≠ [] → (∀ c ∈ d, isDigit c = true) → (∀ c ∈ e, isDigit c = true) →
      Lexeme (.num (d ++ 46 :: e)) (d ++ 46 :: e)
  | str (q : Nat) (body content : Bytes) (esc : Bool) : q ∈ quoteChars → StrBody q body content esc →
      Lexeme (.str content esc) (q :: body ++ [q])
  | ifToSay (w1 w2 : Bytes) : WsGap w1 → WsGap w2 → Lexeme .ifToSay (b!"if" ++ w1 ++ b!"to" ++ w2 ++ b!"say")
  | ifNotSo (w1 w2 : Bytes) : WsGap w1 → WsGap w2 → Lexeme .ifNotSo (b!"if" ++ w1 ++ b!"not" ++ w2 ++ b!"so")
  | smallPass (w1 : Bytes) : WsGap w1 → Lexeme .smallPass (b!"small" ++ w1 ++ b!"pass")

/-- the first byte of `rest`, if any, fails `p` -/
def FirstNot (p : Nat → Bool) (rest : Bytes) : Prop := ∀ b r, rest = b :: r → p b = false

/-- `FollowOK t rest`: what must come directly after a spelling of `t` so that it neither merges
with what follows nor changes class. Word-like tokens: no letter/digit/`_`; the identifiers `if` and
`small` moreover must not be completed to a multi-word keyword by the look-ahead (stated with the
model's own `tryAlts`); numbers: no digit, no letter/`_`, and no `.` unless the number already has
one; multi-word keywords: no letter/`_` (a digit is fine: `if to say2` is `if to say`, `2`);
strings and punctuation: anything. -/
def FollowOK : Tok → Bytes → Prop
  | .ident w, rest => FirstNot isWordCh rest ∧
      ∀ alts, multiWord.lookup w = some alts → ∀ p, tryAlts alts ⟨p, rest⟩ = none
  | .num lx, rest => FirstNot isDigit rest ∧ FirstNot isAlpha rest ∧ (46 ∈ lx ∨ FirstNot (· == 46) rest)
  | .str _ _, _ => True
  | .lparen, _ | .rparen, _ | .lbracket, _ | .rbracket, _ | .comma, _ | .dot, _ => True
  | .ifToSay, rest | .ifNotSo, rest | .smallPass, rest => FirstNot isAlpha rest
  | .eof, _ => False
  | _, rest => FirstNot isWordCh rest

/-- a layout: every token with its spelling and the separator after it -/
abbrev Layout := List ((Tok × Bytes) × Bytes)

/-- the text of a layout, followed by `tr` -/
def render (tr : Bytes) : Layout → Bytes
  | [] => tr
  | ((_, text), sep) :: r => text ++ sep ++ render tr r

/-- `Valid tr l`: spellings are lexemes, separators are separators, and every token is followed by
something it does not merge with (so a non-empty separator where two adjacent spellings would merge:
word–word, word–number, number–word, number–`.`, …). -/
def Valid (tr : Bytes) : Layout → Prop
  | [] => True
  | ((t, text), sep) :: r => Lexeme t text ∧ Sep sep ∧ FollowOK t (sep ++ render tr r) ∧ Valid tr r

def Layout.toks (l : Layout) : List Tok := l.map (·.1.1)

/-! ## generic list facts -/

theorem takeWhile_append_stop {p : Nat → Bool} : ∀ (a X : Bytes), (∀ c ∈ a, p c = true) → FirstNot p X →
    (a ++ X).takeWhile p = a ∧ (a ++ X).dropWhile p = X := by
  intro a
  induction a with
  | nil =>
    intro X _ hX
    cases X with
    | nil => simp
    | cons b r => simp [List.takeWhile_cons, List.dropWhile_cons, hX b r rfl]
  | cons x a ih =>
    intro X ha hX
    have hx : p x = true := ha x (by simp)
    have := ih X (fun c hc => ha c (by simp [hc])) hX
    simp [List.takeWhile_cons, List.dropWhile_cons, hx, this.1, this.2]

theorem skipWhile_append {p : Nat → Bool} (pos : Nat) (a X : Bytes) (ha : ∀ c ∈ a, p c = true) (hX : FirstNot p X) :
    Cur.skipWhile p ⟨pos, a ++ X⟩ = ⟨pos + a.length, X⟩ := by
  have := takeWhile_append_stop a X ha hX
  simp [Cur.skipWhile, this.1, this.2]

theorem skipWs_stop (pos : Nat) (X : Bytes) (hX : FirstNot isWs X) : skipWs ⟨pos, X⟩ = ⟨pos, X⟩ := by
  have := skipWhile_append (p := isWs) pos [] X (by simp) hX
  simpa [skipWs] using this

theorem skipWs_cons (pos b : Nat) (X : Bytes) (hb : isWs b = true) : skipWs ⟨pos, b :: X⟩ = skipWs ⟨pos + 1, X⟩ := by
  simp [skipWs, Cur.skipWhile, List.takeWhile_cons, List.dropWhile_cons, hb]; omega

theorem step_ws (pos b : Nat) (X : Bytes) (hb : isWs b = true) : step ⟨pos, b :: X⟩ = step ⟨pos + 1, X⟩ := by
  simp only [step, skipWs_cons pos b X hb]

theorem lexGo_ws (f pos b : Nat) (X : Bytes) (hb : isWs b = true) :
    lexGo f ⟨pos, b :: X⟩ = lexGo f ⟨pos + 1, X⟩ := by
  cases f with
  | zero => rfl
  | succ f => simp only [lexGo, step_ws pos b X hb]

theorem lexGo_skip {f : Nat} {c c' : Cur} (h : step c = .skip c' []) : lexGo (f + 1) c = lexGo f c' := by
  simp [lexGo, h]

theorem lexGo_tok {f : Nat} {c c' : Cur} {t : SpTok} (h : step c = .tok t c' []) :
    lexGo (f + 1) c = (t :: (lexGo f c').1, (lexGo f c').2.1, (lexGo f c').2.2) := by
  simp [lexGo, h]

theorem firstNot_cons {p : Nat → Bool} {b : Nat} {r : Bytes} (h : p b = false) : FirstNot p (b :: r) := by
  intro b' r' he; cases he; exact h

theorem firstNot_nil {p : Nat → Bool} : FirstNot p [] := by intro b r he; cases he

/-- one comment is one `continue` of the loop -/
theorem step_comment (pos : Nat) (body : Bytes) (t : Nat) (X : Bytes) (hb : ∀ c ∈ body, notNl c = true)
    (ht : notNl t = false) : ∃ pos', step ⟨pos, 35 :: body ++ t :: X⟩ = .skip ⟨pos', X⟩ [] := by
  have h1 := skipWs_stop pos (35 :: body ++ t :: X) (firstNot_cons (by decide))
  have h2 := skipWhile_append (p := notNl) pos (35 :: body) (t :: X)
    (by intro c hc; rcases List.mem_cons.mp hc with rfl | hc; decide; exact hb c hc) (firstNot_cons ht)
  refine ⟨pos + (35 :: body).length + 1, ?_⟩
  simp only [step, h1]
  simp only [List.cons_append] at h2 ⊢
  simp [commentChar, skipComment, h2, Cur.adv]

theorem step_comment_eof (pos : Nat) (body : Bytes) (hb : ∀ c ∈ body, notNl c = true) :
    ∃ pos', step ⟨pos, 35 :: body⟩ = .skip ⟨pos', []⟩ [] := by
  have h1 := skipWs_stop pos (35 :: body) (firstNot_cons (by decide))
  have h2 := skipWhile_append (p := notNl) pos (35 :: body) []
    (by intro c hc; rcases List.mem_cons.mp hc with rfl | hc; decide; exact hb c hc) firstNot_nil
  refine ⟨pos + (35 :: body).length, ?_⟩
  simp only [step, h1]
  simp only [List.append_nil] at h2
  simp [commentChar, skipComment, h2]

theorem lexGo_nil (f pos : Nat) : lexGo (f + 1) ⟨pos, []⟩ = ([], [], false) := by
  simp [lexGo, step, skipWs, Cur.skipWhile]

/-- **Separators are skipped**, whatever follows them; the fuel stays ahead of the text. -/
theorem lexGo_sep {s : Bytes} (hs : Sep s) (X : Bytes) : ∀ (f pos : Nat), (s ++ X).length < f →
    ∃ f' pos', X.length < f' ∧ lexGo f ⟨pos, s ++ X⟩ = lexGo f' ⟨pos', X⟩ := by
  induction hs with
  | nil => intro f pos hf; exact ⟨f, pos, by simpa using hf, rfl⟩
  | ws b r hb _ ih =>
    intro f pos hf
    obtain ⟨f', pos', h1, h2⟩ := ih f (pos + 1) (by simp at hf ⊢; omega)
    exact ⟨f', pos', h1, by rw [List.cons_append, lexGo_ws f pos b _ hb, h2]⟩
  | comment body t r hbody ht _ ih =>
    intro f pos hf
    cases f with
    | zero => omega
    | succ f =>
      obtain ⟨p1, hstep⟩ := step_comment pos body t (r ++ X) hbody ht
      obtain ⟨f', pos', h1, h2⟩ := ih f p1 (by simp at hf ⊢; omega)
      refine ⟨f', pos', h1, ?_⟩
      have : (35 :: body ++ t :: r) ++ X = 35 :: body ++ t :: (r ++ X) := by simp
      rw [this, lexGo_skip hstep, h2]

theorem lexGo_trail {tr : Bytes} (ht : Trail tr) (f pos : Nat) (hf : tr.length < f) :
    lexGo f ⟨pos, tr⟩ = ([], [], false) := by
  rcases ht with rfl | ⟨body, rfl, hb⟩
  · cases f with
    | zero => simp at hf
    | succ f => exact lexGo_nil f pos
  · match f, hf with
    | f + 2, _ =>
      obtain ⟨p1, hstep⟩ := step_comment_eof pos body hb
      rw [lexGo_skip hstep, lexGo_nil]
    | 1, hf => simp at hf
    | 0, hf => simp at hf


/-! ## byte class facts (finite checks over the ASCII range, lifted by `b < 128`) -/

theorem alpha_facts_aux : ∀ b, b < 128 → isAlpha b = true →
    isWs b = false ∧ (b == commentChar) = false ∧ quoteChars.contains b = false ∧ punct b = none ∧
      isDigit b = false ∧ isWordCh b = true := by decide
theorem alpha_facts {b : Nat} (h : isAlpha b = true) :
    isWs b = false ∧ (b == commentChar) = false ∧ quoteChars.contains b = false ∧ punct b = none ∧
      isDigit b = false ∧ isWordCh b = true := alpha_facts_aux b (isAlpha_ascii h) h

theorem digit_facts_aux : ∀ b, b < 128 → isDigit b = true →
    isWs b = false ∧ (b == commentChar) = false ∧ quoteChars.contains b = false ∧ punct b = none ∧
      isAlpha b = false ∧ (b == 46) = false := by decide
theorem digit_facts {b : Nat} (h : isDigit b = true) :
    isWs b = false ∧ (b == commentChar) = false ∧ quoteChars.contains b = false ∧ punct b = none ∧
      isAlpha b = false ∧ (b == 46) = false := digit_facts_aux b (isDigit_ascii h) h

theorem punct_facts_aux : ∀ b, b < 128 → (punct b).isSome = true →
    isWs b = false ∧ (b == commentChar) = false ∧ quoteChars.contains b = false := by decide
theorem punct_facts {b : Nat} {t : Tok} (h : punct b = some t) :
    isWs b = false ∧ (b == commentChar) = false ∧ quoteChars.contains b = false := by
  have hb : b < 128 := by
    have := lookup_mem _ _ _ (show punctTable.lookup b = some t from h)
    simp [punctTable] at this; omega
  exact punct_facts_aux b hb (by simp [h])

theorem ws_facts_aux : ∀ b, b < 128 → isWs b = true → isAlpha b = false ∧ isWordCh b = false ∧ isDigit b = false := by
  decide
theorem ws_facts {b : Nat} (h : isWs b = true) : isAlpha b = false ∧ isWordCh b = false ∧ isDigit b = false :=
  ws_facts_aux b (isWs_ascii h) h

theorem quote_facts {q : Nat} (h : q ∈ quoteChars) :
    isWs q = false ∧ (q == commentChar) = false ∧ quoteChars.contains q = true ∧ q ≠ 92 ∧ q < 128 := by
  simp [quoteChars] at h
  rcases h with rfl | rfl <;> decide

/-! ## one token -/

/-- what a step that yields exactly token `t` and leaves `rest` looks like -/
def StepsTo (pos : Nat) (text rest : Bytes) (t : Tok) : Prop :=
  ∃ lo hi pos', step ⟨pos, text ++ rest⟩ = .tok ⟨t, ⟨lo, hi⟩⟩ ⟨pos', rest⟩ []

theorem step_punct {b : Nat} {t : Tok} (h : punct b = some t) (pos : Nat) (rest : Bytes) :
    StepsTo pos [b] rest t := by
  obtain ⟨h1, h2, h3⟩ := punct_facts h
  refine ⟨pos, pos + 1, pos + 1, ?_⟩
  have hs := skipWs_stop pos (b :: rest) (firstNot_cons h1)
  have h3' : b ∉ quoteChars := by simpa using h3
  simp only [List.cons_append, List.nil_append, step, hs]
  simp [h2, h3', h]

/-- `read_word` reads exactly the word -/
theorem word_split {w rest : Bytes} (hw : isWord w = true) (hr : FirstNot isWordCh rest) :
    ∃ b tl, w = b :: tl ∧ isAlpha b = true ∧ (w ++ rest).takeWhile isWordCh = w ∧
      ∀ pos, Cur.skipWhile isWordCh ⟨pos, w ++ rest⟩ = ⟨pos + w.length, rest⟩ := by
  cases w with
  | nil => simp [isWord] at hw
  | cons b tl =>
    simp only [isWord, Bool.and_eq_true, List.all_eq_true] at hw
    have hall : ∀ c ∈ b :: tl, isWordCh c = true := by
      intro c hc
      rcases List.mem_cons.mp hc with rfl | hc
      · exact (alpha_facts hw.1).2.2.2.2.2
      · exact hw.2 c hc
    exact ⟨b, tl, rfl, hw.1, (takeWhile_append_stop _ _ hall hr).1, fun pos => skipWhile_append pos _ _ hall hr⟩

/-- a word is lexed by `scan_identifier_or_keyword` -/
theorem step_word {w rest : Bytes} (hw : isWord w = true) (hr : FirstNot isWordCh rest) (pos : Nat) :
    step ⟨pos, w ++ rest⟩ =
      .tok ⟨(scanWord ⟨pos, w ++ rest⟩).1, ⟨pos, (scanWord ⟨pos, w ++ rest⟩).2.pos⟩⟩ (scanWord ⟨pos, w ++ rest⟩).2 [] := by
  obtain ⟨b, tl, rfl, hb, _, _⟩ := word_split hw hr
  obtain ⟨h1, h2, h3, h4, h5, _⟩ := alpha_facts hb
  have hs := skipWs_stop pos ((b :: tl) ++ rest) (by rw [List.cons_append]; exact firstNot_cons h1)
  have h3' : b ∉ quoteChars := by simpa using h3
  simp only [step, hs]
  simp only [List.cons_append] at hs ⊢
  simp [h2, h3', h4, h5, hb]

theorem kwTable_facts : ∀ e ∈ kwTable, isWord e.1 = true ∧ multiWord.lookup e.1 = none := by decide

theorem step_kw {w : Bytes} {t : Tok} (h : kwTable.lookup w = some t) (pos : Nat) (rest : Bytes)
    (hr : FirstNot isWordCh rest) : StepsTo pos w rest t := by
  obtain ⟨hw, hm⟩ := kwTable_facts _ (lookup_mem _ _ _ h)
  obtain ⟨b, tl, hwe, hb, htw, hsk⟩ := word_split hw hr
  refine ⟨pos, pos + w.length, pos + w.length, ?_⟩
  rw [step_word hw hr]
  simp [scanWord, htw, hsk, hm, h]

theorem step_ident {w : Bytes} (hw : isWord w = true) (hk : kwTable.lookup w = none) (pos : Nat) (rest : Bytes)
    (hf : FollowOK (.ident w) rest) : StepsTo pos w rest (.ident w) := by
  obtain ⟨hr, hmw⟩ := hf
  obtain ⟨b, tl, hwe, hb, htw, hsk⟩ := word_split hw hr
  refine ⟨pos, pos + w.length, pos + w.length, ?_⟩
  rw [step_word hw hr]
  cases hm : multiWord.lookup w with
  | none => simp [scanWord, htw, hsk, hm, hk]
  | some alts => simp [scanWord, htw, hsk, hm, hmw alts hm]

/-! ### numbers -/

theorem step_num_start {d X : Bytes} (hne : d ≠ []) (hd : ∀ c ∈ d, isDigit c = true) (pos : Nat) :
    step ⟨pos, d ++ X⟩ = match scanNumber pos ⟨pos, d ++ X⟩ with
      | .ok lx c' ds => .tok ⟨.num lx, ⟨pos, c'.pos⟩⟩ c' ds
      | .invalid c' ds => .skip c' ds := by
  cases d with
  | nil => exact absurd rfl hne
  | cons b tl =>
    obtain ⟨h1, h2, h3, h4, _, _⟩ := digit_facts (hd b (by simp))
    have hs := skipWs_stop pos ((b :: tl) ++ X) (by rw [List.cons_append]; exact firstNot_cons h1)
    have h3' : b ∉ quoteChars := by simpa using h3
    simp only [step, hs]
    simp only [List.cons_append] at hs ⊢
    simp [h2, h3', h4, hd b (by simp)]
    cases scanNumber pos ⟨pos, b :: (tl ++ X)⟩ <;> rfl

theorem numFinish_plain (start : Nat) (lx : Bytes) (c : Cur) (h : FirstNot isAlpha c.rest) :
    numFinish start lx c = .ok lx c [] := by
  simp only [numFinish]
  split
  · rfl
  next b r hr => simp [h b r hr]

theorem step_numInt {d : Bytes} (hne : d ≠ []) (hd : ∀ c ∈ d, isDigit c = true) (pos : Nat) (rest : Bytes)
    (hf : FollowOK (.num d) rest) : StepsTo pos d rest (.num d) := by
  obtain ⟨h1, h2, h3⟩ := hf
  have h46 : FirstNot (· == 46) rest := by
    rcases h3 with h | h
    · have := hd 46 h; simp [isDigit] at this
    · exact h
  have ht := takeWhile_append_stop d rest hd h1
  have hsk := skipWhile_append (p := isDigit) pos d rest hd h1
  refine ⟨pos, pos + d.length, pos + d.length, ?_⟩
  rw [step_num_start hne hd]
  have : scanNumber pos ⟨pos, d ++ rest⟩ = .ok d ⟨pos + d.length, rest⟩ [] := by
    simp only [scanNumber, hsk, ht.1]
    split
    · have := h46 46 _ rfl; simp at this
    · exact numFinish_plain _ _ _ h2
  rw [this]

theorem step_numFrac {d e : Bytes} (hne : d ≠ []) (hne' : e ≠ []) (hd : ∀ c ∈ d, isDigit c = true)
    (he : ∀ c ∈ e, isDigit c = true) (pos : Nat) (rest : Bytes) (hf : FollowOK (.num (d ++ 46 :: e)) rest) :
    StepsTo pos (d ++ 46 :: e) rest (.num (d ++ 46 :: e)) := by
  obtain ⟨h1, h2, _⟩ := hf
  have hdot : FirstNot isDigit (46 :: (e ++ rest)) := firstNot_cons (by decide)
  have ht := takeWhile_append_stop d (46 :: (e ++ rest)) hd hdot
  have hsk := skipWhile_append (p := isDigit) pos d (46 :: (e ++ rest)) hd hdot
  have ht2 := takeWhile_append_stop e rest he h1
  have hsk2 := skipWhile_append (p := isDigit) (pos + d.length + 1) e rest he h1
  refine ⟨pos, pos + d.length + 1 + e.length, pos + d.length + 1 + e.length, ?_⟩
  have hassoc : (d ++ 46 :: e) ++ rest = d ++ 46 :: (e ++ rest) := by simp
  rw [hassoc, step_num_start hne hd]
  have : scanNumber pos ⟨pos, d ++ 46 :: (e ++ rest)⟩ =
      .ok (d ++ 46 :: e) ⟨pos + d.length + 1 + e.length, rest⟩ [] := by
    cases e with
    | nil => exact absurd rfl hne'
    | cons x e' =>
      have hx : isDigit x = true := he x (by simp)
      simp only [scanNumber, hsk, ht.1]
      simp only [List.cons_append] at ht2 hsk2 ⊢
      simp only [hx, if_true, hsk2, ht2.1]
      exact numFinish_plain _ _ _ h2
  rw [this]


/-! ### multi-word keywords -/

theorem tryWord_hit (w w1 X : Bytes) (pos : Nat) (hw1 : ∀ c ∈ w1, isWs c = true)
    (hw : ∃ x tl, w = x :: tl ∧ isWs x = false) (hX : FirstNot isAlpha X) :
    tryWord w ⟨pos, w1 ++ (w ++ X)⟩ = some ⟨pos + w1.length + w.length, X⟩ := by
  obtain ⟨x, tl, rfl, hx⟩ := hw
  have hs : skipWs ⟨pos, w1 ++ ((x :: tl) ++ X)⟩ = ⟨pos + w1.length, (x :: tl) ++ X⟩ :=
    skipWhile_append pos w1 _ hw1 (by rw [List.cons_append]; exact firstNot_cons hx)
  have hp : (x :: tl).isPrefixOf ((x :: tl) ++ X) = true :=
    List.isPrefixOf_iff_prefix.mpr (List.prefix_append _ _)
  simp only [tryWord, hs, hp, if_true, Cur.adv, List.drop_left]
  cases X with
  | nil => rfl
  | cons b r => simp [hX b r rfl]

theorem tryWord_miss (w w1 Y : Bytes) (pos : Nat) (hw1 : ∀ c ∈ w1, isWs c = true) (hY : FirstNot isWs Y)
    (hnp : w.isPrefixOf Y = false) : tryWord w ⟨pos, w1 ++ Y⟩ = none := by
  have hs : skipWs ⟨pos, w1 ++ Y⟩ = ⟨pos + w1.length, Y⟩ := skipWhile_append pos w1 _ hw1 hY
  simp [tryWord, hs, hnp]

theorem WsGap.firstNot {w X : Bytes} (h : WsGap w) : FirstNot isAlpha (w ++ X) ∧ FirstNot isWordCh (w ++ X) := by
  obtain ⟨hne, hall⟩ := h
  cases w with
  | nil => exact absurd rfl hne
  | cons x tl =>
    have := ws_facts (hall x (by simp))
    exact ⟨firstNot_cons this.1, firstNot_cons this.2.1⟩

theorem mw_if : multiWord.lookup (b!"if") =
    some [([b!"to", b!"say"], .ifToSay), ([b!"not", b!"so"], .ifNotSo)] := by decide
theorem mw_small : multiWord.lookup (b!"small") = some [([b!"pass"], .smallPass)] := by decide

theorem step_multi {first : Bytes} {alts : List (List Bytes × Tok)} {t : Tok} {X rest : Bytes} {pos pos' : Nat}
    (hw : isWord first = true) (hl : multiWord.lookup first = some alts) (hX : FirstNot isWordCh X)
    (ha : tryAlts alts ⟨pos + first.length, X⟩ = some (t, ⟨pos', rest⟩)) :
    step ⟨pos, first ++ X⟩ = .tok ⟨t, ⟨pos, pos'⟩⟩ ⟨pos', rest⟩ [] := by
  obtain ⟨b, tl, hwe, hb, htw, hsk⟩ := word_split hw hX
  rw [step_word hw hX]
  simp [scanWord, htw, hsk, hl, ha]

theorem step_ifToSay (w1 w2 : Bytes) (h1 : WsGap w1) (h2 : WsGap w2) (pos : Nat) (rest : Bytes)
    (hf : FirstNot isAlpha rest) : StepsTo pos (b!"if" ++ w1 ++ b!"to" ++ w2 ++ b!"say") rest .ifToSay := by
  have hassoc : (b!"if" ++ w1 ++ b!"to" ++ w2 ++ b!"say") ++ rest =
      b!"if" ++ (w1 ++ (b!"to" ++ (w2 ++ (b!"say" ++ rest)))) := by simp
  have ha := tryWord_hit (b!"to") w1 (w2 ++ (b!"say" ++ rest)) (pos + 2) h1.2 ⟨_, _, rfl, by decide⟩ h2.firstNot.1
  have hb := tryWord_hit (b!"say") w2 rest (pos + 2 + w1.length + 2) h2.2 ⟨_, _, rfl, by decide⟩ hf
  simp only [List.cons_append, List.nil_append, List.length_cons, List.length_nil] at ha hb
  refine ⟨pos, pos + 2 + w1.length + 2 + w2.length + 3, pos + 2 + w1.length + 2 + w2.length + 3, ?_⟩
  rw [hassoc]
  exact step_multi (by decide) mw_if h1.firstNot.2 (by simp [tryAlts, tryWords, ha, hb])

theorem step_ifNotSo (w1 w2 : Bytes) (h1 : WsGap w1) (h2 : WsGap w2) (pos : Nat) (rest : Bytes)
    (hf : FirstNot isAlpha rest) : StepsTo pos (b!"if" ++ w1 ++ b!"not" ++ w2 ++ b!"so") rest .ifNotSo := by
  have hassoc : (b!"if" ++ w1 ++ b!"not" ++ w2 ++ b!"so") ++ rest =
      b!"if" ++ (w1 ++ (b!"not" ++ (w2 ++ (b!"so" ++ rest)))) := by simp
  have hmiss := tryWord_miss (b!"to") w1 (b!"not" ++ (w2 ++ (b!"so" ++ rest))) (pos + 2) h1.2
    (firstNot_cons (by decide)) (by simp [List.isPrefixOf])
  have ha := tryWord_hit (b!"not") w1 (w2 ++ (b!"so" ++ rest)) (pos + 2) h1.2 ⟨_, _, rfl, by decide⟩ h2.firstNot.1
  have hb := tryWord_hit (b!"so") w2 rest (pos + 2 + w1.length + 3) h2.2 ⟨_, _, rfl, by decide⟩ hf
  simp only [List.cons_append, List.nil_append, List.length_cons, List.length_nil] at ha hb hmiss
  refine ⟨pos, pos + 2 + w1.length + 3 + w2.length + 2, pos + 2 + w1.length + 3 + w2.length + 2, ?_⟩
  rw [hassoc]
  exact step_multi (by decide) mw_if h1.firstNot.2 (by simp [tryAlts, tryWords, hmiss, ha, hb])

theorem step_smallPass (w1 : Bytes) (h1 : WsGap w1) (pos : Nat) (rest : Bytes)
    (hf : FirstNot isAlpha rest) : StepsTo pos (b!"small" ++ w1 ++ b!"pass") rest .smallPass := by
  have hassoc : (b!"small" ++ w1 ++ b!"pass") ++ rest = b!"small" ++ (w1 ++ (b!"pass" ++ rest)) := by simp
  have ha := tryWord_hit (b!"pass") w1 rest (pos + 5) h1.2 ⟨_, _, rfl, by decide⟩ hf
  simp only [List.cons_append, List.nil_append, List.length_cons, List.length_nil] at ha
  refine ⟨pos, pos + 5 + w1.length + 4, pos + 5 + w1.length + 4, ?_⟩
  rw [hassoc]
  exact step_multi (by decide) mw_small h1.firstNot.2 (by simp [tryAlts, tryWords, ha])

/-! ### strings -/

theorem takeWhile_length_ge {p : Nat → Bool} : ∀ (a X : Bytes), (∀ c ∈ a, p c = true) →
    a.length ≤ ((a ++ X).takeWhile p).length := by
  intro a
  induction a with
  | nil => intro X _; simp
  | cons x a ih =>
    intro X ha
    have := ih X (fun c hc => ha c (by simp [hc]))
    simp [List.takeWhile_cons, ha x (by simp)]; omega

theorem scanStrLoop_body {q : Nat} (hq : q ∈ quoteChars) {body content : Bytes} {e : Bool}
    (hb : StrBody q body content e) : ∀ (rest : Bytes) (start f : Nat) (c : Cur) (buf : Bytes) (esc0 : Bool)
      (ds : List Diag), c.rest = body ++ q :: rest → body.length < f → (esc0 = false → buf = []) →
      scanStrLoop start q f c buf esc0 ds = ⟨buf ++ content, esc0 || e, ⟨c.pos + body.length + 1, rest⟩, ds⟩ := by
  have hq92 : q ≠ 92 := (quote_facts hq).2.2.2.1
  induction hb with
  | plain chunk hc =>
    intro rest start f c buf esc0 ds hr hf hbuf
    cases f with
    | zero => omega
    | succ f =>
      have hstop : FirstNot (notQuoteEsc q) (q :: rest) := firstNot_cons (by simp [notQuoteEsc])
      have h1 := takeWhile_append_stop chunk (q :: rest) (fun b hb => (hc b hb).1) hstop
      have h2 := takeWhile_length_ge (p := notNl) chunk (q :: rest) (fun b hb => (hc b hb).2)
      simp only [scanStrLoop, hr, h1.1, h1.2]
      rw [if_neg (by omega)]
      simp only [beq_self_eq_true, if_true]
      cases esc0 with
      | false => simp [hbuf rfl]
      | true => simp
  | esc chunk x y body' content' e' hc hx _ ih =>
    intro rest start f c buf esc0 ds hr hf hbuf
    cases f with
    | zero => omega
    | succ f =>
      have hr' : c.rest = chunk ++ 92 :: (x :: (body' ++ q :: rest)) := by rw [hr]; simp
      have hstop : FirstNot (notQuoteEsc q) (92 :: (x :: (body' ++ q :: rest))) :=
        firstNot_cons (by simp [notQuoteEsc])
      have h1 := takeWhile_append_stop chunk _ (fun b hb => (hc b hb).1) hstop
      have h2 := takeWhile_length_ge (p := notNl) chunk (92 :: (x :: (body' ++ q :: rest))) (fun b hb => (hc b hb).2)
      have hne : (92 == q) = false := by simp; omega
      simp only [scanStrLoop, hr', h1.1, h1.2]
      rw [if_neg (by omega)]
      simp only [hne, hx]
      rw [ih rest start f ⟨c.pos + chunk.length + 2, (x :: (body' ++ q :: rest)).drop 1⟩ (buf ++ chunk ++ [y]) true ds
        (by simp) (by simp at hf; omega) (by simp)]
      simp; omega

theorem step_str {q : Nat} (hq : q ∈ quoteChars) {body content : Bytes} {e : Bool} (hb : StrBody q body content e)
    (pos : Nat) (rest : Bytes) : StepsTo pos (q :: body ++ [q]) rest (.str content e) := by
  obtain ⟨h1, h2, h3, _, _⟩ := quote_facts hq
  have hs := skipWs_stop pos (q :: (body ++ q :: rest)) (firstNot_cons h1)
  have hl := fun f hf => scanStrLoop_body hq hb rest pos f ⟨pos + 1, body ++ q :: rest⟩ [] false []
    rfl hf (fun _ => rfl)
  refine ⟨pos, pos + 1 + body.length + 1, pos + 1 + body.length + 1, ?_⟩
  have hassoc : (q :: body ++ [q]) ++ rest = q :: (body ++ q :: rest) := by simp
  rw [hassoc]
  simp only [step, hs]
  rw [if_neg (by simp [h2]), if_pos h3]
  simp only [scanString]
  rw [hl _ (by simp; omega)]
  simp


/-! ## every lexeme, then every layout -/

def isKwTok : Tok → Bool
  | .make | .get | .add | .minus | .times | .divide | .mod | .and | .or | .not | .jasi | .start | .end
  | .comot | .next | .na | .pass | .tru | .fals | .null | .do | .ret => true
  | _ => false

theorem kwTable_isKw : ∀ e ∈ kwTable, isKwTok e.2 = true := by decide

theorem kw_follow {t : Tok} {rest : Bytes} (hk : isKwTok t = true) (hf : FollowOK t rest) : FirstNot isWordCh rest := by
  cases t <;> simp [isKwTok] at hk <;> exact hf

theorem isWord_ne_nil {w : Bytes} (h : isWord w = true) : w ≠ [] := by
  intro he; subst he; simp [isWord] at h

/-- **One-token step**: a spelling of `t`, followed by something it does not merge with, is lexed as
exactly `t`, without a diagnostic, and the cursor is left directly behind it. -/
theorem step_lexeme {t : Tok} {text : Bytes} (hl : Lexeme t text) (pos : Nat) (rest : Bytes) (hf : FollowOK t rest) :
    StepsTo pos text rest t ∧ text ≠ [] := by
  cases hl with
  | punct b t h => exact ⟨step_punct h pos rest, by simp⟩
  | kw w t h =>
    have hm := lookup_mem _ _ _ h
    exact ⟨step_kw h pos rest (kw_follow (kwTable_isKw _ hm) hf), isWord_ne_nil (kwTable_facts _ hm).1⟩
  | ident w hw hk => exact ⟨step_ident hw hk pos rest hf, isWord_ne_nil hw⟩
  | numInt d hne hd => exact ⟨step_numInt hne hd pos rest hf, hne⟩
  | numFrac d e hne hne' hd he => exact ⟨step_numFrac hne hne' hd he pos rest hf, by simp⟩
  | str q body content esc hq hb => exact ⟨step_str hq hb pos rest, by simp⟩
  | ifToSay w1 w2 h1 h2 => exact ⟨step_ifToSay w1 w2 h1 h2 pos rest hf, by simp⟩
  | ifNotSo w1 w2 h1 h2 => exact ⟨step_ifNotSo w1 w2 h1 h2 pos rest hf, by simp⟩
  | smallPass w1 h1 => exact ⟨step_smallPass w1 h1 pos rest hf, by simp⟩

/-- the loop over a whole valid layout -/
theorem lexGo_layout {tr : Bytes} (htr : Trail tr) : ∀ (l : Layout), Valid tr l → ∀ (f pos : Nat),
    (render tr l).length < f →
    ∃ sp, lexGo f ⟨pos, render tr l⟩ = (sp, [], false) ∧ sp.map (·.tok) = l.toks := by
  intro l
  induction l with
  | nil =>
    intro _ f pos hf
    exact ⟨[], lexGo_trail htr f pos hf, rfl⟩
  | cons x r ih =>
    obtain ⟨⟨t, text⟩, sep⟩ := x
    intro hv f pos hf
    obtain ⟨hlx, hsep, hfol, hvr⟩ := hv
    obtain ⟨⟨lo, hi, pos', hstep⟩, hne⟩ := step_lexeme hlx pos (sep ++ render tr r) hfol
    have hlen : 0 < text.length := List.length_pos_iff.mpr hne
    cases f with
    | zero => omega
    | succ f =>
      have hr : render tr (((t, text), sep) :: r) = text ++ (sep ++ render tr r) := by simp [render]
      rw [hr] at hf ⊢
      obtain ⟨f', pos'', hf', hsk⟩ := lexGo_sep hsep (render tr r) f pos' (by simp at hf ⊢; omega)
      obtain ⟨sp, hsp, hmap⟩ := ih hvr f' pos'' hf'
      refine ⟨⟨t, ⟨lo, hi⟩⟩ :: sp, ?_, by simp [Layout.toks] at hmap ⊢; exact hmap⟩
      rw [lexGo_tok hstep, hsk, hsp]

theorem eofTok_tok (ts : List SpTok) : (eofTok ts).tok = .eof := by
  unfold eofTok; split <;> rfl

/-- **Round trip** for the whole lexer: a valid layout of a token sequence — any leading separator,
any spelling and separator per token, an optional unfinished comment at the end — lexes to exactly
that sequence (then the parser's EOF), with no diagnostic. -/
theorem lex_layout {lead tr : Bytes} (hlead : Sep lead) (htr : Trail tr) (l : Layout) (hv : Valid tr l) :
    (lex (lead ++ render tr l)).1.map (·.tok) = l.toks ++ [.eof] ∧ (lex (lead ++ render tr l)).2 = [] := by
  obtain ⟨f', pos', hf', hsk⟩ := lexGo_sep hlead (render tr l) ((lead ++ render tr l).length + 1) 0 (by omega)
  obtain ⟨sp, hsp, hmap⟩ := lexGo_layout htr l hv f' pos' hf'
  simp only [lex, lexIter, hsk, hsp, List.map_append, List.map_cons, List.map_nil, eofTok_tok, hmap]
  trivial

end NaijaVerif.Lex
