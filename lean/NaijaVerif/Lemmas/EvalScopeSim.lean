import NaijaVerif.Lemmas.EvalScopeState
/-
C04, dynamic half — the two-run simulation: on a state satisfying `MR`, for well-scoped code, all
eight mutually recursive functions of the evaluator return THE SAME result under `cfg.dyn` (what the
code does) and `cfg.lex` (lexical scoping), and a successful result satisfies `MR` again and
`Frame`s the initial state (only values below the running code's scopes changed).
-/
namespace NaijaVerif.Eval
open NaijaVerif

variable {N : Type}

/-- Results agree, and a successful one re-establishes the invariant and the frame of `st0`. -/
def Ag (cfg : RunCfg) (Γ : List Binder) (st0 : State N) {α : Type} (r r' : Res N α) : Prop :=
  r = r' ∧ ∀ a st', r' = .ok a st' → MR cfg Γ st' ∧ Frame st0 st'

section
variable {cfg : RunCfg} {Γ : List Binder} {st0 : State N} {α β : Type}

theorem Ag.ok {st : State N} (hm : MR cfg Γ st) (hf : Frame st0 st) (a : α) :
    Ag cfg Γ st0 (Res.ok a st) (Res.ok a st) :=
  ⟨rfl, by intro a' st' h; cases h; exact ⟨hm, hf⟩⟩

theorem Ag.err {k : RtKind} {sp : Span} {st : State N} :
    Ag cfg Γ st0 (Res.err k sp st : Res N α) (Res.err k sp st) :=
  ⟨rfl, by intro a' st' h; cases h⟩

theorem Ag.fuel : Ag cfg Γ st0 (Res.fuel : Res N α) Res.fuel :=
  ⟨rfl, by intro a' st' h; cases h⟩

theorem Ag.trap {site : PanicSite} {sp : Span} {st : State N} :
    Ag cfg Γ st0 (trap cfg.dyn site sp st : Res N α) (trap cfg.lex site sp st) :=
  ⟨rfl, by intro a' st' h; exact absurd h (trap_ne_ok _ _ _ _ _ _)⟩

theorem Ag.ofExcept {st : State N} (hm : MR cfg Γ st) (hf : Frame st0 st) {x : Except Fault α} {sp : Span} :
    Ag cfg Γ st0 (Res.ofExcept cfg.dyn x sp st) (Res.ofExcept cfg.lex x sp st) :=
  ⟨rfl, by intro a' st' h; obtain ⟨_, e⟩ := Res.ofExcept_eq_ok h; subst e; exact ⟨hm, hf⟩⟩

theorem Ag.ofFault {st : State N} {flt : Fault} {sp : Span} :
    Ag cfg Γ st0 (Res.ofFault cfg.dyn flt sp st : Res N α) (Res.ofFault cfg.lex flt sp st) :=
  ⟨rfl, by intro a' st' h; exact absurd h (Res.ofFault_ne_ok _ _ _ _ _ _)⟩

/-- Sequencing; the first part may run in another context (a block, a callee). -/
theorem Ag.bindX {Γ1 : List Binder} {s1 : State N} {r r' : Res N α} {k k' : α → State N → Res N β}
    (h : Ag cfg Γ1 s1 r r')
    (hk : ∀ a st1, MR cfg Γ1 st1 → Frame s1 st1 → Ag cfg Γ st0 (k a st1) (k' a st1)) :
    Ag cfg Γ st0 (r.bind k) (r'.bind k') := by
  obtain ⟨e, hp⟩ := h
  subst e
  cases r with
  | ok a st1 =>
    obtain ⟨hm, hf⟩ := hp a st1 rfl
    exact hk a st1 hm hf
  | err => exact Ag.err
  | panic s st => exact ⟨rfl, by intro a' st' h; cases h⟩
  | fuel => exact Ag.fuel

theorem Ag.bind {r r' : Res N α} {k k' : α → State N → Res N β} (h : Ag cfg Γ st0 r r')
    (hk : ∀ a st1, MR cfg Γ st1 → Frame st0 st1 → Ag cfg Γ st0 (k a st1) (k' a st1)) :
    Ag cfg Γ st0 (r.bind k) (r'.bind k') := Ag.bindX h hk

theorem Ag.rebase {st1 : State N} {r r' : Res N α} (hf : Frame st0 st1) (h : Ag cfg Γ st1 r r') :
    Ag cfg Γ st0 r r' :=
  ⟨h.1, fun a st' e => ⟨(h.2 a st' e).1, hf.trans (h.2 a st' e).2⟩⟩

end

/-! ### The helpers that do not look anything up -/

theorem Ag.ofRunCommand {cfg : RunCfg} {Γ : List Binder} {st0 st : State N} (hm : MR cfg Γ st)
    (hf : Frame st0 st) {c : Proc.Cmd} {sp : Span} :
    Ag cfg Γ st0 (runCommand cfg.dyn c sp st) (runCommand cfg.lex c sp st) := by
  refine ⟨rfl, ?_⟩
  intro a st' h
  have : st' = st := by
    unfold NaijaVerif.Eval.runCommand at h
    split at h
    · cases h
    · split at h
      · cases h
      · split at h
        · cases h
        · cases h; rfl
  subst this; exact ⟨hm, hf⟩

theorem Ag.ofGlobalCall [NumOps N] {cfg : RunCfg} {Γ : List Binder} {st0 st : State N} (hm : MR cfg Γ st)
    (hf : Frame st0 st) {b : GlobalB} {v : Value N} {sp : Span} :
    Ag cfg Γ st0 (globalCall cfg.dyn b v sp st) (globalCall cfg.lex b v sp st) := by
  have heq : globalCall cfg.dyn b v sp st = globalCall cfg.lex b v sp st := by
    cases b <;> first | rfl | (cases v <;> rfl)
  refine ⟨heq, ?_⟩
  intro a st' h
  have : st'.env = st.env ∧ st'.chain = st.chain ∧ st'.next = st.next := by
    cases b with
    | shout => simp only [NaijaVerif.Eval.globalCall] at h; cases h; exact ⟨rfl, rfl, rfl⟩
    | typeOf => simp only [NaijaVerif.Eval.globalCall] at h; cases h; exact ⟨rfl, rfl, rfl⟩
    | toString => simp only [NaijaVerif.Eval.globalCall] at h; cases h; exact ⟨rfl, rfl, rfl⟩
    | readLine =>
      simp only [NaijaVerif.Eval.globalCall] at h
      split at h <;> (cases h; exact ⟨rfl, rfl, rfl⟩)
    | command =>
      simp only [NaijaVerif.Eval.globalCall] at h
      split at h
      · cases h; exact ⟨rfl, rfl, rfl⟩
      · exact absurd h (trap_ne_ok _ _ _ _ _ _)
  exact ⟨hm.of_env this.1 this.2.1 this.2.2, hf.trans (Frame.of_env this.1 this.2.1 this.2.2)⟩

/-! ### The helpers that look a variable up -/

theorem interp_agree [NumOps N] {cfg : RunCfg} {Γ : List Binder} {st : State N} (hm : MR cfg Γ st) :
    ∀ (segs : List Seg) (acc : Bytes), segs.all (wsSeg Γ) = true →
      interp cfg.dyn st segs acc = interp cfg.lex st segs acc
  | [], _, _ => rfl
  | .lit s :: rest, acc, h => by
    simp only [interp]
    exact interp_agree hm rest _ (by simp only [List.all_cons, Bool.and_eq_true] at h; exact h.2)
  | .var name bind :: rest, acc, h => by
    simp only [List.all_cons, Bool.and_eq_true, wsSeg] at h
    simp only [interp, lookupVal_agree hm h.1]
    split
    · exact interp_agree hm rest _ h.2
    · rfl

theorem Ag.ofApplyMut [NumOps N] {cfg : RunCfg} {Γ : List Binder} {st0 st : State N} (hm : MR cfg Γ st)
    (hf : Frame st0 st) {bind : Option Nat} (hb : boundIn Γ bind = true) {name : Bytes}
    {path : List (Nat × Span)} {op : MutOp N} {sp : Span} :
    Ag cfg Γ st0 (applyMut cfg.dyn st name bind path op sp) (applyMut cfg.lex st name bind path op sp) := by
  have heq : applyMut cfg.dyn st name bind path op sp = applyMut cfg.lex st name bind path op sp := by
    unfold NaijaVerif.Eval.applyMut
    rw [slotOf_agree hm hb]
    rfl
  refine ⟨heq, ?_⟩
  intro a st' h
  unfold NaijaVerif.Eval.applyMut at h
  split at h
  · exact absurd h (trap_ne_ok _ _ _ _ _ _)
  · split at h
    · exact absurd h (trap_ne_ok _ _ _ _ _ _)
    · split at h
      · exact absurd h (Res.ofFault_ne_ok _ _ _ _ _ _)
      · split at h
        · exact absurd h (Res.ofFault_ne_ok _ _ _ _ _ _)
        · cases h
          obtain ⟨h1, h2⟩ := hm.updateAt _ _
          exact ⟨h1, hf.trans h2⟩

theorem Ag.ofAssignIndex [NumOps N] {cfg : RunCfg} {Γ : List Binder} {st0 st : State N} (hm : MR cfg Γ st)
    (hf : Frame st0 st) {bind : Option Nat} (hb : boundIn Γ bind = true) {name : Bytes}
    {path : List (Nat × Span)} {v : Value N} {sp : Span} :
    Ag cfg Γ st0 (assignIndex cfg.dyn st name bind path v sp) (assignIndex cfg.lex st name bind path v sp) := by
  have heq : assignIndex cfg.dyn st name bind path v sp = assignIndex cfg.lex st name bind path v sp := by
    unfold NaijaVerif.Eval.assignIndex
    rw [slotOf_agree hm hb]
    rfl
  refine ⟨heq, ?_⟩
  intro a st' h
  unfold NaijaVerif.Eval.assignIndex at h
  split at h
  · exact absurd h (trap_ne_ok _ _ _ _ _ _)
  · split at h
    · exact absurd h (trap_ne_ok _ _ _ _ _ _)
    · split at h
      · exact absurd h (Res.ofFault_ne_ok _ _ _ _ _ _)
      · cases h
        obtain ⟨h1, h2⟩ := hm.updateAt _ _
        exact ⟨h1, hf.trans h2⟩

/-- `lookupFn` reads the static chain and the skeleton only. -/
theorem findFn_skel {vis vis' : Scope N → Bool} {p : FnEntry → Bool}
    (hv : ∀ s s' : Scope N, s.skel = s'.skel → vis s = vis' s') :
    ∀ (env env' : List (Scope N)), env'.map Scope.skel = env.map Scope.skel →
      findFn vis' p env' = findFn vis p env
  | [], [], _ => rfl
  | [], _ :: _, h => by simp at h
  | _ :: _, [], h => by simp at h
  | S :: r, S' :: r', h => by
    simp only [List.map_cons, List.cons.injEq] at h
    have e1 : S'.fns = S.fns := congrArg Skel.fns h.1
    simp only [findFn, hv S S' h.1.symm, e1, findFn_skel hv r r' h.2]

theorem lookupFn_frame {cfg : RunCfg} {st st1 : State N} (hf : Frame st st1) (a : Option Nat) (name : Bytes) :
    lookupFn cfg st1 a name = lookupFn cfg st a name := by
  have hv : ∀ s s' : Scope N, s.skel = s'.skel → visible cfg st.chain s = visible cfg st1.chain s' := by
    intro s s' e
    have : s.uid = s'.uid := congrArg Skel.uid e
    simp only [visible, hf.chain, this]
  cases a with
  | some i => simp only [lookupFn]; exact findFn_skel hv _ _ hf.skel
  | none => simp only [lookupFn]; exact findFn_skel hv _ _ hf.skel

/-! ### Well-scopedness of the pieces -/

theorem wsExprs_mem {Γ : List Binder} : ∀ {es : List Expr}, wsExprs Γ es = true → ∀ e ∈ es, wsExpr Γ e = true
  | [], _, _, h => by cases h
  | e :: es, hws, e', h => by
    simp only [wsExprs, Bool.and_eq_true] at hws
    rcases List.mem_cons.1 h with rfl | h
    · exact hws.1
    · exact wsExprs_mem hws.2 e' h

/-- The expressions an `evalSel` list evaluates are well scoped. -/
def WsSel (Γ : List Binder) (es : List (Except (PanicSite × Span) Expr)) : Prop :=
  ∀ e, Except.ok e ∈ es → wsExpr Γ e = true

theorem WsSel.map_ok {Γ : List Binder} {es : List Expr} (h : wsExprs Γ es = true) : WsSel Γ (es.map .ok) := by
  intro e he
  obtain ⟨e', he', e2⟩ := List.mem_map.1 he
  have e3 : e' = e := Except.ok.inj e2
  rw [← e3]
  exact wsExprs_mem h e' he'

theorem WsSel.pick {Γ : List Binder} {args : List Expr} (h : wsExprs Γ args = true)
    (idx : List (Nat × PanicSite)) (sp : Span) : WsSel Γ (pick args idx sp) := by
  intro e he
  simp only [NaijaVerif.Eval.pick, List.mem_map] at he
  obtain ⟨q, _, hq⟩ := he
  split at hq
  · next e' he' =>
    have e3 : e' = e := Except.ok.inj hq
    rw [← e3]
    exact wsExprs_mem h e' (List.mem_of_getElem? he')
  · cases hq

theorem WsSel.head {Γ : List Binder} {e : Expr} {rest : List (Except (PanicSite × Span) Expr)}
    (h : WsSel Γ (.ok e :: rest)) : wsExpr Γ e = true := h e List.mem_cons_self

theorem WsSel.tail {Γ : List Binder} {x : Except (PanicSite × Span) Expr}
    {rest : List (Except (PanicSite × Span) Expr)} (h : WsSel Γ (x :: rest)) : WsSel Γ rest :=
  fun e he => h e (List.mem_cons_of_mem _ he)

theorem flattenIdx_ws {Γ : List Binder} (e : Expr) (acc : List (Expr × Span)) (he : wsExpr Γ e = true)
    (hacc : ∀ q ∈ acc, wsExpr Γ q.1 = true) :
    wsExpr Γ (flattenIdx e acc).1 = true ∧ ∀ q ∈ (flattenIdx e acc).2, wsExpr Γ q.1 = true := by
  fun_induction flattenIdx e acc with
  | case1 a i isp sp acc ih =>
    simp only [wsExpr, Bool.and_eq_true] at he
    apply ih he.1
    intro q hq
    rcases List.mem_cons.1 hq with rfl | hq
    · exact he.2
    · exact hacc q hq
  | case2 e acc _ => exact ⟨he, hacc⟩

/-- The root variable and the index expressions of an l-value are well scoped. -/
theorem lvOf_ws {Γ : List Binder} {e : Expr} (he : wsExpr Γ e = true) {name : Bytes} {bind : Option Nat}
    {idxs : List (Expr × Span)} (h : lvOf e = .path name bind idxs) :
    boundIn Γ bind = true ∧ ∀ q ∈ idxs, wsExpr Γ q.1 = true := by
  unfold lvOf at h
  split at h
  · cases h
    exact ⟨by simpa [wsExpr] using he, by intro q hq; cases hq⟩
  · next a i isp sp =>
    have := flattenIdx_ws (Γ := Γ) (.index a i isp sp) [] he (by intro q hq; cases hq)
    split at h
    · next n b vsp idxs' hfl =>
      cases h
      rw [hfl] at this
      exact ⟨by simpa [wsExpr] using this.1, this.2⟩
    · cases h
  · cases h

/-! ### The simulation -/

variable [NumOps N]

/-- All eight functions agree under the two lookup modes at fuel `f`. -/
structure AgAll (cfg : RunCfg) (f : Nat) : Prop where
  expr : ∀ (Γ : List Binder) (e : Expr) (st : State N), MR cfg Γ st → wsExpr Γ e = true →
    Ag cfg Γ st (evalExpr cfg.dyn f e st) (evalExpr cfg.lex f e st)
  sel : ∀ (Γ : List Binder) es (st : State N), MR cfg Γ st → WsSel Γ es →
    Ag cfg Γ st (evalSel cfg.dyn f es st) (evalSel cfg.lex f es st)
  idxs : ∀ (Γ : List Binder) (is : List (Expr × Span)) (st : State N), MR cfg Γ st →
    (∀ q ∈ is, wsExpr Γ q.1 = true) → Ag cfg Γ st (evalIdxs cfg.dyn f is st) (evalIdxs cfg.lex f is st)
  mutOp : ∀ (Γ : List Binder) m args sp (st : State N), MR cfg Γ st → wsExprs Γ args = true →
    Ag cfg Γ st (evalMutOp cfg.dyn f m args sp st) (evalMutOp cfg.lex f m args sp st)
  stmt : ∀ (Γ : List Binder) s (st : State N), MR cfg Γ st → wsStmt Γ s = true →
    Ag cfg Γ st (execStmt cfg.dyn f s st) (execStmt cfg.lex f s st)
  stmts : ∀ (Γ : List Binder) ss (st : State N), MR cfg Γ st → wsStmts Γ ss = true →
    Ag cfg Γ st (execStmts cfg.dyn f ss st) (execStmts cfg.lex f ss st)
  block : ∀ (Γ : List Binder) b (st : State N), MR cfg Γ st → wsBlock Γ b = true →
    Ag cfg Γ st (execBlock cfg.dyn f b st) (execBlock cfg.lex f b st)
  loop : ∀ (Γ : List Binder) c b sp (st : State N), MR cfg Γ st → wsExpr Γ c = true → wsBlock Γ b = true →
    Ag cfg Γ st (loopW cfg.dyn f c b sp st) (loopW cfg.lex f c b sp st)

/-- Side goals of the walk: the invariant, the frame and the well-scopedness of the piece. -/
macro "ws_done" : tactic => `(tactic| (
  first
    | assumption
    | (apply WsSel.map_ok; assumption)
    | (apply WsSel.pick; assumption)
    | (apply WsSel.head; assumption)
    | (apply WsSel.tail; assumption)))

/-- Close a goal `Ag … A B` where `A` and `B` are the same term up to the configuration. -/
macro "ag_close" h:ident : tactic => `(tactic| (
  repeat (first
    | exact Ag.fuel
    | exact Ag.err
    | exact Ag.trap
    | exact Ag.ofFault
    | (refine Ag.ok ?_ ?_ _ <;> assumption)
    | (refine Ag.ofExcept ?_ ?_ <;> assumption)
    | (refine Ag.ofRunCommand ?_ ?_ <;> assumption)
    | (refine Ag.ofGlobalCall ?_ ?_ <;> assumption)
    | (refine Ag.rebase ?_ (AgAll.expr $h _ _ _ ?_ ?_) <;> ws_done)
    | (refine Ag.rebase ?_ (AgAll.sel $h _ _ _ ?_ ?_) <;> ws_done)
    | (refine Ag.rebase ?_ (AgAll.idxs $h _ _ _ ?_ ?_) <;> ws_done)
    | (refine Ag.rebase ?_ (AgAll.mutOp $h _ _ _ _ _ ?_ ?_) <;> ws_done)
    | (refine Ag.rebase ?_ (AgAll.stmt $h _ _ _ ?_ ?_) <;> ws_done)
    | (refine Ag.rebase ?_ (AgAll.stmts $h _ _ _ ?_ ?_) <;> ws_done)
    | (refine Ag.rebase ?_ (AgAll.block $h _ _ _ ?_ ?_) <;> ws_done)
    | (refine Ag.rebase ?_ (AgAll.loop $h _ _ _ _ _ ?_ ?_ ?_) <;> ws_done)
    | (apply Ag.bind)
    | (intro _ _ _ _)
    | split)))

theorem ag_zero (cfg : RunCfg) : AgAll (N := N) cfg 0 :=
  ⟨fun _ _ _ _ _ => by simp only [evalExpr]; exact Ag.fuel,
   fun _ _ _ _ _ => by simp only [evalSel]; exact Ag.fuel,
   fun _ _ _ _ _ => by simp only [evalIdxs]; exact Ag.fuel,
   fun _ _ _ _ _ _ _ => by simp only [evalMutOp]; exact Ag.fuel,
   fun _ _ _ _ _ => by simp only [execStmt]; exact Ag.fuel,
   fun _ _ _ _ _ => by simp only [execStmts]; exact Ag.fuel,
   fun _ _ _ _ _ => by simp only [execBlock]; exact Ag.fuel,
   fun _ _ _ _ _ _ _ _ => by simp only [loopW]; exact Ag.fuel⟩

end NaijaVerif.Eval
