import NaijaVerif.Lemmas.ResolveStructSum
/-
`C03.sumOkB`, part 2: what the resolver model records about calls at FUNCTION level.

`check_expr` records a user call three times at once: `record_direct_callee(owner, g)`,
`record_user_call(owner, g)`, `record_stmt_callee(stmt, g)`.  With the context of the walk — the statement
being checked belongs to `current_owner`, the owner has an entry in `function_directs`, the callee is a
signature in scope, hence an allocated function id — the facts keep the invariant `SumInv`: every
function-level callee is a function id, and every statement-level callee is a function-level callee of
the statement's function.  Those are the two hypotheses of `sumOkB_of`.

The history of primitives is refined for this (`PrimSC`): the three records of a call are ONE step that
carries its context as hypotheses about the facts before it.
-/
namespace NaijaVerif.ResolveStruct
open NaijaVerif NaijaVerif.Resolve NaijaVerif.ResolveFacts NaijaVerif.Analysis NaijaVerif.C03

/-- The three records of one user call. -/
def recCall (f : Facts) (o sid g : Nat) : Facts := recStmtCallee (recUserCall (recDirectCallee f o g) o g) sid g

inductive PrimSC : Facts → Facts → Prop
  | recStmtRead (f : Facts) (o s i : Nat) : PrimSC f (recStmtRead f o s i)
  | recStmtWrite (f : Facts) (o s i : Nat) : PrimSC f (recStmtWrite f o s i)
  | joinClass (f : Facts) (s : Nat) (c : ExprClass) : PrimSC f (joinClass f s c)
  | recCapRead (f : Facts) (o i : Nat) : PrimSC f (recCapRead f o i)
  | recCapWrite (f : Facts) (o i : Nat) : PrimSC f (recCapWrite f o i)
  | pushStmt (f : Facts) (o s : Nat) : PrimSC f (pushStmt f o s)
  | pushLocal (f : Facts) (sl : Bool) (name : Bytes) (o s : Nat) (d : Option Nat) (k : LocalKind) :
      PrimSC f (pushLocal f sl name o s d k)
  | pushScope (f : Facts) (p : Option Nat) (o : Nat) : PrimSC f (pushScope f p o)
  | pushFunction (f : Facts) (name : Bytes) (np parent scope : Nat) : PrimSC f (pushFunction f name np parent scope)
  | setRootScope (f : Facts) (s : Nat) : PrimSC f (setRootScope f s)
  | setDefStmt (f : Facts) (fn sid : Nat) : PrimSC f (setDefStmt f fn sid)
  /-- a user call, with its context -/
  | call (f : Facts) (o sid g : Nat) (hg : g < f.functionDirects.length)
      (hsid : ∃ sc, (sImm f)[sid]? = some (o, sc)) (ho : o < f.functionDirects.length) : PrimSC f (recCall f o sid g)

abbrev StepsC := Steps PrimSC

/-- A step of the refined history is a history of plain primitives. -/
theorem primSC_steps {f g : Facts} (h : PrimSC f g) : StepsS f g := by
  cases h with
  | recStmtRead o s i => exact .one (.e (.recStmtRead f o s i))
  | recStmtWrite o s i => exact .one (.e (.recStmtWrite f o s i))
  | joinClass s c => exact .one (.e (.joinClass f s c))
  | recCapRead o i => exact .one (.e (.recCapRead f o i))
  | recCapWrite o i => exact .one (.e (.recCapWrite f o i))
  | pushStmt o s => exact .one (.pushStmt f o s)
  | pushLocal sl name o s d k => exact .one (.pushLocal f sl name o s d k)
  | pushScope p o => exact .one (.pushScope f p o)
  | pushFunction name np parent scope => exact .one (.pushFunction f name np parent scope)
  | setRootScope s => exact .one (.setRootScope f s)
  | setDefStmt fn sid => exact .one (.setDefStmt f fn sid)
  | call o sid g _ _ _ =>
    exact .step (.e (.recDirectCallee f o g)) (.step (.e (.recUserCall _ o g)) (.one (.e (.recStmtCallee _ sid g))))

theorem Steps.preC {f g : Facts} (h : Steps PrimSC f g) : Pre f g :=
  Steps.rel Pre.refl (fun _ _ _ => Pre.trans) (fun _ _ hp => (primSC_steps hp).pre) h

/-! ### The context -/

/-- Every signature in scope has an entry in `function_directs`. -/
def SigsDir (f : Facts) (fns : List (List FnSig)) : Prop := ∀ s ∈ fns, ∀ g ∈ s, g.id < f.functionDirects.length

theorem SigsDir.mono {f g : Facts} {fns : List (List FnSig)} (h : SigsDir f fns) (hp : Pre f g) : SigsDir g fns :=
  fun s hs x hx => Nat.lt_of_lt_of_le (h s hs x hx) hp.ndir

theorem SigsDir.lookup {f : Facts} {env : Env} (h : SigsDir f env.fns) {x : Bytes} {g : FnSig}
    (hl : lookupFn env x = some g) : g.id < f.functionDirects.length := by
  obtain ⟨s, hs, hg⟩ := lookupFns_mem hl
  exact h s hs g hg

/-- The context of an expression of statement `sid`. -/
structure ECx (env : Env) (sid : Nat) (f : Facts) : Prop where
  sigs : SigsDir f env.fns
  stmt : ∃ sc, (sImm f)[sid]? = some (env.owner, sc)
  owner : env.owner < f.functionDirects.length

theorem ECx.mono {env : Env} {sid : Nat} {f g : Facts} (h : ECx env sid f) (hp : Pre f g) : ECx env sid g := by
  obtain ⟨sc, hsc⟩ := h.stmt
  exact ⟨h.sigs.mono hp, ⟨sc, hp.stmt hsc⟩, Nat.lt_of_lt_of_le h.owner hp.ndir⟩

theorem recUse_stepsC (f : Facts) (o s i : Nat) : StepsC f (recUse f o s i) :=
  .step (.recStmtRead f o s i) (.one (.recCapRead _ o i))

theorem recReadWrite_stepsC (f : Facts) (o s i : Nat) : StepsC f (recReadWrite f o s i) :=
  .step (.recStmtRead f o s i) (.step (.recStmtWrite _ o s i) (.step (.recCapRead _ o i) (.one (.recCapWrite _ o i))))

theorem checkSegs_stepsC (env : Env) (cur : Scope) (sid : Nat) (span : Span) :
    ∀ (segs : List Seg) (f : Facts), StepsC f (checkSegs env cur sid span segs f).facts
  | [], f => .refl f
  | .lit _ :: rest, f => by simp only [checkSegs]; exact checkSegs_stepsC env cur sid span rest f
  | .var n _ :: rest, f => by
      simp only [checkSegs]
      split
      · exact (recUse_stepsC f _ _ _).trans (checkSegs_stepsC env cur sid span rest _)
      · exact checkSegs_stepsC env cur sid span rest f

theorem checkMethod_stepsC (env : Env) (cur : Scope) (sid : Nat) (rt : VType) (obj : Expr) (field : Bytes)
    (args : List Expr) (ms : Span) (f : Facts) :
    StepsC f (checkMethod env cur sid rt obj field args ms f).2 := by
  unfold checkMethod
  split
  · simp only
    split
    · split
      · exact recReadWrite_stepsC f _ _ _
      · exact .refl f
    · exact .refl f
  · exact .refl f

/-! ### Expressions -/

mutual
  theorem checkExpr_stepsC (env : Env) (cur : Scope) (sid : Nat) :
      ∀ (e : Expr) (f : Facts), ECx env sid f → StepsC f (checkExpr env cur sid e f).facts
    | .num _ _, f, _ => by simp only [checkExpr]; exact .refl f
    | .bool _ _, f, _ => by simp only [checkExpr]; exact .refl f
    | .null _, f, _ => by simp only [checkExpr]; exact .refl f
    | .str (.static _) _, f, _ => by simp only [checkExpr]; exact .refl f
    | .str (.interp segs) s, f, _ => by simp only [checkExpr]; exact checkSegs_stepsC env cur sid s segs f
    | .array es _, f, h => by simp only [checkExpr]; exact checkExprs_stepsC env cur sid es f h
    | .index a i _ _, f, h => by
        simp only [checkExpr]
        have h1 := checkExpr_stepsC env cur sid a f h
        exact h1.trans (checkExpr_stepsC env cur sid i _ (h.mono h1.preC))
    | .var v _ s, f, _ => by
        simp only [checkExpr]
        split
        · exact recUse_stepsC f _ _ _
        · exact .refl f
    | .binary _ l r _, f, h => by
        simp only [checkExpr]
        have h1 := checkExpr_stepsC env cur sid l f h
        exact h1.trans (checkExpr_stepsC env cur sid r _ (h.mono h1.preC))
    | .unary _ e _, f, h => by simp only [checkExpr]; exact checkExpr_stepsC env cur sid e f h
    | .member o _ _ _, f, h => by simp only [checkExpr]; exact checkExpr_stepsC env cur sid o f h
    | .call callee args fn s, f, h => by
        have hc := checkExpr_stepsC env cur sid callee
        cases callee with
        | var fname vb vs =>
          cases hg : GlobalB.ofName fname with
          | some g => simp only [checkExpr, hg]; exact checkExprs_stepsC env cur sid args f h
          | none =>
            cases hl : lookupFn env fname with
            | some g =>
              simp only [checkExpr, hg, hl]
              have h1 : StepsC f (recCall f env.owner sid g.id) := .one (.call f env.owner sid g.id (h.sigs.lookup hl) h.stmt h.owner)
              exact h1.trans (checkExprs_stepsC env cur sid args _ (h.mono h1.preC))
            | none => simp only [checkExpr, hg, hl]; exact checkExprs_stepsC env cur sid args f h
        | member obj field fs ms =>
          have h1 := checkExpr_stepsC env cur sid obj f h
          cases hi : inferExpr env cur obj with
          | none =>
            simp only [checkExpr, hi]
            exact h1.trans (checkExprs_stepsC env cur sid args _ (h.mono h1.preC))
          | some rt =>
            simp only [checkExpr, hi]
            have h2 := h1.trans (checkMethod_stepsC env cur sid rt obj field args ms _)
            exact h2.trans (checkExprs_stepsC env cur sid args _ (h.mono h2.preC))
        | num _ _ => rw [checkExpr_call_other _ _ _ _ _ _ _ _ rfl]; exact (hc f h).trans (checkExprs_stepsC env cur sid args _ (h.mono (hc f h).preC))
        | bool _ _ => rw [checkExpr_call_other _ _ _ _ _ _ _ _ rfl]; exact (hc f h).trans (checkExprs_stepsC env cur sid args _ (h.mono (hc f h).preC))
        | null _ => rw [checkExpr_call_other _ _ _ _ _ _ _ _ rfl]; exact (hc f h).trans (checkExprs_stepsC env cur sid args _ (h.mono (hc f h).preC))
        | str _ _ => rw [checkExpr_call_other _ _ _ _ _ _ _ _ rfl]; exact (hc f h).trans (checkExprs_stepsC env cur sid args _ (h.mono (hc f h).preC))
        | array _ _ => rw [checkExpr_call_other _ _ _ _ _ _ _ _ rfl]; exact (hc f h).trans (checkExprs_stepsC env cur sid args _ (h.mono (hc f h).preC))
        | index _ _ _ _ => rw [checkExpr_call_other _ _ _ _ _ _ _ _ rfl]; exact (hc f h).trans (checkExprs_stepsC env cur sid args _ (h.mono (hc f h).preC))
        | binary _ _ _ _ => rw [checkExpr_call_other _ _ _ _ _ _ _ _ rfl]; exact (hc f h).trans (checkExprs_stepsC env cur sid args _ (h.mono (hc f h).preC))
        | unary _ _ _ => rw [checkExpr_call_other _ _ _ _ _ _ _ _ rfl]; exact (hc f h).trans (checkExprs_stepsC env cur sid args _ (h.mono (hc f h).preC))
        | call _ _ _ _ => rw [checkExpr_call_other _ _ _ _ _ _ _ _ rfl]; exact (hc f h).trans (checkExprs_stepsC env cur sid args _ (h.mono (hc f h).preC))
  theorem checkExprs_stepsC (env : Env) (cur : Scope) (sid : Nat) :
      ∀ (es : List Expr) (f : Facts), ECx env sid f → StepsC f (checkExprs env cur sid es f).facts
    | [], f, _ => .refl f
    | e :: es, f, h => by
        simp only [checkExprs]
        have h1 := checkExpr_stepsC env cur sid e f h
        exact h1.trans (checkExprs_stepsC env cur sid es _ (h.mono h1.preC))
end

/-! ### Statements and blocks -/

/-- `function_directs` and `functions` grow together. -/
def FD (f : Facts) : Prop := f.functionDirects.length = f.functions.length

theorem primSC_fd {f g : Facts} (h : PrimSC f g) (hf : FD f) : FD g := by
  have key : ∀ {a b : Facts}, LenE a b → FD a → FD b := fun hl ha => by
    unfold FD at ha ⊢; rw [hl.directs, hl.functions, ha]
  cases h with
  | recStmtRead o s i => exact key (primE_lenE (.recStmtRead f o s i)) hf
  | recStmtWrite o s i => exact key (primE_lenE (.recStmtWrite f o s i)) hf
  | joinClass s c => exact key (primE_lenE (.joinClass f s c)) hf
  | recCapRead o i => exact key (primE_lenE (.recCapRead f o i)) hf
  | recCapWrite o i => exact key (primE_lenE (.recCapWrite f o i)) hf
  | pushStmt o s => exact hf
  | pushLocal sl name o s d k => unfold FD at hf ⊢; simp [pushLocal, modifyAt_length, hf]
  | pushScope p o => exact hf
  | pushFunction name np parent scope => unfold FD at hf ⊢; simp [pushFunction, hf]
  | setRootScope s => unfold FD at hf ⊢; simp [setRootScope, modifyAt_length, hf]
  | setDefStmt fn sid => unfold FD at hf ⊢; simp [setDefStmt, modifyAt_length, hf]
  | call o sid g _ _ _ =>
    unfold FD at hf ⊢
    simp [recCall, recStmtCallee, recUserCall, Resolve.recDirectCallee, modifyAt_length, hf]

/-- The context of a statement. -/
structure TCx (env : Env) (f : Facts) : Prop where
  sigs : SigsDir f env.fns
  owner : env.owner < f.functionDirects.length
  fd : FD f

theorem TCx.mono {env : Env} {f g : Facts} (h : TCx env f) (hs : Steps PrimSC f g) : TCx env g :=
  ⟨h.sigs.mono hs.preC, Nat.lt_of_lt_of_le h.owner hs.preC.ndir, Steps.inv (I := FD) (fun _ _ hp => primSC_fd hp) hs h.fd⟩

theorem TCx.congr {env env' : Env} {f : Facts} (h : TCx env f) (h1 : env'.fns = env.fns) (h2 : env'.owner = env.owner) :
    TCx env' f := ⟨by unfold SigsDir; rw [h1]; exact h.sigs, by rw [h2]; exact h.owner, h.fd⟩

theorem sImm_pushStmt (f : Facts) (o s : Nat) : (sImm (pushStmt f o s))[f.stmtEffects.length]? = some (o, s) := by
  simp [sImm, pushStmt]

theorem ecx_of {env : Env} {f0 f : Facts} (h : TCx env f0) (hs : Steps PrimSC (pushStmt f0 env.owner env.scope) f) :
    ECx env f0.stmtEffects.length f :=
  ⟨(h.sigs.mono (primS_pre (.pushStmt f0 env.owner env.scope))).mono hs.preC,
   ⟨env.scope, hs.preC.stmt (sImm_pushStmt f0 env.owner env.scope)⟩,
   Nat.lt_of_lt_of_le h.owner hs.preC.ndir⟩

theorem joinClass_stepsC (f : Facts) (s : Nat) (c : ExprClass) : StepsC f (joinClass f s c) := .one (.joinClass f s c)

theorem declareParams_stepsC (sl : Bool) (owner scope : Nat) : ∀ (ps : List Param) (sc : Scope) (f : Facts),
    StepsC f (declareParams sl owner scope ps sc f).2.2
  | [], _, f => .refl f
  | p :: ps, sc, f => by
      simp only [declareParams]
      exact .step (.pushLocal f sl p.name owner scope none .parameter) (declareParams_stepsC sl owner scope ps _ _)

theorem predeclare_stepsC (env : Env) : ∀ (ss : List Stmt) (sigs : List FnSig) (f : Facts),
    StepsC f (predeclare env ss sigs f).facts
  | [], _, f => .refl f
  | .fnDef name nsp ps body _ _ _ :: rest, sigs, f => by
      simp only [predeclare]
      split
      · exact predeclare_stepsC env rest sigs f
      · exact .step (.pushFunction f name ps.length env.owner env.scope) (predeclare_stepsC env rest _ _)
  | .assign .. :: rest, sigs, f => by simp only [predeclare]; exact predeclare_stepsC env rest sigs f
  | .assignExisting .. :: rest, sigs, f => by simp only [predeclare]; exact predeclare_stepsC env rest sigs f
  | .assignIndex .. :: rest, sigs, f => by simp only [predeclare]; exact predeclare_stepsC env rest sigs f
  | .ifS .. :: rest, sigs, f => by simp only [predeclare]; exact predeclare_stepsC env rest sigs f
  | .loop .. :: rest, sigs, f => by simp only [predeclare]; exact predeclare_stepsC env rest sigs f
  | .block .. :: rest, sigs, f => by simp only [predeclare]; exact predeclare_stepsC env rest sigs f
  | .ret .. :: rest, sigs, f => by simp only [predeclare]; exact predeclare_stepsC env rest sigs f
  | .brk .. :: rest, sigs, f => by simp only [predeclare]; exact predeclare_stepsC env rest sigs f
  | .cont .. :: rest, sigs, f => by simp only [predeclare]; exact predeclare_stepsC env rest sigs f
  | .expr .. :: rest, sigs, f => by simp only [predeclare]; exact predeclare_stepsC env rest sigs f

theorem blkF2_stepsC (env : Env) (parent : Option Nat) (f : Facts) : StepsC f (blkF2 env parent f) := by
  unfold blkF2; split
  · exact .step (.pushScope f parent env.owner) (.one (.setRootScope _ _))
  · exact .one (.pushScope f parent env.owner)

theorem sigOf_mem {env : Env} {cur : Cur} {name : Bytes} {g : FnSig} (h : sigOf env cur name = some g) :
    ∃ own rest, env.fns = own :: rest ∧ g ∈ own := by
  unfold sigOf at h
  split at h
  · cases h
  · split at h
    · next own rest heq => exact ⟨own, rest, heq, findFn_mem h⟩
    · cases h

mutual
  theorem checkStmt_stepsC' (env : Env) (cur : Cur) :
      ∀ (s : Stmt) (f : Facts), TCx env f → StepsC (pushStmt f env.owner env.scope) (checkStmt env cur s f).facts
    | .assign x xs e _ _ sp, f, h => by
        simp only [checkStmt]
        have h1 := (checkExpr_stepsC env cur.vars f.stmtEffects.length e (pushStmt f env.owner env.scope)
          (ecx_of h (.refl _))).trans
          (joinClass_stepsC _ f.stmtEffects.length
            (classifyExpr env cur.vars (checkExpr env cur.vars f.stmtEffects.length e (pushStmt f env.owner env.scope)).facts e))
        split
        · exact h1.trans (.one (.recStmtWrite _ _ _ _))
        · exact h1.trans (.step (.pushLocal _ _ _ _ _ _ _) (.one (.recStmtWrite _ _ _ _)))
    | .assignExisting x xs e _ _ sp, f, h => by
        simp only [checkStmt]
        split
        · next ent _ =>
          have h0 : StepsC (pushStmt f env.owner env.scope)
              (recCapWrite (recStmtWrite (pushStmt f env.owner env.scope) env.owner f.stmtEffects.length ent.id)
                env.owner ent.id) := .step (.recStmtWrite _ _ _ _) (.one (.recCapWrite _ _ _))
          exact h0.trans ((checkExpr_stepsC env cur.vars f.stmtEffects.length e _ (ecx_of h h0)).trans
            (joinClass_stepsC _ _ _))
        · exact (checkExpr_stepsC env cur.vars f.stmtEffects.length e _ (ecx_of h (.refl _))).trans (joinClass_stepsC _ _ _)
    | .assignIndex t e _ sp, f, h => by
        simp only [checkStmt]
        have h1 := checkExpr_stepsC env cur.vars f.stmtEffects.length t _ (ecx_of h (.refl _))
        have h2 := h1.trans (checkExpr_stepsC env cur.vars f.stmtEffects.length e _ (ecx_of h h1))
        refine h2.trans ?_
        split
        · exact (recReadWrite_stepsC _ _ _ _).trans (joinClass_stepsC _ _ _)
        · exact joinClass_stepsC _ _ _
    | .ifS c t e _ sp, f, h => by
        simp only [checkStmt]
        have h1 := (checkExpr_stepsC env cur.vars f.stmtEffects.length c _ (ecx_of h (.refl _))).trans
          (joinClass_stepsC _ f.stmtEffects.length (condClass env cur.vars
            (checkExpr env cur.vars f.stmtEffects.length c (pushStmt f env.owner env.scope)).facts c))
        have hc1 : TCx env _ := h.mono ((Steps.one (.pushStmt f env.owner env.scope)).trans h1)
        have h2 := checkBlock_stepsC { env with vars := cur.vars :: env.vars } (some env.scope) t _ (hc1.congr rfl rfl)
        have hc2 : TCx env _ := hc1.mono h2
        exact h1.trans (h2.trans (checkOptBlock_stepsC { env with vars := cur.vars :: env.vars } (some env.scope) e _
          (hc2.congr rfl rfl)))
    | .loop c b _ sp, f, h => by
        simp only [checkStmt]
        have h1 := (checkExpr_stepsC env cur.vars f.stmtEffects.length c _ (ecx_of h (.refl _))).trans
          (joinClass_stepsC _ f.stmtEffects.length (condClass env cur.vars
            (checkExpr env cur.vars f.stmtEffects.length c (pushStmt f env.owner env.scope)).facts c))
        have hc1 : TCx env _ := h.mono ((Steps.one (.pushStmt f env.owner env.scope)).trans h1)
        exact h1.trans (checkBlock_stepsC { env with vars := cur.vars :: env.vars, inLoop := env.inLoop + 1 }
          (some env.scope) b _ (hc1.congr rfl rfl))
    | .block b _ sp, f, h => by
        simp only [checkStmt]
        have hc1 : TCx env _ := h.mono (Steps.one (.pushStmt f env.owner env.scope))
        exact checkBlock_stepsC { env with vars := cur.vars :: env.vars } (some env.scope) b _ (hc1.congr rfl rfl)
    | .fnDef name nsp ps body a b sp, f, h => by
        rw [checkStmt_fnDef]
        cases hsig : sigOf env cur name with
        | none => simp only; exact joinClass_stepsC _ _ _
        | some g =>
          simp only
          have h1 : StepsC (pushStmt f env.owner env.scope) (fnPr env f g ps).2.2 :=
            (joinClass_stepsC (pushStmt f env.owner env.scope) f.stmtEffects.length .impure).trans
              (.step (.setDefStmt _ _ _) (.step (.pushScope _ _ _) (declareParams_stepsC _ _ _ _ _ _)))
          have hc1 : TCx env (fnPr env f g ps).2.2 := h.mono ((Steps.one (.pushStmt f env.owner env.scope)).trans h1)
          obtain ⟨own, rest, heq, hg⟩ := sigOf_mem hsig
          have hcB : TCx (fnEnvB env cur f g ps) (fnPr env f g ps).2.2 :=
            ⟨hc1.sigs, hc1.sigs own (by rw [heq]; exact List.mem_cons_self) g hg, hc1.fd⟩
          exact h1.trans (checkBlock_stepsC (fnEnvB env cur f g ps) (some (fnPscope f)) body _ hcB)
    | .ret e _ sp, f, h => by
        simp only [checkStmt]
        split
        · next e =>
          exact (checkExpr_stepsC env cur.vars f.stmtEffects.length e _ (ecx_of h (.refl _))).trans (joinClass_stepsC _ _ _)
        · exact joinClass_stepsC _ _ _
    | .brk _ sp, f, _ => by simp only [checkStmt]; exact .refl _
    | .cont _ sp, f, _ => by simp only [checkStmt]; exact .refl _
    | .expr e _ sp, f, h => by
        simp only [checkStmt]
        exact (checkExpr_stepsC env cur.vars f.stmtEffects.length e _ (ecx_of h (.refl _))).trans (joinClass_stepsC _ _ _)
  theorem checkStmts_stepsC (env : Env) :
      ∀ (ss : List Stmt) (cur : Cur) (f : Facts), TCx env f → StepsC f (checkStmts env cur ss f).facts
    | [], cur, f, _ => by simp only [checkStmts]; exact .refl f
    | s :: ss, cur, f, h => by
        simp only [checkStmts]
        have h1 := (Steps.one (.pushStmt f env.owner env.scope)).trans (checkStmt_stepsC' env cur s f h)
        exact h1.trans (checkStmts_stepsC env ss _ _ (h.mono h1))
  theorem checkBlock_stepsC (env : Env) (parent : Option Nat) :
      ∀ (b : Block) (f : Facts), TCx env f → StepsC f (checkBlock env parent b f).facts
    | .mk ss sp, f, h => by
        rw [checkBlock_mk]
        simp only
        have h1 : StepsC f (blkPre env parent ss f).facts :=
          (blkF2_stepsC env parent f).trans (predeclare_stepsC _ ss _ _)
        have hc1 := h.mono h1
        have hc2 : TCx (blkEnv2 env parent ss f) (blkPre env parent ss f).facts := by
          refine ⟨?_, hc1.owner, hc1.fd⟩
          intro s hs g hg
          simp only [blkEnv2, List.mem_cons] at hs
          rcases hs with rfl | hs
          · obtain ⟨g0, hg0, hkey⟩ := keys3_mem (retIter_keys3 _ _ _ _ _) hg
            have hid : g0.id = g.id := by
              have := congrArg (fun k => k.2.1) hkey; simpa [sigKey3] using this
            obtain ⟨_, _, hpsig⟩ := predeclare_grow (blkEnv1 env f) ss [] (blkF2 env parent f)
            rcases hpsig g0 hg0 with hm | ⟨_, hlt, _⟩
            · cases hm
            · rw [← hid, hc1.fd]; exact hlt
          · exact hc1.sigs s hs g hg
        exact h1.trans (checkStmts_stepsC (blkEnv2 env parent ss f) ss {} _ hc2)
  theorem checkOptBlock_stepsC (env : Env) (parent : Option Nat) :
      ∀ (b : Option Block) (f : Facts), TCx env f → StepsC f (checkOptBlock env parent b f).facts
    | none, f, _ => by simp only [checkOptBlock]; exact .refl f
    | some b, f, h => by simp only [checkOptBlock]; exact checkBlock_stepsC env parent b f h
end

theorem resolveWith_stepsC (spanLen : Bool) (q : Block) : StepsC rootFacts (resolveWith spanLen q).facts :=
  checkBlock_stepsC (rootEnv spanLen) none q rootFacts
    ⟨fun s hs => (by cases hs), (by simp [rootEnv, rootFacts]), rfl⟩

/-! ### The invariant -/

/-- Function-level direct callees of every `FunctionId` allocated so far. -/
def dkey (f : Facts) : List (List Nat) := f.functionDirects.map (·.directCallees)

/-- In terms of the two keys: every function-level callee is below the number of entries, and every
statement-level callee is a function-level callee of the statement's function. -/
def KInv (sk : List (Nat × List Nat)) (dk : List (List Nat)) : Prop :=
  (∀ l ∈ dk, ∀ h ∈ l, h < dk.length) ∧ (∀ p ∈ sk, ∀ g ∈ p.2, ∃ l, dk[p.1]? = some l ∧ g ∈ l)

def SumInv (f : Facts) : Prop := KInv (skey f) (dkey f)

theorem dkey_modify (f : Facts) (o : Nat) (g : FunctionDirect → FunctionDirect)
    (hg : ∀ d, (g d).directCallees = d.directCallees) :
    (modifyAt f.functionDirects o g).map (·.directCallees) = dkey f :=
  modifyAt_map_key _ g hg _ _

theorem dkey_of_lenE_cap {f : Facts} : ∀ (o i : Nat), dkey (recCapRead f o i) = dkey f ∧ dkey (recCapWrite f o i) = dkey f := by
  intro o i
  constructor
  · unfold recCapRead; split
    · rfl
    · split
      · rfl
      · simp only [dkey]; exact dkey_modify f o _ (fun _ => rfl)
  · unfold recCapWrite; split
    · rfl
    · split
      · rfl
      · simp only [dkey]; exact dkey_modify f o _ (fun _ => rfl)

theorem dkey_recStmtRead (f : Facts) (a b c : Nat) : dkey (recStmtRead f a b c) = dkey f := by
  unfold recStmtRead; split <;> rfl
theorem dkey_recStmtWrite (f : Facts) (a b c : Nat) : dkey (recStmtWrite f a b c) = dkey f := by
  unfold recStmtWrite; split <;> rfl

theorem KInv.push {sk : List (Nat × List Nat)} {dk : List (List Nat)} (h : KInv sk dk) (o : Nat) :
    KInv (sk ++ [(o, [])]) dk := by
  refine ⟨h.1, ?_⟩
  intro p hp g hg
  rcases List.mem_append.1 hp with hp | hp
  · exact h.2 p hp g hg
  · simp only [List.mem_singleton] at hp
    subst hp
    cases hg

theorem KInv.fn {sk : List (Nat × List Nat)} {dk : List (List Nat)} (h : KInv sk dk) : KInv sk (dk ++ [[]]) := by
  refine ⟨?_, ?_⟩
  · intro l hl x hx
    simp only [List.length_append, List.length_singleton]
    rcases List.mem_append.1 hl with hl | hl
    · have := h.1 l hl x hx; omega
    · simp only [List.mem_singleton] at hl
      subst hl
      cases hx
  · intro p hp g hg
    obtain ⟨l, hl, hgl⟩ := h.2 p hp g hg
    exact ⟨l, by rw [List.getElem?_append_left (List.getElem?_eq_some_iff.1 hl).1]; exact hl, hgl⟩

theorem KInv.call {sk : List (Nat × List Nat)} {dk : List (List Nat)} (h : KInv sk dk) {o sid g : Nat}
    (hg : g < dk.length) (ho : o < dk.length) (hsid : ∀ p, sk[sid]? = some p → p.1 = o) :
    KInv (modifyAt sk sid (fun p => (p.1, addNew p.2 g))) (modifyAt dk o (fun l => addNew l g)) := by
  have hdo : ∃ l0, dk[o]? = some l0 := ⟨dk[o], List.getElem?_eq_getElem ho⟩
  obtain ⟨l0, hl0⟩ := hdo
  have hdk : ∀ (j : Nat) (l : List Nat), dk[j]? = some l → ∀ x ∈ l, ∃ l', (modifyAt dk o (fun l => addNew l g))[j]? = some l' ∧ x ∈ l' := by
    intro j l hj x hx
    rw [getElem?_modifyAt]
    split
    · exact ⟨addNew l g, by simp [hj], mem_addNew.2 (Or.inl hx)⟩
    · exact ⟨l, hj, hx⟩
  refine ⟨?_, ?_⟩
  · intro l hl x hx
    rw [modifyAt_length]
    rcases mem_modifyAt hl with hl | ⟨a, ha, rfl⟩
    · exact h.1 l hl x hx
    · rcases mem_addNew.1 hx with hx | rfl
      · exact h.1 a ha x hx
      · exact hg
  · intro p hp x hx
    obtain ⟨j, hj⟩ := List.getElem?_of_mem hp
    rw [getElem?_modifyAt] at hj
    split at hj
    · next hjs =>
      subst hjs
      cases hsk : sk[j]? with
      | none => simp [hsk] at hj
      | some p0 =>
        simp only [hsk, Option.map_some, Option.some.injEq] at hj
        subst hj
        have hp0 := hsid p0 hsk
        rcases mem_addNew.1 hx with hx | rfl
        · obtain ⟨l, hl, hxl⟩ := h.2 p0 (List.mem_of_getElem? hsk) x hx
          exact hdk _ l hl x hxl
        · simp only
          rw [hp0]
          exact ⟨addNew l0 x, by rw [getElem?_modifyAt]; simp [hl0], mem_addNew.2 (Or.inr rfl)⟩
    · obtain ⟨l, hl, hxl⟩ := h.2 p (List.mem_of_getElem? hj) x hx
      exact hdk _ l hl x hxl

theorem skey_recCall (f : Facts) (o sid g : Nat) :
    skey (recCall f o sid g) = modifyAt (skey f) sid (fun p => (p.1, addNew p.2 g)) := by
  simp only [recCall, skey_recStmtCallee, skey_recUserCall, skey_recDirectCallee]

theorem dkey_recCall (f : Facts) (o sid g : Nat) :
    dkey (recCall f o sid g) = modifyAt (dkey f) o (fun l => addNew l g) := by
  simp only [recCall, recStmtCallee, recUserCall, Resolve.recDirectCallee, dkey]
  exact modifyAt_map (fun d : FunctionDirect => d.directCallees) _ (fun l => addNew l g) (fun _ => rfl) _ _

theorem primSC_sumInv {f g : Facts} (hp : PrimSC f g) (h : SumInv f) : SumInv g := by
  unfold SumInv at h ⊢
  cases hp with
  | recStmtRead o s i => rw [skey_recStmtRead, dkey_recStmtRead]; exact h
  | recStmtWrite o s i => rw [skey_recStmtWrite, dkey_recStmtWrite]; exact h
  | joinClass s c => rw [skey_joinClass]; exact h
  | recCapRead o i => rw [skey_recCapRead, (dkey_of_lenE_cap o i).1]; exact h
  | recCapWrite o i => rw [skey_recCapWrite, (dkey_of_lenE_cap o i).2]; exact h
  | pushStmt o s => rw [skey_pushStmt]; exact h.push o
  | pushLocal sl name o s d k => exact h
  | pushScope p o => exact h
  | pushFunction name np parent scope =>
    have : dkey (pushFunction f name np parent scope) = dkey f ++ [[]] := by simp [dkey, pushFunction]
    rw [skey_pushFunction, this]; exact h.fn
  | setRootScope s => exact h
  | setDefStmt fn sid => exact h
  | call o sid g hg hsid ho =>
    rw [skey_recCall, dkey_recCall]
    refine h.call (by simpa [dkey] using hg) (by simpa [dkey] using ho) ?_
    intro p hp
    obtain ⟨sc, hsc⟩ := hsid
    simp only [sImm, List.getElem?_map, Option.map_eq_some_iff] at hsc
    obtain ⟨e, he, heq⟩ := hsc
    simp only [skey, List.getElem?_map, he, Option.map_some, Option.some.injEq] at hp
    subst hp
    exact (Prod.mk.inj heq).1

theorem sumInv_root : SumInv rootFacts := by
  refine ⟨?_, ?_⟩
  · intro l hl x hx
    simp [dkey, rootFacts] at hl
    subst hl
    cases hx
  · intro p hp
    simp [skey, rootFacts] at hp

/-- **`sumOkB`** (conjunct of `globalOkB`) for the facts of every output of the resolver model. -/
theorem resolveWith_sumOk (spanLen : Bool) (q : Block) :
    sumOkB (mkCtx (resolveWith spanLen q).root (resolveWith spanLen q).facts) = true := by
  have hinv : SumInv (resolveWith spanLen q).facts :=
    Steps.inv (I := SumInv) (fun _ _ hp => primSC_sumInv hp) (resolveWith_stepsC spanLen q) sumInv_root
  have hfd : FD (resolveWith spanLen q).facts :=
    Steps.inv (I := FD) (fun _ _ hp => primSC_fd hp) (resolveWith_stepsC spanLen q) rfl
  have hdirect : ∀ g, (mkCtx (resolveWith spanLen q).root (resolveWith spanLen q).facts).direct g =
      match (resolveWith spanLen q).facts.functionDirects[g]? with
      | some d => d
      | none => { directCallees := [], captureReads := [], captureWrites := [] } := fun _ => rfl
  apply sumOkB_of
  · intro g x hx
    simp only [dcs, hdirect] at hx
    cases hd : (resolveWith spanLen q).facts.functionDirects[g]? with
    | none => simp [hd] at hx
    | some d =>
      simp only [hd] at hx
      have := hinv.1 d.directCallees (List.mem_map_of_mem (List.mem_of_getElem? hd)) x hx
      simp only [dkey, List.length_map] at this
      show x < (resolveWith spanLen q).facts.functions.length
      rw [← hfd]; exact this
  · intro sid g hg
    simp only [Ctx.callees, Ctx.eff?, mkCtx] at hg
    cases he : (resolveWith spanLen q).facts.stmtEffects[sid]? with
    | none => simp [he] at hg
    | some e =>
      simp only [he] at hg
      obtain ⟨l, hl, hgl⟩ := hinv.2 (e.function, e.directCallees)
        (List.mem_map_of_mem (f := fun e : StmtEffect => (e.function, e.directCallees)) (List.mem_of_getElem? he)) g hg
      simp only [dkey, List.getElem?_map, Option.map_eq_some_iff] at hl
      obtain ⟨d, hd, rfl⟩ := hl
      have hfn : (mkCtx (resolveWith spanLen q).root (resolveWith spanLen q).facts).fnOf sid = e.function := by
        simp [Ctx.fnOf, Ctx.eff?, mkCtx, he]
      simp only [dcs, hfn, hdirect, hd]
      exact hgl

end NaijaVerif.ResolveStruct
