import NaijaVerif.Lemmas.ResolveStructSteps
import NaijaVerif.Lemmas.BridgeReachNum
/-
The statement ids of the resolver model's output are the positions `0, 1, 2, …` in PRE-ORDER: every
statement takes `stmtEffects.length` as its id and pushes its entry before anything below it is
checked.  Hence the first conjunct of `C03.structOkB` — distinct statement ids — for EVERY input
program, and the facts "a statement later in its block, or nested in it, has a greater id" that the
position arguments about the model's tables rest on.
-/
namespace NaijaVerif.ResolveStruct
open NaijaVerif NaijaVerif.Resolve NaijaVerif.ResolveFacts NaijaVerif.Analysis NaijaVerif.Bridge

/-! ### The ids of a program, in the order of `Analysis.rows` -/

mutual
  def sidsS : Stmt → List Nat
    | .assign _ _ _ _ sid _ | .assignExisting _ _ _ _ sid _ | .assignIndex _ _ sid _ | .ret _ sid _
    | .brk sid _ | .cont sid _ | .expr _ sid _ => sid.toList
    | .ifS _ t e sid _ => sid.toList ++ sidsB t ++ sidsO e
    | .loop _ b sid _ => sid.toList ++ sidsB b
    | .block b sid _ => sid.toList ++ sidsB b
    | .fnDef _ _ _ body _ sid _ => sid.toList ++ sidsB body
  def sidsL : List Stmt → List Nat
    | [] => []
    | s :: ss => sidsS s ++ sidsL ss
  def sidsB : Block → List Nat
    | .mk ss _ => sidsL ss
  def sidsO : Option Block → List Nat
    | none => []
    | some b => sidsB b
end

theorem mkRow_sids (pl live : Bool) (s : Stmt) : (mkRow pl live s).map (·.sid) = s.sid.toList := by
  unfold mkRow
  cases s.sid <;> rfl

mutual
  theorem rowsStmt_sids : ∀ (s : Stmt) (pl live : Bool), (rowsStmt pl live s).map (·.sid) = sidsS s
    | .fnDef n ns ps (.mk body bs) f sid sp, pl, live => by
        simp only [rowsStmt, List.map_append, mkRow_sids, rowsStmts_sids body, sidsS, sidsB, Stmt.sid]
    | .ifS c (.mk t ts) none sid sp, pl, live => by
        simp only [rowsStmt, List.map_append, mkRow_sids, rowsStmts_sids t, sidsS, sidsB, sidsO, Stmt.sid,
          List.append_nil]
    | .ifS c (.mk t ts) (some (.mk e es)) sid sp, pl, live => by
        simp only [rowsStmt, List.map_append, mkRow_sids, rowsStmts_sids t, rowsStmts_sids e, sidsS, sidsB, sidsO,
          Stmt.sid]
    | .loop c (.mk b bs) sid sp, pl, live => by
        simp only [rowsStmt, List.map_append, mkRow_sids, rowsStmts_sids b, sidsS, sidsB, Stmt.sid]
    | .block (.mk b bs) sid sp, pl, live => by
        simp only [rowsStmt, List.map_append, mkRow_sids, rowsStmts_sids b, sidsS, sidsB, Stmt.sid]
    | .assign v vs e b sid sp, pl, live => by simp only [rowsStmt, mkRow_sids, sidsS, Stmt.sid]
    | .assignExisting v vs e b sid sp, pl, live => by simp only [rowsStmt, mkRow_sids, sidsS, Stmt.sid]
    | .assignIndex t e sid sp, pl, live => by simp only [rowsStmt, mkRow_sids, sidsS, Stmt.sid]
    | .ret e sid sp, pl, live => by simp only [rowsStmt, mkRow_sids, sidsS, Stmt.sid]
    | .brk sid sp, pl, live => by simp only [rowsStmt, mkRow_sids, sidsS, Stmt.sid]
    | .cont sid sp, pl, live => by simp only [rowsStmt, mkRow_sids, sidsS, Stmt.sid]
    | .expr e sid sp, pl, live => by simp only [rowsStmt, mkRow_sids, sidsS, Stmt.sid]
  theorem rowsStmts_sids : ∀ (ss : List Stmt) (pl live : Bool), (rowsStmts pl live ss).map (·.sid) = sidsL ss
    | [], _, _ => rfl
    | s :: ss, pl, live => by
        simp only [rowsStmts, List.map_append, rowsStmt_sids s, rowsStmts_sids ss, sidsL]
end

theorem rows_sids (root : Block) : (rows root).map (·.sid) = sidsB root := by
  cases root with
  | mk ss sp => exact rowsStmts_sids ss true true

/-! ### `stmtEffects.length` through the bookkeeping -/

theorem nS_of_skey {f g : Facts} (h : skey g = skey f) : g.stmtEffects.length = f.stmtEffects.length := by
  rw [← skey_length, ← skey_length, h]

@[simp] theorem nS_checkExpr (env : Env) (cur : Scope) (sid : Nat) (e : Expr) (f : Facts) :
    (checkExpr env cur sid e f).facts.stmtEffects.length = f.stmtEffects.length := (checkExpr_lenE env cur sid e f).stmts
@[simp] theorem nS_joinClass (f : Facts) (s : Nat) (c : ExprClass) :
    (joinClass f s c).stmtEffects.length = f.stmtEffects.length := nS_of_skey (by simp)
@[simp] theorem nS_recStmtWrite (f : Facts) (a b c : Nat) :
    (recStmtWrite f a b c).stmtEffects.length = f.stmtEffects.length := nS_of_skey (by simp)
@[simp] theorem nS_recCapWrite (f : Facts) (a b : Nat) :
    (recCapWrite f a b).stmtEffects.length = f.stmtEffects.length := nS_of_skey (by simp)
@[simp] theorem nS_recReadWrite (f : Facts) (a b c : Nat) :
    (recReadWrite f a b c).stmtEffects.length = f.stmtEffects.length := nS_of_skey (by simp)
@[simp] theorem nS_pushLocal (f : Facts) (sl : Bool) (name : Bytes) (o s : Nat) (d : Option Nat) (k : LocalKind) :
    (pushLocal f sl name o s d k).stmtEffects.length = f.stmtEffects.length := rfl
@[simp] theorem nS_pushScope (f : Facts) (p : Option Nat) (o : Nat) :
    (pushScope f p o).stmtEffects.length = f.stmtEffects.length := rfl
@[simp] theorem nS_setRootScope (f : Facts) (s : Nat) :
    (setRootScope f s).stmtEffects.length = f.stmtEffects.length := rfl
@[simp] theorem nS_setDefStmt (f : Facts) (fn sid : Nat) :
    (setDefStmt f fn sid).stmtEffects.length = f.stmtEffects.length := rfl
@[simp] theorem nS_declareParams (sl : Bool) (owner scope : Nat) (ps : List Param) (sc : Scope) (f : Facts) :
    (declareParams sl owner scope ps sc f).2.2.stmtEffects.length = f.stmtEffects.length :=
  nS_of_skey (declareParams_skey sl owner scope ps sc f)
@[simp] theorem nS_predeclare (env : Env) (ss : List Stmt) (sigs : List FnSig) (f : Facts) :
    (predeclare env ss sigs f).facts.stmtEffects.length = f.stmtEffects.length :=
  nS_of_skey (predeclare_skey env ss sigs f)

/-! ### The walk -/

/-- The ids below a piece of the output are `lo, lo+1, …, hi-1` where `lo` / `hi` is the number of
statement entries before / after the piece was checked. -/
def Span' (ids : List Nat) (f g : Facts) : Prop :=
  ∃ k, g.stmtEffects.length = f.stmtEffects.length + k ∧ ids = List.range' f.stmtEffects.length k

theorem Span'.one {f g : Facts} (h : g.stmtEffects.length = f.stmtEffects.length + 1) :
    Span' [f.stmtEffects.length] f g := ⟨1, h, rfl⟩

theorem Span'.nil (f : Facts) : Span' [] f f := ⟨0, rfl, rfl⟩

theorem Span'.append {a b : List Nat} {f g h : Facts} (h1 : Span' a f g) (h2 : Span' b g h) : Span' (a ++ b) f h := by
  obtain ⟨k, hk, rfl⟩ := h1
  obtain ⟨m, hm, rfl⟩ := h2
  refine ⟨k + m, by omega, ?_⟩
  rw [hk, List.range'_append_1]

/-- The facts before a piece may be replaced by facts with the same number of statement entries. -/
theorem Span'.congr_left {a : List Nat} {f f' g : Facts} (h : Span' a f' g)
    (he : f'.stmtEffects.length = f.stmtEffects.length) : Span' a f g := by
  obtain ⟨k, hk, rfl⟩ := h
  exact ⟨k, by omega, by rw [he]⟩

theorem Span'.congr_right {a : List Nat} {f g g' : Facts} (h : Span' a f g)
    (he : g'.stmtEffects.length = g.stmtEffects.length) : Span' a f g' := by
  obtain ⟨k, hk, rfl⟩ := h
  exact ⟨k, by omega, rfl⟩

/-- A statement: its own id first, then what is below it. -/
theorem Span'.head {b : List Nat} {f g h : Facts} (hg : g.stmtEffects.length = f.stmtEffects.length + 1)
    (h2 : Span' b g h) : Span' (f.stmtEffects.length :: b) f h :=
  Span'.append (a := [f.stmtEffects.length]) (Span'.one hg) h2

mutual
  theorem checkStmt_sids (env : Env) (cur : Cur) : ∀ (s : Stmt) (f : Facts),
      numStmt (checkStmt env cur s f).val = true →
      Span' (sidsS (checkStmt env cur s f).val) f (checkStmt env cur s f).facts
    | .assign x xs e _ _ sp, f, _ => by
        simp only [checkStmt]
        split <;> exact Span'.one (by simp)
    | .assignExisting x xs e _ _ sp, f, _ => by
        simp only [checkStmt]
        split <;> exact Span'.one (by simp)
    | .assignIndex t e _ sp, f, _ => by
        simp only [checkStmt]
        refine Span'.one ?_
        split <;> simp
    | .ifS c t e _ sp, f, hn => by
        simp only [checkStmt, numStmt, Bool.and_eq_true] at hn
        simp only [checkStmt, sidsS, Option.toList, List.cons_append, List.nil_append]
        refine Span'.head (g := joinClass (checkExpr env cur.vars f.stmtEffects.length c (pushStmt f env.owner env.scope)).facts
          f.stmtEffects.length (condClass env cur.vars
            (checkExpr env cur.vars f.stmtEffects.length c (pushStmt f env.owner env.scope)).facts c)) (by simp) ?_
        exact (checkBlock_sids _ _ t _ hn.1.2).append (checkOptBlock_sids _ _ e _ hn.2)
    | .loop c b _ sp, f, hn => by
        simp only [checkStmt, numStmt, Bool.and_eq_true] at hn
        simp only [checkStmt, sidsS, Option.toList, List.cons_append, List.nil_append]
        exact Span'.head (g := joinClass (checkExpr env cur.vars f.stmtEffects.length c (pushStmt f env.owner env.scope)).facts
          f.stmtEffects.length (condClass env cur.vars
            (checkExpr env cur.vars f.stmtEffects.length c (pushStmt f env.owner env.scope)).facts c)) (by simp)
          (checkBlock_sids _ _ b _ hn.2)
    | .block b _ sp, f, hn => by
        simp only [checkStmt, numStmt, Bool.and_eq_true] at hn
        simp only [checkStmt, sidsS, Option.toList, List.cons_append, List.nil_append]
        exact Span'.head (g := pushStmt f env.owner env.scope) (by simp) (checkBlock_sids _ _ b _ hn.2)
    | .fnDef name nsp ps body a b sp, f, hn => by
        rw [checkStmt_fnDef] at hn ⊢
        cases hsig : sigOf env cur name with
        | none => simp [hsig, numStmt] at hn
        | some g =>
          simp only [hsig, numStmt, Bool.and_eq_true] at hn
          simp only [hsig, sidsS, Option.toList, List.cons_append, List.nil_append]
          refine Span'.head (g := fnF1 env f) (by simp [fnF1]) ?_
          exact (checkBlock_sids _ _ body _ hn.2).congr_left (by simp [fnPr, fnF3, fnF1])
    | .ret e _ sp, f, _ => by
        simp only [checkStmt]
        split <;> exact Span'.one (by simp)
    | .brk _ sp, f, _ => by simp only [checkStmt]; exact Span'.one (by simp)
    | .cont _ sp, f, _ => by simp only [checkStmt]; exact Span'.one (by simp)
    | .expr e _ sp, f, _ => by
        simp only [checkStmt]
        exact Span'.one (by simp)
  theorem checkStmts_sids (env : Env) : ∀ (ss : List Stmt) (cur : Cur) (f : Facts),
      numStmts (checkStmts env cur ss f).val = true →
      Span' (sidsL (checkStmts env cur ss f).val) f (checkStmts env cur ss f).facts
    | [], cur, f, _ => by simp only [checkStmts, sidsL]; exact Span'.nil f
    | s :: ss, cur, f, hn => by
        simp only [checkStmts, numStmts, Bool.and_eq_true] at hn
        simp only [checkStmts, sidsL]
        exact (checkStmt_sids env cur s f hn.1).append (checkStmts_sids env ss _ _ hn.2)
  theorem checkBlock_sids (env : Env) (parent : Option Nat) : ∀ (b : Block) (f : Facts),
      numBlock (checkBlock env parent b f).val = true →
      Span' (sidsB (checkBlock env parent b f).val) f (checkBlock env parent b f).facts
    | .mk ss sp, f, hn => by
        simp only [checkBlock, numBlock] at hn
        simp only [checkBlock, sidsB]
        refine (checkStmts_sids _ ss _ _ hn).congr_left ?_
        split <;> simp
  theorem checkOptBlock_sids (env : Env) (parent : Option Nat) : ∀ (b : Option Block) (f : Facts),
      numOptBlock (checkOptBlock env parent b f).val = true →
      Span' (sidsO (checkOptBlock env parent b f).val) f (checkOptBlock env parent b f).facts
    | none, f, _ => by simp only [checkOptBlock, sidsO]; exact Span'.nil f
    | some b, f, hn => by
        simp only [checkOptBlock, numOptBlock] at hn
        simp only [checkOptBlock, sidsO]
        exact checkBlock_sids env parent b f hn
end

/-- **The statement ids of an accepted program are `0, 1, …, n-1` in pre-order**, `n` the number of
statement entries of the facts. -/
theorem resolveWith_sids (spanLen : Bool) (q : Block) (h : (resolveWith spanLen q).rdiags = []) :
    (rows (resolveWith spanLen q).root).map (·.sid) = List.range (resolveWith spanLen q).facts.stmtEffects.length := by
  rw [rows_sids]
  obtain ⟨k, hk, hs⟩ := checkBlock_sids (rootEnv spanLen) none q rootFacts (resolve_num spanLen q h)
  have h0 : rootFacts.stmtEffects.length = 0 := rfl
  rw [h0] at hk hs
  show sidsB (checkBlock (rootEnv spanLen) none q rootFacts).val = List.range (checkBlock (rootEnv spanLen) none q rootFacts).facts.stmtEffects.length
  rw [hs, hk, List.range_eq_range']
  simp

/-- **Distinct statement ids** (first conjunct of `structOkB`) for every accepted program. -/
theorem resolveWith_sidsDistinct (spanLen : Bool) (q : Block) (h : (resolveWith spanLen q).rdiags = []) :
    C03.SidsDistinct (resolveWith spanLen q).root := by
  unfold C03.SidsDistinct
  rw [resolveWith_sids spanLen q h]
  exact List.nodup_range

end NaijaVerif.ResolveStruct
