import NaijaVerif.Props.C06Accepted
import NaijaVerif.Lemmas.AnalysisBridge
import NaijaVerif.Lemmas.EvalFuel
/-
What `Pipeline.frontEnd` (lex → parse → resolve → limit preflight → analyses) hands to the runtime,
as a function of the caps: the annotated program and the facts never depend on the caps; the plan is
either the plan of the analysis model or none; the warnings are the passes' warnings or the one
resource-limit warning.  Used by the pipeline forms of C03 (`c03_pipeline`) and C18 (`c18_pipeline`).
-/
namespace NaijaVerif.PipelinePrune
open NaijaVerif NaijaVerif.Eval
open NaijaVerif.Props.C06Accepted (parsed)

/-- The warnings of the passes (unreachable code, unused assignment / variable / function). -/
def passWarnings (root : Block) (facts : Facts) : List Diag :=
  (Analysis.analyse root facts).warns.map Pipeline.warnDiag

/-- The plan the analysis model builds, as the runtime takes it. -/
def passPlan (root : Block) (facts : Facts) : Eval.Plan := C03.toEvalPlan (Analysis.planModel root facts)

theorem passPlan_eq (root : Block) (facts : Facts) : some (passPlan root facts) = Bridge.modelPlan root facts := rfl

/-- Did the limit preflight trip for this text under these caps? -/
def tripped (caps : Limits.Caps) (src : Bytes) : Bool :=
  match CfgCount.countProgram (Resolve.resolve (parsed src)).root (Resolve.resolve (parsed src)).facts with
  | none => false
  | some c => (Limits.firstExceeded caps c).isSome

/-- **Everything `frontEnd` produces, by cases on the preflight**: program and facts are the
resolver's (no caps in them), the resolver emitted no diagnostic, and
* below the limits: the plan is the analysis model's and the warnings are the passes';
* above a limit: no plan, and the one resource-limit warning on the program's span. -/
theorem frontEnd_shape {caps : Limits.Caps} {src : Bytes} {a : Pipeline.Accepted}
    (h : Pipeline.frontEnd caps src = .ok a) :
    a.root = (Resolve.resolve (parsed src)).root ∧ a.facts = (Resolve.resolve (parsed src)).facts ∧
    (Resolve.resolve (parsed src)).rdiags = [] ∧
    ((tripped caps src = false ∧ a.plan = some (passPlan a.root a.facts) ∧
        a.warnings = passWarnings a.root a.facts) ∨
     (tripped caps src = true ∧ a.plan = none ∧ a.warnings = [Limits.limitWarning (parsed src).span])) := by
  have hacc := (Props.C06Accepted.frontEnd_ok h).2
  have hrd := Props.C06Accepted.accepted_rdiags hacc
  have hd : (Resolve.resolve (parsed src)).diags = [] := hacc
  unfold Pipeline.frontEnd at h
  simp only at h
  split at h
  · cases h
  · split at h
    · cases h
    · have hd' : (Resolve.resolve (Parse.parseProgram (Lex.lex src).1).1).diags = [] := hd
      split at h
      · next hc =>
        cases h
        refine ⟨rfl, rfl, hrd, Or.inl ⟨?_, rfl, ?_⟩⟩
        · simp only [tripped, parsed, hc]
        · simp only [hd', List.nil_append]; rfl
      · next c hc =>
        cases h
        refine ⟨rfl, rfl, hrd, ?_⟩
        cases hf : Limits.firstExceeded caps c with
        | none =>
          refine Or.inl ⟨?_, ?_, ?_⟩
          · simp only [tripped, parsed, hc, hf]; rfl
          · simp only [Limits.emitAnalysis, hf]; rfl
          · simp only [Limits.emitAnalysis, hf, hd', List.nil_append]; rfl
        | some l =>
          refine Or.inr ⟨?_, ?_, ?_⟩
          · simp only [tripped, parsed, hc, hf]; rfl
          · simp only [Limits.emitAnalysis, hf]
          · simp only [Limits.emitAnalysis, hf, hd', List.nil_append]; rfl

/-- Whether a text is rejected, and with which diagnostics, does not depend on the caps. -/
theorem frontEnd_error_caps {caps : Limits.Caps} (caps' : Limits.Caps) {src : Bytes} {e : Bool × List Diag}
    (h : Pipeline.frontEnd caps src = .error e) : Pipeline.frontEnd caps' src = .error e := by
  unfold Pipeline.frontEnd at h ⊢
  simp only at h ⊢
  split at h
  · next h1 => rw [if_pos h1]; exact h
  · next h1 =>
    rw [if_neg h1]
    split at h
    · next h2 => rw [if_pos h2]; exact h
    · split at h <;> cases h

/-- A text accepted under some caps is accepted under all caps. -/
theorem frontEnd_ok_caps {caps : Limits.Caps} (caps' : Limits.Caps) {src : Bytes} {a : Pipeline.Accepted}
    (h : Pipeline.frontEnd caps src = .ok a) : ∃ a', Pipeline.frontEnd caps' src = .ok a' := by
  cases h' : Pipeline.frontEnd caps' src with
  | ok a' => exact ⟨a', rfl⟩
  | error e => rw [frontEnd_error_caps caps h'] at h; cases h

/-- The observation of an `Eval` run that ended is its observation for every larger fuel. -/
theorem evalObs_mono {N : Type} [NumOps N] (cfg : RunCfg) {f g : Nat} (hfg : f ≤ g) (prog : Block)
    {o : List (Value N) × Nat} (h : C03.evalObs (Eval.run (N := N) cfg f prog) = some o) :
    C03.evalObs (Eval.run (N := N) cfg g prog) = some o := by
  have hne : Eval.run (N := N) cfg f prog ≠ .fuelOut := by
    intro hf; rw [hf] at h; cases h
  rw [Eval.run_mono cfg hfg prog _ rfl hne]; exact h

/-- What a run of the whole pipeline shows: `none` for a rejected text and for a run cut short by its
fuel, else the printed values and the ending (`C03.evalObs`). -/
def ranObs {N : Type} : Pipeline.Result N → Option (List (Value N) × Nat)
  | .ran _ o => C03.evalObs o
  | _ => none

/-- The warnings a run of the pipeline printed before running. -/
def ranWarnings {N : Type} : Pipeline.Result N → Option (List Diag)
  | .ran w _ => some w
  | _ => none

theorem runSource_ok {N : Type} [NumOps N] {caps : Limits.Caps} (cfg : RunCfg) (fuel : Nat) {src : Bytes}
    {a : Pipeline.Accepted} (h : Pipeline.frontEnd caps src = .ok a) :
    Pipeline.runSource (N := N) caps cfg fuel src = .ran a.warnings (Eval.run { cfg with plan := a.plan } fuel a.root) := by
  unfold Pipeline.runSource
  rw [h]

/-- The run ended normally. -/
def endsOk {N : Type} : Outcome N → Bool
  | .ok _ => true
  | _ => false

theorem evalObs_endsOk {N : Type} {r : Outcome N} (h : endsOk r = true) : ∃ o, C03.evalObs r = some o ∧ o.2 = 0 := by
  cases r with
  | ok out => exact ⟨(out, 0), rfl, rfl⟩
  | _ => cases h

/-! ### A concrete text with a pruned store, and caps that trip on it -/

/-- `make x get 1  x get 2  x get 3  shout(x)`: the value stored by `x get 2` is never read. -/
def prunedText : Bytes := b!"make x get 1\nx get 2\nx get 3\nshout(x)"

/-- Caps nothing trips on … -/
def roomyCaps : Limits.Caps := Props.C06Accepted.roomyCaps

/-- … and caps under which the four statements of `prunedText` are one too many. -/
def tightCaps : Limits.Caps := { roomyCaps with maxStatements := 3 }

end NaijaVerif.PipelinePrune
