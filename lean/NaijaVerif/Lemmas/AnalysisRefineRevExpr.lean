import NaijaVerif.Lemmas.AnalysisRefineRevRel
/-
BRIDGE, converse direction, part 2: expressions other than calls.
-/
namespace NaijaVerif.C03
open NaijaVerif NaijaVerif.Analysis

variable {N : Type} [NumOps N] {B : Brg}

theorem rev_var (hB : B.Ok N) (name : Bytes) (b : Option Nat) (sp : Span) (s : Eval.State N) (t : AEval.St (VE N))
    (hok : okExpr B.o (.var name b sp) = true) (hs : B.Sim s t) (f : Nat) :
    Ev' B Eq (Eval.evalExpr B.rc (f + 1) (.var name b sp) s) (fun n => AEval.evalExpr B.P B.ac n (.var name b sp) t) := by
  apply Ev'.shift
  simp only [okExpr] at hok
  obtain ⟨l, rfl⟩ := Option.isSome_iff_exists.mp hok
  simp only [AEval.evalExpr, Eval.evalExpr, Option.bind_some, lookupVal_sim hB.lookup hs, P_dscope]
  cases AEval.lookupEnv B.ds l t.env with
  | some v => exact Ev'.const (RSim.ok rfl hs)
  | none =>
    refine Ev'.const (RSim.err ?_)
    simp only [Eval.trap, hB.panics, Bool.false_or]
    exact ⟨Or.inr ⟨rfl, rfl⟩, hs.out⟩

theorem rev_and (hB : B.Ok N) {f : Nat} (IH : SimAt' (N := N) B f) (l r : Expr) (sp : Span) (s : Eval.State N)
    (t : AEval.St (VE N)) (hok : okExpr B.o (.binary .and l r sp) = true) (hs : B.Sim s t)
    (hne : Eval.evalExpr B.rc (f + 1) (.binary .and l r sp) s ≠ .fuel) :
    Ev' B Eq (Eval.evalExpr B.rc (f + 1) (.binary .and l r sp) s)
      (fun n => AEval.evalExpr B.P B.ac n (.binary .and l r sp) t) := by
  apply Ev'.shift
  simp only [okExpr, Bool.and_eq_true] at hok
  generalize hr : Eval.evalExpr B.rc (f + 1) (.binary .and l r sp) s = res at hne ⊢
  simp only [Eval.evalExpr] at hr
  simp only [AEval.evalExpr]
  have ih1 := IH.expr l s t hok.1 hs
  ev'_sub (Eval.evalExpr B.rc f l s) as lv s1 t1 hs1 with ih1 hr hne
  simp only [P_falsy, P_logicShort_and, P_logicRhs]
  rcases Bool.eq_false_or_eq_true (Eval.andStops lv) with hst | hst
  · simp only [hst, ↓reduceIte] at hr ⊢
    subst hr
    exact Ev'.const (RSim.ok rfl hs1)
  · simp only [hst, Bool.false_eq_true, ↓reduceIte] at hr ⊢
    have ih2 := IH.expr r s1 t1 hok.2 hs1
    ev'_sub (Eval.evalExpr B.rc f r s1) as rv s2 t2 hs2 with ih2 hr hne
    subst hr
    exact Ev'.const (ofExcept_sim hB hs2 _ _)

theorem rev_or (hB : B.Ok N) {f : Nat} (IH : SimAt' (N := N) B f) (l r : Expr) (sp : Span) (s : Eval.State N)
    (t : AEval.St (VE N)) (hok : okExpr B.o (.binary .or l r sp) = true) (hs : B.Sim s t)
    (hne : Eval.evalExpr B.rc (f + 1) (.binary .or l r sp) s ≠ .fuel) :
    Ev' B Eq (Eval.evalExpr B.rc (f + 1) (.binary .or l r sp) s)
      (fun n => AEval.evalExpr B.P B.ac n (.binary .or l r sp) t) := by
  apply Ev'.shift
  simp only [okExpr, Bool.and_eq_true] at hok
  generalize hr : Eval.evalExpr B.rc (f + 1) (.binary .or l r sp) s = res at hne ⊢
  simp only [Eval.evalExpr] at hr
  simp only [AEval.evalExpr]
  have ih1 := IH.expr l s t hok.1 hs
  ev'_sub (Eval.evalExpr B.rc f l s) as lv s1 t1 hs1 with ih1 hr hne
  simp only [P_truthy, P_logicShort_or, P_logicRhs]
  rcases Bool.eq_false_or_eq_true (Eval.orStops lv) with hst | hst
  · simp only [hst, ↓reduceIte] at hr ⊢
    subst hr
    exact Ev'.const (RSim.ok rfl hs1)
  · simp only [hst, Bool.false_eq_true, ↓reduceIte] at hr ⊢
    have ih2 := IH.expr r s1 t1 hok.2 hs1
    ev'_sub (Eval.evalExpr B.rc f r s1) as rv s2 t2 hs2 with ih2 hr hne
    subst hr
    rw [← liftE_logicRhs_or]
    exact Ev'.const (ofExcept_sim hB hs2 _ _)

/-! ### Nodes without control flow -/

/-- A node without operands and without interpolated variables. -/
theorem rev_leaf (e : Expr) (s : Eval.State N) (t : AEval.St (VE N)) (f : Nat)
    (hint : AEval.interpIds e = [])
    (hun : ∀ n, AEval.evalExpr B.P B.ac (n + 1) e t = AEval.finishNode B.P e (AEval.evalList B.P B.ac n [] t))
    (r : Eval.Res N (VE N)) (hr : RSim B Eq ((nodeE e [], t) : AEval.R (VE N) (VE N)) r)
    (hE : Eval.evalExpr B.rc (f + 1) e s = r) :
    Ev' B Eq (Eval.evalExpr B.rc (f + 1) e s) (fun n => AEval.evalExpr B.P B.ac n e t) := by
  apply Ev'.shift
  apply Ev'.shift
  simp only [hun, AEval.evalList, AEval.finishNode, hint, AEval.readAll, P_node, List.append_nil, hE]
  exact Ev'.const hr

theorem rev_unary (hB : B.Ok N) {f : Nat} (IH : SimAt' (N := N) B f) (op : UnOp) (x : Expr) (sp : Span)
    (s : Eval.State N) (t : AEval.St (VE N)) (hok : okExpr B.o (.unary op x sp) = true) (hs : B.Sim s t)
    (hne : Eval.evalExpr B.rc (f + 1) (.unary op x sp) s ≠ .fuel) :
    Ev' B Eq (Eval.evalExpr B.rc (f + 1) (.unary op x sp) s)
      (fun n => AEval.evalExpr B.P B.ac n (.unary op x sp) t) := by
  apply Ev'.shift
  apply Ev'.shift
  apply Ev'.shift
  simp only [okExpr] at hok
  generalize hr : Eval.evalExpr B.rc (f + 1) (.unary op x sp) s = res at hne ⊢
  simp only [Eval.evalExpr] at hr
  simp only [AEval.evalExpr, AEval.children, AEval.evalList]
  have ih1 := fun h => Ev'.unshift (IH.expr x s t hok hs h)
  ev'_sub (Eval.evalExpr B.rc f x s) as v s1 t1 hs1 with ih1 hr hne
  subst hr
  simp only [AEval.finishNode, AEval.interpIds, AEval.readAll, P_node, nodeE, List.append_nil]
  exact Ev'.const (ofExcept_sim hB hs1 _ _)

theorem rev_arith (hB : B.Ok N) {f : Nat} (IH : SimAt' (N := N) B f) {op : BinOp} {o : Eval.ArithOp}
    (hop : Eval.ArithOp.ofBin op = some o) (l r : Expr) (sp : Span)
    (s : Eval.State N) (t : AEval.St (VE N)) (hok : okExpr B.o (.binary op l r sp) = true) (hs : B.Sim s t)
    (hne : Eval.evalExpr B.rc (f + 1) (.binary op l r sp) s ≠ .fuel) :
    Ev' B Eq (Eval.evalExpr B.rc (f + 1) (.binary op l r sp) s)
      (fun n => AEval.evalExpr B.P B.ac n (.binary op l r sp) t) := by
  apply Ev'.shift
  apply Ev'.shift
  apply Ev'.shift
  apply Ev'.shift
  simp only [okExpr, Bool.and_eq_true] at hok
  have hun : ∀ n, AEval.evalExpr B.P B.ac (n + 1) (.binary op l r sp) t =
      AEval.finishNode B.P (.binary op l r sp) (AEval.evalList B.P B.ac n [l, r] t) := by
    intro n
    cases op <;> first | (simp only [Eval.ArithOp.ofBin] at hop; cases hop; done) | simp only [AEval.evalExpr, AEval.children]
  generalize hr : Eval.evalExpr B.rc (f + 1) (.binary op l r sp) s = res at hne ⊢
  simp only [eval_arith B.rc _ hop] at hr
  simp only [hun, AEval.evalList]
  have ih1 := fun h => Ev'.unshift (Ev'.unshift (IH.expr l s t hok.1 hs h))
  ev'_sub (Eval.evalExpr B.rc f l s) as a s1 t1 hs1 with ih1 hr hne
  have ih2 := fun h => Ev'.unshift (IH.expr r s1 t1 hok.2 hs1 h)
  ev'_sub (Eval.evalExpr B.rc f r s1) as b s2 t2 hs2 with ih2 hr hne
  subst hr
  simp only [AEval.finishNode, AEval.interpIds, AEval.readAll, P_node, nodeE, List.append_nil, hop]
  exact Ev'.const (ofExcept_sim hB hs2 _ _)

theorem rev_index (hB : B.Ok N) {f : Nat} (IH : SimAt' (N := N) B f) (a i : Expr) (isp sp : Span)
    (s : Eval.State N) (t : AEval.St (VE N)) (hok : okExpr B.o (.index a i isp sp) = true) (hs : B.Sim s t)
    (hne : Eval.evalExpr B.rc (f + 1) (.index a i isp sp) s ≠ .fuel) :
    Ev' B Eq (Eval.evalExpr B.rc (f + 1) (.index a i isp sp) s)
      (fun n => AEval.evalExpr B.P B.ac n (.index a i isp sp) t) := by
  apply Ev'.shift
  apply Ev'.shift
  apply Ev'.shift
  apply Ev'.shift
  simp only [okExpr, Bool.and_eq_true] at hok
  generalize hr : Eval.evalExpr B.rc (f + 1) (.index a i isp sp) s = res at hne ⊢
  simp only [Eval.evalExpr] at hr
  simp only [AEval.evalExpr, AEval.children, AEval.evalList]
  have ih1 := fun h => Ev'.unshift (Ev'.unshift (IH.expr a s t hok.1 hs h))
  ev'_sub (Eval.evalExpr B.rc f a s) as av s1 t1 hs1 with ih1 hr hne
  have ih2 := fun h => Ev'.unshift (IH.expr i s1 t1 hok.2 hs1 h)
  ev'_sub (Eval.evalExpr B.rc f i s1) as iv s2 t2 hs2 with ih2 hr hne
  subst hr
  simp only [AEval.finishNode, AEval.interpIds, AEval.readAll, P_node, nodeE, List.append_nil]
  exact Ev'.const (ofExcept_sim hB hs2 _ _)

theorem rev_array {f : Nat} (IH : SimAt' (N := N) B f) (es : List Expr) (sp : Span)
    (s : Eval.State N) (t : AEval.St (VE N)) (hok : okExpr B.o (.array es sp) = true) (hs : B.Sim s t)
    (hne : Eval.evalExpr B.rc (f + 1) (.array es sp) s ≠ .fuel) :
    Ev' B Eq (Eval.evalExpr B.rc (f + 1) (.array es sp) s)
      (fun n => AEval.evalExpr B.P B.ac n (.array es sp) t) := by
  apply Ev'.shift
  simp only [okExpr] at hok
  generalize hr : Eval.evalExpr B.rc (f + 1) (.array es sp) s = res at hne ⊢
  simp only [Eval.evalExpr] at hr
  simp only [AEval.evalExpr, AEval.children]
  have ih1 := IH.sel es s t hok hs
  ev'_sub (Eval.evalSel B.rc f (es.map .ok) s) as vs s1 t1 hs1 with ih1 hr hne
  subst hr
  simp only [AEval.finishNode, AEval.interpIds, AEval.readAll, P_node, nodeE, List.append_nil]
  exact Ev'.const (RSim.ok rfl hs1)

theorem rev_interp (hB : B.Ok N) (segs : List Seg) (sp : Span) (s : Eval.State N) (t : AEval.St (VE N)) (f : Nat)
    (hok : okExpr B.o (.str (.interp segs) sp) = true) (hs : B.Sim s t) :
    Ev' B Eq (Eval.evalExpr B.rc (f + 1) (.str (.interp segs) sp) s)
      (fun n => AEval.evalExpr B.P B.ac n (.str (.interp segs) sp) t) := by
  apply Ev'.shift
  apply Ev'.shift
  simp only [okExpr] at hok
  simp only [AEval.evalExpr, AEval.children, AEval.evalList, Eval.evalExpr, AEval.finishNode, AEval.interpIds, P_dscope,
    interp_sim hB hs segs [] hok, P_node, List.nil_append]
  cases AEval.readAll B.ds t.env (AEval.segIds segs) with
  | none =>
    refine Ev'.const (RSim.err ?_)
    simp only [Option.map_none, Eval.trap, hB.panics, Bool.false_or]
    exact ⟨Or.inr ⟨rfl, rfl⟩, hs.out⟩
  | some rs => exact Ev'.const (RSim.ok rfl hs)

end NaijaVerif.C03
