import NaijaVerif.Lemmas.AnalysisRefineScope
import NaijaVerif.Lemmas.AnalysisBridge
/-
BRIDGE, part 6: the result relation of the refinement and its combinators.

`RSim` relates a result of the fragment (`Except Err α × St`) with a result of `Eval` (`Res`): equal
values in related states, or corresponding errors with equal output (an error of `Eval` leaves the
scopes in place, the fragment pops them: only the output is compared).  Fuel exhaustion is related to
nothing.  `Ev a F`: the `Eval` computation `F`, as a function of its fuel, is eventually constant at
a result related to `a` — the two evaluators count fuel differently, so every statement has the form
"for all sufficiently large fuel".
-/
namespace NaijaVerif.C03
open NaijaVerif NaijaVerif.Analysis

/-- The setting of the refinement: a configuration of `Eval`, the scope tables and the plan of the
fragment, the oracles of the static side conditions. -/
structure Brg where
  rc : Eval.RunCfg
  ds : Nat → Option Nat
  ss : Nat → Option Nat
  plan : Option Analysis.Plan
  o : Orc

variable {N : Type} [NumOps N]

/-- The primitive semantics of the fragment: `Eval`'s own steps. -/
def Brg.P (B : Brg) : AEval.Prims (VE N) := evalPrims B.rc B.ds B.ss
def Brg.ac (B : Brg) : AEval.Cfg := AEval.Cfg.ofPlan B.plan

abbrev Brg.Sim (B : Brg) (s : Eval.State N) (t : AEval.St (VE N)) : Prop := StSim B.o B.ds B.ac.dropFn s t

/-- `Eval` runs the current code (`panics = false`) with the declaring-scope lookup and the same plan. -/
structure Brg.Ok (N : Type) [NumOps N] (B : Brg) : Prop where
  lookup : B.rc.lookup = .dynamic
  panics : B.rc.panics = false
  plan : B.rc.plan = B.plan.map toEvalPlan
  orc : OrcOk N B.ds B.ss B.o

theorem Brg.Ok.skip {B : Brg} (h : B.Ok N) (i : Nat) : Eval.Plan.prunesStmt B.rc.plan (some i) = B.ac.skip i := by
  rw [h.plan]; cases hp : B.plan <;> simp [Brg.ac, hp, AEval.Cfg.ofPlan, Eval.Plan.prunesStmt, toEvalPlan]

theorem Brg.Ok.drop {B : Brg} (h : B.Ok N) (i : Nat) : Eval.Plan.prunesFn B.rc.plan (some i) = B.ac.dropFn i := by
  rw [h.plan]; cases hp : B.plan <;> simp [Brg.ac, hp, AEval.Cfg.ofPlan, Eval.Plan.prunesFn, toEvalPlan]

/-! ### Errors -/

def ErrSim {β : Type} (er : AEval.Err) (t' : AEval.St (VE N)) : Eval.Res N β → Prop
  | .err k _ s' => (er = .rt (rtCode k) ∨ (er = .unbound ∧ k = .undefinedVariable)) ∧ s'.out = t'.out.reverse
  | .panic _ s' => er = .panic ∧ s'.out = t'.out.reverse
  | .ok _ _ => False
  | .fuel => False

def RSim {α β : Type} (B : Brg) (vr : α → β → Prop) (a : AEval.R (VE N) α) (r : Eval.Res N β) : Prop :=
  match a.1 with
  | .ok x => ∃ y s', r = .ok y s' ∧ vr x y ∧ B.Sim s' a.2
  | .error er => ErrSim er a.2 r

def Ev {α β : Type} (B : Brg) (vr : α → β → Prop) (a : AEval.R (VE N) α) (F : Nat → Eval.Res N β) : Prop :=
  ∃ r f0, RSim B vr a r ∧ ∀ f, f0 ≤ f → F f = r

section
variable {α β γ δ : Type} {B : Brg}

theorem ErrSim.bind {er : AEval.Err} {t' : AEval.St (VE N)} {r : Eval.Res N β} (h : ErrSim er t' r)
    (k : β → Eval.State N → Eval.Res N δ) : ErrSim er t' (r.bind k) ∧ ∀ k', r.bind k' = r.bind k := by
  cases r with
  | ok _ _ => cases h
  | fuel => cases h
  | err kd sp s' => exact ⟨h, fun _ => rfl⟩
  | panic site s' => exact ⟨h, fun _ => rfl⟩

theorem Ev.shift {vr : α → β → Prop} {a : AEval.R (VE N) α} {F : Nat → Eval.Res N β}
    (h : Ev B vr a (fun f => F (f + 1))) : Ev B vr a F := by
  obtain ⟨r, f0, hr, hF⟩ := h
  refine ⟨r, f0 + 1, hr, fun f hf => ?_⟩
  obtain ⟨f', rfl⟩ : ∃ f', f = f' + 1 := ⟨f - 1, by omega⟩
  exact hF f' (by omega)

theorem Ev.const {vr : α → β → Prop} {a : AEval.R (VE N) α} {r : Eval.Res N β} (h : RSim B vr a r) :
    Ev B vr a (fun _ => r) := ⟨r, 0, h, fun _ _ => rfl⟩

theorem Ev.congr {vr : α → β → Prop} {a : AEval.R (VE N) α} {F G : Nat → Eval.Res N β}
    (h : Ev B vr a F) (hfg : ∀ f, G f = F f) : Ev B vr a G := by
  obtain ⟨r, f0, hr, hF⟩ := h
  exact ⟨r, f0, hr, fun f hf => by rw [hfg, hF f hf]⟩

/-- Sequencing, error branch: an error of the first computation is the error of the whole. -/
theorem Ev.bind_err {vr1 : α → β → Prop} {vr : γ → δ → Prop} {er : AEval.Err} {t1 : AEval.St (VE N)}
    {F1 : Nat → Eval.Res N β} {k : Nat → β → Eval.State N → Eval.Res N δ}
    (h : Ev B vr1 ((.error er, t1) : AEval.R (VE N) α) F1) :
    Ev B vr ((.error er, t1) : AEval.R (VE N) γ) (fun f => (F1 f).bind (k f)) := by
  obtain ⟨r, f0, hr, hF⟩ := h
  have hb := ErrSim.bind (show ErrSim er t1 r from hr) (k f0)
  refine ⟨r.bind (k f0), f0, hb.1, fun f hf => ?_⟩
  show (F1 f).bind (k f) = _
  rw [hF f hf]
  exact hb.2 _

/-- The same when the fragment also pops scopes on the way out (the output is what is compared). -/
theorem Ev.bind_err_out {vr1 : α → β → Prop} {vr : γ → δ → Prop} {er : AEval.Err} {t1 t1' : AEval.St (VE N)}
    {F1 : Nat → Eval.Res N β} {k : Nat → β → Eval.State N → Eval.Res N δ}
    (h : Ev B vr1 ((.error er, t1) : AEval.R (VE N) α) F1) (hout : t1'.out = t1.out) :
    Ev B vr ((.error er, t1') : AEval.R (VE N) γ) (fun f => (F1 f).bind (k f)) := by
  obtain ⟨r, f0, hr, hF⟩ := Ev.bind_err (vr := vr) (k := k) h
  refine ⟨r, f0, ?_, hF⟩
  have hr' : ErrSim er t1 r := hr
  show ErrSim er t1' r
  cases r with
  | ok _ _ => cases hr'
  | fuel => cases hr'
  | err kd sp s' => exact ⟨hr'.1, by rw [hout]; exact hr'.2⟩
  | panic site s' => exact ⟨hr'.1, by rw [hout]; exact hr'.2⟩

/-- Sequencing, value branch. -/
theorem Ev.bind_ok {vr1 : α → β → Prop} {vr : γ → δ → Prop} {x : α} {t1 : AEval.St (VE N)} {a : AEval.R (VE N) γ}
    {F1 : Nat → Eval.Res N β} {k : Nat → β → Eval.State N → Eval.Res N δ}
    (h : Ev B vr1 ((.ok x, t1) : AEval.R (VE N) α) F1)
    (hk : ∀ y s1, vr1 x y → B.Sim s1 t1 → Ev B vr a (fun f => k f y s1)) :
    Ev B vr a (fun f => (F1 f).bind (k f)) := by
  obtain ⟨r, f0, hr, hF⟩ := h
  obtain ⟨y, s1, rfl, hxy, hs⟩ := (show ∃ y s', r = .ok y s' ∧ vr1 x y ∧ B.Sim s' t1 from hr)
  obtain ⟨r2, f2, hr2, hF2⟩ := hk y s1 hxy hs
  refine ⟨r2, max f0 f2, hr2, fun f hf => ?_⟩
  show (F1 f).bind (k f) = _
  rw [hF f (by omega)]
  exact hF2 f (by omega)

/-- Both branches at once, for a fragment computation written as a `match` on the first result. -/
theorem Ev.bind {vr1 : α → β → Prop} {vr : γ → δ → Prop} {a1 : AEval.R (VE N) α} {a : AEval.R (VE N) γ}
    {K : α → AEval.St (VE N) → AEval.R (VE N) γ}
    {F1 : Nat → Eval.Res N β} {k : Nat → β → Eval.State N → Eval.Res N δ}
    (h : Ev B vr1 a1 F1)
    (hae : ∀ er t1, a1 = (.error er, t1) → a = (.error er, t1))
    (hao : ∀ x t1, a1 = (.ok x, t1) → a = K x t1)
    (hk : ∀ x t1, a1 = (.ok x, t1) → ∀ y s1, vr1 x y → B.Sim s1 t1 → Ev B vr (K x t1) (fun f => k f y s1)) :
    Ev B vr a (fun f => (F1 f).bind (k f)) := by
  obtain ⟨res, t1⟩ := a1
  cases res with
  | error er => rw [hae er t1 rfl]; exact Ev.bind_err h
  | ok x => rw [hao x t1 rfl]; exact Ev.bind_ok h (hk x t1 rfl)

/-! ### Pure steps -/

theorem trap_sim (hB : B.Ok N) {s : Eval.State N} {t : AEval.St (VE N)} (hout : s.out = t.out.reverse)
    (site : Eval.PanicSite) (sp : Span) :
    ErrSim (β := β) (siteErr site) t (Eval.trap B.rc site sp s) := by
  simp only [Eval.trap, hB.panics, Bool.false_or, siteErr]
  cases site.fixed with
  | true => exact ⟨Or.inl rfl, hout⟩
  | false => exact ⟨rfl, hout⟩

theorem fault_sim (hB : B.Ok N) {s : Eval.State N} {t : AEval.St (VE N)} (hout : s.out = t.out.reverse)
    (flt : Eval.Fault) (sp : Span) : ErrSim (β := β) (faultErr flt) t (Eval.Res.ofFault B.rc flt sp s) := by
  cases flt with
  | rt k sp' => exact ⟨Or.inl rfl, hout⟩
  | panic site => exact trap_sim hB hout site sp

/-- A pure step of `Eval` lifted into the fragment's error type. -/
theorem ofExcept_sim (hB : B.Ok N) {s : Eval.State N} {t : AEval.St (VE N)} (h : B.Sim s t)
    (x : Except Eval.Fault β) (sp : Span) :
    RSim B Eq ((liftE x, t) : AEval.R (VE N) β) (Eval.Res.ofExcept B.rc x sp s) := by
  cases x with
  | ok b => exact ⟨b, s, rfl, rfl, h⟩
  | error flt => exact fault_sim hB h.out flt sp

theorem RSim.ok {vr : α → β → Prop} {x : α} {y : β} {s : Eval.State N} {t : AEval.St (VE N)} (hv : vr x y)
    (h : B.Sim s t) : RSim B vr ((.ok x, t) : AEval.R (VE N) α) (.ok y s) := ⟨y, s, rfl, hv, h⟩

theorem RSim.err {vr : α → β → Prop} {er : AEval.Err} {r : Eval.Res N β} {t : AEval.St (VE N)} (h : ErrSim er t r) :
    RSim B vr ((.error er, t) : AEval.R (VE N) α) r := h

end

end NaijaVerif.C03
