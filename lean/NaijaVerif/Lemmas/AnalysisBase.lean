import NaijaVerif.Lemmas.AnalysisSim
/-
Facts about the analysis model shared by the C03 developments: distinct statement ids make the
reachability table functional, the root is body-reachable, unused functions are not, the decidable
closure check.
-/
namespace NaijaVerif.C03
open NaijaVerif NaijaVerif.Analysis NaijaVerif.AEval

/-- Statement ids are distinct (the resolver numbers statements consecutively; `wf` checks it). -/
def SidsDistinct (root : Block) : Prop := ((rows root).map (·.sid)).Nodup

theorem eq_of_nodup_map {α β : Type} {f : α → β} : ∀ {l : List α}, (l.map f).Nodup →
    ∀ a ∈ l, ∀ b ∈ l, f a = f b → a = b
  | [], _, a, ha, _, _, _ => by cases ha
  | x :: xs, h, a, ha, b, hb, hab => by
      simp only [List.map_cons, List.nodup_cons, List.mem_map, not_exists, not_and] at h
      rcases List.mem_cons.mp ha with rfl | ha' <;> rcases List.mem_cons.mp hb with rfl | hb'
      · rfl
      · exact absurd hab.symm (h.1 b hb')
      · exact absurd hab (h.1 a ha')
      · exact eq_of_nodup_map h.2 a ha' b hb' hab

/-- With distinct ids no statement is recorded both reachable and unreachable. -/
theorem tbl_functional {root : Block} (hd : SidsDistinct root) {i : Nat} (ht : (i, true) ∈ tbl root) :
    (i, false) ∉ tbl root := by
  intro hf
  simp only [tbl, List.mem_map] at ht hf
  obtain ⟨r1, h1, e1⟩ := ht
  obtain ⟨r2, h2, e2⟩ := hf
  have hs : r1.sid = r2.sid := by
    have a := congrArg Prod.fst e1
    have b := congrArg Prod.fst e2
    simp at a b
    omega
  have := eq_of_nodup_map hd r1 h1 r2 h2 hs
  subst this
  have a := congrArg Prod.snd e1
  have b := congrArg Prod.snd e2
  simp at a b
  rw [a] at b
  cases b


theorem inv_init (T : List (Nat × Bool)) (V : Type) : Inv T (St.init V) := by
  constructor
  · intro sc hsc fd hfd
    simp [St.init] at hsc
    subst hsc
    cases hfd
  · intro i hi
    simp [St.init] at hi


/-- The body-reachable set is closed under the calls of reachable statements (checked by `wf`:
`Analysis.brClosed`). -/
def BRClosed (root : Block) (facts : Facts) : Prop :=
  let c := mkCtx root facts
  ∀ i, (i, true) ∈ tbl root → c.bodyReachable.contains (c.fnOf i) = true →
    ∀ g ∈ c.callees i, c.bodyReachable.contains g = true

theorem mem_ins {x i : Nat} {s : List Nat} (h : i ∈ s) : i ∈ ins x s := by
  simp only [ins]; split
  · exact h
  · exact List.mem_cons_of_mem _ h

theorem mem_uni_right {i : Nat} (a b : List Nat) (h : i ∈ b) : i ∈ uni a b := by
  induction a with
  | nil => exact h
  | cons x xs ih => simp only [uni, List.foldr_cons]; exact mem_ins (by simpa [uni] using ih)

theorem mem_foldl_keep {α : Type} {i : Nat} (g : List Nat → α → List Nat) (hg : ∀ acc r, i ∈ acc → i ∈ g acc r) :
    ∀ (l : List α) (s : List Nat), i ∈ s → i ∈ l.foldl g s
  | [], _, h => h
  | r :: rs, s, h => mem_foldl_keep g hg rs (g s r) (hg s r h)

theorem root_bodyReachable (c : Ctx) : c.bodyReachable.contains 0 = true := by
  have step : ∀ s, 0 ∈ s → 0 ∈ c.bodyReachStep s := by
    intro s hs
    simp only [Ctx.bodyReachStep]
    refine mem_foldl_keep _ ?_ _ _ hs
    intro acc r h
    split
    · exact mem_uni_right _ _ h
    · exact h
  have it : ∀ n s, 0 ∈ s → 0 ∈ iter c.bodyReachStep n s := by
    intro n
    induction n with
    | zero => intro s h; exact h
    | succ n ih => intro s h; exact ih _ (step s h)
  have := it c.nFns [0] (by simp)
  simpa [Ctx.bodyReachable] using this

theorem unused_not_reachable (c : Ctx) {g : Nat} (h : g ∈ c.unusedFns.map (·.2)) :
    c.bodyReachable.contains g = false := by
  simp only [Ctx.unusedFns, List.mem_map, List.mem_filterMap] at h
  obtain ⟨p, ⟨x, _, hx⟩, rfl⟩ := h
  split at hx
  · cases hx
  · split at hx
    · split at hx
      · next hc =>
        simp only [Option.some.injEq] at hx
        subst hx
        simp only [Bool.and_eq_true, Bool.not_eq_true'] at hc
        simpa using hc.2
      · cases hx
    · cases hx


/-- The decidable closure check implies `BRClosed`. -/
theorem brClosed_of_check (root : Block) (facts : Facts) (h : (mkCtx root facts).brClosed = true) :
    BRClosed root facts := by
  intro i hi hf g hg
  simp only [Ctx.brClosed, List.all_eq_true, Bool.or_eq_true, Bool.not_eq_true', Bool.and_eq_false_iff] at h
  simp only [tbl, List.mem_map, Prod.mk.injEq] at hi
  obtain ⟨r, hr, hsid, hlive⟩ := hi
  have hrows : (mkCtx root facts).rows = rows root := rfl
  rcases h r (by rw [hrows]; exact hr) with h1 | h2
  · rcases h1 with h1 | h1
    · rw [hlive] at h1; cases h1
    · rw [hsid] at h1
      rw [h1] at hf
      cases hf
  · rw [hsid] at h2
    exact h2 g hg


theorem mem_unreachable {root : Block} {i : Nat} : i ∈ unreachable root ↔ (i, false) ∈ tbl root := by
  simp only [unreachable, tbl, List.mem_map, List.mem_filter]
  constructor
  · rintro ⟨r, ⟨hr, hl⟩, rfl⟩
    refine ⟨r, hr, ?_⟩
    cases h : r.live <;> simp_all
  · rintro ⟨r, hr, he⟩
    have a := congrArg Prod.fst he
    have b := congrArg Prod.snd he
    simp at a b
    exact ⟨r, ⟨hr, by simp [b]⟩, a⟩


end NaijaVerif.C03
