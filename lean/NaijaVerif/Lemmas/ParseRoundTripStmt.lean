import NaijaVerif.Lemmas.ParseRoundTrip
/-
Statement-level print / parse round trip: `parseProgram (programToks p b) = (b, [])` for every
canonical program `b` (`CanonBlock`): spans erased, no binding annotations, well-formed expressions,
a bare `return` only as the last statement of its block, expression statements and index-assignment
targets that start with their identifier (what `parse_statement` requires).  Uses the expression
round trip (`key_all`) for every embedded expression; the statement printer is in
`Model/ParsePrint.lean`.
-/
set_option linter.unusedSimpArgs false
namespace NaijaVerif.Parse
open NaijaVerif

/-! ### Tokens that may follow a statement -/

def stmtFollow : Tok → Bool
  | .do | .make | .ifToSay | .jasi | .start | .ret | .comot | .next | .end | .eof | .ident _ => true
  | _ => false

theorem follow_binInfo {t : Tok} (h : stmtFollow t = true) : binInfo t = none := by
  cases hb : binInfo t with
  | none => rfl
  | some q =>
    obtain ⟨o, l, r⟩ := q
    have h1 : (binRow o).1 = t := by rw [binInfo_row hb]
    rw [← h1] at h
    cases o <;> exact absurd h (by decide)

theorem follow_stops {t : Tok} (h : stmtFollow t = true) (k : Nat) : StopsAt k t := by
  refine ⟨fun _ => ?_, fun op l r hb => by rw [follow_binInfo h] at hb; cases hb⟩
  cases t <;> simp [stmtFollow] at h <;> simp [isPostfixStart]

theorem follow_ne {t : Tok} (h : stmtFollow t = true) :
    (t == .get) = false ∧ (t == .ifNotSo) = false ∧ (t == .comma) = false := by
  cases t <;> simp [stmtFollow] at h <;> simp

/-- First tokens of expressions. -/
def exprStart : Tok → Bool
  | .num _ | .str _ _ | .ident _ | .tru | .fals | .null | .not | .minus | .lparen | .lbracket => true
  | _ => false

def HeadIs (q : Tok → Bool) (ts : List Tok) : Prop := ∃ t r, ts = t :: r ∧ q t = true

theorem headIs_wrapN (n : Nat) : ∀ ts, HeadIs exprStart ts → HeadIs exprStart (wrapN n ts) := by
  induction n with
  | zero => intro ts h; exact h
  | succ n ih => intro ts _; exact ih _ ⟨.lparen, ts ++ [.rparen], rfl, rfl⟩

theorem headIs_wrap (p c e ts) (h : HeadIs exprStart ts) : HeadIs exprStart (wrap p c e ts) := by
  unfold wrap; split
  · exact headIs_wrapN _ _ ⟨.lparen, ts ++ [.rparen], rfl, rfl⟩
  · exact headIs_wrapN _ _ h

theorem headIs_append {q} {a : List Tok} (b : List Tok) (h : HeadIs q a) : HeadIs q (a ++ b) := by
  obtain ⟨t, r, rfl, h1⟩ := h; exact ⟨t, r ++ b, rfl, h1⟩

theorem unRow_exprStart (u : UnOp) : exprStart (unRow u).1 = true := by cases u <;> decide

theorem strTok_exprStart (parts : StrParts) : exprStart (strTok parts) = true := by
  cases parts <;> rfl

/-- Every printed expression starts with an expression-start token. -/
theorem printAt_head (p : Expr → Nat) : ∀ n e, esize e ≤ n → ∀ c, HeadIs exprStart (printAt p c e) := by
  intro n
  induction n with
  | zero => intro e h; have := esize_pos e; omega
  | succ n ih =>
    intro e hsz c
    cases e with
    | num l s => rw [printAt]; exact headIs_wrap _ _ _ _ ⟨_, _, rfl, rfl⟩
    | str parts s => rw [printAt]; exact headIs_wrap _ _ _ _ ⟨_, _, rfl, strTok_exprStart parts⟩
    | var nm b s => rw [printAt]; exact headIs_wrap _ _ _ _ ⟨_, _, rfl, rfl⟩
    | bool b s => rw [printAt]; exact headIs_wrap _ _ _ _ ⟨_, _, rfl, by cases b <;> rfl⟩
    | null s => rw [printAt]; exact headIs_wrap _ _ _ _ ⟨_, _, rfl, rfl⟩
    | unary op e1 s => rw [printAt]; exact headIs_wrap _ _ _ _ ⟨_, _, rfl, unRow_exprStart op⟩
    | binary op l r s =>
      simp only [esize] at hsz
      rw [printAt]; exact headIs_wrap _ _ _ _ (headIs_append _ (ih l (by omega) _))
    | member o fld fs s =>
      simp only [esize] at hsz
      rw [printAt]; exact headIs_wrap _ _ _ _ (headIs_append _ (ih o (by omega) _))
    | call cal args fn s =>
      simp only [esize] at hsz
      rw [printAt]; exact headIs_wrap _ _ _ _ (headIs_append _ (ih cal (by omega) _))
    | index a i is s =>
      simp only [esize] at hsz
      rw [printAt]; exact headIs_wrap _ _ _ _ (headIs_append _ (ih a (by omega) _))
    | array es s => rw [printAt]; exact headIs_wrap _ _ _ _ ⟨_, _, rfl, rfl⟩

theorem printAt_cur (p : Expr → Nat) (e : Expr) (c : Nat) (st : PState) :
    exprStart (pushToks (printAt p c e) st).cur.tok = true := by
  obtain ⟨t, r, h, ht⟩ := printAt_head p (esize e) e (Nat.le_refl _) c
  rw [h]; exact ht

/-! ### Parameters -/

def CanonParam (q : Param) : Prop := q.span = zspan ∧ q.bind = none

theorem paramStep_ident (nm : Bytes) (rest : List SpTok) (errs : List Diag) :
    paramStep ⟨mkTok (.ident nm), rest, errs⟩ =
      some ({ name := nm, span := zspan }, ⟨mkTok (.ident nm), rest, errs⟩) := rfl

theorem canonParam_eq {q : Param} (h : CanonParam q) : ({ name := q.name, span := zspan } : Param) = q := by
  obtain ⟨n, sp, b⟩ := q
  simp only [CanonParam] at h
  obtain ⟨rfl, rfl⟩ := h
  rfl

theorem paramStep_rparen (L : List SpTok) (errs : List Diag) :
    paramStep ⟨mkTok .rparen, L, errs⟩ = none := rfl

theorem paramToks_cons (r : Param) (ps : List Param) :
    ∃ X, paramToks (r :: ps) = .ident r.name :: X := by
  cases ps with
  | nil => exact ⟨[], rfl⟩
  | cons r' ps' => exact ⟨_, rfl⟩

theorem parseParams_print : ∀ (ps : List Param), (∀ q ∈ ps, CanonParam q) →
    ∀ (rest : List Tok) (st : PState),
    parseParams (pushToks (paramToks ps ++ .rparen :: rest) st) = (ps, pushToks (.rparen :: rest) st)
  | [], _, rest, st => by
    simp only [paramToks, List.nil_append, parseParams, pushToks]
    generalize rest.map mkTok ++ st.cur :: st.rest = L
    rcases L with _ | ⟨t, _ | ⟨u, us⟩⟩ <;> simp [paramsGo, paramStep_rparen]
  | [q], hc, rest, st => by
    have hq := canonParam_eq (hc q (by simp))
    simp only [paramToks, List.cons_append, List.nil_append, parseParams, pushToks, List.map_cons]
    generalize rest.map mkTok ++ st.cur :: st.rest = L
    rcases L with _ | ⟨u, us⟩
    · simp [paramsGo, paramStep_ident, PState.bump, hq]
    · simp [paramsGo, paramStep_ident, PState.bump, hq]
  | q :: r :: ps, hc, rest, st => by
    have hq := canonParam_eq (hc q (by simp))
    have ih := parseParams_print (r :: ps) (fun x hx => hc x (List.mem_cons_of_mem _ hx)) rest st
    obtain ⟨X, hX⟩ := paramToks_cons r ps
    simp only [paramToks, List.cons_append, parseParams, pushToks, List.map_cons, hX] at ih ⊢
    simp only [paramsGo, paramStep_ident, mkTok_tok, beq_self_eq_true, if_true, ih, hq]


/-! ### Expressions inside statements -/

theorem pushToks_span (ts : List Tok) (st : PState) (h : st.cur.span = zspan) :
    (pushToks ts st).cur.span = zspan := by
  cases ts with
  | nil => exact h
  | cons t r => rfl

/-- An expression printed at level 0 in front of a token at which every loop stops. -/
theorem expr_rt (p : Expr → Nat) (e : Expr) (hwf : WF e) (st : PState)
    (hstop : ∀ k, StopsAt k st.cur.tok) (hsp : st.cur.span = zspan) :
    ∃ f0, ∀ f, f0 ≤ f → parseExpr f 0 (pushToks (printAt p 0 e) st) = some (e, st) := by
  obtain ⟨f0, h⟩ := ((key_all p (esize e)).1 e (Nat.le_refl _) hwf).1 0 0 st 1 (e, st)
    (Nat.le_refl _) (Nat.zero_le _) (hstop 1) hsp (cont_stop' e (hstop 0) (Nat.zero_le _))
  exact ⟨f0, fun f hf => parseExpr_mono_le hf h⟩

/-- The identifier-led form: the statement parser has consumed the identifier and resumes the loop. -/
theorem cont_rt (p : Expr → Nat) (e : Expr) (hwf : WF e) (v : Bytes) (r : List Tok)
    (hpr : printAt p 0 e = .ident v :: r) (st : PState)
    (hstop : ∀ k, StopsAt k st.cur.tok) (hsp : st.cur.span = zspan) :
    ∃ f0, ∀ f, f0 ≤ f → parseCont f 0 (.var v none zspan) (pushToks r st) = some (e, st) := by
  obtain ⟨f0, h⟩ := expr_rt p e hwf st hstop hsp
  refine ⟨f0, fun f hf => ?_⟩
  have h1 := h (f + 1) (by omega)
  rw [hpr, parseExpr] at h1
  have ha : atomOf (mkTok (Tok.ident v)) = some (.var v none zspan) := rfl
  simp only [pushToks_cur, pushToks_bump, ha] at h1
  exact h1

theorem stops_get (k : Nat) : StopsAt k .get :=
  ⟨fun _ => by decide, by rw [show binInfo Tok.get = none by decide]; intro op l r hb; cases hb⟩

/-! ### Canonical statements -/

def startsWithIdent (ts : List Tok) : Prop := ∃ v r, ts = .ident v :: r

def isIndex : Expr → Bool
  | .index .. => true
  | _ => false

def isBareRet : Stmt → Bool
  | .ret none _ _ => true
  | _ => false

mutual
  /-- The statements the printer round-trips: spans erased, no annotations, well-formed expressions,
      expression statements and index targets that start with their identifier. -/
  def CanonStmt (p : Expr → Nat) : Stmt → Prop
    | .fnDef _ ns ps b fn sid s =>
      ns = zspan ∧ s = zspan ∧ fn = none ∧ sid = none ∧ (∀ q ∈ ps, CanonParam q) ∧ CanonBlock p b
    | .assign _ vs e bind sid s => vs = zspan ∧ s = zspan ∧ bind = none ∧ sid = none ∧ WF e
    | .assignExisting _ vs e bind sid s => vs = zspan ∧ s = zspan ∧ bind = none ∧ sid = none ∧ WF e
    | .assignIndex t e sid s =>
      s = zspan ∧ sid = none ∧ WF t ∧ WF e ∧ isIndex t = true ∧ startsWithIdent (printAt p 0 t)
    | .ifS c t none sid s => s = zspan ∧ sid = none ∧ WF c ∧ CanonBlock p t
    | .ifS c t (some e) sid s => s = zspan ∧ sid = none ∧ WF c ∧ CanonBlock p t ∧ CanonBlock p e
    | .loop c b sid s => s = zspan ∧ sid = none ∧ WF c ∧ CanonBlock p b
    | .block b sid s => s = zspan ∧ sid = none ∧ CanonBlock p b
    | .ret none sid s => s = zspan ∧ sid = none
    | .ret (some e) sid s => s = zspan ∧ sid = none ∧ WF e
    | .brk sid s => s = zspan ∧ sid = none
    | .cont sid s => s = zspan ∧ sid = none
    | .expr e sid s => s = zspan ∧ sid = none ∧ WF e ∧ startsWithIdent (printAt p 0 e)
  /-- A bare `return` only as the last statement of its block. -/
  def CanonStmts (p : Expr → Nat) : List Stmt → Prop
    | [] => True
    | [s] => CanonStmt p s
    | s :: s' :: ss => CanonStmt p s ∧ isBareRet s = false ∧ CanonStmts p (s' :: ss)
  def CanonBlock (p : Expr → Nat) : Block → Prop
    | .mk ss s => s = zspan ∧ CanonStmts p ss
end

mutual
  def ssize : Stmt → Nat
    | .fnDef _ _ _ b _ _ _ => bsize b + 1
    | .ifS _ t none _ _ => bsize t + 1
    | .ifS _ t (some e) _ _ => bsize t + bsize e + 1
    | .loop _ b _ _ => bsize b + 1
    | .block b _ _ => bsize b + 1
    | _ => 1
  def sssize : List Stmt → Nat
    | [] => 0
    | s :: ss => ssize s + sssize ss + 1
  def bsize : Block → Nat
    | .mk ss _ => sssize ss + 1
end

def stmtStartTok : Tok → Bool
  | .do | .make | .ifToSay | .jasi | .start | .ret | .comot | .next | .ident _ => true
  | _ => false

theorem stmtStart_facts {t : Tok} (h : stmtStartTok t = true) :
    stmtFollow t = true ∧ isBlockStop t = false ∧ isStmtStart t = true := by
  cases t <;> simp [stmtStartTok] at h <;>
    simp [stmtFollow, isBlockStop, isStmtStart, kindIn, Gen.Pratt.blockStop, Gen.Pratt.stmtStart, sameKind]

theorem stmt_head (p : Expr → Nat) (s : Stmt) (hc : CanonStmt p s) : HeadIs stmtStartTok (printStmt p s) := by
  cases s with
  | fnDef n ns ps b fn sid sp => exact ⟨_, _, by rw [printStmt], rfl⟩
  | assign v vs e b sid sp => exact ⟨_, _, by rw [printStmt], rfl⟩
  | assignExisting v vs e b sid sp => exact ⟨_, _, by rw [printStmt], rfl⟩
  | assignIndex t e sid sp =>
    simp only [CanonStmt] at hc
    obtain ⟨v, r, hr⟩ := hc.2.2.2.2.2
    exact ⟨.ident v, r ++ .get :: printAt p 0 e, by rw [printStmt, hr]; rfl, rfl⟩
  | ifS c t eb sid sp => cases eb <;> exact ⟨_, _, by rw [printStmt], rfl⟩
  | loop c b sid sp => exact ⟨_, _, by rw [printStmt], rfl⟩
  | block b sid sp => exact ⟨_, _, by rw [printStmt], rfl⟩
  | ret e sid sp => cases e <;> exact ⟨_, _, by rw [printStmt], rfl⟩
  | brk sid sp => exact ⟨_, _, by rw [printStmt], rfl⟩
  | cont sid sp => exact ⟨_, _, by rw [printStmt], rfl⟩
  | expr e sid sp =>
    simp only [CanonStmt] at hc
    obtain ⟨v, r, hr⟩ := hc.2.2.2
    exact ⟨.ident v, r, by rw [printStmt, hr], rfl⟩


/-! ### The statement round trip -/

theorem parseFnHeader_print (n : Bytes) (ps : List Param) (hps : ∀ q ∈ ps, CanonParam q)
    (rest : List Tok) (st : PState) :
    parseFnHeader 0 (pushToks (.do :: .ident n :: .lparen :: (paramToks ps ++ .rparen :: .start :: rest)) st)
      = ({ name := n, doSpan := zspan, rparenSpan := zspan, startSpan := zspan, params := ps },
         pushToks rest st) := by
  unfold parseFnHeader
  simp only [pushToks_cur, pushToks_bump, mkTok_span, mkTok_tok, nameOrPlaceholder, PState.expect,
    beq_self_eq_true, if_true, parseParams_print ps hps]

def KeyS (p : Expr → Nat) (s : Stmt) : Prop :=
  ∀ (st : PState), stmtFollow st.cur.tok = true → (isBareRet s = true → isBlockStop st.cur.tok = true) →
    st.cur.span = zspan →
    ∃ f0, ∀ f, f0 ≤ f → parseStmt f (pushToks (printStmt p s) st) = some (s, st)

def KeySs (p : Expr → Nat) (ss : List Stmt) : Prop :=
  ∀ (st : PState), isBlockStop st.cur.tok = true → st.cur.span = zspan →
    ∃ f0, ∀ f, f0 ≤ f → parseStmts f (pushToks (printStmts p ss) st) = some (ss, st)

def KeyB (p : Expr → Nat) (b : Block) : Prop :=
  ∀ (st : PState), isBlockStop st.cur.tok = true → st.cur.span = zspan →
    ∃ f0, ∀ f, f0 ≤ f → parseBlock f (pushToks (printBlock p b) st) = some (b, st)

theorem blockStop_follow {t : Tok} (h : isBlockStop t = true) : stmtFollow t = true := by
  cases t <;> simp [isBlockStop, kindIn, Gen.Pratt.blockStop, sameKind] at h <;> rfl

theorem end_blockStop : isBlockStop .end = true := by decide

theorem keyS_fnDef (p : Expr → Nat) (n : Bytes) (ps : List Param) (b : Block)
    (hps : ∀ q ∈ ps, CanonParam q) (hb : KeyB p b) :
    KeyS p (.fnDef n zspan ps b none none zspan) := by
  intro st _ _ hsp
  obtain ⟨f0, h0⟩ := hb (pushToks [.end] st) end_blockStop rfl
  refine ⟨f0 + 1, fun f hf => ?_⟩
  obtain ⟨g, rfl⟩ : ∃ g, f = g + 1 := ⟨f - 1, by omega⟩
  rw [printStmt, parseStmt]
  simp only [pushToks_cur, mkTok_tok, mkTok_span, zspan_lo, parseFnHeader_print n ps hps]
  rw [pushToks_append, h0 g (by omega)]
  simp only [PState.expect, pushToks_cur, mkTok_tok, beq_self_eq_true, if_true, pushToks_bump,
    pushToks_nil, hsp, zspan_hi, zspan_lo]
  rfl


theorem follow_all {t : Tok} (h : stmtFollow t = true) : ∀ k, StopsAt k t := follow_stops h

theorem keyS_assign (p : Expr → Nat) (v : Bytes) (e : Expr) (hwf : WF e) :
    KeyS p (.assign v zspan e none none zspan) := by
  intro st hfo _ hsp
  obtain ⟨f0, h0⟩ := expr_rt p e hwf st (follow_all hfo) hsp
  refine ⟨f0 + 1, fun f hf => ?_⟩
  obtain ⟨g, rfl⟩ : ∃ g, f = g + 1 := ⟨f - 1, by omega⟩
  rw [printStmt, parseStmt]
  simp only [pushToks_cur, mkTok_tok, mkTok_span, zspan_lo, parseMakeHeader, pushToks_bump,
    beq_self_eq_true, if_true, h0 g (by omega), hsp, zspan_hi]
  rfl

theorem keyS_assignExisting (p : Expr → Nat) (v : Bytes) (e : Expr) (hwf : WF e) :
    KeyS p (.assignExisting v zspan e none none zspan) := by
  intro st hfo _ hsp
  obtain ⟨f0, h0⟩ := expr_rt p e hwf st (follow_all hfo) hsp
  refine ⟨f0 + 2, fun f hf => ?_⟩
  obtain ⟨g, rfl⟩ : ∃ g, f = g + 2 := ⟨f - 2, by omega⟩
  rw [printStmt, parseStmt]
  have hc : parseCont (g + 1) 0 (.var v none zspan) (pushToks (.get :: printAt p 0 e) st)
      = some (.var v none zspan, pushToks (.get :: printAt p 0 e) st) :=
    cont_stop _ g (by rfl) (by intro op l r hb; exact absurd hb (by simp [show binInfo Tok.get = none by decide]))
  simp only [pushToks_cur, mkTok_tok, mkTok_span, zspan_lo, pushToks_bump, hc,
    beq_self_eq_true, if_true, h0 (g + 1) (by omega), finishAssign, hsp, zspan_hi]
  rfl

theorem keyS_assignIndex (p : Expr → Nat) (t e : Expr) (hwt : WF t) (hwe : WF e)
    (hix : isIndex t = true) (hid : startsWithIdent (printAt p 0 t)) :
    KeyS p (.assignIndex t e none zspan) := by
  intro st hfo _ hsp
  obtain ⟨v, r, hr⟩ := hid
  obtain ⟨f0, h0⟩ := expr_rt p e hwe st (follow_all hfo) hsp
  obtain ⟨f1, h1⟩ := cont_rt p t hwt v r hr (pushToks (.get :: printAt p 0 e) st) (fun k => stops_get k) rfl
  refine ⟨max f0 f1 + 1, fun f hf => ?_⟩
  obtain ⟨g, rfl⟩ : ∃ g, f = g + 1 := ⟨f - 1, by omega⟩
  rw [printStmt, hr, parseStmt]
  simp only [List.cons_append, pushToks_cur, mkTok_tok, mkTok_span, zspan_lo, pushToks_bump]
  rw [pushToks_append, h1 g (by omega)]
  simp only [pushToks_cur, mkTok_tok, beq_self_eq_true, if_true, pushToks_bump, h0 g (by omega)]
  cases t <;> simp [isIndex] at hix
  simp [finishAssign, hsp]
  rfl

theorem keyS_expr (p : Expr → Nat) (e : Expr) (hwe : WF e) (hid : startsWithIdent (printAt p 0 e)) :
    KeyS p (.expr e none zspan) := by
  intro st hfo _ hsp
  obtain ⟨v, r, hr⟩ := hid
  obtain ⟨f1, h1⟩ := cont_rt p e hwe v r hr st (follow_all hfo) hsp
  refine ⟨f1 + 1, fun f hf => ?_⟩
  obtain ⟨g, rfl⟩ : ∃ g, f = g + 1 := ⟨f - 1, by omega⟩
  rw [printStmt, hr, parseStmt]
  simp only [pushToks_cur, mkTok_tok, mkTok_span, zspan_lo, pushToks_bump, h1 g (by omega),
    (follow_ne hfo).1, Bool.false_eq_true, if_false, hsp, zspan_hi]
  rfl

theorem keyS_ret_some (p : Expr → Nat) (e : Expr) (hwe : WF e) : KeyS p (.ret (some e) none zspan) := by
  intro st hfo _ hsp
  obtain ⟨f0, h0⟩ := expr_rt p e hwe st (follow_all hfo) hsp
  refine ⟨f0 + 1, fun f hf => ?_⟩
  obtain ⟨g, rfl⟩ : ∃ g, f = g + 1 := ⟨f - 1, by omega⟩
  rw [printStmt, parseStmt]
  have hh := printAt_cur p e 0 st
  have hne : ((pushToks (printAt p 0 e) st).cur.tok == Tok.end ||
      (pushToks (printAt p 0 e) st).cur.tok == Tok.eof) = false := by
    generalize (pushToks (printAt p 0 e) st).cur.tok = t at hh
    cases t <;> simp [exprStart] at hh <;> simp
  simp only [pushToks_cur, mkTok_tok, mkTok_span, zspan_lo, pushToks_bump, hne, Bool.false_eq_true,
    if_false, h0 g (by omega), hsp, zspan_hi]
  rfl

theorem keyS_ret_none (p : Expr → Nat) : KeyS p (.ret none none zspan) := by
  intro st _ hbare hsp
  have hb := hbare rfl
  refine ⟨1, fun f hf => ?_⟩
  obtain ⟨g, rfl⟩ : ∃ g, f = g + 1 := ⟨f - 1, by omega⟩
  rw [printStmt, parseStmt]
  have hstop : (st.cur.tok == Tok.end || st.cur.tok == Tok.eof) = true := by
    generalize st.cur.tok = t at hb
    cases t <;> simp [isBlockStop, kindIn, Gen.Pratt.blockStop, sameKind] at hb <;> simp
  simp only [pushToks_cur, mkTok_tok, mkTok_span, zspan_lo, pushToks_bump, pushToks_nil, hstop, if_true,
    hsp, zspan_hi]
  rfl

theorem keyS_brk (p : Expr → Nat) : KeyS p (.brk none zspan) := by
  intro st _ _ hsp
  refine ⟨1, fun f hf => ?_⟩
  obtain ⟨g, rfl⟩ : ∃ g, f = g + 1 := ⟨f - 1, by omega⟩
  rw [printStmt, parseStmt]
  simp only [pushToks_cur, mkTok_tok, mkTok_span, zspan_lo, pushToks_bump, pushToks_nil, hsp, zspan_hi]
  rfl

theorem keyS_cont (p : Expr → Nat) : KeyS p (.cont none zspan) := by
  intro st _ _ hsp
  refine ⟨1, fun f hf => ?_⟩
  obtain ⟨g, rfl⟩ : ∃ g, f = g + 1 := ⟨f - 1, by omega⟩
  rw [printStmt, parseStmt]
  simp only [pushToks_cur, mkTok_tok, mkTok_span, zspan_lo, pushToks_bump, pushToks_nil, hsp, zspan_hi]
  rfl


theorem stops_rparen_all : ∀ k, StopsAt k Tok.rparen := stops_rparen

/-- `( cond ) start` after the keyword has been consumed. -/
theorem cond_print (p : Expr → Nat) (c : Expr) (hwc : WF c) (kw : Span) (rest : List Tok) (st : PState) :
    ∃ f0, ∀ f, f0 ≤ f →
      parseExpr f 0 (openCond kw (pushToks (.lparen :: (printAt p 0 c ++ .rparen :: .start :: rest)) st))
        = some (c, pushToks (.rparen :: .start :: rest) st) ∧
      closeCond 0 c (pushToks (.rparen :: .start :: rest) st) = (zspan, pushToks rest st) := by
  obtain ⟨f0, h0⟩ := expr_rt p c hwc (pushToks (.rparen :: .start :: rest) st) stops_rparen_all rfl
  refine ⟨f0, fun f hf => ⟨?_, ?_⟩⟩
  · simp only [openCond, PState.expect, pushToks_cur, mkTok_tok, beq_self_eq_true, if_true, pushToks_bump]
    rw [pushToks_append]
    exact h0 f hf
  · simp only [closeCond, PState.expect, pushToks_cur, mkTok_tok, beq_self_eq_true, if_true,
      pushToks_bump, mkTok_span]

theorem keyS_loop (p : Expr → Nat) (c : Expr) (b : Block) (hwc : WF c) (hb : KeyB p b) :
    KeyS p (.loop c b none zspan) := by
  intro st _ _ hsp
  obtain ⟨f0, h0⟩ := hb (pushToks [.end] st) end_blockStop rfl
  obtain ⟨f1, h1⟩ := cond_print p c hwc zspan (printBlock p b ++ [.end]) st
  refine ⟨max f0 f1 + 1, fun f hf => ?_⟩
  obtain ⟨g, rfl⟩ : ∃ g, f = g + 1 := ⟨f - 1, by omega⟩
  rw [printStmt, parseStmt]
  simp only [pushToks_cur, mkTok_tok, mkTok_span, zspan_lo, pushToks_bump, (h1 g (by omega)).1,
    (h1 g (by omega)).2]
  rw [pushToks_append, h0 g (by omega)]
  simp only [PState.expect, pushToks_cur, mkTok_tok, beq_self_eq_true, if_true, pushToks_bump,
    pushToks_nil, hsp, zspan_hi]
  rfl

theorem keyS_block (p : Expr → Nat) (b : Block) (hb : KeyB p b) : KeyS p (.block b none zspan) := by
  intro st _ _ hsp
  obtain ⟨f0, h0⟩ := hb (pushToks [.end] st) end_blockStop rfl
  refine ⟨f0 + 1, fun f hf => ?_⟩
  obtain ⟨g, rfl⟩ : ∃ g, f = g + 1 := ⟨f - 1, by omega⟩
  rw [printStmt, parseStmt]
  simp only [pushToks_cur, mkTok_tok, mkTok_span, zspan_lo, pushToks_bump]
  rw [pushToks_append, h0 g (by omega)]
  simp only [PState.expect, pushToks_cur, mkTok_tok, beq_self_eq_true, if_true, pushToks_bump,
    pushToks_nil, hsp, zspan_hi]
  rfl

theorem keyS_if_none (p : Expr → Nat) (c : Expr) (t : Block) (hwc : WF c) (ht : KeyB p t) :
    KeyS p (.ifS c t none none zspan) := by
  intro st hfo _ hsp
  obtain ⟨f0, h0⟩ := ht (pushToks [.end] st) end_blockStop rfl
  obtain ⟨f1, h1⟩ := cond_print p c hwc zspan (printBlock p t ++ [.end]) st
  refine ⟨max f0 f1 + 1, fun f hf => ?_⟩
  obtain ⟨g, rfl⟩ : ∃ g, f = g + 1 := ⟨f - 1, by omega⟩
  rw [printStmt, parseStmt]
  simp only [pushToks_cur, mkTok_tok, mkTok_span, zspan_lo, pushToks_bump, (h1 g (by omega)).1,
    (h1 g (by omega)).2]
  rw [pushToks_append, h0 g (by omega)]
  simp only [PState.expect, pushToks_cur, mkTok_tok, beq_self_eq_true, if_true, pushToks_bump,
    pushToks_nil, (follow_ne hfo).2.1, Bool.false_eq_true, if_false, hsp, zspan_hi]
  rfl

theorem keyS_if_some (p : Expr → Nat) (c : Expr) (t e : Block) (hwc : WF c) (ht : KeyB p t)
    (he : KeyB p e) : KeyS p (.ifS c t (some e) none zspan) := by
  intro st _ _ hsp
  obtain ⟨f2, h2⟩ := he (pushToks [.end] st) end_blockStop rfl
  obtain ⟨f0, h0⟩ := ht (pushToks (.end :: .ifNotSo :: .start :: (printBlock p e ++ [.end])) st)
    end_blockStop rfl
  obtain ⟨f1, h1⟩ := cond_print p c hwc zspan
    (printBlock p t ++ .end :: .ifNotSo :: .start :: (printBlock p e ++ [.end])) st
  refine ⟨max (max f0 f1) f2 + 1, fun f hf => ?_⟩
  obtain ⟨g, rfl⟩ : ∃ g, f = g + 1 := ⟨f - 1, by omega⟩
  rw [printStmt, parseStmt]
  simp only [pushToks_cur, mkTok_tok, mkTok_span, zspan_lo, pushToks_bump, (h1 g (by omega)).1,
    (h1 g (by omega)).2]
  rw [pushToks_append, h0 g (by omega)]
  simp only [PState.expect, pushToks_cur, mkTok_tok, beq_self_eq_true, if_true, pushToks_bump]
  rw [pushToks_append, h2 g (by omega)]
  simp only [PState.expect, pushToks_cur, mkTok_tok, beq_self_eq_true, if_true, pushToks_bump,
    pushToks_nil, mkTok_span, hsp, zspan_hi, zspan_lo]
  rfl

/-! #### sequences and blocks -/

theorem keySs_nil (p : Expr → Nat) : KeySs p [] := by
  intro st hstop _
  refine ⟨1, fun f hf => ?_⟩
  obtain ⟨g, rfl⟩ : ∃ g, f = g + 1 := ⟨f - 1, by omega⟩
  rw [printStmts, parseStmts]
  simp [hstop]

/-- The token in front of which a statement of a sequence ends. -/
theorem next_follow (p : Expr → Nat) (rest : List Stmt) (hc : CanonStmts p rest) (st : PState)
    (hstop : isBlockStop st.cur.tok = true) :
    stmtFollow (pushToks (printStmts p rest) st).cur.tok = true ∧
    (rest = [] → isBlockStop (pushToks (printStmts p rest) st).cur.tok = true) := by
  cases rest with
  | nil => simp only [printStmts, pushToks_nil]; exact ⟨blockStop_follow hstop, fun _ => hstop⟩
  | cons s ss =>
    have hcs : CanonStmt p s := by cases ss <;> simp only [CanonStmts] at hc <;> first | exact hc | exact hc.1
    obtain ⟨t, r, hr, ht⟩ := stmt_head p s hcs
    rw [printStmts, hr]
    exact ⟨(stmtStart_facts ht).1, fun h => by cases h⟩

theorem keySs_cons (p : Expr → Nat) (s : Stmt) (rest : List Stmt) (hcs : CanonStmt p s)
    (hlast : isBareRet s = true → rest = []) (hcr : CanonStmts p rest)
    (hs : KeyS p s) (hr : KeySs p rest) : KeySs p (s :: rest) := by
  intro st hstop hsp
  obtain ⟨f1, h1⟩ := hr st hstop hsp
  have hnf := next_follow p rest hcr st hstop
  obtain ⟨f0, h0⟩ := hs (pushToks (printStmts p rest) st) hnf.1 (fun hb => hnf.2 (hlast hb))
    (pushToks_span _ _ hsp)
  refine ⟨max f0 f1 + 1, fun f hf => ?_⟩
  obtain ⟨g, rfl⟩ : ∃ g, f = g + 1 := ⟨f - 1, by omega⟩
  obtain ⟨t, r, hpr, ht⟩ := stmt_head p s hcs
  rw [printStmts, parseStmts, pushToks_append]
  have hcur : isBlockStop (pushToks (printStmt p s) (pushToks (printStmts p rest) st)).cur.tok = false := by
    rw [hpr]; exact (stmtStart_facts ht).2.1
  simp only [hcur, Bool.false_eq_true, if_false, h0 g (by omega), h1 g (by omega)]

theorem keyB_of (p : Expr → Nat) (ss : List Stmt) (h : KeySs p ss) : KeyB p (.mk ss zspan) := by
  intro st hstop hsp
  obtain ⟨f0, h0⟩ := h st hstop hsp
  refine ⟨f0 + 1, fun f hf => ?_⟩
  obtain ⟨g, rfl⟩ : ∃ g, f = g + 1 := ⟨f - 1, by omega⟩
  rw [printBlock, parseBlock, h0 g (by omega)]
  simp only [pushToks_span _ _ hsp, hsp, zspan_lo, zspan_hi]
  rfl


/-! #### the induction -/

theorem canonStmts_head {p : Expr → Nat} {s : Stmt} {rest : List Stmt} (h : CanonStmts p (s :: rest)) :
    CanonStmt p s ∧ (isBareRet s = true → rest = []) ∧ CanonStmts p rest := by
  cases rest with
  | nil => simp only [CanonStmts] at h; exact ⟨h, fun _ => rfl, trivial⟩
  | cons s' ss =>
    simp only [CanonStmts] at h
    exact ⟨h.1, fun hb => (by rw [h.2.1] at hb; cases hb), h.2.2⟩

theorem stmt_all (p : Expr → Nat) : ∀ n,
    (∀ s, ssize s ≤ n → CanonStmt p s → KeyS p s) ∧
    (∀ ss, sssize ss ≤ n → CanonStmts p ss → KeySs p ss) ∧
    (∀ b, bsize b ≤ n → CanonBlock p b → KeyB p b) := by
  intro n
  induction n with
  | zero =>
    refine ⟨fun s h => ?_, fun ss h _ => ?_, fun b h => ?_⟩
    · have : 1 ≤ ssize s := by
        cases s with
        | ifS c t eb sid sp => cases eb <;> simp [ssize]
        | _ => simp [ssize]
      omega
    · cases ss with
      | nil => exact keySs_nil p
      | cons s ss => simp [sssize] at h
    · cases b; simp [bsize] at h
  | succ n ih =>
    obtain ⟨ihs, ihl, ihb⟩ := ih
    refine ⟨fun s hsz hc => ?_, fun ss hsz hc => ?_, fun b hsz hc => ?_⟩
    · cases s with
      | fnDef nm ns ps b fn sid sp =>
        simp only [CanonStmt] at hc; obtain ⟨rfl, rfl, rfl, rfl, hps, hb⟩ := hc
        simp only [ssize] at hsz
        exact keyS_fnDef p nm ps b hps (ihb b (by omega) hb)
      | assign v vs e bd sid sp =>
        simp only [CanonStmt] at hc; obtain ⟨rfl, rfl, rfl, rfl, hw⟩ := hc
        exact keyS_assign p v e hw
      | assignExisting v vs e bd sid sp =>
        simp only [CanonStmt] at hc; obtain ⟨rfl, rfl, rfl, rfl, hw⟩ := hc
        exact keyS_assignExisting p v e hw
      | assignIndex t e sid sp =>
        simp only [CanonStmt] at hc; obtain ⟨rfl, rfl, hwt, hwe, hix, hid⟩ := hc
        exact keyS_assignIndex p t e hwt hwe hix hid
      | ifS c t eb sid sp =>
        cases eb with
        | none =>
          simp only [CanonStmt] at hc; obtain ⟨rfl, rfl, hw, ht⟩ := hc
          simp only [ssize] at hsz
          exact keyS_if_none p c t hw (ihb t (by omega) ht)
        | some e =>
          simp only [CanonStmt] at hc; obtain ⟨rfl, rfl, hw, ht, he⟩ := hc
          simp only [ssize] at hsz
          exact keyS_if_some p c t e hw (ihb t (by omega) ht) (ihb e (by omega) he)
      | loop c b sid sp =>
        simp only [CanonStmt] at hc; obtain ⟨rfl, rfl, hw, hb⟩ := hc
        simp only [ssize] at hsz
        exact keyS_loop p c b hw (ihb b (by omega) hb)
      | block b sid sp =>
        simp only [CanonStmt] at hc; obtain ⟨rfl, rfl, hb⟩ := hc
        simp only [ssize] at hsz
        exact keyS_block p b (ihb b (by omega) hb)
      | ret e sid sp =>
        cases e with
        | none => simp only [CanonStmt] at hc; obtain ⟨rfl, rfl⟩ := hc; exact keyS_ret_none p
        | some e => simp only [CanonStmt] at hc; obtain ⟨rfl, rfl, hw⟩ := hc; exact keyS_ret_some p e hw
      | brk sid sp => simp only [CanonStmt] at hc; obtain ⟨rfl, rfl⟩ := hc; exact keyS_brk p
      | cont sid sp => simp only [CanonStmt] at hc; obtain ⟨rfl, rfl⟩ := hc; exact keyS_cont p
      | expr e sid sp =>
        simp only [CanonStmt] at hc; obtain ⟨rfl, rfl, hw, hid⟩ := hc
        exact keyS_expr p e hw hid
    · cases ss with
      | nil => exact keySs_nil p
      | cons s rest =>
        simp only [sssize] at hsz
        obtain ⟨hcs, hlast, hcr⟩ := canonStmts_head hc
        exact keySs_cons p s rest hcs hlast hcr (ihs s (by omega) hcs) (ihl rest (by omega) hcr)
    · cases b with
      | mk ss sp =>
        simp only [CanonBlock] at hc; obtain ⟨rfl, hcs⟩ := hc
        simp only [bsize] at hsz
        exact keyB_of p ss (ihl ss (by omega) hcs)

/-! #### the program -/

theorem top_print (p : Expr → Nat) : ∀ (ss : List Stmt), CanonStmts p ss → ∀ (st : PState),
    st.cur.tok = .eof → st.cur.span = zspan →
    ∃ f0, ∀ f, f0 ≤ f → parseTopStmts f (pushToks (printStmts p ss) st) = some (ss, st) := by
  intro ss
  induction ss with
  | nil =>
    intro _ st heof _
    refine ⟨1, fun f hf => ?_⟩
    obtain ⟨g, rfl⟩ : ∃ g, f = g + 1 := ⟨f - 1, by omega⟩
    rw [printStmts, parseTopStmts]
    simp [heof, show isStmtStart Tok.eof = false by decide]
  | cons s rest ih =>
    intro hc st heof hsp
    obtain ⟨hcs, hlast, hcr⟩ := canonStmts_head hc
    have hstop : isBlockStop st.cur.tok = true := by rw [heof]; decide
    obtain ⟨f1, h1⟩ := ih hcr st heof hsp
    have hnf := next_follow p rest hcr st hstop
    obtain ⟨f0, h0⟩ := (stmt_all p (ssize s)).1 s (Nat.le_refl _) hcs (pushToks (printStmts p rest) st)
      hnf.1 (fun hb => hnf.2 (hlast hb)) (pushToks_span _ _ hsp)
    refine ⟨max f0 f1 + 1, fun f hf => ?_⟩
    obtain ⟨g, rfl⟩ : ∃ g, f = g + 1 := ⟨f - 1, by omega⟩
    obtain ⟨t, r, hpr, ht⟩ := stmt_head p s hcs
    rw [printStmts, parseTopStmts, pushToks_append]
    have hcur : isStmtStart (pushToks (printStmt p s) (pushToks (printStmts p rest) st)).cur.tok = true := by
      rw [hpr]; exact (stmtStart_facts ht).2.2
    simp only [hcur, if_true, h0 g (by omega), h1 g (by omega)]

def endState : PState := ⟨mkTok .eof, [], []⟩

theorem init_programToks (ts : List Tok) :
    PState.init (ts.map mkTok ++ [mkTok .eof]) = pushToks ts endState := by
  cases ts <;> rfl

/-- **Statement-level round trip**: printing a canonical program and parsing the tokens gives the
    program back, with no diagnostics, for all sufficiently large fuel. -/
theorem program_round_trip_fuel (p : Expr → Nat) (b : Block) (hc : CanonBlock p b) :
    ∃ f0, ∀ f, f0 ≤ f → parseProgramFuel f (programToks p b) = some (b, []) := by
  cases b with
  | mk ss sp =>
    simp only [CanonBlock] at hc; obtain ⟨rfl, hcs⟩ := hc
    obtain ⟨f0, h0⟩ := top_print p ss hcs endState rfl rfl
    refine ⟨f0, fun f hf => ?_⟩
    unfold parseProgramFuel programToks
    simp only [printBlock, init_programToks, h0 f hf]
    have h1 : (pushToks (printStmts p ss) endState).cur.span = zspan := pushToks_span _ _ rfl
    simp only [h1, zspan_lo]
    rfl

/-- … hence `parseProgram (print b) = (b, [])`. -/
theorem program_round_trip (p : Expr → Nat) (b : Block) (hc : CanonBlock p b) :
    parseProgram (programToks p b) = (b, []) := by
  obtain ⟨f0, h0⟩ := program_round_trip_fuel p b hc
  have h1 := parseProgramFuel_stable (programToks p b) (max f0 (fuelFor (programToks p b)))
    (Nat.le_max_right _ _)
  rw [h0 _ (Nat.le_max_left _ _)] at h1
  exact (Option.some.inj h1).symm

end NaijaVerif.Parse
