import NaijaVerif.Lemmas.AnalysisRefineRevStmt
/-
BRIDGE, converse direction, part 5: selected argument lists and index paths (`Eval` spends fuel on
every element, the fragment does not).
-/
namespace NaijaVerif.C03
open NaijaVerif NaijaVerif.Analysis

variable {N : Type} [NumOps N] {B : Brg}

theorem rev_selpick (hB : B.Ok N) (args : List Expr) (hargs : okExprs B.o args = true) (sp : Span) :
    ∀ (idxs : List (Nat × Eval.PanicSite)), (∀ q ∈ idxs, siteErr q.2 = tmErr) →
    ∀ (f : Nat), (∀ m, m ≤ f → SimAt' (N := N) B m) → ∀ (s : Eval.State N) (t : AEval.St (VE N)), B.Sim s t →
    Eval.evalSel B.rc (f + 1) (Eval.pick args idxs sp) s ≠ .fuel →
    Ev' B Eq (Eval.evalSel B.rc (f + 1) (Eval.pick args idxs sp) s)
      (fun n => AEval.evalChecked (AEval.evalExpr B.P B.ac n) tmErr (AEval.selArgs args (idxs.map (·.1))) t)
  | [], _, f, _, s, t, hs, _ => by
      simp only [List.map_nil, AEval.selArgs, AEval.evalChecked, Eval.pick, Eval.evalSel]
      exact Ev'.const (RSim.ok rfl hs)
  | (i, site) :: rest, hsite, f, IH, s, t, hs, hne => by
      have ih := rev_selpick hB args hargs sp rest (fun q hq => hsite q (List.mem_cons_of_mem _ hq))
      generalize hr : Eval.evalSel B.rc (f + 1) (Eval.pick args ((i, site) :: rest) sp) s = res at hne ⊢
      simp only [List.map_cons, AEval.selArgs, Eval.pick] at hr ⊢ ih
      cases hi : args[i]? with
      | none =>
        simp only [hi, Eval.evalSel] at hr
        simp only [AEval.evalChecked]
        subst hr
        have := trap_sim (β := List (VE N)) hB hs.out site sp
        rw [hsite (i, site) (List.mem_cons_self ..)] at this
        exact Ev'.const (RSim.err this)
      | some e =>
        simp only [hi, Eval.evalSel] at hr
        simp only [AEval.evalChecked]
        have ih1 := (IH f (Nat.le_refl f)).expr e s t (okExprs_get hargs hi) hs
        ev'_sub (Eval.evalExpr B.rc f e s) as v s1 t1 hs1 with ih1 hr hne
        cases f with
        | zero =>
          simp only [Eval.evalSel, Res.fuel_bind] at hr
          exact absurd hr.symm hne
        | succ f' =>
          have ih2 := ih f' (fun m hm => IH m (by omega)) s1 t1 hs1
          ev'_sub (Eval.evalSel B.rc (f' + 1)
            (List.map (fun q => match args[q.1]? with | some e => Except.ok e | none => Except.error (q.2, sp)) rest) s1)
            as vs s2 t2 hs2 with ih2 hr hne
          subst hr
          exact Ev'.const (RSim.ok rfl hs2)

theorem rev_idxs (hB : B.Ok N) :
    ∀ (idxs : List (Expr × Span)), (∀ q ∈ idxs, okExpr B.o q.1 = true) →
    ∀ (f : Nat), (∀ m, m ≤ f → SimAt' (N := N) B m) → ∀ (s : Eval.State N) (t : AEval.St (VE N)), B.Sim s t →
    Eval.evalIdxs B.rc (f + 1) idxs s ≠ .fuel →
    Ev' B PathRel (Eval.evalIdxs B.rc (f + 1) idxs s)
      (fun n => AEval.evalChecked (AEval.evalExpr B.P B.ac n) tmErr (AEval.pathItems idxChk (idxs.map (·.1))) t)
  | [], _, f, _, s, t, hs, _ => by
      simp only [List.map_nil, AEval.pathItems, AEval.evalChecked, Eval.evalIdxs]
      exact Ev'.const (RSim.ok rfl hs)
  | (e, isp) :: rest, hq, f, IH, s, t, hs, hne => by
      have ih := rev_idxs hB rest (fun q hqm => hq q (List.mem_cons_of_mem _ hqm))
      generalize hr : Eval.evalIdxs B.rc (f + 1) ((e, isp) :: rest) s = res at hne ⊢
      simp only [Eval.evalIdxs] at hr
      simp only [List.map_cons, AEval.pathItems, AEval.evalChecked] at ih ⊢
      have ih1 := (IH f (Nat.le_refl f)).expr e s t (hq (e, isp) (List.mem_cons_self ..)) hs
      ev'_sub (Eval.evalExpr B.rc f e s) as v s1 t1 hs1 with ih1 hr hne
      rcases indexValue_cases v noSpan isp with ⟨i, h0, hi⟩ | ⟨k, h0, hi⟩
      · simp only [idxChk, h0, liftE, Except.map, hi, Eval.Res.ofExcept, Res.ok_bind] at hr ⊢
        cases f with
        | zero =>
          simp only [Eval.evalIdxs, Res.fuel_bind] at hr
          exact absurd hr.symm hne
        | succ f' =>
          have ih2 := ih f' (fun m hm => IH m (by omega)) s1 t1 hs1
          ev'_subr (Eval.evalIdxs B.rc (f' + 1) rest s1) as pvs is s2 t2 his hs2 with ih2 hr hne
          subst hr
          refine Ev'.const (RSim.ok ?_ hs2)
          simp only [PathRel, List.map_cons, idxDec, h0] at his ⊢
          rw [his]
      · simp only [idxChk, h0, liftE, Except.map, hi, Eval.Res.ofExcept, Eval.Res.ofFault, Res.err_bind, faultErr] at hr ⊢
        subst hr
        exact Ev'.const (RSim.err ⟨Or.inl rfl, hs1.out⟩)

end NaijaVerif.C03
