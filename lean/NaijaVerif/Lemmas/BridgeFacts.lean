import NaijaVerif.Lemmas.ResolveScope
import NaijaVerif.Model.Eval
/-
Bridge resolver → evaluator, part 1: id allocation.

What the bridge reads of the resolver's `Facts`: the next `LocalId` (`locals.length`) and the
parameter counts of the functions pushed so far (`functions.map paramCount`; its length is the next
`FunctionId`).  `fkey` is this projection; every bookkeeping primitive except `pushLocal` /
`pushFunction` leaves it alone, so `checkExpr` does, and the statement walk only extends it.
Also: the two tables of global builtin names (resolver / evaluator) are the same table.
-/
namespace NaijaVerif.Resolve
open NaijaVerif

/-- Next `LocalId`, and the parameter count of every `FunctionId` allocated so far. -/
def fkey (f : Facts) : Nat × List Nat := (f.locals.length, f.functions.map (·.paramCount))

theorem fkey_nl (f : Facts) : (fkey f).1 = f.locals.length := rfl
theorem fkey_nf (f : Facts) : (fkey f).2.length = f.functions.length := by simp [fkey]

theorem modifyAt_length {α : Type} (g : α → α) : ∀ (l : List α) (i : Nat), (modifyAt l i g).length = l.length
  | [], _ => rfl
  | _ :: _, 0 => rfl
  | a :: as, n + 1 => by simp [modifyAt, modifyAt_length g as n]

theorem modifyAt_pc (l : List FunctionInfo) (i : Nat) (g : FunctionInfo → FunctionInfo)
    (hg : ∀ a, (g a).paramCount = a.paramCount) :
    (modifyAt l i g).map (·.paramCount) = l.map (·.paramCount) :=
  modifyAt_map_key (·.paramCount) g hg l i

/-! ### Primitives -/

@[simp] theorem fkey_pushStmt (f : Facts) (o s : Nat) : fkey (pushStmt f o s) = fkey f := rfl
@[simp] theorem fkey_joinClass (f : Facts) (sid : Nat) (c : ExprClass) : fkey (joinClass f sid c) = fkey f := rfl
@[simp] theorem fkey_pushScope (f : Facts) (p : Option Nat) (o : Nat) : fkey (pushScope f p o) = fkey f := rfl
@[simp] theorem fkey_recStmtCallee (f : Facts) (a b : Nat) : fkey (recStmtCallee f a b) = fkey f := rfl
@[simp] theorem fkey_recDirectCallee (f : Facts) (a b : Nat) : fkey (recDirectCallee f a b) = fkey f := rfl
@[simp] theorem fkey_recUserCall (f : Facts) (a b : Nat) : fkey (recUserCall f a b) = fkey f := rfl

@[simp] theorem fkey_recStmtRead (f : Facts) (a b c : Nat) : fkey (recStmtRead f a b c) = fkey f := by
  unfold recStmtRead; split <;> rfl
@[simp] theorem fkey_recStmtWrite (f : Facts) (a b c : Nat) : fkey (recStmtWrite f a b c) = fkey f := by
  unfold recStmtWrite; split <;> rfl
@[simp] theorem fkey_recCapRead (f : Facts) (a b : Nat) : fkey (recCapRead f a b) = fkey f := by
  unfold recCapRead; split
  · rfl
  · split <;> rfl
@[simp] theorem fkey_recCapWrite (f : Facts) (a b : Nat) : fkey (recCapWrite f a b) = fkey f := by
  unfold recCapWrite; split
  · rfl
  · split <;> rfl
@[simp] theorem fkey_recUse (f : Facts) (a b c : Nat) : fkey (recUse f a b c) = fkey f := by
  simp [recUse]
@[simp] theorem fkey_recReadWrite (f : Facts) (a b c : Nat) : fkey (recReadWrite f a b c) = fkey f := by
  simp [recReadWrite]

@[simp] theorem fkey_setDefStmt (f : Facts) (fn sid : Nat) : fkey (setDefStmt f fn sid) = fkey f := by
  simp only [fkey, setDefStmt]
  refine Prod.ext rfl ?_
  apply modifyAt_pc; intro a; rfl
@[simp] theorem fkey_setRootScope (f : Facts) (s : Nat) : fkey (setRootScope f s) = fkey f := by
  simp only [fkey, setRootScope]
  refine Prod.ext rfl ?_
  apply modifyAt_pc; intro a; rfl

theorem fkey_pushLocal (f : Facts) (sl : Bool) (name : Bytes) (o s : Nat) (d : Option Nat) (k : LocalKind) :
    fkey (pushLocal f sl name o s d k) = ((fkey f).1 + 1, (fkey f).2) := by
  simp only [fkey, pushLocal, List.length_append, List.length_singleton]
  refine Prod.ext rfl ?_
  apply modifyAt_pc; intro a; rfl

theorem fkey_pushFunction (f : Facts) (name : Bytes) (np parent scope : Nat) :
    fkey (pushFunction f name np parent scope) = ((fkey f).1, (fkey f).2 ++ [np]) := by
  simp [fkey, pushFunction]

/-! ### Expressions leave the key alone -/

theorem checkSegs_fkey (env : Env) (cur : Scope) (sid : Nat) (span : Span) :
    ∀ (segs : List Seg) (f : Facts), fkey (checkSegs env cur sid span segs f).facts = fkey f
  | [], f => rfl
  | .lit _ :: rest, f => by simp only [checkSegs]; exact checkSegs_fkey env cur sid span rest f
  | .var n _ :: rest, f => by
      simp only [checkSegs]
      split
      · simp only; rw [checkSegs_fkey env cur sid span rest]; simp
      · simp only; exact checkSegs_fkey env cur sid span rest f

theorem checkMethod_fkey (env : Env) (cur : Scope) (sid : Nat) (rt : VType) (obj : Expr) (field : Bytes)
    (args : List Expr) (ms : Span) (f : Facts) :
    fkey (checkMethod env cur sid rt obj field args ms f).2 = fkey f := by
  unfold checkMethod
  split
  · simp only
    split
    · split <;> simp
    · rfl
  · rfl

mutual
  theorem checkExpr_fkey (env : Env) (cur : Scope) (sid : Nat) :
      ∀ (e : Expr) (f : Facts), fkey (checkExpr env cur sid e f).facts = fkey f
    | .num _ _, f => by simp [checkExpr]
    | .bool _ _, f => by simp [checkExpr]
    | .null _, f => by simp [checkExpr]
    | .str (.static _) _, f => by simp [checkExpr]
    | .str (.interp segs) s, f => by simp only [checkExpr]; exact checkSegs_fkey env cur sid s segs f
    | .array es _, f => by simp only [checkExpr]; exact checkExprs_fkey env cur sid es f
    | .index a i _ _, f => by
        simp only [checkExpr]
        rw [checkExpr_fkey env cur sid i, checkExpr_fkey env cur sid a]
    | .var v _ s, f => by
        simp only [checkExpr]
        split <;> simp
    | .binary _ l r _, f => by
        simp only [checkExpr]
        rw [checkExpr_fkey env cur sid r, checkExpr_fkey env cur sid l]
    | .unary _ e _, f => by simp only [checkExpr]; exact checkExpr_fkey env cur sid e f
    | .member o _ _ _, f => by simp only [checkExpr]; exact checkExpr_fkey env cur sid o f
    | .call callee args _ s, f => by
        have hc := checkExpr_fkey env cur sid callee
        cases callee with
        | var fname vb vs =>
          simp only [checkExpr]
          split
          · simp only; exact checkExprs_fkey env cur sid args f
          · split
            · simp only; rw [checkExprs_fkey env cur sid args]; simp
            · simp only; exact checkExprs_fkey env cur sid args f
        | member obj field fs ms =>
          simp only [checkExpr]
          rw [checkExprs_fkey env cur sid args]
          split
          · rw [checkMethod_fkey, checkExpr_fkey env cur sid obj]
          · exact checkExpr_fkey env cur sid obj f
        | _ =>
          rw [checkExpr.eq_def]
          simp only
          rw [checkExprs_fkey env cur sid args, hc]
  theorem checkExprs_fkey (env : Env) (cur : Scope) (sid : Nat) :
      ∀ (es : List Expr) (f : Facts), fkey (checkExprs env cur sid es f).facts = fkey f
    | [], f => rfl
    | e :: es, f => by
        simp only [checkExprs]
        rw [checkExprs_fkey env cur sid es, checkExpr_fkey env cur sid e]
end

/-! ### The two tables of global builtin names -/

/-- `GlobalBuiltin::from_name` as the resolver model and as the evaluator model spell it. -/
theorem global_tables_agree (n : Bytes) :
    (GlobalB.ofName n).isSome = (Eval.GlobalB.ofName n).isSome := by
  unfold GlobalB.ofName Eval.GlobalB.ofName
  simp only [GlobalB.all, GlobalB.nameOf, List.find?_cons, List.find?_nil]
  by_cases h1 : n = b!"shout"
  · subst h1; rfl
  by_cases h2 : n = b!"typeof"
  · subst h2; rfl
  by_cases h3 : n = b!"read_line"
  · subst h3; rfl
  by_cases h4 : n = b!"to_string"
  · subst h4; rfl
  by_cases h5 : n = b!"command"
  · subst h5; rfl
  have e1 : (b!"shout" == n) = false := by simpa using fun h => h1 h.symm
  have e2 : (b!"typeof" == n) = false := by simpa using fun h => h2 h.symm
  have e3 : (b!"read_line" == n) = false := by simpa using fun h => h3 h.symm
  have e4 : (b!"to_string" == n) = false := by simpa using fun h => h4 h.symm
  have e5 : (b!"command" == n) = false := by simpa using fun h => h5 h.symm
  simp [e1, e2, e3, e4, e5, h1, h2, h3, h4, h5]

end NaijaVerif.Resolve
