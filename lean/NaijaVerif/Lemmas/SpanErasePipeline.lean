import NaijaVerif.Lemmas.SpanEraseEval
import NaijaVerif.Model.Pipeline
/-
C10, downstream of the parser (4): the stages composed.  What a run of the shipped pipeline shows
when positions are left out (`obs`), and the theorem that the part of `Pipeline.runSource` behind the
parser (`runParsed`: resolver → limit preflight → analyses → evaluator with the analyses' plan) has
the same observation on a program and on its span erasure — hence on any two programs that are equal
up to spans.
-/
namespace NaijaVerif.SpanErase
open NaijaVerif NaijaVerif.Parse NaijaVerif.Pipeline

variable {N : Type}

/-! ### The span-insensitive observation -/

/-- What a pipeline result shows without positions: the stage it stopped at; the diagnostics of that
stage (for a run: the warnings printed before it) in order, each reduced to severity, kind and number
of labels (`eraseDiag`); for a run the printed values, the class of the ending and the runtime-error
kind / panic site (`eraseOutcome`). -/
def obs : Pipeline.Result N → Pipeline.Result N
  | .syntax ds => .syntax (ds.map eraseDiag)
  | .semantic ds => .semantic (ds.map eraseDiag)
  | .ran ws o => .ran (ws.map eraseDiag) (eraseOutcome o)

theorem eraseDiag_idem (d : Diag) : eraseDiag (eraseDiag d) = eraseDiag d := by
  simp [eraseDiag, List.map_map, Function.comp_def]

theorem map_eraseDiag_idem (ds : List Diag) : (ds.map eraseDiag).map eraseDiag = ds.map eraseDiag := by
  simp [List.map_map, Function.comp_def, eraseDiag_idem]

theorem eraseOutcome_idem (o : Eval.Outcome N) : eraseOutcome (eraseOutcome o) = eraseOutcome o := by
  cases o <;> rfl

/-! ### The pipeline behind the parser -/

/-- `Pipeline.frontEnd` from the resolver on, for an accepted parse `p`. -/
def afterParse (caps : Limits.Caps) (p : Block) : Except (List Diag) Accepted :=
  let r := Resolve.resolve p
  if hasErrors r.diags then .error r.diags
  else
    let a := Analysis.analyse r.root r.facts
    let passW := a.warns.map warnDiag
    let planOf : Eval.Plan := { stmts := a.plan.stmts, fns := a.plan.fns }
    match CfgCount.countProgram r.root r.facts with
    | none => .ok { root := r.root, facts := r.facts, warnings := r.diags ++ passW, plan := some planOf }
    | some c =>
        let o := Limits.emitAnalysis caps c p.span planOf passW
        .ok { root := r.root, facts := r.facts, warnings := r.diags ++ o.warnings, plan := o.plan }

/-- `Pipeline.runSource` from the resolver on. -/
def runParsed [NumOps N] (caps : Limits.Caps) (cfg : Eval.RunCfg) (fuel : Nat) (p : Block) : Pipeline.Result N :=
  match afterParse caps p with
  | .error ds => .semantic ds
  | .ok a => .ran a.warnings (Eval.run { cfg with plan := a.plan } fuel a.root)

theorem frontEnd_eq (caps : Limits.Caps) (src : Bytes) :
    frontEnd caps src =
      (if !((Lex.lex src).2 ++ (Parse.parseProgram (Lex.lex src).1).2).isEmpty then
        .error (true, (Lex.lex src).2 ++ (Parse.parseProgram (Lex.lex src).1).2)
      else
        match afterParse caps (Parse.parseProgram (Lex.lex src).1).1 with
        | .error ds => .error (false, ds)
        | .ok a => .ok a) := by
  unfold frontEnd afterParse
  simp only []
  split
  · rfl
  · split
    · rfl
    · cases CfgCount.countProgram (Resolve.resolve (Parse.parseProgram (Lex.lex src).1).1).root
        (Resolve.resolve (Parse.parseProgram (Lex.lex src).1).1).facts <;> rfl

/-- The shipped pipeline is: stop on any lexical / syntax diagnostic, else `runParsed` of the parse. -/
theorem runSource_eq [NumOps N] (caps : Limits.Caps) (cfg : Eval.RunCfg) (fuel : Nat) (src : Bytes) :
    (runSource caps cfg fuel src : Pipeline.Result N) =
      (if !((Lex.lex src).2 ++ (Parse.parseProgram (Lex.lex src).1).2).isEmpty then
        .syntax ((Lex.lex src).2 ++ (Parse.parseProgram (Lex.lex src).1).2)
      else runParsed caps cfg fuel (Parse.parseProgram (Lex.lex src).1).1) := by
  unfold runSource runParsed
  rw [frontEnd_eq]
  by_cases h : (!((Lex.lex src).2 ++ (Parse.parseProgram (Lex.lex src).1).2).isEmpty) = true
  · simp only [h, if_true]
  · simp only [h]
    cases afterParse caps (Parse.parseProgram (Lex.lex src).1).1 <;> rfl

/-! ### Stage by stage -/

def eraseAccepted (a : Accepted) : Accepted :=
  { root := eraseSpans a.root, facts := a.facts, warnings := a.warnings.map eraseDiag, plan := a.plan }

def eraseFront : Except (List Diag) Accepted → Except (List Diag) Accepted
  | .error ds => .error (ds.map eraseDiag)
  | .ok a => .ok (eraseAccepted a)

theorem warnDiag_erase (w : Analysis.Warn) : warnDiag (eraseWarn w) = eraseDiag (warnDiag w) := rfl

theorem emitAnalysis_erase (caps : Limits.Caps) (c : Limits.Counts) (sp : Span) (planOf : Eval.Plan)
    (passW : List Diag) :
    Limits.emitAnalysis caps c zspan planOf (passW.map eraseDiag)
      = { plan := (Limits.emitAnalysis caps c sp planOf passW).plan,
          warnings := (Limits.emitAnalysis caps c sp planOf passW).warnings.map eraseDiag } := by
  unfold Limits.emitAnalysis
  cases Limits.firstExceeded caps c <;> rfl

/-- Resolver, limit preflight and analyses on the span-erased parse: the same decision (rejected /
accepted), the same diagnostics and warnings up to spans, the same facts, the same plan, and the
span-erased annotated program. -/
theorem afterParse_erase (caps : Limits.Caps) (p : Block) :
    afterParse caps (eraseSpans p) = eraseFront (afterParse caps p) := by
  obtain ⟨hroot, hdiags, hfacts, _⟩ := resolveWith_erase true p
  unfold afterParse
  simp only [Resolve.resolve, hroot, hdiags, hfacts, hasErrors_eraseDiag]
  by_cases herr : hasErrors (Resolve.resolveWith true p).diags = true
  · simp only [herr, if_true, eraseFront]
  · have herr' : hasErrors (Resolve.resolveWith true p).diags = false := by simpa using herr
    simp only [herr', Bool.false_eq_true, if_false, eraseSpans, analyse_erase, countProgram_erase,
      eraseBlock_span, List.map_map]
    have hw : (fun w => warnDiag (eraseWarn w)) = fun w => eraseDiag (warnDiag w) := rfl
    cases CfgCount.countProgram (Resolve.resolveWith true p).root (Resolve.resolveWith true p).facts with
    | none =>
      simp only [eraseFront, eraseAccepted, eraseSpans, List.map_append, List.map_map, Function.comp_def, hw]
    | some c =>
      have he := emitAnalysis_erase caps c p.span
        { stmts := (Analysis.analyse (Resolve.resolveWith true p).root (Resolve.resolveWith true p).facts).plan.stmts,
          fns := (Analysis.analyse (Resolve.resolveWith true p).root (Resolve.resolveWith true p).facts).plan.fns }
        ((Analysis.analyse (Resolve.resolveWith true p).root (Resolve.resolveWith true p).facts).warns.map warnDiag)
      simp only [List.map_map, Function.comp_def] at he
      simp only [eraseFront, eraseAccepted, eraseSpans, List.map_append, Function.comp_def, hw, he]

/-- **Everything behind the parser is span independent**: the pipeline from the resolver on shows
the same on a program and on its span erasure. -/
theorem runParsed_erase [NumOps N] (caps : Limits.Caps) (cfg : Eval.RunCfg) (fuel : Nat) (p : Block) :
    (obs (runParsed caps cfg fuel (eraseSpans p)) : Pipeline.Result N) = obs (runParsed caps cfg fuel p) := by
  unfold runParsed
  rw [afterParse_erase]
  cases afterParse caps p with
  | error ds => simp only [eraseFront, obs, map_eraseDiag_idem]
  | ok a =>
    simp only [eraseFront, eraseAccepted, obs, map_eraseDiag_idem, eraseSpans, run_erase, eraseOutcome_idem]

/-- Two programs that are equal up to spans show the same from the resolver on. -/
theorem runParsed_congr [NumOps N] (caps : Limits.Caps) (cfg : Eval.RunCfg) (fuel : Nat) {p q : Block}
    (h : eraseSpans p = eraseSpans q) :
    (obs (runParsed caps cfg fuel p) : Pipeline.Result N) = obs (runParsed caps cfg fuel q) := by
  rw [← runParsed_erase caps cfg fuel p, ← runParsed_erase caps cfg fuel q, h]

end NaijaVerif.SpanErase
