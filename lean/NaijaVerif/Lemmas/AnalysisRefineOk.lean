import NaijaVerif.Model.AnalysisPrims
/-
BRIDGE, part 3: the static side conditions of the refinement between the shared evaluator model
`Model/Eval.lean` and the C03 evaluator fragment `Model/AnalysisEval.lean` instantiated with
`evalPrims` (`Model/AnalysisPrims.lean`).

The two evaluators agree on ANNOTATED programs: every variable reference, interpolated variable,
assignment target and parameter carries its `LocalId`, every statement its `StmtId`, every call of
a user function its `FunctionId` (without an annotation `Eval` falls back to a search by name, the
fragment fails) — that is what the resolver produces for an accepted program.  Three further
conditions are not syntactic and are supplied as Boolean oracles (`Orc`) with a soundness
requirement (`OrcOk`):
* `num lex`   — the number lexeme parses (the scanner's guarantee; `Eval` traps at `numLit`, the
                 instance has no failing literal because `Lawful.num` asks for a value);
* `blk stmts` — the scope tag the fragment gives the block (`blockTag`: the facts' scope of its first
                 statement) is the declaring scope of exactly the locals `Eval` records for it
                 (`declIds`: the targets of its own `make` statements), and the definitions of the
                 block have distinct `FunctionId`s (`Eval` finds the last registered, the fragment
                 the first);
* `par ps`    — all parameters are bound, to distinct locals, and the tag of the parameter scope
                 (`paramTag`) is the declaring scope of exactly these locals.
-/
namespace NaijaVerif.C03
open NaijaVerif NaijaVerif.Analysis

structure Orc where
  num : Bytes → Bool
  blk : List Stmt → Bool
  par : List Param → Bool
  /-- member calls and index assignments are admitted -/
  members : Bool

/-- `tag = declaring_scope(l)` (the fragment's test) iff `l ∈ decls` (the test of `Eval`). -/
def TagOk (ds : Nat → Option Nat) (tag : Option Nat) (decls : List Nat) : Prop :=
  ∀ l, decls.contains l = true ↔ ∃ tg, ds l = some tg ∧ tag = some tg

structure OrcOk (N : Type) [NumOps N] (ds ss : Nat → Option Nat) (o : Orc) : Prop where
  num : ∀ lex, o.num lex = true → ∃ n : N, NumOps.ofLit lex = some n
  blk : ∀ stmts, o.blk stmts = true →
    TagOk ds (AEval.blockTag ss stmts) (Eval.declIds stmts) ∧ (Eval.fnIdsOf stmts).Nodup
  par : ∀ ps, o.par ps = true →
    (∀ p ∈ ps, p.bind.isSome = true) ∧ (ps.filterMap (·.bind)).Nodup ∧
      TagOk ds (AEval.paramTag ds ps) (ps.filterMap (·.bind))

def okSeg : Seg → Bool
  | .lit _ => true
  | .var _ b => b.isSome

mutual
  def okExpr (o : Orc) : Expr → Bool
    | .num lex _ => o.num lex
    | .str (.static _) _ => true
    | .str (.interp segs) _ => segs.all okSeg
    | .bool _ _ => true
    | .null _ => true
    | .var _ b _ => b.isSome
    | .binary _ l r _ => okExpr o l && okExpr o r
    | .unary _ x _ => okExpr o x
    | .array es _ => okExprs o es
    | .index a i _ _ => okExpr o a && okExpr o i
    | .member _ _ _ _ => true
    | .call (.member obj _ _ _) args _ _ => o.members && okExpr o obj && okExprs o args
    | .call (.var name _ _) args fn _ => okExprs o args && ((Eval.GlobalB.ofName name).isSome || fn.isSome)
    | .call (.index _ _ _ _) _ _ _ => true
    | .call (.str _ _) _ _ _ => true
    | .call (.num _ _) _ _ _ => true
    | .call (.binary _ _ _ _) _ _ _ => true
    | .call (.call _ _ _ _) _ _ _ => true
    | .call (.array _ _) _ _ _ => true
    | .call (.unary _ _ _) _ _ _ => true
    | .call (.bool _ _) _ _ _ => true
    | .call (.null _) _ _ _ => true
  def okExprs (o : Orc) : List Expr → Bool
    | [] => true
    | e :: es => okExpr o e && okExprs o es
end

mutual
  def okStmt (o : Orc) : Stmt → Bool
    | .assign _ _ e b sid _ => okExpr o e && b.isSome && sid.isSome
    | .assignExisting _ _ e b sid _ => okExpr o e && b.isSome && sid.isSome
    | .assignIndex t e sid _ => o.members && okExpr o t && okExpr o e && sid.isSome
    | .ifS c t e sid _ => okExpr o c && okBlock o t && okOptBlock o e && sid.isSome
    | .loop c b sid _ => okExpr o c && okBlock o b && sid.isSome
    | .block b sid _ => okBlock o b && sid.isSome
    | .fnDef _ _ ps body _ sid _ => o.par ps && okBlock o body && sid.isSome
    | .ret (some e) sid _ => okExpr o e && sid.isSome
    | .ret none sid _ => sid.isSome
    | .brk sid _ => sid.isSome
    | .cont sid _ => sid.isSome
    | .expr e sid _ => okExpr o e && sid.isSome
  def okStmts (o : Orc) : List Stmt → Bool
    | [] => true
    | s :: rest => okStmt o s && okStmts o rest
  def okBlock (o : Orc) : Block → Bool
    | .mk ss _ => o.blk ss && okStmts o ss
  def okOptBlock (o : Orc) : Option Block → Bool
    | none => true
    | some b => okBlock o b
end

theorem okStmt_sid {o : Orc} : ∀ {s : Stmt}, okStmt o s = true → ∃ i, s.sid = some i
  | .assign _ _ _ _ sid _, h | .assignExisting _ _ _ _ sid _, h | .assignIndex _ _ sid _, h
  | .ifS _ _ _ sid _, h | .loop _ _ sid _, h | .block _ sid _, h | .fnDef _ _ _ _ _ sid _, h
  | .ret (some _) sid _, h | .ret none sid _, h | .brk sid _, h | .cont sid _, h | .expr _ sid _, h => by
    simp only [okStmt, Bool.and_eq_true] at h
    cases sid with
    | none => simp at h
    | some i => exact ⟨i, rfl⟩

end NaijaVerif.C03
