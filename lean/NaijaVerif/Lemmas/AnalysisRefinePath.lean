import NaijaVerif.Lemmas.AnalysisRefineExpr
/-
BRIDGE, part 11: selected argument lists (`arg_at`), l-values and index paths: the fragment evaluates
them with `evalChecked` (no fuel of its own), `Eval` with `evalSel` / `evalIdxs`; the pure path
operations do not depend on the spans of the path.
-/
namespace NaijaVerif.C03
open NaijaVerif NaijaVerif.Analysis

variable {N : Type} [NumOps N] {B : Brg}

theorem okExprs_get {o : Orc} : ∀ {es : List Expr} {i : Nat} {e : Expr}, okExprs o es = true → es[i]? = some e →
    okExpr o e = true
  | [], _, _, _, h => by simp at h
  | x :: xs, 0, e, hok, h => by
      simp only [okExprs, Bool.and_eq_true] at hok
      simp only [List.getElem?_cons_zero, Option.some.injEq] at h
      subst h; exact hok.1
  | x :: xs, i + 1, e, hok, h => by
      simp only [okExprs, Bool.and_eq_true] at hok
      simp only [List.getElem?_cons_succ] at h
      exact okExprs_get hok.2 h

/-! ### The arguments a method reads -/

theorem sel_sim (hB : B.Ok N) {n : Nat} (IH : SimAt (N := N) B n) (args : List Expr) (hargs : okExprs B.o args = true)
    (sp : Span) : ∀ (idxs : List (Nat × Eval.PanicSite)), (∀ q ∈ idxs, siteErr q.2 = tmErr) →
    ∀ (s : Eval.State N) (t : AEval.St (VE N)), B.Sim s t →
    NF (AEval.evalChecked (AEval.evalExpr B.P B.ac n) tmErr (AEval.selArgs args (idxs.map (·.1))) t) →
    Ev B Eq (AEval.evalChecked (AEval.evalExpr B.P B.ac n) tmErr (AEval.selArgs args (idxs.map (·.1))) t)
      (fun f => Eval.evalSel B.rc f (Eval.pick args idxs sp) s)
  | [], _, s, t, hs, _ => by
      apply Ev.shift
      simp only [List.map_nil, AEval.selArgs, AEval.evalChecked, Eval.pick, Eval.evalSel]
      exact Ev.const (RSim.ok rfl hs)
  | (i, site) :: rest, hsite, s, t, hs, hnf => by
      apply Ev.shift
      have ih := sel_sim hB IH args hargs sp rest (fun q hq => hsite q (List.mem_cons_of_mem _ hq))
      simp only [List.map_cons, AEval.selArgs, Eval.pick] at hnf ⊢ ih
      cases hi : args[i]? with
      | none =>
        simp only [hi, AEval.evalChecked, Eval.evalSel]
        have := trap_sim (β := List (VE N)) hB hs.out site sp
        rw [hsite (i, site) (List.mem_cons_self ..)] at this
        exact Ev.const (RSim.err this)
      | some e =>
        simp only [hi, AEval.evalChecked] at hnf ⊢
        simp only [Eval.evalSel]
        have h1 := IH.expr e s t (okExprs_get hargs hi) hs
        ev_sub (AEval.evalExpr B.P B.ac n e t) as v t1 s1 hs1 with h1 hnf
        have h2 := ih s1 t1 hs1
        ev_sub (AEval.evalChecked (AEval.evalExpr B.P B.ac n) tmErr
          (List.map (fun i => (args[i]?, Except.ok)) (List.map (fun x => x.1) rest)) t1) as vs t2 s2 hs2 with h2 hnf
        exact Ev.const (RSim.ok rfl hs2)

/-! ### L-values -/

theorem lvalue_flatten (o : Orc) : ∀ (e : Expr) (acc : List (Expr × Span)), okExpr o e = true →
    match AEval.lvalue e with
    | some (root, p) => ∃ name sp idxs, Eval.flattenIdx e acc = (.var name (some root) sp, idxs ++ acc) ∧
        idxs.map (·.1) = p ∧ ∀ q ∈ idxs, okExpr o q.1 = true
    | none => ∀ name b sp, (Eval.flattenIdx e acc).1 ≠ .var name b sp
  | .var name b sp, acc, h => by
      simp only [okExpr] at h
      obtain ⟨id, rfl⟩ := Option.isSome_iff_exists.mp h
      simp only [AEval.lvalue, Eval.flattenIdx]
      exact ⟨name, sp, [], rfl, rfl, by simp⟩
  | .index a i isp sp, acc, h => by
      simp only [okExpr, Bool.and_eq_true] at h
      have ih := lvalue_flatten o a ((i, isp) :: acc) h.1
      simp only [AEval.lvalue, Eval.flattenIdx]
      cases hl : AEval.lvalue a with
      | none => simpa [hl] using ih
      | some rp =>
        obtain ⟨root, p⟩ := rp
        simp only [hl] at ih
        obtain ⟨name, vsp, idxs, hf, hm, hq⟩ := ih
        refine ⟨name, vsp, idxs ++ [(i, isp)], by simp [hf], by simp [hm], ?_⟩
        intro q hqm
        rcases List.mem_append.mp hqm with h1 | h1
        · exact hq q h1
        · simp only [List.mem_singleton] at h1; subst h1; exact h.2
  | .str _ _, _, _ | .num _ _, _, _ | .binary _ _ _ _, _, _ | .call _ _ _ _, _, _ | .array _ _, _, _
  | .unary _ _ _, _, _ | .bool _ _, _, _ | .member _ _ _ _, _, _ | .null _, _, _ => by
      simp [AEval.lvalue, Eval.flattenIdx]

/-- The two readings of a receiver / assignment target agree on annotated expressions. -/
theorem lv_sim (o : Orc) (e : Expr) (hok : okExpr o e = true) :
    match AEval.lvalue e with
    | some (root, p) => ∃ name idxs, Eval.lvOf e = .path name (some root) idxs ∧ idxs.map (·.1) = p ∧
        ∀ q ∈ idxs, okExpr o q.1 = true
    | none => Eval.lvOf e = .badRoot ∨ Eval.lvOf e = .other := by
  cases e with
  | var name b sp =>
    simp only [okExpr] at hok
    obtain ⟨id, rfl⟩ := Option.isSome_iff_exists.mp hok
    simp only [AEval.lvalue, Eval.lvOf]
    exact ⟨name, [], rfl, rfl, by simp⟩
  | index a i isp sp =>
    have h := lvalue_flatten o (.index a i isp sp) [] hok
    cases hl : AEval.lvalue (.index a i isp sp) with
    | none =>
      simp only [hl] at h
      left
      simp only [Eval.lvOf]
      generalize Eval.flattenIdx (.index a i isp sp) [] = fl at h
      obtain ⟨b, idxs⟩ := fl
      cases b <;> first | rfl | exact absurd rfl (h _ _ _)
    | some rp =>
      obtain ⟨root, p⟩ := rp
      simp only [hl] at h
      obtain ⟨name, vsp, idxs, hf, hm, hq⟩ := h
      simp only [Eval.lvOf, hf, List.append_nil]
      exact ⟨name, idxs, rfl, hm, hq⟩
  | str _ _ | num _ _ | binary _ _ _ _ | call _ _ _ _ | array _ _ | unary _ _ _ | bool _ _ | member _ _ _ _
  | null _ => simp [AEval.lvalue, Eval.lvOf]

/-! ### Index values and paths -/

theorem indexValue_cases (v : VE N) (sp1 sp2 : Span) :
    (∃ i, Eval.indexValue v sp1 = .ok i ∧ Eval.indexValue v sp2 = .ok i) ∨
    (∃ k, Eval.indexValue v sp1 = .error (.rt k sp1) ∧ Eval.indexValue v sp2 = .error (.rt k sp2)) := by
  cases v with
  | num x =>
    simp only [Eval.indexValue]
    split
    · exact Or.inr ⟨_, rfl, rfl⟩
    · split
      · exact Or.inr ⟨_, rfl, rfl⟩
      · exact Or.inl ⟨_, rfl, rfl⟩
  | str _ => exact Or.inr ⟨_, rfl, rfl⟩
  | bool _ => exact Or.inr ⟨_, rfl, rfl⟩
  | arr _ => exact Or.inr ⟨_, rfl, rfl⟩
  | host _ => exact Or.inr ⟨_, rfl, rfl⟩
  | null => exact Or.inr ⟨_, rfl, rfl⟩

/-- The fragment's evaluated path (checked index values) against `Eval`'s (indices with spans). -/
def PathRel (pvs : List (VE N)) (path : List (Nat × Span)) : Prop := path.map (·.1) = pvs.map idxDec

theorem idxs_sim (hB : B.Ok N) {n : Nat} (IH : SimAt (N := N) B n) :
    ∀ (idxs : List (Expr × Span)), (∀ q ∈ idxs, okExpr B.o q.1 = true) →
    ∀ (s : Eval.State N) (t : AEval.St (VE N)), B.Sim s t →
    NF (AEval.evalChecked (AEval.evalExpr B.P B.ac n) tmErr (AEval.pathItems idxChk (idxs.map (·.1))) t) →
    Ev B PathRel (AEval.evalChecked (AEval.evalExpr B.P B.ac n) tmErr (AEval.pathItems idxChk (idxs.map (·.1))) t)
      (fun f => Eval.evalIdxs B.rc f idxs s)
  | [], _, s, t, hs, _ => by
      apply Ev.shift
      simp only [List.map_nil, AEval.pathItems, AEval.evalChecked, Eval.evalIdxs]
      exact Ev.const (RSim.ok rfl hs)
  | (e, isp) :: rest, hq, s, t, hs, hnf => by
      apply Ev.shift
      have ih := idxs_sim hB IH rest (fun q hqm => hq q (List.mem_cons_of_mem _ hqm))
      simp only [List.map_cons, AEval.pathItems, AEval.evalChecked] at hnf ⊢ ih
      simp only [Eval.evalIdxs]
      have h1 := IH.expr e s t (hq (e, isp) (List.mem_cons_self ..)) hs
      ev_sub (AEval.evalExpr B.P B.ac n e t) as v t1 s1 hs1 with h1 hnf
      rcases indexValue_cases v noSpan isp with ⟨i, h0, hi⟩ | ⟨k, h0, hi⟩
      · simp only [idxChk, h0, liftE, Except.map, hi, Eval.Res.ofExcept, Eval.Res.bind] at hnf ⊢
        have h2 := ih s1 t1 hs1
        generalize AEval.evalChecked (AEval.evalExpr (V := VE N) B.P B.ac n) tmErr
          (List.map (fun e => (some e, idxChk)) (List.map (fun x => x.1) rest)) t1 = a2 at hnf h2 ⊢
        rcases a2 with ⟨er | vs, t2⟩
        · exact Ev.bind_err (h2 (nf_err hnf))
        refine Ev.bind_ok (h2 (nf_ok _ _)) (fun is s2 his hs2 => ?_)
        refine Ev.const (RSim.ok ?_ hs2)
        simp only [PathRel, List.map_cons, idxDec, h0] at his ⊢
        rw [his]
      · simp only [idxChk, h0, liftE, Except.map, hi, Eval.Res.ofExcept, Eval.Res.ofFault, Eval.Res.bind, faultErr]
        exact Ev.const (RSim.err ⟨Or.inl rfl, hs1.out⟩)

end NaijaVerif.C03
