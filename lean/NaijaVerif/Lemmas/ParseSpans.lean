import NaijaVerif.Lemmas.ParseFuel
import NaijaVerif.Lemmas.ParseDefs
/-
Span discipline of the parser model (property C07, parser part).

For an arbitrary predicate `P` on positions with `P 0` ("is a token boundary and within the
source"), every span the parser puts into the AST or into a diagnostic / label is `OkSpan`:
`lo ≤ hi`, both ends satisfy `P`, and `hi` is at most the end of the current look-ahead token.
The invariant `Good` of the parser state says that the current token and the unread tokens form an
ordered chain of `P`-positions and that all diagnostics recorded so far are `OkSpan`.
-/
namespace NaijaVerif.Parse
open NaijaVerif

/-! ### Definitions -/

/-- A sane span below the bound `b`. -/
def OkSpan (P : Nat → Prop) (b : Nat) (s : Span) : Prop :=
  s.lo ≤ s.hi ∧ s.hi ≤ b ∧ P s.lo ∧ P s.hi

/-- All spans of a list are sane below `b`. -/
def AllOk (P : Nat → Prop) (b : Nat) (l : List Span) : Prop := ∀ s ∈ l, OkSpan P b s

/-- The unread tokens are ordered, start at or after `h`, and their ends satisfy `P`. -/
def Chain (P : Nat → Prop) : Nat → List SpTok → Prop
  | _, [] => True
  | h, t :: ts => h ≤ t.span.lo ∧ t.span.lo ≤ t.span.hi ∧ P t.span.lo ∧ P t.span.hi ∧
      Chain P t.span.hi ts

/-- The parser-state invariant. -/
structure Good (P : Nat → Prop) (st : PState) : Prop where
  le : st.cur.span.lo ≤ st.cur.span.hi
  plo : P st.cur.span.lo
  phi : P st.cur.span.hi
  chain : Chain P st.cur.span.hi st.rest
  errs : ∀ d ∈ st.errs, AllOk P st.cur.span.hi (diagSpans d)

variable {P : Nat → Prop}

theorem OkSpan.mono {b b' : Nat} {s : Span} (h : OkSpan P b s) (hb : b ≤ b') : OkSpan P b' s :=
  ⟨h.1, Nat.le_trans h.2.1 hb, h.2.2.1, h.2.2.2⟩

theorem OkSpan.mk' {b lo hi : Nat} (h1 : lo ≤ hi) (h2 : hi ≤ b) (h3 : P lo) (h4 : P hi) :
    OkSpan P b ⟨lo, hi⟩ := ⟨h1, h2, h3, h4⟩

theorem OkSpan.zero (hP0 : P 0) (b : Nat) : OkSpan P b ⟨0, 0⟩ :=
  ⟨Nat.le_refl _, Nat.zero_le _, hP0, hP0⟩

@[simp] theorem AllOk_nil {b : Nat} : AllOk P b [] := by simp [AllOk]

@[simp] theorem AllOk_cons {b : Nat} {s : Span} {l : List Span} :
    AllOk P b (s :: l) ↔ OkSpan P b s ∧ AllOk P b l := by simp [AllOk]

@[simp] theorem AllOk_append {b : Nat} {l l' : List Span} :
    AllOk P b (l ++ l') ↔ AllOk P b l ∧ AllOk P b l' := by
  simp only [AllOk, List.mem_append]
  constructor
  · intro h; exact ⟨fun s hs => h s (Or.inl hs), fun s hs => h s (Or.inr hs)⟩
  · rintro ⟨h1, h2⟩ s (hs | hs)
    · exact h1 s hs
    · exact h2 s hs

theorem AllOk.mono {b b' : Nat} {l : List Span} (h : AllOk P b l) (hb : b ≤ b') : AllOk P b' l :=
  fun s hs => (h s hs).mono hb

theorem Good.okCur {st : PState} (hg : Good P st) : OkSpan P st.cur.span.hi st.cur.span :=
  ⟨hg.le, Nat.le_refl _, hg.plo, hg.phi⟩

/-! ### State transfer -/

/-- Moving forward to a new well-formed current token / rest keeps the invariant. -/
theorem Good.move {st st' : PState} (hg : Good P st) (hhi : st.cur.span.hi ≤ st'.cur.span.hi)
    (hle : st'.cur.span.lo ≤ st'.cur.span.hi) (hplo : P st'.cur.span.lo) (hphi : P st'.cur.span.hi)
    (hch : Chain P st'.cur.span.hi st'.rest) (he : st'.errs = st.errs) : Good P st' :=
  ⟨hle, hplo, hphi, hch, by rw [he]; exact fun d hd => (hg.errs d hd).mono hhi⟩

@[simp] theorem err_cur (st : PState) (k sp l) : (st.err k sp l).cur = st.cur := rfl
@[simp] theorem err_rest (st : PState) (k sp l) : (st.err k sp l).rest = st.rest := rfl
@[simp] theorem err1_cur (st : PState) (k sp) : (st.err1 k sp).cur = st.cur := rfl
@[simp] theorem err1_rest (st : PState) (k sp) : (st.err1 k sp).rest = st.rest := rfl
@[simp] theorem take_span (st : PState) : st.take.cur.span = st.cur.span := rfl
@[simp] theorem take_rest (st : PState) : st.take.rest = st.rest := rfl
@[simp] theorem take_errs (st : PState) : st.take.errs = st.errs := rfl

theorem Good.err {st : PState} (hg : Good P st) (k : DiagKind) {sp : Span} {labels : List Span}
    (hsp : OkSpan P st.cur.span.hi sp) (hl : AllOk P st.cur.span.hi labels) :
    Good P (st.err k sp labels) := by
  refine ⟨hg.le, hg.plo, hg.phi, hg.chain, ?_⟩
  intro d hd
  simp only [PState.err, List.mem_cons] at hd
  rcases hd with rfl | hd
  · simp only [diagSpans, AllOk_cons]; exact ⟨hsp, hl⟩
  · exact hg.errs d hd

theorem Good.err1 {st : PState} (hg : Good P st) (k : DiagKind) {sp : Span}
    (hsp : OkSpan P st.cur.span.hi sp) : Good P (st.err1 k sp) :=
  hg.err k hsp (by simp [hsp])

theorem Good.take {st : PState} (hg : Good P st) : Good P st.take :=
  ⟨hg.le, hg.plo, hg.phi, hg.chain, hg.errs⟩

/-- `bump`: the invariant is kept and the new token starts at or after the end of the old one. -/
theorem Good.bump {st : PState} (hg : Good P st) :
    Good P st.bump ∧ st.cur.span.hi ≤ st.bump.cur.span.lo := by
  unfold PState.bump
  cases hr : st.rest with
  | nil =>
    simp only [eofAt]
    refine ⟨⟨Nat.le_refl _, hg.phi, hg.phi, ?_, hg.errs⟩, Nat.le_refl _⟩
    simp [Chain]
  | cons t ts =>
    have hc := hg.chain
    rw [hr] at hc
    obtain ⟨h1, h2, h3, h4, h5⟩ := hc
    simp only
    exact ⟨⟨h2, h3, h4, h5, fun d hd => (hg.errs d hd).mono (by simp only; omega)⟩, h1⟩

theorem Good.bump_good {st : PState} (hg : Good P st) : Good P st.bump := hg.bump.1
theorem Good.bump_lo {st : PState} (hg : Good P st) : st.cur.span.hi ≤ st.bump.cur.span.lo := hg.bump.2
theorem Good.bump_hi {st : PState} (hg : Good P st) : st.cur.span.hi ≤ st.bump.cur.span.hi :=
  Nat.le_trans hg.bump.2 hg.bump.1.le

/-- `expect`: the invariant is kept when the reported span is sane; positions do not go back. -/
theorem Good.expect {st : PState} (hg : Good P st) (t : Tok) (k : DiagKind) {sp : Span}
    (hsp : OkSpan P st.cur.span.hi sp) :
    Good P (st.expect t k sp) ∧ st.cur.span.lo ≤ (st.expect t k sp).cur.span.lo ∧
      st.cur.span.hi ≤ (st.expect t k sp).cur.span.hi := by
  unfold PState.expect
  split
  · exact ⟨hg.bump_good, Nat.le_trans hg.le hg.bump_lo, hg.bump_hi⟩
  · exact ⟨hg.err1 k hsp, Nat.le_refl _, Nat.le_refl _⟩

theorem syncGo_good : ∀ (rest : List SpTok) (cur : SpTok) (errs : List Diag),
    Good P ⟨cur, rest, errs⟩ →
    Good P ⟨(syncGo cur rest).1, (syncGo cur rest).2, errs⟩ ∧
      cur.span.lo ≤ (syncGo cur rest).1.span.lo ∧ cur.span.hi ≤ (syncGo cur rest).1.span.hi := by
  intro rest
  induction rest with
  | nil =>
    intro cur errs hg
    simp only [syncGo]
    split
    · exact ⟨hg, Nat.le_refl _, Nat.le_refl _⟩
    · exact ⟨⟨Nat.le_refl _, hg.phi, hg.phi, trivial, hg.errs⟩, hg.le, Nat.le_refl _⟩
  | cons t ts ih =>
    intro cur errs hg
    simp only [syncGo]
    split
    · exact ⟨hg, Nat.le_refl _, Nat.le_refl _⟩
    · have hb := hg.bump
      simp only [PState.bump] at hb
      obtain ⟨h1, h2, h3⟩ := ih t errs hb.1
      have := hb.1.le
      have := hg.le
      have := hb.2
      simp only at *
      exact ⟨h1, by omega, by omega⟩

/-- `synchronize`. -/
theorem Good.sync {st : PState} (hg : Good P st) :
    Good P st.sync ∧ st.cur.span.lo ≤ st.sync.cur.span.lo ∧
      st.cur.span.hi ≤ st.sync.cur.span.hi := by
  unfold PState.sync
  exact syncGo_good st.rest st.cur st.errs hg

/-! ### Expression-level helpers -/

theorem atomOf_spans {t : SpTok} {e : Expr} (h : atomOf t = some e) :
    exprSpans e = [t.span] ∧ e.span = t.span := by
  unfold atomOf at h
  split at h <;> simp at h <;> subst h <;> simp [exprSpans, Expr.span]

theorem span_mem_exprSpans (e : Expr) : e.span ∈ exprSpans e := by
  cases e <;> simp [exprSpans, Expr.span]

theorem AllOk.span {b : Nat} {e : Expr} (h : AllOk P b (exprSpans e)) : OkSpan P b e.span :=
  h _ (span_mem_exprSpans e)

theorem parseField_good {st : PState} (hg : Good P st) :
    Good P (parseField st).2.2 ∧ st.cur.span.hi ≤ (parseField st).2.2.cur.span.hi ∧
      (parseField st).2.1 = st.cur.span := by
  unfold parseField
  split
  · exact ⟨hg.bump_good, hg.bump_hi, rfl⟩
  · split
    · exact ⟨(hg.err1 _ hg.okCur).bump_good, (hg.err1 .synReservedKeyword hg.okCur).bump_hi, rfl⟩
    · exact ⟨(hg.err1 _ hg.okCur).bump_good, (hg.err1 .expectedIdentifier hg.okCur).bump_hi, rfl⟩

theorem closeBracket_good {st : PState} (hg : Good P st) :
    Good P (closeBracket st).2 ∧ st.cur.span.hi ≤ (closeBracket st).2.cur.span.hi ∧
      (closeBracket st).1 = st.cur.span.hi := by
  unfold closeBracket
  split
  · exact ⟨hg.bump_good, hg.bump_hi, rfl⟩
  · exact ⟨hg.err1 _ hg.okCur, Nat.le_refl _, rfl⟩

/-! ### Statement-level helpers -/

theorem nameOrPlaceholder_good {st : PState} (hg : Good P st) {sp : Span}
    (hsp : OkSpan P st.cur.span.hi sp) :
    Good P (nameOrPlaceholder st sp).2 ∧ (nameOrPlaceholder st sp).2.cur = st.cur := by
  unfold nameOrPlaceholder
  split
  · exact ⟨hg, rfl⟩
  · split
    · exact ⟨hg.err1 _ hg.okCur, rfl⟩
    · exact ⟨hg.err1 _ hsp, rfl⟩

theorem paramStep_good {st : PState} {p : Param} {st' : PState} (h : paramStep st = some (p, st'))
    (hg : Good P st) : Good P st' ∧ p.span = st.cur.span := by
  unfold paramStep at h
  split at h
  · simp at h; obtain ⟨rfl, rfl⟩ := h; exact ⟨hg, rfl⟩
  · split at h
    · simp at h; obtain ⟨rfl, rfl⟩ := h; exact ⟨hg.err1 _ hg.okCur, rfl⟩
    · simp at h

theorem paramStep_bump {cur : SpTok} {rest : List SpTok} {errs : List Diag} {p : Param}
    {st : PState} (h : paramStep ⟨cur, rest, errs⟩ = some (p, st)) (hg : Good P ⟨cur, rest, errs⟩) :
    Good P st ∧ st.cur = cur ∧ st.rest = rest ∧ p.span = cur.span ∧ cur.span.lo ≤ cur.span.hi ∧
      Good P st.bump ∧ cur.span.hi ≤ st.bump.cur.span.lo ∧
      st.bump.cur.span.lo ≤ st.bump.cur.span.hi ∧ OkSpan P st.bump.cur.span.hi p.span := by
  obtain ⟨_, hc, hr⟩ := paramStep_some h
  obtain ⟨hg', hp⟩ := paramStep_good h hg
  have h1 := hg'.bump_lo
  have h2 := hg'.bump_good.le
  have h3 := hg.okCur
  simp only [hc] at h1
  simp only at hc hr hp h3
  refine ⟨hg', hc, hr, hp, hg.le, hg'.bump_good, h1, h2, ?_⟩
  rw [hp]; exact h3.mono (by omega)

theorem paramsGo_good (cur : SpTok) (errs : List Diag) (rest : List SpTok)
    (hg : Good P ⟨cur, rest, errs⟩) :
    Good P (paramsGo cur errs rest).2 ∧
      cur.span.lo ≤ (paramsGo cur errs rest).2.cur.span.lo ∧
      cur.span.hi ≤ (paramsGo cur errs rest).2.cur.span.hi ∧
      ∀ p ∈ (paramsGo cur errs rest).1,
        OkSpan P (paramsGo cur errs rest).2.cur.span.hi p.span ∧ cur.span.lo ≤ p.span.lo := by
  fun_induction paramsGo cur errs rest with
  | case1 cur errs h => exact ⟨hg, Nat.le_refl _, Nat.le_refl _, by simp⟩
  | case2 cur errs p st h =>
    obtain ⟨hg', hc, hr, hp, h0, hb, h1, h2, h3⟩ := paramStep_bump h hg
    refine ⟨hb, by simp only; omega, by simp only; omega, ?_⟩
    intro q hq; simp at hq; subst hq
    exact ⟨h3, by rw [hp]; exact Nat.le_refl _⟩
  | case3 cur errs t h => exact ⟨hg, Nat.le_refl _, Nat.le_refl _, by simp⟩
  | case4 cur errs t p st h st1 hcomma =>
    obtain ⟨hg', hc, hr, hp, h0, hb, h1, h2, h3⟩ := paramStep_bump h hg
    have h4 := hb.bump_lo
    have h5 := hb.bump_good.le
    refine ⟨hb.bump_good, by simp only [st1]; omega, by simp only [st1]; omega, ?_⟩
    intro q hq; simp at hq; subst hq
    exact ⟨h3.mono (by simp only [st1]; omega), by rw [hp]; exact Nat.le_refl _⟩
  | case5 cur errs t p st h st1 hcomma =>
    obtain ⟨hg', hc, hr, hp, h0, hb, h1, h2, h3⟩ := paramStep_bump h hg
    refine ⟨hb, by simp only [st1]; omega, by simp only [st1]; omega, ?_⟩
    intro q hq; simp at hq; subst hq
    exact ⟨h3, by rw [hp]; exact Nat.le_refl _⟩
  | case6 cur errs t u us h => exact ⟨hg, Nat.le_refl _, Nat.le_refl _, by simp⟩
  | case7 cur errs t u us p st h hcomma r ih =>
    obtain ⟨hg', hc, hr, hp, h0, hb, h1, h2, h3⟩ := paramStep_bump h hg
    have hbb := hb.bump
    have hst : st.bump.bump = ⟨u, us, st.errs⟩ := by
      simp [PState.bump, hr]
    have hst1 : st.bump.cur = t := by simp [PState.bump, hr]
    rw [hst] at hbb
    rw [hst1] at hbb h1 h2 h3
    obtain ⟨hbb1, hbb2⟩ := hbb
    simp only at hbb2
    obtain ⟨i1, i2, i3, i4⟩ := ih hbb1
    have := hbb1.le
    simp only at this
    refine ⟨i1, by simp only [r]; omega, by simp only [r]; omega, ?_⟩
    intro q hq
    simp only [List.mem_cons] at hq
    rcases hq with rfl | hq
    · exact ⟨h3.mono (by simp only [r]; omega), by rw [hp]; exact Nat.le_refl _⟩
    · obtain ⟨j1, j2⟩ := i4 q hq
      exact ⟨j1, by omega⟩
  | case8 cur errs t u us p st h hcomma =>
    obtain ⟨hg', hc, hr, hp, h0, hb, h1, h2, h3⟩ := paramStep_bump h hg
    refine ⟨hb, by simp only; omega, by simp only; omega, ?_⟩
    intro q hq; simp at hq; subst hq
    exact ⟨h3, by rw [hp]; exact Nat.le_refl _⟩

theorem parseParams_good {st : PState} (hg : Good P st) :
    Good P (parseParams st).2 ∧
      st.cur.span.lo ≤ (parseParams st).2.cur.span.lo ∧
      st.cur.span.hi ≤ (parseParams st).2.cur.span.hi ∧
      ∀ p ∈ (parseParams st).1,
        OkSpan P (parseParams st).2.cur.span.hi p.span ∧ st.cur.span.lo ≤ p.span.lo :=
  paramsGo_good st.cur st.errs st.rest hg

/-- Two `expect`s in a row reporting `start..x` and `start..(end of the first token)`: the tail of
    `parse_function_def`'s header and of the `( cond ) start` header. -/
theorem expect2_good {st : PState} (hg : Good P st) {start x : Nat} (h1 : start ≤ x)
    (h2 : x ≤ st.cur.span.hi) (hps : P start) (hpx : P x) (t1 t2 : Tok) (k1 k2 : DiagKind) :
    Good P ((st.expect t1 k1 ⟨start, x⟩).expect t2 k2 ⟨start, st.cur.span.hi⟩) ∧
      st.cur.span.hi ≤ (st.expect t1 k1 ⟨start, x⟩).cur.span.hi ∧
      (st.expect t1 k1 ⟨start, x⟩).cur.span.hi ≤
        ((st.expect t1 k1 ⟨start, x⟩).expect t2 k2 ⟨start, st.cur.span.hi⟩).cur.span.hi ∧
      OkSpan P ((st.expect t1 k1 ⟨start, x⟩).expect t2 k2 ⟨start, st.cur.span.hi⟩).cur.span.hi
        (st.expect t1 k1 ⟨start, x⟩).cur.span ∧
      OkSpan P ((st.expect t1 k1 ⟨start, x⟩).expect t2 k2 ⟨start, st.cur.span.hi⟩).cur.span.hi
        st.cur.span := by
  have h6 := hg.expect t1 k1 (sp := ⟨start, x⟩) (OkSpan.mk' h1 h2 hps hpx)
  have h5ok := hg.okCur
  generalize st.expect t1 k1 ⟨start, x⟩ = s6 at *
  have h7 := h6.1.expect t2 k2 (sp := ⟨start, st.cur.span.hi⟩)
    (OkSpan.mk' (by omega) (by omega) hps hg.phi)
  have h6ok := h6.1.okCur
  generalize s6.expect t2 k2 ⟨start, st.cur.span.hi⟩ = s7 at *
  exact ⟨h7.1, by omega, by omega, h6ok.mono (by omega), h5ok.mono (by omega)⟩

theorem parseFnHeader_good {st : PState} (hg : Good P st) {start : Nat}
    (hs : start ≤ st.cur.span.hi) (hps : P start) :
    Good P (parseFnHeader start st).2 ∧
      st.cur.span.hi ≤ (parseFnHeader start st).2.cur.span.hi ∧
      (parseFnHeader start st).1.doSpan = st.cur.span ∧
      OkSpan P (parseFnHeader start st).2.cur.span.hi (parseFnHeader start st).1.rparenSpan ∧
      st.cur.span.hi ≤ (parseFnHeader start st).1.rparenSpan.hi ∧
      OkSpan P (parseFnHeader start st).2.cur.span.hi (parseFnHeader start st).1.startSpan ∧
      st.cur.span.hi ≤ (parseFnHeader start st).1.startSpan.hi ∧
      ∀ p ∈ (parseFnHeader start st).1.params,
        OkSpan P (parseFnHeader start st).2.cur.span.hi p.span := by
  unfold parseFnHeader
  simp only []
  have h1 := hg.bump
  have h0 := hg.okCur
  have h0' := hg.le
  generalize st.bump = s1 at *
  have h1' := h1.1.le
  have h2 := nameOrPlaceholder_good h1.1 (sp := st.cur.span) (h0.mono (by omega))
  generalize nameOrPlaceholder s1 st.cur.span = q at *
  obtain ⟨name, s2⟩ := q
  dsimp only at *
  obtain ⟨h2g, h2c⟩ := h2
  have h3 := h2g.bump
  rw [h2c] at h3
  generalize s2.bump = s3 at *
  have h3' := h3.1.le
  have h4 := h3.1.expect .lparen .expectedLParen (sp := ⟨start, s1.cur.span.hi⟩)
    (OkSpan.mk' (by omega) (by omega) hps h1.1.phi)
  generalize s3.expect .lparen .expectedLParen ⟨start, s1.cur.span.hi⟩ = s4 at *
  have h5 := parseParams_good h4.1
  generalize parseParams s4 = pp at *
  obtain ⟨params, s5⟩ := pp
  dsimp only at *
  obtain ⟨h5g, h5lo, h5hi, h5p⟩ := h5
  have h3phi := h3.1.phi
  split
  · rename_i p hp
    obtain ⟨⟨a1, a2, a3, a4⟩, a5⟩ := h5p p (List.mem_of_getLast? hp)
    obtain ⟨e1, e2, e3, e4, e5⟩ := expect2_good h5g (start := start) (x := p.span.hi) (by omega) a2 hps a4
      .rparen .start .expectedRParen .expectedStartBlock
    refine ⟨e1, by omega, trivial, e5, by omega, e4, by omega, ?_⟩
    intro p hp
    exact (h5p p hp).1.mono (by omega)
  · obtain ⟨e1, e2, e3, e4, e5⟩ := expect2_good h5g (start := start) (x := s3.cur.span.hi) (by omega)
      (by omega) hps h3phi .rparen .start .expectedRParen .expectedStartBlock
    refine ⟨e1, by omega, trivial, e5, by omega, e4, by omega, ?_⟩
    intro p hp
    exact (h5p p hp).1.mono (by omega)

theorem parseMakeHeader_good (hP0 : P 0) {st : PState} (hg : Good P st) :
    Good P (parseMakeHeader st).2.2 ∧
      st.cur.span.hi ≤ (parseMakeHeader st).2.2.cur.span.hi ∧
      OkSpan P (parseMakeHeader st).2.2.cur.span.hi (parseMakeHeader st).2.1 := by
  unfold parseMakeHeader
  simp only []
  have h1 := hg.bump
  have h0 := hg.okCur
  have h0' := hg.le
  generalize st.bump = s1 at *
  have h1' := h1.1.le
  have h1ok := h1.1.okCur
  split
  · have := h1.1.bump_hi
    exact ⟨h1.1.bump_good, by simp only; omega, h1ok.mono (by simp only; omega)⟩
  · split
    · have hb := (h1.1.err1 .synReservedKeyword h1ok).bump
      have := hb.1.le
      refine ⟨hb.1, ?_, h1ok.mono ?_⟩ <;> simp only [err1_cur] at * <;> omega
    · have hb := (h1.1.err1 .expectedIdentifier (sp := st.cur.span) (h0.mono (by omega))).bump
      have := hb.1.le
      refine ⟨hb.1, ?_, OkSpan.zero hP0 _⟩
      simp only [err1_cur] at *; omega

theorem openCond_good {st : PState} (hg : Good P st) {kw : Span}
    (hkw : OkSpan P st.cur.span.hi kw) :
    Good P (openCond kw st) ∧ st.cur.span.lo ≤ (openCond kw st).cur.span.lo ∧
      st.cur.span.hi ≤ (openCond kw st).cur.span.hi :=
  hg.expect _ _ hkw

theorem closeCond_good {st : PState} (hg : Good P st) {start : Nat} {cond : Expr}
    (h1 : start ≤ cond.span.hi) (h2 : cond.span.hi ≤ st.cur.span.hi) (hps : P start)
    (hpx : P cond.span.hi) :
    Good P (closeCond start cond st).2 ∧
      st.cur.span.hi ≤ (closeCond start cond st).2.cur.span.hi ∧
      OkSpan P (closeCond start cond st).2.cur.span.hi (closeCond start cond st).1 ∧
      st.cur.span.hi ≤ (closeCond start cond st).1.hi := by
  unfold closeCond
  simp only []
  obtain ⟨e1, e2, e3, e4, e5⟩ := expect2_good hg h1 h2 hps hpx
    .rparen .start .expectedRParen .expectedStartBlock
  exact ⟨e1, by omega, e4, e2⟩

theorem finishAssign_good (hP0 : P 0) {st : PState} (hg : Good P st) {start : Nat}
    {target value : Expr} (hs : start ≤ st.cur.span.hi) (hps : P start)
    (ht : AllOk P st.cur.span.hi (exprSpans target))
    (hv : AllOk P st.cur.span.hi (exprSpans value)) :
    Good P (finishAssign start target value st).2 ∧
      (finishAssign start target value st).2.cur = st.cur ∧
      AllOk P st.cur.span.hi (stmtSpans (finishAssign start target value st).1) := by
  have hsp : OkSpan P st.cur.span.hi ⟨start, st.cur.span.hi⟩ :=
    OkSpan.mk' hs (Nat.le_refl _) hps hg.phi
  unfold finishAssign
  split
  · refine ⟨hg, rfl, ?_⟩
    simp only [exprSpans, AllOk_cons] at ht
    simp only [stmtSpans, AllOk_cons]
    exact ⟨ht.1, hsp, hv⟩
  · refine ⟨hg, rfl, ?_⟩
    simp only [stmtSpans, AllOk_cons, AllOk_append]
    exact ⟨hsp, ht, hv⟩
  · refine ⟨hg.err1 _ hsp, rfl, ?_⟩
    simp only [stmtSpans, exprSpans, AllOk_cons]
    exact ⟨OkSpan.zero hP0 _, OkSpan.zero hP0 _, AllOk_nil⟩

/-! ### Expressions -/

theorem expr_spans : ∀ f,
    (∀ bp st e st', parseExpr f bp st = some (e, st') → Good P st →
      Good P st' ∧ st.cur.span.hi ≤ st'.cur.span.hi ∧ AllOk P st'.cur.span.hi (exprSpans e) ∧
        st.cur.span.lo ≤ e.span.lo) ∧
    (∀ bp lhs st e st', parseCont f bp lhs st = some (e, st') → Good P st →
      AllOk P st.cur.span.hi (exprSpans lhs) →
      Good P st' ∧ st.cur.span.hi ≤ st'.cur.span.hi ∧ AllOk P st'.cur.span.hi (exprSpans e) ∧
        e.span.lo = lhs.span.lo) ∧
    (∀ c st es st', parseElems f c st = some (es, st') → Good P st →
      Good P st' ∧ st.cur.span.hi ≤ st'.cur.span.hi ∧
        AllOk P st'.cur.span.hi (exprsSpans es)) := by
  intro f
  induction f with
  | zero => simp [parseExpr, parseCont, parseElems]
  | succ f ih =>
    obtain ⟨ihe, ihc, ihl⟩ := ih
    refine ⟨?_, ?_, ?_⟩
    · intro bp st r st' h hg
      rw [parseExpr] at h
      simp only [] at h
      have hb := hg.bump
      have hble := hb.1.le
      have hle := hg.le
      split at h
      · -- atom
        rename_i e heq
        obtain ⟨hs, hsp⟩ := atomOf_spans heq
        obtain ⟨g, h1, h2, h3⟩ := ihc _ _ _ _ _ h hb.1
          (by rw [hs]; simp only [AllOk_cons, AllOk_nil, and_true]; exact hg.okCur.mono (by omega))
        exact ⟨g, by omega, h2, by rw [h3, hsp]; exact Nat.le_refl _⟩
      · split at h
        · -- prefix operator
          rename_i op ubp heq
          split at h
          · cases h
          · rename_i e st1 h1
            obtain ⟨g1, a1, a2, a3⟩ := ihe _ _ _ _ h1 hb.1
            obtain ⟨g, b1, b2, b3⟩ := ihc _ _ _ _ _ h g1
              (by simp only [exprSpans, AllOk_cons]
                  exact ⟨OkSpan.mk' (by omega) (Nat.le_refl _) hg.plo g1.phi, a2⟩)
            exact ⟨g, by omega, b2, by rw [b3]; exact Nat.le_refl _⟩
        · split at h
          · -- parenthesis
            split at h
            · cases h
            · rename_i e st1 h1
              obtain ⟨g1, a1, a2, a3⟩ := ihe _ _ _ _ h1 hb.1
              obtain ⟨x1, x2, x3⟩ := g1.expect .rparen .expectedNumberOrVariableOrLParen g1.okCur
              obtain ⟨g, b1, b2, b3⟩ := ihc _ _ _ _ _ h x1 (a2.mono x3)
              exact ⟨g, by omega, b2, by rw [b3]; omega⟩
          · split at h
            · -- array literal
              split at h
              · cases h
              · rename_i es st2 h2
                have hel : Good P st2 ∧ st.bump.cur.span.hi ≤ st2.cur.span.hi ∧
                    AllOk P st2.cur.span.hi (exprsSpans es) := by
                  split at h2
                  · cases h2; exact ⟨hb.1, Nat.le_refl _, by simp [exprsSpans]⟩
                  · exact ihl _ _ _ _ h2 hb.1
                obtain ⟨g2, a1, a2⟩ := hel
                obtain ⟨c1, c2, c3⟩ := closeBracket_good g2
                generalize closeBracket st2 = q at *
                obtain ⟨e, st3⟩ := q
                dsimp only at *
                subst c3
                obtain ⟨g, b1, b2, b3⟩ := ihc _ _ _ _ _ h c1
                  (by simp only [exprSpans, AllOk_cons]
                      exact ⟨OkSpan.mk' (by omega) c2 hg.plo g2.phi, a2.mono c2⟩)
                exact ⟨g, by omega, b2, by rw [b3]; exact Nat.le_refl _⟩
            · -- fallback
              obtain ⟨s1, s2, s3⟩ := (hg.take.err1 .expectedNumberOrVariableOrLParen
                (sp := st.cur.span) hg.okCur).sync
              simp only [err1_cur, take_span] at s2 s3
              obtain ⟨g, b1, b2, b3⟩ := ihc _ _ _ _ _ h s1
                (by simp only [exprSpans, AllOk_cons, AllOk_nil, and_true]; exact s1.okCur)
              exact ⟨g, by omega, b2, by rw [b3]; exact s2⟩
    · intro bp lhs st r st' h hg hl
      rw [parseCont] at h
      simp only [] at h
      have hb := hg.bump
      have hble := hb.1.le
      have hle := hg.le
      obtain ⟨l1, l2, l3, l4⟩ := hl.span
      split at h
      · -- member
        obtain ⟨c1, c2, c3⟩ := parseField_good hb.1
        generalize parseField st.bump = q at *
        obtain ⟨field, fsp, st1⟩ := q
        dsimp only at *
        subst c3
        obtain ⟨g, b1, b2, b3⟩ := ihc _ _ _ _ _ h c1
          (by simp only [exprSpans, AllOk_cons]
              exact ⟨hb.1.okCur.mono c2, OkSpan.mk' (by omega) (Nat.le_refl _) l3 c1.phi,
                hl.mono (by omega)⟩)
        exact ⟨g, by omega, b2, by rw [b3]; rfl⟩
      · split at h
        · -- call
          split at h
          · cases h
          · rename_i args st2 h2
            have hel : Good P st2 ∧ st.bump.cur.span.hi ≤ st2.cur.span.hi ∧
                AllOk P st2.cur.span.hi (exprsSpans args) := by
              split at h2
              · cases h2; exact ⟨hb.1, Nat.le_refl _, by simp [exprsSpans]⟩
              · exact ihl _ _ _ _ h2 hb.1
            obtain ⟨g2, a1, a2⟩ := hel
            obtain ⟨x1, x2, x3⟩ := g2.expect .rparen .expectedRParen g2.okCur
            obtain ⟨g, b1, b2, b3⟩ := ihc _ _ _ _ _ h x1
              (by simp only [exprSpans, AllOk_cons, AllOk_append]
                  exact ⟨OkSpan.mk' (by omega) (Nat.le_refl _) l3 x1.phi, hl.mono (by omega),
                    a2.mono x3⟩)
            exact ⟨g, by omega, b2, by rw [b3]; rfl⟩
        · split at h
          · -- index
            split at h
            · cases h
            · rename_i ix st1 h1
              obtain ⟨g1, a1, a2, a3⟩ := ihe _ _ _ _ h1 hb.1
              obtain ⟨c1, c2, c3⟩ := closeBracket_good g1
              generalize closeBracket st1 = q at *
              obtain ⟨e, st2⟩ := q
              dsimp only at *
              subst c3
              obtain ⟨g, b1, b2, b3⟩ := ihc _ _ _ _ _ h c1
                (by simp only [exprSpans, AllOk_cons, AllOk_append]
                    exact ⟨OkSpan.mk' (by omega) c2 hg.plo g1.phi,
                      OkSpan.mk' (by omega) c2 l3 g1.phi, hl.mono (by omega), a2.mono c2⟩)
              exact ⟨g, by omega, b2, by rw [b3]; rfl⟩
          · split at h
            · simp only [Option.some.injEq, Prod.mk.injEq] at h
              obtain ⟨rfl, rfl⟩ := h
              exact ⟨hg, Nat.le_refl _, hl, rfl⟩
            · rename_i op lbp rbp heq
              split at h
              · simp only [Option.some.injEq, Prod.mk.injEq] at h
                obtain ⟨rfl, rfl⟩ := h
                exact ⟨hg, Nat.le_refl _, hl, rfl⟩
              · split at h
                · cases h
                · rename_i rhs st1 h1
                  obtain ⟨g1, a1, a2, a3⟩ := ihe _ _ _ _ h1 hb.1
                  obtain ⟨g, b1, b2, b3⟩ := ihc _ _ _ _ _ h g1
                    (by simp only [exprSpans, AllOk_cons, AllOk_append]
                        exact ⟨OkSpan.mk' (by omega) (Nat.le_refl _) l3 g1.phi,
                          hl.mono (by omega), a2⟩)
                  exact ⟨g, by omega, b2, by rw [b3]; rfl⟩
    · intro c st r st' h hg
      rw [parseElems] at h
      split at h
      · cases h
      · rename_i e st1 h1
        obtain ⟨g1, a1, a2, a3⟩ := ihe _ _ _ _ h1 hg
        have hb := g1.bump
        have hble := hb.1.le
        split at h
        · simp only [] at h
          split at h
          · simp only [Option.some.injEq, Prod.mk.injEq] at h
            obtain ⟨rfl, rfl⟩ := h
            refine ⟨hb.1, by omega, ?_⟩
            simp only [exprsSpans, AllOk_append, AllOk_nil, and_true]
            exact a2.mono (by omega)
          · split at h
            · cases h
            · rename_i es st3 h3
              simp only [Option.some.injEq, Prod.mk.injEq] at h
              obtain ⟨rfl, rfl⟩ := h
              obtain ⟨g3, d1, d2⟩ := ihl _ _ _ _ h3 hb.1
              refine ⟨g3, by omega, ?_⟩
              simp only [exprsSpans, AllOk_append]
              exact ⟨a2.mono (by omega), d2⟩
        · simp only [Option.some.injEq, Prod.mk.injEq] at h
          obtain ⟨rfl, rfl⟩ := h
          refine ⟨g1, a1, ?_⟩
          simp only [exprsSpans, AllOk_append, AllOk_nil, and_true]
          exact a2

/-! ### Statements -/

theorem stmt_spans (hP0 : P 0) : ∀ f,
    (∀ st s st', parseStmt f st = some (s, st') → Good P st →
      Good P st' ∧ st.cur.span.hi ≤ st'.cur.span.hi ∧ AllOk P st'.cur.span.hi (stmtSpans s)) ∧
    (∀ st ss st', parseStmts f st = some (ss, st') → Good P st →
      Good P st' ∧ st.cur.span.hi ≤ st'.cur.span.hi ∧ AllOk P st'.cur.span.hi (stmtsSpans ss)) ∧
    (∀ st b st', parseBlock f st = some (b, st') → Good P st →
      Good P st' ∧ st.cur.span.hi ≤ st'.cur.span.hi ∧ AllOk P st'.cur.span.hi (blockSpans b)) := by
  intro f
  induction f with
  | zero => simp [parseStmt, parseStmts, parseBlock]
  | succ f ih =>
    obtain ⟨ihs, ihl, ihb⟩ := ih
    have he := (expr_spans (P := P) f).1
    have hc := (expr_spans (P := P) f).2.1
    refine ⟨?_, ?_, ?_⟩
    · intro st r st' h hg
      rw [parseStmt] at h
      simp only [] at h
      have hb := hg.bump
      have hble := hb.1.le
      have hle := hg.le
      split at h
      · -- do
        obtain ⟨c1, c2, c3, c4, c5, c6, c7, c8⟩ :=
          parseFnHeader_good hg (start := st.cur.span.lo) hle hg.plo
        generalize parseFnHeader st.cur.span.lo st = q at *
        obtain ⟨hd, st1⟩ := q
        dsimp only at *
        obtain ⟨r1, r2, r3, r4⟩ := c4
        obtain ⟨s1, s2, s3, s4⟩ := c6
        split at h
        · cases h
        · rename_i body st2 h2
          obtain ⟨g2, a1, a2⟩ := ihb _ _ _ h2 c1
          obtain ⟨x1, x2, x3⟩ := g2.expect .end .unterminatedBlock
            (sp := ⟨st.cur.span.lo, hd.startSpan.hi⟩)
            (OkSpan.mk' (by omega) (by omega) hg.plo s4)
          simp only [Option.some.injEq, Prod.mk.injEq] at h
          obtain ⟨rfl, rfl⟩ := h
          refine ⟨x1, by omega, ?_⟩
          simp only [stmtSpans, AllOk_cons, AllOk_append]
          refine ⟨OkSpan.mk' (by rw [c3]; omega) (by omega) (by rw [c3]; exact hg.plo) r4,
            OkSpan.mk' (by omega) (Nat.le_refl _) hg.plo x1.phi, ?_, a2.mono x3⟩
          intro sp hsp
          simp only [List.mem_map] at hsp
          obtain ⟨p, hp, rfl⟩ := hsp
          exact (c8 p hp).mono (by omega)
      · -- return
        split at h
        · simp only [Option.some.injEq, Prod.mk.injEq] at h
          obtain ⟨rfl, rfl⟩ := h
          refine ⟨hb.1, by omega, ?_⟩
          simp only [stmtSpans, AllOk_cons, AllOk_nil, and_true]
          exact OkSpan.mk' (by omega) (Nat.le_refl _) hg.plo hb.1.phi
        · split at h
          · cases h
          · rename_i e st2 h2
            obtain ⟨g2, a1, a2, a3⟩ := he _ _ _ _ h2 hb.1
            simp only [Option.some.injEq, Prod.mk.injEq] at h
            obtain ⟨rfl, rfl⟩ := h
            refine ⟨g2, by omega, ?_⟩
            simp only [stmtSpans, AllOk_cons]
            exact ⟨OkSpan.mk' (by omega) (Nat.le_refl _) hg.plo g2.phi, a2⟩
      · -- make
        obtain ⟨c1, c2, c3⟩ := parseMakeHeader_good hP0 hg
        generalize parseMakeHeader st = q at *
        obtain ⟨name, nsp, st1⟩ := q
        dsimp only at *
        split at h
        · split at h
          · cases h
          · rename_i e st2 h2
            have hb1 := c1.bump
            have := hb1.1.le
            obtain ⟨g2, a1, a2, a3⟩ := he _ _ _ _ h2 hb1.1
            simp only [Option.some.injEq, Prod.mk.injEq] at h
            obtain ⟨rfl, rfl⟩ := h
            refine ⟨g2, by omega, ?_⟩
            simp only [stmtSpans, AllOk_cons]
            exact ⟨c3.mono (by omega), OkSpan.mk' (by omega) (Nat.le_refl _) hg.plo g2.phi, a2⟩
        · simp only [Option.some.injEq, Prod.mk.injEq] at h
          obtain ⟨rfl, rfl⟩ := h
          refine ⟨c1, c2, ?_⟩
          simp only [stmtSpans, exprSpans, AllOk_cons, AllOk_nil, and_true]
          exact ⟨c3, OkSpan.mk' (by omega) (Nat.le_refl _) hg.plo c1.phi, c3⟩
      · -- if to say
        obtain ⟨o1, o2, o3⟩ := openCond_good hb.1 (kw := st.cur.span) (hg.okCur.mono (by omega))
        generalize openCond st.cur.span st.bump = st1 at *
        split at h
        · cases h
        · rename_i cond st2 h2
          obtain ⟨g2, a1, a2, a3⟩ := he _ _ _ _ h2 o1
          obtain ⟨k1, k2, k3, k4⟩ := a2.span
          obtain ⟨c1, c2, c3, c4⟩ := closeCond_good g2 (start := st.cur.span.lo) (cond := cond)
            (by omega) k2 hg.plo k4
          generalize closeCond st.cur.span.lo cond st2 = q at *
          obtain ⟨ssp, st3⟩ := q
          dsimp only at *
          split at h
          · cases h
          · rename_i thenB st4 h4
            obtain ⟨g4, d1, d2⟩ := ihb _ _ _ h4 c1
            obtain ⟨x1, x2, x3⟩ := g4.expect .end .unterminatedBlock g4.okCur
            generalize st4.expect .end .unterminatedBlock st4.cur.span = st5 at *
            have x1le := x1.le
            split at h
            · -- else branch
              have hb5 := x1.bump
              have := hb5.1.le
              obtain ⟨y1, y2, y3⟩ := hb5.1.expect .start .expectedStartBlock (sp := st5.cur.span)
                (x1.okCur.mono (by omega))
              generalize st5.bump.expect .start .expectedStartBlock st5.cur.span = st7 at *
              split at h
              · cases h
              · rename_i elseB st8 h8
                obtain ⟨g8, e1, e2⟩ := ihb _ _ _ h8 y1
                obtain ⟨z1, z2, z3⟩ := g8.expect .end .unterminatedBlock
                  (sp := ⟨st5.cur.span.lo, st5.bump.cur.span.hi⟩)
                  (OkSpan.mk' (by omega) (by omega) x1.plo hb5.1.phi)
                simp only [Option.some.injEq, Prod.mk.injEq] at h
                obtain ⟨rfl, rfl⟩ := h
                refine ⟨z1, by omega, ?_⟩
                simp only [stmtSpans, AllOk_cons, AllOk_append]
                exact ⟨OkSpan.mk' (by omega) (Nat.le_refl _) hg.plo z1.phi,
                  ⟨a2.mono (by omega), d2.mono (by omega)⟩, e2.mono z3⟩
            · simp only [Option.some.injEq, Prod.mk.injEq] at h
              obtain ⟨rfl, rfl⟩ := h
              refine ⟨x1, by omega, ?_⟩
              simp only [stmtSpans, AllOk_cons, AllOk_append]
              exact ⟨OkSpan.mk' (by omega) (Nat.le_refl _) hg.plo x1.phi, a2.mono (by omega),
                d2.mono x3⟩
      · -- jasi
        obtain ⟨o1, o2, o3⟩ := openCond_good hb.1 (kw := st.cur.span) (hg.okCur.mono (by omega))
        generalize openCond st.cur.span st.bump = st1 at *
        split at h
        · cases h
        · rename_i cond st2 h2
          obtain ⟨g2, a1, a2, a3⟩ := he _ _ _ _ h2 o1
          obtain ⟨k1, k2, k3, k4⟩ := a2.span
          obtain ⟨c1, c2, c3, c4⟩ := closeCond_good g2 (start := st.cur.span.lo) (cond := cond)
            (by omega) k2 hg.plo k4
          generalize closeCond st.cur.span.lo cond st2 = q at *
          obtain ⟨ssp, st3⟩ := q
          dsimp only at *
          obtain ⟨s1, s2, s3, s4⟩ := c3
          split at h
          · cases h
          · rename_i body st4 h4
            obtain ⟨g4, d1, d2⟩ := ihb _ _ _ h4 c1
            obtain ⟨x1, x2, x3⟩ := g4.expect .end .unterminatedBlock
              (sp := ⟨st.cur.span.lo, ssp.hi⟩) (OkSpan.mk' (by omega) (by omega) hg.plo s4)
            simp only [Option.some.injEq, Prod.mk.injEq] at h
            obtain ⟨rfl, rfl⟩ := h
            refine ⟨x1, by omega, ?_⟩
            simp only [stmtSpans, AllOk_cons, AllOk_append]
            exact ⟨OkSpan.mk' (by omega) (Nat.le_refl _) hg.plo x1.phi, a2.mono (by omega),
              d2.mono x3⟩
      · -- comot
        simp only [Option.some.injEq, Prod.mk.injEq] at h
        obtain ⟨rfl, rfl⟩ := h
        refine ⟨hb.1, by omega, ?_⟩
        simp only [stmtSpans, AllOk_cons, AllOk_nil, and_true]
        exact OkSpan.mk' (by omega) (Nat.le_refl _) hg.plo hb.1.phi
      · -- next
        simp only [Option.some.injEq, Prod.mk.injEq] at h
        obtain ⟨rfl, rfl⟩ := h
        refine ⟨hb.1, by omega, ?_⟩
        simp only [stmtSpans, AllOk_cons, AllOk_nil, and_true]
        exact OkSpan.mk' (by omega) (Nat.le_refl _) hg.plo hb.1.phi
      · -- start
        split at h
        · cases h
        · rename_i b st1 h1
          obtain ⟨g1, d1, d2⟩ := ihb _ _ _ h1 hb.1
          obtain ⟨x1, x2, x3⟩ := g1.expect .end .unterminatedBlock g1.okCur
          simp only [Option.some.injEq, Prod.mk.injEq] at h
          obtain ⟨rfl, rfl⟩ := h
          refine ⟨x1, by omega, ?_⟩
          simp only [stmtSpans, AllOk_cons]
          exact ⟨OkSpan.mk' (by omega) (Nat.le_refl _) hg.plo x1.phi, d2.mono x3⟩
      · -- identifier
        rename_i v heq
        split at h
        · cases h
        · rename_i target st1 h1
          obtain ⟨g1, a1, a2, a3⟩ := hc _ _ _ _ _ h1 hb.1
            (by simp only [exprSpans, AllOk_cons, AllOk_nil, and_true]
                exact hg.okCur.mono (by omega))
          split at h
          · split at h
            · cases h
            · rename_i value st2 h2
              have hb1 := g1.bump
              have := hb1.1.le
              obtain ⟨g2, b1, b2, b3⟩ := he _ _ _ _ h2 hb1.1
              obtain ⟨f1, f2, f3⟩ := finishAssign_good hP0 g2 (start := st.cur.span.lo)
                (target := target) (value := value) (by omega) hg.plo (a2.mono (by omega)) b2
              generalize finishAssign st.cur.span.lo target value st2 = q at *
              obtain ⟨s, st3⟩ := q
              dsimp only at *
              simp only [Option.some.injEq, Prod.mk.injEq] at h
              obtain ⟨rfl, rfl⟩ := h
              rw [f2]
              exact ⟨f1, by omega, f3⟩
          · simp only [Option.some.injEq, Prod.mk.injEq] at h
            obtain ⟨rfl, rfl⟩ := h
            refine ⟨g1, by omega, ?_⟩
            simp only [stmtSpans, AllOk_cons]
            exact ⟨OkSpan.mk' (by omega) (Nat.le_refl _) hg.plo g1.phi, a2⟩
      · -- recovery
        have hbe := (hg.err1 .expectedStatement hg.okCur).bump
        have := hbe.1.le
        obtain ⟨s1, s2, s3⟩ := hbe.1.sync
        simp only [err1_cur] at hbe
        simp only [Option.some.injEq, Prod.mk.injEq] at h
        obtain ⟨rfl, rfl⟩ := h
        refine ⟨s1, by omega, ?_⟩
        simp only [stmtSpans, exprSpans, AllOk_cons, AllOk_nil, and_true]
        exact ⟨OkSpan.zero hP0 _, OkSpan.zero hP0 _⟩
    · intro st r st' h hg
      rw [parseStmts] at h
      split at h
      · simp only [Option.some.injEq, Prod.mk.injEq] at h
        obtain ⟨rfl, rfl⟩ := h
        exact ⟨hg, Nat.le_refl _, by simp [stmtsSpans]⟩
      · split at h
        · cases h
        · rename_i s st1 h1
          obtain ⟨g1, a1, a2⟩ := ihs _ _ _ h1 hg
          split at h
          · cases h
          · rename_i ss st2 h2
            obtain ⟨g2, b1, b2⟩ := ihl _ _ _ h2 g1
            simp only [Option.some.injEq, Prod.mk.injEq] at h
            obtain ⟨rfl, rfl⟩ := h
            refine ⟨g2, by omega, ?_⟩
            simp only [stmtsSpans, AllOk_append]
            exact ⟨a2.mono b1, b2⟩
    · intro st r st' h hg
      rw [parseBlock] at h
      split at h
      · cases h
      · rename_i ss st1 h1
        obtain ⟨g1, a1, a2⟩ := ihl _ _ _ h1 hg
        simp only [Option.some.injEq, Prod.mk.injEq] at h
        obtain ⟨rfl, rfl⟩ := h
        have := hg.le
        refine ⟨g1, a1, ?_⟩
        simp only [blockSpans, AllOk_cons]
        exact ⟨OkSpan.mk' (by omega) (Nat.le_refl _) hg.plo g1.phi, a2⟩

/-! ### Programs -/

theorem top_spans (hP0 : P 0) : ∀ f st ss st', parseTopStmts f st = some (ss, st') → Good P st →
    Good P st' ∧ st.cur.span.hi ≤ st'.cur.span.hi ∧ AllOk P st'.cur.span.hi (stmtsSpans ss) := by
  intro f
  induction f with
  | zero => simp [parseTopStmts]
  | succ f ih =>
    intro st r st' h hg
    rw [parseTopStmts] at h
    split at h
    · split at h
      · cases h
      · rename_i s st1 h1
        obtain ⟨g1, a1, a2⟩ := (stmt_spans hP0 f).1 _ _ _ h1 hg
        split at h
        · cases h
        · rename_i ss st2 h2
          obtain ⟨g2, b1, b2⟩ := ih _ _ _ h2 g1
          simp only [Option.some.injEq, Prod.mk.injEq] at h
          obtain ⟨rfl, rfl⟩ := h
          refine ⟨g2, by omega, ?_⟩
          simp only [stmtsSpans, AllOk_append]
          exact ⟨a2.mono b1, b2⟩
    · simp only [Option.some.injEq, Prod.mk.injEq] at h
      obtain ⟨rfl, rfl⟩ := h
      exact ⟨hg, Nat.le_refl _, by simp [stmtsSpans]⟩

/-- `Parser::new` establishes the invariant on an ordered token list. -/
theorem init_good (hP0 : P 0) (toks : List SpTok) (hch : Chain P 0 toks) :
    Good P (PState.init toks) := by
  cases toks with
  | nil => exact ⟨Nat.le_refl _, hP0, hP0, trivial, by simp [PState.init]⟩
  | cons t ts =>
    obtain ⟨_, h2, h3, h4, h5⟩ := hch
    exact ⟨h2, h3, h4, h5, by simp [PState.init]⟩

/-- All spans of the result of `parseProgramFuel` are sane below one common bound. -/
theorem parseProgramFuel_spans (hP0 : P 0) {f : Nat} {toks : List SpTok} {b : Block}
    {ds : List Diag} (h : parseProgramFuel f toks = some (b, ds)) (hch : Chain P 0 toks) :
    ∃ m, AllOk P m (blockSpans b) ∧ ∀ d ∈ ds, AllOk P m (diagSpans d) := by
  unfold parseProgramFuel at h
  simp only [] at h
  have hg := init_good hP0 toks hch
  split at h
  · cases h
  · rename_i ss st1 h1
    obtain ⟨g1, a1, a2⟩ := top_spans hP0 _ _ _ _ h1 hg
    have := hg.le
    simp only [Option.some.injEq, Prod.mk.injEq] at h
    obtain ⟨rfl, rfl⟩ := h
    refine ⟨st1.cur.span.hi, ?_, ?_⟩
    · simp only [blockSpans, AllOk_cons]
      exact ⟨OkSpan.mk' (by omega) (Nat.le_refl _) hg.plo g1.phi, a2⟩
    · intro d hd
      rw [List.mem_reverse] at hd
      split at hd
      · exact (g1.err .trailingTokens g1.okCur AllOk_nil).errs d hd
      · exact g1.errs d hd

/-- **Span discipline of `parseProgram`**: on a token list forming a `Chain` of `P`-positions, every
    span of the AST and of every diagnostic and label is ordered and has both ends in `P`. -/
theorem parseProgram_spans (hP0 : P 0) (toks : List SpTok) (hch : Chain P 0 toks) :
    (∀ s ∈ blockSpans (parseProgram toks).1, s.lo ≤ s.hi ∧ P s.lo ∧ P s.hi) ∧
      (∀ d ∈ (parseProgram toks).2, ∀ s ∈ diagSpans d, s.lo ≤ s.hi ∧ P s.lo ∧ P s.hi) := by
  have hst := parseProgramFuel_stable toks (fuelFor toks) (Nat.le_refl _)
  generalize parseProgram toks = r at *
  obtain ⟨b, ds⟩ := r
  obtain ⟨m, h1, h2⟩ := parseProgramFuel_spans hP0 hst hch
  exact ⟨fun s hs => ⟨(h1 s hs).1, (h1 s hs).2.2⟩,
    fun d hd s hs => ⟨(h2 d hd s hs).1, (h2 d hd s hs).2.2⟩⟩

end NaijaVerif.Parse
