import NaijaVerif.Lemmas.ResolveStructGlobal
import NaijaVerif.Lemmas.AnalysisRefineTop
/-
Scopes of the resolver model, part 1: vocabulary and the bookkeeping facts.

* `ScOwn f sc o` — scope `sc` exists in `f` and belongs to function `o`;
* `DSLt f` — every local is declared by a scope that exists;
* `SOInv f` — the scope that declares a local belongs to the local's owner (`C03.scOwnB`);
* `NewS`, `After` — which scopes declare the locals a piece of the walk allocates, and that no local
  allocated after the piece is declared by a scope allocated inside it (scope ids are never re-used);
* `orcStmt … orcOptBlock` — the ORACLE part of `C03.okBlock`: `o.blk` of every block, `o.par` of every
  parameter list.
-/
namespace NaijaVerif.ResolveStruct
open NaijaVerif NaijaVerif.Resolve NaijaVerif.ResolveFacts NaijaVerif.Analysis NaijaVerif.C03

/-! ### `locals` and `scopes` through the bookkeeping -/

@[simp] theorem locals_checkExpr (env : Env) (cur : Scope) (sid : Nat) (e : Expr) (f : Facts) :
    (checkExpr env cur sid e f).facts.locals = f.locals := (checkExpr_lenE env cur sid e f).locals
@[simp] theorem scopes_checkExpr (env : Env) (cur : Scope) (sid : Nat) (e : Expr) (f : Facts) :
    (checkExpr env cur sid e f).facts.scopes = f.scopes := (checkExpr_lenE env cur sid e f).scopes
@[simp] theorem locals_joinClass (f : Facts) (s : Nat) (c : ExprClass) : (joinClass f s c).locals = f.locals := rfl
@[simp] theorem scopes_joinClass (f : Facts) (s : Nat) (c : ExprClass) : (joinClass f s c).scopes = f.scopes := rfl
@[simp] theorem locals_pushStmt (f : Facts) (o s : Nat) : (pushStmt f o s).locals = f.locals := rfl
@[simp] theorem scopes_pushStmt (f : Facts) (o s : Nat) : (pushStmt f o s).scopes = f.scopes := rfl
@[simp] theorem locals_recStmtWrite (f : Facts) (a b c : Nat) : (recStmtWrite f a b c).locals = f.locals :=
  (primE_lenE (.recStmtWrite f a b c)).locals
@[simp] theorem scopes_recStmtWrite (f : Facts) (a b c : Nat) : (recStmtWrite f a b c).scopes = f.scopes :=
  (primE_lenE (.recStmtWrite f a b c)).scopes
@[simp] theorem locals_recCapWrite (f : Facts) (a b : Nat) : (recCapWrite f a b).locals = f.locals :=
  (primE_lenE (.recCapWrite f a b)).locals
@[simp] theorem scopes_recCapWrite (f : Facts) (a b : Nat) : (recCapWrite f a b).scopes = f.scopes :=
  (primE_lenE (.recCapWrite f a b)).scopes
@[simp] theorem locals_recReadWrite (f : Facts) (a b c : Nat) : (recReadWrite f a b c).locals = f.locals :=
  (recReadWrite_steps f a b c).lenE.locals
@[simp] theorem scopes_recReadWrite (f : Facts) (a b c : Nat) : (recReadWrite f a b c).scopes = f.scopes :=
  (recReadWrite_steps f a b c).lenE.scopes
@[simp] theorem locals_setDefStmt (f : Facts) (fn sid : Nat) : (setDefStmt f fn sid).locals = f.locals := rfl
@[simp] theorem scopes_setDefStmt (f : Facts) (fn sid : Nat) : (setDefStmt f fn sid).scopes = f.scopes := rfl
@[simp] theorem locals_setRootScope (f : Facts) (s : Nat) : (setRootScope f s).locals = f.locals := rfl
@[simp] theorem scopes_setRootScope (f : Facts) (s : Nat) : (setRootScope f s).scopes = f.scopes := rfl
@[simp] theorem locals_pushScope (f : Facts) (p : Option Nat) (o : Nat) : (pushScope f p o).locals = f.locals := rfl
@[simp] theorem scopes_pushScope (f : Facts) (p : Option Nat) (o : Nat) :
    (pushScope f p o).scopes = f.scopes ++ [⟨p, o⟩] := rfl
@[simp] theorem locals_pushLocal (f : Facts) (sl : Bool) (name : Bytes) (o s : Nat) (d : Option Nat) (k : LocalKind) :
    (pushLocal f sl name o s d k).locals = f.locals ++ [⟨name, o, s, d, k⟩] := rfl
@[simp] theorem scopes_pushLocal (f : Facts) (sl : Bool) (name : Bytes) (o s : Nat) (d : Option Nat) (k : LocalKind) :
    (pushLocal f sl name o s d k).scopes = f.scopes := rfl

theorem predeclare_ls (env : Env) : ∀ (ss : List Stmt) (sigs : List FnSig) (f : Facts),
    (predeclare env ss sigs f).facts.locals = f.locals ∧ (predeclare env ss sigs f).facts.scopes = f.scopes
  | [], _, _ => ⟨rfl, rfl⟩
  | .fnDef name nsp ps body _ _ _ :: rest, sigs, f => by
      simp only [predeclare]
      split
      · exact predeclare_ls env rest sigs f
      · exact predeclare_ls env rest _ _
  | .assign .. :: rest, sigs, f => by simp only [predeclare]; exact predeclare_ls env rest sigs f
  | .assignExisting .. :: rest, sigs, f => by simp only [predeclare]; exact predeclare_ls env rest sigs f
  | .assignIndex .. :: rest, sigs, f => by simp only [predeclare]; exact predeclare_ls env rest sigs f
  | .ifS .. :: rest, sigs, f => by simp only [predeclare]; exact predeclare_ls env rest sigs f
  | .loop .. :: rest, sigs, f => by simp only [predeclare]; exact predeclare_ls env rest sigs f
  | .block .. :: rest, sigs, f => by simp only [predeclare]; exact predeclare_ls env rest sigs f
  | .ret .. :: rest, sigs, f => by simp only [predeclare]; exact predeclare_ls env rest sigs f
  | .brk .. :: rest, sigs, f => by simp only [predeclare]; exact predeclare_ls env rest sigs f
  | .cont .. :: rest, sigs, f => by simp only [predeclare]; exact predeclare_ls env rest sigs f
  | .expr .. :: rest, sigs, f => by simp only [predeclare]; exact predeclare_ls env rest sigs f

@[simp] theorem locals_predeclare (env : Env) (ss : List Stmt) (sigs : List FnSig) (f : Facts) :
    (predeclare env ss sigs f).facts.locals = f.locals := (predeclare_ls env ss sigs f).1
@[simp] theorem scopes_predeclare (env : Env) (ss : List Stmt) (sigs : List FnSig) (f : Facts) :
    (predeclare env ss sigs f).facts.scopes = f.scopes := (predeclare_ls env ss sigs f).2

/-! ### Vocabulary -/

/-- Scope `sc` exists and belongs to function `o`. -/
def ScOwn (f : Facts) (sc o : Nat) : Prop := ∃ si, f.scopes[sc]? = some si ∧ si.owner = o

/-- Every local is declared by a scope that exists. -/
def DSLt (f : Facts) : Prop := ∀ l sc, declScopeOf f l = some sc → sc < f.scopes.length

/-- The scope that declares a local belongs to the local's owner. -/
def SOInv (f : Facts) : Prop := ∀ (l : Nat) (li : LocalInfo), f.locals[l]? = some li → ScOwn f li.declaringScope li.owner

theorem ScOwn.lt {f : Facts} {sc o : Nat} (h : ScOwn f sc o) : sc < f.scopes.length := by
  obtain ⟨si, hs, _⟩ := h
  exact (List.getElem?_eq_some_iff.1 hs).1

theorem ScOwn.mono {f g : Facts} {sc o : Nat} (h : ScOwn f sc o) (hp : Pre f g) : ScOwn g sc o := by
  obtain ⟨si, hs, ho⟩ := h
  exact ⟨si, hp.scope hs, ho⟩

theorem ScOwn.congr {f g : Facts} {sc o : Nat} (h : ScOwn f sc o) (hs : g.scopes = f.scopes) : ScOwn g sc o := by
  unfold ScOwn; rw [hs]; exact h

theorem declScopeOf_congr {f g : Facts} (h : g.locals = f.locals) (l : Nat) : declScopeOf g l = declScopeOf f l := by
  simp only [declScopeOf, h]

theorem declScopeOf_lt {f : Facts} {l sc : Nat} (h : declScopeOf f l = some sc) : l < f.locals.length := by
  simp only [declScopeOf] at h
  cases hl : f.locals[l]? with
  | none => simp [hl] at h
  | some li => exact (List.getElem?_eq_some_iff.1 hl).1

theorem declScopeOf_ge {f : Facts} {l : Nat} (h : f.locals.length ≤ l) : declScopeOf f l = none := by
  simp [declScopeOf, List.getElem?_eq_none h]

theorem declScopeOf_mono {f g : Facts} (hp : Pre f g) {l sc : Nat} (h : declScopeOf f l = some sc) :
    declScopeOf g l = some sc := by
  simp only [declScopeOf] at h ⊢
  cases hl : f.locals[l]? with
  | none => simp [hl] at h
  | some li => rw [hp.local hl]; rw [hl] at h; exact h

/-- Below the number of locals of `f`, the declaring scopes of a later `g` are those of `f`. -/
theorem declScopeOf_old {f g : Facts} (hp : Pre f g) {l : Nat} (hl : l < f.locals.length) :
    declScopeOf g l = declScopeOf f l := by
  cases h : declScopeOf f l with
  | some sc => exact declScopeOf_mono hp h
  | none =>
    simp only [declScopeOf] at h
    have : f.locals[l]? = some f.locals[l] := List.getElem?_eq_getElem hl
    rw [this] at h; cases h

theorem DSLt.congr {f g : Facts} (h : DSLt f) (hl : g.locals = f.locals) (hs : g.scopes = f.scopes) : DSLt g := by
  intro l sc hd
  rw [declScopeOf_congr hl] at hd
  rw [hs]; exact h l sc hd

theorem SOInv.congr {f g : Facts} (h : SOInv f) (hl : g.locals = f.locals) (hs : g.scopes = f.scopes) : SOInv g := by
  intro l li hli
  rw [hl] at hli
  exact (h l li hli).congr hs

theorem DSLt.pushScope {f : Facts} (h : DSLt f) (p : Option Nat) (o : Nat) : DSLt (pushScope f p o) := by
  intro l sc hd
  have := h l sc hd
  simp only [scopes_pushScope, List.length_append, List.length_singleton]
  omega

theorem pre_pushScope (f : Facts) (p : Option Nat) (o : Nat) : Pre f (pushScope f p o) := primS_pre (.pushScope f p o)

theorem SOInv.pushScope {f : Facts} (h : SOInv f) (p : Option Nat) (o : Nat) : SOInv (pushScope f p o) := by
  intro l li hli
  exact (h l li hli).mono (pre_pushScope f p o)

theorem ScOwn.pushScope (f : Facts) (p : Option Nat) (o : Nat) : ScOwn (pushScope f p o) f.scopes.length o := by
  refine ⟨⟨p, o⟩, ?_, rfl⟩
  simp

theorem declScopeOf_pushLocal_new (f : Facts) (sl : Bool) (name : Bytes) (o s : Nat) (d : Option Nat) (k : LocalKind) :
    declScopeOf (pushLocal f sl name o s d k) f.locals.length = some s := by
  simp [declScopeOf]

theorem DSLt.pushLocal {f : Facts} (h : DSLt f) {o s : Nat} (hs : ScOwn f s o) (sl : Bool) (name : Bytes)
    (d : Option Nat) (k : LocalKind) : DSLt (pushLocal f sl name o s d k) := by
  intro l sc hd
  simp only [scopes_pushLocal]
  rcases Nat.lt_or_ge l f.locals.length with hlt | hge
  · rw [declScopeOf_old (primS_pre (.pushLocal f sl name o s d k)) hlt] at hd
    exact h l sc hd
  · have hl := declScopeOf_lt hd
    simp only [locals_pushLocal, List.length_append, List.length_singleton] at hl
    have : l = f.locals.length := by omega
    subst this
    rw [declScopeOf_pushLocal_new] at hd
    cases hd
    exact hs.lt

theorem SOInv.pushLocal {f : Facts} (h : SOInv f) {o s : Nat} (hs : ScOwn f s o) (sl : Bool) (name : Bytes)
    (d : Option Nat) (k : LocalKind) : SOInv (pushLocal f sl name o s d k) := by
  intro l li hli
  simp only [locals_pushLocal] at hli
  rcases Nat.lt_or_ge l f.locals.length with hlt | hge
  · rw [List.getElem?_append_left hlt] at hli
    exact (h l li hli).congr rfl
  · rw [List.getElem?_append_right hge] at hli
    cases hi : l - f.locals.length with
    | zero =>
      simp only [hi, List.getElem?_cons_zero, Option.some.injEq] at hli
      subst hli
      exact hs.congr rfl
    | succ n => simp [hi] at hli

/-! ### Which scopes declare the locals a piece allocates -/

/-- The locals `[lo, hi)` of `g`: declared by `e` and listed in `D`, or declared by a scope in `[slo, shi)`. -/
def NewS (g : Facts) (lo hi e : Nat) (D : List Nat) (slo shi : Nat) : Prop :=
  ∀ l, lo ≤ l → l < hi →
    (l ∈ D ∧ declScopeOf g l = some e) ∨ (∃ sc, declScopeOf g l = some sc ∧ slo ≤ sc ∧ sc < shi)

/-- No local from `hi` on is declared by a scope in `[slo, shi)`. -/
def After (F : Facts) (hi slo shi : Nat) : Prop :=
  ∀ l sc, hi ≤ l → declScopeOf F l = some sc → ¬ (slo ≤ sc ∧ sc < shi)

theorem NewS.empty (g : Facts) (lo e : Nat) (D : List Nat) (slo shi : Nat) : NewS g lo lo e D slo shi := by
  intro l h1 h2; omega

theorem After.self (F : Facts) (slo shi : Nat) : After F F.locals.length slo shi := by
  intro l sc hl hd
  rw [declScopeOf_ge hl] at hd; cases hd

theorem After.mono {F : Facts} {hi slo shi hi' slo' shi' : Nat} (h : After F hi slo shi) (h1 : hi ≤ hi')
    (h2 : slo ≤ slo') (h3 : shi' ≤ shi) : After F hi' slo' shi' := by
  intro l sc hl hd hr
  exact h l sc (by omega) hd ⟨by omega, by omega⟩

/-- The piece `(f → g)` allocates what `NewS` says; later locals avoid the scopes up to `shi`: then they
avoid the scopes of an earlier part `[slo, smid)` as seen from `mid`. -/
theorem After.of_new {F g : Facts} {mid hi e : Nat} {D : List Nat} {slo smid shi : Nat} (hp : Pre g F)
    (hhi : hi = g.locals.length) (hn : NewS g mid hi e D smid shi) (he : e < slo) (ha : After F hi slo shi)
    (hms : smid ≤ shi) : After F mid slo smid := by
  intro l sc hl hd hr
  obtain ⟨hr1, hr2⟩ := hr
  rcases Nat.lt_or_ge l hi with hlt | hge
  · have hold := declScopeOf_old hp (hhi ▸ hlt)
    rw [hold] at hd
    rcases hn l hl hlt with ⟨_, h2⟩ | ⟨sc', h2, h3, h4⟩
    · rw [h2] at hd; cases hd; omega
    · rw [h2] at hd; cases hd; omega
  · exact ha l sc hge hd ⟨hr1, by omega⟩

/-! ### The oracle part of `okBlock` -/

mutual
  def orcStmt (o : Orc) : Stmt → Bool
    | .ifS _ t e _ _ => orcBlock o t && orcOptBlock o e
    | .loop _ b _ _ => orcBlock o b
    | .block b _ _ => orcBlock o b
    | .fnDef _ _ ps body _ _ _ => o.par ps && orcBlock o body
    | .assign .. | .assignExisting .. | .assignIndex .. | .ret .. | .brk .. | .cont .. | .expr .. => true
  def orcStmts (o : Orc) : List Stmt → Bool
    | [] => true
    | s :: rest => orcStmt o s && orcStmts o rest
  def orcBlock (o : Orc) : Block → Bool
    | .mk ss _ => o.blk ss && orcStmts o ss
  def orcOptBlock (o : Orc) : Option Block → Bool
    | none => true
    | some b => orcBlock o b
end

/-- `tagOkB` from its meaning. -/
theorem tagOkB_of {nloc : Nat} {ds : Nat → Option Nat} {tag : Option Nat} {decls : List Nat}
    (h1 : ∀ l ∈ decls, ∃ tg, tag = some tg ∧ ds l = some tg)
    (h2 : ∀ l tg, l < nloc → tag = some tg → ds l = some tg → l ∈ decls) : tagOkB nloc ds tag decls = true := by
  simp only [tagOkB, Bool.and_eq_true, List.all_eq_true, List.mem_range, Bool.or_eq_true, Bool.not_eq_true',
    beq_iff_eq, List.contains_eq_mem, decide_eq_true_eq]
  refine ⟨fun l hl => ?_, fun l hl => ?_⟩
  · obtain ⟨tg, rfl, hd⟩ := h1 l hl
    exact ⟨rfl, hd⟩
  · cases tag with
    | none => left; simp
    | some tg =>
      by_cases hd : ds l = some tg
      · exact Or.inr (h2 l tg hl rfl hd)
      · left; simp [hd]

end NaijaVerif.ResolveStruct
