import NaijaVerif.Lemmas.AnalysisLiveMono
/-
The liveness conditions for the model's OWN plan follow from the conditions for the empty plan
(`structOkB`: consistency of the facts and of the model's tables and verdicts with the program):
whatever `build_optimization_plan` puts into the plan — unreachable statements, unused assignments
and unused declarations whose effective class is `PureNoTrap` and, for declarations, that pass
`declaration_is_runtime_removable` — satisfies the rule of its occurrence.
-/
namespace NaijaVerif.C03
open NaijaVerif NaijaVerif.Analysis NaijaVerif.AEval

mutual
  /-- `eOk` is monotone in the allowed callees and antitone in the forbidden locals. -/
  theorem eOk_mono2 {X Y D E : Nat → Bool} (h : ∀ g, X g = true → Y g = true) (hd : ∀ x, E x = true → D x = true) :
      ∀ e : Expr, eOk X D e = true → eOk Y E e = true
    | .var _ (some x) _, he => by
        simp only [eOk, Bool.not_eq_true'] at he ⊢
        cases hx : E x with
        | false => rfl
        | true => rw [hd x hx] at he; cases he
    | .var _ none _, _ => by simp [eOk]
    | .str (.interp segs) _, he => by
        simp only [eOk] at he ⊢
        exact segsOk_mono2 hd segs he
    | .str (.static _) _, _ | .num _ _, _ | .bool _ _, _ | .null _, _ => by simp [eOk]
    | .call (.var _ _ _) args fn _, he => by
        simp only [eOk, Bool.and_eq_true] at he ⊢
        refine ⟨?_, eOkList_mono2 h hd args he.2⟩
        cases fn with
        | none => rfl
        | some f => exact h f he.1
    | .call (.member o _ _ _) args _ _, he => by
        simp only [eOk, Bool.and_eq_true] at he ⊢
        exact ⟨eOk_mono2 h hd o he.1, eOkList_mono2 h hd args he.2⟩
    | .call (.index _ _ _ _) args _ _, he | .call (.str _ _) args _ _, he | .call (.num _ _) args _ _, he
    | .call (.binary _ _ _ _) args _ _, he | .call (.call _ _ _ _) args _ _, he
    | .call (.array _ _) args _ _, he | .call (.unary _ _ _) args _ _, he
    | .call (.bool _ _) args _ _, he | .call (.null _) args _ _, he => by
        simp only [eOk] at he ⊢
        exact eOkList_mono2 h hd args he
    | .binary _ l r _, he => by
        simp only [eOk, Bool.and_eq_true] at he ⊢
        exact ⟨eOk_mono2 h hd l he.1, eOk_mono2 h hd r he.2⟩
    | .index a i _ _, he => by
        simp only [eOk, Bool.and_eq_true] at he ⊢
        exact ⟨eOk_mono2 h hd a he.1, eOk_mono2 h hd i he.2⟩
    | .array es _, he => by simp only [eOk] at he ⊢; exact eOkList_mono2 h hd es he
    | .unary _ e _, he => by simp only [eOk] at he ⊢; exact eOk_mono2 h hd e he
    | .member o _ _ _, he => by simp only [eOk] at he ⊢; exact eOk_mono2 h hd o he
  theorem eOkList_mono2 {X Y D E : Nat → Bool} (h : ∀ g, X g = true → Y g = true) (hd : ∀ x, E x = true → D x = true) :
      ∀ es : List Expr, eOkList X D es = true → eOkList Y E es = true
    | [], _ => by simp [eOkList]
    | e :: es, he => by
        simp only [eOkList, Bool.and_eq_true] at he ⊢
        exact ⟨eOk_mono2 h hd e he.1, eOkList_mono2 h hd es he.2⟩
  theorem segsOk_mono2 {D E : Nat → Bool} (hd : ∀ x, E x = true → D x = true) : ∀ segs : List Seg,
      segsOk D segs = true → segsOk E segs = true
    | [], _ => by simp [segsOk]
    | .lit _ :: ss, h => by simp only [segsOk] at h ⊢; exact segsOk_mono2 hd ss h
    | .var _ (some x) :: ss, h => by
        simp only [segsOk, Bool.and_eq_true, Bool.not_eq_true'] at h ⊢
        refine ⟨?_, segsOk_mono2 hd ss h.2⟩
        cases hx : E x with
        | false => rfl
        | true => rw [hd x hx] at h; cases h.1
    | .var _ none :: ss, h => by simp only [segsOk] at h ⊢; exact segsOk_mono2 hd ss h
end

theorem foldl_join_noTrap {α : Type} (F : α → ExprClass) : ∀ (l : List α) (init : ExprClass),
    l.foldl (fun acc g => acc.join (F g)) init = .pureNoTrap → init = .pureNoTrap ∧ ∀ g ∈ l, F g = .pureNoTrap
  | [], init, h => ⟨h, by simp⟩
  | g :: l, init, h => by
      simp only [List.foldl_cons] at h
      obtain ⟨h1, h2⟩ := foldl_join_noTrap F l _ h
      have hj := join_eq_noTrap h1
      refine ⟨hj.1, ?_⟩
      intro g' hg'
      rcases List.mem_cons.mp hg' with rfl | hg'
      · exact hj.2
      · exact h2 g' hg'

/-- `stmt_effective_class = PureNoTrap`: the statement's own class is, and every direct callee has a
`PureNoTrap` summary. -/
theorem effClass_parts {c : Ctx} {i : Nat} (h : c.effClass i = .pureNoTrap) :
    c.clsOf i = .pureNoTrap ∧ ∀ g ∈ c.callees i, c.pureB g = true := by
  obtain ⟨h1, h2⟩ := foldl_join_noTrap c.transClass (c.callees i) (c.clsOf i) h
  refine ⟨h1, fun g hg => ?_⟩
  simp [Ctx.pureB, h2 g hg]

/-- An initialiser whose statement has effective class `PureNoTrap` passes the test `safe2B`. -/
theorem safe2_of_eff {L : LSetup} {f i : Nat} {σ : List (Option Nat)} {e : Expr}
    (hbase : L.baseB f σ i [e] = true) (hcls : L.c.clsOf i = classify (fun x => L.c.owner x != some f) e)
    (har : arityOk2 e = true) (heff : L.c.effClass i = .pureNoTrap) : safe2B L.c f e = true := by
  obtain ⟨h1, h2⟩ := effClass_parts heff
  have hfit := (base_parts hbase).2
  rw [efit_single] at hfit
  refine safe2_mk (by rw [← hcls]; exact h1) har (eOk_mono2 ?_ (fun _ h => by cases h) e hfit)
  intro g hg
  exact h2 g (by simpa using hg)

section model
variable (root : Block) (facts : Facts)

theorem mem_planModel {i : Nat} (h : i ∈ (planModel root facts).stmts) :
    i ∈ unreachable root ∨ i ∈ (mkCtx root facts).removableAsg ((mkCtx root facts).unusedAsg root) ∨
      i ∈ (mkCtx root facts).removableDecls (mkCtx root facts).unusedVars := by
  simp only [planModel, analyse] at h
  rw [mem_uni_iff, mem_uni_iff] at h
  exact h

theorem mem_removableAsg {c : Ctx} {ua : List Nat} {i : Nat} (h : i ∈ c.removableAsg ua) :
    i ∈ ua ∧ c.effClass i = .pureNoTrap ∧
      ∀ r, c.row? i = some r → r.kind = .assign → ∀ l, (c.writes i).head? = some l → c.declRemovable l i = true := by
  simp only [Ctx.removableAsg, List.mem_filter, Bool.and_eq_true, beq_iff_eq] at h
  refine ⟨h.1, h.2.1, ?_⟩
  intro r hr hk l hl
  have h3 := h.2.2
  rw [hr] at h3
  simp only [hk, beq_self_eq_true, ↓reduceIte, hl] at h3
  exact h3

theorem mem_removableDecls {c : Ctx} {uv : List (Nat × Nat)} {i : Nat} (h : i ∈ c.removableDecls uv) :
    ∃ l, (i, l) ∈ uv ∧ c.effClass i = .pureNoTrap ∧ c.declRemovable l i = true := by
  simp only [Ctx.removableDecls, List.mem_map, List.mem_filter, Bool.and_eq_true, beq_iff_eq] at h
  obtain ⟨⟨s, l⟩, ⟨hmem, heff, hrem⟩, rfl⟩ := h
  exact ⟨l, hmem, heff, hrem⟩

theorem unusedVar_D2 {c : Ctx} {i l : Nat} (h : (i, l) ∈ c.unusedVars) : c.usedLocals.contains l = false := by
  simp only [Ctx.unusedVars, List.mem_filterMap, List.mem_range] at h
  obtain ⟨l', _, hl'⟩ := h
  cases hloc : c.facts.locals[l']? with
  | none => simp [hloc] at hl'
  | some li =>
    simp only [hloc] at hl'
    split at hl'
    · next hcond =>
      cases hd : li.declStmt with
      | none => simp [hd] at hl'
      | some s =>
        simp only [hd] at hl'
        split at hl'
        · simp only [Option.some.injEq, Prod.mk.injEq] at hl'
          obtain ⟨_, rfl⟩ := hl'
          simp only [Bool.and_eq_true, Bool.not_eq_true'] at hcond
          exact hcond.1.2
        · cases hl'
    · cases hl'

/-- The setting for the model's own plan is the setting for the empty plan with another `cfg`. -/
theorem lsetupOf_model (q : Nat → Expr → Bool) :
    lsetupOf root facts (some (planModel root facts)) q =
      (lsetupOf root facts none q).withCfg (Cfg.ofPlan (some (planModel root facts))) := rfl

theorem model_other {q : Nat → Expr → Bool} {i : Nat} (h : (lsetupOf root facts none q).otherB i = true) :
    ((lsetupOf root facts none q).withCfg (Cfg.ofPlan (some (planModel root facts)))).otherB i = true := by
  simp only [LSetup.otherB, Bool.and_eq_true, Bool.or_eq_true, Bool.not_eq_true'] at h ⊢
  refine ⟨⟨?_, h.1.2⟩, h.2⟩
  cases hsk : ((lsetupOf root facts none q).withCfg (Cfg.ofPlan (some (planModel root facts)))).cfg.skip i with
  | false => exact Or.inl rfl
  | true =>
    right
    have hmem : i ∈ (planModel root facts).stmts := by
      simpa [LSetup.withCfg, Cfg.ofPlan] using hsk
    rcases mem_planModel root facts hmem with hu | ha | hd
    · simp only [LSetup.deadB, LSetup.withCfg, lsetupOf]
      simpa using mem_unreachable.mp hu
    · exfalso
      have := (mem_removableAsg ha).1
      have h2 := h.1.2
      simp only [lsetupOf, List.contains_eq_mem, decide_eq_false_iff_not] at h2
      exact h2 this
    · exfalso
      obtain ⟨l, hl, _, _⟩ := mem_removableDecls hd
      have h3 := h.2
      simp only [lsetupOf, List.all_eq_true, bne_iff_ne, ne_eq] at h3
      exact h3 (i, l) hl rfl

theorem model_store {f : Nat} {σ : List (Option Nat)} {i : Nat} {isDecl : Bool} {l : Nat} {e : Expr} {st : LS} {rest : List Stmt}
    (hbase : (lsetupOf root facts none (safe2B (mkCtx root facts))).baseB f σ i [e] = true)
    (h : (lsetupOf root facts none (safe2B (mkCtx root facts))).ownStoreB f σ i isDecl l e st rest = true) :
    ((lsetupOf root facts none (safe2B (mkCtx root facts))).withCfg (Cfg.ofPlan (some (planModel root facts)))).ownStoreB
      f σ i isDecl l e st rest = true := by
  simp only [LSetup.ownStoreB, Bool.and_eq_true] at h ⊢
  refine ⟨h.1, ?_⟩
  obtain ⟨⟨⟨hw, _⟩, htab⟩, _⟩ := h
  simp only [LSetup.storeTabB, Bool.and_eq_true] at htab
  obtain ⟨⟨⟨⟨⟨hkind, hcls⟩, har⟩, hua⟩, huv⟩, hdecl⟩ := htab
  have hw' : (mkCtx root facts).writes i = [l] := by simpa [lsetupOf] using hw
  cases hsk : ((lsetupOf root facts none (safe2B (mkCtx root facts))).withCfg (Cfg.ofPlan (some (planModel root facts)))).cfg.skip i with
  | false => simp
  | true =>
    have hmem : i ∈ (planModel root facts).stmts := by
      simpa [LSetup.withCfg, Cfg.ofPlan] using hsk
    simp only [Bool.not_true, Bool.false_or, Bool.or_eq_true, Bool.and_eq_true]
    -- the quiet test, from the effective class
    have hq : ∀ (heff : (mkCtx root facts).effClass i = .pureNoTrap),
        ((lsetupOf root facts none (safe2B (mkCtx root facts))).withCfg (Cfg.ofPlan (some (planModel root facts)))).q f e = true := by
      intro heff
      exact safe2_of_eff (L := lsetupOf root facts none (safe2B (mkCtx root facts))) hbase (by simpa using hcls) har heff
    -- a removable declaration has no later reference
    have hnoref : isDecl = true → (mkCtx root facts).declRemovable l i = true →
        noRefListB (mkCtx root facts) l rest = true := by
      intro hd hrem
      have := hdecl
      simp only [hd, Bool.not_true, Bool.false_or, Bool.or_eq_true, Bool.not_eq_true'] at this
      rcases this with h1 | h1
      · simp only [lsetupOf] at h1; rw [hrem] at h1; cases h1
      · simpa [lsetupOf] using h1
    rcases mem_planModel root facts hmem with hu | ha | hd
    · left
      simp only [LSetup.deadB, LSetup.withCfg, lsetupOf]
      simpa using mem_unreachable.mp hu
    · right
      obtain ⟨hin, heff, hrow⟩ := mem_removableAsg ha
      refine ⟨⟨hq heff, ?_⟩, ?_⟩
      · left
        have := hua
        simp only [Bool.or_eq_true, Bool.not_eq_true', lsetupOf] at this
        rcases this with h1 | h1
        · simp only [List.contains_eq_mem, decide_eq_false_iff_not] at h1
          exact absurd hin h1
        · simpa using h1
      · cases hdk : isDecl with
        | false => exact Or.inl rfl
        | true =>
          right
          -- the row of `i` is an `assign` row
          cases hr : (mkCtx root facts).row? i with
          | none => simp [lsetupOf, hr] at hkind
          | some r =>
            have hk : r.kind = .assign := by simpa [lsetupOf, hr, hdk] using hkind
            exact hnoref hdk (hrow r hr hk l (by rw [hw']; rfl))
    · right
      obtain ⟨l', hl', heff, hrem⟩ := mem_removableDecls hd
      have hll : l' = l := by
        have := huv
        simp only [lsetupOf, List.all_eq_true, Bool.or_eq_true, bne_iff_ne, ne_eq, beq_iff_eq] at this
        rcases this (i, l') hl' with h1 | h1
        · exact absurd rfl h1
        · exact h1
      subst hll
      refine ⟨⟨hq heff, ?_⟩, ?_⟩
      · right
        simp only [LSetup.withCfg, lsetupOf, unusedVar_D2 hl', Bool.not_false]
      · cases hdk : isDecl with
        | false => exact Or.inl rfl
        | true => exact Or.inr (hnoref hdk hrem)

/-- **The model's own plan passes the liveness conditions** whenever the empty plan does. -/
theorem rootOkB_model (h : rootOkB (lsetupOf root facts none (safe2B (mkCtx root facts))) root = true) :
    rootOkB (lsetupOf root facts (some (planModel root facts)) (safe2B (mkCtx root facts))) root = true := by
  rw [lsetupOf_model]
  simp only [rootOkB, Bool.and_eq_true, withCfg_blockOkB, withCfg_ss] at h ⊢
  exact ⟨h.1, lokListB_trans (fun _ => model_other root facts) (fun _ _ _ _ _ _ _ _ => model_store root facts) _ _ _ _ _ h.2⟩

end model

/-- The decidable conditions on a program and its facts under which C03 is proved: distinct statement
ids, the global consistency conditions of the facts, and the statement-by-statement conditions for
the EMPTY plan — consistency of the facts (reads, writes, callees, scopes, ownership) and of the
model's own tables and verdicts (row kinds, classes, unused-assignment / unused-variable verdicts,
`declRemovable`) with the annotated program, loop fixpoints converged, pure summaries backed by pure
bodies.  No plan and no liveness-based removal appears in them. -/
def structOkB (root : Block) (facts : Facts) : Bool :=
  decide (((rows root).map (·.sid)).Nodup) && globalOkB root facts &&
  rootOkB (lsetupOf root facts none (safe2B (mkCtx root facts))) root

theorem modelOk_of_struct (root : Block) (facts : Facts) (h : structOkB root facts = true) : modelOkB root facts = true := by
  simp only [structOkB, Bool.and_eq_true] at h
  simp only [modelOkB, Bool.and_eq_true]
  exact ⟨h.1, rootOkB_model root facts h.2⟩

end NaijaVerif.C03
