import NaijaVerif.Model.Resolve
import NaijaVerif.Lemmas.ParseDefs
/-
Every span the resolver model attaches to a diagnostic — its own span and the spans of its labels —
is a span of the AST it was given (`Parse.blockSpans`): the resolver builds no span of its own.
-/
namespace NaijaVerif.Resolve
open NaijaVerif NaijaVerif.Parse

/-- All spans of a list of diagnostics (own span and label spans). -/
def spansOf (ds : List RDiag) : List Span := ds.flatMap (fun d => d.span :: d.labels)

@[simp] theorem spansOf_nil : spansOf [] = [] := rfl
@[simp] theorem spansOf_append (a b : List RDiag) : spansOf (a ++ b) = spansOf a ++ spansOf b := by
  simp [spansOf]
@[simp] theorem spansOf_cons (d : RDiag) (ds : List RDiag) :
    spansOf (d :: ds) = d.span :: (d.labels ++ spansOf ds) := by
  simp [spansOf]

theorem mem_spansOf_errIf {c : Bool} {r : Rule} {sp s : Span} (h : s ∈ spansOf (errIf c (RDiag.at r sp))) :
    s = sp := by
  cases c <;> simp [errIf, RDiag.at] at h
  exact h

theorem span_mem_exprSpans : ∀ e : Expr, e.span ∈ exprSpans e
  | .index .. | .str .. | .num .. | .var .. | .binary .. | .call .. | .array .. | .unary .. | .bool ..
  | .member .. | .null .. => by simp [Expr.span, exprSpans]

theorem checkSegs_spans (env : Env) (cur : Scope) (sid : Nat) (span : Span) :
    ∀ (segs : List Seg) (f : Facts) (s : Span), s ∈ spansOf (checkSegs env cur sid span segs f).ds → s = span
  | [], f, s, h => by simp [checkSegs] at h
  | .lit _ :: rest, f, s, h => by
      simp only [checkSegs] at h; exact checkSegs_spans env cur sid span rest f s h
  | .var n _ :: rest, f, s, h => by
      simp only [checkSegs] at h
      split at h
      · exact checkSegs_spans env cur sid span rest _ s h
      · simp only [spansOf_cons, RDiag.at, List.mem_cons, List.mem_append, List.not_mem_nil, or_false] at h
        rcases h with h | h | h
        · exact h
        · exact h
        · exact checkSegs_spans env cur sid span rest _ s h

theorem flatten_errIf_spans (ms : Span) (r : Rule) (c : Expr → Bool) :
    ∀ (l : List Expr) (s : Span), s ∈ spansOf ((l.map fun a => errIf (c a) (RDiag.at r ms)).flatten) → s = ms
  | [], s, h => by simp at h
  | a :: l, s, h => by
      simp only [List.map_cons, List.flatten_cons, spansOf_append, List.mem_append] at h
      rcases h with h | h
      · exact mem_spansOf_errIf h
      · exact flatten_errIf_spans ms r c l s h

theorem argDiags_spans (env : Env) (cur : Scope) (ck : ArgCheck) (args : List Expr) (ms s : Span)
    (h : s ∈ spansOf (argDiags env cur ck args ms)) : s = ms := by
  unfold argDiags at h
  split at h
  · simp at h
  · exact flatten_errIf_spans _ _ _ _ _ h
  · split at h
    · exact flatten_errIf_spans _ _ _ _ _ h
    · simp at h
  · exact flatten_errIf_spans _ _ _ _ _ h
  · exact flatten_errIf_spans _ _ _ _ _ h
  · exact flatten_errIf_spans _ _ _ _ _ h

theorem checkMethod_spans (env : Env) (cur : Scope) (sid : Nat) (rt : VType) (obj : Expr) (field : Bytes)
    (args : List Expr) (ms : Span) (f : Facts) (s : Span)
    (h : s ∈ spansOf (checkMethod env cur sid rt obj field args ms f).1) : s = ms := by
  unfold checkMethod at h
  split at h
  · simp only [spansOf_append, List.mem_append] at h
    rcases h with (h | h) | h
    · exact mem_spansOf_errIf h
    · exact mem_spansOf_errIf h
    · exact argDiags_spans _ _ _ _ _ _ h
  · exact mem_spansOf_errIf h

mutual
  theorem checkExpr_spans (env : Env) (cur : Scope) (sid : Nat) :
      ∀ (e : Expr) (f : Facts) (s : Span), s ∈ spansOf (checkExpr env cur sid e f).ds → s ∈ exprSpans e
    | .num _ _, f, s, h => by simp [checkExpr] at h
    | .bool _ _, f, s, h => by simp [checkExpr] at h
    | .null _, f, s, h => by simp [checkExpr] at h
    | .str (.static _) _, f, s, h => by simp [checkExpr] at h
    | .str (.interp segs) sp, f, s, h => by
        simp only [checkExpr] at h
        simp [exprSpans, checkSegs_spans env cur sid sp segs f s h]
    | .array es _, f, s, h => by
        simp only [checkExpr] at h
        simp [exprSpans, checkExprs_spans env cur sid es f s h]
    | .index a i isp sp, f, s, h => by
        simp only [checkExpr, spansOf_append, List.mem_append] at h
        simp only [exprSpans, List.mem_cons, List.mem_append]
        rcases h with ((h | h) | h) | h
        · exact Or.inr (Or.inr (Or.inl (checkExpr_spans env cur sid a f s h)))
        · exact Or.inr (Or.inr (Or.inr (checkExpr_spans env cur sid i _ s h)))
        · exact Or.inr (Or.inl (mem_spansOf_errIf h))
        · exact Or.inl (mem_spansOf_errIf h)
    | .var v _ sp, f, s, h => by
        simp only [checkExpr] at h
        split at h
        · simp at h
        · simp [RDiag.at] at h; simp [exprSpans, h]
    | .binary _ l r sp, f, s, h => by
        simp only [checkExpr, spansOf_append, List.mem_append] at h
        simp only [exprSpans, List.mem_cons, List.mem_append]
        rcases h with (h | h) | h
        · exact Or.inr (Or.inl (checkExpr_spans env cur sid l f s h))
        · exact Or.inr (Or.inr (checkExpr_spans env cur sid r _ s h))
        · exact Or.inl (mem_spansOf_errIf h)
    | .unary _ e sp, f, s, h => by
        simp only [checkExpr, spansOf_append, List.mem_append] at h
        simp only [exprSpans, List.mem_cons]
        rcases h with h | h
        · exact Or.inr (checkExpr_spans env cur sid e f s h)
        · exact Or.inl (mem_spansOf_errIf h)
    | .member o _ fs sp, f, s, h => by
        simp only [checkExpr, spansOf_append, List.mem_append] at h
        simp only [exprSpans, List.mem_cons]
        rcases h with h | h
        · exact Or.inr (Or.inr (checkExpr_spans env cur sid o f s h))
        · simp [RDiag.at] at h; exact Or.inr (Or.inl h)
    | .call callee args _ sp, f, s, h => by
        have hc := checkExpr_spans env cur sid callee
        simp only [exprSpans, List.mem_cons, List.mem_append]
        cases callee with
        | var fname vb vs =>
          simp only [checkExpr] at h
          split at h
          · simp only [spansOf_append, List.mem_append] at h
            rcases h with (h | h) | h
            · exact Or.inl (mem_spansOf_errIf h)
            · split at h
              · exact Or.inl (mem_spansOf_errIf h)
              · simp at h
            · exact Or.inr (Or.inr (checkExprs_spans env cur sid args _ s h))
          · split at h
            · simp only [spansOf_append, List.mem_append] at h
              rcases h with h | h
              · exact Or.inl (mem_spansOf_errIf h)
              · exact Or.inr (Or.inr (checkExprs_spans env cur sid args _ s h))
            · simp only [spansOf_cons, RDiag.at, List.mem_cons, List.mem_append, List.not_mem_nil, or_false] at h
              rcases h with h | h | h
              · exact Or.inl h
              · exact Or.inl h
              · exact Or.inr (Or.inr (checkExprs_spans env cur sid args _ s h))
        | member obj field fs ms =>
          simp only [checkExpr, spansOf_append, List.mem_append] at h
          rcases h with (h | h) | h
          · exact Or.inr (Or.inl (by
              simp only [exprSpans, List.mem_cons]
              exact Or.inr (Or.inr (checkExpr_spans env cur sid obj f s h))))
          · refine Or.inr (Or.inl ?_)
            simp only [exprSpans, List.mem_cons]
            split at h
            · exact Or.inr (Or.inl (checkMethod_spans _ _ _ _ _ _ _ _ _ _ h))
            · simp at h
          · exact Or.inr (Or.inr (checkExprs_spans env cur sid args _ s h))
        | _ =>
          rw [checkExpr.eq_def] at h
          simp only [spansOf_append, spansOf_cons, RDiag.at, List.mem_append, List.mem_cons,
            List.not_mem_nil, or_false, spansOf_nil, List.append_nil] at h
          rcases h with (h | h | h) | h
          · exact Or.inr (Or.inl (hc f s h))
          · exact Or.inl h
          · exact Or.inl h
          · exact Or.inr (Or.inr (checkExprs_spans env cur sid args _ s h))
  theorem checkExprs_spans (env : Env) (cur : Scope) (sid : Nat) :
      ∀ (es : List Expr) (f : Facts) (s : Span), s ∈ spansOf (checkExprs env cur sid es f).ds → s ∈ exprsSpans es
    | [], f, s, h => by simp [checkExprs] at h
    | e :: es, f, s, h => by
        simp only [checkExprs, spansOf_append, List.mem_append] at h
        simp only [exprsSpans, List.mem_append]
        rcases h with h | h
        · exact Or.inl (checkExpr_spans env cur sid e f s h)
        · exact Or.inr (checkExprs_spans env cur sid es _ s h)
end

/-! ### Function headers -/

theorem paramDiags_spans : ∀ (seen : List Bytes) (ps : List Param) (s : Span),
    s ∈ spansOf (paramDiags seen ps) → s ∈ ps.map (·.span)
  | _, [], s, h => by simp [paramDiags] at h
  | seen, p :: ps, s, h => by
      simp only [paramDiags, spansOf_append, List.mem_append] at h
      simp only [List.map_cons, List.mem_cons]
      rcases h with (h | h) | h
      · exact Or.inl (mem_spansOf_errIf h)
      · exact Or.inl (mem_spansOf_errIf h)
      · exact Or.inr (paramDiags_spans _ ps s h)

theorem findFn_mem {sigs : List FnSig} {x : Bytes} {g : FnSig} (h : findFn sigs x = some g) : g ∈ sigs :=
  List.mem_of_find?_eq_some h

/-- The header diagnostics carry spans of the block's statements; the "already defined here" label
of a duplicate is the name span of an earlier definition of the same block. -/
theorem predeclare_spans (env : Env) : ∀ (ss : List Stmt) (sigs : List FnSig) (f : Facts) (s : Span),
    s ∈ spansOf (predeclare env ss sigs f).ds → s ∈ stmtsSpans ss ∨ s ∈ sigs.map (·.nameSpan)
  | [], _, _, s, h => by simp [predeclare] at h
  | .fnDef name nsp ps body _ _ _ :: rest, sigs, f, s, h => by
      simp only [predeclare] at h
      simp only [stmtsSpans, stmtSpans, List.mem_append, List.mem_cons]
      split at h
      · next ex hex =>
        simp only [spansOf_append, spansOf_cons, List.mem_append, List.mem_cons, spansOf_nil,
          List.append_nil, List.not_mem_nil, or_false] at h
        rcases h with (h | h | h | h) | h
        · exact Or.inl (Or.inl (Or.inl (mem_spansOf_errIf h)))
        · exact Or.inl (Or.inl (Or.inl h))
        · exact Or.inr (by rw [h]; exact List.mem_map_of_mem (findFn_mem hex))
        · exact Or.inl (Or.inl (Or.inl h))
        · rcases predeclare_spans env rest sigs f s h with h | h
          · exact Or.inl (Or.inr h)
          · exact Or.inr h
      · simp only [spansOf_append, List.mem_append] at h
        rcases h with (h | h) | h
        · exact Or.inl (Or.inl (Or.inl (mem_spansOf_errIf h)))
        · exact Or.inl (Or.inl (Or.inr (Or.inr (Or.inl (paramDiags_spans _ _ _ h)))))
        · rcases predeclare_spans env rest _ _ s h with h | h
          · exact Or.inl (Or.inr h)
          · simp only [List.map_append, List.map_cons, List.map_nil, List.mem_append, List.mem_cons,
              List.not_mem_nil, or_false] at h
            rcases h with h | h
            · exact Or.inr h
            · exact Or.inl (Or.inl (Or.inl h))
  | .assign .. :: rest, sigs, f, s, h => by
      simp only [predeclare] at h; simp only [stmtsSpans, List.mem_append]
      rcases predeclare_spans env rest sigs f s h with h | h
      · exact Or.inl (Or.inr h)
      · exact Or.inr h
  | .assignExisting .. :: rest, sigs, f, s, h => by
      simp only [predeclare] at h; simp only [stmtsSpans, List.mem_append]
      rcases predeclare_spans env rest sigs f s h with h | h
      · exact Or.inl (Or.inr h)
      · exact Or.inr h
  | .assignIndex .. :: rest, sigs, f, s, h => by
      simp only [predeclare] at h; simp only [stmtsSpans, List.mem_append]
      rcases predeclare_spans env rest sigs f s h with h | h
      · exact Or.inl (Or.inr h)
      · exact Or.inr h
  | .ifS .. :: rest, sigs, f, s, h => by
      simp only [predeclare] at h; simp only [stmtsSpans, List.mem_append]
      rcases predeclare_spans env rest sigs f s h with h | h
      · exact Or.inl (Or.inr h)
      · exact Or.inr h
  | .loop .. :: rest, sigs, f, s, h => by
      simp only [predeclare] at h; simp only [stmtsSpans, List.mem_append]
      rcases predeclare_spans env rest sigs f s h with h | h
      · exact Or.inl (Or.inr h)
      · exact Or.inr h
  | .block .. :: rest, sigs, f, s, h => by
      simp only [predeclare] at h; simp only [stmtsSpans, List.mem_append]
      rcases predeclare_spans env rest sigs f s h with h | h
      · exact Or.inl (Or.inr h)
      · exact Or.inr h
  | .ret .. :: rest, sigs, f, s, h => by
      simp only [predeclare] at h; simp only [stmtsSpans, List.mem_append]
      rcases predeclare_spans env rest sigs f s h with h | h
      · exact Or.inl (Or.inr h)
      · exact Or.inr h
  | .brk .. :: rest, sigs, f, s, h => by
      simp only [predeclare] at h; simp only [stmtsSpans, List.mem_append]
      rcases predeclare_spans env rest sigs f s h with h | h
      · exact Or.inl (Or.inr h)
      · exact Or.inr h
  | .cont .. :: rest, sigs, f, s, h => by
      simp only [predeclare] at h; simp only [stmtsSpans, List.mem_append]
      rcases predeclare_spans env rest sigs f s h with h | h
      · exact Or.inl (Or.inr h)
      · exact Or.inr h
  | .expr .. :: rest, sigs, f, s, h => by
      simp only [predeclare] at h; simp only [stmtsSpans, List.mem_append]
      rcases predeclare_spans env rest sigs f s h with h | h
      · exact Or.inl (Or.inr h)
      · exact Or.inr h

/-! ### Statements and blocks -/

mutual
  theorem checkStmt_spans (env : Env) (cur : Cur) :
      ∀ (st : Stmt) (f : Facts) (s : Span), s ∈ spansOf (checkStmt env cur st f).ds → s ∈ stmtSpans st
    | .assign x xs e _ _ sp, f, s, h => by
        simp only [stmtSpans, List.mem_cons]
        simp only [checkStmt] at h
        split at h <;> simp only [spansOf_append, List.mem_append] at h <;> rcases h with h | h
        · exact Or.inl (mem_spansOf_errIf h)
        · exact Or.inr (Or.inr (checkExpr_spans env cur.vars _ e _ s h))
        · exact Or.inl (mem_spansOf_errIf h)
        · exact Or.inr (Or.inr (checkExpr_spans env cur.vars _ e _ s h))
    | .assignExisting x xs e _ _ sp, f, s, h => by
        simp only [stmtSpans, List.mem_cons]
        simp only [checkStmt] at h
        split at h
        · exact Or.inr (Or.inr (checkExpr_spans env cur.vars _ e _ s h))
        · simp only [spansOf_cons, RDiag.at, List.mem_cons, List.mem_append, List.not_mem_nil, or_false] at h
          rcases h with h | h | h
          · exact Or.inl h
          · exact Or.inl h
          · exact Or.inr (Or.inr (checkExpr_spans env cur.vars _ e _ s h))
    | .assignIndex t e _ sp, f, s, h => by
        simp only [stmtSpans, List.mem_cons, List.mem_append]
        simp only [checkStmt, spansOf_append, List.mem_append] at h
        rcases h with (h | h) | h
        · exact Or.inr (Or.inl (checkExpr_spans env cur.vars _ t _ s h))
        · exact Or.inr (Or.inr (checkExpr_spans env cur.vars _ e _ s h))
        · exact Or.inl (mem_spansOf_errIf h)
    | .ifS c t e _ sp, f, s, h => by
        simp only [checkStmt, spansOf_append, List.mem_append] at h
        have key : s = sp ∨ s ∈ exprSpans c ∨ s ∈ blockSpans t ∨ (∃ b, e = some b ∧ s ∈ blockSpans b) := by
          rcases h with ((h | h) | h) | h
          · exact Or.inr (Or.inl (checkExpr_spans env cur.vars _ c _ s h))
          · exact Or.inr (Or.inl (by rw [mem_spansOf_errIf h]; exact span_mem_exprSpans c))
          · exact Or.inr (Or.inr (Or.inl (checkBlock_spans _ _ t _ s h)))
          · cases e with
            | none => simp [checkOptBlock] at h
            | some b => exact Or.inr (Or.inr (Or.inr ⟨b, rfl, checkOptBlock_spans _ _ (some b) _ s h b rfl⟩))
        cases e with
        | none =>
          simp only [stmtSpans, List.mem_cons, List.mem_append]
          rcases key with k | k | k | ⟨b, hb, _⟩
          · exact Or.inl k
          · exact Or.inr (Or.inl k)
          · exact Or.inr (Or.inr k)
          · cases hb
        | some b =>
          simp only [stmtSpans, List.mem_cons, List.mem_append]
          rcases key with k | k | k | ⟨b', hb, k⟩
          · exact Or.inl k
          · exact Or.inr (Or.inl (Or.inl k))
          · exact Or.inr (Or.inl (Or.inr k))
          · cases hb; exact Or.inr (Or.inr k)
    | .loop c b _ sp, f, s, h => by
        simp only [stmtSpans, List.mem_cons, List.mem_append]
        simp only [checkStmt, spansOf_append, List.mem_append] at h
        rcases h with (h | h) | h
        · exact Or.inr (Or.inl (checkExpr_spans env cur.vars _ c _ s h))
        · exact Or.inr (Or.inl (by rw [mem_spansOf_errIf h]; exact span_mem_exprSpans c))
        · exact Or.inr (Or.inr (checkBlock_spans _ _ b _ s h))
    | .block b _ sp, f, s, h => by
        simp only [stmtSpans, List.mem_cons]
        simp only [checkStmt] at h
        exact Or.inr (checkBlock_spans _ _ b _ s h)
    | .fnDef name nsp ps body _ _ sp, f, s, h => by
        simp only [stmtSpans, List.mem_cons, List.mem_append]
        simp only [checkStmt] at h
        split at h
        · simp at h
        · exact Or.inr (Or.inr (Or.inr (checkBlock_spans _ _ body _ s h)))
    | .ret e _ sp, f, s, h => by
        simp only [checkStmt] at h
        cases e with
        | some e =>
          simp only [spansOf_append, List.mem_append] at h
          simp only [stmtSpans, List.mem_cons]
          rcases h with h | h
          · exact Or.inl (mem_spansOf_errIf h)
          · exact Or.inr (checkExpr_spans env cur.vars _ e _ s h)
        | none => simp only [stmtSpans, List.mem_singleton]; exact mem_spansOf_errIf h
    | .brk _ sp, f, s, h => by
        simp only [checkStmt] at h
        simp only [stmtSpans, List.mem_singleton]; exact mem_spansOf_errIf h
    | .cont _ sp, f, s, h => by
        simp only [checkStmt] at h
        simp only [stmtSpans, List.mem_singleton]; exact mem_spansOf_errIf h
    | .expr e _ sp, f, s, h => by
        simp only [checkStmt] at h
        simp only [stmtSpans, List.mem_cons]
        exact Or.inr (checkExpr_spans env cur.vars _ e _ s h)
  theorem checkStmts_spans (env : Env) :
      ∀ (ss : List Stmt) (cur : Cur) (f : Facts) (s : Span),
        s ∈ spansOf (checkStmts env cur ss f).ds → s ∈ stmtsSpans ss
    | [], cur, f, s, h => by simp [checkStmts] at h
    | st :: ss, cur, f, s, h => by
        simp only [checkStmts, spansOf_append, List.mem_append] at h
        simp only [stmtsSpans, List.mem_append]
        rcases h with h | h
        · exact Or.inl (checkStmt_spans env cur st f s h)
        · exact Or.inr (checkStmts_spans env ss _ _ s h)
  theorem checkBlock_spans (env : Env) (parent : Option Nat) :
      ∀ (b : Block) (f : Facts) (s : Span), s ∈ spansOf (checkBlock env parent b f).ds → s ∈ blockSpans b
    | .mk ss sp, f, s, h => by
        simp only [checkBlock, spansOf_append, List.mem_append] at h
        simp only [blockSpans, List.mem_cons]
        rcases h with h | h
        · rcases predeclare_spans _ ss [] _ s h with h | h
          · exact Or.inr h
          · simp at h
        · exact Or.inr (checkStmts_spans _ ss _ _ s h)
  theorem checkOptBlock_spans (env : Env) (parent : Option Nat) :
      ∀ (ob : Option Block) (f : Facts) (s : Span), s ∈ spansOf (checkOptBlock env parent ob f).ds →
        ∀ b, ob = some b → s ∈ blockSpans b
    | none, f, s, h, b, hb => by cases hb
    | some b', f, s, h, b, hb => by
        cases hb
        simp only [checkOptBlock] at h
        exact checkBlock_spans env parent b' f s h
end

end NaijaVerif.Resolve
