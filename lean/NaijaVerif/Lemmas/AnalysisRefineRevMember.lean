import NaijaVerif.Lemmas.AnalysisRefineRevPath
/-
BRIDGE, converse direction, part 6: arguments of the mutating methods.
-/
namespace NaijaVerif.C03
open NaijaVerif NaijaVerif.Analysis

variable {N : Type} [NumOps N] {B : Brg}

/-- Evaluating the one argument a method reads: `Eval` needs two levels of fuel above the argument. -/
theorem evalSel_single (rc : Eval.RunCfg) (f : Nat) (e : Expr) (s : Eval.State N) :
    Eval.evalSel rc (f + 2) [.ok e] s = (Eval.evalExpr rc (f + 1) e s).bind fun v s1 => .ok [v] s1 := by
  simp only [Eval.evalSel, Res.ok_bind]

theorem evalSel_single_zero (rc : Eval.RunCfg) (e : Expr) (s : Eval.State N) : Eval.evalSel rc 0 [.ok e] s = .fuel := by
  simp only [Eval.evalSel]

theorem evalSel_single_one (rc : Eval.RunCfg) (e : Expr) (s : Eval.State N) : Eval.evalSel rc 1 [.ok e] s = .fuel := by
  simp only [Eval.evalSel, Eval.evalExpr, Res.fuel_bind]

/-- No argument. -/
theorem rev_mutop_zero (m : Eval.MutM) (args : List Expr) (sp : Span) (s : Eval.State N) (t : AEval.St (VE N))
    (hs : B.Sim s t) (f : Nat) (op : Eval.MutOp N) (hA : mutStepsM (N := N) m = []) (hop : mutOpOf m [] = op)
    (hE : ∀ f, Eval.evalMutOp B.rc (f + 1) m args sp s = .ok op s) :
    Ev' B (OpRel m) (Eval.evalMutOp B.rc (f + 1) m args sp s)
      (fun n => AEval.evalChecked (AEval.evalExpr B.P B.ac n) tmErr (AEval.stepArgs args (mutStepsM m)) t) := by
  simp only [hE, hA, AEval.stepArgs, List.map_nil, AEval.evalChecked]
  exact Ev'.const (RSim.ok hop hs)

/-- One argument, used as it is. -/
theorem rev_mutop_one (hB : B.Ok N) {f : Nat} (IH : ∀ m, m ≤ f → SimAt' (N := N) B m) (m : Eval.MutM) (args : List Expr)
    (hargs : okExprs B.o args = true) (sp : Span) (s : Eval.State N) (t : AEval.St (VE N)) (hs : B.Sim s t)
    (site : Eval.PanicSite) (hsite : siteErr site = tmErr) (mk : VE N → Eval.MutOp N)
    (hA : mutStepsM (N := N) m = [(0, .ok)]) (hop : ∀ v, mutOpOf m [v] = mk v)
    (hE : ∀ f, Eval.evalMutOp B.rc (f + 1) m args sp s =
      (Eval.evalSel B.rc f (Eval.pick args [(0, site)] sp) s).bind fun vs s1 =>
        match vs with
        | [v] => .ok (mk v) s1
        | _ => Eval.trap B.rc site sp s1)
    (hne : Eval.evalMutOp B.rc (f + 1) m args sp s ≠ .fuel) :
    Ev' B (OpRel m) (Eval.evalMutOp B.rc (f + 1) m args sp s)
      (fun n => AEval.evalChecked (AEval.evalExpr B.P B.ac n) tmErr (AEval.stepArgs args (mutStepsM m)) t) := by
  generalize hr : Eval.evalMutOp B.rc (f + 1) m args sp s = res at hne ⊢
  rw [hE] at hr
  rw [hA]
  simp only [AEval.stepArgs, List.map_cons, List.map_nil, Eval.pick] at hr ⊢
  cases hi : args[0]? with
  | none =>
    simp only [hi] at hr
    simp only [AEval.evalChecked]
    cases f with
    | zero => simp only [Eval.evalSel, Res.fuel_bind] at hr; exact absurd hr.symm hne
    | succ f' =>
      simp only [Eval.evalSel] at hr
      have := trap_sim (β := List (VE N)) hB hs.out site sp
      rw [hsite] at this
      have hb := ErrSim.bind (δ := Eval.MutOp N) this (fun _ s1 => .ok .pop s1)
      rw [← hr, hb.2]
      exact Ev'.const (RSim.err hb.1)
  | some e =>
    simp only [hi] at hr
    simp only [AEval.evalChecked]
    rcases f with _ | _ | f''
    · rw [evalSel_single_zero, Res.fuel_bind] at hr; exact absurd hr.symm hne
    · rw [evalSel_single_one, Res.fuel_bind] at hr; exact absurd hr.symm hne
    · rw [evalSel_single, Res.bind_assoc] at hr
      simp only [Res.ok_bind] at hr
      have ih1 := (IH (f'' + 1) (by omega)).expr e s t (okExprs_get hargs hi) hs
      ev'_sub (Eval.evalExpr B.rc (f'' + 1) e s) as v s1 t1 hs1 with ih1 hr hne
      subst hr
      exact Ev'.const (RSim.ok (hop v) hs1)

/-- One argument with a check on its value. -/
theorem rev_mutop_chk (hB : B.Ok N) {f : Nat} (IH : ∀ m, m ≤ f → SimAt' (N := N) B m) (m : Eval.MutM) (args : List Expr)
    (hargs : okExprs B.o args = true) (sp : Span) (s : Eval.State N) (t : AEval.St (VE N)) (hs : B.Sim s t)
    (site : Eval.PanicSite) (hsite : siteErr site = tmErr) {γ : Type} (chkE : VE N → Span → Except Eval.Fault γ)
    (mk : γ → Eval.MutOp N)
    (hspan : ∀ v sp', liftE (chkE v sp') = liftE (chkE v noSpan))
    (hA : mutStepsM (N := N) m = [(0, fun v => (liftE (chkE v noSpan)).map fun _ => v)])
    (hop : ∀ v x, chkE v noSpan = .ok x → mutOpOf m [v] = mk x)
    (hE : ∀ f, Eval.evalMutOp B.rc (f + 1) m args sp s =
      (Eval.evalSel B.rc f (Eval.pick args [(0, site)] sp) s).bind fun vs s1 =>
        match vs with
        | [v] => (Eval.Res.ofExcept B.rc (chkE v sp) sp s1).bind fun x s2 => .ok (mk x) s2
        | _ => Eval.trap B.rc site sp s1)
    (hne : Eval.evalMutOp B.rc (f + 1) m args sp s ≠ .fuel) :
    Ev' B (OpRel m) (Eval.evalMutOp B.rc (f + 1) m args sp s)
      (fun n => AEval.evalChecked (AEval.evalExpr B.P B.ac n) tmErr (AEval.stepArgs args (mutStepsM m)) t) := by
  generalize hr : Eval.evalMutOp B.rc (f + 1) m args sp s = res at hne ⊢
  rw [hE] at hr
  rw [hA]
  simp only [AEval.stepArgs, List.map_cons, List.map_nil, Eval.pick] at hr ⊢
  cases hi : args[0]? with
  | none =>
    simp only [hi] at hr
    simp only [AEval.evalChecked]
    cases f with
    | zero => simp only [Eval.evalSel, Res.fuel_bind] at hr; exact absurd hr.symm hne
    | succ f' =>
      simp only [Eval.evalSel] at hr
      have := trap_sim (β := List (VE N)) hB hs.out site sp
      rw [hsite] at this
      have hb := ErrSim.bind (δ := Eval.MutOp N) this (fun _ s1 => .ok .pop s1)
      rw [← hr, hb.2]
      exact Ev'.const (RSim.err hb.1)
  | some e =>
    simp only [hi] at hr
    simp only [AEval.evalChecked]
    rcases f with _ | _ | f''
    · rw [evalSel_single_zero, Res.fuel_bind] at hr; exact absurd hr.symm hne
    · rw [evalSel_single_one, Res.fuel_bind] at hr; exact absurd hr.symm hne
    · rw [evalSel_single, Res.bind_assoc] at hr
      simp only [Res.ok_bind] at hr
      have ih1 := (IH (f'' + 1) (by omega)).expr e s t (okExprs_get hargs hi) hs
      ev'_sub (Eval.evalExpr B.rc (f'' + 1) e s) as v s1 t1 hs1 with ih1 hr hne
      have hc := ofExcept_sim hB hs1 (chkE v sp) sp
      rw [hspan v sp] at hc
      cases hx : chkE v noSpan with
      | error flt =>
        rw [hx] at hc
        simp only [liftE, Except.map]
        have hb := ErrSim.bind (δ := Eval.MutOp N) (show ErrSim (faultErr flt) t1 _ from hc) (fun _ s1 => .ok .pop s1)
        rw [← hr, hb.2]
        exact Ev'.const (RSim.err hb.1)
      | ok x =>
        rw [hx] at hc
        obtain ⟨y, s2, hrr, rfl, hs2⟩ := (show ∃ y s', _ = Eval.Res.ok y s' ∧ x = y ∧ B.Sim s' t1 from hc)
        simp only [liftE, Except.map]
        rw [hrr, Res.ok_bind] at hr
        subst hr
        exact Ev'.const (RSim.ok (hop v x hx) hs2)

/-- `env(key, value)`. -/
theorem rev_mutop_env (hB : B.Ok N) {f : Nat} (IH : ∀ m, m ≤ f → SimAt' (N := N) B m) (args : List Expr)
    (hargs : okExprs B.o args = true) (sp : Span) (s : Eval.State N) (t : AEval.St (VE N)) (hs : B.Sim s t)
    (hne : Eval.evalMutOp B.rc (f + 1) (.cmd .env) args sp s ≠ .fuel) :
    Ev' B (OpRel (.cmd .env)) (Eval.evalMutOp B.rc (f + 1) (.cmd .env) args sp s)
      (fun n => AEval.evalChecked (AEval.evalExpr B.P B.ac n) tmErr
        (AEval.stepArgs args (mutStepsM (.cmd .env))) t) := by
  generalize hr : Eval.evalMutOp B.rc (f + 1) (.cmd .env) args sp s = res at hne ⊢
  simp only [Eval.evalMutOp, Eval.pick, List.map_cons, List.map_nil] at hr
  simp only [mutStepsM, AEval.stepArgs, List.map_cons, List.map_nil]
  cases h0 : args[0]? with
  | none =>
    simp only [h0] at hr
    simp only [AEval.evalChecked]
    cases f with
    | zero => simp only [Eval.evalSel, Res.fuel_bind] at hr; exact absurd hr.symm hne
    | succ f' =>
      simp only [Eval.evalSel] at hr
      have hb := ErrSim.bind (δ := Eval.MutOp N) (trap_sim (β := List (VE N)) hB hs.out .cmdEnv0 sp)
        (fun _ s1 => .ok .pop s1)
      rw [← hr, hb.2]
      exact Ev'.const (RSim.err hb.1)
  | some e0 =>
    simp only [h0] at hr
    simp only [AEval.evalChecked]
    rcases f with _ | _ | f''
    · rw [evalSel_single_zero, Res.fuel_bind] at hr; exact absurd hr.symm hne
    · rw [evalSel_single_one, Res.fuel_bind] at hr; exact absurd hr.symm hne
    · rw [evalSel_single, Res.bind_assoc] at hr
      simp only [Res.ok_bind] at hr
      have ih1 := (IH (f'' + 1) (by omega)).expr e0 s t (okExprs_get hargs h0) hs
      ev'_sub (Eval.evalExpr B.rc (f'' + 1) e0 s) as kv s1 t1 hs1 with ih1 hr hne
      have hc := ofExcept_sim hB hs1 (Eval.requiredString kv sp) sp
      rw [requiredString_span kv sp] at hc
      simp only [chkString]
      cases hx : Eval.requiredString kv noSpan with
      | error flt =>
        rw [hx] at hc
        simp only [liftE, Except.map]
        have hb := ErrSim.bind (δ := Eval.MutOp N) (show ErrSim (faultErr flt) t1 _ from hc) (fun _ s1 => .ok .pop s1)
        rw [← hr, hb.2]
        exact Ev'.const (RSim.err hb.1)
      | ok key =>
        rw [hx] at hc
        obtain ⟨y, s1', hrr, rfl, hs1'⟩ := (show ∃ y s', _ = Eval.Res.ok y s' ∧ key = y ∧ B.Sim s' t1 from hc)
        simp only [liftE, Except.map]
        rw [hrr, Res.ok_bind] at hr
        cases h1a : args[1]? with
        | none =>
          simp only [h1a, Eval.evalSel] at hr
          simp only [AEval.evalChecked]
          have hb := ErrSim.bind (δ := Eval.MutOp N) (trap_sim (β := List (VE N)) hB hs1'.out .cmdEnv1 sp)
            (fun _ s1 => .ok .pop s1)
          rw [← hr, hb.2]
          exact Ev'.const (RSim.err hb.1)
        | some e1 =>
          simp only [h1a] at hr
          rw [evalSel_single, Res.bind_assoc] at hr
          simp only [Res.ok_bind] at hr
          simp only [AEval.evalChecked]
          have ih2 := (IH (f'' + 1) (by omega)).expr e1 s1' t1 (okExprs_get hargs h1a) hs1'
          ev'_sub (Eval.evalExpr B.rc (f'' + 1) e1 s1') as v s2 t2 hs2 with ih2 hr hne
          subst hr
          refine Ev'.const (RSim.ok ?_ hs2)
          have hk : strOf kv = key := by
            cases kv <;> simp only [Eval.requiredString] at hx <;> cases hx
            rfl
          simp only [OpRel, mutOpOf, hk]

/-- **Arguments of a mutating method**, converse direction. -/
theorem rev_mutop (hB : B.Ok N) {f : Nat} (IH : ∀ m, m ≤ f → SimAt' (N := N) B m) (m : Eval.MutM) (args : List Expr)
    (hargs : okExprs B.o args = true) (sp : Span) (s : Eval.State N) (t : AEval.St (VE N)) (hs : B.Sim s t)
    (hne : Eval.evalMutOp B.rc (f + 1) m args sp s ≠ .fuel) :
    Ev' B (OpRel m) (Eval.evalMutOp B.rc (f + 1) m args sp s)
      (fun n => AEval.evalChecked (AEval.evalExpr B.P B.ac n) tmErr (AEval.stepArgs args (mutStepsM m)) t) := by
  cases m with
  | push =>
    exact rev_mutop_one hB IH .push args hargs sp s t hs .pushArg0 rfl (fun v => .push v) rfl (fun _ => rfl)
      (by mutop_eq) hne
  | pop => exact rev_mutop_zero .pop args sp s t hs f .pop rfl rfl (by mutop_eq)
  | reverse => exact rev_mutop_zero .reverse args sp s t hs f .reverse rfl rfl (by mutop_eq)
  | cmd c =>
    cases c with
    | arg =>
      exact rev_mutop_one hB IH (.cmd .arg) args hargs sp s t hs .cmdArg0 rfl (fun v => .cmd (.arg v.display)) rfl
        (fun _ => rfl) (by mutop_eq) hne
    | stdinText =>
      exact rev_mutop_one hB IH (.cmd .stdinText) args hargs sp s t hs .cmdStdinText0 rfl
        (fun v => .cmd (.stdinText v.display)) rfl (fun _ => rfl) (by mutop_eq) hne
    | cwd =>
      refine rev_mutop_chk hB IH (.cmd .cwd) args hargs sp s t hs .cmdCwd0 rfl Eval.requiredString
        (fun x => .cmd (.cwd x)) requiredString_span rfl ?_ (by mutop_eq) hne
      intro v x hx
      cases v <;> simp only [Eval.requiredString] at hx <;> cases hx
      rfl
    | timeoutMs =>
      refine rev_mutop_chk hB IH (.cmd .timeoutMs) args hargs sp s t hs .cmdTimeout0 rfl Eval.timeoutMs
        (fun ms => .cmd (.timeout ms)) timeoutMs_span rfl ?_ (by mutop_eq) hne
      intro v x hx
      simp only [mutOpOf, msOf, hx]
    | env => exact rev_mutop_env hB IH args hargs sp s t hs hne
    | stdinInherit => exact rev_mutop_zero (.cmd .stdinInherit) args sp s t hs f _ rfl rfl (by mutop_eq)
    | stdinNull => exact rev_mutop_zero (.cmd .stdinNull) args sp s t hs f _ rfl rfl (by mutop_eq)
    | stdoutCapture => exact rev_mutop_zero (.cmd .stdoutCapture) args sp s t hs f _ rfl rfl (by mutop_eq)
    | stdoutInherit => exact rev_mutop_zero (.cmd .stdoutInherit) args sp s t hs f _ rfl rfl (by mutop_eq)
    | stdoutNull => exact rev_mutop_zero (.cmd .stdoutNull) args sp s t hs f _ rfl rfl (by mutop_eq)
    | stderrCapture => exact rev_mutop_zero (.cmd .stderrCapture) args sp s t hs f _ rfl rfl (by mutop_eq)
    | stderrInherit => exact rev_mutop_zero (.cmd .stderrInherit) args sp s t hs f _ rfl rfl (by mutop_eq)
    | stderrNull => exact rev_mutop_zero (.cmd .stderrNull) args sp s t hs f _ rfl rfl (by mutop_eq)
    | run => exact rev_mutop_zero (.cmd .run) args sp s t hs f _ rfl rfl (by mutop_eq)

end NaijaVerif.C03
