import NaijaVerif.Lemmas.AnalysisReach
/-
The simulation behind T1 and the plan theorem: a configuration that never skips a statement the
reachability table calls reachable (and drops no function) runs exactly like the plain runtime,
every executed statement has flag `true`, and a statement (list) that completes normally leaves a
reachable point behind (`afterStmt true s = true`).  One induction on the fuel over all six
evaluator functions.
-/
namespace NaijaVerif.C03
open NaijaVerif NaijaVerif.Analysis NaijaVerif.AEval

variable {V : Type}

structure Main (P : Prims V) (T : List (Nat × Bool)) (cfg : Cfg) (n : Nat) : Prop where
  expr : ∀ (e : Expr) (st : St V), Inv T st →
    evalExpr P cfg n e st = evalExpr P plain n e st ∧ Inv T (evalExpr P plain n e st).2
  list : ∀ (es : List Expr) (st : St V), Inv T st →
    evalList P cfg n es st = evalList P plain n es st ∧ Inv T (evalList P plain n es st).2
  block : ∀ (ss : List Stmt) (st : St V), ConsStmts T true ss → Inv T st →
    execBlock P cfg n ss st = execBlock P plain n ss st ∧ Inv T (execBlock P plain n ss st).2 ∧
    ((execBlock P plain n ss st).1 = .ok .normal → afterStmts true ss = true)
  stmts : ∀ (ss : List Stmt) (st : St V), ConsStmts T true ss → Inv T st →
    execStmts P cfg n ss st = execStmts P plain n ss st ∧ Inv T (execStmts P plain n ss st).2 ∧
    ((execStmts P plain n ss st).1 = .ok .normal → afterStmts true ss = true)
  stmt : ∀ (s : Stmt) (st : St V), ConsStmt T true s → Inv T st →
    execStmt P cfg n s st = execStmt P plain n s st ∧ Inv T (execStmt P plain n s st).2 ∧
    ((execStmt P plain n s st).1 = .ok .normal → afterStmt true s = true)
  loop : ∀ (c : Expr) (b : List Stmt) (st : St V), ConsStmts T true b → Inv T st →
    execLoop P cfg n c b st = execLoop P plain n c b st ∧ Inv T (execLoop P plain n c b st).2

theorem main_zero (P : Prims V) (T : List (Nat × Bool)) (cfg : Cfg) : Main P T cfg 0 := by
  constructor
  · intro e st h; simp [evalExpr, h]
  · intro es st h; simp [evalList, h]
  · intro ss st _ h; simp [execBlock, h]
  · intro ss st _ h; simp [execStmts, h]
  · intro s st _ h; simp [execStmt, h]
  · intro c b st _ h; simp [execLoop, h]

section step
variable {P : Prims V} {T : List (Nat × Bool)} {cfg : Cfg} {n : Nat}

theorem checked_main (ih : Main P T cfg n) (miss : Err) : ∀ (items : List (Option Expr × (V → Except Err V))) (st : St V),
    Inv T st →
    evalChecked (evalExpr P cfg n) miss items st = evalChecked (evalExpr P plain n) miss items st ∧
      Inv T (evalChecked (evalExpr P plain n) miss items st).2
  | [], st, h => ⟨rfl, h⟩
  | (none, _) :: _, st, h => ⟨rfl, h⟩
  | (some e, chk) :: rest, st, h => by
      simp only [evalChecked]
      have h1 := ih.expr e st h
      rw [h1.1]
      generalize evalExpr P plain n e st = r1 at h1 ⊢
      obtain ⟨x, st1⟩ := r1
      cases x with
      | error er => exact ⟨rfl, h1.2⟩
      | ok v =>
        simp only []
        cases chk v with
        | error er => exact ⟨rfl, h1.2⟩
        | ok v' =>
          simp only []
          have h2 := checked_main ih miss rest st1 h1.2
          rw [h2.1]
          generalize evalChecked (evalExpr P plain n) miss rest st1 = r2 at h2 ⊢
          obtain ⟨y, st2⟩ := r2
          cases y with
          | error er => exact ⟨rfl, h2.2⟩
          | ok vs => exact ⟨rfl, h2.2⟩

theorem step_list (ih : Main P T cfg n) : ∀ (es : List Expr) (st : St V), Inv T st →
    evalList P cfg (n + 1) es st = evalList P plain (n + 1) es st ∧ Inv T (evalList P plain (n + 1) es st).2
  | [], st, h => by simp [evalList, h]
  | e :: es, st, h => by
      have h1 := ih.expr e st h
      simp only [evalList]
      rw [h1.1]
      generalize evalExpr P plain n e st = r at h1 ⊢
      obtain ⟨r1, st1⟩ := r
      cases r1 with
      | error er => exact ⟨rfl, h1.2⟩
      | ok v =>
        have h2 := ih.list es st1 h1.2
        simp only []
        rw [h2.1]
        generalize evalList P plain n es st1 = r2 at h2 ⊢
        obtain ⟨r21, st2⟩ := r2
        cases r21 with
        | error er => exact ⟨rfl, h2.2⟩
        | ok vs => exact ⟨rfl, h2.2⟩

theorem consStmt_inTbl {live : Bool} : ∀ {s : Stmt}, ConsStmt T live s → InTbl T s.sid live
  | .fnDef _ _ _ (.mk _ _) _ _ _, h => by simp only [ConsStmt] at h; exact h.1
  | .ifS _ (.mk _ _) none _ _, h => by simp only [ConsStmt] at h; exact h.1
  | .ifS _ (.mk _ _) (some (.mk _ _)) _ _, h => by simp only [ConsStmt] at h; exact h.1
  | .loop _ (.mk _ _) _ _, h => by simp only [ConsStmt] at h; exact h.1
  | .block (.mk _ _) _ _, h => by simp only [ConsStmt] at h; exact h.1
  | .assign .., h | .assignExisting .., h | .assignIndex .., h | .ret .., h | .brk .., h | .cont .., h
  | .expr .., h => by simp only [ConsStmt] at h; exact h

theorem step_stmts (hc : Harmless T cfg) (ih : Main P T cfg n) : ∀ (ss : List Stmt) (st : St V),
    ConsStmts T true ss → Inv T st →
    execStmts P cfg (n + 1) ss st = execStmts P plain (n + 1) ss st ∧ Inv T (execStmts P plain (n + 1) ss st).2 ∧
    ((execStmts P plain (n + 1) ss st).1 = .ok .normal → afterStmts true ss = true)
  | [], st, _, h => by simp [execStmts, afterStmts, h]
  | s :: ss, st, hcs, h => by
      obtain ⟨hs, hrest⟩ := hcs
      simp only [execStmts]
      cases hsid : s.sid with
      | none => exact ⟨by first | rfl | trivial, h, by intro hn; cases hn⟩
      | some i =>
        have hi : (i, true) ∈ T := consStmt_inTbl hs i hsid
        have hskip : cfg.skip i = false := hc.1 i hi
        have hskip' : plain.skip i = false := rfl
        simp only [hskip, hskip']
        have hinv' : Inv T { st with trace := i :: st.trace } :=
          ⟨h.1, by
            intro j hj
            rcases List.mem_cons.mp hj with rfl | hj
            · exact hi
            · exact h.2 j hj⟩
        have h1 := ih.stmt s _ hs hinv'
        simp only [Bool.false_eq_true, ↓reduceIte]
        rw [h1.1]
        generalize execStmt P plain n s { st with trace := i :: st.trace } = r at h1 ⊢
        obtain ⟨r1, st1⟩ := r
        cases r1 with
        | error er => exact ⟨by first | rfl | trivial, h1.2.1, by intro hn; cases hn⟩
        | ok fl =>
          cases fl with
          | normal =>
            have ha : afterStmt true s = true := h1.2.2 rfl
            rw [ha] at hrest
            have h2 := ih.stmts ss st1 hrest h1.2.1
            simp only []
            rw [h2.1]
            exact ⟨by first | rfl | trivial, h2.2.1, by intro hn; simp [afterStmts, ha, h2.2.2 hn]⟩
          | ret v => exact ⟨by first | rfl | trivial, h1.2.1, by intro hn; cases hn⟩
          | brk => exact ⟨by first | rfl | trivial, h1.2.1, by intro hn; cases hn⟩
          | cont => exact ⟨by first | rfl | trivial, h1.2.1, by intro hn; cases hn⟩

theorem step_block (ih : Main P T cfg n) (ss : List Stmt) (st : St V)
    (hcs : ConsStmts T true ss) (h : Inv T st) :
    execBlock P cfg (n + 1) ss st = execBlock P plain (n + 1) ss st ∧ Inv T (execBlock P plain (n + 1) ss st).2 ∧
    ((execBlock P plain (n + 1) ss st).1 = .ok .normal → afterStmts true ss = true) := by
  simp only [execBlock]
  have hinv1 : Inv T { st with env := ⟨blockTag P.sscope ss, []⟩ :: st.env, fns := hoist ss :: st.fns } :=
    ⟨FnsOk.push h.1 (hoist_ok true ss hcs), h.2⟩
  have h1 := ih.stmts ss _ hcs hinv1
  rw [h1.1]
  generalize execStmts P plain n ss { st with env := ⟨blockTag P.sscope ss, []⟩ :: st.env, fns := hoist ss :: st.fns } = r at h1 ⊢
  obtain ⟨r1, st2⟩ := r
  exact ⟨by first | rfl | trivial, ⟨FnsOk.drop h1.2.1.1, h1.2.1.2⟩, h1.2.2⟩

theorem step_loop (ih : Main P T cfg n) (c : Expr) (b : List Stmt) (st : St V)
    (hb : ConsStmts T true b) (h : Inv T st) :
    execLoop P cfg (n + 1) c b st = execLoop P plain (n + 1) c b st ∧ Inv T (execLoop P plain (n + 1) c b st).2 := by
  simp only [execLoop]
  have h1 := ih.expr c st h
  rw [h1.1]
  generalize evalExpr P plain n c st = r at h1 ⊢
  obtain ⟨r1, st1⟩ := r
  cases r1 with
  | error er => exact ⟨by first | rfl | trivial, h1.2⟩
  | ok v =>
    simp only []
    cases P.cond v with
    | error er => exact ⟨by first | rfl | trivial, h1.2⟩
    | ok bv =>
      cases bv with
      | false => exact ⟨by first | rfl | trivial, h1.2⟩
      | true =>
        have h2 := ih.block b st1 hb h1.2
        simp only []
        rw [h2.1]
        generalize execBlock P plain n b st1 = r2 at h2 ⊢
        obtain ⟨r21, st2⟩ := r2
        cases r21 with
        | error er => exact ⟨by first | rfl | trivial, h2.2.1⟩
        | ok fl =>
          cases fl with
          | brk => exact ⟨by first | rfl | trivial, h2.2.1⟩
          | ret v => exact ⟨by first | rfl | trivial, h2.2.1⟩
          | normal => exact ih.loop c b st2 hb h2.2.1
          | cont => exact ih.loop c b st2 hb h2.2.1

theorem step_stmt (ih : Main P T cfg n) : ∀ (s : Stmt) (st : St V), ConsStmt T true s → Inv T st →
    execStmt P cfg (n + 1) s st = execStmt P plain (n + 1) s st ∧ Inv T (execStmt P plain (n + 1) s st).2 ∧
    ((execStmt P plain (n + 1) s st).1 = .ok .normal → afterStmt true s = true)
  | .assign _ _ e b _ _, st, _, h => by
      simp only [execStmt]
      have h1 := ih.expr e st h
      rw [h1.1]
      generalize evalExpr P plain n e st = r at h1 ⊢
      obtain ⟨r1, st1⟩ := r
      cases r1 with
      | error er => exact ⟨by first | rfl | trivial, h1.2, by intro hn; cases hn⟩
      | ok v =>
        cases b with
        | none => exact ⟨by first | rfl | trivial, h1.2, by intro hn; cases hn⟩
        | some id => exact ⟨by first | rfl | trivial, h1.2, by intro _; simp [afterStmt]⟩
  | .assignExisting _ _ e b _ _, st, _, h => by
      simp only [execStmt]
      have h1 := ih.expr e st h
      rw [h1.1]
      generalize evalExpr P plain n e st = r at h1 ⊢
      obtain ⟨r1, st1⟩ := r
      cases r1 with
      | error er => exact ⟨by first | rfl | trivial, h1.2, by intro hn; cases hn⟩
      | ok v =>
        simp only []
        cases b.bind (fun id => assignEnv P.dscope id v st1.env) with
        | none => exact ⟨by first | rfl | trivial, h1.2, by intro hn; cases hn⟩
        | some env' => exact ⟨by first | rfl | trivial, h1.2, by intro _; simp [afterStmt]⟩
  | .assignIndex t e _ _, st, _, h => by
      simp only [execStmt]
      have h1 := ih.expr e st h
      rw [h1.1]
      generalize evalExpr P plain n e st = r at h1 ⊢
      obtain ⟨r1, st1⟩ := r
      cases r1 with
      | error er => exact ⟨by first | rfl | trivial, h1.2, by intro hn; cases hn⟩
      | ok v =>
        simp only []
        cases lvalue t with
        | none => exact ⟨by first | rfl | trivial, h1.2, by intro hn; cases hn⟩
        | some rp =>
          obtain ⟨root, path⟩ := rp
          have h2 := checked_main ih P.argMissing (pathItems P.idx path) st1 h1.2
          simp only []
          rw [h2.1]
          generalize evalChecked (evalExpr P plain n) P.argMissing (pathItems P.idx path) st1 = r2 at h2 ⊢
          obtain ⟨r21, st2⟩ := r2
          cases r21 with
          | error er => exact ⟨by first | rfl | trivial, h2.2, by intro hn; cases hn⟩
          | ok pvs =>
            simp only []
            cases lookupEnv P.dscope root st2.env with
            | none => exact ⟨by first | rfl | trivial, h2.2, by intro hn; cases hn⟩
            | some old =>
              simp only []
              cases P.setPath old pvs v with
              | error er => exact ⟨by first | rfl | trivial, h2.2, by intro hn; cases hn⟩
              | ok new =>
                simp only []
                cases assignEnv P.dscope root new st2.env with
                | none => exact ⟨by first | rfl | trivial, h2.2, by intro hn; cases hn⟩
                | some env' => exact ⟨by first | rfl | trivial, h2.2, by intro _; simp [afterStmt]⟩
  | .ifS c (.mk t _) els _ _, st, hs, h => by
      simp only [execStmt]
      have h1 := ih.expr c st h
      rw [h1.1]
      generalize evalExpr P plain n c st = r at h1 ⊢
      obtain ⟨r1, st1⟩ := r
      cases r1 with
      | error er => exact ⟨by first | rfl | trivial, h1.2, by intro hn; cases hn⟩
      | ok v =>
        simp only []
        cases P.cond v with
        | error er => exact ⟨by first | rfl | trivial, h1.2, by intro hn; cases hn⟩
        | ok bv =>
          cases els with
          | none =>
            simp only [ConsStmt] at hs
            cases bv with
            | false => exact ⟨by first | rfl | trivial, h1.2, by intro _; simp [afterStmt]⟩
            | true =>
              have h2 := ih.block t st1 hs.2 h1.2
              exact ⟨h2.1, h2.2.1, by intro _; simp [afterStmt]⟩
          | some eb =>
            obtain ⟨e, es⟩ := eb
            simp only [ConsStmt] at hs
            cases bv with
            | false =>
              have h2 := ih.block e st1 hs.2.2 h1.2
              exact ⟨h2.1, h2.2.1, by intro hn; simp [afterStmt, h2.2.2 hn]⟩
            | true =>
              have h2 := ih.block t st1 hs.2.1 h1.2
              exact ⟨h2.1, h2.2.1, by intro hn; simp [afterStmt, h2.2.2 hn]⟩
  | .loop c (.mk b _) _ _, st, hs, h => by
      simp only [ConsStmt] at hs
      simp only [execStmt]
      have h1 := ih.loop c b st hs.2 h
      exact ⟨h1.1, h1.2, by intro _; simp [afterStmt]⟩
  | .block (.mk b _) _ _, st, hs, h => by
      simp only [ConsStmt] at hs
      simp only [execStmt]
      have h1 := ih.block b st hs.2 h
      exact ⟨h1.1, h1.2.1, by intro hn; simp [afterStmt, h1.2.2 hn]⟩
  | .fnDef _ _ _ _ _ _ _, st, _, h => by
      simp only [execStmt]
      exact ⟨by first | rfl | trivial, h, by intro _; simp [afterStmt]⟩
  | .ret (some e) _ _, st, _, h => by
      simp only [execStmt]
      have h1 := ih.expr e st h
      rw [h1.1]
      generalize evalExpr P plain n e st = r at h1 ⊢
      obtain ⟨r1, st1⟩ := r
      cases r1 with
      | error er => exact ⟨by first | rfl | trivial, h1.2, by intro hn; cases hn⟩
      | ok v => exact ⟨by first | rfl | trivial, h1.2, by intro hn; cases hn⟩
  | .ret none _ _, st, _, h => by
      simp only [execStmt]
      exact ⟨by first | rfl | trivial, h, by intro hn; cases hn⟩
  | .brk _ _, st, _, h => by
      simp only [execStmt]
      exact ⟨by first | rfl | trivial, h, by intro hn; cases hn⟩
  | .cont _ _, st, _, h => by
      simp only [execStmt]
      exact ⟨by first | rfl | trivial, h, by intro hn; cases hn⟩
  | .expr e _ _, st, _, h => by
      simp only [execStmt]
      have h1 := ih.expr e st h
      rw [h1.1]
      generalize evalExpr P plain n e st = r at h1 ⊢
      obtain ⟨r1, st1⟩ := r
      cases r1 with
      | error er => exact ⟨by first | rfl | trivial, h1.2, by intro hn; cases hn⟩
      | ok v => exact ⟨by first | rfl | trivial, h1.2, by intro _; simp [afterStmt]⟩

theorem finishNode_inv (e : Expr) : ∀ r : R V (List V), Inv T r.2 → Inv T (finishNode P e r).2
  | (.error _, _), h => h
  | (.ok vs, st1), h => by
      simp only [finishNode]
      split <;> exact h

theorem generic (ih : Main P T cfg n) (e : Expr) (st : St V) (h : Inv T st) :
    finishNode P e (evalList P cfg n (children e) st) = finishNode P e (evalList P plain n (children e) st) ∧
    Inv T (finishNode P e (evalList P plain n (children e) st)).2 := by
  have h1 := ih.list (children e) st h
  rw [h1.1]
  exact ⟨rfl, finishNode_inv e _ h1.2⟩

theorem step_logic (ih : Main P T cfg n) (isAnd : Bool) (l r : Expr) (st : St V) (h : Inv T st)
    (stop : V → Bool) (short : V) :
    (match evalExpr P cfg n l st with
      | (.error e, st1) => ((.error e, st1) : R V V)
      | (.ok lv, st1) =>
          if stop lv then (.ok short, st1) else
          match evalExpr P cfg n r st1 with
          | (.error e, st2) => (.error e, st2)
          | (.ok rv, st2) => (P.logicRhs rv, st2)) =
    (match evalExpr P plain n l st with
      | (.error e, st1) => ((.error e, st1) : R V V)
      | (.ok lv, st1) =>
          if stop lv then (.ok short, st1) else
          match evalExpr P plain n r st1 with
          | (.error e, st2) => (.error e, st2)
          | (.ok rv, st2) => (P.logicRhs rv, st2)) ∧
    Inv T (match evalExpr P plain n l st with
      | (.error e, st1) => ((.error e, st1) : R V V)
      | (.ok lv, st1) =>
          if stop lv then (.ok short, st1) else
          match evalExpr P plain n r st1 with
          | (.error e, st2) => (.error e, st2)
          | (.ok rv, st2) => (P.logicRhs rv, st2)).2 := by
  have _ := isAnd
  have h1 := ih.expr l st h
  rw [h1.1]
  generalize evalExpr P plain n l st = r1 at h1 ⊢
  obtain ⟨r11, st1⟩ := r1
  cases r11 with
  | error er => exact ⟨rfl, h1.2⟩
  | ok lv =>
    simp only []
    cases stop lv with
    | true => exact ⟨rfl, h1.2⟩
    | false =>
      have h2 := ih.expr r st1 h1.2
      simp only [Bool.false_eq_true, ↓reduceIte]
      rw [h2.1]
      generalize evalExpr P plain n r st1 = r2 at h2 ⊢
      obtain ⟨r21, st2⟩ := r2
      cases r21 with
      | error er => exact ⟨rfl, h2.2⟩
      | ok rv => exact ⟨rfl, h2.2⟩

theorem step_userCall (hc : Harmless T cfg) (ih : Main P T cfg n) (args : List Expr) (f : Nat) (st : St V) (h : Inv T st) :
    (match findFnC cfg f st.fns with
      | none => ((.error .panic, { st with looked := f :: st.looked }) : R V V)
      | some fd =>
          match evalList P cfg n args { st with looked := f :: st.looked } with
          | (.error e, st1) => (.error e, st1)
          | (.ok vs, st1) =>
              match bindParams fd.params vs with
              | none => (.error .panic, st1)
              | some slots =>
                  match execBlock P cfg n fd.body { st1 with env := ⟨paramTag P.dscope fd.params, slots⟩ :: st1.env, fns := [] :: st1.fns } with
                  | (.error e, st3) => (.error e, { st3 with env := st3.env.drop 1, fns := st3.fns.drop 1 })
                  | (.ok fl, st3) =>
                      match fl with
                      | .normal => (.ok P.null, { st3 with env := st3.env.drop 1, fns := st3.fns.drop 1 })
                      | .ret v => (.ok v, { st3 with env := st3.env.drop 1, fns := st3.fns.drop 1 })
                      | _ => (.error .panic, { st3 with env := st3.env.drop 1, fns := st3.fns.drop 1 })) =
    (match findFnC plain f st.fns with
      | none => ((.error .panic, { st with looked := f :: st.looked }) : R V V)
      | some fd =>
          match evalList P plain n args { st with looked := f :: st.looked } with
          | (.error e, st1) => (.error e, st1)
          | (.ok vs, st1) =>
              match bindParams fd.params vs with
              | none => (.error .panic, st1)
              | some slots =>
                  match execBlock P plain n fd.body { st1 with env := ⟨paramTag P.dscope fd.params, slots⟩ :: st1.env, fns := [] :: st1.fns } with
                  | (.error e, st3) => (.error e, { st3 with env := st3.env.drop 1, fns := st3.fns.drop 1 })
                  | (.ok fl, st3) =>
                      match fl with
                      | .normal => (.ok P.null, { st3 with env := st3.env.drop 1, fns := st3.fns.drop 1 })
                      | .ret v => (.ok v, { st3 with env := st3.env.drop 1, fns := st3.fns.drop 1 })
                      | _ => (.error .panic, { st3 with env := st3.env.drop 1, fns := st3.fns.drop 1 })) ∧
    Inv T (match findFnC plain f st.fns with
      | none => ((.error .panic, { st with looked := f :: st.looked }) : R V V)
      | some fd =>
          match evalList P plain n args { st with looked := f :: st.looked } with
          | (.error e, st1) => (.error e, st1)
          | (.ok vs, st1) =>
              match bindParams fd.params vs with
              | none => (.error .panic, st1)
              | some slots =>
                  match execBlock P plain n fd.body { st1 with env := ⟨paramTag P.dscope fd.params, slots⟩ :: st1.env, fns := [] :: st1.fns } with
                  | (.error e, st3) => (.error e, { st3 with env := st3.env.drop 1, fns := st3.fns.drop 1 })
                  | (.ok fl, st3) =>
                      match fl with
                      | .normal => (.ok P.null, { st3 with env := st3.env.drop 1, fns := st3.fns.drop 1 })
                      | .ret v => (.ok v, { st3 with env := st3.env.drop 1, fns := st3.fns.drop 1 })
                      | _ => (.error .panic, { st3 with env := st3.env.drop 1, fns := st3.fns.drop 1 })).2 := by
  have e1 : findFnC cfg f st.fns = findFn f st.fns := by simp [findFnC, hc.2 f]
  have e2 : findFnC plain f st.fns = findFn f st.fns := by simp [findFnC, plain, Cfg.ofPlan]
  rw [e1, e2]
  cases hf : findFn f st.fns with
  | none => exact ⟨rfl, h⟩
  | some fd =>
    have hbody := findFn_ok h.1 hf
    have h0 : Inv T { st with looked := f :: st.looked } := h
    have h1 := ih.list args _ h0
    simp only []
    rw [h1.1]
    generalize evalList P plain n args { st with looked := f :: st.looked } = r1 at h1 ⊢
    obtain ⟨r11, st1⟩ := r1
    cases r11 with
    | error er => exact ⟨rfl, h1.2⟩
    | ok vs =>
      simp only []
      cases bindParams fd.params vs with
      | none => exact ⟨rfl, h1.2⟩
      | some slots =>
        have hinv2 : Inv T { st1 with env := ⟨paramTag P.dscope fd.params, slots⟩ :: st1.env, fns := [] :: st1.fns } :=
          ⟨FnsOk.push h1.2.1 (by intro fd hfd; cases hfd), h1.2.2⟩
        have h2 := ih.block fd.body _ hbody hinv2
        simp only []
        rw [h2.1]
        generalize execBlock P plain n fd.body { st1 with env := ⟨paramTag P.dscope fd.params, slots⟩ :: st1.env, fns := [] :: st1.fns } = r3 at h2 ⊢
        obtain ⟨r31, st3⟩ := r3
        have hpop : Inv T { st3 with env := st3.env.drop 1, fns := st3.fns.drop 1 } :=
          ⟨FnsOk.drop h2.2.1.1, h2.2.1.2⟩
        cases r31 with
        | error er => exact ⟨rfl, hpop⟩
        | ok fl => cases fl <;> exact ⟨rfl, hpop⟩

theorem step_expr (hc : Harmless T cfg) (ih : Main P T cfg n) : ∀ (e : Expr) (st : St V), Inv T st →
    evalExpr P cfg (n + 1) e st = evalExpr P plain (n + 1) e st ∧ Inv T (evalExpr P plain (n + 1) e st).2
  | .var _ b _, st, h => by
      simp only [evalExpr]
      split <;> exact ⟨by first | rfl | trivial, h⟩
  | .binary .and l r _, st, h => by
      simp only [evalExpr]
      exact step_logic ih true l r st h P.falsy (P.logicShort .and)
  | .binary .or l r _, st, h => by
      simp only [evalExpr]
      exact step_logic ih false l r st h P.truthy (P.logicShort .or)
  | .binary .add l r sp, st, h | .binary .minus l r sp, st, h | .binary .times l r sp, st, h
  | .binary .divide l r sp, st, h | .binary .mod l r sp, st, h | .binary .eq l r sp, st, h
  | .binary .gt l r sp, st, h | .binary .lt l r sp, st, h => by
      simp only [evalExpr]
      exact generic ih _ st h
  | .index a i s1 s2, st, h => by simp only [evalExpr]; exact generic ih _ st h
  | .str p sp, st, h => by simp only [evalExpr]; exact generic ih _ st h
  | .num l sp, st, h => by simp only [evalExpr]; exact generic ih _ st h
  | .array es sp, st, h => by simp only [evalExpr]; exact generic ih _ st h
  | .unary op x sp, st, h => by simp only [evalExpr]; exact generic ih _ st h
  | .bool b sp, st, h => by simp only [evalExpr]; exact generic ih _ st h
  | .member o f s1 s2, st, h => by simp only [evalExpr]; exact generic ih _ st h
  | .null sp, st, h => by simp only [evalExpr]; exact generic ih _ st h
  | .call (.var name _ _) args fn _, st, h => by
      simp only [evalExpr]
      cases P.isGlobal name with
      | true =>
        simp only [↓reduceIte]
        have h1 := ih.list args st h
        rw [h1.1]
        generalize evalList P plain n args st = r1 at h1 ⊢
        obtain ⟨r11, st1⟩ := r1
        cases r11 with
        | error er => exact ⟨by first | rfl | trivial, h1.2⟩
        | ok vs =>
          simp only []
          cases P.isShout name with
          | false => exact ⟨by first | rfl | trivial, h1.2⟩
          | true =>
            simp only [↓reduceIte]
            split <;> exact ⟨by first | rfl | trivial, h1.2⟩
      | false =>
        simp only [Bool.false_eq_true, ↓reduceIte]
        cases fn with
        | none => exact ⟨by first | rfl | trivial, h⟩
        | some f => exact step_userCall hc ih args f st h
  | .call (.member o field fs sp) args fn sp2, st, h => by
      simp only [evalExpr]
      cases P.isMut field with
      | false =>
        simp only [Bool.false_eq_true, ↓reduceIte]
        have h1 := ih.expr o st h
        rw [h1.1]
        generalize evalExpr P plain n o st = r1 at h1 ⊢
        obtain ⟨r11, st1⟩ := r1
        cases r11 with
        | error er => exact ⟨by first | rfl | trivial, h1.2⟩
        | ok recv =>
          simp only []
          cases P.memberSel field recv with
          | error er => exact ⟨by first | rfl | trivial, h1.2⟩
          | ok idx =>
            simp only []
            have h2 := checked_main ih P.argMissing (selArgs args idx) st1 h1.2
            rw [h2.1]
            generalize evalChecked (evalExpr P plain n) P.argMissing (selArgs args idx) st1 = r2 at h2 ⊢
            obtain ⟨r21, st2⟩ := r2
            cases r21 with
            | error er => exact ⟨by first | rfl | trivial, h2.2⟩
            | ok vs => exact ⟨by first | rfl | trivial, h2.2⟩
      | true =>
        simp only [↓reduceIte]
        have h1 := checked_main ih P.argMissing (stepArgs args (P.mutSteps field)) st h
        rw [h1.1]
        generalize evalChecked (evalExpr P plain n) P.argMissing (stepArgs args (P.mutSteps field)) st = r1 at h1 ⊢
        obtain ⟨r11, st1⟩ := r1
        cases r11 with
        | error er => exact ⟨by first | rfl | trivial, h1.2⟩
        | ok vs =>
          simp only []
          cases lvalue o with
          | none => exact ⟨by first | rfl | trivial, h1.2⟩
          | some rp =>
            obtain ⟨root, path⟩ := rp
            have h2 := checked_main ih P.argMissing (pathItems P.idx path) st1 h1.2
            simp only []
            rw [h2.1]
            generalize evalChecked (evalExpr P plain n) P.argMissing (pathItems P.idx path) st1 = r2 at h2 ⊢
            obtain ⟨r21, st2⟩ := r2
            cases r21 with
            | error er => exact ⟨by first | rfl | trivial, h2.2⟩
            | ok pvs =>
              simp only []
              cases lookupEnv P.dscope root st2.env with
              | none => exact ⟨by first | rfl | trivial, h2.2⟩
              | some old =>
                simp only []
                cases P.mutMember field old pvs vs with
                | error er => exact ⟨by first | rfl | trivial, h2.2⟩
                | ok nr =>
                  obtain ⟨new, res⟩ := nr
                  simp only []
                  cases assignEnv P.dscope root new st2.env with
                  | none => exact ⟨by first | rfl | trivial, h2.2⟩
                  | some env' => exact ⟨by first | rfl | trivial, h2.2⟩
  | .call (.index a i s1 s2) args fn sp, st, h => by simp only [evalExpr]; exact generic ih _ st h
  | .call (.str p s1) args fn sp, st, h => by simp only [evalExpr]; exact generic ih _ st h
  | .call (.num l s1) args fn sp, st, h => by simp only [evalExpr]; exact generic ih _ st h
  | .call (.binary op l r s1) args fn sp, st, h => by simp only [evalExpr]; exact generic ih _ st h
  | .call (.call c a f s1) args fn sp, st, h => by simp only [evalExpr]; exact generic ih _ st h
  | .call (.array es s1) args fn sp, st, h => by simp only [evalExpr]; exact generic ih _ st h
  | .call (.unary op x s1) args fn sp, st, h => by simp only [evalExpr]; exact generic ih _ st h
  | .call (.bool b s1) args fn sp, st, h => by simp only [evalExpr]; exact generic ih _ st h
  | .call (.null s1) args fn sp, st, h => by simp only [evalExpr]; exact generic ih _ st h

end step

/-- The simulation for every amount of fuel. -/
theorem main_all (P : Prims V) {T : List (Nat × Bool)} {cfg : Cfg} (hc : Harmless T cfg) : ∀ n, Main P T cfg n
  | 0 => main_zero P T cfg
  | n + 1 =>
      have ih := main_all P hc n
      { expr := step_expr hc ih
        list := step_list ih
        block := step_block ih
        stmts := step_stmts hc ih
        stmt := step_stmt ih
        loop := step_loop ih }

end NaijaVerif.C03
