import NaijaVerif.Lemmas.ResolveStructSids
import NaijaVerif.Lemmas.AnalysisLiveTop
/-
The plan-independent global conditions `C03.globalOkB` (second conjunct of `structOkB`), conjunct by
conjunct:
* `brClosed` — proved for every output of the resolver model in `Props/C06Accepted.lean`
  (`resolve_brClosed`, via `Lemmas/ResolveFactsRange.lean`);
* `usedOkB` — here, for EVERY program and all facts: true by construction of `usedLocals`
  (a fold that only ever adds);
* `slOkB` — here, for every output of the resolver model: `scope_locals[sc]` lists locals declared
  by `sc` (an invariant of the bookkeeping primitives, `Steps.inv`);
* `scOwnB` — `Lemmas/ResolveStructScope.lean` (needs the resolver's scope context);
* `sumOkB` — `Lemmas/ResolveStructSum.lean` (the model: `calleesStar` has converged) and
  `Lemmas/ResolveStructSumWalk.lean` (what the resolver records about calls at function level).
-/
namespace NaijaVerif.ResolveStruct
open NaijaVerif NaijaVerif.Resolve NaijaVerif.ResolveFacts NaijaVerif.Analysis NaijaVerif.C03

/-! ### `usedOkB`: every program, all facts -/

section used
variable (c : Ctx)

/-- What one reachable statement of a body-reachable function adds to `usedLocals`. -/
def usedStep (acc : List Nat) (r : Row) : List Nat :=
  if r.live && c.bodyReachable.contains (c.fnOf r.sid) then
    (c.callees r.sid).foldl (fun acc g => uni (c.transReads g) acc) (uni (c.reads r.sid) acc)
  else acc

theorem usedLocals_eq : c.usedLocals = c.rows.foldl (usedStep c) [] := rfl

theorem mem_foldl_uni {α : Type} (F : α → List Nat) {x : Nat} : ∀ (l : List α) (acc : List Nat),
    x ∈ l.foldl (fun acc g => uni (F g) acc) acc ↔ x ∈ acc ∨ ∃ g ∈ l, x ∈ F g
  | [], acc => by simp
  | g :: l, acc => by
      simp only [List.foldl_cons]
      rw [mem_foldl_uni F l, mem_uni_iff]
      constructor
      · rintro ((h | h) | ⟨g', hg', h⟩)
        · exact Or.inr ⟨g, List.mem_cons_self, h⟩
        · exact Or.inl h
        · exact Or.inr ⟨g', List.mem_cons_of_mem _ hg', h⟩
      · rintro (h | ⟨g', hg', h⟩)
        · exact Or.inl (Or.inr h)
        · rcases List.mem_cons.1 hg' with rfl | hg'
          · exact Or.inl (Or.inl h)
          · exact Or.inr ⟨g', hg', h⟩

theorem usedStep_grows {acc : List Nat} {r : Row} {x : Nat} (h : x ∈ acc) : x ∈ usedStep c acc r := by
  unfold usedStep
  split
  · rw [mem_foldl_uni]; exact Or.inl (mem_uni_iff.2 (Or.inr h))
  · exact h

theorem foldl_usedStep_grows {x : Nat} : ∀ (l : List Row) (acc : List Nat), x ∈ acc → x ∈ l.foldl (usedStep c) acc
  | [], _, h => h
  | r :: l, acc, h => by
      simp only [List.foldl_cons]
      exact foldl_usedStep_grows l _ (usedStep_grows c h)

theorem foldl_usedStep_mem {x : Nat} {r : Row} (hc : (r.live && c.bodyReachable.contains (c.fnOf r.sid)) = true)
    (hx : x ∈ c.reads r.sid ∨ ∃ g ∈ c.callees r.sid, x ∈ c.transReads g) :
    ∀ (l : List Row) (acc : List Nat), r ∈ l → x ∈ l.foldl (usedStep c) acc
  | [], _, h => by cases h
  | r' :: l, acc, h => by
      simp only [List.foldl_cons]
      rcases List.mem_cons.1 h with rfl | h
      · apply foldl_usedStep_grows
        unfold usedStep
        rw [if_pos hc, mem_foldl_uni]
        rcases hx with hx | hx
        · exact Or.inl (mem_uni_iff.2 (Or.inl hx))
        · exact Or.inr hx
      · exact foldl_usedStep_mem hc hx l _ h

/-- **`usedOkB` holds by construction**, whatever the program and the facts. -/
theorem usedOkB_holds : usedOkB c = true := by
  simp only [usedOkB, List.all_eq_true, Bool.or_eq_true, Bool.not_eq_true', Bool.and_eq_true, List.contains_eq_mem,
    decide_eq_true_eq]
  intro r hr
  cases hc : (r.live && c.bodyReachable.contains (c.fnOf r.sid)) with
  | false => exact Or.inl (by simpa using hc)
  | true =>
    right
    refine ⟨fun x hx => ?_, fun g hg x hx => ?_⟩
    · rw [usedLocals_eq]; exact foldl_usedStep_mem c hc (Or.inl hx) _ _ hr
    · rw [usedLocals_eq]; exact foldl_usedStep_mem c hc (Or.inr ⟨g, hg, hx⟩) _ _ hr

end used

/-! ### `slOkB`: an invariant of the bookkeeping -/

/-- `scope_locals[sc]` only lists locals whose declaring scope is `sc`. -/
def SlInv (f : Facts) : Prop :=
  ∀ sc ls, f.scopeLocals[sc]? = some ls → ∀ x ∈ ls, declScopeOf f x = some sc

theorem slInv_root : SlInv rootFacts := by
  intro sc ls h
  simp [rootFacts] at h

theorem slInv_of_eq {f g : Facts} (h1 : g.locals = f.locals) (h2 : g.scopeLocals = f.scopeLocals) (h : SlInv f) : SlInv g := by
  intro sc ls hs x hx
  rw [h2] at hs
  have := h sc ls hs x hx
  simp only [declScopeOf] at this ⊢
  rw [h1]; exact this

theorem primS_slInv {f g : Facts} (hp : PrimS f g) (h : SlInv f) : SlInv g := by
  cases hp with
  | e he => exact slInv_of_eq (primE_lenE he).locals (primE_lenE he).scopeLocals h
  | pushStmt o s => exact slInv_of_eq rfl rfl h
  | pushFunction name np parent scope => exact slInv_of_eq rfl rfl h
  | setRootScope s => exact slInv_of_eq rfl rfl h
  | setDefStmt fn sid => exact slInv_of_eq rfl rfl h
  | pushScope p o =>
    intro sc ls hs x hx
    simp only [pushScope] at hs
    show declScopeOf f x = some sc
    rcases Nat.lt_or_ge sc f.scopeLocals.length with hlt | hge
    · rw [List.getElem?_append_left hlt] at hs
      exact h sc ls hs x hx
    · rw [List.getElem?_append_right hge] at hs
      cases hi : sc - f.scopeLocals.length with
      | zero => simp [hi] at hs; subst hs; cases hx
      | succ n => simp [hi] at hs
  | pushLocal sl name o s d k =>
    intro sc ls hs x hx
    simp only [pushLocal] at hs
    rw [getElem?_modifyAt] at hs
    have hold : ∀ ls0, f.scopeLocals[sc]? = some ls0 → x ∈ ls0 →
        declScopeOf (pushLocal f sl name o s d k) x = some sc := by
      intro ls0 h0 hx0
      have := h sc ls0 h0 x hx0
      simp only [declScopeOf] at this ⊢
      have hlt : x < f.locals.length := by
        cases hl : f.locals[x]? with
        | none => simp [hl] at this
        | some li => exact (List.getElem?_eq_some_iff.1 hl).1
      simp only [pushLocal]
      rw [List.getElem?_append_left hlt]
      exact this
    split at hs
    · next heq =>
      subst heq
      cases h0 : f.scopeLocals[sc]? with
      | none => simp [h0] at hs
      | some ls0 =>
        simp only [h0, Option.map_some, Option.some.injEq] at hs
        subst hs
        rcases List.mem_append.1 hx with hx | hx
        · exact hold ls0 h0 hx
        · simp only [List.mem_singleton] at hx
          subst hx
          simp [declScopeOf, pushLocal]
    · exact hold ls hs hx

/-- **`slOkB`** for the facts of every output of the resolver model. -/
theorem resolveWith_slOk (spanLen : Bool) (q : Block) : slOkB (resolveWith spanLen q).facts = true := by
  have hinv : SlInv (resolveWith spanLen q).facts :=
    Steps.inv (I := SlInv) (fun _ _ hp => primS_slInv hp) (resolveWith_steps spanLen q) slInv_root
  simp only [slOkB, List.all_eq_true, List.mem_range]
  intro sc _
  cases hs : (resolveWith spanLen q).facts.scopeLocals[sc]? with
  | none => rfl
  | some ls =>
    simp only [List.all_eq_true, beq_iff_eq]
    intro x hx
    exact hinv sc ls hs x hx

end NaijaVerif.ResolveStruct
