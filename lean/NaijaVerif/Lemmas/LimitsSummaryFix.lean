/-
The accounting of the summary fixpoint (`Model/Limits.lean`, namespace `Summary`), lifted from
`extend_unique` (`Lemmas/LimitsSummary.lean`) to the callee loop, one function, a sweep over a
component, `summarize_component` and the component loop.

`room nf nl s` is what the summary `s` can still grow by: the three transitive lists are duplicate
free with ids below `nf` / `nl` / `nl`, the class level is at most 2.  Every event is paid out of the
room of the summary being written (`b + room after ≤ b' + room before`), so

* a budget that covers the total room of the state never runs out (`*_error` lemmas: a failure with
  `Fail.budget` implies `b < room`), and
* a sweep that changes something shrinks the total room, which bounds the number of sweeps.

The class level needs an invariant of the whole state (`ClsInv`): the code charges an event whenever
the recomputed class *differs* from the stored one, so the recomputed class must never be smaller.
-/
import NaijaVerif.Lemmas.LimitsSummary

namespace NaijaVerif.Limits.Summary

/-- What the code guarantees of a summary with `nf` functions and `nl` locals in the program. -/
structure SummOK (nf nl : Nat) (s : Summ) : Prop where
  cn : s.callees.Nodup
  cb : ∀ x ∈ s.callees, x < nf
  rn : s.reads.Nodup
  rb : ∀ x ∈ s.reads, x < nl
  wn : s.writes.Nodup
  wb : ∀ x ∈ s.writes, x < nl
  c2 : s.cls ≤ 2
  b2 : s.body ≤ 2

/-- What a summary can still grow by. -/
def room (nf nl : Nat) (s : Summ) : Nat :=
  (nf - s.callees.length) + (nl - s.reads.length) + (nl - s.writes.length) + (2 - s.cls)

theorem room_le (nf nl : Nat) (s : Summ) : room nf nl s ≤ nf + 2 * nl + 2 := by
  unfold room; omega

/-- `extend_unique` on lists of ids below `n`. -/
theorem extendUnique_ok_bound {src dst : List Nat} {b n : Nat} {r : List Nat × Bool × Nat}
    (h : extendUnique dst src b = .ok r) (hn : dst.Nodup) (hd : ∀ y ∈ dst, y < n)
    (hs : ∀ y ∈ src, y < n) :
    r.1.Nodup ∧ (∀ y ∈ r.1, y < n) ∧ r.1.length ≤ n ∧ dst.length ≤ r.1.length ∧
      r.2.2 + r.1.length = b + dst.length ∧ (r.2.1 = true → r.2.2 < b) ∧ r.2.2 ≤ b := by
  obtain ⟨h1, h2, h3, h4, h5⟩ := extendUnique_ok h hn
  have hb : ∀ y ∈ r.1, y < n := fun y hy => ((h2 y).mp hy).elim (hd y) (hs y)
  exact ⟨h1, hb, length_le_of_nodup_lt h1 hb, by omega, h3, h4, h5⟩

/-! ### One callee -/

theorem absorb_ok {nf nl : Nat} {self callee s' : Summ} {b b' : Nat} {ch : Bool}
    (h : absorb self callee b = .ok (s', ch, b')) (hs : SummOK nf nl self)
    (hc : SummOK nf nl callee) :
    SummOK nf nl s' ∧ s'.cls = self.cls ∧ s'.body = self.body ∧ s'.available = self.available ∧
      b + room nf nl s' = b' + room nf nl self ∧ (ch = true → b' < b) ∧ b' ≤ b := by
  unfold absorb at h
  split at h
  · cases h
  · cases h1 : extendUnique self.callees callee.callees b with
    | error e => simp [h1] at h
    | ok r1 =>
      obtain ⟨cs, c1, b1⟩ := r1
      simp only [h1] at h
      cases h2 : extendUnique self.reads callee.reads b1 with
      | error e => simp [h2] at h
      | ok r2 =>
        obtain ⟨rs, c2, b2⟩ := r2
        simp only [h2] at h
        cases h3 : extendUnique self.writes callee.writes b2 with
        | error e => simp [h3] at h
        | ok r3 =>
          obtain ⟨ws, c3, b3⟩ := r3
          simp only [h3, Except.ok.injEq, Prod.mk.injEq] at h
          obtain ⟨rfl, rfl, rfl⟩ := h
          obtain ⟨a1, a2, a3, a4, a5, a6, a7⟩ := extendUnique_ok_bound h1 hs.cn hs.cb hc.cb
          obtain ⟨d1, d2, d3, d4, d5, d6, d7⟩ := extendUnique_ok_bound h2 hs.rn hs.rb hc.rb
          obtain ⟨e1, e2, e3, e4, e5, e6, e7⟩ := extendUnique_ok_bound h3 hs.wn hs.wb hc.wb
          simp only at a1 a2 a3 a4 a5 a6 a7 d1 d2 d3 d4 d5 d6 d7 e1 e2 e3 e4 e5 e6 e7
          have l1 := length_le_of_nodup_lt hs.cn hs.cb
          have l2 := length_le_of_nodup_lt hs.rn hs.rb
          have l3 := length_le_of_nodup_lt hs.wn hs.wb
          refine ⟨⟨a1, a2, d1, d2, e1, e2, hs.c2, hs.b2⟩, rfl, rfl, rfl, ?_, ?_, by omega⟩
          · simp only [room]; omega
          · intro hch
            simp only [Bool.or_eq_true] at hch
            rcases hch with (hch | hch) | hch
            · have := a6 hch; omega
            · have := d6 hch; omega
            · have := e6 hch; omega

/-- A callee is refused when its summary is unavailable; otherwise the only failure is a budget
smaller than the caller's room. -/
theorem absorb_error {nf nl : Nat} {self callee : Summ} {b : Nat} {e : Fail}
    (h : absorb self callee b = .error e) (hs : SummOK nf nl self) (hc : SummOK nf nl callee) :
    (e = .unavailable ∧ callee.available = false) ∨ (e = .budget ∧ b < room nf nl self) := by
  unfold absorb at h
  split at h
  next hav =>
    left
    simp only [Except.error.injEq] at h
    exact ⟨h.symm, by simpa using hav⟩
  next =>
    right
    have l1 := length_le_of_nodup_lt hs.cn hs.cb
    have l2 := length_le_of_nodup_lt hs.rn hs.rb
    have l3 := length_le_of_nodup_lt hs.wn hs.wb
    cases h1 : extendUnique self.callees callee.callees b with
    | error e1 =>
      simp only [h1, Except.error.injEq] at h
      subst h
      obtain ⟨he, hlt⟩ := extendUnique_error h1 hs.cn hs.cb hc.cb
      exact ⟨he, by simp only [room]; omega⟩
    | ok r1 =>
      obtain ⟨cs, c1, b1⟩ := r1
      simp only [h1] at h
      obtain ⟨a1, a2, a3, a4, a5, a6, a7⟩ := extendUnique_ok_bound h1 hs.cn hs.cb hc.cb
      simp only at a1 a2 a3 a4 a5 a6 a7
      cases h2 : extendUnique self.reads callee.reads b1 with
      | error e2 =>
        simp only [h2, Except.error.injEq] at h
        subst h
        obtain ⟨he, hlt⟩ := extendUnique_error h2 hs.rn hs.rb hc.rb
        exact ⟨he, by simp only [room]; omega⟩
      | ok r2 =>
        obtain ⟨rs, c2, b2⟩ := r2
        simp only [h2] at h
        obtain ⟨d1, d2, d3, d4, d5, d6, d7⟩ := extendUnique_ok_bound h2 hs.rn hs.rb hc.rb
        simp only at d1 d2 d3 d4 d5 d6 d7
        cases h3 : extendUnique self.writes callee.writes b2 with
        | error e3 =>
          simp only [h3, Except.error.injEq] at h
          subst h
          obtain ⟨he, hlt⟩ := extendUnique_error h3 hs.wn hs.wb hc.wb
          exact ⟨he, by simp only [room]; omega⟩
        | ok r3 =>
          obtain ⟨ws, c3, b3⟩ := r3
          simp [h3] at h

/-! ### The callee loop of one function -/

/-- The class the callee loop computes from `tc`: joined with the stored class of every direct
callee other than `f` itself. -/
def joinOf (st : List Summ) (f : Nat) : List Nat → Nat → Nat
  | [], tc => tc
  | c :: cs, tc =>
    if c = f then joinOf st f cs tc
    else
      match st[c]? with
      | none => tc
      | some s => joinOf st f cs (max tc s.cls)

theorem calleeLoop_ok {nf nl : Nat} {st : List Summ} {f : Nat} (hst : ∀ s ∈ st, SummOK nf nl s) :
    ∀ (direct : List Nat) (self : Summ) (tc b : Nat) {s' : Summ} {tc' : Nat} {ch : Bool} {b' : Nat},
      calleeLoop st f direct self tc b = .ok (s', tc', ch, b') → SummOK nf nl self →
      SummOK nf nl s' ∧ s'.cls = self.cls ∧ s'.body = self.body ∧ s'.available = self.available ∧
        b + room nf nl s' = b' + room nf nl self ∧ (ch = true → b' < b) ∧ b' ≤ b ∧
        tc' = joinOf st f direct tc := by
  intro direct
  induction direct with
  | nil =>
    intro self tc b s' tc' ch b' h hs
    simp only [calleeLoop, Except.ok.injEq, Prod.mk.injEq] at h
    obtain ⟨rfl, rfl, rfl, rfl⟩ := h
    exact ⟨hs, rfl, rfl, rfl, rfl, by simp, Nat.le_refl _, rfl⟩
  | cons c cs ih =>
    intro self tc b s' tc' ch b' h hs
    simp only [calleeLoop] at h
    by_cases hcf : c = f
    · simp only [hcf, if_true] at h
      have := ih self tc b h hs
      simpa [joinOf, hcf] using this
    · simp only [hcf, if_false] at h
      cases hl : st[c]? with
      | none => simp [hl] at h
      | some callee =>
        simp only [hl] at h
        have hc : SummOK nf nl callee := hst callee (List.mem_of_getElem? hl)
        cases ha : absorb self callee b with
        | error e => simp [ha] at h
        | ok r1 =>
          obtain ⟨s1, ch1, b1⟩ := r1
          simp only [ha] at h
          obtain ⟨o1, o2, o3, o4, o5, o6, o7⟩ := absorb_ok ha hs hc
          cases hr : calleeLoop st f cs s1 (max tc callee.cls) b1 with
          | error e => simp [hr] at h
          | ok r2 =>
            obtain ⟨s2, tc2, ch2, b2⟩ := r2
            simp only [hr, Except.ok.injEq, Prod.mk.injEq] at h
            obtain ⟨rfl, rfl, rfl, rfl⟩ := h
            obtain ⟨p1, p2, p3, p4, p5, p6, p7, p8⟩ := ih s1 (max tc callee.cls) b1 hr o1
            refine ⟨p1, by rw [p2, o2], by rw [p3, o3], by rw [p4, o4], by omega, ?_, by omega, ?_⟩
            · intro hch
              simp only [Bool.or_eq_true] at hch
              rcases hch with hch | hch
              · have := o6 hch; omega
              · have := p6 hch; omega
            · simp [joinOf, hcf, hl, p8]

/-- With every callee id in range and every summary available the callee loop fails only when the
budget is smaller than the caller's room. -/
theorem calleeLoop_error {nf nl : Nat} {st : List Summ} {f : Nat} (hst : ∀ s ∈ st, SummOK nf nl s)
    (hav : ∀ s ∈ st, s.available = true) :
    ∀ (direct : List Nat) (self : Summ) (tc b : Nat) {e : Fail}, (∀ c ∈ direct, c < st.length) →
      calleeLoop st f direct self tc b = .error e → SummOK nf nl self →
      e = .budget ∧ b < room nf nl self := by
  intro direct
  induction direct with
  | nil => intro self tc b e _ h; simp [calleeLoop] at h
  | cons c cs ih =>
    intro self tc b e hr h hs
    have hrc : ∀ c' ∈ cs, c' < st.length := fun c' hc' => hr c' (by simp [hc'])
    simp only [calleeLoop] at h
    by_cases hcf : c = f
    · simp only [hcf, if_true] at h
      exact ih self tc b hrc h hs
    · simp only [hcf, if_false] at h
      have hlt : c < st.length := hr c (by simp)
      have hl : st[c]? = some st[c] := List.getElem?_eq_getElem hlt
      simp only [hl] at h
      have hmem : st[c] ∈ st := List.getElem_mem hlt
      have hc : SummOK nf nl st[c] := hst _ hmem
      cases ha : absorb self st[c] b with
      | error e1 =>
        simp only [ha, Except.error.injEq] at h
        subst h
        rcases absorb_error ha hs hc with ⟨_, hu⟩ | hb
        · rw [hav _ hmem] at hu; cases hu
        · exact hb
      | ok r1 =>
        obtain ⟨s1, ch1, b1⟩ := r1
        simp only [ha] at h
        obtain ⟨o1, o2, o3, o4, o5, o6, o7⟩ := absorb_ok ha hs hc
        cases hrr : calleeLoop st f cs s1 (max tc st[c].cls) b1 with
        | ok r2 => obtain ⟨s2, tc2, ch2, b2⟩ := r2; simp [hrr] at h
        | error e2 =>
          simp only [hrr, Except.error.injEq] at h
          subst h
          obtain ⟨q1, q2⟩ := ih s1 _ b1 hrc hrr o1
          exact ⟨q1, by omega⟩

/-! ### The recomputed class never decreases -/

theorem joinOf_ge (st : List Summ) (f : Nat) : ∀ (direct : List Nat) (tc : Nat),
    tc ≤ joinOf st f direct tc := by
  intro direct
  induction direct with
  | nil => intro tc; simp [joinOf]
  | cons c cs ih =>
    intro tc
    simp only [joinOf]
    split
    · exact ih tc
    · split
      · exact Nat.le_refl _
      · next s _ => exact Nat.le_trans (Nat.le_max_left tc s.cls) (ih _)

theorem joinOf_le_two {st : List Summ} (f : Nat) (hst : ∀ s ∈ st, s.cls ≤ 2) :
    ∀ (direct : List Nat) (tc : Nat), tc ≤ 2 → joinOf st f direct tc ≤ 2 := by
  intro direct
  induction direct with
  | nil => intro tc h; simpa [joinOf] using h
  | cons c cs ih =>
    intro tc h
    simp only [joinOf]
    split
    · exact ih tc h
    · split
      · exact h
      · next s hl =>
        have := hst s (List.mem_of_getElem? hl)
        exact ih _ (by omega)

/-- Pointwise order of the stored classes of two states of the same length. -/
def ClsLe (st st' : List Summ) : Prop :=
  st.length = st'.length ∧ ∀ (i : Nat) (s s' : Summ), st[i]? = some s → st'[i]? = some s' → s.cls ≤ s'.cls

theorem ClsLe.refl (st : List Summ) : ClsLe st st :=
  ⟨rfl, fun i s s' h h' => by rw [h] at h'; cases h'; exact Nat.le_refl _⟩

theorem ClsLe.trans {a b c : List Summ} (h1 : ClsLe a b) (h2 : ClsLe b c) : ClsLe a c := by
  refine ⟨h1.1.trans h2.1, fun i s s'' ha hc => ?_⟩
  have hi : i < b.length := by
    have := (List.getElem?_eq_some_iff.mp ha).1
    rw [← h1.1]; exact this
  exact Nat.le_trans (h1.2 i s b[i] ha (List.getElem?_eq_getElem hi))
    (h2.2 i b[i] s'' (List.getElem?_eq_getElem hi) hc)

theorem joinOf_mono {st st' : List Summ} (f : Nat) (hle : ClsLe st st') :
    ∀ (direct : List Nat) (tc tc' : Nat), tc ≤ tc' →
      joinOf st f direct tc ≤ joinOf st' f direct tc' := by
  intro direct
  induction direct with
  | nil => intro tc tc' h; simpa [joinOf] using h
  | cons c cs ih =>
    intro tc tc' h
    simp only [joinOf]
    by_cases hcf : c = f
    · simp only [hcf, if_true]; exact ih tc tc' h
    · simp only [hcf, if_false]
      by_cases hc : c < st.length
      · have hc' : c < st'.length := hle.1 ▸ hc
        rw [List.getElem?_eq_getElem hc, List.getElem?_eq_getElem hc']
        have := hle.2 c st[c] st'[c] (List.getElem?_eq_getElem hc) (List.getElem?_eq_getElem hc')
        exact ih _ _ (by omega)
      · have hc' : ¬ c < st'.length := hle.1 ▸ hc
        rw [List.getElem?_eq_none (Nat.le_of_not_lt hc), List.getElem?_eq_none (Nat.le_of_not_lt hc')]
        exact h

/-! ### One function of a sweep -/

theorem summFn_ok {nf nl : Nat} {st : List Summ} {f : Nat} {direct : List Nat} {self s' : Summ}
    {b b' : Nat} {ch : Bool} (hst : ∀ s ∈ st, SummOK nf nl s) (hs : SummOK nf nl self)
    (hinv : self.cls ≤ joinOf st f direct self.body)
    (h : summFn st f direct self b = .ok (s', ch, b')) :
    SummOK nf nl s' ∧ s'.body = self.body ∧ s'.available = self.available ∧
      s'.cls = joinOf st f direct self.body ∧ self.cls ≤ s'.cls ∧
      b + room nf nl s' ≤ b' + room nf nl self ∧ (ch = true → b' < b) ∧ b' ≤ b := by
  unfold summFn at h
  cases hl : calleeLoop st f direct self self.body b with
  | error e => simp [hl] at h
  | ok r =>
    obtain ⟨s1, tc, ch1, b1⟩ := r
    simp only [hl] at h
    obtain ⟨p1, p2, p3, p4, p5, p6, p7, p8⟩ := calleeLoop_ok hst direct self self.body b hl hs
    have htc2 : tc ≤ 2 := p8 ▸ joinOf_le_two f (fun s hs' => (hst s hs').c2) direct _ hs.b2
    by_cases heq : s1.cls = tc
    · simp only [heq, if_true, Except.ok.injEq, Prod.mk.injEq] at h
      obtain ⟨rfl, rfl, rfl⟩ := h
      exact ⟨p1, p3, p4, by rw [heq, p8], by omega, by omega, p6, p7⟩
    · simp only [heq, if_false] at h
      cases b1 with
      | zero => simp [noteEvent] at h
      | succ b2 =>
        simp only [noteEvent, Except.ok.injEq, Prod.mk.injEq] at h
        obtain ⟨rfl, rfl, rfl⟩ := h
        have hlt : s1.cls < tc := by
          have : s1.cls ≤ tc := by rw [p2, p8]; exact hinv
          omega
        refine ⟨⟨p1.cn, p1.cb, p1.rn, p1.rb, p1.wn, p1.wb, htc2, p1.b2⟩, p3, p4, p8, by
          show self.cls ≤ tc; omega, ?_, fun _ => by omega, by omega⟩
        have hr : room nf nl { s1 with cls := tc } + (tc - s1.cls) = room nf nl s1 := by
          simp only [room]; omega
        omega

theorem summFn_error {nf nl : Nat} {st : List Summ} {f : Nat} {direct : List Nat} {self : Summ}
    {b : Nat} {e : Fail} (hst : ∀ s ∈ st, SummOK nf nl s) (hav : ∀ s ∈ st, s.available = true)
    (hr : ∀ c ∈ direct, c < st.length) (hs : SummOK nf nl self)
    (hinv : self.cls ≤ joinOf st f direct self.body)
    (h : summFn st f direct self b = .error e) : e = .budget ∧ b < room nf nl self := by
  unfold summFn at h
  cases hl : calleeLoop st f direct self self.body b with
  | error e1 =>
    simp only [hl, Except.error.injEq] at h
    subst h
    exact calleeLoop_error hst hav direct self self.body b hr hl hs
  | ok r =>
    obtain ⟨s1, tc, ch1, b1⟩ := r
    simp only [hl] at h
    obtain ⟨p1, p2, p3, p4, p5, p6, p7, p8⟩ := calleeLoop_ok hst direct self self.body b hl hs
    have htc2 : tc ≤ 2 := p8 ▸ joinOf_le_two f (fun s hs' => (hst s hs').c2) direct _ hs.b2
    by_cases heq : s1.cls = tc
    · simp [heq] at h
    · simp only [heq, if_false] at h
      cases b1 with
      | succ b2 => simp [noteEvent] at h
      | zero =>
        simp only [noteEvent, Except.error.injEq] at h
        have hlt : s1.cls < tc := by
          have : s1.cls ≤ tc := by rw [p2, p8]; exact hinv
          omega
        have : 1 ≤ room nf nl s1 := by simp only [room]; omega
        exact ⟨h.symm, by omega⟩

/-! ### The whole state -/

/-- Total room of a state. -/
def roomAll (nf nl : Nat) (st : List Summ) : Nat := (st.map (room nf nl)).sum

theorem roomAll_set {nf nl : Nat} : ∀ {st : List Summ} {f : Nat} {self : Summ} (s' : Summ),
    st[f]? = some self →
    roomAll nf nl (st.set f s') + room nf nl self = roomAll nf nl st + room nf nl s' := by
  intro st
  induction st with
  | nil => intro f self s' h; simp at h
  | cons x xs ih =>
    intro f self s' h
    cases f with
    | zero =>
      simp only [List.getElem?_cons_zero, Option.some.injEq] at h
      subst h
      simp only [roomAll, List.set_cons_zero, List.map_cons, List.sum_cons]
      omega
    | succ f =>
      simp only [List.getElem?_cons_succ] at h
      have := ih s' h
      simp only [roomAll, List.set_cons_succ, List.map_cons, List.sum_cons] at this ⊢
      omega

theorem room_le_roomAll {nf nl : Nat} : ∀ {st : List Summ} {f : Nat} {self : Summ},
    st[f]? = some self → room nf nl self ≤ roomAll nf nl st := by
  intro st
  induction st with
  | nil => intro f self h; simp at h
  | cons x xs ih =>
    intro f self h
    cases f with
    | zero =>
      simp only [List.getElem?_cons_zero, Option.some.injEq] at h
      subst h
      simp only [roomAll, List.map_cons, List.sum_cons]
      omega
    | succ f =>
      simp only [List.getElem?_cons_succ] at h
      have := ih h
      simp only [roomAll, List.map_cons, List.sum_cons] at this ⊢
      omega

theorem roomAll_le (nf nl : Nat) (st : List Summ) : roomAll nf nl st ≤ st.length * (nf + 2 * nl + 2) := by
  induction st with
  | nil => simp [roomAll]
  | cons x xs ih =>
    have := room_le nf nl x
    simp only [roomAll, List.map_cons, List.sum_cons, List.length_cons] at ih ⊢
    rw [Nat.add_mul]
    omega

/-- The call graph has one entry per function and every callee is a function. -/
structure GraphOK (nf : Nat) (g : List (List Nat)) : Prop where
  len : g.length = nf
  rng : ∀ d ∈ g, ∀ c ∈ d, c < nf

/-- Invariant of the summaries while the fixpoint runs. -/
structure StOK (nf nl : Nat) (g : List (List Nat)) (st : List Summ) : Prop where
  len : st.length = nf
  ok : ∀ s ∈ st, SummOK nf nl s
  /-- a stored class never exceeds what the next visit of the function recomputes -/
  inv : ∀ i s direct, st[i]? = some s → g[i]? = some direct → s.cls ≤ joinOf st i direct s.body

theorem ClsLe_set {st : List Summ} {f : Nat} {self s' : Summ} (hf : st[f]? = some self)
    (hle : self.cls ≤ s'.cls) : ClsLe st (st.set f s') := by
  refine ⟨by simp, fun i s t hs ht => ?_⟩
  by_cases hif : f = i
  · subst hif
    have hlt := (List.getElem?_eq_some_iff.mp hf).1
    rw [List.getElem?_set_self hlt] at ht
    rw [hf] at hs
    cases hs; cases ht
    exact hle
  · rw [List.getElem?_set_ne hif, hs] at ht
    cases ht
    exact Nat.le_refl _

theorem StOK_set {nf nl : Nat} {g : List (List Nat)} {st : List Summ} {f : Nat} {direct : List Nat}
    {self s' : Summ} (hok : StOK nf nl g st) (hf : st[f]? = some self) (hd : g[f]? = some direct)
    (hs' : SummOK nf nl s') (hbody : s'.body = self.body)
    (hcls : s'.cls = joinOf st f direct self.body) (hle : self.cls ≤ s'.cls) :
    StOK nf nl g (st.set f s') := by
  have hmono := ClsLe_set hf hle
  refine ⟨by simpa using hok.len, fun s hs => ?_, fun i s d hi hg => ?_⟩
  · rcases List.mem_or_eq_of_mem_set hs with h | rfl
    · exact hok.ok s h
    · exact hs'
  · by_cases hif : f = i
    · subst hif
      have hlt := (List.getElem?_eq_some_iff.mp hf).1
      rw [List.getElem?_set_self hlt] at hi
      cases hi
      rw [hd] at hg
      cases hg
      rw [hcls, hbody]
      exact joinOf_mono f hmono direct _ _ (Nat.le_refl _)
    · rw [List.getElem?_set_ne hif] at hi
      exact Nat.le_trans (hok.inv i s d hi hg) (joinOf_mono i hmono d _ _ (Nat.le_refl _))

/-! ### A sweep over a component -/

theorem sweep_ok {nf nl : Nat} {g : List (List Nat)} :
    ∀ (comp : List Nat) (st : List Summ) (changed : Bool) (b : Nat) {st' : List Summ} {ch' : Bool}
      {b' : Nat}, sweep g comp st changed b = .ok (st', ch', b') → StOK nf nl g st →
      StOK nf nl g st' ∧ ((∀ s ∈ st, s.available = true) → ∀ s ∈ st', s.available = true) ∧
        b + roomAll nf nl st' ≤ b' + roomAll nf nl st ∧ (ch' = true → changed = true ∨ b' < b) ∧
        b' ≤ b := by
  intro comp
  induction comp with
  | nil =>
    intro st changed b st' ch' b' h hok
    simp only [sweep, Except.ok.injEq, Prod.mk.injEq] at h
    obtain ⟨rfl, rfl, rfl⟩ := h
    exact ⟨hok, fun h => h, Nat.le_refl _, fun h => Or.inl h, Nat.le_refl _⟩
  | cons f rest ih =>
    intro st changed b st' ch' b' h hok
    simp only [sweep] at h
    cases hsf : st[f]? with
    | none => simp [hsf] at h
    | some self =>
      cases hgf : g[f]? with
      | none => simp [hsf, hgf] at h
      | some direct =>
        simp only [hsf, hgf] at h
        have hself : SummOK nf nl self := hok.ok self (List.mem_of_getElem? hsf)
        have hinv := hok.inv f self direct hsf hgf
        cases hfn : summFn st f direct self b with
        | error e => simp [hfn] at h
        | ok r =>
          obtain ⟨s1, ch1, b1⟩ := r
          simp only [hfn] at h
          obtain ⟨q1, q2, q3, q4, q5, q6, q7, q8⟩ := summFn_ok hok.ok hself hinv hfn
          have hok1 : StOK nf nl g (st.set f s1) := StOK_set hok hsf hgf q1 q2 q4 q5
          obtain ⟨r1, r2, r3, r4, r5⟩ := ih (st.set f s1) (changed || ch1) b1 h hok1
          have hroom := roomAll_set (nf := nf) (nl := nl) s1 hsf
          refine ⟨r1, fun hav => r2 fun s hs => ?_, by omega, fun hch => ?_, by omega⟩
          · rcases List.mem_or_eq_of_mem_set hs with hm | rfl
            · exact hav s hm
            · rw [q3]; exact hav self (List.mem_of_getElem? hsf)
          · rcases r4 hch with hc | hc
            · simp only [Bool.or_eq_true] at hc
              rcases hc with hc | hc
              · exact Or.inl hc
              · have := q7 hc; exact Or.inr (by omega)
            · exact Or.inr (by omega)

/-- With every summary available a sweep fails only when the budget is smaller than the room of the
state — or, for a component that names something that is not a function, by the index panic. -/
theorem sweep_error {nf nl : Nat} {g : List (List Nat)} (hg : GraphOK nf g) :
    ∀ (comp : List Nat) (st : List Summ) (changed : Bool) (b : Nat) {e : Fail},
      sweep g comp st changed b = .error e → StOK nf nl g st →
      (∀ s ∈ st, s.available = true) →
      (e = .index ∧ ∃ i ∈ comp, nf ≤ i) ∨ (e = .budget ∧ b < roomAll nf nl st) := by
  intro comp
  induction comp with
  | nil => intro st changed b e h; simp [sweep] at h
  | cons f rest ih =>
    intro st changed b e h hok hav
    by_cases hf : f < nf
    · have hfs : f < st.length := hok.len ▸ hf
      have hfg : f < g.length := hg.len ▸ hf
      have hsf : st[f]? = some st[f] := List.getElem?_eq_getElem hfs
      have hgf : g[f]? = some g[f] := List.getElem?_eq_getElem hfg
      simp only [sweep, hsf, hgf] at h
      have hself : SummOK nf nl st[f] := hok.ok _ (List.getElem_mem hfs)
      have hinv := hok.inv f _ _ hsf hgf
      have hdir : ∀ c ∈ g[f], c < st.length := fun c hc => hok.len ▸ hg.rng _ (List.getElem_mem hfg) c hc
      cases hfn : summFn st f g[f] st[f] b with
      | error e1 =>
        simp only [hfn, Except.error.injEq] at h
        subst h
        obtain ⟨e1, e2⟩ := summFn_error hok.ok hav hdir hself hinv hfn
        exact Or.inr ⟨e1, Nat.lt_of_lt_of_le e2 (room_le_roomAll hsf)⟩
      | ok r =>
        obtain ⟨s1, ch1, b1⟩ := r
        simp only [hfn] at h
        obtain ⟨q1, q2, q3, q4, q5, q6, q7, q8⟩ := summFn_ok hok.ok hself hinv hfn
        have hok1 : StOK nf nl g (st.set f s1) := StOK_set hok hsf hgf q1 q2 q4 q5
        have hav1 : ∀ s ∈ st.set f s1, s.available = true := by
          intro s hs
          rcases List.mem_or_eq_of_mem_set hs with hm | rfl
          · exact hav s hm
          · rw [q3]; exact hav _ (List.getElem_mem hfs)
        have hroom := roomAll_set (nf := nf) (nl := nl) s1 hsf
        rcases ih (st.set f s1) (changed || ch1) b1 h hok1 hav1 with ⟨e1, i, hi, hle⟩ | ⟨e1, e2⟩
        · exact Or.inl ⟨e1, i, by simp [hi], hle⟩
        · exact Or.inr ⟨e1, by omega⟩
    · have hsf : st[f]? = none := List.getElem?_eq_none (by rw [hok.len]; omega)
      simp only [sweep, hsf, Except.error.injEq] at h
      exact Or.inl ⟨h.symm, f, by simp, by omega⟩

/-! ### `summarize_component` -/

theorem summarizeComponent_ok {nf nl : Nat} {g : List (List Nat)} {comp : List Nat} :
    ∀ (fuel : Nat) (st : List Summ) (b : Nat) {st' : List Summ} {b' : Nat} {fl : Bool},
      summarizeComponent g comp fuel st b = .ok (st', b', fl) → StOK nf nl g st →
      StOK nf nl g st' ∧ ((∀ s ∈ st, s.available = true) → ∀ s ∈ st', s.available = true) ∧
        b + roomAll nf nl st' ≤ b' + roomAll nf nl st ∧ b' ≤ b := by
  intro fuel
  induction fuel with
  | zero =>
    intro st b st' b' fl h hok
    simp only [summarizeComponent, Except.ok.injEq, Prod.mk.injEq] at h
    obtain ⟨rfl, rfl, rfl⟩ := h
    exact ⟨hok, fun h => h, Nat.le_refl _, Nat.le_refl _⟩
  | succ fuel ih =>
    intro st b st' b' fl h hok
    simp only [summarizeComponent] at h
    cases hsw : sweep g comp st false b with
    | error e => simp [hsw] at h
    | ok r =>
      obtain ⟨st1, ch, b1⟩ := r
      simp only [hsw] at h
      obtain ⟨r1, r2, r3, r4, r5⟩ := sweep_ok comp st false b hsw hok
      cases ch with
      | false =>
        simp only [Bool.false_eq_true, if_false, Except.ok.injEq, Prod.mk.injEq] at h
        obtain ⟨rfl, rfl, rfl⟩ := h
        exact ⟨r1, r2, r3, r5⟩
      | true =>
        simp only [if_true] at h
        obtain ⟨t1, t2, t3, t4⟩ := ih st1 b1 h r1
        exact ⟨t1, fun hav => t2 (r2 hav), by omega, by omega⟩

theorem summarizeComponent_error {nf nl : Nat} {g : List (List Nat)} (hg : GraphOK nf g)
    {comp : List Nat} :
    ∀ (fuel : Nat) (st : List Summ) (b : Nat) {e : Fail},
      summarizeComponent g comp fuel st b = .error e → StOK nf nl g st →
      (∀ s ∈ st, s.available = true) →
      (e = .index ∧ ∃ i ∈ comp, nf ≤ i) ∨ (e = .budget ∧ b < roomAll nf nl st) := by
  intro fuel
  induction fuel with
  | zero => intro st b e h; simp [summarizeComponent] at h
  | succ fuel ih =>
    intro st b e h hok hav
    simp only [summarizeComponent] at h
    cases hsw : sweep g comp st false b with
    | error e1 =>
      simp only [hsw, Except.error.injEq] at h
      subst h
      exact sweep_error hg comp st false b hsw hok hav
    | ok r =>
      obtain ⟨st1, ch, b1⟩ := r
      simp only [hsw] at h
      obtain ⟨r1, r2, r3, r4, r5⟩ := sweep_ok comp st false b hsw hok
      cases ch with
      | false => simp at h
      | true =>
        simp only [if_true] at h
        rcases ih st1 b1 h r1 (r2 hav) with hi | ⟨e1, e2⟩
        · exact Or.inl hi
        · exact Or.inr ⟨e1, by omega⟩

/-- **Fuel adequacy.**  Every sweep that changes something pays at least one event out of the
room of the state, so more than `roomAll` sweeps are never needed: any two such fuels give the
same result … -/
theorem summarizeComponent_fuel {nf nl : Nat} {g : List (List Nat)} {comp : List Nat} :
    ∀ (fuel₁ fuel₂ : Nat) (st : List Summ) (b : Nat), StOK nf nl g st →
      roomAll nf nl st < fuel₁ → roomAll nf nl st < fuel₂ →
      summarizeComponent g comp fuel₁ st b = summarizeComponent g comp fuel₂ st b := by
  intro fuel₁
  induction fuel₁ with
  | zero => intro fuel₂ st b _ h; omega
  | succ fuel₁ ih =>
    intro fuel₂ st b hok h1 h2
    cases fuel₂ with
    | zero => omega
    | succ fuel₂ =>
      simp only [summarizeComponent]
      cases hsw : sweep g comp st false b with
      | error e => rfl
      | ok r =>
        obtain ⟨st1, ch, b1⟩ := r
        obtain ⟨r1, r2, r3, r4, r5⟩ := sweep_ok comp st false b hsw hok
        cases ch with
        | false => rfl
        | true =>
          simp only [if_true]
          have : b1 < b := by
            rcases r4 rfl with h | h
            · cases h
            · exact h
          exact ih fuel₂ st1 b1 r1 (by omega) (by omega)

/-- … and the loop ends by itself (the flag is `true`), never by the fuel. -/
theorem summarizeComponent_flag {nf nl : Nat} {g : List (List Nat)} {comp : List Nat} :
    ∀ (fuel : Nat) (st : List Summ) (b : Nat) {st' : List Summ} {b' : Nat} {fl : Bool},
      StOK nf nl g st → roomAll nf nl st < fuel →
      summarizeComponent g comp fuel st b = .ok (st', b', fl) → fl = true := by
  intro fuel
  induction fuel with
  | zero => intro st b st' b' fl _ h; omega
  | succ fuel ih =>
    intro st b st' b' fl hok hlt h
    simp only [summarizeComponent] at h
    cases hsw : sweep g comp st false b with
    | error e => simp [hsw] at h
    | ok r =>
      obtain ⟨st1, ch, b1⟩ := r
      simp only [hsw] at h
      obtain ⟨r1, r2, r3, r4, r5⟩ := sweep_ok comp st false b hsw hok
      cases ch with
      | false =>
        simp only [Bool.false_eq_true, if_false, Except.ok.injEq, Prod.mk.injEq] at h
        exact h.2.2.symm
      | true =>
        simp only [if_true] at h
        have : b1 < b := by
          rcases r4 rfl with h | h
          · cases h
          · exact h
        exact ih st1 b1 r1 (by omega) h

/-! ### The component loop -/

/-- **Budget sufficiency, general form.**  From a state whose summaries are all available, with a
budget that covers the room of the state, no component fails for lack of budget or because of an
unavailable callee — for every list of components.  The only other failure is the index panic of a
component that names something that is not a function. -/
theorem firstFailure_sufficient {nf nl : Nat} {g : List (List Nat)} (hg : GraphOK nf g) (fuel : Nat) :
    ∀ (comps : List (List Nat)) (st : List Summ) (b : Nat), StOK nf nl g st →
      (∀ s ∈ st, s.available = true) → roomAll nf nl st ≤ b →
      firstFailure g fuel comps st b = none ∨
        (firstFailure g fuel comps st b = some .index ∧ ∃ comp ∈ comps, ∃ i ∈ comp, nf ≤ i) := by
  intro comps
  induction comps with
  | nil => intro st b _ _ _; exact Or.inl rfl
  | cons comp rest ih =>
    intro st b hok hav hb
    simp only [firstFailure]
    cases hsc : summarizeComponent g comp fuel st b with
    | error e =>
      rcases summarizeComponent_error hg fuel st b hsc hok hav with ⟨e1, i, hi, hle⟩ | ⟨_, e2⟩
      · exact Or.inr ⟨by rw [e1], comp, by simp, i, hi, hle⟩
      · omega
    | ok r =>
      obtain ⟨st1, b1, fl⟩ := r
      obtain ⟨t1, t2, t3, t4⟩ := summarizeComponent_ok fuel st b hsc hok
      rcases ih st1 b1 t1 (t2 hav) (by omega) with h | ⟨h, c, hc, hi⟩
      · exact Or.inl h
      · exact Or.inr ⟨h, c, by simp [hc], hi⟩

/-- Nothing failed ⇒ `runGlobal` returns the summaries as the components left them: the invariant
holds and nothing was marked unavailable. -/
theorem runGlobal_of_noFailure {nf nl : Nat} {g : List (List Nat)} (fuel : Nat) :
    ∀ (comps : List (List Nat)) (st : List Summ) (b : Nat), StOK nf nl g st →
      (∀ s ∈ st, s.available = true) → firstFailure g fuel comps st b = none →
      ∃ st', runGlobal g fuel comps st b = .ok st' ∧ StOK nf nl g st' ∧
        ∀ s ∈ st', s.available = true := by
  intro comps
  induction comps with
  | nil => intro st b hok hav _; exact ⟨st, rfl, hok, hav⟩
  | cons comp rest ih =>
    intro st b hok hav hff
    simp only [firstFailure] at hff
    simp only [runGlobal]
    cases hsc : summarizeComponent g comp fuel st b with
    | error e => simp [hsc] at hff
    | ok r =>
      obtain ⟨st1, b1, fl⟩ := r
      simp only [hsc] at hff
      obtain ⟨t1, t2, _, _⟩ := summarizeComponent_ok fuel st b hsc hok
      exact ih st1 b1 t1 (t2 hav) hff

/-- **Fuel adequacy of the whole run**: with more fuel than the room of the state the fuel never
decides anything. -/
theorem runGlobal_fuel {nf nl : Nat} {g : List (List Nat)} {fuel₁ fuel₂ : Nat} :
    ∀ (comps : List (List Nat)) (st : List Summ) (b : Nat), StOK nf nl g st →
      roomAll nf nl st < fuel₁ → roomAll nf nl st < fuel₂ →
      runGlobal g fuel₁ comps st b = runGlobal g fuel₂ comps st b := by
  intro comps
  induction comps with
  | nil => intro st b _ _ _; rfl
  | cons comp rest ih =>
    intro st b hok h1 h2
    simp only [runGlobal]
    rw [summarizeComponent_fuel fuel₁ fuel₂ st b hok h1 h2]
    cases hsc : summarizeComponent g comp fuel₂ st b with
    | error e => cases e <;> rfl
    | ok r =>
      obtain ⟨st1, b1, fl⟩ := r
      obtain ⟨t1, _, t3, t4⟩ := summarizeComponent_ok fuel₂ st b hsc hok
      exact ih st1 b1 t1 (by omega) (by omega)

theorem runGlobal_of_index {g : List (List Nat)} (fuel : Nat) :
    ∀ (comps : List (List Nat)) (st : List Summ) (b : Nat),
      firstFailure g fuel comps st b = some .index → runGlobal g fuel comps st b = .error .index := by
  intro comps
  induction comps with
  | nil => intro st b h; simp [firstFailure] at h
  | cons comp rest ih =>
    intro st b h
    simp only [firstFailure] at h
    simp only [runGlobal]
    cases hsc : summarizeComponent g comp fuel st b with
    | error e =>
      simp only [hsc, Option.some.injEq] at h
      subst h
      rfl
    | ok r =>
      obtain ⟨st1, b1, fl⟩ := r
      simp only [hsc] at h
      exact ih st1 b1 h

/-! ### The initial state -/

/-- What the resolver guarantees of the direct facts (`record_direct_callee`,
`record_capture_read`, `record_capture_write` push only what is not yet there; ids index
`functions` / `locals`; a statement class is one of the three levels). -/
structure DirectsOK (nl : Nat) (ds : List Direct) : Prop where
  cn : ∀ d ∈ ds, d.callees.Nodup
  cb : ∀ d ∈ ds, ∀ x ∈ d.callees, x < ds.length
  rn : ∀ d ∈ ds, d.reads.Nodup
  rb : ∀ d ∈ ds, ∀ x ∈ d.reads, x < nl
  wn : ∀ d ∈ ds, d.writes.Nodup
  wb : ∀ d ∈ ds, ∀ x ∈ d.writes, x < nl
  sb : ∀ d ∈ ds, ∀ c ∈ d.stmts, c ≤ 2

theorem foldl_max_le_two : ∀ (xs : List Nat) (a : Nat), a ≤ 2 → (∀ x ∈ xs, x ≤ 2) →
    xs.foldl max a ≤ 2 := by
  intro xs
  induction xs with
  | nil => intro a h _; simpa using h
  | cons x xs ih =>
    intro a h hx
    simp only [List.foldl_cons]
    have := hx x (by simp)
    exact ih _ (by omega) (fun y hy => hx y (by simp [hy]))

theorem bodyClass_le_two (d : Direct) (h : ∀ c ∈ d.stmts, c ≤ 2) : bodyClass d ≤ 2 := by
  unfold bodyClass
  split
  · exact foldl_max_le_two _ _ (by omega) h
  · exact Nat.le_refl _

theorem initial_ok {nl : Nat} {ds : List Direct} (h : DirectsOK nl ds) (g : List (List Nat)) :
    StOK ds.length nl g (initial ds) := by
  refine ⟨by simp [initial], fun s hs => ?_, fun i s d hi _ => ?_⟩
  · simp only [initial, List.mem_map] at hs
    obtain ⟨d, hd, rfl⟩ := hs
    exact ⟨h.cn d hd, h.cb d hd, h.rn d hd, h.rb d hd, h.wn d hd, h.wb d hd,
      bodyClass_le_two d (h.sb d hd), bodyClass_le_two d (h.sb d hd)⟩
  · have hs := List.mem_of_getElem? hi
    simp only [initial, List.mem_map] at hs
    obtain ⟨d', _, rfl⟩ := hs
    exact joinOf_ge _ _ _ _

theorem initial_available (ds : List Direct) : ∀ s ∈ initial ds, s.available = true := by
  intro s hs
  simp only [initial, List.mem_map] at hs
  obtain ⟨d, _, rfl⟩ := hs
  rfl

theorem roomAll_initial_le (nl : Nat) (ds : List Direct) :
    roomAll ds.length nl (initial ds) ≤ ds.length * (ds.length + 2 * nl + 2) := by
  have := roomAll_le ds.length nl (initial ds)
  simpa [initial] using this

theorem graph_ok {nl : Nat} {ds : List Direct} (h : DirectsOK nl ds) : GraphOK ds.length (graph ds) := by
  refine ⟨by simp [graph], fun d hd c hc => ?_⟩
  simp only [graph, List.mem_map] at hd
  obtain ⟨d', hd', rfl⟩ := hd
  exact h.cb d' hd' c hc

end NaijaVerif.Limits.Summary
