import NaijaVerif.Lemmas.AnalysisLiveSim
/-
Interprocedural `PureNoTrap`: in the plain run, an expression the fixed classification calls
`PureNoTrap` whose user calls all go to functions with a `PureNoTrap` summary evaluates to a value
(or ends in fuel exhaustion, an unbound variable or an interpreter crash) and restores variables,
function scopes and output — the callee's activations only touch their own scopes, which are popped
on return.  This is `QuietIn` for the test `safe2B`, the missing half of T2 for calls.
-/
namespace NaijaVerif.C03
open NaijaVerif NaijaVerif.Analysis NaijaVerif.AEval

variable {V : Type}

def tagsE (env : List (Scope V)) : List (Option Nat) := env.map (·.tag)

/-- Variables, output and function scopes are as before. -/
def SameS (st st' : St V) : Prop := st'.env = st.env ∧ st'.out = st.out ∧ st'.fns = st.fns

theorem SameS.refl (st : St V) : SameS st st := ⟨rfl, rfl, rfl⟩
theorem SameS.trans {a b c : St V} (h1 : SameS a b) (h2 : SameS b c) : SameS a c :=
  ⟨h2.1.trans h1.1, h2.2.1.trans h1.2.1, h2.2.2.trans h1.2.2⟩

/-- Outcome of statements of a pure activation whose scopes are `inner` (tags `σ`) above `base`. -/
def PRes (σ : List (Option Nat)) (base : List (Scope V)) (st : St V) (r : R V (Flow V)) : Prop :=
  ((∃ fl, r.1 = .ok fl) ∨ Bad r.1) ∧ (∃ inner', r.2.env = inner' ++ base ∧ tagsE inner' = σ) ∧
  r.2.out = st.out ∧ r.2.fns = st.fns

def safe2ListB (c : Ctx) (g : Nat) (es : List Expr) : Bool :=
  decide (classifyList (fun l => c.owner l != some g) es = .pureNoTrap) && arityOk2List es &&
  eOkList (fun h => c.pureB h) (fun _ => false) es

theorem safe2_parts {c : Ctx} {g : Nat} {e : Expr} (h : safe2B c g e = true) :
    classify (fun l => c.owner l != some g) e = .pureNoTrap ∧ arityOk2 e = true ∧
      eOk (fun h => c.pureB h) (fun _ => false) e = true := by
  simpa [safe2B, and_assoc] using h

theorem safe2List_parts {c : Ctx} {g : Nat} {es : List Expr} (h : safe2ListB c g es = true) :
    classifyList (fun l => c.owner l != some g) es = .pureNoTrap ∧ arityOk2List es = true ∧
      eOkList (fun h => c.pureB h) (fun _ => false) es = true := by
  simpa [safe2ListB, and_assoc] using h

theorem safe2_mk {c : Ctx} {g : Nat} {e : Expr} (h1 : classify (fun l => c.owner l != some g) e = .pureNoTrap)
    (h2 : arityOk2 e = true) (h3 : eOk (fun h => c.pureB h) (fun _ => false) e = true) : safe2B c g e = true := by
  simp [safe2B, h1, h2, h3]

theorem safe2List_mk {c : Ctx} {g : Nat} {es : List Expr} (h1 : classifyList (fun l => c.owner l != some g) es = .pureNoTrap)
    (h2 : arityOk2List es = true) (h3 : eOkList (fun h => c.pureB h) (fun _ => false) es = true) : safe2ListB c g es = true := by
  simp [safe2ListB, h1, h2, h3]

mutual
  theorem literal_noUserCall : ∀ (e : Expr) (t : LTy), literalTy e = some t → noUserCall e = true
    | .num _ _, _, _ | .str _ _, _, _ | .bool _ _, _, _ | .null _, _, _ => by simp [noUserCall]
    | .unary op x _, t, h => by
        simp only [literalTy] at h
        cases hx : literalTy x with
        | none => simp [hx] at h
        | some tx => simp only [noUserCall]; exact literal_noUserCall x tx hx
    | .binary op l r _, t, h => by
        simp only [literalTy] at h
        cases hl : literalTy l with
        | none => simp [hl] at h
        | some tl =>
          cases hr : literalTy r with
          | none => simp [hl, hr] at h
          | some tr =>
            simp only [noUserCall, Bool.and_eq_true]
            exact ⟨literal_noUserCall l tl hl, literal_noUserCall r tr hr⟩
    | .var _ _ _, _, h | .index _ _ _ _, _, h | .call _ _ _ _, _, h | .array _ _, _, h | .member _ _ _ _, _, h => by
        simp [literalTy] at h
end

mutual
  theorem arityOk_of_2 : ∀ e : Expr, noUserCall e = true → arityOk2 e = true → arityOk e = true
    | .call (.var name _ _) args fn _, hn, ha => by
        simp only [noUserCall, Bool.and_eq_true, Option.isNone_iff_eq_none] at hn
        simp only [arityOk2, Bool.and_eq_true, Bool.or_eq_true] at ha
        simp only [arityOk, Bool.and_eq_true]
        refine ⟨?_, arityOkList_of_2 args hn.2 ha.2⟩
        rcases ha.1 with h | h
        · rw [hn.1] at h; simp at h
        · exact h
    | .call (.member o _ _ _) args _ _, hn, ha => by
        simp only [noUserCall, Bool.and_eq_true] at hn
        simp only [arityOk2, Bool.and_eq_true] at ha
        simp only [arityOk, Bool.and_eq_true]
        exact ⟨arityOk_of_2 o hn.1 ha.1, arityOkList_of_2 args hn.2 ha.2⟩
    | .call (.index _ _ _ _) args _ _, hn, ha | .call (.str _ _) args _ _, hn, ha | .call (.num _ _) args _ _, hn, ha
    | .call (.binary _ _ _ _) args _ _, hn, ha | .call (.call _ _ _ _) args _ _, hn, ha | .call (.array _ _) args _ _, hn, ha
    | .call (.unary _ _ _) args _ _, hn, ha | .call (.bool _ _) args _ _, hn, ha | .call (.null _) args _ _, hn, ha => by
        simp only [noUserCall] at hn
        simp only [arityOk2] at ha
        simp only [arityOk]
        exact arityOkList_of_2 args hn ha
    | .binary _ l r _, hn, ha => by
        simp only [noUserCall, Bool.and_eq_true] at hn
        simp only [arityOk2, Bool.and_eq_true] at ha
        simp only [arityOk, Bool.and_eq_true]
        exact ⟨arityOk_of_2 l hn.1 ha.1, arityOk_of_2 r hn.2 ha.2⟩
    | .index a i _ _, hn, ha => by
        simp only [noUserCall, Bool.and_eq_true] at hn
        simp only [arityOk2, Bool.and_eq_true] at ha
        simp only [arityOk, Bool.and_eq_true]
        exact ⟨arityOk_of_2 a hn.1 ha.1, arityOk_of_2 i hn.2 ha.2⟩
    | .array es _, hn, ha => by
        simp only [noUserCall] at hn
        simp only [arityOk2] at ha
        simp only [arityOk]
        exact arityOkList_of_2 es hn ha
    | .unary _ e _, hn, ha => by
        simp only [noUserCall] at hn
        simp only [arityOk2] at ha
        simp only [arityOk]
        exact arityOk_of_2 e hn ha
    | .member o _ _ _, hn, ha => by
        simp only [noUserCall] at hn
        simp only [arityOk2] at ha
        simp only [arityOk]
        exact arityOk_of_2 o hn ha
    | .str _ _, _, _ | .num _ _, _, _ | .var _ _ _, _, _ | .bool _ _, _, _ | .null _, _, _ => by simp [arityOk]
  theorem arityOkList_of_2 : ∀ es : List Expr, noUserCallList es = true → arityOk2List es = true → arityOkList es = true
    | [], _, _ => by simp [arityOkList]
    | e :: es, hn, ha => by
        simp only [noUserCallList, Bool.and_eq_true] at hn
        simp only [arityOk2List, Bool.and_eq_true] at ha
        simp only [arityOkList, Bool.and_eq_true]
        exact ⟨arityOk_of_2 e hn.1 ha.1, arityOkList_of_2 es hn.2 ha.2⟩
end

/-! ### Environments: stores inside the activation's own scopes -/

theorem defineEnv_append {l : Nat} {v : V} (sc : Scope V) (inner base : List (Scope V)) :
    defineEnv l v ((sc :: inner) ++ base) = ({ sc with slots := ⟨l, v⟩ :: sc.slots } :: inner) ++ base := rfl

theorem setIn_append {tg l : Nat} {v : V} : ∀ (inner base : List (Scope V)), some tg ∈ tagsE inner →
    setIn tg l v (inner ++ base) = (setIn tg l v inner).map (· ++ base)
  | [], _, h => by simp [tagsE] at h
  | sc :: inner, base, h => by
      simp only [List.cons_append, setIn]
      by_cases ht : sc.tag = some tg
      · simp only [ht, beq_self_eq_true, ↓reduceIte]
        cases setSlot l v sc.slots <;> simp
      · have hne : (sc.tag == some tg) = false := by simpa using ht
        simp only [hne, Bool.false_eq_true, ↓reduceIte]
        have h' : some tg ∈ tagsE inner := by
          simp only [tagsE, List.map_cons, List.mem_cons] at h
          rcases h with h | h
          · exact absurd h.symm ht
          · exact h
        rw [setIn_append inner base h']
        cases setIn tg l v inner <;> simp

theorem setIn_tags {tg l : Nat} {v : V} : ∀ (inner inner' : List (Scope V)), setIn tg l v inner = some inner' →
    tagsE inner' = tagsE inner
  | [], _, h => by simp [setIn] at h
  | sc :: inner, inner', h => by
      simp only [setIn] at h
      split at h
      · cases hs : setSlot l v sc.slots with
        | none => simp [hs] at h
        | some s' =>
          simp only [hs, Option.map_some, Option.some.injEq] at h
          subst h
          simp [tagsE]
      · cases hs : setIn tg l v inner with
        | none => simp [hs] at h
        | some t =>
          simp only [hs, Option.map_some, Option.some.injEq] at h
          subst h
          simp only [tagsE, List.map_cons]
          exact congrArg _ (setIn_tags inner t hs)

/-! ### The unary simulation -/

structure PSim (P : Prims V) (ty : V → LTy → Prop) (L : LSetup) (n : Nat) : Prop where
  expr : ∀ (e : Expr) (st : St V) (g : Nat), safe2B L.c g e = true → FnsOkL L st.fns →
    ((∃ v, (evalExpr P plain n e st).1 = .ok v ∧ ∀ t, literalTy e = some t → ty v t) ∨ Bad (evalExpr P plain n e st).1) ∧
      SameS st (evalExpr P plain n e st).2
  list : ∀ (es : List Expr) (st : St V) (g : Nat), safe2ListB L.c g es = true → FnsOkL L st.fns →
    ((∃ vs, (evalList P plain n es st).1 = .ok vs ∧ TypedAll ty es vs) ∨ Bad (evalList P plain n es st).1) ∧
      SameS st (evalList P plain n es st).2
  block : ∀ (ss : List Stmt) (st : St V) (g : Nat) (σ : List (Option Nat)) (inner base : List (Scope V)),
    pureBodyB L.c L.ds L.ss g (blockTag L.ss ss :: σ) ss = true → st.env = inner ++ base → tagsE inner = σ →
    FnsOkL L st.fns → PRes σ base st (execBlock P plain n ss st)
  stmts : ∀ (ss : List Stmt) (st : St V) (g : Nat) (tg : Option Nat) (σ : List (Option Nat)) (inner base : List (Scope V)),
    pureBodyB L.c L.ds L.ss g (tg :: σ) ss = true → st.env = inner ++ base → tagsE inner = tg :: σ →
    FnsOkL L st.fns → PRes (tg :: σ) base st (execStmts P plain n ss st)
  stmt : ∀ (s : Stmt) (st : St V) (g : Nat) (tg : Option Nat) (σ : List (Option Nat)) (inner base : List (Scope V)),
    pureStmtB L.c L.ds L.ss g (tg :: σ) s = true → st.env = inner ++ base → tagsE inner = tg :: σ →
    FnsOkL L st.fns → PRes (tg :: σ) base st (execStmt P plain n s st)
  loop : ∀ (c : Expr) (bd : List Stmt) (st : St V) (g : Nat) (tg : Option Nat) (σ : List (Option Nat)) (inner base : List (Scope V)),
    condSafeB L.c g c = true → pureBodyB L.c L.ds L.ss g (blockTag L.ss bd :: tg :: σ) bd = true →
    st.env = inner ++ base → tagsE inner = tg :: σ → FnsOkL L st.fns →
    PRes (tg :: σ) base st (execLoop P plain n c bd st)

theorem pres_fuel {σ : List (Option Nat)} {inner base : List (Scope V)} {st : St V}
    (he : st.env = inner ++ base) (ht : tagsE inner = σ) : PRes σ base st ((.error .fuel, st) : R V (Flow V)) :=
  ⟨Or.inr bad_fuel, ⟨inner, he, ht⟩, rfl, rfl⟩

theorem psim_zero (P : Prims V) (ty : V → LTy → Prop) (L : LSetup) : PSim P ty L 0 := by
  constructor
  · intro e st g _ _; simp only [evalExpr]; exact ⟨Or.inr bad_fuel, SameS.refl st⟩
  · intro es st g _ _; simp only [evalList]; exact ⟨Or.inr bad_fuel, SameS.refl st⟩
  · intro ss st g σ inner base _ he ht _; simp only [execBlock]; exact pres_fuel he ht
  · intro ss st g tg σ inner base _ he ht _; simp only [execStmts]; exact pres_fuel he ht
  · intro s st g tg σ inner base _ he ht _; simp only [execStmt]; exact pres_fuel he ht
  · intro c bd st g tg σ inner base _ _ he ht _; simp only [execLoop]; exact pres_fuel he ht

section pstep
variable {P : Prims V} {ty : V → LTy → Prop} {L : LSetup} {n : Nat}

/-- An expression without user calls: the two halves of T2. -/
theorem pexpr_nocall (Lw : Lawful P ty) (g : Nat) (e : Expr) (m : Nat) (st : St V) (h : safe2B L.c g e = true)
    (hnu : noUserCall e = true) :
    ((∃ v, (evalExpr P plain m e st).1 = .ok v ∧ ∀ t, literalTy e = some t → ty v t) ∨ Bad (evalExpr P plain m e st).1) ∧
      SameS st (evalExpr P plain m e st).2 := by
  obtain ⟨hc, ha, _⟩ := safe2_parts h
  have hst := (pure_all P plain m).expr e st
    (effectFree_of_class Lw.toTablesAgree _ e (by rw [hc]; simp) hnu)
  refine ⟨?_, by rw [hst]; exact SameS.refl st⟩
  rcases (noTrap_all Lw _ plain m).expr e st ⟨hc, hnu, arityOk_of_2 e hnu ha⟩ with hv | hb
  · exact Or.inl hv
  · exact Or.inr hb.bad

theorem pstep_list (ih : PSim P ty L n) : ∀ (es : List Expr) (st : St V) (g : Nat), safe2ListB L.c g es = true → FnsOkL L st.fns →
    ((∃ vs, (evalList P plain (n + 1) es st).1 = .ok vs ∧ TypedAll ty es vs) ∨ Bad (evalList P plain (n + 1) es st).1) ∧
      SameS st (evalList P plain (n + 1) es st).2
  | [], st, g, _, _ => ⟨Or.inl ⟨[], by simp [evalList], trivial⟩, by simp only [evalList]; exact SameS.refl st⟩
  | e :: es, st, g, h, hf => by
      obtain ⟨hc, ha, hk⟩ := safe2List_parts h
      simp only [classifyList] at hc
      simp only [arityOk2List, Bool.and_eq_true] at ha
      simp only [eOkList, Bool.and_eq_true] at hk
      have hj := join_eq_noTrap hc
      simp only [evalList]
      obtain ⟨h1, hs1⟩ := ih.expr e st g (safe2_mk hj.1 ha.1 hk.1) hf
      generalize evalExpr P plain n e st = r at h1 hs1 ⊢
      obtain ⟨x, s1⟩ := r
      rcases h1 with ⟨v, hv, ht⟩ | hb
      · simp only at hv
        subst hv
        simp only []
        obtain ⟨h2, hs2⟩ := ih.list es s1 g (safe2List_mk hj.2 ha.2 hk.2) (by rw [hs1.2.2]; exact hf)
        generalize evalList P plain n es s1 = r2 at h2 hs2 ⊢
        obtain ⟨x2, s2⟩ := r2
        rcases h2 with ⟨vs, hvs, hts⟩ | hb
        · simp only at hvs
          subst hvs
          exact ⟨Or.inl ⟨v :: vs, rfl, ht, hts⟩, hs1.trans hs2⟩
        · rcases hb with hb | hb | hb <;> (simp only at hb; subst hb)
          · exact ⟨Or.inr bad_fuel, hs1.trans hs2⟩
          · exact ⟨Or.inr bad_unbound, hs1.trans hs2⟩
          · exact ⟨Or.inr bad_panic, hs1.trans hs2⟩
      · rcases hb with hb | hb | hb <;> (simp only at hb; subst hb)
        · exact ⟨Or.inr bad_fuel, hs1⟩
        · exact ⟨Or.inr bad_unbound, hs1⟩
        · exact ⟨Or.inr bad_panic, hs1⟩

theorem tagsE_single {inner : List (Scope V)} {t : Option Nat} (h : tagsE inner = [t]) : ∃ sc, inner = [sc] := by
  match inner, h with
  | [sc], _ => exact ⟨sc, rfl⟩
  | [], h => simp [tagsE] at h
  | _ :: _ :: _, h => simp [tagsE] at h

theorem pstep_userCall (hd : P.dscope = L.ds) (ih : PSim P ty L n) (name : Bytes) (b1 : Option Nat) (s1 : Span)
    (args : List Expr) (h : Nat) (sp : Span) (st : St V) (g : Nat)
    (hgl : P.isGlobal name = false) (hargs : safe2ListB L.c g args = true) (hpure : L.c.pureB h = true)
    (hf : FnsOkL L st.fns) :
    ((∃ v, (evalExpr P plain (n + 1) (.call (.var name b1 s1) args (some h) sp) st).1 = .ok v) ∨
        Bad (evalExpr P plain (n + 1) (.call (.var name b1 s1) args (some h) sp) st).1) ∧
      SameS st (evalExpr P plain (n + 1) (.call (.var name b1 s1) args (some h) sp) st).2 := by
  simp only [evalExpr, hgl, Bool.false_eq_true, ↓reduceIte, hd]
  have e2 : findFnC plain h st.fns = findFn h st.fns := by simp [findFnC, plain, Cfg.ofPlan]
  rw [e2]
  have hs0 : SameS st { st with looked := h :: st.looked } := ⟨rfl, rfl, rfl⟩
  cases hfd : findFn h st.fns with
  | none => exact ⟨Or.inr bad_panic, hs0⟩
  | some fd =>
    have hid := findFn_id hfd
    have hfn := findFn_okL hf hfd
    have hpf := fnOk_pure hfn
    simp only [LSetup.pureFnB, hid, hpure, Bool.not_true, Bool.false_or] at hpf
    simp only []
    obtain ⟨h1, hs1⟩ := ih.list args { st with looked := h :: st.looked } g hargs hf
    generalize evalList P plain n args { st with looked := h :: st.looked } = r at h1 hs1 ⊢
    obtain ⟨x, st1⟩ := r
    have hs1' : SameS st st1 := hs0.trans hs1
    rcases h1 with ⟨vs, hvs, _⟩ | hb
    · simp only at hvs
      subst hvs
      simp only []
      cases bindParams fd.params vs with
      | none => exact ⟨Or.inr bad_panic, hs1'⟩
      | some slots =>
        simp only []
        have hf2 : FnsOkL L ([] :: st1.fns) := by
          intro sc hsc
          rcases List.mem_cons.mp hsc with rfl | h'
          · intro fd hfd; cases hfd
          · rw [hs1'.2.2] at h'; exact hf sc h'
        have hb := ih.block fd.body { st1 with env := ⟨paramTag L.ds fd.params, slots⟩ :: st1.env, fns := [] :: st1.fns }
          h [paramTag L.ds fd.params] [⟨paramTag L.ds fd.params, slots⟩] st1.env hpf rfl (by simp [tagsE]) hf2
        generalize execBlock P plain n fd.body { st1 with env := ⟨paramTag L.ds fd.params, slots⟩ :: st1.env, fns := [] :: st1.fns } = r3 at hb ⊢
        obtain ⟨x3, st3⟩ := r3
        obtain ⟨hres, ⟨inner', henv, htags⟩, hout, hfns⟩ := hb
        simp only at henv hout hfns hres
        obtain ⟨sc, rfl⟩ := tagsE_single htags
        have hs4 : SameS st { st3 with env := st3.env.drop 1, fns := st3.fns.drop 1 } := by
          refine ⟨?_, ?_, ?_⟩
          · simp only [henv, List.cons_append, List.nil_append, List.drop_succ_cons, List.drop_zero]; exact hs1'.1
          · exact hout.trans hs1'.2.1
          · simp only [hfns, List.drop_succ_cons, List.drop_zero]; exact hs1'.2.2
        rcases hres with ⟨fl, hfl⟩ | hbad
        · subst hfl
          cases fl with
          | normal => exact ⟨Or.inl ⟨_, rfl⟩, hs4⟩
          | ret v => exact ⟨Or.inl ⟨_, rfl⟩, hs4⟩
          | brk => exact ⟨Or.inr bad_panic, hs4⟩
          | cont => exact ⟨Or.inr bad_panic, hs4⟩
        · rcases hbad with hb | hb | hb <;> subst hb
          · exact ⟨Or.inr bad_fuel, hs4⟩
          · exact ⟨Or.inr bad_unbound, hs4⟩
          · exact ⟨Or.inr bad_panic, hs4⟩
    · rcases hb with hb | hb | hb <;> (simp only at hb; subst hb)
      · exact ⟨Or.inr bad_fuel, hs1'⟩
      · exact ⟨Or.inr bad_unbound, hs1'⟩
      · exact ⟨Or.inr bad_panic, hs1'⟩

theorem pstep_expr (hd : P.dscope = L.ds) (Lw : Lawful P ty) (ih : PSim P ty L n) (e : Expr) (st : St V) (g : Nat)
    (h : safe2B L.c g e = true) (hf : FnsOkL L st.fns) :
    ((∃ v, (evalExpr P plain (n + 1) e st).1 = .ok v ∧ ∀ t, literalTy e = some t → ty v t) ∨
        Bad (evalExpr P plain (n + 1) e st).1) ∧
      SameS st (evalExpr P plain (n + 1) e st).2 := by
  by_cases hnu : noUserCall e = true
  · exact pexpr_nocall Lw g e (n + 1) st h hnu
  · obtain ⟨hc, ha, hk⟩ := safe2_parts h
    match e, hc, ha, hk, hnu with
    | .array es sp, hc, ha, hk, _ =>
      simp only [classify] at hc
      simp only [arityOk2] at ha
      simp only [eOk] at hk
      simp only [evalExpr]
      obtain ⟨h1, hs1⟩ := ih.list (children (.array es sp)) st g (safe2List_mk hc ha hk) hf
      generalize evalList P plain n (children (.array es sp)) st = r at h1 hs1 ⊢
      obtain ⟨x, st1⟩ := r
      rcases h1 with ⟨vs, hvs, _⟩ | hb
      · simp only at hvs
        subst hvs
        simp only [finishNode, interpIds, readAll]
        obtain ⟨v, hv⟩ := Lw.array es sp (vs ++ [])
        exact ⟨Or.inl ⟨v, hv, by intro t ht; simp [literalTy] at ht⟩, hs1⟩
      · rcases hb with hb | hb | hb <;> (simp only at hb; subst hb)
        · exact ⟨Or.inr bad_fuel, hs1⟩
        · exact ⟨Or.inr bad_unbound, hs1⟩
        · exact ⟨Or.inr bad_panic, hs1⟩
    | .call (.var name b1 s1) args fn sp, hc, ha, hk, _ =>
      simp only [classify] at hc
      simp only [arityOk2, Bool.and_eq_true, Bool.or_eq_true] at ha
      simp only [eOk, Bool.and_eq_true] at hk
      cases hg : globalClass name with
      | none =>
        rw [hg] at hc
        have hgl : P.isGlobal name = false := by rw [Lw.global_iff, hg]; rfl
        cases fn with
        | none => simp only [Option.isSome] at hc; exact absurd (join_eq_noTrap hc).2 (by simp)
        | some fh =>
          simp only [Option.isSome, ↓reduceIte] at hc
          obtain ⟨h1, hs1⟩ := pstep_userCall hd ih name b1 s1 args fh sp st g hgl (safe2List_mk hc ha.2 hk.2) hk.1 hf
          refine ⟨?_, hs1⟩
          rcases h1 with ⟨v, hv⟩ | hb
          · exact Or.inl ⟨v, hv, by intro t ht; simp [literalTy] at ht⟩
          · exact Or.inr hb
      | some gc =>
        rw [hg] at hc
        simp only at hc
        have hgl : P.isGlobal name = true := by rw [Lw.global_iff, hg]; rfl
        have hlen : args.length = 1 := by
          rcases ha.1 with h1 | h1
          · rw [hg] at h1; simp at h1
          · simpa using h1
        match args, hlen, ha, hk, hc with
        | [x], _, ha, hk, hc =>
          have hcx : (classifyList (fun l => L.c.owner l != some g) [x]).join gc = .pureNoTrap ∧
              ¬ (name == commandName && ([x].head?.bind literalTy != some LTy.str)) = true := by
            split at hc
            · exact absurd (join_eq_noTrap hc).2 (by simp)
            · next hcond => exact ⟨hc, hcond⟩
          have hj := join_eq_noTrap hcx.1
          have hgc : gc = .pureNoTrap := hj.2
          subst hgc
          have hsh : P.isShout name = false := by
            cases hs : P.isShout name with
            | false => rfl
            | true =>
              have := Lw.shout_impure name hs
              rw [hg] at this
              cases this
          simp only [evalExpr, hgl, ↓reduceIte, hsh, Bool.false_eq_true]
          obtain ⟨h1, hs1⟩ := ih.list [x] st g (safe2List_mk hj.1 ha.2 hk.2) hf
          generalize evalList P plain n [x] st = r at h1 hs1 ⊢
          obtain ⟨y, st1⟩ := r
          rcases h1 with ⟨vs, hvs, hts⟩ | hb
          · simp only at hvs
            subst hvs
            match vs, hts with
            | [a], hts =>
              simp only []
              by_cases hcmd : name = commandName
              · subst hcmd
                have hstr : literalTy x = some .str := by
                  have := hcx.2
                  simp only [beq_self_eq_true, List.head?_cons, Option.bind_some, Bool.true_and, bne_iff_ne, ne_eq,
                    Decidable.not_not] at this
                  exact this
                obtain ⟨v, hv⟩ := Lw.command a (hts.1 .str hstr)
                exact ⟨Or.inl ⟨v, by simp [hv], by intro t ht; simp [literalTy] at ht⟩, hs1⟩
              · obtain ⟨v, hv⟩ := Lw.pureGlobal name a hg hcmd
                exact ⟨Or.inl ⟨v, by simp [hv], by intro t ht; simp [literalTy] at ht⟩, hs1⟩
          · rcases hb with hb | hb | hb <;> (simp only at hb; subst hb)
            · exact ⟨Or.inr bad_fuel, hs1⟩
            · exact ⟨Or.inr bad_unbound, hs1⟩
            · exact ⟨Or.inr bad_panic, hs1⟩
    | .binary op l r sp, hc, _, _, hnu =>
      obtain ⟨_, _, _, _, _, _, t, _, _, _, hlt⟩ := binary_noTrap hc
      exact absurd (literal_noUserCall _ t hlt) hnu
    | .unary op x sp, hc, _, _, hnu =>
      simp only [classify] at hc
      split at hc
      · exact absurd (join_eq_noTrap hc).2 (by simp)
      · next hne =>
        cases hlt : literalTy (.unary op x sp) with
        | none => simp [hlt] at hne
        | some t => exact absurd (literal_noUserCall _ t hlt) hnu
    | .index a i _ _, hc, _, _, _ =>
      simp only [classify] at hc
      exact absurd (join_eq_noTrap hc).2 (by simp)
    | .member o _ _ _, hc, _, _, _ =>
      simp only [classify] at hc
      exact absurd (join_eq_noTrap hc).2 (by simp)
    | .call (.member o field _ _) args _ _, hc, _, _, _ =>
      simp only [classify] at hc
      split at hc
      · exact absurd (join_eq_noTrap (join_eq_noTrap hc).1).2 (by simp)
      · exact absurd (join_eq_noTrap hc).2 (by simp)
    | .call (.index _ _ _ _) args _ _, hc, _, _, _ | .call (.str _ _) args _ _, hc, _, _, _
    | .call (.num _ _) args _ _, hc, _, _, _ | .call (.binary _ _ _ _) args _ _, hc, _, _, _
    | .call (.call _ _ _ _) args _ _, hc, _, _, _ | .call (.array _ _) args _ _, hc, _, _, _
    | .call (.unary _ _ _) args _ _, hc, _, _, _ | .call (.bool _ _) args _ _, hc, _, _, _
    | .call (.null _) args _ _, hc, _, _, _ =>
      simp only [classify] at hc
      exact absurd (join_eq_noTrap hc).2 (by simp)
    | .var _ _ _, _, _, _, hnu | .str _ _, _, _, _, hnu | .num _ _, _, _, _, hnu | .bool _ _, _, _, _, hnu
    | .null _, _, _, _, hnu => simp [noUserCall] at hnu

/-! ### Statements of a pure activation -/

theorem pres_of_same {σ : List (Option Nat)} {inner base : List (Scope V)} {st st1 : St V} {x : Except Err (Flow V)}
    (hs : SameS st st1) (he : st.env = inner ++ base) (ht : tagsE inner = σ) (hx : (∃ fl, x = .ok fl) ∨ Bad x) :
    PRes σ base st ((x, st1) : R V (Flow V)) :=
  ⟨hx, ⟨inner, hs.1.trans he, ht⟩, hs.2.1, hs.2.2⟩

theorem pres_trans {σ : List (Option Nat)} {base : List (Scope V)} {st st1 : St V} {r : R V (Flow V)}
    (hs : SameS st st1) (h : PRes σ base st1 r) : PRes σ base st r :=
  ⟨h.1, h.2.1, h.2.2.1.trans hs.2.1, h.2.2.2.trans hs.2.2⟩

theorem bad_of_expr {α : Type} {x : Except Err α} {er : Err} (h : (∃ v, x = .ok v ∧ True) ∨ Bad x) (hx : x = .error er) :
    Bad (.error er : Except Err (Flow V)) := by
  subst hx
  rcases h with ⟨v, hv, _⟩ | hb
  · cases hv
  · rcases hb with hb | hb | hb <;> (cases hb)
    · exact bad_fuel
    · exact bad_unbound
    · exact bad_panic

theorem condSafe_parts {c : Ctx} {g : Nat} {e : Expr} (h : condSafeB c g e = true) :
    safe2B c g e = true ∧ (literalTy e = some .bool ∨ literalTy e = some .null) := by
  simpa [condSafeB] using h

/-- Evaluating a safe expression inside a pure activation; `k` continues with the value. -/
theorem pexpr_then (ih : PSim P ty L n) {σ : List (Option Nat)} {inner base : List (Scope V)} (e : Expr) (st : St V) (g : Nat)
    (h : safe2B L.c g e = true) (he : st.env = inner ++ base) (ht : tagsE inner = σ) (hf : FnsOkL L st.fns)
    (k : V → St V → R V (Flow V))
    (hk : ∀ v st1, SameS st st1 → (∀ t, literalTy e = some t → ty v t) → PRes σ base st (k v st1)) :
    PRes σ base st
      (match evalExpr P plain n e st with
        | (.error er, st1) => ((.error er, st1) : R V (Flow V))
        | (.ok v, st1) => k v st1) := by
  obtain ⟨h1, hs1⟩ := ih.expr e st g h hf
  generalize evalExpr P plain n e st = r at h1 hs1 ⊢
  obtain ⟨x, st1⟩ := r
  rcases h1 with ⟨v, hv, hty⟩ | hb
  · simp only at hv
    subst hv
    exact hk v st1 hs1 hty
  · rcases hb with hb | hb | hb <;> (simp only at hb; subst hb)
    · exact pres_of_same hs1 he ht (Or.inr bad_fuel)
    · exact pres_of_same hs1 he ht (Or.inr bad_unbound)
    · exact pres_of_same hs1 he ht (Or.inr bad_panic)

theorem pstep_stmt (hd : P.dscope = L.ds) (Lw : Lawful P ty) (ih : PSim P ty L n) : ∀ (s : Stmt) (st : St V) (g : Nat)
    (tg : Option Nat) (σ : List (Option Nat)) (inner base : List (Scope V)),
    pureStmtB L.c L.ds L.ss g (tg :: σ) s = true → st.env = inner ++ base → tagsE inner = tg :: σ →
    FnsOkL L st.fns → PRes (tg :: σ) base st (execStmt P plain (n + 1) s st)
  | .assign _ _ e (some l) (some _) _, st, g, tg, σ, inner, base, h, he, ht, hf => by
      simp only [pureStmtB] at h
      simp only [execStmt]
      refine pexpr_then ih e st g h he ht hf _ ?_
      intro v st1 hs1 _
      match inner, ht, he with
      | [], ht, _ => simp [tagsE] at ht
      | sc :: rest, ht, he =>
        refine ⟨Or.inl ⟨_, rfl⟩, ⟨{ sc with slots := ⟨l, v⟩ :: sc.slots } :: rest, ?_, ?_⟩, hs1.2.1, hs1.2.2⟩
        · simp only [hs1.1, he]; rfl
        · simpa [tagsE] using ht
  | .assignExisting _ _ e (some l) (some _) _, st, g, tg, σ, inner, base, h, he, ht, hf => by
      simp only [pureStmtB, Bool.and_eq_true] at h
      obtain ⟨⟨hsafe, _⟩, htag⟩ := h
      simp only [execStmt, hd]
      refine pexpr_then ih e st g hsafe he ht hf _ ?_
      intro v st1 hs1 _
      simp only [Option.bind_some, assignEnv]
      cases hl : L.ds l with
      | none => exact pres_of_same hs1 he ht (Or.inr bad_unbound)
      | some t =>
        simp only [hl, List.contains_eq_mem, decide_eq_true_eq] at htag
        have hin : some t ∈ tagsE inner := by rw [ht]; exact htag
        simp only []
        rw [hs1.1, he, setIn_append inner base hin]
        cases hset : setIn t l v inner with
        | none => exact ⟨Or.inr bad_unbound, ⟨inner, by simp [hs1.1, he], ht⟩, hs1.2.1, hs1.2.2⟩
        | some inner' =>
          exact ⟨Or.inl ⟨_, rfl⟩, ⟨inner', rfl, (setIn_tags inner inner' hset).trans ht⟩, hs1.2.1, hs1.2.2⟩
  | .ifS c (.mk t _) none (some _) _, st, g, tg, σ, inner, base, h, he, ht, hf => by
      simp only [pureStmtB, Bool.and_eq_true] at h
      obtain ⟨hcs, hlit⟩ := condSafe_parts h.1
      simp only [execStmt]
      refine pexpr_then ih c st g hcs he ht hf _ ?_
      intro v st1 hs1 hty
      have htv : ty v .bool ∨ ty v .null := hlit.elim (fun e => Or.inl (hty _ e)) (fun e => Or.inr (hty _ e))
      obtain ⟨bv, hbv⟩ := Lw.cond v htv
      rw [hbv]
      cases bv with
      | false => exact pres_of_same hs1 he ht (Or.inl ⟨_, rfl⟩)
      | true =>
        exact pres_trans hs1 (ih.block t st1 g (tg :: σ) inner base h.2 (hs1.1.trans he) ht (by rw [hs1.2.2]; exact hf))
  | .ifS c (.mk t _) (some (.mk el _)) (some _) _, st, g, tg, σ, inner, base, h, he, ht, hf => by
      simp only [pureStmtB, Bool.and_eq_true] at h
      obtain ⟨hcs, hlit⟩ := condSafe_parts h.1.1
      simp only [execStmt]
      refine pexpr_then ih c st g hcs he ht hf _ ?_
      intro v st1 hs1 hty
      have htv : ty v .bool ∨ ty v .null := hlit.elim (fun e => Or.inl (hty _ e)) (fun e => Or.inr (hty _ e))
      obtain ⟨bv, hbv⟩ := Lw.cond v htv
      rw [hbv]
      cases bv with
      | false =>
        exact pres_trans hs1 (ih.block el st1 g (tg :: σ) inner base h.2 (hs1.1.trans he) ht (by rw [hs1.2.2]; exact hf))
      | true =>
        exact pres_trans hs1 (ih.block t st1 g (tg :: σ) inner base h.1.2 (hs1.1.trans he) ht (by rw [hs1.2.2]; exact hf))
  | .loop c (.mk b _) (some _) _, st, g, tg, σ, inner, base, h, he, ht, hf => by
      simp only [pureStmtB, Bool.and_eq_true] at h
      simp only [execStmt]
      exact ih.loop c b st g tg σ inner base h.1 h.2 he ht hf
  | .block (.mk b _) (some _) _, st, g, tg, σ, inner, base, h, he, ht, hf => by
      simp only [pureStmtB] at h
      simp only [execStmt]
      exact ih.block b st g (tg :: σ) inner base h he ht hf
  | .ret (some e) (some _) _, st, g, tg, σ, inner, base, h, he, ht, hf => by
      simp only [pureStmtB] at h
      simp only [execStmt]
      refine pexpr_then ih e st g h he ht hf _ ?_
      intro v st1 hs1 _
      exact pres_of_same hs1 he ht (Or.inl ⟨_, rfl⟩)
  | .ret none (some _) _, st, g, tg, σ, inner, base, _, he, ht, _ => by
      simp only [execStmt]; exact pres_of_same (SameS.refl st) he ht (Or.inl ⟨_, rfl⟩)
  | .brk (some _) _, st, g, tg, σ, inner, base, _, he, ht, _ => by
      simp only [execStmt]; exact pres_of_same (SameS.refl st) he ht (Or.inl ⟨_, rfl⟩)
  | .cont (some _) _, st, g, tg, σ, inner, base, _, he, ht, _ => by
      simp only [execStmt]; exact pres_of_same (SameS.refl st) he ht (Or.inl ⟨_, rfl⟩)
  | .expr e (some _) _, st, g, tg, σ, inner, base, h, he, ht, hf => by
      simp only [pureStmtB] at h
      simp only [execStmt]
      refine pexpr_then ih e st g h he ht hf _ ?_
      intro v st1 hs1 _
      exact pres_of_same hs1 he ht (Or.inl ⟨_, rfl⟩)
  | .assign _ _ _ none _ _, _, _, _, _, _, _, h, _, _, _ | .assign _ _ _ (some _) none _, _, _, _, _, _, _, h, _, _, _
  | .assignExisting _ _ _ none _ _, _, _, _, _, _, _, h, _, _, _ | .assignExisting _ _ _ (some _) none _, _, _, _, _, _, _, h, _, _, _
  | .assignIndex _ _ _ _, _, _, _, _, _, _, h, _, _, _ | .fnDef _ _ _ _ _ _ _, _, _, _, _, _, _, h, _, _, _
  | .ifS _ (.mk _ _) none none _, _, _, _, _, _, _, h, _, _, _ | .ifS _ (.mk _ _) (some (.mk _ _)) none _, _, _, _, _, _, _, h, _, _, _
  | .loop _ (.mk _ _) none _, _, _, _, _, _, _, h, _, _, _ | .block (.mk _ _) none _, _, _, _, _, _, _, h, _, _, _
  | .ret (some _) none _, _, _, _, _, _, _, h, _, _, _ | .ret none none _, _, _, _, _, _, _, h, _, _, _ | .brk none _, _, _, _, _, _, _, h, _, _, _
  | .cont none _, _, _, _, _, _, _, h, _, _, _ | .expr _ none _, _, _, _, _, _, _, h, _, _, _ => by
      simp [pureStmtB] at h

theorem pstep_stmts (ih : PSim P ty L n) : ∀ (ss : List Stmt) (st : St V) (g : Nat) (tg : Option Nat) (σ : List (Option Nat))
    (inner base : List (Scope V)),
    pureBodyB L.c L.ds L.ss g (tg :: σ) ss = true → st.env = inner ++ base → tagsE inner = tg :: σ →
    FnsOkL L st.fns → PRes (tg :: σ) base st (execStmts P plain (n + 1) ss st)
  | [], st, g, tg, σ, inner, base, _, he, ht, _ => by
      simp only [execStmts]; exact pres_of_same (SameS.refl st) he ht (Or.inl ⟨_, rfl⟩)
  | s :: ss, st, g, tg, σ, inner, base, h, he, ht, hf => by
      simp only [pureBodyB, Bool.and_eq_true] at h
      simp only [execStmts]
      cases hsid : s.sid with
      | none => exact pres_of_same (SameS.refl st) he ht (Or.inr bad_panic)
      | some i =>
        have hpl : plain.skip i = false := rfl
        simp only [hpl, Bool.false_eq_true, ↓reduceIte]
        have hs0 : SameS st { st with trace := i :: st.trace } := ⟨rfl, rfl, rfl⟩
        have h1 := ih.stmt s { st with trace := i :: st.trace } g tg σ inner base h.1 he ht hf
        generalize execStmt P plain n s { st with trace := i :: st.trace } = r at h1 ⊢
        obtain ⟨x, st1⟩ := r
        obtain ⟨hres, ⟨inner', henv, htags⟩, hout, hfns⟩ := h1
        simp only at hres henv hout hfns
        rcases x with er | fl
        · exact ⟨hres, ⟨inner', henv, htags⟩, hout, hfns⟩
        · cases fl with
          | normal =>
            have h2 := ih.stmts ss st1 g tg σ inner' base h.2 henv htags (by rw [hfns]; exact hf)
            exact ⟨h2.1, h2.2.1, h2.2.2.1.trans hout, h2.2.2.2.trans hfns⟩
          | ret v => exact ⟨hres, ⟨inner', henv, htags⟩, hout, hfns⟩
          | brk => exact ⟨hres, ⟨inner', henv, htags⟩, hout, hfns⟩
          | cont => exact ⟨hres, ⟨inner', henv, htags⟩, hout, hfns⟩

theorem pure_hoist : ∀ {g : Nat} {σ : List (Option Nat)} (ss : List Stmt), pureBodyB L.c L.ds L.ss g σ ss = true → hoist ss = []
  | _, _, [], _ => rfl
  | g, σ, s :: ss, h => by
      simp only [pureBodyB, Bool.and_eq_true] at h
      have ih := pure_hoist ss h.2
      match s, h.1 with
      | .fnDef _ _ _ _ _ _ _, h1 => simp [pureStmtB] at h1
      | .assign .., _ | .assignExisting .., _ | .assignIndex .., _ | .ifS .., _ | .loop .., _ | .block .., _
      | .ret .., _ | .brk .., _ | .cont .., _ | .expr .., _ => simpa [hoist] using ih

theorem pstep_block (hss : P.sscope = L.ss) (ih : PSim P ty L n) (ss : List Stmt) (st : St V) (g : Nat) (σ : List (Option Nat))
    (inner base : List (Scope V))
    (h : pureBodyB L.c L.ds L.ss g (blockTag L.ss ss :: σ) ss = true) (he : st.env = inner ++ base) (ht : tagsE inner = σ)
    (hf : FnsOkL L st.fns) : PRes σ base st (execBlock P plain (n + 1) ss st) := by
  simp only [execBlock, hss, pure_hoist ss h]
  have hf1 : FnsOkL L ([] :: st.fns) := by
    intro sc hsc
    rcases List.mem_cons.mp hsc with rfl | h'
    · intro fd hfd; cases hfd
    · exact hf sc h'
  have h1 := ih.stmts ss { st with env := ⟨blockTag L.ss ss, []⟩ :: st.env, fns := [] :: st.fns } g (blockTag L.ss ss) σ
    (⟨blockTag L.ss ss, []⟩ :: inner) base h (by simp [he]) (by simp [tagsE] at ht ⊢; exact ht) hf1
  generalize execStmts P plain n ss { st with env := ⟨blockTag L.ss ss, []⟩ :: st.env, fns := [] :: st.fns } = r at h1 ⊢
  obtain ⟨x, st1⟩ := r
  obtain ⟨hres, ⟨inner', henv, htags⟩, hout, hfns⟩ := h1
  simp only at hres henv hout hfns
  match inner', htags, henv with
  | [], htags, _ => simp [tagsE] at htags
  | sc :: rest, htags, henv =>
    refine ⟨hres, ⟨rest, ?_, ?_⟩, hout, ?_⟩
    · simp [henv]
    · simp only [tagsE, List.map_cons, List.cons.injEq] at htags
      exact htags.2
    · simp [hfns]

theorem pstep_loop (Lw : Lawful P ty) (ih : PSim P ty L n) (c : Expr) (bd : List Stmt) (st : St V) (g : Nat) (tg : Option Nat)
    (σ : List (Option Nat)) (inner base : List (Scope V))
    (hc : condSafeB L.c g c = true) (hb : pureBodyB L.c L.ds L.ss g (blockTag L.ss bd :: tg :: σ) bd = true)
    (he : st.env = inner ++ base) (ht : tagsE inner = tg :: σ) (hf : FnsOkL L st.fns) :
    PRes (tg :: σ) base st (execLoop P plain (n + 1) c bd st) := by
  obtain ⟨hcs, hlit⟩ := condSafe_parts hc
  simp only [execLoop]
  refine pexpr_then ih c st g hcs he ht hf _ ?_
  intro v st1 hs1 hty
  have htv : ty v .bool ∨ ty v .null := hlit.elim (fun e => Or.inl (hty _ e)) (fun e => Or.inr (hty _ e))
  obtain ⟨bv, hbv⟩ := Lw.cond v htv
  rw [hbv]
  cases bv with
  | false => exact pres_of_same hs1 he ht (Or.inl ⟨_, rfl⟩)
  | true =>
    simp only []
    have h1 := ih.block bd st1 g (tg :: σ) inner base hb (hs1.1.trans he) ht (by rw [hs1.2.2]; exact hf)
    generalize execBlock P plain n bd st1 = r at h1 ⊢
    obtain ⟨x, st2⟩ := r
    obtain ⟨hres, ⟨inner', henv, htags⟩, hout, hfns⟩ := h1
    simp only at hres henv hout hfns
    have hs2 : st2.out = st.out ∧ st2.fns = st.fns := ⟨hout.trans hs1.2.1, hfns.trans hs1.2.2⟩
    rcases x with er | fl
    · exact ⟨hres, ⟨inner', henv, htags⟩, hs2.1, hs2.2⟩
    · cases fl with
      | brk => exact ⟨Or.inl ⟨_, rfl⟩, ⟨inner', henv, htags⟩, hs2.1, hs2.2⟩
      | ret w => exact ⟨Or.inl ⟨_, rfl⟩, ⟨inner', henv, htags⟩, hs2.1, hs2.2⟩
      | normal =>
        have h2 := ih.loop c bd st2 g tg σ inner' base hc hb henv htags (by rw [hs2.2]; exact hf)
        exact ⟨h2.1, h2.2.1, h2.2.2.1.trans hs2.1, h2.2.2.2.trans hs2.2⟩
      | cont =>
        have h2 := ih.loop c bd st2 g tg σ inner' base hc hb henv htags (by rw [hs2.2]; exact hf)
        exact ⟨h2.1, h2.2.1, h2.2.2.1.trans hs2.1, h2.2.2.2.trans hs2.2⟩

end pstep

theorem psim_all {P : Prims V} {ty : V → LTy → Prop} {L : LSetup} (hd : P.dscope = L.ds) (hss : P.sscope = L.ss)
    (Lw : Lawful P ty) : ∀ n, PSim P ty L n
  | 0 => psim_zero P ty L
  | n + 1 =>
      have ih := psim_all hd hss Lw n
      { expr := pstep_expr hd Lw ih
        list := pstep_list ih
        block := pstep_block hss ih
        stmts := pstep_stmts ih
        stmt := pstep_stmt hd Lw ih
        loop := pstep_loop Lw ih }

/-- **T2 for calls.**  With the test `safe2B` as `L.q`, every droppable initialiser is quiet in the
sense the liveness simulation needs. -/
theorem quietIn_safe2 {P : Prims V} {ty : V → LTy → Prop} {L : LSetup} (hd : P.dscope = L.ds) (hss : P.sscope = L.ss)
    (Lw : Lawful P ty) (hq : ∀ f e, L.q f e = safe2B L.c f e) : QuietIn P L := by
  intro f e n st hqe hf
  rw [hq] at hqe
  obtain ⟨h1, h2⟩ := (psim_all hd hss Lw n).expr e st f hqe hf
  refine ⟨?_, h2.1, h2.2.1, h2.2.2⟩
  rcases h1 with ⟨v, hv, _⟩ | hb
  · exact Or.inl ⟨v, hv⟩
  · exact Or.inr hb

end NaijaVerif.C03
