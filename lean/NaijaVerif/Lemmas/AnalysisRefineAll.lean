import NaijaVerif.Lemmas.AnalysisRefineStmt
/-
BRIDGE, part 10: the induction on the fragment's fuel that puts the cases together, and the
refinement of whole runs.  Member calls and index assignments enter through two hypotheses
(`MemberCase`, `IndexCase`): they are vacuous for the oracle that does not admit these forms
(`Orc.members = false`) and are proved for every oracle in `Lemmas/AnalysisRefineMember.lean`
(`indexCase`) and `Lemmas/AnalysisRefineMember2.lean` (`memberCase`; `bsim`, `bridge_run_full` there are
the statements without the two hypotheses).
-/
namespace NaijaVerif.C03
open NaijaVerif NaijaVerif.Analysis

variable {N : Type} [NumOps N] {B : Brg}

/-- The case of a member call, given the simulation at all smaller amounts of fuel. -/
def MemberCase (N : Type) [NumOps N] (B : Brg) : Prop :=
  ∀ (n : Nat), (∀ m, m ≤ n → SimAt (N := N) B m) →
    ∀ (obj : Expr) (field : Bytes) (fs sp : Span) (args : List Expr) (fn : Option Nat) (sp2 : Span)
      (s : Eval.State N) (t : AEval.St (VE N)),
      okExpr B.o (.call (.member obj field fs sp) args fn sp2) = true → B.Sim s t →
      NF (AEval.evalExpr B.P B.ac (n + 1) (.call (.member obj field fs sp) args fn sp2) t) →
      Ev B Eq (AEval.evalExpr B.P B.ac (n + 1) (.call (.member obj field fs sp) args fn sp2) t)
        (fun f => Eval.evalExpr B.rc f (.call (.member obj field fs sp) args fn sp2) s)

/-- The case of an index assignment. -/
def IndexCase (N : Type) [NumOps N] (B : Brg) : Prop :=
  ∀ (n : Nat), (∀ m, m ≤ n → SimAt (N := N) B m) →
    ∀ (tg e : Expr) (sid : Option Nat) (sp : Span) (s : Eval.State N) (t : AEval.St (VE N)),
      okStmt B.o (.assignIndex tg e sid sp) = true → B.Sim s t →
      NF (AEval.execStmt B.P B.ac (n + 1) (.assignIndex tg e sid sp) t) →
      Ev B FlowSim (AEval.execStmt B.P B.ac (n + 1) (.assignIndex tg e sid sp) t)
        (fun f => Eval.execStmt B.rc f (.assignIndex tg e sid sp) s)

theorem memberCase_of_false (h : B.o.members = false) : MemberCase N B := by
  intro n _ obj field fs sp args fn sp2 s t hok
  simp [okExpr, h] at hok

theorem indexCase_of_false (h : B.o.members = false) : IndexCase N B := by
  intro n _ tg e sid sp s t hok
  simp [okStmt, h] at hok

theorem bsim_zero : SimAt (N := N) B 0 where
  expr := fun _ _ _ _ _ h => absurd rfl h
  list := fun _ _ _ _ _ h => absurd rfl h
  block := fun _ _ _ _ _ h => absurd rfl h
  stmts := fun _ _ _ _ _ h => absurd rfl h
  stmt := fun _ _ _ _ _ h => absurd rfl h
  loop := fun _ _ _ _ _ _ _ _ h => absurd rfl h

/-- A call whose callee is neither a name nor a member expression fails at once. -/
theorem sim_calleeShape (hB : B.Ok N) (callee : Expr) (args : List Expr) (fn : Option Nat) (sp : Span)
    (s : Eval.State N) (t : AEval.St (VE N)) (n : Nat) (hs : B.Sim s t)
    (hv : ∀ name b vsp, callee ≠ .var name b vsp) (hm : ∀ o f fs msp, callee ≠ .member o f fs msp)
    (hnf : NF (AEval.evalExpr B.P B.ac (n + 1) (.call callee args fn sp) t)) :
    Ev B Eq (AEval.evalExpr B.P B.ac (n + 1) (.call callee args fn sp) t)
      (fun f => Eval.evalExpr B.rc f (.call callee args fn sp) s) := by
  have hr : RSim B Eq ((nodeE (.call callee args fn sp) [], t) : AEval.R (VE N) (VE N))
      (Eval.trap B.rc .calleeShape sp s) := RSim.err (trap_sim hB hs.out .calleeShape sp)
  cases callee with
  | var name b vsp => exact absurd rfl (hv name b vsp)
  | member o f fs msp => exact absurd rfl (hm o f fs msp)
  | index _ _ _ _ =>
    exact sim_leaf _ s t n rfl rfl (by simp only [AEval.evalExpr, AEval.children]) hnf _ hr
      (fun f => by simp only [Eval.evalExpr])
  | str _ _ =>
    exact sim_leaf _ s t n rfl rfl (by simp only [AEval.evalExpr, AEval.children]) hnf _ hr
      (fun f => by simp only [Eval.evalExpr])
  | num _ _ =>
    exact sim_leaf _ s t n rfl rfl (by simp only [AEval.evalExpr, AEval.children]) hnf _ hr
      (fun f => by simp only [Eval.evalExpr])
  | binary _ _ _ _ =>
    exact sim_leaf _ s t n rfl rfl (by simp only [AEval.evalExpr, AEval.children]) hnf _ hr
      (fun f => by simp only [Eval.evalExpr])
  | call _ _ _ _ =>
    exact sim_leaf _ s t n rfl rfl (by simp only [AEval.evalExpr, AEval.children]) hnf _ hr
      (fun f => by simp only [Eval.evalExpr])
  | array _ _ =>
    exact sim_leaf _ s t n rfl rfl (by simp only [AEval.evalExpr, AEval.children]) hnf _ hr
      (fun f => by simp only [Eval.evalExpr])
  | unary _ _ _ =>
    exact sim_leaf _ s t n rfl rfl (by simp only [AEval.evalExpr, AEval.children]) hnf _ hr
      (fun f => by simp only [Eval.evalExpr])
  | bool _ _ =>
    exact sim_leaf _ s t n rfl rfl (by simp only [AEval.evalExpr, AEval.children]) hnf _ hr
      (fun f => by simp only [Eval.evalExpr])
  | null _ =>
    exact sim_leaf _ s t n rfl rfl (by simp only [AEval.evalExpr, AEval.children]) hnf _ hr
      (fun f => by simp only [Eval.evalExpr])

theorem bsim_expr (hB : B.Ok N) (hM : MemberCase N B) {n : Nat} (IH : ∀ m, m ≤ n → SimAt (N := N) B m) (e : Expr)
    (s : Eval.State N) (t : AEval.St (VE N)) (hok : okExpr B.o e = true) (hs : B.Sim s t)
    (hnf : NF (AEval.evalExpr B.P B.ac (n + 1) e t)) :
    Ev B Eq (AEval.evalExpr B.P B.ac (n + 1) e t) (fun f => Eval.evalExpr B.rc f e s) := by
  cases e with
  | num lex sp =>
    simp only [okExpr] at hok
    obtain ⟨x, hx⟩ := hB.orc.num lex hok
    exact sim_leaf _ s t n rfl rfl (by simp only [AEval.evalExpr, AEval.children]) hnf (.ok (.num x) s)
      (by simp only [nodeE, hx, Option.getD_some]; exact RSim.ok rfl hs) (fun f => by simp only [Eval.evalExpr, hx])
  | str parts sp =>
    cases parts with
    | static x =>
      exact sim_leaf _ s t n rfl rfl (by simp only [AEval.evalExpr, AEval.children]) hnf (.ok (.str x) s)
        (RSim.ok rfl hs) (fun f => by simp only [Eval.evalExpr])
    | interp segs => exact sim_interp hB segs sp s t n hok hs hnf
  | bool b sp =>
    exact sim_leaf _ s t n rfl rfl (by simp only [AEval.evalExpr, AEval.children]) hnf (.ok (.bool b) s)
      (RSim.ok rfl hs) (fun f => by simp only [Eval.evalExpr])
  | null sp =>
    exact sim_leaf _ s t n rfl rfl (by simp only [AEval.evalExpr, AEval.children]) hnf (.ok .null s)
      (RSim.ok rfl hs) (fun f => by simp only [Eval.evalExpr])
  | var name b sp => exact sim_var hB name b sp s t hok hs n
  | binary op l r sp =>
    cases hop : Eval.ArithOp.ofBin op with
    | some ao => exact sim_arith hB IH hop l r sp s t hok hs hnf
    | none =>
      cases op with
      | and => exact sim_and hB (IH n (Nat.le_refl n)) l r sp s t hok hs hnf
      | or => exact sim_or hB (IH n (Nat.le_refl n)) l r sp s t hok hs hnf
      | add => cases hop
      | minus => cases hop
      | times => cases hop
      | divide => cases hop
      | mod => cases hop
      | eq => cases hop
      | gt => cases hop
      | lt => cases hop
  | unary op x sp => exact sim_unary hB IH op x sp s t hok hs hnf
  | array es sp => exact sim_array (IH n (Nat.le_refl n)) es sp s t hok hs hnf
  | index a i isp sp => exact sim_index hB IH a i isp sp s t hok hs hnf
  | member o f fs sp =>
    exact sim_leaf _ s t n rfl rfl (by simp only [AEval.evalExpr, AEval.children]) hnf
      (Eval.trap B.rc .bareMember sp s) (RSim.err (trap_sim hB hs.out .bareMember sp))
      (fun f => by simp only [Eval.evalExpr])
  | call callee args fn sp =>
    by_cases hv : ∃ name b vsp, callee = .var name b vsp
    · obtain ⟨name, b, vsp, rfl⟩ := hv
      simp only [okExpr, Bool.and_eq_true, Bool.or_eq_true] at hok
      cases hg : Eval.GlobalB.ofName name with
      | some g => exact sim_global hB (IH n (Nat.le_refl n)) name b vsp args fn sp g hg s t hok.1 hs hnf
      | none =>
        have hfn : fn.isSome = true := by
          rcases hok.2 with h | h
          · simp [hg] at h
          · exact h
        obtain ⟨g, rfl⟩ := Option.isSome_iff_exists.mp hfn
        exact sim_userCall hB (IH n (Nat.le_refl n)) name b vsp args g sp hg s t hok.1 hs hnf
    · by_cases hm : ∃ o f fs msp, callee = .member o f fs msp
      · obtain ⟨o, f, fs, msp, rfl⟩ := hm
        exact hM n IH o f fs msp args fn sp s t hok hs hnf
      · exact sim_calleeShape hB callee args fn sp s t n hs
          (fun name b vsp h => hv ⟨name, b, vsp, h⟩) (fun o f fs msp h => hm ⟨o, f, fs, msp, h⟩) hnf

theorem bsim_step (hB : B.Ok N) (hM : MemberCase N B) (hI : IndexCase N B) {n : Nat}
    (IH : ∀ m, m ≤ n → SimAt (N := N) B m) : SimAt (N := N) B (n + 1) where
  expr := fun e s t hok hs hnf => bsim_expr hB hM IH e s t hok hs hnf
  list := fun es s t hok hs hnf => sim_list (IH n (Nat.le_refl n)) es s t hok hs hnf
  block := fun b s t hok hs hnf => sim_block hB (IH n (Nat.le_refl n)) b s t hok hs hnf
  stmts := fun ss s t hok hs hnf => sim_stmts hB (IH n (Nat.le_refl n)) ss s t hok hs hnf
  stmt := fun st s t hok hs hnf => sim_stmt hB (IH n (Nat.le_refl n)) st s t hok hs hnf
    (fun tg e sid sp h => by subst h; exact hI n IH tg e sid sp s t hok hs hnf)
  loop := fun c b sp s t hokc hokb hs hnf => sim_loop hB (IH n (Nat.le_refl n)) c b sp s t hokc hokb hs hnf

/-- **The simulation**, for every amount of fuel of the fragment. -/
theorem bsim_all (hB : B.Ok N) (hM : MemberCase N B) (hI : IndexCase N B) : ∀ n, SimAt (N := N) B n := by
  intro n
  induction n using Nat.strongRecOn with
  | _ n ih =>
    cases n with
    | zero => exact bsim_zero
    | succ n => exact bsim_step hB hM hI (fun m hm => ih m (by omega))

/-! ### Whole runs -/

theorem sim_init (B : Brg) (hin : B.rc.input = []) : B.Sim (N := N) (Eval.State.init B.rc) (AEval.St.init (VE N)) := by
  refine ⟨⟨⟨fun l => rfl, fun l => ?_, fun g => ?_⟩, trivial⟩, rfl, hin⟩
  · simp [AEval.St.init]
  · cases B.ac.dropFn g <;> simp [ORel2, AEval.St.init, Eval.State.init]

/-- **Refinement of runs.**  A run of the fragment (instantiated with `Eval`'s primitive steps) that is
not cut short by the fuel is matched by the run of `Eval` with enough fuel: same printed values,
same class of ending. -/
theorem bridge_run (hB : B.Ok N) (hM : MemberCase N B) (hI : IndexCase N B) (root : Block)
    (hok : okBlock B.o root = true) (hin : B.rc.input = []) (n : Nat)
    (hnf : fragObs (AEval.run (B.P (N := N)) B.plan n root) ≠ none) :
    ∃ f, evalObs (Eval.run (N := N) B.rc f root) = fragObs (AEval.run (B.P (N := N)) B.plan n root) := by
  have hnf' : NF (AEval.execBlock (B.P (N := N)) B.ac n root.stmts (AEval.St.init (VE N))) := by
    intro h
    apply hnf
    simp only [fragObs, AEval.run]
    rw [show AEval.Cfg.ofPlan B.plan = B.ac from rfl, h]
  obtain ⟨r, f0, hr, hF⟩ := (bsim_all hB hM hI n).block root _ _ hok (sim_init B hin) hnf'
  refine ⟨f0, ?_⟩
  simp only [Eval.run, hF f0 (Nat.le_refl f0), AEval.run, fragObs]
  rw [show AEval.Cfg.ofPlan B.plan = B.ac from rfl]
  generalize AEval.execBlock (B.P (N := N)) B.ac n root.stmts (AEval.St.init (VE N)) = a at hr hnf'
  rcases a with ⟨er | fl, t1⟩
  · have he : ErrSim er t1 r := hr
    cases r with
    | ok _ _ => cases he
    | fuel => cases he
    | err k sp s1 =>
      obtain ⟨hk, hout⟩ := he
      rcases hk with rfl | ⟨rfl, rfl⟩ <;> simp [evalObs, hout]
    | panic site s1 =>
      obtain ⟨rfl, hout⟩ := he
      simp [evalObs, hout]
  · obtain ⟨y, s1, rfl, _, hs1⟩ := (show ∃ y s', r = .ok y s' ∧ FlowSim fl y ∧ B.Sim s' t1 from hr)
    simp [evalObs, hs1.out]

end NaijaVerif.C03
