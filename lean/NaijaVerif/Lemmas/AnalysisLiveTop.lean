import NaijaVerif.Lemmas.AnalysisLiveAll
import NaijaVerif.Lemmas.AnalysisCheck
import NaijaVerif.Lemmas.AnalysisBase
/-
The liveness simulation applied to a whole program: the setting built from the program, its facts
and a plan (`lsetupOf`), the decidable global conditions (`globalOkB`, plan independent) and the run
theorem `live_run`.
-/
namespace NaijaVerif.C03
open NaijaVerif NaijaVerif.Analysis NaijaVerif.AEval

variable {V : Type}

/-- `facts.locals[l].declaring_scope`. -/
def declScopeOf (facts : Facts) (x : Nat) : Option Nat := (facts.locals[x]?).map (·.declaringScope)
/-- `facts.stmt_effects[i].scope`. -/
def stmtScopeOf (facts : Facts) (i : Nat) : Option Nat := (facts.stmtEffects[i]?).map (·.scope)

/-- The primitive semantics consults the facts of this program for scopes. -/
def ScopesFrom (P : Prims V) (facts : Facts) : Prop := P.dscope = declScopeOf facts ∧ P.sscope = stmtScopeOf facts

/-- The setting of the liveness simulation for a program, its facts, a plan and a quiet-initialiser test. -/
def lsetupOf (root : Block) (facts : Facts) (plan : Option Plan) (q : Nat → Expr → Bool) : LSetup :=
  let c := mkCtx root facts
  { c := c, T := tbl root, cfg := Cfg.ofPlan plan, D2 := fun x => !c.usedLocals.contains x,
    ds := declScopeOf facts, ss := stmtScopeOf facts, q := q, ua := c.unusedAsg root, uv := c.unusedVars }

/-! ### Plan-independent global conditions, decidable -/

/-- Every reachable statement of a body-reachable function has its reads, and the transitive capture
reads of its callees, among the used locals (true by construction of `usedLocals`; checked). -/
def usedOkB (c : Ctx) : Bool :=
  let used := c.usedLocals
  let br := c.bodyReachable
  c.rows.all fun r =>
    !(r.live && br.contains (c.fnOf r.sid)) ||
      ((c.reads r.sid).all (fun x => used.contains x) &&
       (c.callees r.sid).all (fun g => (c.transReads g).all (fun x => used.contains x)))

/-- The summaries of a caller contain those of its callees (the closure ran to its fixpoint). -/
def sumOkB (c : Ctx) : Bool :=
  c.rows.all fun r =>
    !r.live ||
      (c.callees r.sid).all (fun g =>
        subset (c.transReads g) (c.transReads (c.fnOf r.sid)) && subset (c.transWrites g) (c.transWrites (c.fnOf r.sid)))

/-- `scope_locals[sc]` only lists locals declared by `sc`. -/
def slOkB (facts : Facts) : Bool :=
  (List.range facts.scopeLocals.length).all fun sc =>
    match facts.scopeLocals[sc]? with
    | some ls => ls.all (fun x => declScopeOf facts x == some sc)
    | none => true

/-- The scope that declares a local belongs to the local's owner. -/
def scOwnB (facts : Facts) : Bool :=
  facts.locals.all fun li => (facts.scopes[li.declaringScope]?).map (·.owner) == some li.owner

def globalOkB (root : Block) (facts : Facts) : Bool :=
  let c := mkCtx root facts
  c.brClosed && usedOkB c && sumOkB c && slOkB facts && scOwnB facts

theorem row_of_tbl {root : Block} {i : Nat} {l : Bool} (h : (i, l) ∈ tbl root) : ∃ r ∈ rows root, r.sid = i ∧ r.live = l := by
  simp only [tbl, List.mem_map, Prod.mk.injEq] at h
  obtain ⟨r, hr, h1, h2⟩ := h
  exact ⟨r, hr, h1, h2⟩

theorem live_of_tbl {root : Block} (facts : Facts) (hd : SidsDistinct root) {i : Nat} (h : (i, true) ∈ tbl root) :
    (mkCtx root facts).live i = true := by
  obtain ⟨r, hr, hsid, hlive⟩ := row_of_tbl h
  simp only [Ctx.live, Ctx.row?]
  have hrows : (mkCtx root facts).rows = rows root := rfl
  rw [hrows]
  cases hf : (rows root).find? (fun r => r.sid == i) with
  | none =>
    have := List.find?_eq_none.mp hf r hr
    simp [hsid] at this
  | some r' =>
    have h1 := List.find?_some hf
    have h2 := List.mem_of_find?_eq_some hf
    have : r' = r := eq_of_nodup_map hd r' h2 r hr (by simp at h1; rw [h1, hsid])
    subst this
    simpa using hlive

theorem lsetupOk_of (root : Block) (facts : Facts) (plan : Plan) (q : Nat → Expr → Bool)
    (hd : SidsDistinct root) (hg : globalOkB root facts = true)
    (hfns : ∀ g ∈ plan.fns, g ∈ (mkCtx root facts).unusedFns.map (·.2)) :
    LSetupOk (lsetupOf root facts (some plan) q) := by
  simp only [globalOkB, Bool.and_eq_true] at hg
  obtain ⟨⟨⟨⟨hcl, hused⟩, hsum⟩, hsl⟩, hown⟩ := hg
  have hrows : (mkCtx root facts).rows = rows root := rfl
  refine
    { closed := brClosed_of_check root facts hcl
      drop := ?_
      func := fun _ h => tbl_functional hd h
      liveT := fun i h => live_of_tbl facts hd h
      used := ?_
      sumR := ?_
      sumW := ?_
      slOk := ?_
      scOwn := ?_ }
  · intro g hg
    simp only [lsetupOf, Cfg.ofPlan]
    cases hc : plan.fns.contains g with
    | false => rfl
    | true =>
      have hm : g ∈ plan.fns := by simpa using hc
      have := unused_not_reachable _ (hfns g hm)
      simp only [lsetupOf, LSetup.BR] at hg
      rw [this] at hg
      cases hg
  · intro i hi hbr
    obtain ⟨r, hr, hsid, hlive⟩ := row_of_tbl hi
    simp only [usedOkB, List.all_eq_true, Bool.or_eq_true, Bool.not_eq_true', Bool.and_eq_false_iff, Bool.and_eq_true] at hused
    have := hused r (by rw [hrows]; exact hr)
    rw [hsid, hlive] at this
    simp only [lsetupOf, LSetup.BR] at hbr
    rcases this with h | h
    · rcases h with h | h
      · cases h
      · rw [h] at hbr; cases hbr
    · constructor
      · intro x hx
        have := h.1 x hx
        simp only [lsetupOf]
        simp only [List.contains_eq_mem, decide_eq_true_eq] at this
        simpa using this
      · intro g hg x hx
        have := h.2 g hg x hx
        simp only [lsetupOf]
        simp only [List.contains_eq_mem, decide_eq_true_eq] at this
        simpa using this
  · intro i hi g hg x hx
    obtain ⟨r, hr, hsid, hlive⟩ := row_of_tbl hi
    simp only [sumOkB, List.all_eq_true, Bool.or_eq_true, Bool.not_eq_true', Bool.and_eq_true] at hsum
    have := hsum r (by rw [hrows]; exact hr)
    rw [hsid, hlive] at this
    rcases this with h | h
    · cases h
    · exact subset_iff.mp (h g hg).1 x hx
  · intro i hi g hg x hx
    obtain ⟨r, hr, hsid, hlive⟩ := row_of_tbl hi
    simp only [sumOkB, List.all_eq_true, Bool.or_eq_true, Bool.not_eq_true', Bool.and_eq_true] at hsum
    have := hsum r (by rw [hrows]; exact hr)
    rw [hsid, hlive] at this
    rcases this with h | h
    · cases h
    · exact subset_iff.mp (h g hg).2 x hx
  · intro b x hx
    have hcc : (lsetupOf root facts (some plan) q).c = mkCtx root facts := rfl
    rw [hcc] at hx
    simp only [Ctx.scopeLocalsOf] at hx
    match b, hx with
    | [], hx => cases hx
    | s :: _, hx =>
      simp only [] at hx
      cases hsid : s.sid with
      | none => simp [hsid] at hx
      | some i =>
        simp only [hsid, Option.bind_some] at hx
        cases he : (mkCtx root facts).eff? i with
        | none => simp [he] at hx
        | some e =>
          simp only [he] at hx
          cases hls : (mkCtx root facts).facts.scopeLocals[e.scope]? with
          | none => simp [hls] at hx
          | some ls =>
            simp only [hls] at hx
            refine ⟨e.scope, ?_, ?_⟩
            · simp only [blockTag, hsid, Option.bind_some, lsetupOf, stmtScopeOf]
              have : facts.stmtEffects[i]? = some e := he
              simp [this]
            · simp only [slOkB, List.all_eq_true, List.mem_range] at hsl
              have hfacts : (mkCtx root facts).facts = facts := rfl
              rw [hfacts] at hls
              have hlt : e.scope < facts.scopeLocals.length := by
                have := List.getElem?_eq_some_iff.mp hls
                exact this.1
              have := hsl e.scope hlt
              simp only [hls, List.all_eq_true, beq_iff_eq] at this
              exact this x hx
  · intro x tg hx
    simp only [lsetupOf, declScopeOf] at hx
    simp only [LSetup.scopeOwner, Ctx.owner, lsetupOf]
    have hfacts : (mkCtx root facts).facts = facts := rfl
    rw [hfacts]
    cases hl : facts.locals[x]? with
    | none => simp [hl] at hx
    | some li =>
      simp only [hl, Option.map_some, Option.some.injEq] at hx
      simp only [scOwnB, List.all_eq_true, beq_iff_eq] at hown
      have := hown li (List.mem_of_getElem? hl)
      rw [hx] at this
      simpa using this

/-! ### The run theorem -/

/-- What is asked of the program and the plan besides the global conditions: the statement-by-statement
conditions `lokListB` for the top-level block. -/
def rootOkB (L : LSetup) (root : Block) : Bool :=
  L.blockOkB 0 [none] root.stmts &&
  lokListB L 0 [blockTag L.ss root.stmts, none] { brk := none, cont := none, kills := [] } root.stmts (boundary [])

theorem linv_init (L : LSetup) : LInv L (St.init V) := by
  refine ⟨inv_init _ V, ?_⟩
  intro sc hsc fd hfd
  simp [St.init] at hsc
  subst hsc
  cases hfd

theorem live_run (P : Prims V) (root : Block) (facts : Facts) (plan : Plan) (q : Nat → Expr → Bool) (fuel : Nat)
    (hP : ScopesFrom P facts) (hqt : QuietIn P (lsetupOf root facts (some plan) q))
    (hs : LSetupOk (lsetupOf root facts (some plan) q))
    (hok : rootOkB (lsetupOf root facts (some plan) q) root = true)
    (hbad : ¬ Bad (run P none fuel root).1) :
    observable (run P (some plan) fuel root) = observable (run P none fuel root) := by
  let L := lsetupOf root facts (some plan) q
  have hsim := lsim_all P (L := L) hP.1 hP.2 hs hqt fuel
  simp only [rootOkB, Bool.and_eq_true] at hok
  have hact : ActOk L 0 [(none, fun _ => False)] [] :=
    { own := by intro tg h; simp [tagsOf] at h
      susp := by intro fr h; cases h
      nodup := by simp [tagsOf, TagsNodup] }
  have hrel : LRel L (mkTop (fun _ => True) [(none, fun _ => False)] ++ []) (St.init V) (St.init V) :=
    ⟨rfl, rfl, by
      simp only [St.init, mkTop, List.map_cons, List.map_nil, List.append_nil]
      exact erel_push (Γ := []) (a := []) (b := []) trivial none (fun _ => True) (fun _ => False) []⟩
  have hm := hsim.block root.stmts (St.init V) (St.init V) 0 [(none, fun _ => False)] [] { brk := none, cont := none, kills := [] }
    (boundary []) (fun _ => True) (cons_root root) (by simpa [tagsOf] using hok.2) (by simpa [tagsOf] using hok.1)
    (root_bodyReachable _) hact (by intro p hp l hl; simp only [List.mem_singleton] at hp; subst hp; cases hl)
    (fun _ _ _ => trivial) hrel (linv_init L)
  rcases hm.1 with hb | ⟨heq, A', hrel', _⟩
  · exact absurd hb hbad
  · simp only [observable, run]
    have h1 : (execBlock P (Cfg.ofPlan (some plan)) fuel root.stmts (St.init V)).1 =
        (execBlock P plain fuel root.stmts (St.init V)).1 := heq
    have h2 : (execBlock P (Cfg.ofPlan (some plan)) fuel root.stmts (St.init V)).2.out =
        (execBlock P plain fuel root.stmts (St.init V)).2.out := hrel'.1
    simp only [plain] at h1 h2
    rw [h1, h2]

end NaijaVerif.C03
