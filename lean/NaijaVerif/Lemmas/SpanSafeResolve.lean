import NaijaVerif.Model.Resolve
import NaijaVerif.Lemmas.ParseDefs
/-
C07, behind the parser (1): the resolver keeps the spans of its input.

`Resolve.resolve` rebuilds the AST with the binding annotations filled in; every span of the rebuilt
tree (statement, block, expression, name, parameter, index and member spans — `Parse.blockSpans`) is
copied from the tree it was given, in the same order.  Hence whatever a later stage reports at a span
of the ANNOTATED program is reported at a span of the PARSED program, whose spans the lexer / parser
theorems of C07 prove safe.
-/
namespace NaijaVerif.SpanSafe
open NaijaVerif NaijaVerif.Parse NaijaVerif.Resolve

mutual
  theorem checkExpr_exprSpans (env : Env) (cur : Scope) (sid : Nat) :
      ∀ (e : Expr) (f : Facts), exprSpans (checkExpr env cur sid e f).val = exprSpans e
    | .num _ _, f => by simp only [checkExpr, exprSpans]
    | .bool _ _, f => by simp only [checkExpr, exprSpans]
    | .null _, f => by simp only [checkExpr, exprSpans]
    | .str (.static _) _, f => by simp only [checkExpr, exprSpans]
    | .str (.interp segs) sp, f => by simp only [checkExpr, exprSpans]
    | .array es _, f => by simp only [checkExpr, exprSpans, checkExprs_exprsSpans env cur sid es f]
    | .index a i isp sp, f => by
        simp only [checkExpr, exprSpans, checkExpr_exprSpans env cur sid a f, checkExpr_exprSpans env cur sid i]
    | .var v _ sp, f => by
        simp only [checkExpr]
        split <;> simp only [exprSpans]
    | .binary _ l r sp, f => by
        simp only [checkExpr, exprSpans, checkExpr_exprSpans env cur sid l f, checkExpr_exprSpans env cur sid r]
    | .unary _ e sp, f => by simp only [checkExpr, exprSpans, checkExpr_exprSpans env cur sid e f]
    | .member o _ fs sp, f => by simp only [checkExpr, exprSpans, checkExpr_exprSpans env cur sid o f]
    | .call callee args _ sp, f => by
        have hc := checkExpr_exprSpans env cur sid callee
        have ha := checkExprs_exprsSpans env cur sid args
        cases callee with
        | var fname vb vs =>
          simp only [checkExpr]
          split
          · simp only [exprSpans, ha]
          · split <;> simp only [exprSpans, ha]
        | member obj field fs ms =>
          have ho := checkExpr_exprSpans env cur sid obj f
          simp only [checkExpr, exprSpans, ha, ho]
        | _ =>
          rw [checkExpr.eq_def]
          simp only [exprSpans, ha, hc]
  theorem checkExprs_exprsSpans (env : Env) (cur : Scope) (sid : Nat) :
      ∀ (es : List Expr) (f : Facts), exprsSpans (checkExprs env cur sid es f).val = exprsSpans es
    | [], f => by simp only [checkExprs, exprsSpans]
    | e :: es, f => by
        simp only [checkExprs, exprsSpans, checkExpr_exprSpans env cur sid e f,
          checkExprs_exprsSpans env cur sid es]
end

theorem declareParams_spans (spanLen : Bool) (owner scope : Nat) :
    ∀ (ps : List Param) (sc : Resolve.Scope) (f : Facts),
      (declareParams spanLen owner scope ps sc f).1.map (·.span) = ps.map (·.span)
  | [], sc, f => rfl
  | p :: ps, sc, f => by
    simp only [declareParams, List.map_cons, declareParams_spans spanLen owner scope ps]

mutual
  theorem checkStmt_stmtSpans (env : Env) (cur : Cur) :
      ∀ (s : Stmt) (f : Facts), stmtSpans (checkStmt env cur s f).val = stmtSpans s
    | .assign x xs e _ _ sp, f => by
        simp only [checkStmt]
        split <;> simp only [stmtSpans, checkExpr_exprSpans]
    | .assignExisting x xs e _ _ sp, f => by
        simp only [checkStmt]
        split <;> simp only [stmtSpans, checkExpr_exprSpans]
    | .assignIndex t e _ sp, f => by simp only [checkStmt, stmtSpans, checkExpr_exprSpans]
    | .ifS c t none _ sp, f => by
        simp only [checkStmt, checkOptBlock, stmtSpans, checkExpr_exprSpans, checkBlock_blockSpans _ _ t]
    | .ifS c t (some e) _ sp, f => by
        simp only [checkStmt, checkOptBlock, stmtSpans, checkExpr_exprSpans, checkBlock_blockSpans _ _ t,
          checkBlock_blockSpans _ _ e]
    | .loop c b _ sp, f => by
        simp only [checkStmt, stmtSpans, checkExpr_exprSpans, checkBlock_blockSpans _ _ b]
    | .block b _ sp, f => by simp only [checkStmt, stmtSpans, checkBlock_blockSpans _ _ b]
    | .fnDef name nsp ps body _ _ sp, f => by
        simp only [checkStmt]
        split
        · simp only [stmtSpans]
        · simp only [stmtSpans, declareParams_spans, checkBlock_blockSpans _ _ body]
    | .ret none _ sp, f => by simp only [checkStmt, stmtSpans]
    | .ret (some e) _ sp, f => by simp only [checkStmt, stmtSpans, checkExpr_exprSpans]
    | .brk _ sp, f => by simp only [checkStmt, stmtSpans]
    | .cont _ sp, f => by simp only [checkStmt, stmtSpans]
    | .expr e _ sp, f => by simp only [checkStmt, stmtSpans, checkExpr_exprSpans]
  theorem checkStmts_stmtsSpans (env : Env) :
      ∀ (ss : List Stmt) (cur : Cur) (f : Facts), stmtsSpans (checkStmts env cur ss f).val = stmtsSpans ss
    | [], cur, f => by simp only [checkStmts, stmtsSpans]
    | s :: ss, cur, f => by
        simp only [checkStmts, stmtsSpans, checkStmt_stmtSpans env cur s f, checkStmts_stmtsSpans env ss]
  theorem checkBlock_blockSpans (env : Env) (parent : Option Nat) :
      ∀ (b : Block) (f : Facts), blockSpans (checkBlock env parent b f).val = blockSpans b
    | .mk ss sp, f => by
        simp only [checkBlock, blockSpans, checkStmts_stmtsSpans _ ss]
end

/-- **The resolver keeps every span of its input**, in order. -/
theorem resolveWith_blockSpans (spanLen : Bool) (p : Block) :
    blockSpans (resolveWith spanLen p).root = blockSpans p :=
  checkBlock_blockSpans (rootEnv spanLen) none p rootFacts

theorem resolve_blockSpans (p : Block) : blockSpans (resolve p).root = blockSpans p :=
  resolveWith_blockSpans true p

theorem resolve_root_span (p : Block) : (resolve p).root.span = p.span := by
  cases p with
  | mk ss sp => simp only [resolve, resolveWith, checkBlock, Block.span]

end NaijaVerif.SpanSafe
