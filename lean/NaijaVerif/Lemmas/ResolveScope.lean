import NaijaVerif.Model.Resolve
import NaijaVerif.Spec.WF
/-
The scope-stack invariant: the resolver model's environment (`Env`, `Cur`) abstracts to the
declarative context of `Spec/WF.lean` (`Spec.Ctx`), and under that abstraction the diagnostics of
the scoping rules that `check_*` emits are exactly the violations the specification lists, in the
same order.
-/
namespace NaijaVerif.Resolve
open NaijaVerif NaijaVerif.Spec

/-- The diagnostics of the scoping rules, as (rule, span). -/
def scopeDs (ds : List RDiag) : List Viol :=
  (ds.filter (fun d => d.rule.isScoping)).map (fun d => (d.rule, d.span))

@[simp] theorem scopeDs_nil : scopeDs [] = [] := rfl
@[simp] theorem scopeDs_append (a b : List RDiag) : scopeDs (a ++ b) = scopeDs a ++ scopeDs b := by
  simp [scopeDs]
theorem scopeDs_cons (d : RDiag) (ds : List RDiag) :
    scopeDs (d :: ds) = (if d.rule.isScoping then [(d.rule, d.span)] else []) ++ scopeDs ds := by
  simp only [scopeDs, List.filter_cons]; split <;> simp

theorem scopeDs_errIf (c : Bool) (r : Rule) (s : Span) :
    scopeDs (errIf c (RDiag.at r s)) = if r.isScoping then vIf c r s else [] := by
  cases c <;> simp [errIf, vIf, scopeDs, RDiag.at, List.filter_cons] <;> split <;> simp_all

/-! ### Abstraction of the environment -/

def scopeNames (s : Scope) : List Bytes := s.map (·.name)
def absVars (ss : List Scope) : List (List Bytes) := ss.map scopeNames
def sigKey (g : FnSig) : Bytes × Nat := (g.name, g.arity)
def absFns (fs : List (List FnSig)) : List (List (Bytes × Nat)) := fs.map (·.map sigKey)

def absCtx (env : Env) : Ctx :=
  { vars := absVars env.vars, fns := absFns env.fns, loops := env.inLoop, inFn := env.curFn.isSome }

theorem findVar_isSome (s : Scope) (x : Bytes) : (findVar s x).isSome = (scopeNames s).contains x := by
  rw [Bool.eq_iff_iff]
  simp only [findVar, scopeNames, List.find?_isSome, List.contains_iff_mem, List.mem_map, beq_iff_eq]

theorem lookupScopes_isSome (ss : List Scope) (x : Bytes) :
    (lookupScopes ss x).isSome = declared (absVars ss) x := by
  induction ss with
  | nil => simp [lookupScopes, declared, absVars]
  | cons s ss ih =>
    have hs := findVar_isSome s x
    simp only [declared, absVars, List.map_cons, List.any_cons] at ih ⊢
    rw [← ih, ← hs]
    simp only [lookupScopes]
    cases h : findVar s x <;> simp

theorem lookupVar_isSome (env : Env) (cur : Scope) (x : Bytes) :
    (lookupVar env cur x).isSome = declared (absVars (cur :: env.vars)) x :=
  lookupScopes_isSome _ _

theorem findSig_map (s : List FnSig) (x : Bytes) :
    findSig (s.map sigKey) x = (findFn s x).map (·.arity) := by
  induction s with
  | nil => simp [findSig, findFn]
  | cons g gs ih =>
    simp only [findSig, findFn, List.map_cons, List.find?_cons] at ih ⊢
    have hk : (sigKey g).1 = g.name := rfl
    rw [hk]
    cases h : g.name == x
    · simpa using ih
    · simp [sigKey]

theorem fnArity_abs (fs : List (List FnSig)) (x : Bytes) :
    fnArity (absFns fs) x = (lookupFns fs x).map (·.arity) := by
  induction fs with
  | nil => simp [fnArity, lookupFns, absFns]
  | cons s ss ih =>
    simp only [fnArity, lookupFns, absFns, List.map_cons] at ih ⊢
    rw [findSig_map]
    cases h : findFn s x <;> simp [ih]

/-! ### Expressions -/

theorem checkSegs_scope (env : Env) (cur : Scope) (sid : Nat) (span : Span) (vars : List (List Bytes))
    (hv : vars = absVars (cur :: env.vars)) :
    ∀ (segs : List Seg) (f : Facts), scopeDs (checkSegs env cur sid span segs f).ds = segsV vars span segs
  | [], f => by simp [checkSegs, segsV]
  | .lit _ :: rest, f => by
      simp only [checkSegs, segsV]; exact checkSegs_scope env cur sid span vars hv rest f
  | .var n _ :: rest, f => by
      have hd := lookupVar_isSome env cur n
      simp only [checkSegs, segsV]
      cases h : lookupVar env cur n with
      | some e =>
        simp only [h, Option.isSome_some] at hd
        simp only [hv, ← hd, vIf]
        simpa using checkSegs_scope env cur sid span _ rfl rest _
      | none =>
        simp only [h, Option.isSome_none] at hd
        simp only [hv, ← hd, vIf, scopeDs_cons, RDiag.at, Rule.isScoping]
        simpa using checkSegs_scope env cur sid span _ rfl rest _

theorem scopeDs_flatten_nil : ∀ (ls : List (List RDiag)), (∀ l ∈ ls, scopeDs l = []) → scopeDs ls.flatten = []
  | [], _ => rfl
  | l :: ls, h => by
      simp only [List.flatten_cons, scopeDs_append, h l (by simp), List.nil_append]
      exact scopeDs_flatten_nil ls (fun l' hl => h l' (by simp [hl]))

theorem argDiags_scope (env : Env) (cur : Scope) (ck : ArgCheck) (args : List Expr) (ms : Span) :
    scopeDs (argDiags env cur ck args ms) = [] := by
  have key : ∀ (l : List Expr) (c : Expr → Bool),
      scopeDs ((l.map fun a => errIf (c a) (RDiag.at .tyMethodArg ms)).flatten) = [] := by
    intro l c
    apply scopeDs_flatten_nil
    intro x hx
    simp only [List.mem_map] at hx
    obtain ⟨a, _, rfl⟩ := hx
    simp [scopeDs_errIf, Rule.isScoping]
  unfold argDiags
  split
  · rfl
  · exact key _ _
  · split
    · exact key _ _
    · rfl
  · exact key _ _
  · exact key _ _
  · exact key _ _

theorem checkMethod_scope (env : Env) (cur : Scope) (sid : Nat) (rt : VType) (obj : Expr) (field : Bytes)
    (args : List Expr) (ms : Span) (f : Facts) :
    scopeDs (checkMethod env cur sid rt obj field args ms f).1 = [] := by
  unfold checkMethod
  split
  · simp [scopeDs_errIf, Rule.isScoping, argDiags_scope]
  · simp [scopeDs_errIf, Rule.isScoping]

theorem vIf_undeclared (env : Env) (cur : Scope) (c : Ctx) (hv : c.vars = absVars (cur :: env.vars))
    (x : Bytes) : declared c.vars x = (lookupVar env cur x).isSome := by
  rw [hv, lookupVar_isSome]

mutual
  theorem checkExpr_scope (env : Env) (cur : Scope) (sid : Nat) (c : Ctx)
      (hv : c.vars = absVars (cur :: env.vars)) (hf : c.fns = absFns env.fns) :
      ∀ (e : Expr) (f : Facts), scopeDs (checkExpr env cur sid e f).ds = exprV c e
    | .num _ _, f => by simp [checkExpr, exprV]
    | .bool _ _, f => by simp [checkExpr, exprV]
    | .null _, f => by simp [checkExpr, exprV]
    | .str (.static _) _, f => by simp [checkExpr, exprV]
    | .str (.interp segs) s, f => by
        simp only [checkExpr, exprV]
        exact checkSegs_scope env cur sid s c.vars hv segs f
    | .array es _, f => by
        simp only [checkExpr, exprV]
        exact checkExprs_scope env cur sid c hv hf es f
    | .index a i _ _, f => by
        simp only [checkExpr, exprV, scopeDs_append, scopeDs_errIf, Rule.isScoping]
        rw [checkExpr_scope env cur sid c hv hf a, checkExpr_scope env cur sid c hv hf i]
        simp
    | .var v _ s, f => by
        have hd := vIf_undeclared env cur c hv v
        simp only [checkExpr, exprV]
        cases h : lookupVar env cur v with
        | some e => simp [h] at hd; simp [hd, vIf]
        | none => simp [h] at hd; simp [hd, vIf, scopeDs_cons, RDiag.at, Rule.isScoping]
    | .binary _ l r _, f => by
        simp only [checkExpr, exprV, scopeDs_append, scopeDs_errIf, Rule.isScoping]
        rw [checkExpr_scope env cur sid c hv hf l, checkExpr_scope env cur sid c hv hf r]
        simp
    | .unary _ e _, f => by
        simp only [checkExpr, exprV, scopeDs_append, scopeDs_errIf, Rule.isScoping]
        rw [checkExpr_scope env cur sid c hv hf e]
        simp
    | .member o _ _ _, f => by
        simp only [checkExpr, exprV, scopeDs_append, scopeDs_cons, RDiag.at, Rule.isScoping]
        rw [checkExpr_scope env cur sid c hv hf o f]
        simp
    | .call callee args _ s, f => by
        cases callee with
        | var fname vb vs =>
          simp only [checkExpr, exprV]
          cases hg : GlobalB.ofName fname with
          | some g =>
            simp only [scopeDs_append, scopeDs_errIf, Rule.isScoping]
            rw [checkExprs_scope env cur sid c hv hf args]
            cases g <;> cases args <;> simp [scopeDs_errIf, Rule.isScoping]
          | none =>
            have ha : fnArity c.fns fname = (lookupFn env fname).map (·.arity) := by
              rw [hf]; exact fnArity_abs _ _
            simp only [ha]
            cases hl : lookupFn env fname with
            | some g =>
              simp only [Option.map_some, scopeDs_append, scopeDs_errIf, Rule.isScoping]
              rw [checkExprs_scope env cur sid c hv hf args]
              simp
            | none =>
              simp only [Option.map_none, scopeDs_cons, RDiag.at, Rule.isScoping]
              rw [checkExprs_scope env cur sid c hv hf args]
              simp
        | member obj field fs ms =>
          simp only [checkExpr, exprV, scopeDs_append]
          rw [checkExpr_scope env cur sid c hv hf obj, checkExprs_scope env cur sid c hv hf args]
          cases hi : inferExpr env cur obj with
          | some rt => simp [checkMethod_scope]
          | none => simp
        | num l s' => simp [checkExpr, exprV, checkExprs_scope env cur sid c hv hf args, scopeDs_cons, RDiag.at, Rule.isScoping]
        | bool b s' => simp [checkExpr, exprV, checkExprs_scope env cur sid c hv hf args, scopeDs_cons, RDiag.at, Rule.isScoping]
        | null s' => simp [checkExpr, exprV, checkExprs_scope env cur sid c hv hf args, scopeDs_cons, RDiag.at, Rule.isScoping]
        | str p s' =>
          have h := checkExpr_scope env cur sid c hv hf (.str p s') f
          rw [checkExpr.eq_def, exprV.eq_def]
          simp only [scopeDs_append, scopeDs_cons, RDiag.at, Rule.isScoping]
          rw [h, checkExprs_scope env cur sid c hv hf args]
          simp
        | array es s' =>
          have h := checkExpr_scope env cur sid c hv hf (.array es s') f
          rw [checkExpr.eq_def, exprV.eq_def]
          simp only [scopeDs_append, scopeDs_cons, RDiag.at, Rule.isScoping]
          rw [h, checkExprs_scope env cur sid c hv hf args]
          simp
        | index a i isp s' =>
          have h := checkExpr_scope env cur sid c hv hf (.index a i isp s') f
          rw [checkExpr.eq_def, exprV.eq_def]
          simp only [scopeDs_append, scopeDs_cons, RDiag.at, Rule.isScoping]
          rw [h, checkExprs_scope env cur sid c hv hf args]
          simp
        | binary op l r s' =>
          have h := checkExpr_scope env cur sid c hv hf (.binary op l r s') f
          rw [checkExpr.eq_def, exprV.eq_def]
          simp only [scopeDs_append, scopeDs_cons, RDiag.at, Rule.isScoping]
          rw [h, checkExprs_scope env cur sid c hv hf args]
          simp
        | unary op e s' =>
          have h := checkExpr_scope env cur sid c hv hf (.unary op e s') f
          rw [checkExpr.eq_def, exprV.eq_def]
          simp only [scopeDs_append, scopeDs_cons, RDiag.at, Rule.isScoping]
          rw [h, checkExprs_scope env cur sid c hv hf args]
          simp
        | call c' a' f' s' =>
          have h := checkExpr_scope env cur sid c hv hf (.call c' a' f' s') f
          rw [checkExpr.eq_def, exprV.eq_def]
          simp only [scopeDs_append, scopeDs_cons, RDiag.at, Rule.isScoping]
          rw [h, checkExprs_scope env cur sid c hv hf args]
          simp
  theorem checkExprs_scope (env : Env) (cur : Scope) (sid : Nat) (c : Ctx)
      (hv : c.vars = absVars (cur :: env.vars)) (hf : c.fns = absFns env.fns) :
      ∀ (es : List Expr) (f : Facts), scopeDs (checkExprs env cur sid es f).ds = exprsV c es
    | [], f => by simp [checkExprs, exprsV]
    | e :: es, f => by
        simp only [checkExprs, exprsV, scopeDs_append]
        rw [checkExpr_scope env cur sid c hv hf e, checkExprs_scope env cur sid c hv hf es]
end

/-! ### Function pre-declaration -/

theorem paramDiags_scope : ∀ (seen : List Bytes) (ps : List Param),
    scopeDs (paramDiags seen ps) = paramsV seen ps
  | _, [] => by simp [paramDiags, paramsV]
  | seen, p :: ps => by
      simp only [paramDiags, paramsV, scopeDs_append, scopeDs_errIf, Rule.isScoping, if_true]
      rw [paramDiags_scope]

theorem findFn_append_single (sigs : List FnSig) (g : FnSig) (x : Bytes) :
    (findFn (sigs ++ [g]) x).isSome = ((findFn sigs x).isSome || g.name == x) := by
  simp only [findFn, List.find?_append]
  cases h : List.find? (fun g => g.name == x) sigs <;> simp [List.find?_cons] <;>
    cases hg : g.name == x <;> simp

theorem predeclare_scope (env : Env) : ∀ (ss : List Stmt) (sigs : List FnSig) (f : Facts) (seen : List Bytes),
    (∀ x, seen.contains x = (findFn sigs x).isSome) →
    scopeDs (predeclare env ss sigs f).ds = headersV seen ss
  | [], _, _, _, _ => by simp [predeclare, headersV]
  | .fnDef name nsp ps body _ _ _ :: rest, sigs, f, seen, hs => by
      simp only [predeclare, headersV]
      have hn := hs name
      cases h : findFn sigs name with
      | some ex =>
        simp only [h, Option.isSome_some] at hn
        simp only [hn, if_true, scopeDs_append, scopeDs_errIf, Rule.isScoping, scopeDs_cons, scopeDs_nil,
          List.append_nil]
        rw [predeclare_scope env rest sigs f seen hs]
        simp
      | none =>
        simp only [h, Option.isSome_none] at hn
        simp only [hn, scopeDs_append, scopeDs_errIf, Rule.isScoping, if_true, paramDiags_scope]
        rw [predeclare_scope env rest _ _ (name :: seen)]
        · simp
        · intro x
          rw [findFn_append_single, ← hs x]
          simp only [List.contains_cons]
          rw [Bool.or_comm]
          congr 1
          cases hx : x == name <;> cases hx' : name == x <;> simp_all
  | .assign .. :: rest, sigs, f, seen, hs => by simp only [predeclare, headersV]; exact predeclare_scope env rest sigs f seen hs
  | .assignExisting .. :: rest, sigs, f, seen, hs => by simp only [predeclare, headersV]; exact predeclare_scope env rest sigs f seen hs
  | .assignIndex .. :: rest, sigs, f, seen, hs => by simp only [predeclare, headersV]; exact predeclare_scope env rest sigs f seen hs
  | .ifS .. :: rest, sigs, f, seen, hs => by simp only [predeclare, headersV]; exact predeclare_scope env rest sigs f seen hs
  | .loop .. :: rest, sigs, f, seen, hs => by simp only [predeclare, headersV]; exact predeclare_scope env rest sigs f seen hs
  | .block .. :: rest, sigs, f, seen, hs => by simp only [predeclare, headersV]; exact predeclare_scope env rest sigs f seen hs
  | .ret .. :: rest, sigs, f, seen, hs => by simp only [predeclare, headersV]; exact predeclare_scope env rest sigs f seen hs
  | .brk .. :: rest, sigs, f, seen, hs => by simp only [predeclare, headersV]; exact predeclare_scope env rest sigs f seen hs
  | .cont .. :: rest, sigs, f, seen, hs => by simp only [predeclare, headersV]; exact predeclare_scope env rest sigs f seen hs
  | .expr .. :: rest, sigs, f, seen, hs => by simp only [predeclare, headersV]; exact predeclare_scope env rest sigs f seen hs

theorem predeclare_sigs (env : Env) : ∀ (ss : List Stmt) (sigs : List FnSig) (f : Facts),
    (predeclare env ss sigs f).sigs.map sigKey = blockFns ss (sigs.map sigKey)
  | [], _, _ => by simp [predeclare, blockFns]
  | .fnDef name nsp ps body _ _ _ :: rest, sigs, f => by
      simp only [predeclare, blockFns, findSig_map]
      cases h : findFn sigs name with
      | some ex => simp only [Option.map_some, Option.isSome_some, if_true]; exact predeclare_sigs env rest sigs f
      | none =>
        simp only [Option.map_none, Option.isSome_none]
        rw [predeclare_sigs env rest]
        simp [sigKey]
  | .assign .. :: rest, sigs, f => by simp only [predeclare, blockFns]; exact predeclare_sigs env rest sigs f
  | .assignExisting .. :: rest, sigs, f => by simp only [predeclare, blockFns]; exact predeclare_sigs env rest sigs f
  | .assignIndex .. :: rest, sigs, f => by simp only [predeclare, blockFns]; exact predeclare_sigs env rest sigs f
  | .ifS .. :: rest, sigs, f => by simp only [predeclare, blockFns]; exact predeclare_sigs env rest sigs f
  | .loop .. :: rest, sigs, f => by simp only [predeclare, blockFns]; exact predeclare_sigs env rest sigs f
  | .block .. :: rest, sigs, f => by simp only [predeclare, blockFns]; exact predeclare_sigs env rest sigs f
  | .ret .. :: rest, sigs, f => by simp only [predeclare, blockFns]; exact predeclare_sigs env rest sigs f
  | .brk .. :: rest, sigs, f => by simp only [predeclare, blockFns]; exact predeclare_sigs env rest sigs f
  | .cont .. :: rest, sigs, f => by simp only [predeclare, blockFns]; exact predeclare_sigs env rest sigs f
  | .expr .. :: rest, sigs, f => by simp only [predeclare, blockFns]; exact predeclare_sigs env rest sigs f

theorem modifyAt_map_key {α β : Type} (key : α → β) (g : α → α) (hk : ∀ a, key (g a) = key a) :
    ∀ (l : List α) (i : Nat), (modifyAt l i g).map key = l.map key
  | [], _ => by simp [modifyAt]
  | a :: as, 0 => by simp [modifyAt, hk]
  | a :: as, n + 1 => by simp [modifyAt, modifyAt_map_key key g hk as n]

theorem retPass_keys (env : Env) (makes : List Bytes) :
    ∀ (bodies : List (List Param × Block)) (i : Nat) (sigs : List FnSig) (ch : Bool),
    (retPass env makes bodies i sigs ch).1.map sigKey = sigs.map sigKey
  | [], _, _, _ => by simp [retPass]
  | (ps, body) :: bs, i, sigs, ch => by
      simp only [retPass]
      split
      · split
        · exact retPass_keys env makes bs _ _ _
        · rw [retPass_keys env makes bs]
          apply modifyAt_map_key; intro a; rfl
      · exact retPass_keys env makes bs _ _ _

theorem retIter_keys (env : Env) (makes : List Bytes) (bodies : List (List Param × Block)) :
    ∀ (n : Nat) (sigs : List FnSig), (retIter env makes bodies n sigs).map sigKey = sigs.map sigKey
  | 0, _ => by simp [retIter]
  | n + 1, sigs => by
      simp only [retIter]
      split
      · rw [retIter_keys env makes bodies n, retPass_keys]
      · rw [retPass_keys]

/-! ### Statements and blocks -/

/-- Names of the function definitions among the statements. -/
def fnNames : List Stmt → List Bytes
  | [] => []
  | .fnDef name _ _ _ _ _ _ :: rest => name :: fnNames rest
  | _ :: rest => fnNames rest

/-- The current block's function scope knows the name. -/
def ownHas (env : Env) (name : Bytes) : Bool :=
  match env.fns with
  | own :: _ => (findFn own name).isSome
  | [] => false

theorem findSig_blockFns_mono : ∀ (ss : List Stmt) (acc : List (Bytes × Nat)) (x : Bytes),
    (findSig acc x).isSome → (findSig (blockFns ss acc) x).isSome
  | [], _, _, h => by simpa [blockFns] using h
  | .fnDef name _ ps _ _ _ _ :: rest, acc, x, h => by
      simp only [blockFns]
      split
      · exact findSig_blockFns_mono rest acc x h
      · apply findSig_blockFns_mono rest
        simp only [findSig, List.find?_append] at h ⊢
        cases hh : List.find? (fun p => p.1 == x) acc <;> simp_all
  | .assign .. :: rest, acc, x, h => by simp only [blockFns]; exact findSig_blockFns_mono rest acc x h
  | .assignExisting .. :: rest, acc, x, h => by simp only [blockFns]; exact findSig_blockFns_mono rest acc x h
  | .assignIndex .. :: rest, acc, x, h => by simp only [blockFns]; exact findSig_blockFns_mono rest acc x h
  | .ifS .. :: rest, acc, x, h => by simp only [blockFns]; exact findSig_blockFns_mono rest acc x h
  | .loop .. :: rest, acc, x, h => by simp only [blockFns]; exact findSig_blockFns_mono rest acc x h
  | .block .. :: rest, acc, x, h => by simp only [blockFns]; exact findSig_blockFns_mono rest acc x h
  | .ret .. :: rest, acc, x, h => by simp only [blockFns]; exact findSig_blockFns_mono rest acc x h
  | .brk .. :: rest, acc, x, h => by simp only [blockFns]; exact findSig_blockFns_mono rest acc x h
  | .cont .. :: rest, acc, x, h => by simp only [blockFns]; exact findSig_blockFns_mono rest acc x h
  | .expr .. :: rest, acc, x, h => by simp only [blockFns]; exact findSig_blockFns_mono rest acc x h

theorem findSig_blockFns_has : ∀ (ss : List Stmt) (acc : List (Bytes × Nat)) (x : Bytes),
    x ∈ fnNames ss → (findSig (blockFns ss acc) x).isSome
  | [], _, _, h => by simp [fnNames] at h
  | .fnDef name _ ps _ _ _ _ :: rest, acc, x, h => by
      simp only [fnNames, List.mem_cons] at h
      simp only [blockFns]
      rcases h with rfl | h
      · split
        · next hh => exact findSig_blockFns_mono rest acc x hh
        · apply findSig_blockFns_mono rest
          simp only [findSig, List.find?_append]
          cases hh : List.find? (fun p => p.1 == x) acc <;> simp
      · split
        · exact findSig_blockFns_has rest acc x h
        · exact findSig_blockFns_has rest _ x h
  | .assign .. :: rest, acc, x, h => by simp only [blockFns]; exact findSig_blockFns_has rest acc x (by simpa [fnNames] using h)
  | .assignExisting .. :: rest, acc, x, h => by simp only [blockFns]; exact findSig_blockFns_has rest acc x (by simpa [fnNames] using h)
  | .assignIndex .. :: rest, acc, x, h => by simp only [blockFns]; exact findSig_blockFns_has rest acc x (by simpa [fnNames] using h)
  | .ifS .. :: rest, acc, x, h => by simp only [blockFns]; exact findSig_blockFns_has rest acc x (by simpa [fnNames] using h)
  | .loop .. :: rest, acc, x, h => by simp only [blockFns]; exact findSig_blockFns_has rest acc x (by simpa [fnNames] using h)
  | .block .. :: rest, acc, x, h => by simp only [blockFns]; exact findSig_blockFns_has rest acc x (by simpa [fnNames] using h)
  | .ret .. :: rest, acc, x, h => by simp only [blockFns]; exact findSig_blockFns_has rest acc x (by simpa [fnNames] using h)
  | .brk .. :: rest, acc, x, h => by simp only [blockFns]; exact findSig_blockFns_has rest acc x (by simpa [fnNames] using h)
  | .cont .. :: rest, acc, x, h => by simp only [blockFns]; exact findSig_blockFns_has rest acc x (by simpa [fnNames] using h)
  | .expr .. :: rest, acc, x, h => by simp only [blockFns]; exact findSig_blockFns_has rest acc x (by simpa [fnNames] using h)

theorem declareParams_names (sp : Bool) (owner scope : Nat) : ∀ (ps : List Param) (sc : Scope) (f : Facts),
    scopeNames (declareParams sp owner scope ps sc f).2.1 = (ps.map (·.name)).reverse ++ scopeNames sc
  | [], sc, f => by simp [declareParams]
  | p :: ps, sc, f => by
      simp only [declareParams]
      rw [declareParams_names sp owner scope ps]
      simp [scopeNames]

theorem updateTy_names : ∀ (s : Scope) (x : Bytes) (t : VType), scopeNames (updateTy s x t) = scopeNames s
  | [], _, _ => by simp [updateTy]
  | e :: es, x, t => by
      simp only [updateTy]
      split
      · simp [scopeNames]
      · have := updateTy_names es x t
        simp only [scopeNames, List.map_cons] at this ⊢
        rw [this]

/-- How a statement changes the block-local state, in terms of the specification's bookkeeping. -/
theorem checkStmt_cur (env : Env) (cur : Cur) (s : Stmt) (f : Facts)
    (hown : ∀ name, name ∈ fnNames [s] → ownHas env name = true) :
    scopeNames (checkStmt env cur s f).cur.vars = nextCur (scopeNames cur.vars) s ∧
    (checkStmt env cur s f).cur.seenFns = nextSeen cur.seenFns s := by
  cases s with
  | assign x xs e b sid sp =>
    simp only [checkStmt, nextCur, nextSeen]
    have hf := findVar_isSome cur.vars x
    cases h : findVar cur.vars x with
    | some ent =>
      have hc : (scopeNames cur.vars).contains x = true := by rw [← hf, h]; rfl
      simp only [hc, if_true, updateTy_names, and_self]
    | none =>
      have hc : (scopeNames cur.vars).contains x = false := by rw [← hf, h]; rfl
      simp only [hc, Bool.false_eq_true, if_false]
      simp [scopeNames]
  | assignExisting x xs e b sid sp =>
    simp only [checkStmt, nextCur, nextSeen]; split <;> simp
  | fnDef name nsp ps body fn sid sp =>
    have ho := hown name (by simp [fnNames])
    simp only [checkStmt, nextCur, nextSeen]
    by_cases hs : name ∈ cur.seenFns
    · simp [hs]
    · unfold ownHas at ho
      split at ho
      · next own rest heq =>
        rw [heq]
        cases hg : findFn own name with
        | some g => simp only [hg]; simp [hs]
        | none => simp [hg] at ho
      · simp at ho
  | ret e sid sp => simp only [checkStmt, nextCur, nextSeen]; split <;> simp
  | assignIndex _ _ _ _ => simp [checkStmt, nextCur, nextSeen]
  | ifS _ _ _ _ _ => simp [checkStmt, nextCur, nextSeen]
  | loop _ _ _ _ => simp [checkStmt, nextCur, nextSeen]
  | block _ _ _ => simp [checkStmt, nextCur, nextSeen]
  | brk _ _ => simp [checkStmt, nextCur, nextSeen]
  | cont _ _ => simp [checkStmt, nextCur, nextSeen]
  | expr _ _ _ => simp [checkStmt, nextCur, nextSeen]

theorem fnNames_cons_sub (s : Stmt) (ss : List Stmt) (x : Bytes) : x ∈ fnNames [s] → x ∈ fnNames (s :: ss) := by
  cases s <;> simp [fnNames]
  intro h; exact Or.inl h

theorem fnNames_tail_sub (s : Stmt) (ss : List Stmt) (x : Bytes) : x ∈ fnNames ss → x ∈ fnNames (s :: ss) := by
  cases s <;> simp [fnNames]
  intro h; exact Or.inr h

/-- The context in which the expressions of a statement are checked. -/
theorem exprCtx_ok (env : Env) (cur : Scope) :
    ({ absCtx env with vars := scopeNames cur :: (absCtx env).vars } : Ctx).vars = absVars (cur :: env.vars)
    ∧ ({ absCtx env with vars := scopeNames cur :: (absCtx env).vars } : Ctx).fns = absFns env.fns := by
  simp [absCtx, absVars]

theorem findFn_isSome_of_keys (sigs : List FnSig) (t : List (Bytes × Nat)) (h : sigs.map sigKey = t)
    (x : Bytes) (hx : (findSig t x).isSome = true) : (findFn sigs x).isSome = true := by
  subst h; rw [findSig_map] at hx; simpa using hx

mutual
  theorem checkStmt_scope (env : Env) (cur : Cur) :
      ∀ (s : Stmt) (f : Facts), (∀ name, name ∈ fnNames [s] → ownHas env name = true) →
        scopeDs (checkStmt env cur s f).ds = stmtV (absCtx env) (scopeNames cur.vars) cur.seenFns s
    | .assign x xs e _ _ sp, f, _ => by
        have he := checkExpr_scope env cur.vars f.stmtEffects.length _ (exprCtx_ok env cur.vars).1
          (exprCtx_ok env cur.vars).2 e
        simp only [checkStmt, stmtV]
        split <;> simp [scopeDs_errIf, Rule.isScoping, he]
    | .assignExisting x xs e _ _ sp, f, _ => by
        have he := checkExpr_scope env cur.vars f.stmtEffects.length _ (exprCtx_ok env cur.vars).1
          (exprCtx_ok env cur.vars).2 e
        have hd := lookupVar_isSome env cur.vars x
        simp only [checkStmt, stmtV]
        cases h : lookupVar env cur.vars x with
        | some ent =>
          simp only [h, Option.isSome_some] at hd
          have hd' : declared (scopeNames cur.vars :: (absCtx env).vars) x = true := by
            rw [hd]; simp [absCtx, absVars]
          simp [hd', vIf, he]
        | none =>
          simp only [h, Option.isSome_none] at hd
          have hd' : declared (scopeNames cur.vars :: (absCtx env).vars) x = false := by
            rw [hd]; simp [absCtx, absVars]
          simp [hd', vIf, he, scopeDs_cons, RDiag.at, Rule.isScoping]
    | .assignIndex t e _ sp, f, _ => by
        have ht := checkExpr_scope env cur.vars f.stmtEffects.length _ (exprCtx_ok env cur.vars).1
          (exprCtx_ok env cur.vars).2 t
        have he := checkExpr_scope env cur.vars f.stmtEffects.length _ (exprCtx_ok env cur.vars).1
          (exprCtx_ok env cur.vars).2 e
        simp [checkStmt, stmtV, ht, he, scopeDs_errIf, Rule.isScoping]
    | .ifS c t e _ sp, f, _ => by
        have hc := checkExpr_scope env cur.vars f.stmtEffects.length _ (exprCtx_ok env cur.vars).1
          (exprCtx_ok env cur.vars).2 c
        simp only [checkStmt, stmtV, scopeDs_append, scopeDs_errIf, Rule.isScoping, hc]
        rw [checkBlock_scope _ _ t, checkOptBlock_scope _ _ e]
        simp [absCtx, absVars]
    | .loop c b _ sp, f, _ => by
        have hc := checkExpr_scope env cur.vars f.stmtEffects.length _ (exprCtx_ok env cur.vars).1
          (exprCtx_ok env cur.vars).2 c
        simp only [checkStmt, stmtV, scopeDs_append, scopeDs_errIf, Rule.isScoping, hc]
        rw [checkBlock_scope _ _ b]
        simp [absCtx, absVars]
    | .block b _ sp, f, _ => by
        simp only [checkStmt, stmtV]
        rw [checkBlock_scope _ _ b]
        simp [absCtx, absVars]
    | .fnDef name nsp ps body _ _ sp, f, hown => by
        have ho := hown name (by simp [fnNames])
        simp only [checkStmt, stmtV]
        by_cases hs : name ∈ cur.seenFns
        · simp [hs]
        · unfold ownHas at ho
          split at ho
          · next own rest heq =>
            rw [heq]
            cases hg : findFn own name with
            | some g =>
              simp only [hg]
              simp only [hs, List.contains_iff_mem, if_false]
              rw [checkBlock_scope _ _ body]
              simp [absCtx, absVars, declareParams_names, ← heq, show scopeNames [] = [] from rfl]
            | none => simp [hg] at ho
          · simp at ho
    | .ret e _ sp, f, _ => by
        simp only [checkStmt, stmtV]
        cases e with
        | some e =>
          have he := checkExpr_scope env cur.vars f.stmtEffects.length _ (exprCtx_ok env cur.vars).1
            (exprCtx_ok env cur.vars).2 e
          simp [scopeDs_errIf, Rule.isScoping, he, absCtx]
        | none => simp [scopeDs_errIf, Rule.isScoping, absCtx]
    | .brk _ sp, f, _ => by simp [checkStmt, stmtV, scopeDs_errIf, Rule.isScoping, absCtx]
    | .cont _ sp, f, _ => by simp [checkStmt, stmtV, scopeDs_errIf, Rule.isScoping, absCtx]
    | .expr e _ sp, f, _ => by
        have he := checkExpr_scope env cur.vars f.stmtEffects.length _ (exprCtx_ok env cur.vars).1
          (exprCtx_ok env cur.vars).2 e
        simp [checkStmt, stmtV, he]
  theorem checkStmts_scope (env : Env) :
      ∀ (ss : List Stmt) (cur : Cur) (f : Facts), (∀ name, name ∈ fnNames ss → ownHas env name = true) →
        scopeDs (checkStmts env cur ss f).ds = stmtsV (absCtx env) (scopeNames cur.vars) cur.seenFns ss
    | [], cur, f, _ => by simp [checkStmts, stmtsV]
    | s :: ss, cur, f, h => by
        have h1 : ∀ name, name ∈ fnNames [s] → ownHas env name = true :=
          fun n hn => h n (fnNames_cons_sub s ss n hn)
        have h2 : ∀ name, name ∈ fnNames ss → ownHas env name = true :=
          fun n hn => h n (fnNames_tail_sub s ss n hn)
        have hc := checkStmt_cur env cur s f h1
        simp only [checkStmts, stmtsV, scopeDs_append]
        rw [checkStmt_scope env cur s f h1, checkStmts_scope env ss _ _ h2, hc.1, hc.2]
  theorem checkBlock_scope (env : Env) (parent : Option Nat) :
      ∀ (b : Block) (f : Facts), scopeDs (checkBlock env parent b f).ds = blockV (absCtx env) b
    | .mk ss sp, f => by
        simp only [checkBlock, blockV, scopeDs_append]
        rw [predeclare_scope _ ss [] _ [] (by intro x; simp [findFn])]
        rw [checkStmts_scope _ ss]
        · simp [absCtx, absFns, retIter_keys, predeclare_sigs, scopeNames]
        · intro name hn
          simp only [ownHas]
          have := findSig_blockFns_has ss [] name hn
          apply findFn_isSome_of_keys _ (blockFns ss []) _ name this
          rw [retIter_keys, predeclare_sigs]; rfl
  theorem checkOptBlock_scope (env : Env) (parent : Option Nat) :
      ∀ (b : Option Block) (f : Facts), scopeDs (checkOptBlock env parent b f).ds = optBlockV (absCtx env) b
    | none, f => by simp [checkOptBlock, optBlockV]
    | some b, f => by
        simp only [checkOptBlock, optBlockV]
        exact checkBlock_scope env parent b f
end

/-- **Scoping correspondence**: the diagnostics of the scoping rules that the resolver model emits
are exactly the violations listed by the declarative specification, in the same order and at the
same spans, for every program. -/
theorem resolve_scope (spanLen : Bool) (p : Block) :
    scopeDs (resolveWith spanLen p).rdiags = scopeViolations p := by
  simp only [resolveWith, scopeViolations]
  rw [checkBlock_scope]
  rfl

end NaijaVerif.Resolve
