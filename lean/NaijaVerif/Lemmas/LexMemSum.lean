import NaijaVerif.Lemmas.LexMem
/-
From one string token to the whole token stream:

* `bufLoop_sync`: the buffer loop (`Model/LexMem.lean`) and the content loop (`Model/Lex.lean`) walk
  the text in lock step — same cursor, same `has_escape`;
* `step_str_owned`: an owned string token of `next_token` is a `scan_string` behind some whitespace;
* `lexGo_caps`: the potential argument — the capacities handed out from a cursor on are paid for by
  the bytes still to be read.
-/
namespace NaijaVerif.Lex
open NaijaVerif NaijaVerif.Utf8

/-! ## the two loops agree on cursor and `has_escape` -/

theorem bufLoop_sync (hint : Nat → Bytes → Nat → Nat → Nat) (start q : Nat) :
    ∀ (f : Nat) (c : Cur) (buf : Bytes) (esc : Bool) (ds : List Diag) (off : Nat) (b : Buf),
      (scanStrLoop start q f c buf esc ds).cur.rest = (bufLoop hint q f c.rest off esc b).rest ∧
      (scanStrLoop start q f c buf esc ds).escaped = (bufLoop hint q f c.rest off esc b).owned := by
  intro f
  induction f with
  | zero => intro c buf esc ds off b; exact ⟨rfl, rfl⟩
  | succ f ih =>
    intro c buf esc ds off b
    simp only [scanStrLoop, bufLoop]
    by_cases hnl : (c.rest.takeWhile notNl).length < (c.rest.takeWhile (notQuoteEsc q)).length
    · simp [hnl, Cur.adv]
    · simp only [hnl, if_false]
      cases hdw : c.rest.dropWhile (notQuoteEsc q) with
      | nil => exact ⟨rfl, rfl⟩
      | cons x after =>
        simp only []
        by_cases hx : (x == q) = true
        · simp [hx]
        · simp only [hx]
          cases after with
          | nil => exact ⟨rfl, rfl⟩
          | cons e tl =>
            simp only []
            cases he : escapeOf q e with
            | some y => simp only []; exact ih _ _ _ _ _ _
            | none => simp only []; exact ih _ _ _ _ _ _

/-! ## which tokens are owned strings -/

theorem isOwnedStr_isStr {t : SpTok} (h : isOwnedStr t = true) : t.tok.isStr = true := by
  obtain ⟨tok, sp⟩ := t
  cases tok <;> simp_all [isOwnedStr, Tok.isStr]

theorem scanWord_not_str (c : Cur) : (scanWord c).1.isStr = false := by
  simp only [scanWord]
  split
  next alts hl =>
    have hm := lookup_mem _ _ _ hl
    split
    next t c' ha =>
      obtain ⟨a, haa, rfl⟩ := tryAlts_tok _ _ _ _ ha
      exact multiWord_not_str _ hm a haa
    · rfl
  · split
    next t hk => exact kwTable_not_str _ (lookup_mem _ _ _ hk)
    · rfl

/-- an owned string token of `next_token`: whitespace, an opening quote `q`, `scan_string` -/
theorem step_str_owned {c c' : Cur} {t : SpTok} {ds : List Diag}
    (hs : step c = .tok t c' ds) (ho : isOwnedStr t = true) :
    ∃ q body, (q = 34 ∨ q = 39) ∧ (skipWs c).rest = q :: body ∧ t.span.lo = (skipWs c).pos ∧
      c' = (scanString (skipWs c).pos q ⟨(skipWs c).pos + 1, body⟩).cur ∧
      (scanString (skipWs c).pos q ⟨(skipWs c).pos + 1, body⟩).escaped = true := by
  have hstr := isOwnedStr_isStr ho
  simp only [step] at hs
  split at hs
  · cases hs
  next b r hr =>
    split at hs
    · cases hs
    · split at hs
      next hqc =>
        injection hs with h1 h2 h3
        subst h1 h2
        refine ⟨b, r, ?_, hr, rfl, rfl, ?_⟩
        · simpa [quoteChars] using hqc
        · cases hsc : (scanString (skipWs c).pos b ⟨(skipWs c).pos + 1, r⟩).escaped with
          | true => rfl
          | false => simp [isOwnedStr, hsc] at ho
      · split at hs
        next tk hp =>
          injection hs with h1 h2 h3
          subst h1
          have := punctTable_not_str _ (lookup_mem _ _ _ hp)
          simp only [] at hstr this
          rw [this] at hstr; cases hstr
        · split at hs
          · split at hs
            · injection hs with h1 h2 h3
              subst h1
              simp [Tok.isStr] at hstr
            · cases hs
          · split at hs
            · injection hs with h1 h2 h3
              subst h1
              have := scanWord_not_str (skipWs c)
              simp only [] at hstr
              rw [this] at hstr; cases hstr
            · split at hs <;> cases hs

/-! ## the token stream -/

theorem lexGo_toks_eof {f : Nat} {c : Cur} {p : Nat} (h : step c = .eof p) : (lexGo (f + 1) c).1 = [] := by
  simp [lexGo, h]
theorem lexGo_toks_skip {f : Nat} {c c' : Cur} {ds : List Diag} (h : step c = .skip c' ds) :
    (lexGo (f + 1) c).1 = (lexGo f c').1 := by
  simp [lexGo, h]
theorem lexGo_toks_tok {f : Nat} {c c' : Cur} {t : SpTok} {ds : List Diag} (h : step c = .tok t c' ds) :
    (lexGo (f + 1) c).1 = t :: (lexGo f c').1 := by
  simp [lexGo, h]

theorem capsOf_cons (cap : Bytes → Nat → Nat) (src : Bytes) (t : SpTok) (ts : List SpTok) :
    capsOf cap src (t :: ts) = if isOwnedStr t then cap src t.span.lo :: capsOf cap src ts else capsOf cap src ts := by
  simp only [capsOf, List.filter_cons]
  split <;> simp

theorem isOwnedStr_eofTok (ts : List SpTok) : isOwnedStr (eofTok ts) = false := by
  unfold eofTok; split <;> rfl

theorem capsOf_lex (cap : Bytes → Nat → Nat) (src : Bytes) :
    capsOf cap src (lex src).1 = capsOf cap src (lexGo (src.length + 1) ⟨0, src⟩).1 := by
  simp [capsOf, lex, lexIter, List.filter_append, isOwnedStr_eofTok]

/-- a later cursor reads a suffix of what an earlier one reads -/
theorem rest_suffix {src : Bytes} {c c' : Cur} (hc : c.Ok src) (hc' : c'.Ok src) (h : c.pos ≤ c'.pos) :
    c'.rest = c.rest.drop (c'.pos - c.pos) := by
  rw [hc.1, hc'.1, List.drop_drop]
  congr 1; omega

/-! ## the potential -/

/-- one share of the bytes left for the buffers' doubling, one more for each kind of quote that can
still open a string that runs into the end of input -/
def pot (r : Bytes) : Nat :=
  r.length + r.length + (if 34 ∈ r ∧ 39 ∈ r then r.length else 0)

/-- the same when the only backslash left is the last byte: reservations are exact -/
def potTail (r : Bytes) : Nat :=
  (if 34 ∈ r then r.length else 0) + (if 39 ∈ r then r.length else 0)

/-- case split on which quote characters are still ahead -/
macro "potcases" r:ident r':ident h34:ident h39:ident : tactic => `(tactic|
  (by_cases a : 34 ∈ $r' <;> by_cases b : 39 ∈ $r' <;> by_cases a' : 34 ∈ $r <;> by_cases b' : 39 ∈ $r <;>
    simp only [a, b, a', b', and_self, and_true, true_and, and_false, false_and, if_true, if_false] at * <;>
    first
      | omega
      | exact absurd ($h34 a) a'
      | exact absurd ($h39 b) b'
      | contradiction))

section
variable {r r' : Bytes} {q cap S : Nat}

theorem pot_mono (hsub : ∀ x, x ∈ r' → x ∈ r) (hlen : r'.length ≤ r.length) :
    pot r' ≤ pot r ∧ potTail r' ≤ potTail r := by
  have h34 := hsub 34
  have h39 := hsub 39
  unfold pot potTail
  potcases r r' h34 h39

/-- a string token that ends regularly pays with its own extent -/
theorem pot_normal (hq : q = 34 ∨ q = 39) (hqr : q ∈ r) (hsub : ∀ x, x ∈ r' → x ∈ r) (_hlen : r'.length ≤ r.length)
    (hcap : cap + 2 * r'.length ≤ 2 * r.length) (hS : S ≤ pot r') : cap + S ≤ pot r := by
  have h34 := hsub 34
  have h39 := hsub 39
  unfold pot at *
  rcases hq with rfl | rfl <;> potcases r r' h34 h39

/-- a string token that runs into the end of input uses up its quote character -/
theorem pot_eof (hq : q = 34 ∨ q = 39) (hqr : q ∈ r) (hqr' : q ∉ r') (hsub : ∀ x, x ∈ r' → x ∈ r)
    (hlen : r'.length ≤ r.length) (hcap : cap ≤ 2 * r.length) (hS : S ≤ potTail r') : cap + S ≤ pot r := by
  have h34 := hsub 34
  have h39 := hsub 39
  unfold pot potTail at *
  rcases hq with rfl | rfl <;> potcases r r' h34 h39

theorem potTail_eof (hq : q = 34 ∨ q = 39) (hqr : q ∈ r) (hqr' : q ∉ r') (hsub : ∀ x, x ∈ r' → x ∈ r)
    (hlen : r'.length ≤ r.length) (hcap : cap + 1 ≤ r.length) (hS : S ≤ potTail r') : cap + S ≤ potTail r := by
  have h34 := hsub 34
  have h39 := hsub 39
  unfold potTail at *
  rcases hq with rfl | rfl <;> potcases r r' h34 h39

end

theorem pot_le (r : Bytes) : pot r ≤ 3 * r.length := by
  unfold pot; split <;> omega

/-! ## one owned string token, seen from the token stream -/

/-- everything the sum and the per-token theorems need about one owned string token -/
structure TokBuf (src : Bytes) (c c' : Cur) (t : SpTok) (q : Nat) (body : Bytes) : Prop where
  quote : q = 34 ∨ q = 39
  at_lo : src.drop t.span.lo = q :: body
  /-- the opening quote is in front of the cursor, behind whitespace only -/
  mem : q ∈ c.rest
  room : 1 + body.length ≤ c.rest.length
  suffix : ∃ k, q :: body = c.rest.drop k
  first : First q body (strBuf hintFixed src t.span.lo)
  owned : (strBuf hintFixed src t.span.lo).owned = true
  rest : c'.rest = (strBuf hintFixed src t.span.lo).rest

theorem tokBuf {src : Bytes} {c c' : Cur} {t : SpTok} {ds : List Diag} (hc : c.Ok src)
    (hs : step c = .tok t c' ds) (ho : isOwnedStr t = true) : ∃ q body, TokBuf src c c' t q body := by
  obtain ⟨q, body, hq, hr, hlo, hc', hesc⟩ := step_str_owned hs ho
  have hw := skipWs_ok hc
  have hsuf := rest_suffix hc hw.1 hw.2
  have hat : src.drop t.span.lo = q :: body := by rw [hlo, ← hw.1.1, hr]
  have hsync := bufLoop_sync hintFixed (skipWs c).pos q (body.length + 1) ⟨(skipWs c).pos + 1, body⟩ [] false [] 0 ⟨0, 0⟩
  have hbuf : strBuf hintFixed src t.span.lo = bufLoop hintFixed q (body.length + 1) body 0 false ⟨0, 0⟩ := by
    simp only [strBuf, hat]
  have hlen : c.rest.length = (c.rest.take ((skipWs c).pos - c.pos)).length + (q :: body).length := by
    have := congrArg List.length (List.take_append_drop ((skipWs c).pos - c.pos) c.rest)
    rw [← hsuf, hr, List.length_append] at this
    exact this.symm
  refine ⟨q, body, hq, hat, ?_, ?_, ⟨_, by rw [← hr]; exact hsuf⟩, ?_, ?_, ?_⟩
  · have : q ∈ (skipWs c).rest := by rw [hr]; simp
    rw [hsuf] at this
    exact List.mem_of_mem_drop this
  · simp only [List.length_cons] at hlen; omega
  · rw [hbuf]; exact bufLoop_first q _ body (by omega)
  · rw [hbuf, ← hsync.2]; exact hesc
  · rw [hbuf, ← hsync.1, hc']; rfl

/-! ## the sum -/

/-- **the potential argument**: the capacities handed out from cursor `c` on are at most `pot c.rest` -/
theorem lexGo_caps {src : Bytes} : ∀ (f : Nat) (c : Cur), c.Ok src →
    (capsOf strCap src (lexGo f c).1).sum ≤ pot c.rest ∧
    (Tail c.rest → (capsOf strCap src (lexGo f c).1).sum ≤ potTail c.rest) := by
  intro f
  induction f with
  | zero => intro c _; simp [lexGo, capsOf]
  | succ f ih =>
    intro c hc
    have hok := step_ok hc
    cases hs : step c with
    | eof p => rw [lexGo_toks_eof hs]; simp [capsOf]
    | skip c' ds =>
      rw [hs] at hok
      rw [lexGo_toks_skip hs]
      have hsuf := rest_suffix hc hok.1 (Nat.le_of_lt hok.2.1)
      have hsub : ∀ x, x ∈ c'.rest → x ∈ c.rest := by
        intro x hx; rw [hsuf] at hx; exact List.mem_of_mem_drop hx
      have hlen : c'.rest.length ≤ c.rest.length := by rw [hsuf, List.length_drop]; omega
      have hm := pot_mono hsub hlen
      have := ih c' hok.1
      refine ⟨by omega, fun ht => ?_⟩
      have := this.2 (by rw [hsuf]; exact ht.drop _)
      omega
    | tok t c' ds =>
      rw [hs] at hok
      rw [lexGo_toks_tok hs, capsOf_cons]
      have hsuf := rest_suffix hc hok.1 (Nat.le_of_lt hok.2.1)
      have hsub : ∀ x, x ∈ c'.rest → x ∈ c.rest := by
        intro x hx; rw [hsuf] at hx; exact List.mem_of_mem_drop hx
      have hlen : c'.rest.length ≤ c.rest.length := by rw [hsuf, List.length_drop]; omega
      have hm := pot_mono hsub hlen
      have hih := ih c' hok.1
      have htl : Tail c.rest → Tail c'.rest := fun ht => by rw [hsuf]; exact ht.drop _
      split
      next ho =>
        obtain ⟨q, body, tb⟩ := tokBuf hc hs ho
        have hcap : strCap src t.span.lo = (strBuf hintFixed src t.span.lo).cap := rfl
        simp only [List.sum_cons, hcap]
        have hrl : c'.rest.length = (strBuf hintFixed src t.span.lo).rest.length := by rw [tb.rest]
        cases hat : (strBuf hintFixed src t.span.lo).atEof with
        | false =>
          have hn := tb.first.normal tb.owned hat
          have hrr := tb.first.rest_le
          have hroom := tb.room
          refine ⟨pot_normal tb.quote tb.mem hsub hlen (by omega) hih.1, fun ht => ?_⟩
          obtain ⟨k, hk⟩ := tb.suffix
          have : Tail (q :: body) := by rw [hk]; exact ht.drop _
          have : Tail body := Tail.suffix (p := [q]) this
          have := (tb.first.tail tb.owned this).1
          rw [hat] at this; cases this
        | true =>
          have he := tb.first.eof tb.owned hat
          have hroom := tb.room
          have hq' : q ∉ c'.rest := by rw [tb.rest]; exact he.2.1
          have ht' : Tail c'.rest := by rw [tb.rest]; exact he.2.2
          have hS := hih.2 ht'
          refine ⟨pot_eof tb.quote tb.mem hq' hsub hlen (by omega) hS, fun ht => ?_⟩
          obtain ⟨k, hk⟩ := tb.suffix
          have : Tail (q :: body) := by rw [hk]; exact ht.drop _
          have : Tail body := Tail.suffix (p := [q]) this
          have := (tb.first.tail tb.owned this).2
          exact potTail_eof tb.quote tb.mem hq' hsub hlen (by omega) hS
      next ho =>
        refine ⟨by omega, fun ht => ?_⟩
        have := hih.2 (htl ht)
        omega

/-! ## one token at a time, in positions -/

/-- the per-token bound in terms of the token's span -/
structure TokCap (src : Bytes) (t : SpTok) : Prop where
  span : t.span.lo < t.span.hi ∧ t.span.hi ≤ src.length
  quote : ∃ q, (q = 34 ∨ q = 39) ∧ src[t.span.lo]? = some q
  normal : strAtEof src t.span.lo = false → strCap src t.span.lo ≤ 2 * (t.span.hi - t.span.lo)
  eof : strAtEof src t.span.lo = true → strCap src t.span.lo ≤ 2 * (src.length - t.span.lo) ∧
    ∀ q, src[t.span.lo]? = some q → q ∉ src.drop t.span.hi

theorem tokCap_of_step {src : Bytes} {c c' : Cur} {t : SpTok} {ds : List Diag} (hc : c.Ok src)
    (hs : step c = .tok t c' ds) (ho : isOwnedStr t = true) : TokCap src t := by
  have hok := step_ok hc
  rw [hs] at hok
  obtain ⟨hc', _, _, _, _, hhi, _⟩ := hok
  obtain ⟨q, body, tb⟩ := tokBuf hc hs ho
  have hlen' := hc'.len
  have hrl : c'.rest.length = (strBuf hintFixed src t.span.lo).rest.length := by rw [tb.rest]
  have hdl := congrArg List.length tb.at_lo
  simp only [List.length_drop, List.length_cons] at hdl
  have hq : src[t.span.lo]? = some q := by
    have := congrArg (·[0]?) tb.at_lo
    simpa using this
  have hrr := tb.first.rest_le
  refine ⟨by omega, ⟨q, tb.quote, hq⟩, ?_, ?_⟩
  · intro hat
    have := tb.first.normal tb.owned hat
    show (strBuf hintFixed src t.span.lo).cap ≤ _
    omega
  · intro hat
    have := tb.first.eof tb.owned hat
    refine ⟨by show (strBuf hintFixed src t.span.lo).cap ≤ _; omega, ?_⟩
    intro q' hq'
    rw [hq] at hq'
    injection hq' with hq'
    subst hq'
    rw [hhi, ← hc'.1, tb.rest]
    exact this.2.1

theorem lexGo_tokCap {src : Bytes} : ∀ (f : Nat) (c : Cur), c.Ok src →
    ∀ t ∈ (lexGo f c).1, isOwnedStr t = true → TokCap src t := by
  intro f
  induction f with
  | zero => intro c _ t ht; simp [lexGo] at ht
  | succ f ih =>
    intro c hc t ht ho
    have hok := step_ok hc
    cases hs : step c with
    | eof p => rw [lexGo_toks_eof hs] at ht; cases ht
    | skip c' ds =>
      rw [hs] at hok
      rw [lexGo_toks_skip hs] at ht
      exact ih c' hok.1 t ht ho
    | tok t' c' ds =>
      rw [hs] at hok
      rw [lexGo_toks_tok hs] at ht
      rcases List.mem_cons.mp ht with rfl | ht
      · exact tokCap_of_step hc hs ho
      · exact ih c' hok.1 t ht ho

theorem mem_lex_owned {src : Bytes} {t : SpTok} (ht : t ∈ (lex src).1) (ho : isOwnedStr t = true) :
    t ∈ (lexGo (src.length + 1) ⟨0, src⟩).1 := by
  simp only [lex, lexIter, List.mem_append, List.mem_singleton] at ht
  rcases ht with ht | rfl
  · exact ht
  · rw [isOwnedStr_eofTok] at ho; cases ho

/-- a byte at or after `p` is a member of `src.drop p` -/
theorem mem_drop_of_getElem? {src : Bytes} {p i q : Nat} (h : src[i]? = some q) (hp : p ≤ i) : q ∈ src.drop p := by
  have : (src.drop p)[i - p]? = some q := by
    rw [List.getElem?_drop, show p + (i - p) = i by omega]; exact h
  exact List.mem_of_getElem? this

end NaijaVerif.Lex
