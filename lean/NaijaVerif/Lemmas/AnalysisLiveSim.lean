import NaijaVerif.Lemmas.AnalysisLiveOk
import NaijaVerif.Lemmas.AnalysisRelStep
/-
The liveness simulation (T5): definitions and the expression level.

A pruned run is compared with the plain run.  The environments are related by `ERel` with one frame
per runtime scope; the frames of the running activation share the agreement set `A` (the locals
live at the current program point), the frames of suspended activations (`Γr`) stay as they were
when the activation made its call.  `ActOk` is what a running activation of function `f` may rely
on about the rest of the stack: every local a function reachable from `f` may read (write) through
a capture agrees (has its slot) in every suspended scope that declares it.
-/
namespace NaijaVerif.C03
open NaijaVerif NaijaVerif.Analysis NaijaVerif.AEval

variable {V : Type}

abbrev SigM := List (Option Nat × (Nat → Prop))

/-- Plan-independent and plan-dependent global facts about the setting. -/
structure LSetupOk (L : LSetup) : Prop where
  closed : ∀ i, (i, true) ∈ L.T → L.BR (L.c.fnOf i) = true → ∀ g ∈ L.c.callees i, L.BR g = true
  drop : ∀ g, L.BR g = true → L.cfg.dropFn g = false
  func : ∀ i, (i, true) ∈ L.T → (i, false) ∉ L.T
  liveT : ∀ i, (i, true) ∈ L.T → L.c.live i = true
  used : ∀ i, (i, true) ∈ L.T → L.BR (L.c.fnOf i) = true →
    (∀ x ∈ L.c.reads i, L.D2 x = false) ∧ ∀ g ∈ L.c.callees i, ∀ x ∈ L.c.transReads g, L.D2 x = false
  sumR : ∀ i, (i, true) ∈ L.T → ∀ g ∈ L.c.callees i, ∀ x ∈ L.c.transReads g, x ∈ L.c.transReads (L.c.fnOf i)
  sumW : ∀ i, (i, true) ∈ L.T → ∀ g ∈ L.c.callees i, ∀ x ∈ L.c.transWrites g, x ∈ L.c.transWrites (L.c.fnOf i)
  slOk : ∀ (b : List Stmt) x, x ∈ L.c.scopeLocalsOf b → ∃ tg, blockTag L.ss b = some tg ∧ L.ds x = some tg
  scOwn : ∀ x tg, L.ds x = some tg → L.scopeOwner tg = L.c.owner x

/-- What the running activation of `f` (scope chain `σ`) relies on about the suspended frames. -/
structure ActOk (L : LSetup) (f : Nat) (σ : SigM) (Γr : List Frame) : Prop where
  own : ∀ tg, some tg ∈ tagsOf σ → L.scopeOwner tg = some f
  susp : ∀ fr ∈ Γr, ∀ x tg, L.ds x = some tg → fr.tag = some tg →
    (x ∈ L.c.transReads f → fr.A x ∧ ¬ fr.M x) ∧ (x ∈ L.c.transWrites f → ¬ fr.M x)
  nodup : TagsNodup (tagsOf σ)

/-- While statement `i` of the running activation evaluates its expressions. -/
structure ExprCtx (L : LSetup) (f : Nat) (σ : SigM) (A : Nat → Prop) (i : Nat) : Prop where
  aReads : ∀ x ∈ L.c.reads i, A x
  aCallee : ∀ g ∈ L.c.callees i, ∀ x ∈ L.c.transReads g, L.c.owner x = some f → A x
  mOk : ∀ p ∈ σ, ∀ l, p.2 l → L.c.refFreeB l i = true
  inT : (i, true) ∈ L.T
  fn : L.c.fnOf i = f
  br : L.BR f = true

def FnsOkL (L : LSetup) (fns : List (List FnDef)) : Prop :=
  ∀ sc ∈ fns, ∀ fd ∈ sc, fnOkB L fd.id fd.params fd.body = true

/-- Invariant of the plain run: T1's invariant, and every registered function is well-formed for the
simulation. -/
def LInv (L : LSetup) (st : St V) : Prop :=
  Inv L.T st ∧ FnsOkL L st.fns

/-- Pruned state vs plain state. -/
def LRel (L : LSetup) (Γ : List Frame) (a b : St V) : Prop :=
  a.out = b.out ∧ a.fns = b.fns ∧ ERel L.ds Γ a.env b.env

def LOut {α : Type} (L : LSetup) (Γ : List Frame) (a b : R V α) : Prop :=
  Bad b.1 ∨ (a.1 = b.1 ∧ LRel L Γ a.2 b.2)

/-- What the simulation needs of an initialiser the plan may drop (`L.q`): in the plain run, from a
state whose registered functions are well-formed, evaluating it yields a value (or ends in one of the
excluded ways) and restores variables, function scopes and output. -/
def QuietIn (P : Prims V) (L : LSetup) : Prop :=
  ∀ (f : Nat) (e : Expr) (n : Nat) (st : St V), L.q f e = true → FnsOkL L st.fns →
    ((∃ v, (evalExpr P plain n e st).1 = .ok v) ∨ Bad (evalExpr P plain n e st).1) ∧
    (evalExpr P plain n e st).2.env = st.env ∧ (evalExpr P plain n e st).2.out = st.out ∧
    (evalExpr P plain n e st).2.fns = st.fns

theorem quietIn_of_quiet {P : Prims V} {L : LSetup} (h : ∀ f e, L.q f e = true → Quiet P e) : QuietIn P L := by
  intro f e n st hq _
  obtain ⟨h1, h2⟩ := h f e hq plain n st
  rw [h1]
  exact ⟨h2.elim Or.inl (fun hb => Or.inr hb.bad), rfl, rfl, rfl⟩

/-- The agreement set covers the live set (never-read locals excepted). -/
def Need (L : LSetup) (live : List Nat) (A : Nat → Prop) : Prop := ∀ x ∈ live, L.D2 x = false → A x

theorem findFrame_mem {tg : Nat} : ∀ {Γ : List Frame} {fr : Frame}, findFrame tg Γ = some fr → fr ∈ Γ ∧ fr.tag = some tg
  | [], _, h => by simp [findFrame] at h
  | g :: Γ, fr, h => by
      simp only [findFrame] at h
      split at h
      · next ht =>
        cases h
        exact ⟨by simp, by simpa using ht⟩
      · have := findFrame_mem h
        exact ⟨List.mem_cons_of_mem _ this.1, this.2⟩

theorem inTags_iff {L : LSetup} {σ : List (Option Nat)} {x : Nat} :
    L.inTags σ x = true ↔ ∃ tg, L.ds x = some tg ∧ some tg ∈ σ := by
  simp only [LSetup.inTags]
  cases L.ds x with
  | none => simp
  | some tg => simp

theorem refFree_reads {L : LSetup} {l j : Nat} (h : L.c.refFreeB l j = true) : l ∉ L.c.reads j := by
  simp only [Ctx.refFreeB, Bool.and_eq_true, Bool.not_eq_true', List.contains_eq_mem, decide_eq_false_iff_not] at h
  exact h.1.1

theorem refFree_writes {L : LSetup} {l j : Nat} (h : L.c.refFreeB l j = true) : l ∉ L.c.writes j := by
  simp only [Ctx.refFreeB, Bool.and_eq_true, Bool.not_eq_true', List.contains_eq_mem, decide_eq_false_iff_not] at h
  exact h.1.2

theorem refFree_callee {L : LSetup} {l j g : Nat} (h : L.c.refFreeB l j = true) (hg : g ∈ L.c.callees j) :
    l ∉ L.c.transReads g ∧ l ∉ L.c.transWrites g := by
  simp only [Ctx.refFreeB, Bool.and_eq_true, List.all_eq_true, Bool.not_eq_true', List.contains_eq_mem,
    decide_eq_false_iff_not] at h
  exact h.2 g hg

section fit
variable {L : LSetup} {f i : Nat} {σ : SigM} {Γr : List Frame} {A : Nat → Prop}

/-- The frame in which a variable the statement may refer to is looked for agrees on it. -/
theorem fit_frame (_hs : LSetupOk L) (ha : ActOk L f σ Γr) (hc : ExprCtx L f σ A i) {x tg : Nat}
    (hv : L.varFit f (tagsOf σ) i x = true) (hx : L.ds x = some tg) :
    ∀ fr, findFrame tg (mkTop A σ ++ Γr) = some fr → fr.A x ∧ ¬ fr.M x := by
  intro fr hfr
  simp only [LSetup.varFit] at hv
  split at hv
  · next hown =>
    simp only [Bool.and_eq_true, List.contains_eq_mem, decide_eq_true_eq] at hv
    obtain ⟨tg', htg', hin⟩ := inTags_iff.mp hv.2
    rw [hx] at htg'; cases htg'
    obtain ⟨M, hM, hff⟩ := findFrame_top (A := A) (Γr := Γr) hin
    rw [hff] at hfr; cases hfr
    exact ⟨hc.aReads x hv.1, fun hm => refFree_reads (hc.mOk _ hM x hm) hv.1⟩
  · simp only [Bool.and_eq_true, List.contains_eq_mem, decide_eq_true_eq, Bool.not_eq_true'] at hv
    have hnot : some tg ∉ tagsOf σ := by
      intro hin
      have : L.inTags (tagsOf σ) x = true := inTags_iff.mpr ⟨tg, hx, hin⟩
      rw [this] at hv; cases hv.2
    rw [findFrame_rest hnot] at hfr
    have hm := findFrame_mem hfr
    exact (ha.susp fr hm.1 x tg hx hm.2).1 hv.1

theorem fit_lookup (hs : LSetupOk L) (ha : ActOk L f σ Γr) (hc : ExprCtx L f σ A i) {x : Nat}
    (hv : L.varFit f (tagsOf σ) i x = true) {a b : List (Scope V)} (hr : ERel L.ds (mkTop A σ ++ Γr) a b) :
    lookupEnv L.ds x a = lookupEnv L.ds x b := by
  cases hx : L.ds x with
  | none => simp [lookupEnv, hx]
  | some tg => exact erel_lookup hr hx (fit_frame hs ha hc hv hx)

theorem gle_upd_addA {ds : Nat → Option Nat} {tg x : Nat} : ∀ Γ : List Frame, GLe ds Γ (updFrame tg (Frame.addA x) Γ)
  | [] => trivial
  | fr :: Γ => by
      simp only [updFrame]
      split
      · exact ⟨⟨rfl, fun y _ _ _ => ⟨Or.inl, id⟩⟩, GLe.refl ds Γ⟩
      · exact ⟨FLe.refl ds fr, gle_upd_addA Γ⟩

/-- Both runs store the same value into a variable the statement may refer to. -/
theorem fit_assign (hs : LSetupOk L) (ha : ActOk L f σ Γr) (hc : ExprCtx L f σ A i) {x : Nat} {v : V}
    (hv : L.varFit f (tagsOf σ) i x = true) {a b : List (Scope V)} (hr : ERel L.ds (mkTop A σ ++ Γr) a b) :
    ORel (ERel L.ds (mkTop A σ ++ Γr)) (assignEnv L.ds x v a) (assignEnv L.ds x v b) := by
  cases hx : L.ds x with
  | none => simp [assignEnv, hx, ORel]
  | some tg =>
    have := erel_assign (v := v) hx hr (fun fr hfr => (fit_frame hs ha hc hv hx fr hfr).2)
    cases ea : assignEnv L.ds x v a <;> cases eb : assignEnv L.ds x v b <;> simp only [ea, eb, ORel] at this ⊢
    exact erel_mono (gle_upd_addA _) this

end fit

/-! ### The simulation -/

/-- What the agreement set must cover after a statement list, by the way it ended. -/
def FlowNeed (L : LSetup) (lc : LoopCtx) (post : List Nat) (extra A' : Nat → Prop) : Except Err (Flow V) → Prop
  | .ok .normal => ∀ x, x ∈ post ∨ extra x → L.D2 x = false → A' x
  | .ok .brk => match lc.brk with
      | some bs => ∀ x, x ∈ dif bs lc.kills ∨ extra x → L.D2 x = false → A' x
      | none => True
  | .ok .cont => match lc.cont with
      | some bs => ∀ x, x ∈ dif bs lc.kills ∨ extra x → L.D2 x = false → A' x
      | none => True
  | .ok (.ret _) => True
  | .error _ => True

/-- Outcome of a statement (list) of the running activation: same result, the suspended frames
untouched, the activation's frames related by a new agreement set that covers what is live where the
execution continues. -/
def LOutF (L : LSetup) (σ : SigM) (Γr : List Frame) (lc : LoopCtx) (post : List Nat) (extra : Nat → Prop)
    (a b : R V (Flow V)) : Prop :=
  Bad b.1 ∨ (a.1 = b.1 ∧ ∃ A', LRel L (mkTop A' σ ++ Γr) a.2 b.2 ∧ FlowNeed L lc post extra A' b.1)

/-- The locals declared by the scope of block `b`. -/
def blockLocals (L : LSetup) (b : List Stmt) (x : Nat) : Prop := ∃ tg, blockTag L.ss b = some tg ∧ L.ds x = some tg

/-- Every local whose declaration was skipped in a scope of the activation is not referred to by
the statements still to be executed. -/
def MOkList (L : LSetup) (σ : SigM) (ss : List Stmt) : Prop := ∀ p ∈ σ, ∀ l, p.2 l → noRefListB L.c l ss = true
def MOkStmt (L : LSetup) (σ : SigM) (s : Stmt) : Prop := ∀ p ∈ σ, ∀ l, p.2 l → noRefB L.c l s = true

structure LSim (P : Prims V) (L : LSetup) (n : Nat) : Prop where
  expr : ∀ (e : Expr) (a b : St V) (f i : Nat) (σ : SigM) (Γr : List Frame) (A : Nat → Prop),
    L.efitList f (tagsOf σ) i [e] = true → ActOk L f σ Γr → ExprCtx L f σ A i →
    LRel L (mkTop A σ ++ Γr) a b → LInv L b →
    LOut L (mkTop A σ ++ Γr) (evalExpr P L.cfg n e a) (evalExpr P plain n e b) ∧ LInv L (evalExpr P plain n e b).2
  list : ∀ (es : List Expr) (a b : St V) (f i : Nat) (σ : SigM) (Γr : List Frame) (A : Nat → Prop),
    L.efitList f (tagsOf σ) i es = true → ActOk L f σ Γr → ExprCtx L f σ A i →
    LRel L (mkTop A σ ++ Γr) a b → LInv L b →
    LOut L (mkTop A σ ++ Γr) (evalList P L.cfg n es a) (evalList P plain n es b) ∧ LInv L (evalList P plain n es b).2
  block : ∀ (ss : List Stmt) (a b : St V) (f : Nat) (σ : SigM) (Γr : List Frame) (lc : LoopCtx) (post : LS) (A : Nat → Prop),
    ConsStmts L.T true ss → lokListB L f (blockTag L.ss ss :: tagsOf σ) lc ss post = true → L.blockOkB f (tagsOf σ) ss = true →
    L.BR f = true → ActOk L f σ Γr → MOkList L σ ss → Need L (lvStmts L.c f L.nl lc ss post).1.live A →
    LRel L (mkTop A σ ++ Γr) a b → LInv L b →
    LOutF L σ Γr lc post.live (blockLocals L ss) (execBlock P L.cfg n ss a) (execBlock P plain n ss b) ∧
      LInv L (execBlock P plain n ss b).2
  stmts : ∀ (ss : List Stmt) (a b : St V) (f : Nat) (tg : Option Nat) (M : Nat → Prop) (σ : SigM) (Γr : List Frame)
    (lc : LoopCtx) (post : LS) (A : Nat → Prop),
    ConsStmts L.T true ss → lokListB L f (tagsOf ((tg, M) :: σ)) lc ss post = true →
    L.BR f = true → ActOk L f ((tg, M) :: σ) Γr → MOkList L ((tg, M) :: σ) ss →
    Need L (lvStmts L.c f L.nl lc ss post).1.live A →
    LRel L (mkTop A ((tg, M) :: σ) ++ Γr) a b → LInv L b →
    (∃ M', LOutF L ((tg, M') :: σ) Γr lc post.live (fun _ => False) (execStmts P L.cfg n ss a) (execStmts P plain n ss b)) ∧
      LInv L (execStmts P plain n ss b).2
  stmt : ∀ (s : Stmt) (rest : List Stmt) (a b : St V) (f i : Nat) (σ : SigM) (Γr : List Frame) (lc : LoopCtx) (post : LS)
    (A : Nat → Prop),
    s.sid = some i → L.cfg.skip i = false → ConsStmt L.T true s → lokB L f (tagsOf σ) lc s post rest = true →
    L.BR f = true → ActOk L f σ Γr → MOkStmt L σ s → Need L (lvStmt L.c f L.nl lc s post).1.live A →
    LRel L (mkTop A σ ++ Γr) a b → LInv L b →
    LOutF L σ Γr lc post.live (fun _ => False) (execStmt P L.cfg n s a) (execStmt P plain n s b) ∧
      LInv L (execStmt P plain n s b).2
  loop : ∀ (c : Expr) (bd : List Stmt) (sp1 sp : Span) (rest : List Stmt) (a b : St V) (f i : Nat) (σ : SigM) (Γr : List Frame)
    (lc : LoopCtx) (post : LS) (A : Nat → Prop),
    ConsStmt L.T true (.loop c (.mk bd sp1) (some i) sp) →
    lokB L f (tagsOf σ) lc (.loop c (.mk bd sp1) (some i) sp) post rest = true →
    L.BR f = true → ActOk L f σ Γr → MOkStmt L σ (.loop c (.mk bd sp1) (some i) sp) →
    Need L (lvStmt L.c f L.nl lc (.loop c (.mk bd sp1) (some i) sp) post).1.live A →
    LRel L (mkTop A σ ++ Γr) a b → LInv L b →
    LOutF L σ Γr lc post.live (fun _ => False) (execLoop P L.cfg n c bd a) (execLoop P plain n c bd b) ∧
      LInv L (execLoop P plain n c bd b).2

theorem lsim_zero (P : Prims V) (L : LSetup) : LSim P L 0 := by
  constructor
  · intro e a b f i σ Γr A _ _ _ _ hi
    exact ⟨Or.inl (Or.inl (by simp [evalExpr])), by simpa [evalExpr] using hi⟩
  · intro es a b f i σ Γr A _ _ _ _ hi
    exact ⟨Or.inl (Or.inl (by simp [evalList])), by simpa [evalList] using hi⟩
  · intro ss a b f σ Γr lc post A _ _ _ _ _ _ _ _ hi
    exact ⟨Or.inl (Or.inl (by simp [execBlock])), by simpa [execBlock] using hi⟩
  · intro ss a b f tg M σ Γr lc post A _ _ _ _ _ _ _ hi
    exact ⟨⟨M, Or.inl (Or.inl (by simp [execStmts]))⟩, by simpa [execStmts] using hi⟩
  · intro s rest a b f i σ Γr lc post A _ _ _ _ _ _ _ _ _ hi
    exact ⟨Or.inl (Or.inl (by simp [execStmt])), by simpa [execStmt] using hi⟩
  · intro c bd sp1 sp rest a b f i σ Γr lc post A _ _ _ _ _ _ _ hi
    exact ⟨Or.inl (Or.inl (by simp [execLoop])), by simpa [execLoop] using hi⟩

/-! ### Expression level -/

section estep
variable {P : Prims V} {L : LSetup} {n : Nat}

theorem efit_cons {f i : Nat} {σ : List (Option Nat)} {e : Expr} {es : List Expr} :
    L.efitList f σ i (e :: es) = true ↔ L.efitList f σ i [e] = true ∧ L.efitList f σ i es = true := by
  simp [LSetup.efitList, eOkList]

theorem efit_single {f i : Nat} {σ : List (Option Nat)} {e : Expr} :
    L.efitList f σ i [e] = eOk (fun g => (L.c.callees i).contains g) (fun x => !L.varFit f σ i x) e := by
  simp [LSetup.efitList, eOkList]

theorem efit_list {f i : Nat} {σ : List (Option Nat)} {es : List Expr} :
    L.efitList f σ i es = eOkList (fun g => (L.c.callees i).contains g) (fun x => !L.varFit f σ i x) es := rfl

theorem lstep_list (ih : LSim P L n) : ∀ (es : List Expr) (a b : St V) (f i : Nat) (σ : SigM) (Γr : List Frame) (A : Nat → Prop),
    L.efitList f (tagsOf σ) i es = true → ActOk L f σ Γr → ExprCtx L f σ A i →
    LRel L (mkTop A σ ++ Γr) a b → LInv L b →
    LOut L (mkTop A σ ++ Γr) (evalList P L.cfg (n + 1) es a) (evalList P plain (n + 1) es b) ∧
      LInv L (evalList P plain (n + 1) es b).2
  | [], a, b, f, i, σ, Γr, A, _, _, _, hr, hi => ⟨Or.inr ⟨rfl, hr⟩, hi⟩
  | e :: es, a, b, f, i, σ, Γr, A, he, ha, hc, hr, hi => by
      have he' := efit_cons.mp he
      simp only [evalList]
      obtain ⟨ho, hq⟩ := ih.expr e a b f i σ Γr A he'.1 ha hc hr hi
      chain (evalExpr P L.cfg n e a), (evalExpr P plain n e b), ho, hq
      obtain ⟨ho2, hq2⟩ := ih.list es s1 s2 f i σ Γr A he'.2 ha hc hrel' hq
      chain (evalList P L.cfg n es s1), (evalList P plain n es s2), ho2, hq2
      exact ⟨Or.inr ⟨rfl, hrel'⟩, hq2⟩

theorem lstep_var (hd : P.dscope = L.ds) (hs : LSetupOk L) (nm : Bytes) (bd : Option Nat) (sp : Span) (a b : St V)
    (f i : Nat) (σ : SigM) (Γr : List Frame) (A : Nat → Prop)
    (he : L.efitList f (tagsOf σ) i [.var nm bd sp] = true) (ha : ActOk L f σ Γr) (hc : ExprCtx L f σ A i)
    (hr : LRel L (mkTop A σ ++ Γr) a b) (hi : LInv L b) :
    LOut L (mkTop A σ ++ Γr) (evalExpr P L.cfg (n + 1) (.var nm bd sp) a) (evalExpr P plain (n + 1) (.var nm bd sp) b) ∧
      LInv L (evalExpr P plain (n + 1) (.var nm bd sp) b).2 := by
  simp only [evalExpr, hd]
  have e : bd.bind (fun id => lookupEnv L.ds id a.env) = bd.bind (fun id => lookupEnv L.ds id b.env) := by
    cases bd with
    | none => rfl
    | some id =>
      rw [efit_single] at he
      simp only [eOk, Bool.not_eq_true', Bool.not_eq_false'] at he
      exact fit_lookup hs ha hc he hr.2.2
  rw [e]
  cases bd.bind (fun id => lookupEnv L.ds id b.env) with
  | some v => exact ⟨Or.inr ⟨rfl, hr⟩, hi⟩
  | none => exact ⟨Or.inl bad_unbound, hi⟩

theorem lstep_logic (ih : LSim P L n) (l r : Expr) (a b : St V) (f i : Nat) (σ : SigM) (Γr : List Frame) (A : Nat → Prop)
    (hl : L.efitList f (tagsOf σ) i [l] = true) (hrr : L.efitList f (tagsOf σ) i [r] = true)
    (ha : ActOk L f σ Γr) (hc : ExprCtx L f σ A i)
    (hr : LRel L (mkTop A σ ++ Γr) a b) (hi : LInv L b) (stop : V → Bool) (short : V) :
    LOut L (mkTop A σ ++ Γr)
      (match evalExpr P L.cfg n l a with
        | (.error e, st1) => ((.error e, st1) : R V V)
        | (.ok lv, st1) =>
            if stop lv then (.ok short, st1) else
            match evalExpr P L.cfg n r st1 with
            | (.error e, st2) => (.error e, st2)
            | (.ok rv, st2) => (P.logicRhs rv, st2))
      (match evalExpr P plain n l b with
        | (.error e, st1) => ((.error e, st1) : R V V)
        | (.ok lv, st1) =>
            if stop lv then (.ok short, st1) else
            match evalExpr P plain n r st1 with
            | (.error e, st2) => (.error e, st2)
            | (.ok rv, st2) => (P.logicRhs rv, st2)) ∧
    LInv L
      (match evalExpr P plain n l b with
        | (.error e, st1) => ((.error e, st1) : R V V)
        | (.ok lv, st1) =>
            if stop lv then (.ok short, st1) else
            match evalExpr P plain n r st1 with
            | (.error e, st2) => (.error e, st2)
            | (.ok rv, st2) => (P.logicRhs rv, st2)).2 := by
  obtain ⟨ho, hq⟩ := ih.expr l a b f i σ Γr A hl ha hc hr hi
  chain (evalExpr P L.cfg n l a), (evalExpr P plain n l b), ho, hq
  cases stop v with
  | true => exact ⟨Or.inr ⟨rfl, hrel'⟩, hq⟩
  | false =>
    simp only [Bool.false_eq_true, ↓reduceIte]
    obtain ⟨ho2, hq2⟩ := ih.expr r s1 s2 f i σ Γr A hrr ha hc hrel' hq
    chain (evalExpr P L.cfg n r s1), (evalExpr P plain n r s2), ho2, hq2
    exact ⟨Or.inr ⟨rfl, hrel'⟩, hq2⟩

theorem fit_readAll (hs : LSetupOk L) {f i : Nat} {σ : SigM} {Γr : List Frame} {A : Nat → Prop}
    (ha : ActOk L f σ Γr) (hc : ExprCtx L f σ A i) {a b : List (Scope V)} (hr : ERel L.ds (mkTop A σ ++ Γr) a b)
    (ids : List (Option Nat)) (h : ∀ x, some x ∈ ids → L.varFit f (tagsOf σ) i x = true) :
    readAll L.ds a ids = readAll L.ds b ids :=
  erel_readAll hr ids (fun x hx tg htg => fit_frame hs ha hc (h x hx) htg)

theorem lstep_generic (hd : P.dscope = L.ds) (hs : LSetupOk L) (ih : LSim P L n) (e : Expr) (a b : St V)
    (f i : Nat) (σ : SigM) (Γr : List Frame) (A : Nat → Prop)
    (hch : L.efitList f (tagsOf σ) i (children e) = true) (he : L.efitList f (tagsOf σ) i [e] = true)
    (ha : ActOk L f σ Γr) (hc : ExprCtx L f σ A i)
    (hr : LRel L (mkTop A σ ++ Γr) a b) (hi : LInv L b) :
    LOut L (mkTop A σ ++ Γr) (finishNode P e (evalList P L.cfg n (children e) a))
        (finishNode P e (evalList P plain n (children e) b)) ∧
      LInv L (finishNode P e (evalList P plain n (children e) b)).2 := by
  obtain ⟨ho, hq⟩ := ih.list (children e) a b f i σ Γr A hch ha hc hr hi
  chain (evalList P L.cfg n (children e) a), (evalList P plain n (children e) b), ho, hq
  simp only [finishNode, hd]
  have e1 : readAll L.ds s1.env (interpIds e) = readAll L.ds s2.env (interpIds e) := by
    refine fit_readAll hs ha hc hrel'.2.2 _ ?_
    intro x hx
    rw [efit_single] at he
    have := eOk_interpIds e he x hx
    simpa using this
  rw [e1]
  cases readAll L.ds s2.env (interpIds e) with
  | none => exact ⟨Or.inl bad_unbound, hq⟩
  | some rs => exact ⟨Or.inr ⟨rfl, hrel'⟩, hq⟩

theorem linv_pop {st : St V} (h : LInv L st) :
    LInv L { st with env := st.env.drop 1, fns := st.fns.drop 1 } :=
  ⟨⟨FnsOk.drop h.1.1, h.1.2⟩, fun sc hsc => h.2 sc (List.mem_of_mem_drop hsc)⟩

theorem lrel_pop {fr : Frame} {Γ : List Frame} {a b : St V} (h : LRel L (fr :: Γ) a b) :
    LRel L Γ { a with env := a.env.drop 1, fns := a.fns.drop 1 } { b with env := b.env.drop 1, fns := b.fns.drop 1 } :=
  ⟨h.1, by simp [h.2.1], erel_pop h.2.2⟩

theorem findFn_okL {f : Nat} : ∀ {fns : List (List FnDef)} {fd : FnDef}, FnsOkL L fns →
    findFn f fns = some fd → fnOkB L fd.id fd.params fd.body = true
  | [], _, _, h => by simp [findFn] at h
  | sc :: scs, fd, hok, h => by
      simp only [findFn] at h
      split at h
      next g hg =>
        cases h
        exact hok sc (by simp) _ (List.mem_of_find?_eq_some hg)
      next => exact findFn_okL (fun sc' hsc' => hok sc' (List.mem_cons_of_mem _ hsc')) h

/-- The frames a callee `g` of statement `i` finds below it. -/
theorem actOk_callee (hs : LSetupOk L) {f i g : Nat} {σ : SigM} {Γr : List Frame} {A : Nat → Prop}
    (ha : ActOk L f σ Γr) (hc : ExprCtx L f σ A i) (hg : g ∈ L.c.callees i) (ptag : Option Nat)
    (hown : ∀ tg, ptag = some tg → L.scopeOwner tg = some g) :
    ActOk L g [(ptag, fun _ => False)] (mkTop A σ ++ Γr) where
  own := by
    intro tg htg
    simp only [tagsOf, List.map_cons, List.map_nil, List.mem_singleton] at htg
    exact hown tg htg.symm
  nodup := by simp [tagsOf, TagsNodup]
  susp := by
    intro fr hfr x tg hx ht
    rcases List.mem_append.mp hfr with hfr | hfr
    · simp only [mkTop, List.mem_map] at hfr
      obtain ⟨p, hp, rfl⟩ := hfr
      simp only at ht
      have hin : some tg ∈ tagsOf σ := by
        simp only [tagsOf, List.mem_map]
        exact ⟨p, hp, ht⟩
      have hown : L.c.owner x = some f := by rw [← hs.scOwn x tg hx]; exact ha.own tg hin
      constructor
      · intro hR
        exact ⟨hc.aCallee g hg x hR hown, fun hm => (refFree_callee (hc.mOk p hp x hm) hg).1 hR⟩
      · intro hW hm
        exact (refFree_callee (hc.mOk p hp x hm) hg).2 hW
    · have := ha.susp fr hfr x tg hx ht
      have e := hc.fn
      constructor
      · intro hR; exact this.1 (by rw [← e]; exact hs.sumR i hc.inT g hg x hR)
      · intro hW; exact this.2 (by rw [← e]; exact hs.sumW i hc.inT g hg x hW)

theorem fnOk_parts {g : Nat} {ps : List Param} {body : List Stmt} (h : fnOkB L g ps body = true) :
    L.blockOkB g [paramTag L.ds ps] body = true ∧ (∀ tg, paramTag L.ds ps = some tg → L.scopeOwner tg = some g) ∧
    lokListB L g [blockTag L.ss body, paramTag L.ds ps] { brk := none, cont := none, kills := [] } body (boundary []) = true := by
  simp only [fnOkB, Bool.and_eq_true] at h
  refine ⟨h.1.1.1, ?_, h.2⟩
  intro tg htg
  have := h.1.1.2
  rw [htg] at this
  simpa using this

theorem fnOk_pure {g : Nat} {ps : List Param} {body : List Stmt} (h : fnOkB L g ps body = true) : L.pureFnB g ps body = true := by
  simp only [fnOkB, Bool.and_eq_true] at h
  exact h.1.2

theorem lstep_userCall (hd : P.dscope = L.ds) (hs : LSetupOk L) (ih : LSim P L n) (args : List Expr) (g : Nat) (a b : St V)
    (f i : Nat) (σ : SigM) (Γr : List Frame) (A : Nat → Prop)
    (hg : g ∈ L.c.callees i) (hargs : L.efitList f (tagsOf σ) i args = true) (ha : ActOk L f σ Γr) (hc : ExprCtx L f σ A i)
    (hr : LRel L (mkTop A σ ++ Γr) a b) (hi : LInv L b) :
    LOut L (mkTop A σ ++ Γr)
      (match findFnC L.cfg g a.fns with
        | none => ((.error .panic, { a with looked := g :: a.looked }) : R V V)
        | some fd =>
            match evalList P L.cfg n args { a with looked := g :: a.looked } with
            | (.error e, st1) => (.error e, st1)
            | (.ok vs, st1) =>
                match bindParams fd.params vs with
                | none => (.error .panic, st1)
                | some slots =>
                    match execBlock P L.cfg n fd.body { st1 with env := ⟨paramTag L.ds fd.params, slots⟩ :: st1.env, fns := [] :: st1.fns } with
                    | (.error e, st3) => (.error e, { st3 with env := st3.env.drop 1, fns := st3.fns.drop 1 })
                    | (.ok fl, st3) =>
                        match fl with
                        | .normal => (.ok P.null, { st3 with env := st3.env.drop 1, fns := st3.fns.drop 1 })
                        | .ret v => (.ok v, { st3 with env := st3.env.drop 1, fns := st3.fns.drop 1 })
                        | _ => (.error .panic, { st3 with env := st3.env.drop 1, fns := st3.fns.drop 1 }))
      (match findFnC plain g b.fns with
        | none => ((.error .panic, { b with looked := g :: b.looked }) : R V V)
        | some fd =>
            match evalList P plain n args { b with looked := g :: b.looked } with
            | (.error e, st1) => (.error e, st1)
            | (.ok vs, st1) =>
                match bindParams fd.params vs with
                | none => (.error .panic, st1)
                | some slots =>
                    match execBlock P plain n fd.body { st1 with env := ⟨paramTag L.ds fd.params, slots⟩ :: st1.env, fns := [] :: st1.fns } with
                    | (.error e, st3) => (.error e, { st3 with env := st3.env.drop 1, fns := st3.fns.drop 1 })
                    | (.ok fl, st3) =>
                        match fl with
                        | .normal => (.ok P.null, { st3 with env := st3.env.drop 1, fns := st3.fns.drop 1 })
                        | .ret v => (.ok v, { st3 with env := st3.env.drop 1, fns := st3.fns.drop 1 })
                        | _ => (.error .panic, { st3 with env := st3.env.drop 1, fns := st3.fns.drop 1 })) ∧
    LInv L
      (match findFnC plain g b.fns with
        | none => ((.error .panic, { b with looked := g :: b.looked }) : R V V)
        | some fd =>
            match evalList P plain n args { b with looked := g :: b.looked } with
            | (.error e, st1) => (.error e, st1)
            | (.ok vs, st1) =>
                match bindParams fd.params vs with
                | none => (.error .panic, st1)
                | some slots =>
                    match execBlock P plain n fd.body { st1 with env := ⟨paramTag L.ds fd.params, slots⟩ :: st1.env, fns := [] :: st1.fns } with
                    | (.error e, st3) => (.error e, { st3 with env := st3.env.drop 1, fns := st3.fns.drop 1 })
                    | (.ok fl, st3) =>
                        match fl with
                        | .normal => (.ok P.null, { st3 with env := st3.env.drop 1, fns := st3.fns.drop 1 })
                        | .ret v => (.ok v, { st3 with env := st3.env.drop 1, fns := st3.fns.drop 1 })
                        | _ => (.error .panic, { st3 with env := st3.env.drop 1, fns := st3.fns.drop 1 })).2 := by
  have hbr : L.BR g = true := hs.closed i hc.inT (by rw [hc.fn]; exact hc.br) g hg
  have e1 : findFnC L.cfg g a.fns = findFn g b.fns := by simp [findFnC, hs.drop g hbr, hr.2.1]
  have e2 : findFnC plain g b.fns = findFn g b.fns := by simp [findFnC, plain, Cfg.ofPlan]
  rw [e1, e2]
  have hi0 : LInv L { b with looked := g :: b.looked } :=
    ⟨hi.1, hi.2⟩
  have hr0 : LRel L (mkTop A σ ++ Γr) { a with looked := g :: a.looked } { b with looked := g :: b.looked } := hr
  cases hfd : findFn g b.fns with
  | none => exact ⟨Or.inr ⟨rfl, hr0⟩, hi0⟩
  | some fd =>
    have hbody := findFn_ok hi.1.1 hfd
    have hfn := fnOk_parts (findFn_okL hi.2 hfd)
    have hid := findFn_id hfd
    simp only []
    obtain ⟨ho, hq⟩ := ih.list args _ _ f i σ Γr A hargs ha hc hr0 hi0
    chain (evalList P L.cfg n args { a with looked := g :: a.looked }), (evalList P plain n args { b with looked := g :: b.looked }), ho, hq
    cases bindParams fd.params v with
    | none => exact ⟨Or.inr ⟨rfl, hrel'⟩, hq⟩
    | some slots =>
      simp only []
      have hr2 : LRel L (mkTop (fun _ => True) [(paramTag L.ds fd.params, fun _ => False)] ++ (mkTop A σ ++ Γr))
          { s1 with env := ⟨paramTag L.ds fd.params, slots⟩ :: s1.env, fns := [] :: s1.fns }
          { s2 with env := ⟨paramTag L.ds fd.params, slots⟩ :: s2.env, fns := [] :: s2.fns } :=
        ⟨hrel'.1, by have := hrel'.2.1; simp only at this; simp [this],
          erel_push hrel'.2.2 (paramTag L.ds fd.params) (fun _ => True) (fun _ => False) slots⟩
      have hi2 : LInv L { s2 with env := ⟨paramTag L.ds fd.params, slots⟩ :: s2.env, fns := [] :: s2.fns } :=
        ⟨⟨FnsOk.push hq.1.1 (by intro fd hfd; cases hfd), hq.1.2⟩,
         by
          intro sc hsc
          rcases List.mem_cons.mp hsc with rfl | h'
          · intro fd hfd; cases hfd
          · exact hq.2 sc h'⟩
      have hact := actOk_callee hs ha hc hg (paramTag L.ds fd.params) (by rw [← hid]; exact hfn.2.1)
      obtain ⟨ho3, hq3⟩ := ih.block fd.body _ _ fd.id [(paramTag L.ds fd.params, fun _ => False)] (mkTop A σ ++ Γr)
        { brk := none, cont := none, kills := [] } (boundary []) (fun _ => True) hbody
        (by simpa [tagsOf] using hfn.2.2) (by simpa [tagsOf] using hfn.1) (by rw [hid]; exact hbr)
        (by rw [hid]; exact hact) (by intro p hp l hl; simp only [List.mem_singleton] at hp; subst hp; cases hl)
        (fun _ _ _ => trivial) hr2 hi2
      generalize execBlock P plain n fd.body { s2 with env := ⟨paramTag L.ds fd.params, slots⟩ :: s2.env, fns := [] :: s2.fns } = r2 at ho3 hq3 ⊢
      generalize execBlock P L.cfg n fd.body { s1 with env := ⟨paramTag L.ds fd.params, slots⟩ :: s1.env, fns := [] :: s1.fns } = r1 at ho3 ⊢
      obtain ⟨x2, t2⟩ := r2
      obtain ⟨x1, t1⟩ := r1
      have hpop := linv_pop hq3
      rcases ho3 with hbad | ⟨heq, A', hrel3, _⟩
      · rcases hbad with hb | hb | hb <;> (simp only at hb; subst hb)
        · exact ⟨Or.inl bad_fuel, hpop⟩
        · exact ⟨Or.inl bad_unbound, hpop⟩
        · exact ⟨Or.inl bad_panic, hpop⟩
      · simp only at heq
        subst heq
        have hrp : LRel L (mkTop A σ ++ Γr) { t1 with env := t1.env.drop 1, fns := t1.fns.drop 1 }
            { t2 with env := t2.env.drop 1, fns := t2.fns.drop 1 } := lrel_pop hrel3
        rcases x1 with er | fl
        · exact ⟨Or.inr ⟨rfl, hrp⟩, hpop⟩
        · cases fl <;> exact ⟨Or.inr ⟨rfl, hrp⟩, hpop⟩

/-- Selected expressions of statement `i` evaluated in order with checks, in both runs. -/
theorem lchecked (ih : LSim P L n) (miss : Err) : ∀ (items : List (Option Expr × (V → Except Err V))) (a b : St V) (f i : Nat)
    (σ : SigM) (Γr : List Frame) (A : Nat → Prop),
    (∀ e chk, (some e, chk) ∈ items → L.efitList f (tagsOf σ) i [e] = true) → ActOk L f σ Γr → ExprCtx L f σ A i →
    LRel L (mkTop A σ ++ Γr) a b → LInv L b →
    LOut L (mkTop A σ ++ Γr) (evalChecked (evalExpr P L.cfg n) miss items a) (evalChecked (evalExpr P plain n) miss items b) ∧
      LInv L (evalChecked (evalExpr P plain n) miss items b).2
  | [], a, b, f, i, σ, Γr, A, _, _, _, hr, hi => ⟨Or.inr ⟨rfl, hr⟩, hi⟩
  | (none, _) :: _, a, b, f, i, σ, Γr, A, _, _, _, hr, hi => ⟨Or.inr ⟨rfl, hr⟩, hi⟩
  | (some e, chk) :: rest, a, b, f, i, σ, Γr, A, h, ha, hc, hr, hi => by
      simp only [evalChecked]
      obtain ⟨ho, hq⟩ := ih.expr e a b f i σ Γr A (h e chk (by simp)) ha hc hr hi
      chain (evalExpr P L.cfg n e a), (evalExpr P plain n e b), ho, hq
      cases chk v with
      | error er => exact ⟨Or.inr ⟨rfl, hrel'⟩, hq⟩
      | ok v' =>
        simp only []
        obtain ⟨ho2, hq2⟩ := lchecked ih miss rest s1 s2 f i σ Γr A
          (fun e' c' hm => h e' c' (List.mem_cons_of_mem _ hm)) ha hc hrel' hq
        chain (evalChecked (evalExpr P L.cfg n) miss rest s1), (evalChecked (evalExpr P plain n) miss rest s2), ho2, hq2
        exact ⟨Or.inr ⟨rfl, hrel'⟩, hq2⟩

theorem efit_mem {f i : Nat} {σ : List (Option Nat)} {es : List Expr} (h : L.efitList f σ i es = true) :
    ∀ e ∈ es, L.efitList f σ i [e] = true := by
  intro e he
  rw [efit_single]
  exact eOk_mem es h e he

theorem lstep_expr (hd : P.dscope = L.ds) (hs : LSetupOk L) (ih : LSim P L n) : ∀ (e : Expr) (a b : St V) (f i : Nat)
    (σ : SigM) (Γr : List Frame) (A : Nat → Prop),
    L.efitList f (tagsOf σ) i [e] = true → ActOk L f σ Γr → ExprCtx L f σ A i →
    LRel L (mkTop A σ ++ Γr) a b → LInv L b →
    LOut L (mkTop A σ ++ Γr) (evalExpr P L.cfg (n + 1) e a) (evalExpr P plain (n + 1) e b) ∧
      LInv L (evalExpr P plain (n + 1) e b).2
  | .var nm bd sp, a, b, f, i, σ, Γr, A, he, ha, hc, hr, hi => lstep_var hd hs nm bd sp a b f i σ Γr A he ha hc hr hi
  | .binary .and l r _, a, b, f, i, σ, Γr, A, he, ha, hc, hr, hi => by
      have he' := he
      rw [efit_single] at he'
      simp only [eOk, Bool.and_eq_true] at he'
      simp only [evalExpr]
      exact lstep_logic ih l r a b f i σ Γr A (by rw [efit_single]; exact he'.1) (by rw [efit_single]; exact he'.2)
        ha hc hr hi P.falsy (P.logicShort .and)
  | .binary .or l r _, a, b, f, i, σ, Γr, A, he, ha, hc, hr, hi => by
      have he' := he
      rw [efit_single] at he'
      simp only [eOk, Bool.and_eq_true] at he'
      simp only [evalExpr]
      exact lstep_logic ih l r a b f i σ Γr A (by rw [efit_single]; exact he'.1) (by rw [efit_single]; exact he'.2)
        ha hc hr hi P.truthy (P.logicShort .or)
  | .binary .add l r sp, a, b, f, i, σ, Γr, A, he, ha, hc, hr, hi | .binary .minus l r sp, a, b, f, i, σ, Γr, A, he, ha, hc, hr, hi
  | .binary .times l r sp, a, b, f, i, σ, Γr, A, he, ha, hc, hr, hi | .binary .divide l r sp, a, b, f, i, σ, Γr, A, he, ha, hc, hr, hi
  | .binary .mod l r sp, a, b, f, i, σ, Γr, A, he, ha, hc, hr, hi | .binary .eq l r sp, a, b, f, i, σ, Γr, A, he, ha, hc, hr, hi
  | .binary .gt l r sp, a, b, f, i, σ, Γr, A, he, ha, hc, hr, hi | .binary .lt l r sp, a, b, f, i, σ, Γr, A, he, ha, hc, hr, hi => by
      have he' := he
      rw [efit_single] at he'
      simp only [eOk, Bool.and_eq_true] at he'
      simp only [evalExpr]
      exact lstep_generic hd hs ih _ a b f i σ Γr A (by rw [efit_list]; simp only [children, eOkList, Bool.and_true, Bool.and_eq_true]; exact he') he ha hc hr hi
  | .index x j s1 s2, a, b, f, i, σ, Γr, A, he, ha, hc, hr, hi => by
      have he' := he
      rw [efit_single] at he'
      simp only [eOk, Bool.and_eq_true] at he'
      simp only [evalExpr]
      exact lstep_generic hd hs ih _ a b f i σ Γr A (by rw [efit_list]; simp only [children, eOkList, Bool.and_true, Bool.and_eq_true]; exact he') he ha hc hr hi
  | .str p sp, a, b, f, i, σ, Γr, A, he, ha, hc, hr, hi => by
      simp only [evalExpr]
      exact lstep_generic hd hs ih _ a b f i σ Γr A (by rw [efit_list]; simp only [children, eOkList]) he ha hc hr hi
  | .num l sp, a, b, f, i, σ, Γr, A, he, ha, hc, hr, hi => by
      simp only [evalExpr]
      exact lstep_generic hd hs ih _ a b f i σ Γr A (by rw [efit_list]; simp only [children, eOkList]) he ha hc hr hi
  | .bool v sp, a, b, f, i, σ, Γr, A, he, ha, hc, hr, hi => by
      simp only [evalExpr]
      exact lstep_generic hd hs ih _ a b f i σ Γr A (by rw [efit_list]; simp only [children, eOkList]) he ha hc hr hi
  | .null sp, a, b, f, i, σ, Γr, A, he, ha, hc, hr, hi => by
      simp only [evalExpr]
      exact lstep_generic hd hs ih _ a b f i σ Γr A (by rw [efit_list]; simp only [children, eOkList]) he ha hc hr hi
  | .array es sp, a, b, f, i, σ, Γr, A, he, ha, hc, hr, hi => by
      have he' := he
      rw [efit_single] at he'
      simp only [eOk] at he'
      simp only [evalExpr]
      exact lstep_generic hd hs ih _ a b f i σ Γr A (by rw [efit_list]; simp only [children]; exact he') he ha hc hr hi
  | .unary op x sp, a, b, f, i, σ, Γr, A, he, ha, hc, hr, hi => by
      have he' := he
      rw [efit_single] at he'
      simp only [eOk] at he'
      simp only [evalExpr]
      exact lstep_generic hd hs ih _ a b f i σ Γr A (by rw [efit_list]; simp only [children, eOkList, Bool.and_true]; exact he') he ha hc hr hi
  | .member o fl s1 s2, a, b, f, i, σ, Γr, A, he, ha, hc, hr, hi => by
      simp only [evalExpr]
      exact lstep_generic hd hs ih _ a b f i σ Γr A (by rw [efit_list]; simp only [children, eOkList]) he ha hc hr hi
  | .call (.var name _ _) args fn _, a, b, f, i, σ, Γr, A, he, ha, hc, hr, hi => by
      rw [efit_single] at he
      simp only [eOk, Bool.and_eq_true] at he
      simp only [evalExpr, hd]
      cases P.isGlobal name with
      | true =>
        simp only [↓reduceIte]
        obtain ⟨ho, hq⟩ := ih.list args a b f i σ Γr A he.2 ha hc hr hi
        chain (evalList P L.cfg n args a), (evalList P plain n args b), ho, hq
        cases P.isShout name with
        | false => exact ⟨Or.inr ⟨by first | rfl | trivial, hrel'⟩, hq⟩
        | true =>
          simp only [↓reduceIte]
          match v with
          | [] => exact ⟨Or.inr ⟨rfl, hrel'⟩, hq⟩
          | [w] =>
            have h1 := hrel'.1
            simp only at h1
            exact ⟨Or.inr ⟨rfl, ⟨by simp [h1], hrel'.2.1, hrel'.2.2⟩⟩, hq⟩
          | _ :: _ :: _ => exact ⟨Or.inr ⟨rfl, hrel'⟩, hq⟩
      | false =>
        simp only [Bool.false_eq_true, ↓reduceIte]
        cases fn with
        | none => exact ⟨Or.inr ⟨rfl, hr⟩, hi⟩
        | some g => exact lstep_userCall hd hs ih args g a b f i σ Γr A (by simpa using he.1) he.2 ha hc hr hi
  | .call (.member o field fs sp) args fn sp2, a, b, f, i, σ, Γr, A, he, ha, hc, hr, hi => by
      have he' := he
      rw [efit_single] at he'
      simp only [eOk, Bool.and_eq_true] at he'
      simp only [evalExpr, hd]
      cases P.isMut field with
      | false =>
        simp only [Bool.false_eq_true, ↓reduceIte]
        obtain ⟨ho, hq⟩ := ih.expr o a b f i σ Γr A (by rw [efit_single]; exact he'.1) ha hc hr hi
        chain (evalExpr P L.cfg n o a), (evalExpr P plain n o b), ho, hq
        cases P.memberSel field v with
        | error er => exact ⟨Or.inr ⟨rfl, hrel'⟩, hq⟩
        | ok idx =>
          simp only []
          obtain ⟨ho2, hq2⟩ := lchecked ih P.argMissing (selArgs args idx) s1 s2 f i σ Γr A
            (fun e chk hm => efit_mem (es := args) he'.2 e (selArgs_mem' hm)) ha hc hrel' hq
          chain (evalChecked (evalExpr P L.cfg n) P.argMissing (selArgs args idx) s1),
            (evalChecked (evalExpr P plain n) P.argMissing (selArgs args idx) s2), ho2, hq2
          exact ⟨Or.inr ⟨rfl, hrel'⟩, hq2⟩
      | true =>
        simp only [↓reduceIte]
        obtain ⟨ho, hq⟩ := lchecked ih P.argMissing (stepArgs args (P.mutSteps field)) a b f i σ Γr A
          (fun e chk hm => efit_mem (es := args) he'.2 e (stepArgs_mem hm)) ha hc hr hi
        chain (evalChecked (evalExpr P L.cfg n) P.argMissing (stepArgs args (P.mutSteps field)) a),
          (evalChecked (evalExpr P plain n) P.argMissing (stepArgs args (P.mutSteps field)) b), ho, hq
        simp only at hq hrel'
        revert v
        intro vargs
        cases hlv : lvalue o with
        | none => exact ⟨Or.inr ⟨rfl, hrel'⟩, hq⟩
        | some rp =>
          obtain ⟨root, path⟩ := rp
          have hlo := eOk_lvalue o root path he'.1 hlv
          have hroot : L.varFit f (tagsOf σ) i root = true := by simpa using hlo.1
          simp only []
          obtain ⟨ho2, hq2⟩ := lchecked ih P.argMissing (pathItems P.idx path) s1 s2 f i σ Γr A
            (fun e chk hm => efit_mem (es := path) hlo.2 e (pathItems_mem hm)) ha hc hrel' hq
          chain (evalChecked (evalExpr P L.cfg n) P.argMissing (pathItems P.idx path) s1),
            (evalChecked (evalExpr P plain n) P.argMissing (pathItems P.idx path) s2), ho2, hq2
          have el : lookupEnv L.ds root s1.env = lookupEnv L.ds root s2.env := fit_lookup hs ha hc hroot hrel'.2.2
          rw [el]
          cases lookupEnv L.ds root s2.env with
          | none => exact ⟨Or.inl bad_unbound, hq2⟩
          | some old =>
            simp only []
            cases P.mutMember field old v vargs with
            | error er => exact ⟨Or.inr ⟨rfl, hrel'⟩, hq2⟩
            | ok nr =>
              obtain ⟨new, res⟩ := nr
              simp only []
              have hasg := fit_assign (v := new) hs ha hc hroot hrel'.2.2
              cases e1 : assignEnv L.ds root new s1.env <;> cases e2 : assignEnv L.ds root new s2.env <;>
                simp only [e1, e2, ORel] at hasg
              · exact ⟨Or.inr ⟨rfl, hrel'⟩, hq2⟩
              · exact ⟨Or.inr ⟨rfl, ⟨hrel'.1, hrel'.2.1, hasg⟩⟩, hq2⟩
  | .call (.index _ _ _ _) args fn sp, a, b, f, i, σ, Γr, A, he, ha, hc, hr, hi | .call (.str _ _) args fn sp, a, b, f, i, σ, Γr, A, he, ha, hc, hr, hi
  | .call (.num _ _) args fn sp, a, b, f, i, σ, Γr, A, he, ha, hc, hr, hi | .call (.binary _ _ _ _) args fn sp, a, b, f, i, σ, Γr, A, he, ha, hc, hr, hi
  | .call (.call _ _ _ _) args fn sp, a, b, f, i, σ, Γr, A, he, ha, hc, hr, hi | .call (.array _ _) args fn sp, a, b, f, i, σ, Γr, A, he, ha, hc, hr, hi
  | .call (.unary _ _ _) args fn sp, a, b, f, i, σ, Γr, A, he, ha, hc, hr, hi | .call (.bool _ _) args fn sp, a, b, f, i, σ, Γr, A, he, ha, hc, hr, hi
  | .call (.null _) args fn sp, a, b, f, i, σ, Γr, A, he, ha, hc, hr, hi => by
      simp only [evalExpr]
      exact lstep_generic hd hs ih _ a b f i σ Γr A (by rw [efit_list]; simp only [children, eOkList]) he ha hc hr hi

end estep

end NaijaVerif.C03
