import NaijaVerif.Lemmas.ResolveStructBridge
import NaijaVerif.Lemmas.ResolveFactsRange
import NaijaVerif.Lemmas.ResolveStructSumWalk
/-
`C03.structOkB`, split into the part that is PROVED of every accepted output of the resolver model and
the part that still has to be evaluated per program.

`structOkB root facts = structProvedB root facts && structRestB root facts` (`structOkB_split`), and
`structProvedB` holds of `(resolve q).root`, `(resolve q).facts` whenever the resolver reports nothing
(`resolve_structProved`):
* distinct statement ids                                  — `resolveWith_sidsDistinct`;
* `globalOkB`: `brClosed`                                  — `resolveWith_brClosed` (`Lemmas/ResolveFactsRange.lean`);
               `usedOkB`                                   — `usedOkB_holds` (every program, all facts);
               `slOkB`                                     — `resolveWith_slOk` (every input program);
               `sumOkB`                                    — `resolveWith_sumOk` (every input program);
               `scOwnB`                                    — `resolveWith_scOwn`.
So all of `globalOkB` is proved (`resolveWith_globalOk`).  `structRestB` is what remains: the
statement-by-statement conditions `rootOkB` for the empty plan.  It cannot be proved as it stands: it is
FALSE of some accepted programs (`structRest_fails_on_accepted` in `Props/C03.lean`).
-/
namespace NaijaVerif.ResolveStruct
open NaijaVerif NaijaVerif.Resolve NaijaVerif.Analysis NaijaVerif.C03

/-- The conjuncts of `structOkB` proved of every accepted output of the resolver model. -/
def structProvedB (root : Block) (facts : Facts) : Bool :=
  decide (((rows root).map (·.sid)).Nodup) &&
  globalOkB root facts

/-- The conjuncts of `structOkB` that remain a hypothesis (decidable, plan-free). -/
def structRestB (root : Block) (facts : Facts) : Bool :=
  rootOkB (lsetupOf root facts none (safe2B (mkCtx root facts))) root

theorem structOkB_split (root : Block) (facts : Facts) :
    structOkB root facts = (structProvedB root facts && structRestB root facts) := by
  simp only [structOkB, structProvedB, structRestB]

/-- **All of `globalOkB`** for every accepted output of the resolver model. -/
theorem resolveWith_globalOk (spanLen : Bool) (q : Block) (h : (resolveWith spanLen q).rdiags = []) :
    globalOkB (resolveWith spanLen q).root (resolveWith spanLen q).facts = true := by
  simp only [globalOkB, Bool.and_eq_true]
  exact ⟨⟨⟨⟨ResolveFacts.resolveWith_brClosed spanLen q, usedOkB_holds _⟩, resolveWith_sumOk spanLen q⟩,
    resolveWith_slOk spanLen q⟩, resolveWith_scOwn spanLen q h⟩

/-- **The proved part holds of every accepted output of the resolver model.** -/
theorem resolveWith_structProved (spanLen : Bool) (q : Block) (h : (resolveWith spanLen q).rdiags = []) :
    structProvedB (resolveWith spanLen q).root (resolveWith spanLen q).facts = true := by
  simp only [structProvedB, Bool.and_eq_true, decide_eq_true_eq]
  exact ⟨resolveWith_sidsDistinct spanLen q h, resolveWith_globalOk spanLen q h⟩

/-- **`structOkB` of an accepted output of the resolver model**, from the remaining conjuncts alone. -/
theorem resolveWith_structOk (spanLen : Bool) (q : Block) (h : (resolveWith spanLen q).rdiags = [])
    (hrest : structRestB (resolveWith spanLen q).root (resolveWith spanLen q).facts = true) :
    structOkB (resolveWith spanLen q).root (resolveWith spanLen q).facts = true := by
  rw [structOkB_split, resolveWith_structProved spanLen q h, hrest]
  rfl

end NaijaVerif.ResolveStruct
