import NaijaVerif.Model.Render
import NaijaVerif.Lemmas.LexUtf8
/-
Helper lemmas for the renderer unit (`Model/Render.lean`): line starts, the line index, the checked
primitives.  The property theorems are in `Props/C07Render.lean`.
-/
set_option linter.unusedSimpArgs false
set_option linter.unusedVariables false

namespace NaijaVerif.Render
open NaijaVerif NaijaVerif.Utf8
open NaijaVerif.Bytes (isCont isBoundary)

/-! ## checked primitives -/

theorem sub1?_pos {x : Nat} (h : 0 < x) : sub1? x = some (x - 1) := by
  simp [sub1?]; omega

theorem sub1?_succ (x : Nat) : sub1? (x + 1) = some x := by simp [sub1?]

theorem mapOpt_some {α β : Type} (f : α → Option β) :
    ∀ (l : List α), (∀ a ∈ l, ∃ b, f a = some b) →
      ∃ bs, mapOpt f l = some bs ∧ ∀ b ∈ bs, ∃ a ∈ l, f a = some b := by
  intro l
  induction l with
  | nil => intro _; exact ⟨[], rfl, by simp⟩
  | cons a as ih =>
    intro h
    obtain ⟨b, hb⟩ := h a (by simp)
    obtain ⟨bs, hbs, hm⟩ := ih (fun a' ha' => h a' (by simp [ha']))
    refine ⟨b :: bs, by simp [mapOpt, hb, hbs], ?_⟩
    intro b' hb'
    rcases List.mem_cons.mp hb' with rfl | hb'
    · exact ⟨a, by simp, hb⟩
    · obtain ⟨a', ha', hf⟩ := hm b' hb'
      exact ⟨a', by simp [ha'], hf⟩

theorem mapOpt_mem {α β : Type} (f : α → Option β) :
    ∀ (l : List α) (bs : List β), mapOpt f l = some bs → ∀ b ∈ bs, ∃ a ∈ l, f a = some b := by
  intro l
  induction l with
  | nil => intro bs h; simp [mapOpt] at h; subst h; simp
  | cons a as ih =>
    intro bs h b hb
    simp only [mapOpt] at h
    split at h
    · cases h
    · next b0 hb0 =>
      split at h
      · cases h
      · next bs0 hbs0 =>
        cases h
        rcases List.mem_cons.mp hb with rfl | hb
        · exact ⟨a, by simp, hb0⟩
        · obtain ⟨a', ha', hf⟩ := ih bs0 hbs0 b hb
          exact ⟨a', by simp [ha'], hf⟩

theorem slice?_some {src : Bytes} {a b : Nat} (hab : a ≤ b) (hb : b ≤ src.length)
    (ha' : isBoundary src a = true) (hb' : isBoundary src b = true) :
    slice? src a b = some ((src.drop a).take (b - a)) := by
  simp [slice?, hab, hb, ha', hb']

theorem slice?_eq_some {src : Bytes} {a b : Nat} {t : Bytes} (h : slice? src a b = some t) :
    a ≤ b ∧ b ≤ src.length ∧ isBoundary src a = true ∧ isBoundary src b = true ∧
      t = (src.drop a).take (b - a) := by
  unfold slice? at h
  split at h
  · next hc => cases h; exact ⟨hc.1, hc.2.1, hc.2.2.1, hc.2.2.2, rfl⟩
  · cases h

/-! ## line starts: the byte-at-a-time form of the loop -/

/-- a line terminator ends right after byte `k`: `'\n'`, or a `'\r'` that is not followed by `'\n'` -/
def TermAt (r : Bytes) (k : Nat) : Prop :=
  r[k]? = some nl ∨ (r[k]? = some cr ∧ r[k + 1]? ≠ some nl)

/-- `lineStartsFrom` one byte at a time (the `'\r'` of `"\r\n"` pushes nothing, the `'\n'` does) -/
def lsGo : Nat → Bytes → List Nat
  | _, [] => []
  | i, b :: r =>
    if b = nl then (i + 1) :: lsGo (i + 1) r
    else if b = cr then (if r.head? = some nl then lsGo (i + 1) r else (i + 1) :: lsGo (i + 1) r)
    else lsGo (i + 1) r

theorem lsGo_cons (i b : Nat) (r : Bytes) : lsGo i (b :: r) =
    if b = nl then (i + 1) :: lsGo (i + 1) r
    else if b = cr then (if r.head? = some nl then lsGo (i + 1) r else (i + 1) :: lsGo (i + 1) r)
    else lsGo (i + 1) r := by rw [lsGo]

theorem lineStartsFrom_eq_lsGo (i : Nat) (r : Bytes) : lineStartsFrom i r = lsGo i r := by
  induction i, r using lineStartsFrom.induct with
  | case1 => simp [lineStartsFrom, lsGo]
  | case2 => simp [lineStartsFrom, lsGo, cr, nl]
  | case3 => simp [lineStartsFrom, lsGo, cr, nl]
  | case4 i b h1 h2 => simp [lineStartsFrom, lsGo, h1, h2]
  | case5 i r' ih => simp [lineStartsFrom, lsGo, cr, nl] at ih ⊢; exact ih
  | case6 i c r' h ih =>
    rw [lineStartsFrom]; simp only [h, if_true, if_false]; rw [ih]
    simp [lsGo, cr, nl, h]
  | case7 i c r' h ih =>
    rw [lineStartsFrom]; simp only [h, if_true, if_false]; rw [ih]
    simp [lsGo, cr, nl]
  | case8 i b c r' h1 h2 ih =>
    rw [lineStartsFrom]; simp only [h1, h2, if_false]; rw [ih]
    simp [lsGo, h1, h2]

theorem exists_nat_split {P : Nat → Prop} : (∃ k, P k) ↔ P 0 ∨ ∃ k, P (k + 1) := by
  constructor
  · rintro ⟨k, hk⟩
    cases k with
    | zero => exact Or.inl hk
    | succ k => exact Or.inr ⟨k, hk⟩
  · rintro (h | ⟨k, hk⟩)
    · exact ⟨0, h⟩
    · exact ⟨k + 1, hk⟩

theorem lsGo_mem : ∀ (r : Bytes) (i p : Nat), p ∈ lsGo i r ↔ ∃ k, p = i + k + 1 ∧ TermAt r k := by
  intro r
  induction r with
  | nil => intro i p; simp [lsGo, TermAt]
  | cons b r ih =>
    intro i p
    rw [exists_nat_split]
    have hshift : (∃ k, p = i + (k + 1) + 1 ∧ TermAt (b :: r) (k + 1)) ↔ p ∈ lsGo (i + 1) r := by
      rw [ih]
      constructor
      · rintro ⟨k, hp, ht⟩; exact ⟨k, by omega, by simpa [TermAt] using ht⟩
      · rintro ⟨k, hp, ht⟩; exact ⟨k, by omega, by simpa [TermAt] using ht⟩
    rw [hshift]
    have h0 : TermAt (b :: r) 0 ↔ (b = nl ∨ (b = cr ∧ r.head? ≠ some nl)) := by
      cases r <;> simp [TermAt]
    simp only [Nat.add_zero, h0]
    rw [lsGo_cons]
    by_cases h1 : b = nl
    · simp [h1]
    · by_cases h2 : b = cr
      · by_cases h3 : r.head? = some nl
        · simp [h1, h2, h3, cr, nl]
        · simp [h1, h2, h3, cr, nl]
      · simp [h1, h2]

theorem lsGo_gt (r : Bytes) (i p : Nat) (h : p ∈ lsGo i r) : i < p := by
  obtain ⟨k, hp, _⟩ := (lsGo_mem r i p).mp h; omega

theorem lsGo_sorted : ∀ (r : Bytes) (i : Nat), (lsGo i r).Pairwise (· < ·) := by
  intro r
  induction r with
  | nil => intro i; simp [lsGo]
  | cons b r ih =>
    intro i
    have hc : ((i + 1) :: lsGo (i + 1) r).Pairwise (· < ·) :=
      List.pairwise_cons.mpr ⟨fun p hp => lsGo_gt r (i + 1) p hp, ih (i + 1)⟩
    rw [lsGo_cons]
    split
    · exact hc
    · split
      · split
        · exact ih (i + 1)
        · exact hc
      · exact ih (i + 1)

/-- **the line starts**: `0`, and every position right after a line terminator -/
theorem mem_computeLineStarts (src : Bytes) (p : Nat) :
    p ∈ computeLineStarts src ↔ p = 0 ∨ ∃ k, p = k + 1 ∧ TermAt src k := by
  simp only [computeLineStarts, List.mem_cons, lineStartsFrom_eq_lsGo, lsGo_mem, Nat.zero_add]

theorem computeLineStarts_sorted (src : Bytes) : (computeLineStarts src).Pairwise (· < ·) := by
  simp only [computeLineStarts, lineStartsFrom_eq_lsGo]
  exact List.pairwise_cons.mpr ⟨fun p hp => lsGo_gt src 0 p hp, lsGo_sorted src 0⟩

theorem TermAt.lt {r : Bytes} {k : Nat} (h : TermAt r k) : k < r.length := by
  rcases h with h | ⟨h, _⟩ <;>
  · have := List.getElem?_eq_some_iff.mp h; exact this.1

theorem TermAt.byte {r : Bytes} {k : Nat} (h : TermAt r k) : ∃ b, r[k]? = some b ∧ b < 128 := by
  rcases h with h | ⟨h, _⟩
  · exact ⟨nl, h, by decide⟩
  · exact ⟨cr, h, by decide⟩


/-! ## the line index: `binary_search(..).unwrap_or_else(|x| x - 1)` -/

/-- number of elements `≤ t` -/
def cntLE (xs : List Nat) (t : Nat) : Nat := (xs.filter (· ≤ t)).length

theorem cntLE_cons (x : Nat) (xs : List Nat) (t : Nat) :
    cntLE (x :: xs) t = (if x ≤ t then 1 else 0) + cntLE xs t := by
  simp only [cntLE, List.filter_cons]
  split <;> simp_all <;> omega

theorem cntLE_le (xs : List Nat) (t : Nat) : cntLE xs t ≤ xs.length := List.length_filter_le _ _

theorem cntLE_zero_of_gt {xs : List Nat} {t : Nat} (h : ∀ x ∈ xs, t < x) : cntLE xs t = 0 := by
  simp only [cntLE, List.length_eq_zero_iff, List.filter_eq_nil_iff]
  intro a ha; have := h a ha; simp; omega

/-- on a strictly increasing list: found ⇒ index = (number of elements ≤ t) − 1; not found ⇒ the
insertion point is the number of elements ≤ t -/
theorem bsearch_spec : ∀ (xs : List Nat) (i t : Nat), xs.Pairwise (· < ·) →
    (bsearch xs i t = .found (i + cntLE xs t - 1) ∧ 0 < cntLE xs t) ∨
      bsearch xs i t = .insertAt (i + cntLE xs t) := by
  intro xs
  induction xs with
  | nil => intro i t _; right; simp [bsearch, cntLE]
  | cons x xs ih =>
    intro i t hp
    have hp' := List.pairwise_cons.mp hp
    rw [cntLE_cons]
    by_cases h1 : x = t
    · left
      have : cntLE xs t = 0 := cntLE_zero_of_gt (fun y hy => by have := hp'.1 y hy; omega)
      simp [bsearch, h1, this]
    · by_cases h2 : t < x
      · right
        have : cntLE xs t = 0 := cntLE_zero_of_gt (fun y hy => by have := hp'.1 y hy; omega)
        have h3 : ¬ x ≤ t := by omega
        simp [bsearch, h1, h2, h3, this]
      · have h3 : x ≤ t := by omega
        simp only [bsearch, h1, h2, h3, if_true, if_false]
        rcases ih (i + 1) t hp'.2 with ⟨h, hpos⟩ | h
        · left; rw [h]; exact ⟨by congr 1; omega, by omega⟩
        · right; rw [h]; congr 1; omega

theorem lineIdx_eq {xs : List Nat} (hp : xs.Pairwise (· < ·)) (t : Nat) :
    lineIdx xs t = sub1? (cntLE xs t) := by
  unfold lineIdx
  rcases bsearch_spec xs 0 t hp with ⟨h, hpos⟩ | h
  · rw [h]; simp [sub1?]; omega
  · rw [h]; simp

/-- in a strictly increasing list the elements `≤ t` are exactly the first `cntLE xs t` -/
theorem sorted_le_iff : ∀ (xs : List Nat), xs.Pairwise (· < ·) → ∀ (t j : Nat) (x : Nat),
    xs[j]? = some x → (x ≤ t ↔ j < cntLE xs t) := by
  intro xs
  induction xs with
  | nil => intro _ t j x h; simp at h
  | cons y ys ih =>
    intro hp t j x h
    have hp' := List.pairwise_cons.mp hp
    rw [cntLE_cons]
    cases j with
    | zero =>
      simp at h; subst h
      by_cases hy : y ≤ t
      · simp [hy]; omega
      · have : cntLE ys t = 0 := cntLE_zero_of_gt (fun z hz => by have := hp'.1 z hz; omega)
        simp [hy, this]
    | succ j =>
      simp at h
      have hx : x ∈ ys := List.mem_of_getElem? h
      have hyx := hp'.1 x hx
      by_cases hy : y ≤ t
      · have := ih hp'.2 t j x h
        simp [hy]; omega
      · have : cntLE ys t = 0 := cntLE_zero_of_gt (fun z hz => by have := hp'.1 z hz; omega)
        simp [hy, this]; omega

/-! ## character boundaries -/

theorem isBoundary_le {src : Bytes} {p : Nat} (h : isBoundary src p = true) : p ≤ src.length := by
  simp only [isBoundary, Bool.or_eq_true, beq_iff_eq] at h
  rcases h with (h | h) | h
  · omega
  · omega
  · split at h
    · next b hb => have := (List.getElem?_eq_some_iff.mp hb).1; omega
    · cases h

theorem isBoundary_of_not_cont {src : Bytes} {p b : Nat} (h : src[p]? = some b) (hb : isCont b = false) :
    isBoundary src p = true := by
  simp [isBoundary, h, hb]

/-- a valid text may be cut at every character boundary -/
theorem valid_cut {src : Bytes} (hv : validUtf8 src = true) {p : Nat} (hp : isBoundary src p = true) :
    validUtf8 (src.take p) = true ∧ validUtf8 (src.drop p) = true := by
  apply valid_split src hv (src.take p) (src.drop p) (List.take_append_drop p src).symm
  intro b r' hr
  have hb : src[p]? = some b := by
    have : (src.drop p)[0]? = some b := by rw [hr]; rfl
    simpa [List.getElem?_drop] using this
  simp only [isBoundary, Bool.or_eq_true, beq_iff_eq] at hp
  rcases hp with (h | h) | h
  · subst h
    cases src with
    | nil => simp at hb
    | cons x xs => simp at hb; subst hb; exact valid_head_not_cont hv
  · have := (List.getElem?_eq_some_iff.mp hb).1; omega
  · rw [hb] at h; simpa using h

/-- the position after an ASCII byte of a valid text is a character boundary -/
theorem boundary_after_ascii {src : Bytes} (hv : validUtf8 src = true) {k b : Nat}
    (h : src[k]? = some b) (hb : b < 128) : isBoundary src (k + 1) = true := by
  have hnc : isCont b = false := by simp [isCont]; omega
  have hk := valid_cut hv (isBoundary_of_not_cont h hnc)
  have hlt := (List.getElem?_eq_some_iff.mp h).1
  have hd : src.drop k = b :: src.drop (k + 1) := by
    rw [List.drop_eq_getElem_cons hlt]
    congr 1
    exact (List.getElem?_eq_some_iff.mp h).2
  rw [hd] at hk
  have hr := valid_tail_ascii hk.2 hb
  cases hc : src[k + 1]? with
  | none =>
    have : src.length ≤ k + 1 := by simpa using hc
    have : k + 1 = src.length := by omega
    simp [isBoundary, this]
  | some c =>
    have hlt' := (List.getElem?_eq_some_iff.mp hc).1
    have hd' : src.drop (k + 1) = c :: src.drop (k + 1 + 1) := by
      rw [List.drop_eq_getElem_cons hlt']
      congr 1
      exact (List.getElem?_eq_some_iff.mp hc).2
    rw [hd'] at hr
    exact isBoundary_of_not_cont hc (valid_head_not_cont hr)

theorem valid_slice {src : Bytes} (hv : validUtf8 src = true) {a b : Nat} {t : Bytes}
    (h : slice? src a b = some t) : validUtf8 t = true := by
  obtain ⟨hab, hb, ha', hb', rfl⟩ := slice?_eq_some h
  have h1 := (valid_cut hv ha').2
  -- `b - a` is a boundary of `src.drop a`
  have hbd : isBoundary (src.drop a) (b - a) = true := by
    simp only [isBoundary, Bool.or_eq_true, beq_iff_eq, List.length_drop, List.getElem?_drop] at hb' ⊢
    rcases hb' with (h | h) | h
    · left; left; omega
    · left; right; omega
    · by_cases hba : b = a
      · left; left; omega
      · right
        have : a + (b - a) = b := by omega
        rw [this]; exact h
  exact (valid_cut h1 hbd).1

/-! ## every line start and line end is a character boundary; `line_col_from_span` succeeds -/

theorem lineStart_bound {src : Bytes} {p : Nat} (h : p ∈ computeLineStarts src) : p ≤ src.length := by
  rcases (mem_computeLineStarts src p).mp h with rfl | ⟨k, rfl, ht⟩
  · omega
  · have := ht.lt; omega

theorem lineStart_boundary {src : Bytes} (hv : validUtf8 src = true) {p : Nat}
    (h : p ∈ computeLineStarts src) : isBoundary src p = true := by
  rcases (mem_computeLineStarts src p).mp h with rfl | ⟨k, rfl, ht⟩
  · simp [isBoundary]
  · obtain ⟨b, hb, hlt⟩ := ht.byte
    exact boundary_after_ascii hv hb hlt

/-- what `line_col_from_span` returns for a position that is inside the text and on a boundary -/
structure LineColOk (src : Bytes) (start : Nat) (lc : LineCol) : Prop where
  line_pos : 1 ≤ lc.line
  col_pos : 1 ≤ lc.col
  ls_le : lc.lineStart ≤ start
  le_ge : start ≤ lc.lineEnd
  le_len : lc.lineEnd ≤ src.length
  ls_bnd : isBoundary src lc.lineStart = true
  le_bnd : isBoundary src lc.lineEnd = true
  bounds : lineBounds src (computeLineStarts src) (lc.line - 1) = some (lc.lineStart, lc.lineEnd)
  line_eq : lc.line = cntLE (computeLineStarts src) start
  ls_mem : lc.lineStart ∈ computeLineStarts src
  col_eq : lc.col = visualCol ((src.drop lc.lineStart).take (start - lc.lineStart)) + 1
  le_eq : (lc.line < (computeLineStarts src).length ∧
            (computeLineStarts src)[lc.line]? = some (lc.lineEnd + 1)) ∨
          (lc.line = (computeLineStarts src).length ∧ lc.lineEnd = src.length)

theorem lineColFromSpan_ok {src : Bytes} (hv : validUtf8 src = true) {start : Nat}
    (hs : start ≤ src.length) (hb : isBoundary src start = true) :
    ∃ lc, lineColFromSpan src start = some lc ∧ LineColOk src start lc := by
  have hsorted := computeLineStarts_sorted src
  have hcnt : 1 ≤ cntLE (computeLineStarts src) start := by
    simp [computeLineStarts, cntLE_cons]
  have hlen := cntLE_le (computeLineStarts src) start
  generalize hst : computeLineStarts src = starts at hsorted hcnt hlen
  generalize hk : cntLE starts start = k at hcnt hlen
  have hidx : lineIdx starts start = some (k - 1) := by
    rw [lineIdx_eq hsorted, hk]; exact sub1?_pos hcnt
  have hlt : k - 1 < starts.length := by omega
  -- the line start
  have hls : starts[k - 1]? = some starts[k - 1] := List.getElem?_eq_getElem hlt
  generalize hlsv : starts[k - 1] = ls at hls
  have hls_mem : ls ∈ computeLineStarts src := by rw [hst]; exact List.mem_of_getElem? hls
  have hls_le : ls ≤ start := by
    have := (sorted_le_iff starts hsorted start (k - 1) ls hls).mpr (by omega)
    exact this
  have hls_bnd := lineStart_boundary hv hls_mem
  have hpre := slice?_some hls_le hs hls_bnd hb
  by_cases hnext : k - 1 + 1 < starts.length
  · -- there is a next line start `nx = q + 1`, `q` the position of the terminating `'\n'` / `'\r'`
    have hnx : starts[k - 1 + 1]? = some starts[k - 1 + 1] := List.getElem?_eq_getElem hnext
    generalize hnxv : starts[k - 1 + 1] = nx at hnx
    have hnx_mem : nx ∈ computeLineStarts src := by rw [hst]; exact List.mem_of_getElem? hnx
    have hnx_gt : start < nx := by
      have := (sorted_le_iff starts hsorted start (k - 1 + 1) nx hnx)
      rw [hk] at this
      have h2 : ¬ (k - 1 + 1 < k) := by omega
      have := mt this.mp h2
      omega
    rcases (mem_computeLineStarts src nx).mp hnx_mem with rfl | ⟨q, rfl, ht⟩
    · omega
    · have hbounds : lineBounds src starts (k - 1) = some (ls, q) := by
        simp [lineBounds, hls, hnext, hnx, hnxv, sub1?_succ]
      obtain ⟨b, hbq, hblt⟩ := ht.byte
      have hq_bnd : isBoundary src q = true :=
        isBoundary_of_not_cont hbq (by simp [isCont]; omega)
      refine ⟨⟨k - 1 + 1, visualCol ((src.drop ls).take (start - ls)) + 1, ls, q⟩, ?_, ?_⟩
      · simp [lineColFromSpan, hst, hidx, hbounds, hpre]
      · have hk1 : k - 1 + 1 = k := by omega
        exact ⟨by simp, by simp, hls_le, by simp; omega, by simp; have := ht.lt; omega, hls_bnd, hq_bnd,
          by simpa [hst] using hbounds, by simp [hst, hk]; omega, hls_mem, rfl,
          Or.inl ⟨by simp [hst]; omega, by simp [hst]; rw [← hk1]; exact hnx⟩⟩
  · have hbounds : lineBounds src starts (k - 1) = some (ls, src.length) := by
      simp [lineBounds, hls, hnext]
    refine ⟨⟨k - 1 + 1, visualCol ((src.drop ls).take (start - ls)) + 1, ls, src.length⟩, ?_, ?_⟩
    · simp [lineColFromSpan, hst, hidx, hbounds, hpre]
    · exact ⟨by simp, by simp, hls_le, hs, by simp, hls_bnd, by simp [isBoundary],
        by simpa [hst] using hbounds, by simp [hst, hk]; omega, hls_mem, rfl,
        Or.inr ⟨by simp [hst]; omega, rfl⟩⟩

end NaijaVerif.Render
