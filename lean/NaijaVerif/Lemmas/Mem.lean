import NaijaVerif.Model.Mem
import NaijaVerif.Props.C12
/-
Invariant **Safe** of the FIXED memory discipline and its preservation by every primitive of
`MemEval` (helper lemmas for `Props/C02.lean`).

`Safe xs s`: `xs` are the handles of values the current step holds in hand ("extras", treated like
temporaries on top of the stack); every handle reachable from a variable slot, the output list, the
temporaries stack or the extras
  * is live and holds its own cid (`s.valid`), is owned or static/persistent (no alias of
    reclaimable storage exists), and has a cid below `nextCid`;
  * pool handles are pairwise distinct allocations (linear ownership: counted with `cnt`);
  * variables and the output never point into the frame;
  * the temporaries stack is sorted with respect to its marks (`TempsOK`): everything below a mark
    `m` lives below frame index `m`;
  * every live slot belongs to an existing pool.
-/
namespace NaijaVerif.Mem
open NaijaVerif NaijaVerif.Pool

/-! ### Sub-multisets of handle lists, by counting -/

/-- `Sub ys xs`: `ys` is a sub-multiset of `xs`. -/
def Sub (ys xs : List Handle) : Prop := ∀ p : Handle → Bool, ys.countP p ≤ xs.countP p

theorem Sub.refl (xs : List Handle) : Sub xs xs := fun _ => Nat.le_refl _

theorem Sub.trans {a b c : List Handle} (h₁ : Sub a b) (h₂ : Sub b c) : Sub a c :=
  fun p => Nat.le_trans (h₁ p) (h₂ p)

theorem Sub.mem {ys xs : List Handle} (h : Sub ys xs) {a : Handle} (ha : a ∈ ys) : a ∈ xs := by
  have h1 := h (fun b => b == a)
  have h2 : 0 < ys.countP (fun b => b == a) := List.countP_pos_iff.mpr ⟨a, ha, by simp⟩
  have h3 : 0 < xs.countP (fun b => b == a) := by omega
  obtain ⟨b, hb, hba⟩ := List.countP_pos_iff.mp h3
  have : b = a := by simpa using hba
  exact this ▸ hb

/-- Tactic for sub-multiset goals over appends. -/
macro "sub_tac" : tactic =>
  `(tactic| (intro p; simp only [MVal.handles, MVal.handlesL, List.countP_append, List.countP_cons,
      List.countP_nil, List.append_assoc, List.cons_append, List.nil_append] <;> omega))

theorem Sub.nil (xs : List Handle) : Sub [] xs := by intro p; simp

def cnt (X : Nat) (hs : List Handle) : Nat := hs.countP (fun h => h.region.isPool && h.cid == X)

theorem Sub.cnt {ys xs : List Handle} (h : Sub ys xs) (X : Nat) : cnt X ys ≤ cnt X xs := h _

/-! ### Handles reachable from a state -/

def slotsH (sc : List Slot) : List Handle := sc.flatMap (fun sl => sl.val.handles)
def envH (env : List (List Slot)) : List Handle := env.flatMap slotsH

def tempsH : List TE → List Handle
  | [] => []
  | .val v :: r => v.handles ++ tempsH r
  | .mark _ _ :: r => tempsH r

abbrev St.allH (s : St) : List Handle := envH s.env ++ MVal.handlesL s.out ++ tempsH s.temps

def Good (h : Handle) : Prop := h.owned = true ∨ h.region = .static ∨ h.region = .persist

def FrameBelow (t : Nat) (hs : List Handle) : Prop := ∀ h ∈ hs, ∀ k, h.region = .frame k → k < t

def NoFrame (hs : List Handle) : Prop := ∀ h ∈ hs, h.region.isFrame = false

def TempsOK : Nat → List TE → Prop
  | _, [] => True
  | t, .val v :: r => FrameBelow t v.handles ∧ TempsOK t r
  | t, .mark m _ :: r => m ≤ t ∧ TempsOK m r

def slotKey (t : Nat × Nat × Nat) : Nat × Nat := (t.1, t.2.1)

/-- The model's table of live slots agrees with the pool models of C12 (`Model/Pool.lean`): every
pool satisfies its invariant, its ghost `live` list is exactly the set of slots in the table, and no
slot is in the table twice. -/
structure PoolOK (pools : List Pool) (slots : List (Nat × Nat × Nat)) : Prop where
  inv : ∀ c p, pools[c]? = some p → p.Inv ∧ ∀ i, i ∈ p.live ↔ ∃ x, (c, i, x) ∈ slots
  keys : (slots.map slotKey).Nodup

structure Safe (xs : List Handle) (s : St) : Prop where
  ok : ∀ h ∈ xs ++ s.allH, s.valid h = true ∧ Good h ∧ (h.region.isPool = true → h.cid < s.nextCid)
  uniq : ∀ X, cnt X (xs ++ s.allH) ≤ 1
  clean : NoFrame (envH s.env ++ MVal.handlesL s.out)
  xsBelow : FrameBelow s.top xs
  temps : TempsOK s.top s.temps
  slotsOk : ∀ c i x, (c, i, x) ∈ s.slots → (s.pools[c]?).isSome = true
  poolOk : PoolOK s.pools s.slots

/-! ### Hoare triples over `M` -/

def Stop.benign : Stop → Prop
  | .poisoned _ => False
  | .badFree => False
  | _ => True

def Triple (P : St → Prop) (m : M α) (Q : α → St → Prop) : Prop :=
  ∀ s, P s → (∀ a s', m s = .ok a s' → Q a s') ∧ (∀ o s', m s = .stop o s' → o.benign)

theorem Triple.bind {P : St → Prop} {m : M α} {Q : α → St → Prop} {k : α → M β}
    {R : β → St → Prop} (h₁ : Triple P m Q) (h₂ : ∀ a, Triple (Q a) (k a) R) :
    Triple P (m >>= k) R := by
  intro s hs
  have hm := h₁ s hs
  show (∀ a s', M.bind m k s = .ok a s' → R a s') ∧ (∀ o s', M.bind m k s = .stop o s' → o.benign)
  unfold M.bind
  cases hms : m s with
  | ok a s1 =>
    have := h₂ a s1 (hm.1 a s1 hms)
    exact this
  | stop o s1 =>
    refine ⟨fun a s' h => (by cases h), fun o' s' h => ?_⟩
    cases h
    exact hm.2 o s1 hms

theorem Triple.pure {P : St → Prop} {Q : α → St → Prop} (a : α) (h : ∀ s, P s → Q a s) :
    Triple P (pure a : M α) Q := by
  intro s hs
  refine ⟨fun a' s' hm => ?_, fun o s' hm => by cases hm⟩
  cases hm; exact h s hs

theorem Triple.pre {P P' : St → Prop} {m : M α} {Q : α → St → Prop} (h : Triple P m Q)
    (hp : ∀ s, P' s → P s) : Triple P' m Q := fun s hs => h s (hp s hs)

theorem Triple.post {P : St → Prop} {m : M α} {Q Q' : α → St → Prop} (h : Triple P m Q)
    (hq : ∀ a s, Q a s → Q' a s) : Triple P m Q' := by
  intro s hs
  have := h s hs
  exact ⟨fun a s' hm => hq a s' (this.1 a s' hm), this.2⟩

theorem Triple.halt_benign {P : St → Prop} {Q : α → St → Prop} (o : Stop) (h : o.benign) :
    Triple P (halt o : M α) Q := by
  intro s _
  refine ⟨fun a s' hm => (by cases hm), fun o' s' hm => ?_⟩
  cases hm; exact h

theorem Triple.seq {P : St → Prop} {m : M Unit} {Q : St → Prop} {k : M β}
    {R : β → St → Prop} (h₁ : Triple P m (fun _ => Q)) (h₂ : Triple Q k R) :
    Triple P (do m; k) R := Triple.bind h₁ (fun _ => h₂)

/-- A state function that never stops. -/
theorem Triple.total {P : St → Prop} {Q : α → St → Prop} (f : St → α × St)
    (h : ∀ s, P s → Q (f s).1 (f s).2) : Triple P (fun s => .ok (f s).1 (f s).2) Q := by
  intro s hs
  refine ⟨fun a s' hm => ?_, fun o s' hm => by cases hm⟩
  cases hm; exact h s hs

/-! ### Weakening -/

theorem FrameBelow.mono {t t' : Nat} {hs : List Handle} (h : FrameBelow t hs) (ht : t ≤ t') :
    FrameBelow t' hs := fun a ha k hk => Nat.lt_of_lt_of_le (h a ha k hk) ht

theorem TempsOK.mono : ∀ {ts : List TE} {t t' : Nat}, TempsOK t ts → t ≤ t' → TempsOK t' ts
  | [], _, _, _, _ => trivial
  | .val _ :: _, _, _, h, ht => ⟨h.1.mono ht, TempsOK.mono h.2 ht⟩
  | .mark _ _ :: _, _, _, h, ht => ⟨Nat.le_trans h.1 ht, h.2⟩

theorem TempsOK.below : ∀ {ts : List TE} {t : Nat}, TempsOK t ts → FrameBelow t (tempsH ts)
  | [], _, _ => by intro a ha; simp [tempsH] at ha
  | .val v :: r, t, h => by
      intro a ha k hk
      simp only [tempsH, List.mem_append] at ha
      cases ha with
      | inl ha => exact h.1 a ha k hk
      | inr ha => exact TempsOK.below h.2 a ha k hk
  | .mark m _ :: r, t, h => by
      intro a ha k hk
      simp only [tempsH] at ha
      exact Nat.lt_of_lt_of_le (TempsOK.below h.2 a ha k hk) h.1

/-- Extras may be dropped / permuted. -/
theorem Safe.mono {xs ys : List Handle} {s : St} (h : Safe xs s) (hsub : Sub ys xs) : Safe ys s where
  ok := by
    intro a ha
    apply h.ok
    rcases List.mem_append.mp ha with ha | ha
    · exact List.mem_append.mpr (.inl (hsub.mem ha))
    · exact List.mem_append.mpr (.inr ha)
  uniq := by
    intro X
    have := h.uniq X
    have h2 := hsub.cnt X
    simp only [cnt, List.countP_append] at *
    omega
  clean := h.clean
  xsBelow := fun a ha => h.xsBelow a (hsub.mem ha)
  temps := h.temps
  slotsOk := h.slotsOk
  poolOk := h.poolOk

/-- `Safe` only looks at the memory part of the state. -/
theorem Safe.congr {xs : List Handle} {s s' : St} (h : Safe xs s)
    (e1 : s'.env = s.env) (e2 : s'.out = s.out) (e3 : s'.temps = s.temps)
    (e4 : s'.frame = s.frame) (e5 : s'.top = s.top) (e6 : s'.pools = s.pools)
    (e7 : s'.slots = s.slots) (e8 : s'.nextCid = s.nextCid) : Safe xs s' := by
  have hall : s'.allH = s.allH := by simp [St.allH, e1, e2, e3]
  have hval : ∀ a, s'.valid a = s.valid a := by intro a; simp [St.valid, e4, e7]
  exact {
    ok := by intro a ha; rw [hall] at ha; rw [hval, e8]; exact h.ok a ha
    uniq := by rw [hall]; exact h.uniq
    clean := by rw [e1, e2]; exact h.clean
    xsBelow := by rw [e5]; exact h.xsBelow
    temps := by rw [e5, e3]; exact h.temps
    slotsOk := by rw [e6, e7]; exact h.slotsOk
    poolOk := by rw [e6, e7]; exact h.poolOk }

/-- Closes `Safe xs s'` when `s'` differs from `s` outside the memory part only. -/
macro "safe_congr" h:term : tactic =>
  `(tactic| exact Safe.congr $h rfl rfl rfl rfl rfl rfl rfl rfl)

/-! ### Oracle primitives, events -/

/-- Unfolds a primitive in the hypothesis `hm : prim s = …` and splits its matches. -/
macro "prim_cases" hm:ident : tactic =>
  `(tactic| (repeat' (split at $hm:ident)) <;> (first | cases $hm:ident | skip))

theorem emit_spec (xs : List Handle) (e : Ev) :
    Triple (Safe xs) (emit e) (fun _ => Safe xs) := by
  intro s h
  refine ⟨fun a s' hm => ?_, fun o s' hm => by cases hm⟩
  cases hm; safe_congr h

theorem layTok_spec (xs : List Handle) : Triple (Safe xs) layTok (fun _ => Safe xs) := by
  intro s h
  refine ⟨fun a s' hm => ?_, fun o s' hm => ?_⟩ <;> unfold layTok at hm <;> split at hm <;> cases hm
  · safe_congr h
  · trivial

theorem tokWith_spec (xs : List Handle) (pick : CTok → Option α) (ev : α → Ev) (why : Nat) :
    Triple (Safe xs) (tokWith pick ev why) (fun _ => Safe xs) := by
  intro s h
  refine ⟨fun a s' hm => ?_, fun o s' hm => ?_⟩ <;> unfold tokWith at hm <;> split at hm
  · split at hm <;> cases hm
    safe_congr h
  · cases hm
  · split at hm <;> cases hm
    trivial
  · cases hm; trivial

theorem tokBr_spec (xs : List Handle) : Triple (Safe xs) tokBr (fun _ => Safe xs) := tokWith_spec xs _ _ _
theorem tokLp_spec (xs : List Handle) : Triple (Safe xs) tokLp (fun _ => Safe xs) := tokWith_spec xs _ _ _
theorem tokSc_spec (xs : List Handle) : Triple (Safe xs) tokSc (fun _ => Safe xs) := tokWith_spec xs _ _ _
theorem tokIx_spec (xs : List Handle) : Triple (Safe xs) tokIx (fun _ => Safe xs) := tokWith_spec xs _ _ _
theorem tokSplit_spec (xs : List Handle) : Triple (Safe xs) tokSplit (fun _ => Safe xs) :=
  tokWith_spec xs _ _ _
theorem tokCall_spec (xs : List Handle) (n : Nat) :
    Triple (Safe xs) (tokCall n) (fun _ => Safe xs) := tokWith_spec xs _ _ _

theorem errAt_spec (xs : List Handle) (k : Nat) (sp : Span) :
    Triple (Safe xs) (errAt k sp) (fun _ => Safe xs) := by
  intro s h
  refine ⟨fun a s' hm => ?_, fun o s' hm => ?_⟩ <;> unfold errAt at hm <;> split at hm
  · split at hm <;> cases hm
    exact h
  · cases hm; exact h
  · split at hm <;> cases hm
    trivial
  · cases hm

theorem shapeError_spec {P : St → Prop} {Q : α → St → Prop} : Triple P (shapeError : M α) Q := by
  intro s _
  refine ⟨fun a s' hm => ?_, fun o s' hm => ?_⟩ <;> unfold shapeError at hm <;> split at hm <;> cases hm
  · trivial
  · trivial

/-! ### Reads -/

theorem readH_spec (xs : List Handle) (site : Nat) (a : Handle) :
    Triple (fun s => Safe xs s ∧ a ∈ xs ++ s.allH) (readH site a)
      (fun _ s => Safe xs s) := by
  intro s ⟨h, ha⟩
  refine ⟨fun _ s' hm => ?_, fun o s' hm => ?_⟩ <;> unfold readH at hm <;>
    rw [if_pos (h.ok a ha).1] at hm <;> cases hm
  safe_congr h

theorem readHs_spec (xs : List Handle) (site : Nat) : ∀ (as : List Handle),
    Triple (fun s => Safe xs s ∧ ∀ a ∈ as, a ∈ xs ++ s.allH) (readHs site as) (fun _ => Safe xs)
  | [] => Triple.pure () (fun _ h => h.1)
  | a :: as => by
    unfold readHs
    refine Triple.bind (Q := fun _ s => Safe xs s ∧ ∀ a ∈ as, a ∈ xs ++ s.allH) ?_
      (fun _ => readHs_spec xs site as)
    intro s ⟨h, hall⟩
    refine ⟨fun _ s' hm => ?_, fun o s' hm => ?_⟩ <;> unfold readH at hm <;>
      rw [if_pos (h.ok a (hall a List.mem_cons_self)).1] at hm <;> cases hm
    refine ⟨by safe_congr h, ?_⟩
    intro b hb
    exact hall b (List.mem_cons_of_mem _ hb)

/-- Reading handles that are all among the extras. -/
theorem readHs_extras (xs : List Handle) (site : Nat) (as : List Handle) (hsub : ∀ a ∈ as, a ∈ xs) :
    Triple (Safe xs) (readHs site as) (fun _ => Safe xs) :=
  (readHs_spec xs site as).pre (fun _ h => ⟨h, fun a ha => List.mem_append.mpr (.inl (hsub a ha))⟩)

/-! ### Allocation -/

theorem valid_mono (s s' : St) (hf : ∀ c, c ∈ s.frame → c ∈ s'.frame)
    (hs : ∀ c, c ∈ s.slots → c ∈ s'.slots) (a : Handle) (h : s.valid a = true) :
    s'.valid a = true := by
  unfold St.valid at *
  split <;> simp_all

theorem valid_of (s s' : St) (b : Handle) (hb : s.valid b = true)
    (hp : ∀ c i, b.region = .pool c i → (c, i, b.cid) ∈ s.slots → (c, i, b.cid) ∈ s'.slots)
    (hf : ∀ k, b.region = .frame k → (k, b.cid) ∈ s.frame → (k, b.cid) ∈ s'.frame) :
    s'.valid b = true := by
  unfold St.valid at *
  cases hr : b.region <;> simp_all

theorem cnt_cons (X : Nat) (a : Handle) (l : List Handle) :
    cnt X (a :: l) = cnt X l + (if a.region.isPool && a.cid == X then 1 else 0) := by
  simp [cnt, List.countP_cons]

theorem cnt_append (X : Nat) (l₁ l₂ : List Handle) : cnt X (l₁ ++ l₂) = cnt X l₁ + cnt X l₂ := by
  simp [cnt, List.countP_append]

theorem cnt_eq_zero_of_lt {n : Nat} {l : List Handle}
    (h : ∀ a ∈ l, a.region.isPool = true → a.cid < n) : cnt n l = 0 := by
  unfold cnt
  rw [List.countP_eq_zero]
  intro a ha
  have := h a ha
  simp; intro hp; have := this hp; omega

theorem cnt_pos_of_mem {X : Nat} {l : List Handle} {a : Handle} (ha : a ∈ l)
    (hp : a.region.isPool = true) (hc : a.cid = X) : 0 < cnt X l := by
  unfold cnt
  exact List.countP_pos_iff.mpr ⟨a, ha, by simp [hp, hc]⟩

theorem freshCt_spec (xs : List Handle) : Triple (Safe xs) freshCt (fun _ => Safe xs) := by
  intro s h
  refine ⟨fun a s' hm => ?_, fun o s' hm => (by cases hm)⟩
  cases hm; safe_congr h

theorem allocFrame_spec (xs : List Handle) (b : Bool) (ct : Nat) :
    Triple (Safe xs) (allocFrame b ct)
      (fun h s => Safe (h :: xs) s ∧ h.isStr = b ∧ h.region.isFrame = true) := by
  intro s h
  refine ⟨fun a s' hm => ?_, fun o s' hm => by cases hm⟩
  cases hm
  refine ⟨?_, rfl, rfl⟩
  have hv : ∀ a, s.valid a = true →
      St.valid { s with frame := (s.top, s.nextCid) :: s.frame, top := s.top + 1,
                        nextCid := s.nextCid + 1 } a = true :=
    by
      intro a ha
      refine valid_mono s _ ?_ ?_ a ha
      · intro c hc; exact List.mem_cons_of_mem _ hc
      · intro c hc; exact hc
  exact {
    ok := by
      intro a ha
      simp only [List.cons_append, List.mem_cons] at ha
      rcases ha with rfl | ha
      · refine ⟨by simp [St.valid], .inl rfl, fun hp => by simp [Region.isPool] at hp⟩
      · have := h.ok a ha
        exact ⟨hv a this.1, this.2.1, fun hp => Nat.lt_succ_of_lt (this.2.2 hp)⟩
    uniq := by
      intro X
      have := h.uniq X
      simp only [List.cons_append, cnt_cons, Region.isPool] at *
      simpa using this
    clean := h.clean
    xsBelow := by
      intro a ha k hk
      simp only [List.mem_cons] at ha
      rcases ha with rfl | ha
      · simp at hk; subst hk; exact Nat.lt_succ_self _
      · exact Nat.lt_succ_of_lt (h.xsBelow a ha k hk)
    temps := h.temps.mono (Nat.le_succ _)
    slotsOk := h.slotsOk
    poolOk := h.poolOk }

theorem allocPersist_spec (xs : List Handle) (b : Bool) (ct : Nat) :
    Triple (Safe xs) (allocPersist b ct)
      (fun h s => Safe (h :: xs) s ∧ h.isStr = b ∧ h.region.isFrame = false) := by
  intro s h
  refine ⟨fun a s' hm => ?_, fun o s' hm => by cases hm⟩
  cases hm
  refine ⟨?_, rfl, rfl⟩
  exact {
    ok := by
      intro a ha
      simp only [List.cons_append, List.mem_cons] at ha
      rcases ha with rfl | ha
      · refine ⟨by simp [St.valid], .inl rfl, fun hp => by simp [Region.isPool] at hp⟩
      · have := h.ok a ha
        exact ⟨this.1, this.2.1, fun hp => Nat.lt_succ_of_lt (this.2.2 hp)⟩
    uniq := by
      intro X
      have := h.uniq X
      simp only [List.cons_append, cnt_cons, Region.isPool] at *
      simpa using this
    clean := h.clean
    xsBelow := by
      intro a ha k hk
      simp only [List.mem_cons] at ha
      rcases ha with rfl | ha
      · simp at hk
      · exact h.xsBelow a ha k hk
    temps := h.temps
    slotsOk := h.slotsOk
    poolOk := h.poolOk }

theorem getElem?_set_isSome {α : Type} (l : List α) (c c' : Nat) (x : α)
    (h : (l[c']?).isSome = true) : ((l.set c x)[c']?).isSome = true := by
  simp only [List.getElem?_set]
  split
  · split <;> simp_all
  · exact h

theorem key_inj_of_nodup : ∀ {l : List (Nat × Nat × Nat)}, (l.map slotKey).Nodup →
    ∀ {a b}, a ∈ l → b ∈ l → slotKey a = slotKey b → a = b
  | [], _, _, _, ha, _, _ => by cases ha
  | t :: l, hnd, a, b, ha, hb, hk => by
    simp only [List.map_cons, List.nodup_cons, List.mem_map, not_exists, not_and] at hnd
    simp only [List.mem_cons] at ha hb
    rcases ha with rfl | ha <;> rcases hb with rfl | hb
    · rfl
    · exact absurd hk.symm (hnd.1 b hb)
    · exact absurd hk (hnd.1 a ha)
    · exact key_inj_of_nodup hnd.2 ha hb hk

theorem nodup_of_map_key : ∀ {l : List (Nat × Nat × Nat)}, (l.map slotKey).Nodup → l.Nodup
  | [], _ => List.nodup_nil
  | t :: l, h => by
    simp only [List.map_cons, List.nodup_cons, List.mem_map, not_exists, not_and] at h
    refine List.nodup_cons.mpr ⟨fun ht => h.1 t ht rfl, nodup_of_map_key h.2⟩

theorem PoolOK.alloc {pools : List Pool} {slots : List (Nat × Nat × Nat)} (h : PoolOK pools slots)
    {c i x : Nat} {p p' : Pool} (hp : pools[c]? = some p) (ha : p.alloc = some (i, p')) :
    PoolOK (pools.set c p') ((c, i, x) :: slots) := by
  obtain ⟨hinv, hlive⟩ := h.inv c p hp
  obtain ⟨hinv', hnl, hlive', -⟩ := Pool.alloc_spec p p' i hinv ha
  have hclt : c < pools.length := by
    rcases Nat.lt_or_ge c pools.length with h1 | h1
    · exact h1
    · rw [List.getElem?_eq_none h1] at hp; cases hp
  constructor
  · intro c' q hq
    rw [List.getElem?_set] at hq
    split at hq
    · rename_i hcc
      subst hcc
      simp only [hclt, Option.some.injEq] at hq
      subst hq
      refine ⟨hinv', fun j => ?_⟩
      rw [hlive']
      simp only [List.mem_cons, Prod.mk.injEq, true_and]
      constructor
      · rintro (rfl | hj)
        · exact ⟨x, .inl ⟨rfl, rfl⟩⟩
        · obtain ⟨y, hy⟩ := (hlive j).mp hj
          exact ⟨y, .inr hy⟩
      · rintro ⟨y, (⟨rfl, rfl⟩ | hy)⟩
        · exact .inl rfl
        · exact .inr ((hlive j).mpr ⟨y, hy⟩)
    · rename_i hcc
      obtain ⟨hq1, hq2⟩ := h.inv c' q hq
      refine ⟨hq1, fun j => ?_⟩
      rw [hq2 j]
      simp only [List.mem_cons, Prod.mk.injEq]
      constructor
      · rintro ⟨y, hy⟩; exact ⟨y, .inr hy⟩
      · rintro ⟨y, (⟨rfl, _⟩ | hy)⟩
        · exact absurd rfl hcc
        · exact ⟨y, hy⟩
  · simp only [List.map_cons, List.nodup_cons, List.mem_map, not_exists, not_and]
    refine ⟨?_, h.keys⟩
    intro t ht hk
    obtain ⟨c', i', y⟩ := t
    simp only [slotKey, Prod.mk.injEq] at hk
    obtain ⟨rfl, rfl⟩ := hk
    exact hnl ((hlive _).mpr ⟨y, ht⟩)

theorem PoolOK.free {pools : List Pool} {slots : List (Nat × Nat × Nat)} (h : PoolOK pools slots)
    {c i x : Nat} {p : Pool} (hp : pools[c]? = some p) (hm : (c, i, x) ∈ slots) :
    i ∈ p.live ∧ PoolOK (pools.set c (p.dealloc i)) (slots.erase (c, i, x)) := by
  obtain ⟨hinv, hlive⟩ := h.inv c p hp
  have hil : i ∈ p.live := (hlive i).mpr ⟨x, hm⟩
  obtain ⟨hinv', hni, hother, -⟩ := Pool.dealloc_spec p i hinv hil
  have hnd : slots.Nodup := nodup_of_map_key h.keys
  have hclt : c < pools.length := by
    rcases Nat.lt_or_ge c pools.length with h1 | h1
    · exact h1
    · rw [List.getElem?_eq_none h1] at hp; cases hp
  refine ⟨hil, ?_, ?_⟩
  · intro c' q hq
    rw [List.getElem?_set] at hq
    split at hq
    · rename_i hcc
      subst hcc
      simp only [hclt, Option.some.injEq] at hq
      subst hq
      refine ⟨hinv', fun j => ?_⟩
      by_cases hji : j = i
      · subst hji
        constructor
        · intro hj; exact absurd hj hni
        · rintro ⟨y, hy⟩
          exfalso
          have hy' := (hnd.mem_erase_iff).mp hy
          have := key_inj_of_nodup h.keys hy'.2 hm rfl
          exact hy'.1 this
      · rw [hother j hji, hlive j]
        constructor
        · rintro ⟨y, hy⟩
          refine ⟨y, (hnd.mem_erase_iff).mpr ⟨?_, hy⟩⟩
          intro heq; simp only [Prod.mk.injEq] at heq; exact hji heq.2.1
        · rintro ⟨y, hy⟩; exact ⟨y, List.mem_of_mem_erase hy⟩
    · rename_i hcc
      obtain ⟨hq1, hq2⟩ := h.inv c' q hq
      refine ⟨hq1, fun j => ?_⟩
      rw [hq2 j]
      constructor
      · rintro ⟨y, hy⟩
        refine ⟨y, (hnd.mem_erase_iff).mpr ⟨?_, hy⟩⟩
        intro heq; simp only [Prod.mk.injEq] at heq; exact hcc heq.1.symm
      · rintro ⟨y, hy⟩; exact ⟨y, List.mem_of_mem_erase hy⟩
  · exact List.Nodup.sublist (List.Sublist.map _ List.erase_sublist) h.keys

theorem allocPool_spec (xs : List Handle) (ct : Nat) :
    Triple (Safe xs) (allocPool ct)
      (fun h s => Safe (h :: xs) s ∧ h.isStr = true ∧ h.region.isFrame = false) := by
  intro s h
  -- the persistent fallback, for any intermediate oracle/event state
  have fb : ∀ (lay : List Nat) (ev : List Ev),
      Safe ((⟨.persist, true, s.nextCid, true, ct⟩ : Handle) :: xs)
        { s with lay := lay, nextCid := s.nextCid + 1, events := ev } := by
    intro lay ev
    have := ((allocPersist_spec xs true ct) s h).1 _ _ rfl
    exact Safe.congr this.1 rfl rfl rfl rfl rfl rfl rfl rfl
  refine ⟨fun a s' hm => ?_, fun o s' hm => ?_⟩
  · unfold allocPool at hm
    split at hm
    · cases hm
    · rename_i n lay hl
      simp only at hm
      split at hm
      · cases hm; exact ⟨fb _ _, rfl, rfl⟩
      · rename_i c hc
        split at hm
        · cases hm; exact ⟨fb _ _, rfl, rfl⟩
        · rename_i p hp
          split at hm
          · cases hm; exact ⟨fb _ _, rfl, rfl⟩
          · rename_i i p' hal
            cases hm
            refine ⟨?_, rfl, rfl⟩
            have hlt : ∀ a ∈ xs ++ s.allH, a.region.isPool = true → a.cid < s.nextCid :=
              fun a ha => (h.ok a ha).2.2
            exact {
              ok := by
                intro a ha
                simp only [List.cons_append, List.mem_cons] at ha
                rcases ha with rfl | ha
                · refine ⟨by simp [St.valid], .inl rfl, fun _ => by simp⟩
                · have := h.ok a ha
                  refine ⟨?_, this.2.1, fun hp => Nat.lt_succ_of_lt (this.2.2 hp)⟩
                  refine valid_mono s _ ?_ ?_ a this.1
                  · intro c hc; exact hc
                  · intro c hc; exact List.mem_cons_of_mem _ hc
              uniq := by
                intro X
                have := h.uniq X
                simp only [List.cons_append, cnt_cons, Region.isPool, Bool.true_and]
                by_cases hX : s.nextCid = X
                · subst hX
                  show cnt s.nextCid (xs ++ s.allH) + _ ≤ 1
                  rw [cnt_eq_zero_of_lt hlt]; simp
                · have hne : (s.nextCid == X) = false := by simpa using hX
                  show cnt X (xs ++ s.allH) + (if (s.nextCid == X) = true then 1 else 0) ≤ 1
                  rw [hne]; simpa using this
              clean := h.clean
              xsBelow := by
                intro a ha k hk
                simp only [List.mem_cons] at ha
                rcases ha with rfl | ha
                · simp at hk
                · exact h.xsBelow a ha k hk
              temps := h.temps
              slotsOk := by
                intro c' i' x' hmem
                simp only [List.mem_cons] at hmem
                rcases hmem with heq | hmem
                · cases heq
                  apply getElem?_set_isSome
                  simp [hp]
                · exact getElem?_set_isSome _ _ _ _ (h.slotsOk c' i' x' hmem)
              poolOk := h.poolOk.alloc hp hal }
  · unfold allocPool at hm
    split at hm
    · cases hm; trivial
    · simp only at hm
      split at hm
      · cases hm
      · split at hm
        · cases hm
        · split at hm <;> cases hm

/-! ### Release -/

theorem freeH_spec (xs : List Handle) (a : Handle) :
    Triple (Safe (a :: xs)) (freeH a) (fun _ => Safe xs) := by
  intro s h
  have hweak : Safe xs s := h.mono (by sub_tac)
  have hav := (h.ok a (by simp)).1
  refine ⟨fun _ s' hm => ?_, fun o s' hm => ?_⟩
  · unfold freeH at hm
    split at hm
    · rename_i c i hreg
      split at hm
      · rename_i hown
        have hmem : (c, i, a.cid) ∈ s.slots := by
          simpa [St.valid, hreg] using hav
        rw [if_pos (by simpa using hmem)] at hm
        split at hm
        · rename_i p hp
          rw [if_pos (by simpa using (h.poolOk.free hp hmem).1)] at hm
          cases hm
          exact {
            ok := by
              intro b hb
              have hb' := h.ok b (by simp only [List.cons_append, List.mem_cons]; exact .inr hb)
              refine ⟨?_, hb'.2⟩
              refine valid_of s _ b hb'.1 ?_ (fun k _ hk => hk)
              intro c' i' hreg' hmem'
              by_cases heq : (c', i', b.cid) = (c, i, a.cid)
              · exfalso
                simp only [Prod.mk.injEq] at heq
                have h1 : 0 < cnt a.cid (xs ++ s.allH) :=
                  cnt_pos_of_mem hb (by simp [hreg', Region.isPool]) heq.2.2
                have h2 := h.uniq a.cid
                simp only [List.cons_append, cnt_cons, hreg, Region.isPool, Bool.true_and,
                  beq_self_eq_true, if_true] at h2
                omega
              · exact (List.mem_erase_of_ne heq).mpr hmem'
            uniq := hweak.uniq
            clean := hweak.clean
            xsBelow := hweak.xsBelow
            temps := hweak.temps
            slotsOk := by
              intro c' i' x' hmem'
              exact getElem?_set_isSome _ _ _ _ (h.slotsOk c' i' x' (List.mem_of_mem_erase hmem'))
            poolOk := (h.poolOk.free hp hmem).2 }
        · cases hm
      · cases hm; exact hweak
    · cases hm; exact hweak
  · unfold freeH at hm
    split at hm
    · rename_i c i hreg
      split at hm
      · have hmem : (c, i, a.cid) ∈ s.slots := by
          simpa [St.valid, hreg] using hav
        rw [if_pos (by simpa using hmem)] at hm
        split at hm
        · rename_i p hp
          rw [if_pos (by simpa using (h.poolOk.free hp hmem).1)] at hm
          cases hm
        · rename_i hp
          have := h.slotsOk c i a.cid hmem
          simp [hp] at this
      · cases hm
    · cases hm

theorem freeTop_spec (xs : List Handle) (v : MVal) :
    Triple (Safe (v.handles ++ xs)) (freeTop v) (fun _ => Safe xs) := by
  cases v with
  | scalar => exact Triple.pure () (fun s h => by simpa [MVal.handles] using h)
  | leaf a =>
    simp only [freeTop, MVal.handles, List.cons_append, List.nil_append]
    exact freeH_spec xs a
  | arr b els => exact Triple.pure () (fun s h => h.mono (by sub_tac))

/-! ### Temporaries -/

theorem pushT_spec (xs : List Handle) (v : MVal) :
    Triple (Safe (v.handles ++ xs)) (pushT v) (fun _ => Safe xs) := by
  intro s h
  refine ⟨fun _ s' hm => ?_, fun o s' hm => by cases hm⟩
  cases hm
  exact {
    ok := by
      intro a ha
      have hs : Sub (xs ++ (envH s.env ++ MVal.handlesL s.out ++ (v.handles ++ tempsH s.temps)))
          ((v.handles ++ xs) ++ s.allH) := by sub_tac
      exact h.ok a (hs.mem ha)
    uniq := by
      intro X
      have := h.uniq X
      show cnt X (xs ++ (envH s.env ++ MVal.handlesL s.out ++ (v.handles ++ tempsH s.temps))) ≤ 1
      simp only [cnt_append] at this ⊢
      omega
    clean := h.clean
    xsBelow := fun a ha => h.xsBelow a (List.mem_append.mpr (.inr ha))
    temps := ⟨fun a ha => h.xsBelow a (List.mem_append.mpr (.inl ha)), h.temps⟩
    slotsOk := h.slotsOk
    poolOk := h.poolOk }

theorem popT_spec (xs : List Handle) :
    Triple (Safe xs) popT (fun v => Safe (v.handles ++ xs)) := by
  intro s h
  refine ⟨fun v s' hm => ?_, fun o s' hm => ?_⟩ <;> unfold popT at hm <;> split at hm <;> cases hm
  · rename_i x r ht
    have hT := h.temps
    rw [ht] at hT
    exact {
      ok := by
        intro a ha
        have hs : Sub ((v.handles ++ xs) ++ (envH s.env ++ MVal.handlesL s.out ++ tempsH r))
            (xs ++ (envH s.env ++ MVal.handlesL s.out ++ (v.handles ++ tempsH r))) := by sub_tac
        have hmem := hs.mem ha
        have : a ∈ xs ++ s.allH := by simpa only [St.allH, ht, tempsH] using hmem
        exact h.ok a this
      uniq := by
        intro X
        have := h.uniq X
        simp only [St.allH, ht, tempsH, cnt_append] at this
        show cnt X ((v.handles ++ xs) ++ (envH s.env ++ MVal.handlesL s.out ++ tempsH r)) ≤ 1
        simp only [cnt_append]
        omega
      clean := h.clean
      xsBelow := by
        intro a ha
        rcases List.mem_append.mp ha with ha | ha
        · exact hT.1 a ha
        · exact h.xsBelow a ha
      temps := hT.2
      slotsOk := h.slotsOk
      poolOk := h.poolOk }
  · trivial

theorem popN_spec (xs : List Handle) : ∀ (n : Nat) (acc : List MVal),
    Triple (Safe (MVal.handlesL acc ++ xs)) (popN n acc) (fun vs => Safe (MVal.handlesL vs ++ xs))
  | 0, acc => Triple.pure acc (fun _ h => h)
  | n + 1, acc => by
    unfold popN
    refine Triple.bind (popT_spec _) (fun v => ?_)
    refine (popN_spec xs n (v :: acc)).pre (fun s h => ?_)
    exact h.mono (by simp only [MVal.handlesL]; sub_tac)

theorem pushMark_spec (xs : List Handle) (kind : Nat) :
    Triple (Safe xs) (pushMark Cfg.fixed kind) (fun _ => Safe xs) := by
  intro s h
  refine ⟨fun _ s' hm => ?_, fun o s' hm => ?_⟩ <;> unfold pushMark at hm <;>
    simp only [Cfg.fixed, if_true] at hm <;> split at hm <;> cases hm
  · exact {
      ok := h.ok
      uniq := h.uniq
      clean := h.clean
      xsBelow := h.xsBelow
      temps := ⟨Nat.le_refl _, h.temps⟩
      slotsOk := h.slotsOk
      poolOk := h.poolOk }
  · trivial

theorem dropToMark_spec : ∀ {ts : List TE} {t m l : Nat} {r : List TE},
    dropToMark ts = some (m, l, r) → TempsOK t ts → m ≤ t ∧ TempsOK m r ∧ Sub (tempsH r) (tempsH ts)
  | [], _, _, _, _, h, _ => by cases h
  | .mark m' l' :: r', t, m, l, r, h, hT => by
    simp only [dropToMark, Option.some.injEq, Prod.mk.injEq] at h
    obtain ⟨rfl, rfl, rfl⟩ := h
    exact ⟨hT.1, hT.2, Sub.refl _⟩
  | .val v :: r', t, m, l, r, h, hT => by
    simp only [dropToMark] at h
    have := dropToMark_spec h hT.2
    refine ⟨this.1, this.2.1, ?_⟩
    have h3 := this.2.2
    intro p
    have := h3 p
    simp only [tempsH, List.countP_append]
    omega

/-- `frame.reset(mark)` keeps `Safe` when nothing in hand points into the frame. -/
theorem resetToMark_spec (xs : List Handle) (kind : Nat) (hx : NoFrame xs) :
    Triple (Safe xs) (resetToMark Cfg.fixed kind) (fun _ => Safe xs) := by
  intro s h
  refine ⟨fun _ s' hm => ?_, fun o s' hm => ?_⟩ <;> unfold resetToMark at hm <;> split at hm
  · cases hm
  · rename_i m l r hd
    simp only [Cfg.fixed, if_true] at hm
    cases hm
    obtain ⟨hmt, hTr, hsub⟩ := dropToMark_spec hd h.temps
    have hall : Sub (xs ++ (envH s.env ++ MVal.handlesL s.out ++ tempsH r)) (xs ++ s.allH) := by
      intro p
      have := hsub p
      simp only [List.countP_append]
      omega
    exact {
      ok := by
        intro a ha
        have ha' : a ∈ xs ++ s.allH := hall.mem ha
        have hok := h.ok a ha'
        refine ⟨?_, hok.2⟩
        refine valid_of s _ a hok.1 (fun c i _ hm => hm) ?_
        intro k hreg hv
        refine List.mem_filter.mpr ⟨hv, ?_⟩
        -- `a` is not an extra, not in env/out, hence in the kept temporaries
        have hk : k < m := by
          rcases List.mem_append.mp ha with ha | ha
          · have := hx a ha; simp [hreg, Region.isFrame] at this
          · rcases List.mem_append.mp ha with ha | ha
            · have := h.clean a ha; simp [hreg, Region.isFrame] at this
            · exact TempsOK.below hTr a ha k hreg
        simpa using hk
      uniq := by
        intro X
        exact Nat.le_trans (hall.cnt X) (h.uniq X)
      clean := h.clean
      xsBelow := by
        intro a ha k hk
        have := hx a ha; simp [hk, Region.isFrame] at this
      temps := hTr
      slotsOk := h.slotsOk
      poolOk := h.poolOk }
  · cases hm; trivial
  · simp only [Cfg.fixed, if_true] at hm
    cases hm

theorem dropMark_spec (xs : List Handle) : Triple (Safe xs) dropMark (fun _ => Safe xs) := by
  intro s h
  refine ⟨fun _ s' hm => ?_, fun o s' hm => ?_⟩ <;> unfold dropMark at hm <;> split at hm <;> cases hm
  · rename_i m l r hd
    obtain ⟨hmt, hTr, hsub⟩ := dropToMark_spec hd h.temps
    have hall : Sub (xs ++ (envH s.env ++ MVal.handlesL s.out ++ tempsH r)) (xs ++ s.allH) := by
      intro p
      have := hsub p
      simp only [List.countP_append]
      omega
    exact {
      ok := fun a ha => h.ok a (hall.mem ha)
      uniq := fun X => Nat.le_trans (hall.cnt X) (h.uniq X)
      clean := h.clean
      xsBelow := h.xsBelow
      temps := hTr.mono hmt
      slotsOk := h.slotsOk
      poolOk := h.poolOk }
  · trivial

theorem valOverMark_eq {ts : List TE} {v : MVal} {r : List TE} (h : valOverMark ts = some (v, r)) :
    ∃ m l, ts = .val v :: .mark m l :: r := by
  unfold valOverMark at h
  split at h
  · rename_i v' m l r'
    simp only [Option.some.injEq, Prod.mk.injEq] at h
    exact ⟨m, l, by rw [h.1, h.2]⟩
  · cases h

theorem dropMarkUnderTop_spec (xs : List Handle) :
    Triple (Safe xs) dropMarkUnderTop (fun _ => Safe xs) := by
  intro s h
  refine ⟨fun _ s' hm => ?_, fun o s' hm => ?_⟩ <;> unfold dropMarkUnderTop at hm <;>
    split at hm <;> cases hm
  · rename_i v r hv
    obtain ⟨m, l, ht⟩ := valOverMark_eq hv
    have hT := h.temps
    rw [ht] at hT
    exact {
      ok := by
        intro a ha
        apply h.ok
        have e : s.allH = envH s.env ++ MVal.handlesL s.out ++ tempsH (.val v :: .mark m l :: r) := by
          simp only [St.allH, ht]
        rw [e]; exact ha
      uniq := by
        intro X
        have := h.uniq X
        have e : s.allH = envH s.env ++ MVal.handlesL s.out ++ tempsH (.val v :: .mark m l :: r) := by
          simp only [St.allH, ht]
        rw [e] at this; exact this
      clean := h.clean
      xsBelow := h.xsBelow
      temps := ⟨hT.1, hT.2.2.mono hT.2.1⟩
      slotsOk := h.slotsOk
      poolOk := h.poolOk }
  · trivial

/-! ### Environment -/

theorem slotsH_cons (sl : Slot) (sc : List Slot) : slotsH (sl :: sc) = sl.val.handles ++ slotsH sc := by
  simp [slotsH]

theorem envH_cons (sc : List Slot) (env : List (List Slot)) : envH (sc :: env) = slotsH sc ++ envH env := by
  simp [envH]

theorem findSlot_sub : ∀ {sc : List Slot} {id : Nat} {v : MVal},
    findSlot id sc = some v → Sub v.handles (slotsH sc)
  | [], _, _, h => by cases h
  | sl :: sc, id, v, h => by
    simp only [findSlot] at h
    rw [slotsH_cons]
    split at h
    · cases h; sub_tac
    · have := findSlot_sub h
      intro p; have := this p; simp only [List.countP_append]; omega

theorem lookupEnv_sub : ∀ {env : List (List Slot)} {id : Nat} {v : MVal},
    lookupEnv id env = some v → Sub v.handles (envH env)
  | [], _, _, h => by cases h
  | sc :: env, id, v, h => by
    simp only [lookupEnv] at h
    rw [envH_cons]
    split at h
    · rename_i w hw
      cases h
      have := findSlot_sub hw
      intro p; have := this p; simp only [List.countP_append]; omega
    · have := lookupEnv_sub h
      intro p; have := this p; simp only [List.countP_append]; omega

theorem slotsH_setSlot : ∀ {sc : List Slot} {id : Nat} {old : MVal} (v : MVal),
    findSlot id sc = some old → ∀ p : Handle → Bool,
      (slotsH (setSlot id v sc)).countP p + old.handles.countP p
        = (slotsH sc).countP p + v.handles.countP p
  | [], _, _, _, h, _ => by cases h
  | sl :: sc, id, old, v, h, p => by
    simp only [findSlot] at h
    simp only [setSlot]
    split at h
    · rename_i hid
      cases h
      rw [if_pos hid]
      simp only [slotsH_cons, List.countP_append]
      omega
    · rename_i hid
      rw [if_neg hid]
      have := slotsH_setSlot v h p
      simp only [slotsH_cons, List.countP_append]
      omega

theorem envH_setEnv : ∀ {env : List (List Slot)} {id : Nat} {old : MVal} (v : MVal),
    lookupEnv id env = some old → ∀ p : Handle → Bool,
      (envH (setEnv id v env)).countP p + old.handles.countP p
        = (envH env).countP p + v.handles.countP p
  | [], _, _, _, h, _ => by cases h
  | sc :: env, id, old, v, h, p => by
    simp only [lookupEnv] at h
    simp only [setEnv]
    split at h
    · rename_i w hw
      cases h
      have := slotsH_setSlot v hw p
      simp only [envH_cons, List.countP_append]
      omega
    · rename_i hw
      have := envH_setEnv v h p
      simp only [envH_cons, List.countP_append]
      omega

theorem getVar_spec (xs : List Handle) (id : Nat) :
    Triple (Safe xs) (getVar id) (fun v s => Safe xs s ∧ Sub v.handles (envH s.env)) := by
  intro s h
  refine ⟨fun v s' hm => ?_, fun o s' hm => ?_⟩ <;> unfold getVar at hm <;> split at hm <;> cases hm
  · rename_i hl
    exact ⟨h, lookupEnv_sub hl⟩
  · trivial

/-- A generic state update: the reachable handles of the new state plus `ys` are a sub-multiset
of the old ones plus `xs`; the heap is untouched. -/
theorem Safe.move {xs ys : List Handle} {s s' : St} (h : Safe xs s)
    (e4 : s'.frame = s.frame) (e5 : s'.top = s.top) (e6 : s'.pools = s.pools)
    (e7 : s'.slots = s.slots) (e8 : s'.nextCid = s.nextCid) (e3 : s'.temps = s.temps)
    (hsub : Sub (ys ++ s'.allH) (xs ++ s.allH))
    (hclean : NoFrame (envH s'.env ++ MVal.handlesL s'.out))
    (hbelow : FrameBelow s.top ys) : Safe ys s' := by
  have hval : ∀ a, s'.valid a = s.valid a := by intro a; simp [St.valid, e4, e7]
  exact {
    ok := by intro a ha; rw [hval, e8]; exact h.ok a (hsub.mem ha)
    uniq := fun X => Nat.le_trans (hsub.cnt X) (h.uniq X)
    clean := hclean
    xsBelow := by rw [e5]; exact hbelow
    temps := by rw [e5, e3]; exact h.temps
    slotsOk := by rw [e6, e7]; exact h.slotsOk
    poolOk := by rw [e6, e7]; exact h.poolOk }

theorem NoFrame.append {a b : List Handle} (ha : NoFrame a) (hb : NoFrame b) : NoFrame (a ++ b) := by
  intro x hx
  rcases List.mem_append.mp hx with hx | hx
  · exact ha x hx
  · exact hb x hx

theorem NoFrame.sub {a b : List Handle} (hb : NoFrame b) (h : Sub a b) : NoFrame a :=
  fun x hx => hb x (h.mem hx)

theorem NoFrame.below {a : List Handle} (h : NoFrame a) (t : Nat) : FrameBelow t a := by
  intro x hx k hk
  have := h x hx
  simp [hk, Region.isFrame] at this

theorem swapVar_spec (xs : List Handle) (id : Nat) (v : MVal) (hv : NoFrame v.handles) :
    Triple (Safe (v.handles ++ xs)) (swapVar id v) (fun old => Safe (old.handles ++ xs)) := by
  intro s h
  refine ⟨fun old s' hm => ?_, fun o s' hm => ?_⟩ <;> unfold swapVar at hm <;> split at hm <;> cases hm
  · rename_i hl
    have hcnt := envH_setEnv v hl
    have hold := lookupEnv_sub hl
    refine h.move rfl rfl rfl rfl rfl rfl ?_ ?_ ?_
    · intro p
      have := hcnt p
      simp only [List.countP_append]
      omega
    · -- env stays clean
      intro a ha
      rcases List.mem_append.mp ha with ha | ha
      · -- a ∈ envH (setEnv ..): it is in the old env or in v
        have hs : Sub (envH (setEnv id v s.env)) (envH s.env ++ v.handles) := by
          intro p; have := hcnt p; simp only [List.countP_append]; omega
        rcases List.mem_append.mp (hs.mem ha) with h1 | h1
        · exact h.clean a (List.mem_append.mpr (.inl h1))
        · exact hv a h1
      · exact h.clean a (List.mem_append.mpr (.inr ha))
    · intro a ha k hk
      rcases List.mem_append.mp ha with ha | ha
      · have := h.clean a (List.mem_append.mpr (.inl (hold.mem ha)))
        simp [hk, Region.isFrame] at this
      · exact h.xsBelow a (List.mem_append.mpr (.inr ha)) k hk
  · trivial

theorem addSlot_spec (xs : List Handle) (id : Nat) (v : MVal) (hv : NoFrame v.handles) :
    Triple (Safe (v.handles ++ xs)) (addSlot id v) (fun _ => Safe xs) := by
  intro s h
  refine ⟨fun _ s' hm => ?_, fun o s' hm => ?_⟩ <;> unfold addSlot at hm <;> split at hm <;> cases hm
  · rename_i sc r he
    refine h.move rfl rfl rfl rfl rfl rfl ?_ ?_ ?_
    · show Sub (xs ++ (envH ((⟨id, v⟩ :: sc) :: r) ++ MVal.handlesL s.out ++ tempsH s.temps)) _
      simp only [St.allH, he, envH_cons, slotsH_cons]
      sub_tac
    · show NoFrame (envH ((⟨id, v⟩ :: sc) :: r) ++ MVal.handlesL s.out)
      have hc := h.clean
      simp only [he, envH_cons, slotsH_cons] at hc ⊢
      intro a ha
      simp only [List.mem_append] at ha
      rcases ha with ((ha | ha) | ha) | ha
      · exact hv a ha
      · exact hc a (by simp [ha])
      · exact hc a (by simp [ha])
      · exact hc a (by simp [ha])
    · exact fun a ha => h.xsBelow a (List.mem_append.mpr (.inr ha))
  · trivial

theorem storeOut_spec (xs : List Handle) (v : MVal) (hv : NoFrame v.handles) :
    Triple (Safe (v.handles ++ xs)) (storeOut v) (fun _ => Safe xs) := by
  intro s h
  refine ⟨fun _ s' hm => ?_, fun o s' hm => by cases hm⟩
  cases hm
  refine h.move rfl rfl rfl rfl rfl rfl ?_ ?_ ?_
  · show Sub (xs ++ (envH s.env ++ MVal.handlesL (v :: s.out) ++ tempsH s.temps)) _
    simp only [MVal.handlesL]
    sub_tac
  · show NoFrame (envH s.env ++ MVal.handlesL (v :: s.out))
    have hc := h.clean
    simp only [MVal.handlesL]
    intro a ha
    simp only [List.mem_append] at ha
    rcases ha with ha | ha | ha
    · exact hc a (by simp [ha])
    · exact hv a ha
    · exact hc a (by simp [ha])
  · exact fun a ha => h.xsBelow a (List.mem_append.mpr (.inr ha))

theorem pushScope_spec (xs : List Handle) : Triple (Safe xs) pushScope (fun _ => Safe xs) := by
  intro s h
  refine ⟨fun _ s' hm => ?_, fun o s' hm => by cases hm⟩
  cases hm
  refine h.move rfl rfl rfl rfl rfl rfl ?_ ?_ h.xsBelow
  · show Sub (xs ++ (envH ([] :: s.env) ++ MVal.handlesL s.out ++ tempsH s.temps)) _
    simp only [envH_cons, slotsH, List.flatMap_nil]
    sub_tac
  · show NoFrame (envH ([] :: s.env) ++ MVal.handlesL s.out)
    simpa only [envH_cons, slotsH, List.flatMap_nil, List.nil_append] using h.clean

theorem addFns_spec (xs : List Handle) (ds : List FnDef) :
    Triple (Safe xs) (addFns ds) (fun _ => Safe xs) := by
  intro s h
  refine ⟨fun _ s' hm => ?_, fun o s' hm => ?_⟩ <;> unfold addFns at hm <;> split at hm <;> cases hm
  · safe_congr h
  · exact h

theorem getFn_spec (xs : List Handle) (fid : Nat) :
    Triple (Safe xs) (getFn fid) (fun _ => Safe xs) := by
  intro s h
  refine ⟨fun _ s' hm => ?_, fun o s' hm => ?_⟩ <;> unfold getFn at hm <;> split at hm <;> cases hm
  · exact h
  · trivial

theorem inCurrentScope_spec (xs : List Handle) (id : Nat) :
    Triple (Safe xs) (inCurrentScope id) (fun _ => Safe xs) := by
  intro s h
  refine ⟨fun _ s' hm => ?_, fun o s' hm => ?_⟩ <;> unfold inCurrentScope at hm <;>
    split at hm <;> cases hm
  · exact h
  · trivial

theorem freeSlots_spec (xs : List Handle) : ∀ (sl : List Slot),
    Triple (Safe (slotsH sl ++ xs)) (freeSlots sl) (fun _ => Safe xs)
  | [] => Triple.pure () (fun _ h => by simpa [slotsH] using h)
  | a :: sl => by
    unfold freeSlots
    refine Triple.bind (Q := fun _ => Safe (slotsH sl ++ xs)) ?_ (fun _ => freeSlots_spec xs sl)
    refine (freeTop_spec (slotsH sl ++ xs) a.val).pre (fun s h => ?_)
    exact h.mono (by rw [slotsH_cons]; sub_tac)

theorem slotsH_reverse (sc : List Slot) (p : Handle → Bool) :
    (slotsH sc.reverse).countP p = (slotsH sc).countP p := by
  induction sc with
  | nil => rfl
  | cons a sc ih =>
    simp only [List.reverse_cons, slotsH, List.flatMap_append, List.flatMap_cons, List.flatMap_nil,
      List.countP_append, List.append_nil] at ih ⊢
    omega

theorem popScope_spec (xs : List Handle) : Triple (Safe xs) popScope (fun _ => Safe xs) := by
  intro s h
  unfold popScope
  cases he : s.env with
  | nil =>
    refine ⟨fun _ s' hm => ?_, fun o s' hm => by cases hm⟩
    cases hm; exact Safe.congr h he.symm rfl rfl rfl rfl rfl rfl rfl
  | cons sc r =>
    simp only
    have hpre : Safe (slotsH sc.reverse ++ xs)
        { s with env := r, fns := s.fns.tail, events := .pop sc.length :: s.events } := by
      refine h.move rfl rfl rfl rfl rfl rfl ?_ ?_ ?_
      · show Sub ((slotsH sc.reverse ++ xs) ++ (envH r ++ MVal.handlesL s.out ++ tempsH s.temps)) _
        intro p
        have := slotsH_reverse sc p
        simp only [St.allH, he, envH_cons, List.countP_append]
        omega
      · show NoFrame (envH r ++ MVal.handlesL s.out)
        have hc := h.clean
        rw [he, envH_cons] at hc
        exact hc.sub (by sub_tac)
      · intro a ha k hk
        rcases List.mem_append.mp ha with ha | ha
        · have hmem : a ∈ envH s.env ++ MVal.handlesL s.out := by
            rw [he, envH_cons]
            have hs : Sub (slotsH sc.reverse) (slotsH sc) := fun p => Nat.le_of_eq (slotsH_reverse sc p)
            simp [hs.mem ha]
          have := h.clean a hmem
          simp [hk, Region.isFrame] at this
        · exact h.xsBelow a ha k hk
    exact freeSlots_spec xs sc.reverse _ hpre

/-! ### Clone on read -/

/-- Steps that leave the variable environment alone. -/
def EnvPres (m : M α) : Prop := ∀ s a s', m s = .ok a s' → s'.env = s.env

theorem Triple.withEnv {P : St → Prop} {m : M α} {Q : α → St → Prop} (E : List (List Slot))
    (h : Triple P m Q) (he : EnvPres m) :
    Triple (fun s => P s ∧ s.env = E) m (fun a s => Q a s ∧ s.env = E) := by
  intro s ⟨hp, hE⟩
  have := h s hp
  exact ⟨fun a s' hm => ⟨this.1 a s' hm, (he s a s' hm).trans hE⟩, this.2⟩

theorem emit_envPres (e : Ev) : EnvPres (emit e) := by
  intro s a s' hm; cases hm; rfl

theorem readH_envPres (site : Nat) (a : Handle) : EnvPres (readH site a) := by
  intro s _ s' hm
  unfold readH at hm
  split at hm <;> cases hm
  rfl

theorem allocFrame_envPres (b : Bool) (ct : Nat) : EnvPres (allocFrame b ct) := by
  intro s a s' hm; cases hm; rfl

/-- A handle that is already reachable and is not a pool slot may be held twice. -/
theorem Safe.dup {xs : List Handle} {s : St} (h : Safe xs s) {a : Handle}
    (ha : a ∈ xs ++ s.allH) (hp : a.region.isPool = false) (hb : ∀ k, a.region = .frame k → k < s.top) :
    Safe (a :: xs) s where
  ok := by
    intro b hb'
    simp only [List.cons_append, List.mem_cons] at hb'
    rcases hb' with rfl | hb'
    · exact h.ok _ ha
    · exact h.ok b hb'
  uniq := by
    intro X
    have := h.uniq X
    simp only [List.cons_append, cnt_cons, hp, Bool.false_and]
    simpa using this
  clean := h.clean
  xsBelow := by
    intro b hb' k hk
    simp only [List.mem_cons] at hb'
    rcases hb' with rfl | hb'
    · exact hb k hk
    · exact h.xsBelow b hb' k hk
  temps := h.temps
  slotsOk := h.slotsOk
  poolOk := h.poolOk

mutual
  theorem copyRead_spec (E : List (List Slot)) : ∀ (v : MVal) (xs : List Handle),
      (∀ a ∈ v.handles, a ∈ envH E) →
      Triple (fun s => Safe xs s ∧ s.env = E) (copyRead Cfg.fixed v)
        (fun v' s => Safe (v'.handles ++ xs) s ∧ s.env = E)
    | .scalar, xs, _ => by
      simp only [copyRead]
      exact Triple.pure _ (fun s h => by simpa [MVal.handles] using h)
    | .leaf a, xs, hv => by
      have haE : a ∈ envH E := hv a (by simp [MVal.handles])
      have hmem : ∀ s : St, s.env = E → a ∈ xs ++ s.allH := by
        intro s hE
        simp only [St.allH, hE, List.mem_append]
        exact .inr (.inl (.inl haE))
      simp only [copyRead, Cfg.fixed]
      split
      · split
        · -- owned string: copied into the frame
          simp only [Bool.false_eq_true, if_false]
          refine Triple.bind ((emit_spec xs _).withEnv E (emit_envPres _)) (fun _ => ?_)
          refine Triple.bind (Q := fun _ s => Safe xs s ∧ s.env = E) ?_ (fun _ => ?_)
          · refine Triple.pre ((readH_spec xs 20 a).withEnv E (readH_envPres _ _)) ?_
            intro s ⟨h, hE⟩
            exact ⟨⟨h, hmem s hE⟩, hE⟩
          · refine Triple.bind ((allocFrame_spec xs true _).withEnv E (allocFrame_envPres _ _)) (fun h' => ?_)
            exact Triple.pure _ (fun s h => ⟨by simpa [MVal.handles] using h.1.1, h.2⟩)
        · -- borrowed (static / persistent) string: shared as is
          rename_i hown
          refine Triple.pure _ (fun s h => ⟨?_, h.2⟩)
          have hok := h.1.ok a (hmem s h.2)
          have hnp : a.region.isPool = false := by
            rcases hok.2.1 with h1 | h1 | h1
            · simp [h1] at hown
            · simp [h1, Region.isPool]
            · simp [h1, Region.isPool]
          have hnf : ∀ k, a.region = .frame k → k < s.top := by
            intro k hk
            rcases hok.2.1 with h1 | h1 | h1
            · simp [h1] at hown
            · simp [h1] at hk
            · simp [h1] at hk
          simpa [MVal.handles] using h.1.dup (hmem s h.2) hnp hnf
      · -- host value: deep copy into the frame
        refine Triple.bind ((emit_spec xs _).withEnv E (emit_envPres _)) (fun _ => ?_)
        refine Triple.bind (Q := fun _ s => Safe xs s ∧ s.env = E) ?_ (fun _ => ?_)
        · refine Triple.pre ((readH_spec xs 21 a).withEnv E (readH_envPres _ _)) ?_
          intro s ⟨h, hE⟩
          exact ⟨⟨h, hmem s hE⟩, hE⟩
        · refine Triple.bind ((allocFrame_spec xs false _).withEnv E (allocFrame_envPres _ _)) (fun h' => ?_)
          exact Triple.pure _ (fun s h => ⟨by simpa [MVal.handles] using h.1.1, h.2⟩)
    | .arr b els, xs, hv => by
      have hbE : b ∈ envH E := hv b (by simp [MVal.handles])
      have hmem : ∀ s : St, s.env = E → b ∈ xs ++ s.allH := by
        intro s hE
        simp only [St.allH, hE, List.mem_append]
        exact .inr (.inl (.inl hbE))
      simp only [copyRead]
      refine Triple.bind ((emit_spec xs _).withEnv E (emit_envPres _)) (fun _ => ?_)
      refine Triple.bind (Q := fun _ s => Safe xs s ∧ s.env = E) ?_ (fun _ => ?_)
      · refine Triple.pre ((readH_spec xs 22 b).withEnv E (readH_envPres _ _)) ?_
        intro s ⟨h, hE⟩
        exact ⟨⟨h, hmem s hE⟩, hE⟩
      · refine Triple.bind ((allocFrame_spec xs false _).withEnv E (allocFrame_envPres _ _)) (fun b' => ?_)
        refine Triple.bind (Q := fun els' s => Safe (MVal.handlesL els' ++ (b' :: xs)) s ∧ s.env = E) ?_ (fun els' => ?_)
        · refine Triple.pre (copyReadL_spec E els (b' :: xs) ?_) (fun s h => ⟨h.1.1, h.2⟩)
          intro a ha
          exact hv a (by simp [MVal.handles, ha])
        · refine Triple.pure _ (fun s h => ⟨h.1.mono ?_, h.2⟩)
          simp only [MVal.handles]; sub_tac
  theorem copyReadL_spec (E : List (List Slot)) : ∀ (vs : List MVal) (xs : List Handle),
      (∀ a ∈ MVal.handlesL vs, a ∈ envH E) →
      Triple (fun s => Safe xs s ∧ s.env = E) (copyReadL Cfg.fixed vs)
        (fun vs' s => Safe (MVal.handlesL vs' ++ xs) s ∧ s.env = E)
    | [], xs, _ => by
      simp only [copyReadL]
      exact Triple.pure _ (fun s h => by simpa [MVal.handlesL] using h)
    | v :: vs, xs, hv => by
      simp only [copyReadL]
      refine Triple.bind (copyRead_spec E v xs (fun a ha => hv a (by simp [MVal.handlesL, ha]))) (fun v' => ?_)
      refine Triple.bind (copyReadL_spec E vs (v'.handles ++ xs)
        (fun a ha => hv a (by simp [MVal.handlesL, ha]))) (fun vs' => ?_)
      refine Triple.pure _ (fun s h => ⟨h.1.mono ?_, h.2⟩)
      simp only [MVal.handlesL]; sub_tac
end

/-! ### Promote -/

theorem NoFrame.single {a : Handle} (h : a.region.isFrame = false) : NoFrame [a] := by
  intro x hx; simp only [List.mem_singleton] at hx; subst hx; exact h

/-- Copy a string handle that is in hand into the pool (or the persistent fallback). -/
theorem promoteCopy_spec (xs : List Handle) (site : Nat) (a : Handle) :
    Triple (Safe (a :: xs)) (do readH site a; let h' ← allocPool a.ct; pure (MVal.leaf h'))
      (fun v' s => Safe (v'.handles ++ xs) s ∧ NoFrame v'.handles) := by
  refine Triple.bind (Q := fun _ => Safe (a :: xs)) ?_ (fun _ => ?_)
  · exact (readH_spec (a :: xs) site a).pre (fun s h => ⟨h, by simp⟩)
  · refine Triple.bind (allocPool_spec (a :: xs) _) (fun h' => ?_)
    refine Triple.pure _ (fun s h => ⟨h.1.mono ?_, ?_⟩)
    · simp only [MVal.handles]; sub_tac
    · simpa only [MVal.handles] using NoFrame.single h.2.2

mutual
  theorem promote_spec : ∀ (v : MVal) (xs : List Handle),
      Triple (Safe (v.handles ++ xs)) (promote v)
        (fun v' s => Safe (v'.handles ++ xs) s ∧ NoFrame v'.handles)
    | .scalar, xs => by
      simp only [promote]
      exact Triple.pure _ (fun s h => ⟨h, by intro a ha; simp [MVal.handles] at ha⟩)
    | .leaf a, xs => by
      simp only [promote, MVal.handles, List.cons_append, List.nil_append]
      split
      · split
        · split
          · exact promoteCopy_spec xs 30 a
          · rename_i hnf
            exact Triple.pure _ (fun s h => ⟨h, NoFrame.single (by simpa using hnf)⟩)
        · split
          · exact promoteCopy_spec xs 31 a
          · rename_i hnf
            refine Triple.pure _ (fun s h => ⟨h, NoFrame.single ?_⟩)
            simp only [Bool.or_eq_true, not_or, Bool.not_eq_true] at hnf
            exact hnf.1
      · refine Triple.bind (emit_spec (a :: xs) _) (fun _ => ?_)
        split
        · refine Triple.bind (Q := fun _ => Safe (a :: xs)) ?_ (fun _ => ?_)
          · exact (readH_spec (a :: xs) 32 a).pre (fun s h => ⟨h, by simp⟩)
          · refine Triple.bind (allocPersist_spec (a :: xs) false _) (fun h' => ?_)
            refine Triple.pure _ (fun s h => ⟨h.1.mono ?_, ?_⟩)
            · sub_tac
            · exact NoFrame.single h.2.2
        · rename_i hnf
          exact Triple.pure _ (fun s h => ⟨h, NoFrame.single (by simpa using hnf)⟩)
    | .arr b els, xs => by
      simp only [promote, MVal.handles, List.cons_append]
      refine Triple.bind (emit_spec _ _) (fun _ => ?_)
      refine Triple.bind (Q := fun _ => Safe (b :: (MVal.handlesL els ++ xs))) ?_ (fun _ => ?_)
      · exact (readH_spec _ 33 b).pre (fun s h => ⟨h, by simp⟩)
      · refine Triple.bind (allocPersist_spec _ false _) (fun b' => ?_)
        refine Triple.bind
          (Q := fun els' s => (Safe (MVal.handlesL els' ++ (b' :: xs)) s ∧ NoFrame (MVal.handlesL els'))
            ∧ b'.region.isFrame = false) ?_ (fun els' => ?_)
        · intro s h
          have h1 : Safe (MVal.handlesL els ++ (b' :: xs)) s := h.1.mono (by sub_tac)
          have := promoteL_spec els (b' :: xs) s h1
          exact ⟨fun a s' hm => ⟨this.1 a s' hm, h.2.2⟩, this.2⟩
        · refine Triple.pure _ (fun s h => ⟨h.1.1.mono ?_, ?_⟩)
          · sub_tac
          · intro a ha
            simp only [MVal.handles, List.mem_cons] at ha
            rcases ha with rfl | ha
            · exact h.2
            · exact h.1.2 a ha
  theorem promoteL_spec : ∀ (vs : List MVal) (xs : List Handle),
      Triple (Safe (MVal.handlesL vs ++ xs)) (promoteL vs)
        (fun vs' s => Safe (MVal.handlesL vs' ++ xs) s ∧ NoFrame (MVal.handlesL vs'))
    | [], xs => by
      simp only [promoteL]
      exact Triple.pure _ (fun s h => ⟨h, by intro a ha; simp [MVal.handlesL] at ha⟩)
    | v :: vs, xs => by
      simp only [promoteL, MVal.handlesL]
      refine Triple.bind (Q := fun v' s => Safe (v'.handles ++ (MVal.handlesL vs ++ xs)) s ∧ NoFrame v'.handles)
        ?_ (fun v' => ?_)
      · exact (promote_spec v (MVal.handlesL vs ++ xs)).pre (fun s h => h.mono (by sub_tac))
      · refine Triple.bind
          (Q := fun vs' s => (Safe (MVal.handlesL vs' ++ (v'.handles ++ xs)) s ∧ NoFrame (MVal.handlesL vs'))
            ∧ NoFrame v'.handles) ?_ (fun vs' => ?_)
        · intro s h
          have h1 : Safe (MVal.handlesL vs ++ (v'.handles ++ xs)) s := h.1.mono (by sub_tac)
          have := promoteL_spec vs (v'.handles ++ xs) s h1
          exact ⟨fun a s' hm => ⟨this.1 a s' hm, h.2⟩, this.2⟩
        · refine Triple.pure _ (fun s h => ⟨h.1.1.mono (by sub_tac), h.2.append h.1.2⟩)
end

theorem promoteIf_spec (v : MVal) (xs : List Handle) :
    Triple (Safe (v.handles ++ xs)) (promoteIf Cfg.fixed v)
      (fun v' s => Safe (v'.handles ++ xs) s ∧ NoFrame v'.handles) := by
  simp only [promoteIf, Cfg.fixed, if_true]
  exact promote_spec v xs

/-! ### l-value paths -/

theorem handlesL_getElem : ∀ {els : List MVal} {k : Nat} {x : MVal},
    els[k]? = some x → Sub x.handles (MVal.handlesL els)
  | [], _, _, h => by simp at h
  | v :: els, 0, x, h => by
    simp only [List.getElem?_cons_zero, Option.some.injEq] at h
    subst h; sub_tac
  | v :: els, k + 1, x, h => by
    simp only [List.getElem?_cons_succ] at h
    have := handlesL_getElem h
    intro p; have := this p
    simp only [MVal.handlesL, List.countP_append]; omega

theorem handlesL_set : ∀ {els : List MVal} {k : Nat} {x : MVal} (x' : MVal),
    els[k]? = some x → ∀ p : Handle → Bool,
      (MVal.handlesL (els.set k x')).countP p + x.handles.countP p
        = (MVal.handlesL els).countP p + x'.handles.countP p
  | [], _, _, _, h, _ => by simp at h
  | v :: els, 0, x, x', h, p => by
    simp only [List.getElem?_cons_zero, Option.some.injEq] at h
    subst h
    simp only [List.set_cons_zero, MVal.handlesL, List.countP_append]; omega
  | v :: els, k + 1, x, x', h, p => by
    simp only [List.getElem?_cons_succ] at h
    have := handlesL_set x' h p
    simp only [List.set_cons_succ, MVal.handlesL, List.countP_append]; omega

theorem modifyAt_spec (vin : List Handle) (g : MVal → Option (MVal × MVal))
    (hg : ∀ a a' r, g a = some (a', r) → Sub (a'.handles ++ r.handles) (a.handles ++ vin)) :
    ∀ (path : List Nat) (root root' r : MVal) (hs : List Handle),
      modifyAt path root g = some (root', r, hs) →
      Sub (root'.handles ++ r.handles) (root.handles ++ vin) ∧ Sub hs root.handles
  | [], root, root', r, hs, h => by
    simp only [modifyAt, Option.map_eq_some_iff] at h
    obtain ⟨⟨a', r'⟩, hga, he⟩ := h
    simp only [Prod.mk.injEq] at he
    obtain ⟨rfl, rfl, rfl⟩ := he
    exact ⟨hg _ _ _ hga, Sub.nil _⟩
  | k :: ks, .arr b els, root', r, hs, h => by
    simp only [modifyAt] at h
    split at h
    · rename_i x hx
      split at h
      · rename_i x' r' hs' hm
        simp only [Option.some.injEq, Prod.mk.injEq] at h
        obtain ⟨rfl, rfl, rfl⟩ := h
        have ih := modifyAt_spec vin g hg ks x x' r' hs' hm
        have hset := handlesL_set x' hx
        have hget := handlesL_getElem hx
        constructor
        · intro p
          have h1 := ih.1 p
          have h2 := hset p
          simp only [MVal.handles, List.countP_append, List.countP_cons] at h1 ⊢
          omega
        · intro p
          have h1 := ih.2 p
          have h2 := hget p
          simp only [MVal.handles, List.countP_cons]
          omega
      · cases h
    · cases h
  | _ :: _, .scalar, _, _, _, h => by simp [modifyAt] at h
  | _ :: _, .leaf _, _, _, _, h => by simp [modifyAt] at h

theorem readHs_run (site : Nat) : ∀ (hs : List Handle) (s : St), (∀ a ∈ hs, s.valid a = true) →
    ∃ obs', readHs site hs s = .ok () { s with obs := obs' }
  | [], s, _ => ⟨s.obs, rfl⟩
  | a :: hs, s, hv => by
    have ha := hv a List.mem_cons_self
    have ih := readHs_run site hs { s with obs := observed site a s.obs }
      (fun b hb => hv b (List.mem_cons_of_mem _ hb))
    obtain ⟨obs', ho⟩ := ih
    refine ⟨obs', ?_⟩
    show M.bind (readH site a) (fun _ => readHs site hs) s = _
    unfold M.bind readH
    rw [if_pos ha]
    exact ho

theorem modifyVar_spec (xs vin : List Handle) (id : Nat) (path : List Nat)
    (g : MVal → Option (MVal × MVal))
    (hg : ∀ a a' r, g a = some (a', r) → Sub (a'.handles ++ r.handles) (a.handles ++ vin))
    (hvin : NoFrame vin) :
    Triple (Safe (vin ++ xs)) (modifyVar id path g) (fun r => Safe (r.handles ++ xs)) := by
  intro s h
  unfold modifyVar
  cases hl : lookupEnv id s.env with
  | none =>
    exact ⟨fun a s' hm => (by cases hm), fun o s' hm => (by cases hm; trivial)⟩
  | some root =>
    simp only
    cases hm : modifyAt path root g with
    | none =>
      have := (shapeError_spec (α := MVal) (P := fun _ => True) (Q := fun r => Safe (r.handles ++ xs))) s trivial
      exact this
    | some res =>
      obtain ⟨root', r, hs⟩ := res
      simp only
      obtain ⟨hrel, hhs⟩ := modifyAt_spec vin g hg path root root' r hs hm
      have hroot := lookupEnv_sub hl
      have hvalid : ∀ a ∈ hs, s.valid a = true := by
        intro a ha
        refine (h.ok a ?_).1
        have : a ∈ envH s.env := hroot.mem (hhs.mem ha)
        simp [St.allH, this]
      obtain ⟨obs', ho⟩ := readHs_run 40 hs s hvalid
      rw [ho]
      simp only
      refine ⟨fun a s' hm' => ?_, fun o s' hm' => (by cases hm')⟩
      cases hm'
      have hcnt := envH_setEnv root' hl
      have hnew : Sub (envH (setEnv id root' s.env)) (envH s.env ++ vin) := by
        intro p
        have h1 := hcnt p; have h2 := hrel p; have h3 := hroot p
        simp only [List.countP_append] at h2 ⊢; omega
      refine h.move rfl rfl rfl rfl rfl rfl ?_ ?_ ?_
      · intro p
        have h1 := hcnt p; have h2 := hrel p; have h3 := hroot p
        simp only [St.allH, List.countP_append] at h2 ⊢
        omega
      · intro a ha
        rcases List.mem_append.mp ha with ha | ha
        · rcases List.mem_append.mp (hnew.mem ha) with h1 | h1
          · exact h.clean a (List.mem_append.mpr (.inl h1))
          · exact hvin a h1
        · exact h.clean a (List.mem_append.mpr (.inr ha))
      · intro a ha k hk
        rcases List.mem_append.mp ha with ha | ha
        · -- r's handles come from the root (clean) or from vin (no frame)
          have hr : Sub r.handles (root.handles ++ vin) := by
            intro p; have := hrel p; simp only [List.countP_append] at this ⊢; omega
          rcases List.mem_append.mp (hr.mem ha) with h1 | h1
          · have := h.clean a (List.mem_append.mpr (.inl (hroot.mem h1)))
            simp [hk, Region.isFrame] at this
          · have := hvin a h1; simp [hk, Region.isFrame] at this
        · exact h.xsBelow a (List.mem_append.mpr (.inr ha)) k hk

/-! ### Composite steps -/

theorem Triple.assume {P : St → Prop} {φ : Prop} {m : M α} {Q : α → St → Prop}
    (h : φ → Triple P m Q) : Triple (fun s => P s ∧ φ) m Q :=
  fun s hs => h hs.2 s hs.1

theorem overwrite_spec (xs : List Handle) (id : Nat) (v : MVal) :
    Triple (Safe (v.handles ++ xs)) (overwrite Cfg.fixed id v) (fun _ => Safe xs) := by
  simp only [overwrite, Cfg.fixed, if_true, Bool.false_eq_true, if_false]
  refine Triple.bind (promote_spec v xs) (fun v' => ?_)
  refine Triple.assume (fun hv => ?_)
  refine Triple.bind (swapVar_spec xs id v' hv) (fun old => ?_)
  exact freeTop_spec xs old

theorem define_spec (xs : List Handle) (id : Nat) (v : MVal) :
    Triple (Safe (v.handles ++ xs)) (define Cfg.fixed id v) (fun _ => Safe xs) := by
  unfold define
  refine Triple.bind (inCurrentScope_spec _ id) (fun there => ?_)
  split
  · exact overwrite_spec xs id v
  · refine Triple.bind (promoteIf_spec v xs) (fun v' => ?_)
    exact Triple.assume (fun hv => addSlot_spec xs id v' hv)

theorem readV_extras (xs : List Handle) (site : Nat) (v : MVal) (h : ∀ a ∈ v.handles, a ∈ xs) :
    Triple (Safe xs) (readV site v) (fun _ => Safe xs) :=
  readHs_extras xs site v.handles h

theorem binop_spec (op : BinOp) (lv rv : MVal) (sp : Span) :
    Triple (Safe (lv.handles ++ rv.handles)) (binop op lv rv sp) (fun v => Safe v.handles) := by
  unfold binop
  refine Triple.bind (readV_extras _ 50 lv (fun a ha => by simp [ha])) (fun _ => ?_)
  refine Triple.bind (readV_extras _ 51 rv (fun a ha => by simp [ha])) (fun _ => ?_)
  refine Triple.bind (Q := fun _ => Safe (lv.handles ++ rv.handles)) ?_ (fun _ => ?_)
  · unfold divCheck
    split
    · exact errAt_spec _ _ _
    · exact Triple.pure _ (fun _ h => h)
  · split
    · refine Triple.bind (freshCt_spec _) (fun ct => ?_)
      refine Triple.bind (allocFrame_spec _ true ct) (fun h' => ?_)
      exact Triple.pure _ (fun s h => h.1.mono (by sub_tac))
    · exact Triple.pure _ (fun s h => h.mono (by sub_tac))

theorem readSegs_spec (xs : List Handle) : ∀ (segs : List Seg),
    Triple (Safe xs) (readSegs segs) (fun _ => Safe xs)
  | [] => Triple.pure _ (fun _ h => h)
  | .lit _ :: r => by simp only [readSegs]; exact readSegs_spec xs r
  | .var _ (some id) :: r => by
    simp only [readSegs]
    refine Triple.bind (getVar_spec xs id) (fun v => ?_)
    refine Triple.bind (Q := fun _ => Safe xs) ?_ (fun _ => readSegs_spec xs r)
    refine (readHs_spec xs 52 v.handles).pre (fun s h => ⟨h.1, fun a ha => ?_⟩)
    have := h.2.mem ha
    simp [St.allH, this]
  | .var _ none :: _ => by simp only [readSegs]; exact Triple.halt_benign _ trivial

theorem allocStrs_spec (xs : List Handle) : ∀ (n : Nat),
    Triple (Safe xs) (allocStrs n) (fun vs => Safe (MVal.handlesL vs ++ xs))
  | 0 => Triple.pure _ (fun _ h => by simpa [MVal.handlesL] using h)
  | n + 1 => by
    simp only [allocStrs]
    refine Triple.bind (freshCt_spec _) (fun ct => ?_)
    refine Triple.bind (allocFrame_spec xs true ct) (fun h' => ?_)
    refine Triple.bind (Q := fun vs s => Safe (MVal.handlesL vs ++ (h' :: xs)) s) ?_ (fun vs => ?_)
    · exact (allocStrs_spec (h' :: xs) n).pre (fun s h => h.1)
    · exact Triple.pure _ (fun s h => h.mono (by sub_tac))

theorem bindArg_spec (xs : List Handle) (v : MVal) :
    Triple (Safe (v.handles ++ xs)) (bindArg Cfg.fixed v)
      (fun v' s => Safe (v'.handles ++ xs) s ∧ NoFrame v'.handles) := by
  simp only [bindArg, Cfg.fixed, if_true]
  exact promote_spec v xs

theorem bindParams_spec (xs : List Handle) : ∀ (ps : List (Option Nat)) (vs : List MVal),
    Triple (Safe (MVal.handlesL vs ++ xs)) (bindParams Cfg.fixed ps vs) (fun _ => Safe xs)
  | some id :: ps, v :: vs => by
    simp only [bindParams]
    refine Triple.bind (Q := fun v' s => Safe (v'.handles ++ (MVal.handlesL vs ++ xs)) s ∧ NoFrame v'.handles)
      ?_ (fun v' => ?_)
    · exact (bindArg_spec (MVal.handlesL vs ++ xs) v).pre (fun s h => h.mono (by sub_tac))
    · refine Triple.assume (fun hv => ?_)
      exact Triple.bind (addSlot_spec _ id v' hv) (fun _ => bindParams_spec xs ps vs)
  | [], [] => Triple.pure _ (fun _ h => by simpa [MVal.handlesL] using h)
  | none :: _, _ => by simp only [bindParams]; exact Triple.halt_benign _ trivial
  | some _ :: _, [] => by simp only [bindParams]; exact Triple.halt_benign _ trivial
  | [], _ :: _ => by simp only [bindParams]; exact Triple.halt_benign _ trivial

theorem NoFrame.nil : NoFrame [] := by intro a ha; cases ha

theorem relocate_spec (rv : MVal) :
    Triple (Safe rv.handles) (relocate Cfg.fixed rv) (fun v' => Safe v'.handles) := by
  -- promote, then reset with the promoted value in hand
  have hprom : ∀ v : MVal, Triple (Safe v.handles)
      (do let v' ← promote v; resetToMark Cfg.fixed 2; pure v') (fun v' => Safe v'.handles) := by
    intro v
    refine Triple.bind (Q := fun v' s => Safe (v'.handles ++ []) s ∧ NoFrame v'.handles) ?_ (fun v' => ?_)
    · exact (promote_spec v []).pre (fun s h => by simpa using h)
    · refine Triple.assume (fun hv => ?_)
      refine Triple.bind (Q := fun _ => Safe v'.handles) ?_ (fun _ => Triple.pure _ (fun _ h => h))
      exact (resetToMark_spec v'.handles 2 hv).pre (fun s h => by simpa using h)
  have hplain : ∀ v : MVal, NoFrame v.handles → Triple (Safe v.handles)
      (do resetToMark Cfg.fixed 3; pure v) (fun v' => Safe v'.handles) := by
    intro v hv
    exact Triple.bind (resetToMark_spec v.handles 3 hv) (fun _ => Triple.pure _ (fun _ h => h))
  cases rv with
  | scalar =>
    simp only [relocate]
    exact hplain .scalar (by simpa [MVal.handles] using NoFrame.nil)
  | arr b els =>
    simp only [relocate]
    exact hprom _
  | leaf a =>
    simp only [relocate, Cfg.fixed, Bool.or_true, Bool.and_true, if_true]
    split
    · split
      · -- frame string: staged, frame reset, rebuilt on the caller's frame
        refine Triple.bind (Q := fun _ => Safe [a]) ?_ (fun _ => ?_)
        · exact (readH_spec [a] 35 a).pre (fun s h => ⟨by simpa [MVal.handles] using h, by simp⟩)
        · refine Triple.bind (emit_spec _ _) (fun _ => ?_)
          refine Triple.bind (Q := fun _ => Safe []) ?_ (fun _ => ?_)
          · exact (resetToMark_spec [] 1 NoFrame.nil).pre (fun s h => h.mono (Sub.nil _))
          · refine Triple.bind (allocFrame_spec [] true _) (fun h' => ?_)
            refine Triple.bind (Q := fun _ => Safe [h']) ?_ (fun _ => ?_)
            · exact (emit_spec _ _).pre (fun s h => h.1)
            · exact Triple.pure _ (fun s h => by simpa [MVal.handles] using h)
      · rename_i hnf
        exact hplain (.leaf a) (by simpa [MVal.handles] using NoFrame.single (by simpa using hnf))
    · exact hprom _

end NaijaVerif.Mem
