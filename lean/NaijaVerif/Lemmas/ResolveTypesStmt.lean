import NaijaVerif.Lemmas.ResolveTypesTable
/-
The typing half of C09, part 3: statements, blocks, programs.

The scope-stack invariant `SRel`: every variable lookup of the checker (`Env.vars`, the current block's
`Cur.vars`) yields the declared type the specification's environment (`TEnv.vars`, `cur`) holds for
the name, every function lookup the result type of `TEnv.fns`.  Under it every statement is in step
(`Lock`), and a statement the checker has nothing to say about leaves related environments behind.
At block entry the invariant is re-established by `block_table` (for every block since the fix of
D-09f; the side condition `Spec.ReturnsTyped` of the earlier proof is gone).
-/
namespace NaijaVerif.Resolve
open NaijaVerif NaijaVerif.Spec

/-! ### The invariant -/

structure BRelT (env : Env) (te : TEnv) : Prop where
  vars : ∀ x, tLookup te.vars x = (lookupScopes env.vars x).map (·.ty)
  fns : ∀ x, tLookup te.fns x = (lookupFns env.fns x).map (·.ret)
  sh : env.shadowRet = true
  fixed : env.recovery = false

structure SRel (env : Env) (cur : Scope) (te : TEnv) (tcur : TScope) : Prop extends BRelT env te where
  cur : ∀ x, tFind tcur x = (findVar cur x).map (·.ty)

theorem scopes_cons (cur : Scope) (ss : List Scope) (tcur : TScope) (ts : List TScope)
    (hc : ∀ x, tFind tcur x = (findVar cur x).map (·.ty))
    (hv : ∀ x, tLookup ts x = (lookupScopes ss x).map (·.ty)) (x : Bytes) :
    tLookup (tcur :: ts) x = (lookupScopes (cur :: ss) x).map (·.ty) := by
  simp only [tLookup, lookupScopes, hc x]
  cases findVar cur x with
  | some e => rfl
  | none => exact hv x

/-- The environment in which the expressions of a statement are typed. -/
theorem SRel.rel {env : Env} {cur : Scope} {te : TEnv} {tcur : TScope} (h : SRel env cur te tcur) :
    Rel env cur { te with vars := tcur :: te.vars } := by
  constructor
  · intro x
    simp only [varTy, lookupVar]
    exact scopes_cons cur env.vars tcur te.vars h.cur h.vars x
  · intro x
    simp only [fnTy, lookupFn]
    exact h.fns x
  · exact h.fixed

/-- The environment of a nested block. -/
theorem SRel.nested {env : Env} {cur : Scope} {te : TEnv} {tcur : TScope} (h : SRel env cur te tcur) (env' : Env)
    (hv : env'.vars = cur :: env.vars) (hf : env'.fns = env.fns) (hs : env'.shadowRet = env.shadowRet)
    (hr : env'.recovery = env.recovery) :
    BRelT env' { te with vars := tcur :: te.vars } := by
  constructor
  · intro x; rw [hv]; exact scopes_cons cur env.vars tcur te.vars h.cur h.vars x
  · intro x; rw [hf]; exact h.fns x
  · rw [hs]; exact h.sh
  · rw [hr]; exact h.fixed

/-! ### Declarations -/

theorem tFind_cons (s : TScope) (x y : Bytes) (t : VType) :
    tFind ((x, t) :: s) y = if x == y then some t else tFind s y := by
  simp only [tFind, List.find?_cons]
  cases x == y <;> rfl

theorem tFind_mapUpdate : ∀ (s : TScope) (x y : Bytes) (t : VType), (tFind s x).isSome = true →
    tFind (s.map (fun p => if p.1 == x then (x, t) else p)) y = if x == y then some t else tFind s y
  | [], _, _, _, h => by simp [tFind] at h
  | p :: s, x, y, t, h => by
      by_cases hp : p.1 = x
      · have hp' : (p.1 == x) = true := by simpa using hp
        simp only [List.map_cons, hp', if_true, tFind_cons]
        by_cases hxy : x = y
        · simp [hxy]
        · have h1 : (x == y) = false := by simpa using hxy
          have h2 : (p.1 == y) = false := by simpa [hp] using hxy
          simp only [h1, Bool.false_eq_true, if_false]
          by_cases hs : (tFind s x).isSome = true
          · rw [tFind_mapUpdate s x y t hs]
            simp [h1, tFind, h2]
          · -- no further entry of the name: the map changes nothing below
            have hnone : ∀ q ∈ s, (q.1 == x) = false := by
              intro q hq
              simp only [tFind, Option.isSome_map, List.find?_isSome, not_exists, not_and, Bool.not_eq_true] at hs
              exact hs q hq
            have hmap : s.map (fun p => if p.1 == x then (x, t) else p) = s := by
              conv => rhs; rw [← List.map_id s]
              apply List.map_congr_left
              intro q hq; simp [hnone q hq]
            rw [hmap]
            simp [tFind, h2]
      · have hp' : (p.1 == x) = false := by simpa using hp
        have hs : (tFind s x).isSome = true := by
          simpa [tFind, List.find?_cons, hp'] using h
        simp only [List.map_cons, hp', Bool.false_eq_true, if_false]
        have ih := tFind_mapUpdate s x y t hs
        by_cases hpy : p.1 = y
        · have : (p.1 == y) = true := by simpa using hpy
          have hxy : (x == y) = false := by
            simpa using fun h' : x = y => hp (hpy.trans h'.symm)
          simp [tFind, this, hxy]
        · have : (p.1 == y) = false := by simpa using hpy
          simp only [tFind, List.find?_cons, this] at ih ⊢
          exact ih

theorem tFind_tDeclare (s : TScope) (x y : Bytes) (t : VType) :
    tFind (tDeclare s x t) y = if x == y then some t else tFind s y := by
  unfold tDeclare
  split
  · next h => exact tFind_mapUpdate s x y t h
  · exact tFind_cons s x y t

theorem findVar_cons (s : Scope) (e : VarEntry) (y : Bytes) :
    findVar (e :: s) y = if e.name == y then some e else findVar s y := by
  simp only [findVar, List.find?_cons]
  cases e.name == y <;> rfl

theorem findVar_updateTy_some : ∀ (s : Scope) (x y : Bytes) (t : VType), (findVar s x).isSome = true →
    (findVar (updateTy s x t) y).map (·.ty) = if x == y then some t else (findVar s y).map (·.ty)
  | [], _, _, _, h => by simp [findVar] at h
  | e :: s, x, y, t, h => by
      simp only [updateTy]
      by_cases he : e.name = x
      · have he' : (e.name == x) = true := by simpa using he
        simp only [he', if_true, findVar_cons]
        subst he
        cases e.name == y <;> rfl
      · have he' : (e.name == x) = false := by simpa using he
        have hs : (findVar s x).isSome = true := by simpa [findVar_cons, he'] using h
        simp only [he', Bool.false_eq_true, if_false, findVar_cons]
        have ih := findVar_updateTy_some s x y t hs
        by_cases hey : e.name = y
        · have h1 : (e.name == y) = true := by simpa using hey
          have h2 : (x == y) = false := by simpa using fun h' : x = y => he (hey.trans h'.symm)
          simp [h1, h2]
        · have h1 : (e.name == y) = false := by simpa using hey
          simp only [h1, Bool.false_eq_true, if_false]
          exact ih

/-! ### Parameters -/

theorem declareParams_dyn (sp : Bool) (owner scope : Nat) : ∀ (ps : List Param) (sc : Scope) (f : Facts),
    (∀ e ∈ sc, e.ty = .dynamic) → ∀ e ∈ (declareParams sp owner scope ps sc f).2.1, e.ty = .dynamic
  | [], sc, f, h => by simpa [declareParams] using h
  | p :: ps, sc, f, h => by
      simp only [declareParams]
      apply declareParams_dyn sp owner scope ps
      intro e he
      rcases List.mem_cons.mp he with rfl | he
      · rfl
      · exact h e he

theorem findVar_dyn : ∀ (s : Scope) (y : Bytes), (∀ e ∈ s, e.ty = .dynamic) →
    (findVar s y).map (·.ty) = if (scopeNames s).contains y then some .dynamic else none
  | [], _, _ => by simp [findVar, scopeNames]
  | e :: s, y, h => by
      simp only [findVar_cons, scopeNames, List.map_cons, List.contains_cons]
      have ih := findVar_dyn s y (fun e' he' => h e' (by simp [he']))
      simp only [scopeNames] at ih
      by_cases hey : e.name = y
      · have h1 : (e.name == y) = true := by simpa using hey
        have h2 : (y == e.name) = true := by simpa using hey.symm
        simp [h1, h2, h e (by simp)]
      · have h1 : (e.name == y) = false := by simpa using hey
        have h2 : (y == e.name) = false := by simpa using fun h' : y = e.name => hey h'.symm
        simp only [h1, h2, Bool.false_eq_true, if_false, Bool.false_or]
        exact ih

/-- The parameter scope, on both sides. -/
theorem params_scope (sp : Bool) (owner scope : Nat) (ps : List Param) (f : Facts) (y : Bytes) :
    tFind ((ps.map (fun p => (p.name, VType.dynamic))).reverse) y
      = (findVar (declareParams sp owner scope ps [] f).2.1 y).map (·.ty) := by
  rw [findVar_dyn _ y (declareParams_dyn sp owner scope ps [] f (by simp)), declareParams_names]
  have : (ps.map (fun p => (p.name, VType.dynamic))).reverse
      = ((ps.map (·.name)).reverse).map (fun n => (n, VType.dynamic)) := by
    simp [List.map_reverse]
  rw [this, tFind_dyn]
  simp [scopeNames]

/-! ### Pre-declaration reports scoping rules only -/

theorem mem_errIf {c : Bool} {x d : RDiag} (h : d ∈ errIf c x) : d = x := by
  cases c <;> simp [errIf] at h
  exact h

theorem paramDiags_allScoping : ∀ (seen : List Bytes) (ps : List Param), ∀ d ∈ paramDiags seen ps, d.rule.isScoping = true
  | _, [], d, hd => by simp [paramDiags] at hd
  | seen, p :: ps, d, hd => by
      simp only [paramDiags, List.mem_append] at hd
      rcases hd with (hd | hd) | hd
      · rw [mem_errIf hd]; rfl
      · rw [mem_errIf hd]; rfl
      · exact paramDiags_allScoping _ ps d hd

theorem predeclare_allScoping (env : Env) : ∀ (ss : List Stmt) (sigs : List FnSig) (f : Facts),
    ∀ d ∈ (predeclare env ss sigs f).ds, d.rule.isScoping = true
  | [], _, _, d, hd => by simp [predeclare] at hd
  | .fnDef name nsp ps body _ _ _ :: rest, sigs, f, d, hd => by
      simp only [predeclare] at hd
      have hres : ∀ d ∈ errIf (isReservedName name) (RDiag.at .reservedFn nsp), d.rule.isScoping = true := by
        intro d hd
        rw [mem_errIf hd]; rfl
      cases h : findFn sigs name with
      | some ex =>
        simp only [h, List.mem_append, List.mem_singleton] at hd
        rcases hd with (hd | hd) | hd
        · exact hres d hd
        · subst hd; rfl
        · exact predeclare_allScoping env rest sigs f d hd
      | none =>
        simp only [h, List.mem_append] at hd
        rcases hd with (hd | hd) | hd
        · exact hres d hd
        · exact paramDiags_allScoping [] ps d hd
        · exact predeclare_allScoping env rest _ _ d hd
  | .assign .. :: rest, sigs, f, d, hd => by simp only [predeclare] at hd; exact predeclare_allScoping env rest sigs f d hd
  | .assignExisting .. :: rest, sigs, f, d, hd => by simp only [predeclare] at hd; exact predeclare_allScoping env rest sigs f d hd
  | .assignIndex .. :: rest, sigs, f, d, hd => by simp only [predeclare] at hd; exact predeclare_allScoping env rest sigs f d hd
  | .ifS .. :: rest, sigs, f, d, hd => by simp only [predeclare] at hd; exact predeclare_allScoping env rest sigs f d hd
  | .loop .. :: rest, sigs, f, d, hd => by simp only [predeclare] at hd; exact predeclare_allScoping env rest sigs f d hd
  | .block .. :: rest, sigs, f, d, hd => by simp only [predeclare] at hd; exact predeclare_allScoping env rest sigs f d hd
  | .ret .. :: rest, sigs, f, d, hd => by simp only [predeclare] at hd; exact predeclare_allScoping env rest sigs f d hd
  | .brk .. :: rest, sigs, f, d, hd => by simp only [predeclare] at hd; exact predeclare_allScoping env rest sigs f d hd
  | .cont .. :: rest, sigs, f, d, hd => by simp only [predeclare] at hd; exact predeclare_allScoping env rest sigs f d hd
  | .expr .. :: rest, sigs, f, d, hd => by simp only [predeclare] at hd; exact predeclare_allScoping env rest sigs f d hd

/-! ### Conditions -/

theorem cond_lock (env : Env) (cur : Scope) (te : TEnv) (c : Expr) (h : typeOf te c = inferExpr env cur c) :
    Lock (errIf (!condOk (inferExpr env cur c)) (RDiag.at .tyCond c.span))
      (tyIf (typeOf te c) Doc.condOk .tyCond c.span) := by
  rw [h]
  cases inferExpr env cur c with
  | none => simp [errIf, condOk, tyIf, Lock.nil]
  | some t => simp only [tyIf, condOk_doc]; exact Lock.own _ _ _

/-! ### Statements and blocks -/

mutual
  theorem checkStmt_lock (env : Env) (cur : Cur) (te : TEnv) (tcur : TScope) (hR : SRel env cur.vars te tcur) :
      ∀ (s : Stmt) (f : Facts), (∀ name, name ∈ fnNames [s] → ownHas env name = true) →
        Lock (checkStmt env cur s f).ds (stmtT te tcur cur.seenFns s) ∧
        ((checkStmt env cur s f).ds = [] →
          SRel env (checkStmt env cur s f).cur.vars te (nextT te tcur s))
    | .assign x xs e _ _ sp, f, _ => by
        obtain ⟨hLe, _⟩ := checkExpr_lock env cur.vars f.stmtEffects.length _ hR.rel e
          (pushStmt f env.owner env.scope)
        have hS := Lock.ownS (isReservedName x) .reservedVar xs rfl
        have hL := Lock.append hS (fun _ => hLe)
        have hcur := hR.cur x
        simp only [checkStmt, stmtT, nextT]
        cases hfv : findVar cur.vars x with
        | some ent =>
          refine ⟨by simpa using hL, fun hc => ?_⟩
          simp only [List.append_eq_nil_iff] at hc
          have hty := typeOf_eq hR.rel e
          refine { toBRelT := hR.toBRelT, cur := fun y => ?_ }
          rw [tFind_tDeclare, hty, findVar_updateTy_some _ _ _ _ (by simp [hfv])]
          split
          · rfl
          · exact hR.cur y
        | none =>
          refine ⟨by simpa using hL, fun hc => ?_⟩
          simp only [List.append_eq_nil_iff] at hc
          have hty := typeOf_eq hR.rel e
          refine { toBRelT := hR.toBRelT, cur := fun y => ?_ }
          rw [tFind_tDeclare, hty, findVar_cons]
          simp only []
          cases x == y
          · simp only [Bool.false_eq_true, if_false]; exact hR.cur y
          · simp
    | .assignExisting x xs e _ _ sp, f, _ => by
        simp only [checkStmt, stmtT, nextT]
        cases hl : lookupVar env cur.vars x with
        | some ent =>
          obtain ⟨hLe, _⟩ := checkExpr_lock env cur.vars f.stmtEffects.length _ hR.rel e
            (recCapWrite (recStmtWrite (pushStmt f env.owner env.scope) env.owner f.stmtEffects.length ent.id) env.owner ent.id)
          exact ⟨hLe, fun _ => hR⟩
        | none =>
          refine ⟨Or.inr ⟨by simp, Or.inr ⟨RDiag.at .assignUndeclared xs, by simp, rfl⟩⟩, fun hc => ?_⟩
          simp at hc
    | .assignIndex t e _ sp, f, _ => by
        obtain ⟨hLt, _⟩ := checkExpr_lock env cur.vars f.stmtEffects.length _ hR.rel t
          (pushStmt f env.owner env.scope)
        obtain ⟨hLe, _⟩ := checkExpr_lock env cur.vars f.stmtEffects.length _ hR.rel e
          (checkExpr env cur.vars f.stmtEffects.length t (pushStmt f env.owner env.scope)).facts
        simp only [checkStmt, stmtT, nextT]
        exact ⟨Lock.append (Lock.append hLt (fun _ => hLe)) (fun _ => Lock.own _ _ _), fun _ => hR⟩
    | .ifS c t e _ sp, f, _ => by
        obtain ⟨hLc, _⟩ := checkExpr_lock env cur.vars f.stmtEffects.length _ hR.rel c
          (pushStmt f env.owner env.scope)
        simp only [checkStmt, stmtT, nextT]
        refine ⟨?_, fun _ => hR⟩
        have hB := hR.nested { env with vars := cur.vars :: env.vars } rfl rfl rfl rfl
        refine Lock.append (Lock.append (Lock.append hLc (fun _ => ?_)) (fun _ => ?_)) (fun _ => ?_)
        · exact cond_lock env cur.vars _ c (typeOf_eq hR.rel c)
        · exact checkBlock_lock _ (some env.scope) _ hB t _
        · exact checkOptBlock_lock _ (some env.scope) _ hB e _
    | .loop c b _ sp, f, _ => by
        obtain ⟨hLc, _⟩ := checkExpr_lock env cur.vars f.stmtEffects.length _ hR.rel c
          (pushStmt f env.owner env.scope)
        simp only [checkStmt, stmtT, nextT]
        refine ⟨?_, fun _ => hR⟩
        have hB := hR.nested { env with vars := cur.vars :: env.vars, inLoop := env.inLoop + 1 } rfl rfl rfl rfl
        refine Lock.append (Lock.append hLc (fun _ => ?_)) (fun _ => ?_)
        · exact cond_lock env cur.vars _ c (typeOf_eq hR.rel c)
        · exact checkBlock_lock _ (some env.scope) _ hB b _
    | .block b _ sp, f, _ => by
        simp only [checkStmt, stmtT, nextT]
        have hB := hR.nested { env with vars := cur.vars :: env.vars } rfl rfl rfl rfl
        exact ⟨checkBlock_lock _ (some env.scope) _ hB b _, fun _ => hR⟩
    | .fnDef name nsp ps body _ _ sp, f, hown => by
        have ho := hown name (by simp [fnNames])
        simp only [checkStmt, stmtT, nextT]
        by_cases hs : name ∈ cur.seenFns
        · simp [hs, Lock.nil, hR]
        · unfold ownHas at ho
          split at ho
          · next own rest heq =>
            rw [heq]
            cases hg : findFn own name with
            | some g =>
              simp only [hg]
              simp only [hs, List.contains_iff_mem, if_false]
              refine ⟨?_, fun _ => hR⟩
              apply checkBlock_lock _ _ _ _ body _
              constructor
              · intro x
                simp only []
                exact scopes_cons _ (cur.vars :: env.vars) _ (tcur :: te.vars)
                  (params_scope env.spanLen g.id _ ps _) (scopes_cons cur.vars env.vars tcur te.vars hR.cur hR.vars) x
              · intro x
                simp only [← heq]
                exact hR.fns x
              · exact hR.sh
              · exact hR.fixed
            | none => simp [hg] at ho
          · simp at ho
    | .ret e _ sp, f, _ => by
        simp only [checkStmt, nextT]
        have hS := Lock.ownS env.curFn.isNone .returnOutside sp rfl
        cases e with
        | some e =>
          obtain ⟨hLe, _⟩ := checkExpr_lock env cur.vars f.stmtEffects.length _ hR.rel e
            (pushStmt f env.owner env.scope)
          simp only [stmtT]
          have := Lock.append hS (fun _ => hLe)
          exact ⟨by simpa using this, fun _ => hR⟩
        | none =>
          simp only [stmtT]
          exact ⟨hS, fun _ => hR⟩
    | .brk _ sp, f, _ => by
        simp only [checkStmt, stmtT, nextT]
        exact ⟨Lock.ownS _ .breakOutside sp rfl, fun _ => hR⟩
    | .cont _ sp, f, _ => by
        simp only [checkStmt, stmtT, nextT]
        exact ⟨Lock.ownS _ .continueOutside sp rfl, fun _ => hR⟩
    | .expr e _ sp, f, _ => by
        obtain ⟨hLe, _⟩ := checkExpr_lock env cur.vars f.stmtEffects.length _ hR.rel e
          (pushStmt f env.owner env.scope)
        simp only [checkStmt, stmtT, nextT]
        exact ⟨hLe, fun _ => hR⟩
  theorem checkStmts_lock (env : Env) (te : TEnv) :
      ∀ (ss : List Stmt) (cur : Cur) (tcur : TScope) (f : Facts), SRel env cur.vars te tcur →
        (∀ name, name ∈ fnNames ss → ownHas env name = true) →
        Lock (checkStmts env cur ss f).ds (stmtsT te tcur cur.seenFns ss)
    | [], cur, tcur, f, _, _ => by simp [checkStmts, stmtsT, Lock.nil]
    | s :: ss, cur, tcur, f, hR, hown => by
        have h1 : ∀ name, name ∈ fnNames [s] → ownHas env name = true :=
          fun n hn => hown n (fnNames_cons_sub s ss n hn)
        have h2 : ∀ name, name ∈ fnNames ss → ownHas env name = true :=
          fun n hn => hown n (fnNames_tail_sub s ss n hn)
        obtain ⟨hL, hpost⟩ := checkStmt_lock env cur te tcur hR s f h1
        have hc := (checkStmt_cur env cur s f h1).2
        simp only [checkStmts, stmtsT]
        refine Lock.append hL (fun hclean => ?_)
        have := checkStmts_lock env te ss (checkStmt env cur s f).cur (nextT te tcur s)
          (checkStmt env cur s f).facts (hpost hclean) h2
        rw [hc] at this
        exact this
  theorem checkBlock_lock (env : Env) (parent : Option Nat) (te : TEnv) (hB : BRelT env te) :
      ∀ (b : Block) (f : Facts), Lock (checkBlock env parent b f).ds (blockT te b)
    | .mk ss sp, f => by
        simp only [checkBlock, blockT]
        have hkeys := block_table { env with scope := f.scopes.length } te hB.sh hB.fixed hB.vars hB.fns ss
          (if parent.isNone && env.owner == 0 then setRootScope (pushScope f parent env.owner) f.scopes.length
            else pushScope f parent env.owner)
        refine Lock.append (T1 := []) (Lock.ofScoping (predeclare_allScoping _ ss [] _))
          (fun _ => checkStmts_lock _ { te with fns := fnTable te ss :: te.fns } ss {} [] _ ?_ ?_)
        · constructor
          · constructor
            · exact hB.vars
            · intro x
              simp only [tLookup, lookupFns, ← hkeys, tFind_map_key2]
              cases findFn _ x with
              | some g => rfl
              | none => exact hB.fns x
            · exact hB.sh
            · exact hB.fixed
          · intro x; simp [tFind, findVar]
        · intro name hn
          simp only [ownHas]
          have := findSig_blockFns_has ss [] name hn
          apply findFn_isSome_of_keys _ (blockFns ss []) _ name this
          rw [retIter_keys, predeclare_sigs]; rfl
  theorem checkOptBlock_lock (env : Env) (parent : Option Nat) (te : TEnv) (hB : BRelT env te) :
      ∀ (b : Option Block) (f : Facts), Lock (checkOptBlock env parent b f).ds (optBlockT te b)
    | none, f => by simp [checkOptBlock, optBlockT, Lock.nil]
    | some b, f => by
        simp only [checkOptBlock, optBlockT]
        exact checkBlock_lock env parent te hB b f
end

/-- **Typing correspondence**: for EVERY program the checker model's diagnostics and the
specification's typing violations are in step. -/
theorem resolve_lock (p : Block) : Lock (resolve p).rdiags (typeViolations p) := by
  simp only [resolve, resolveWith, typeViolations]
  apply checkBlock_lock (rootEnv true) none _ _ p rootFacts
  constructor
  · intro x; simp [tLookup, rootEnv, lookupScopes]
  · intro x; simp [tLookup, rootEnv, lookupFns]
  · rfl
  · rfl

end NaijaVerif.Resolve
