import NaijaVerif.Lemmas.AnalysisLiveTop
import NaijaVerif.Lemmas.AnalysisPureCall
/-
The liveness conditions are monotone in the plan: a plan that skips fewer statements satisfies them
whenever a larger one does.  So the conditions evaluated once for the model's own plan cover every
plan contained in it.
-/
namespace NaijaVerif.C03
open NaijaVerif NaijaVerif.Analysis NaijaVerif.AEval

/-- The same setting with another plan. -/
def LSetup.withCfg (L : LSetup) (cfg : Cfg) : LSetup := { L with cfg := cfg }

section mono
variable {L : LSetup} {cfg : Cfg}

theorem withCfg_baseB (f : Nat) (σ : List (Option Nat)) (i : Nat) (es : List Expr) :
    (L.withCfg cfg).baseB f σ i es = L.baseB f σ i es := rfl
theorem withCfg_writesOkB (i : Nat) : (L.withCfg cfg).writesOkB i = L.writesOkB i := rfl
theorem withCfg_blockOkB (f : Nat) (σ : List (Option Nat)) (b : List Stmt) :
    (L.withCfg cfg).blockOkB f σ b = L.blockOkB f σ b := rfl
theorem withCfg_scopeOwner (tg : Nat) : (L.withCfg cfg).scopeOwner tg = L.scopeOwner tg := rfl
theorem withCfg_inTags (σ : List (Option Nat)) (x : Nat) : (L.withCfg cfg).inTags σ x = L.inTags σ x := rfl
theorem withCfg_c : (L.withCfg cfg).c = L.c := rfl
theorem withCfg_ss : (L.withCfg cfg).ss = L.ss := rfl
theorem withCfg_ds : (L.withCfg cfg).ds = L.ds := rfl
theorem withCfg_nl : (L.withCfg cfg).nl = L.nl := rfl

theorem withCfg_otherB (hsub : ∀ i, cfg.skip i = true → L.cfg.skip i = true) {i : Nat} (h : L.otherB i = true) :
    (L.withCfg cfg).otherB i = true := by
  simp only [LSetup.otherB, LSetup.withCfg, Bool.or_eq_true, Bool.not_eq_true', Bool.and_eq_true] at h ⊢
  refine ⟨⟨?_, h.1.2⟩, h.2⟩
  rcases h.1.1 with h1 | h1
  · left
    cases hc : cfg.skip i with
    | false => rfl
    | true => rw [hsub i hc] at h1; cases h1
  · exact Or.inr h1

theorem pureFnB_withCfg {g : Nat} {ps : List Param} {body : List Stmt} (h : L.pureFnB g ps body = true) :
    (L.withCfg cfg).pureFnB g ps body = true := h

theorem withCfg_ownStoreB (hsub : ∀ i, cfg.skip i = true → L.cfg.skip i = true) {f : Nat} {σ : List (Option Nat)} {i : Nat}
    {isDecl : Bool} {l : Nat} {e : Expr} {st : LS} {rest : List Stmt} (h : L.ownStoreB f σ i isDecl l e st rest = true) :
    (L.withCfg cfg).ownStoreB f σ i isDecl l e st rest = true := by
  simp only [LSetup.ownStoreB, Bool.and_eq_true, Bool.or_eq_true, Bool.not_eq_true'] at h ⊢
  refine ⟨h.1, ?_⟩
  rcases h.2 with (h2 | h2) | h2
  · left; left
    show cfg.skip i = false
    cases hc : cfg.skip i with
    | false => rfl
    | true => rw [hsub i hc] at h2; cases h2
  · exact Or.inl (Or.inr h2)
  · exact Or.inr h2

mutual
  theorem lokB_trans (hother : ∀ i, L.otherB i = true → (L.withCfg cfg).otherB i = true)
      (hstore : ∀ f σ i d l e st rest, L.baseB f σ i [e] = true → L.ownStoreB f σ i d l e st rest = true →
        (L.withCfg cfg).ownStoreB f σ i d l e st rest = true) : ∀ (f : Nat) (σ : List (Option Nat)) (lc : LoopCtx)
      (s : Stmt) (st : LS) (rest : List Stmt), lokB L f σ lc s st rest = true → lokB (L.withCfg cfg) f σ lc s st rest = true
    | f, σ, lc, .assign _ _ e b (some i) _, st, rest, h => by
        simp only [lokB, Bool.and_eq_true, withCfg_baseB, withCfg_c] at h ⊢
        refine ⟨h.1, ?_⟩
        cases b with
        | none => exact hother _ h.2
        | some l =>
          simp only [Bool.and_eq_true] at h ⊢
          exact ⟨h.2.1, hstore _ _ _ _ _ _ _ _ h.1 h.2.2⟩
    | f, σ, lc, .assignExisting _ _ e b (some i) _, st, rest, h => by
        simp only [lokB, Bool.and_eq_true, withCfg_baseB, withCfg_inTags] at h ⊢
        refine ⟨h.1, ?_⟩
        cases b with
        | none => exact hother _ h.2
        | some l =>
          have h2 := h.2
          simp only [] at h2 ⊢
          by_cases ho : (L.c.owner l == some f) = true
          · have ho' : ((L.withCfg cfg).c.owner l == some f) = true := ho
            rw [if_pos ho] at h2
            rw [if_pos ho']
            exact hstore _ _ _ _ _ _ _ _ h.1 h2
          · have ho' : ¬ ((L.withCfg cfg).c.owner l == some f) = true := ho
            rw [if_neg ho] at h2
            rw [if_neg ho']
            simp only [Bool.and_eq_true] at h2 ⊢
            exact ⟨h2.1, hother _ h2.2⟩
    | f, σ, lc, .assignIndex t e (some i) _, _, _, h | f, σ, lc, .fnDef _ _ _ (.mk _ _) none (some i) _, _, _, h
    | f, σ, lc, .ret (some e) (some i) _, _, _, h | f, σ, lc, .ret none (some i) _, _, _, h
    | f, σ, lc, .brk (some i) _, _, _, h | f, σ, lc, .cont (some i) _, _, _, h | f, σ, lc, .expr e (some i) _, _, _, h => by
        simp only [lokB, Bool.and_eq_true, withCfg_baseB, withCfg_writesOkB] at h ⊢
        exact ⟨h.1, hother _ h.2⟩
    | f, σ, lc, .ifS c (.mk t _) none (some i) _, st, _, h => by
        simp only [lokB, Bool.and_eq_true, withCfg_baseB, withCfg_writesOkB, withCfg_blockOkB, withCfg_c, withCfg_ss] at h ⊢
        exact ⟨⟨⟨h.1.1.1, hother _ h.1.1.2⟩, h.1.2⟩, lokListB_trans hother hstore _ _ _ t _ h.2⟩
    | f, σ, lc, .ifS c (.mk t _) (some (.mk e _)) (some i) _, st, _, h => by
        simp only [lokB, Bool.and_eq_true, withCfg_baseB, withCfg_writesOkB, withCfg_blockOkB, withCfg_c, withCfg_ss] at h ⊢
        exact ⟨⟨⟨⟨⟨h.1.1.1.1.1, hother _ h.1.1.1.1.2⟩, h.1.1.1.2⟩, h.1.1.2⟩, lokListB_trans hother hstore _ _ _ t _ h.1.2⟩,
          lokListB_trans hother hstore _ _ _ e _ h.2⟩
    | f, σ, lc, .loop c (.mk b _) (some i) _, st, _, h => by
        simp only [lokB, Bool.and_eq_true, withCfg_baseB, withCfg_writesOkB, withCfg_blockOkB, withCfg_c, withCfg_ss, withCfg_nl] at h ⊢
        exact ⟨⟨⟨⟨h.1.1.1.1, hother _ h.1.1.1.2⟩, h.1.1.2⟩, h.1.2⟩, lokListB_trans hother hstore _ _ _ b _ h.2⟩
    | f, σ, lc, .block (.mk b _) (some i) _, st, _, h => by
        simp only [lokB, Bool.and_eq_true, withCfg_baseB, withCfg_writesOkB, withCfg_blockOkB, withCfg_c, withCfg_ss] at h ⊢
        exact ⟨⟨⟨h.1.1.1, hother _ h.1.1.2⟩, h.1.2⟩, lokListB_trans hother hstore _ _ _ b _ h.2⟩
    | f, σ, lc, .fnDef _ _ ps (.mk body _) (some g) (some i) _, _, _, h => by
        simp only [lokB, Bool.and_eq_true, withCfg_baseB, withCfg_writesOkB, withCfg_blockOkB, withCfg_c, withCfg_ss, withCfg_ds,
          withCfg_scopeOwner] at h ⊢
        exact ⟨⟨⟨⟨⟨h.1.1.1.1.1, hother _ h.1.1.1.1.2⟩, h.1.1.1.2⟩, h.1.1.2⟩, pureFnB_withCfg h.1.2⟩, lokListB_trans hother hstore _ _ _ body _ h.2⟩
    | f, σ, lc, .fnDef _ _ ps (.mk body _) (some g) none _, _, _, h => by
        simp only [lokB, Bool.and_eq_true, withCfg_blockOkB, withCfg_ss, withCfg_ds, withCfg_scopeOwner] at h ⊢
        exact ⟨⟨h.1.1, pureFnB_withCfg h.1.2⟩, lokListB_trans hother hstore _ _ _ body _ h.2⟩
    | _, _, _, .assign _ _ _ _ none _, _, _, _ => by simp only [lokB]
    | _, _, _, .assignExisting _ _ _ _ none _, _, _, _ => by simp only [lokB]
    | _, _, _, .assignIndex _ _ none _, _, _, _ => by simp only [lokB]
    | _, _, _, .ifS _ (.mk _ _) none none _, _, _, _ => by simp only [lokB]
    | _, _, _, .ifS _ (.mk _ _) (some (.mk _ _)) none _, _, _, _ => by simp only [lokB]
    | _, _, _, .loop _ (.mk _ _) none _, _, _, _ => by simp only [lokB]
    | _, _, _, .block (.mk _ _) none _, _, _, _ => by simp only [lokB]
    | _, _, _, .fnDef _ _ _ (.mk _ _) none none _, _, _, _ => by simp only [lokB]
    | _, _, _, .ret (some _) none _, _, _, _ => by simp only [lokB]
    | _, _, _, .ret none none _, _, _, _ => by simp only [lokB]
    | _, _, _, .brk none _, _, _, _ => by simp only [lokB]
    | _, _, _, .cont none _, _, _, _ => by simp only [lokB]
    | _, _, _, .expr _ none _, _, _, _ => by simp only [lokB]
  theorem lokListB_trans (hother : ∀ i, L.otherB i = true → (L.withCfg cfg).otherB i = true)
      (hstore : ∀ f σ i d l e st rest, L.baseB f σ i [e] = true → L.ownStoreB f σ i d l e st rest = true →
        (L.withCfg cfg).ownStoreB f σ i d l e st rest = true) : ∀ (f : Nat) (σ : List (Option Nat)) (lc : LoopCtx)
      (ss : List Stmt) (post : LS), lokListB L f σ lc ss post = true → lokListB (L.withCfg cfg) f σ lc ss post = true
    | _, _, _, [], _, _ => by simp only [lokListB]
    | f, σ, lc, s :: ss, post, h => by
        simp only [lokListB, Bool.and_eq_true, withCfg_c, withCfg_nl] at h ⊢
        exact ⟨lokB_trans hother hstore f σ lc s _ ss h.1, lokListB_trans hother hstore f σ lc ss post h.2⟩
end

theorem lokListB_mono (hsub : ∀ i, cfg.skip i = true → L.cfg.skip i = true) (f : Nat) (σ : List (Option Nat)) (lc : LoopCtx)
    (ss : List Stmt) (post : LS) (h : lokListB L f σ lc ss post = true) : lokListB (L.withCfg cfg) f σ lc ss post = true :=
  lokListB_trans (fun _ => withCfg_otherB hsub) (fun _ _ _ _ _ _ _ _ _ => withCfg_ownStoreB hsub) f σ lc ss post h

end mono

theorem rootOkB_sub (root : Block) (facts : Facts) (plan big : Plan) (q : Nat → Expr → Bool)
    (hsub : ∀ i ∈ plan.stmts, i ∈ big.stmts)
    (h : rootOkB (lsetupOf root facts (some big) q) root = true) :
    rootOkB (lsetupOf root facts (some plan) q) root = true := by
  have e : lsetupOf root facts (some plan) q = (lsetupOf root facts (some big) q).withCfg (Cfg.ofPlan (some plan)) := rfl
  rw [e]
  simp only [rootOkB, Bool.and_eq_true, withCfg_blockOkB, withCfg_ss] at h ⊢
  refine ⟨h.1, lokListB_mono ?_ _ _ _ _ _ h.2⟩
  intro i hi
  simp only [Cfg.ofPlan, lsetupOf, List.contains_eq_mem, decide_eq_true_eq] at hi ⊢
  exact hsub i hi

/-- Everything the liveness theorem asks of a program and its facts, for the model's own plan:
distinct statement ids, the global consistency conditions, the statement-by-statement conditions.
Decidable, independent of the plan that is actually run. -/
def modelOkB (root : Block) (facts : Facts) : Bool :=
  decide (((rows root).map (·.sid)).Nodup) && globalOkB root facts &&
  rootOkB (lsetupOf root facts (some (planModel root facts)) (safe2B (mkCtx root facts))) root

end NaijaVerif.C03
