/-
Lemmas for C13, part 3: `replace`, `split`/`join`, `slice`, `len`, and UTF-8 well-formedness of
their results.
-/
import NaijaVerif.Lemmas.StrsUtf8

namespace NaijaVerif.Strs
open NaijaVerif NaijaVerif.Bytes

/-! ### replace -/

theorem slice?_tail {h : Bytes} {pos : Nat} (hp : pos ≤ h.length) :
    slice? h pos h.length = .ok (h.drop pos) := by
  rw [slice?_ok hp (Nat.le_refl _)]
  congr 1
  apply List.take_of_length_le
  simp

/-- The loop of `replace` computes the greedy specification, never slices out of range and never
runs out of fuel — for any search routine that returns the first occurrence. -/
theorem replaceLoop_eq {fnd : Bytes → Bytes → Except Fail (Option Nat)}
    (hf : ∀ a b, fnd a b = .ok (firstOcc a b)) (h f t : Bytes) (hne : f ≠ []) :
    ∀ (fuel pos : Nat) (buf : Bytes), pos ≤ h.length → h.length - pos + 1 ≤ fuel →
      replaceLoop fnd h f t fuel pos buf = .ok (buf ++ replaceSpecAux f t fuel (h.drop pos)) := by
  have hfl : 0 < f.length := List.length_pos_iff.mpr hne
  intro fuel
  induction fuel with
  | zero => intro pos buf hp hfu; omega
  | succ fuel ih =>
    intro pos buf hp hfu
    rw [replaceLoop, slice?_tail hp]
    simp only [hf]
    rw [replaceSpecAux]
    cases hfo : firstOcc (h.drop pos) f with
    | none => simp
    | some i =>
      simp only
      have hb := firstOcc_bound hne hfo
      simp only [List.length_drop] at hb
      rw [slice?_ok (by omega) (by omega)]
      simp only
      have h1 : pos + i - pos = i := by omega
      rw [h1, ih (pos + i + f.length) _ (by omega) (by omega)]
      simp only [List.drop_drop, List.append_assoc]
      have h2 : pos + (i + f.length) = pos + i + f.length := by omega
      rw [h2]

theorem chars_length_pos {s : Bytes} (hs : s ≠ []) : chars s ≠ [] := by
  intro h; exact hs ((chars_eq_nil_iff s).mp h)

theorem replaceEmptyLoop_eq (to : Bytes) (hlen : Nat) :
    ∀ (cs : List Bytes) (i : Nat) (buf : Bytes), (∀ c ∈ cs, c ≠ []) → i + cs.flatten.length = hlen →
      replaceEmptyLoop to hlen cs i buf =
        buf ++ (cs.map (to ++ ·)).flatten ++ (if cs = [] then [] else to) := by
  intro cs
  induction cs with
  | nil => intro i buf _ _; simp [replaceEmptyLoop]
  | cons ch rest ih =>
    intro i buf hne hl
    rw [replaceEmptyLoop]
    simp only [List.flatten_cons, List.length_append] at hl
    have hrest : ∀ c ∈ rest, c ≠ [] := fun c hc => hne c (by simp [hc])
    by_cases hr : rest = []
    · subst hr
      simp at hl
      simp [hl, replaceEmptyLoop]
    · have hpos : 0 < rest.flatten.length := by
        cases rest with
        | nil => exact absurd rfl hr
        | cons c r =>
          have := hne c (by simp)
          have : 0 < c.length := List.length_pos_iff.mpr this
          simp; omega
      have hcond : (i + ch.length == hlen) = false := by
        simp; omega
      simp only [hcond, Bool.false_eq_true, if_false]
      rw [ih (i + ch.length) _ hrest (by omega)]
      simp [hr]

theorem replaceEmpty_eq (h t : Bytes) :
    replaceEmpty h t = ((chars h).map (t ++ ·)).flatten ++ t := by
  unfold replaceEmpty
  simp only
  rw [replaceEmptyLoop_eq t h.length (chars h) 0 [] (chars_ne_nil h) (by simp [chars_flatten])]
  by_cases he : h = []
  · subst he; simp [chars]
  · have : chars h ≠ [] := chars_length_pos he
    have hb : h.isEmpty = false := by simpa using he
    simp [this, hb]

theorem replaceWith_eq {fnd : Bytes → Bytes → Except Fail (Option Nat)}
    (hf : ∀ a b, fnd a b = .ok (firstOcc a b)) (h f t : Bytes) :
    replaceWith fnd h f t = .ok (replaceSpec h f t) := by
  unfold replaceWith replaceSpec
  by_cases hfe : f = []
  · subst hfe
    simp [replaceEmpty_eq]
  · have : f.isEmpty = false := by simpa using hfe
    simp only [this, Bool.false_eq_true, if_false, hfe]
    rw [replaceLoop_eq hf h f t hfe (h.length + 1) 0 [] (by omega) (by omega)]
    simp

/-- More fuel does not change the specification (so its defining equations hold). -/
theorem replaceSpecAux_fuel (f t : Bytes) (hne : f ≠ []) :
    ∀ (fuel fuel' : Nat) (h : Bytes), h.length + 1 ≤ fuel → h.length + 1 ≤ fuel' →
      replaceSpecAux f t fuel h = replaceSpecAux f t fuel' h := by
  have hfl : 0 < f.length := List.length_pos_iff.mpr hne
  intro fuel
  induction fuel with
  | zero => intro fuel' h h1; omega
  | succ fuel ih =>
    intro fuel' h h1 h2
    cases fuel' with
    | zero => omega
    | succ fuel' =>
      rw [replaceSpecAux, replaceSpecAux]
      cases hfo : firstOcc h f with
      | none => rfl
      | some i =>
        simp only
        have hb := firstOcc_bound hne hfo
        rw [ih fuel' _ (by simp; omega) (by simp; omega)]

/-! ### split / join -/

theorem joinLoop_eq (sep : Bytes) :
    ∀ (xs : List Bytes) (i : Nat) (buf : Bytes),
      joinLoop sep xs i buf =
        buf ++ (if i > 0 ∧ xs ≠ [] then sep else []) ++ joinSpec sep xs := by
  intro xs
  induction xs with
  | nil => intro i buf; simp [joinLoop, joinSpec]
  | cons x xs ih =>
    intro i buf
    rw [joinLoop, ih]
    cases xs with
    | nil =>
      by_cases hi : i > 0 <;> simp [hi, joinSpec]
    | cons y r =>
      by_cases hi : i > 0 <;> simp [hi, joinSpec]

theorem join_eq (xs : List Bytes) (sep : Bytes) : join xs sep = joinSpec sep xs := by
  unfold join; rw [joinLoop_eq]; simp

theorem joinSpec_cons (sep x : Bytes) (xs : List Bytes) (hx : xs ≠ []) :
    joinSpec sep (x :: xs) = x ++ sep ++ joinSpec sep xs := by
  cases xs with
  | nil => exact absurd rfl hx
  | cons y r => simp [joinSpec]

theorem splitAux_ne_nil (p : Bytes) : ∀ (fuel : Nat) (s : Bytes), splitAux p fuel s ≠ [] := by
  intro fuel s
  cases fuel with
  | zero => simp [splitAux]
  | succ fuel =>
    rw [splitAux]
    split <;> simp

theorem join_splitAux (p : Bytes) :
    ∀ (fuel : Nat) (s : Bytes), joinSpec p (splitAux p fuel s) = s := by
  intro fuel
  induction fuel with
  | zero => intro s; simp [splitAux, joinSpec]
  | succ fuel ih =>
    intro s
    rw [splitAux]
    cases hfo : firstOcc s p with
    | none => simp [joinSpec]
    | some i =>
      simp only
      rw [joinSpec_cons _ _ _ (splitAux_ne_nil p fuel _), ih]
      have hocc := firstOcc_isFirst s p
      rw [hfo] at hocc
      obtain ⟨t, ht⟩ := hocc.1
      have : s.drop (i + p.length) = t := by
        rw [← List.drop_drop, ← ht]; simp
      rw [this, List.append_assoc, ht, List.take_append_drop]

theorem joinSpec_nil_sep (xs : List Bytes) : joinSpec [] xs = xs.flatten := by
  induction xs with
  | nil => simp [joinSpec]
  | cons x xs ih =>
    cases xs with
    | nil => simp [joinSpec]
    | cons y r =>
      rw [joinSpec, ih]; simp

theorem join_split (s p : Bytes) : join (split s p) p = s := by
  rw [join_eq]
  unfold split splitOn
  by_cases hp : p = []
  · subst hp
    simp [joinSpec_nil_sep, chars_flatten]
  · have : p.isEmpty = false := by simpa using hp
    simp only [this, Bool.false_eq_true, if_false]
    exact join_splitAux p _ s

/-! ### slice / len -/

theorem slice_eq (s : Bytes) (a b : Int) : slice s a b = (sliceSpec (chars s) a b).flatten := by
  unfold slice sliceSpec normIdx
  simp only
  generalize hcs : chars s = cs
  have hfl : cs.flatten = s := hcs ▸ chars_flatten s
  generalize hA : max 0 (min (if a < 0 then a + (cs.length : Int) else a) (cs.length : Int)) = A
  generalize hB : max 0 (min (if b < 0 then b + (cs.length : Int) else b) (cs.length : Int)) = B
  have hA0 : 0 ≤ A ∧ A ≤ cs.length := by omega
  have hB0 : 0 ≤ B ∧ B ≤ cs.length := by omega
  by_cases hge : A ≥ B
  · simp only [hge, if_true]
    have : B.toNat - A.toNat = 0 := by omega
    rw [this]; simp
  · simp only [hge, if_false]
    by_cases hw : (A == 0 && B == (cs.length : Int)) = true
    · simp only [hw, if_true]
      simp only [Bool.and_eq_true, beq_iff_eq] at hw
      have h1 : A.toNat = 0 := by omega
      have h2 : B.toNat = cs.length := by omega
      rw [h1, h2]
      simp [hfl]
    · simp only [hw]
      have : (B - A).toNat = B.toNat - A.toNat := by omega
      simp [this]

theorem normIdx_le (len : Nat) (x : Int) : normIdx len x ≤ len := by
  unfold normIdx; omega

/-! ### results are well-formed UTF-8 -/

theorem valid_sublist_groups {cs : List Bytes} (h : ∀ c ∈ cs, validChar c = true) (i k : Nat) :
    ValidUtf8 ((cs.drop i).take k).flatten := by
  apply valid_of_groups
  intro c hc
  exact h c (List.mem_of_mem_drop (List.mem_of_mem_take hc))

theorem slice_valid {s : Bytes} (hv : ValidUtf8 s) (a b : Int) : ValidUtf8 (slice s a b) := by
  rw [slice_eq]
  unfold sliceSpec
  exact valid_sublist_groups (valid_chars hv) _ _

theorem replaceSpecAux_valid {f t : Bytes} (fv : ValidUtf8 f) (tv : ValidUtf8 t) (hne : f ≠ []) :
    ∀ (fuel : Nat) (h : Bytes), ValidUtf8 h → ValidUtf8 (replaceSpecAux f t fuel h) := by
  intro fuel
  induction fuel with
  | zero => intro h hv; simpa [replaceSpecAux] using hv
  | succ fuel ih =>
    intro h hv
    rw [replaceSpecAux]
    cases hfo : firstOcc h f with
    | none => simpa using hv
    | some i =>
      simp only
      have hocc := firstOcc_isFirst h f
      rw [hfo] at hocc
      obtain ⟨b1, b2⟩ := occ_boundary hv fv hne hocc.1
      exact valid_append (valid_append b1.2.1 tv) (ih _ b2.2.2)

theorem replaceSpec_valid {h f t : Bytes} (hv : ValidUtf8 h) (fv : ValidUtf8 f) (tv : ValidUtf8 t) :
    ValidUtf8 (replaceSpec h f t) := by
  unfold replaceSpec
  split
  · apply valid_append _ tv
    apply valid_flatten
    intro x hx
    obtain ⟨c, hc, rfl⟩ := List.mem_map.mp hx
    exact valid_append tv (valid_char (valid_chars hv c hc))
  · next hne => exact replaceSpecAux_valid fv tv hne _ _ hv

theorem splitAux_valid {p : Bytes} (pv : ValidUtf8 p) (hne : p ≠ []) :
    ∀ (fuel : Nat) (s : Bytes), ValidUtf8 s → ∀ x ∈ splitAux p fuel s, ValidUtf8 x := by
  intro fuel
  induction fuel with
  | zero => intro s sv x hx; simp [splitAux] at hx; subst hx; exact sv
  | succ fuel ih =>
    intro s sv x hx
    rw [splitAux] at hx
    cases hfo : firstOcc s p with
    | none => rw [hfo] at hx; simp at hx; subst hx; exact sv
    | some i =>
      rw [hfo] at hx
      simp only [List.mem_cons] at hx
      have hocc := firstOcc_isFirst s p
      rw [hfo] at hocc
      obtain ⟨b1, b2⟩ := occ_boundary sv pv hne hocc.1
      rcases hx with rfl | hx
      · exact b1.2.1
      · exact ih _ b2.2.2 x hx

theorem split_valid {s p : Bytes} (sv : ValidUtf8 s) (pv : ValidUtf8 p) :
    ∀ x ∈ split s p, ValidUtf8 x := by
  unfold split splitOn
  split
  · intro x hx
    simp only [List.mem_cons, List.mem_append, List.not_mem_nil, or_false] at hx
    rcases hx with rfl | hx | rfl
    · exact valid_nil
    · exact valid_char (valid_chars sv x hx)
    · exact valid_nil
  · next hp =>
    have : p ≠ [] := by simpa using hp
    exact splitAux_valid pv this _ _ sv

/-! ### the `f64 → isize` cast lands in `isize` -/

theorem saturate_range (x : Int) : isizeMin ≤ saturate x ∧ saturate x ≤ isizeMax := by
  unfold saturate isizeMin isizeMax
  split
  · omega
  · split <;> omega

theorem f64FloorToIsize_range (bits : Nat) :
    isizeMin ≤ f64FloorToIsize bits ∧ f64FloorToIsize bits ≤ isizeMax := by
  unfold f64FloorToIsize
  simp only
  have hm : bits % 2 ^ 52 < 2 ^ 52 := Nat.mod_lt _ (by decide)
  split
  · split
    · unfold isizeMin isizeMax; omega
    · split <;> (unfold isizeMin isizeMax; omega)
  · split
    · split
      · unfold isizeMin isizeMax; omega
      · split <;> (unfold isizeMin isizeMax; omega)
    · split
      · split <;> (unfold isizeMin isizeMax; omega)
      · split
        · exact saturate_range _
        · split
          · split <;> (unfold isizeMin isizeMax; omega)
          · have hq := Nat.div_le_self (2 ^ 52 + bits % 2 ^ 52) (2 ^ (1075 - bits / 2 ^ 52 % 2048))
            generalize (2 ^ 52 + bits % 2 ^ 52) / 2 ^ (1075 - bits / 2 ^ 52 % 2048) = q at hq ⊢
            split
            · split <;> (unfold isizeMin isizeMax; omega)
            · unfold isizeMin isizeMax; omega

end NaijaVerif.Strs
