import NaijaVerif.Model.Analysis
import NaijaVerif.Model.AnalysisEval
/-
Lemmas behind T1 and the plan theorem of C03: the reachability table of the analysis is
"consistent" with the statement lists the evaluator executes (`ConsStmts`), and the evaluator only
ever executes statements whose structural flag is `true`.
-/
namespace NaijaVerif.C03
open NaijaVerif NaijaVerif.Analysis NaijaVerif.AEval

/-- The reachability table: (statement id, reachable). -/
def tbl (root : Block) : List (Nat × Bool) := (rows root).map fun r => (r.sid, r.live)

def InTbl (T : List (Nat × Bool)) (sid : Option Nat) (live : Bool) : Prop :=
  ∀ i, sid = some i → (i, live) ∈ T

mutual
  /-- `s`, visited with reachability `live`, and everything below it is recorded in `T` with the
  flag the structural walk gives it (function bodies restart at `true`). -/
  def ConsStmt (T : List (Nat × Bool)) (live : Bool) : Stmt → Prop
    | .fnDef _ _ _ (.mk body _) _ sid _ => InTbl T sid live ∧ ConsStmts T true body
    | .ifS _ (.mk t _) none sid _ => InTbl T sid live ∧ ConsStmts T live t
    | .ifS _ (.mk t _) (some (.mk e _)) sid _ => InTbl T sid live ∧ ConsStmts T live t ∧ ConsStmts T live e
    | .loop _ (.mk b _) sid _ => InTbl T sid live ∧ ConsStmts T live b
    | .block (.mk b _) sid _ => InTbl T sid live ∧ ConsStmts T live b
    | .assign _ _ _ _ sid _ => InTbl T sid live
    | .assignExisting _ _ _ _ sid _ => InTbl T sid live
    | .assignIndex _ _ sid _ => InTbl T sid live
    | .ret _ sid _ => InTbl T sid live
    | .brk sid _ => InTbl T sid live
    | .cont sid _ => InTbl T sid live
    | .expr _ sid _ => InTbl T sid live
  def ConsStmts (T : List (Nat × Bool)) (live : Bool) : List Stmt → Prop
    | [] => True
    | s :: ss => ConsStmt T live s ∧ ConsStmts T (afterStmt live s) ss
end

theorem mkRow_in {T : List (Nat × Bool)} {pl live : Bool} {s : Stmt}
    (h : ∀ r ∈ mkRow pl live s, (r.sid, r.live) ∈ T) : InTbl T s.sid live := by
  intro i hi
  have := h { sid := i, kind := stmtKind s, span := s.span, auxSpan := stmtAux s,
              live := live, parentLive := pl } (by simp [mkRow, hi])
  simpa using this

mutual
  theorem cons_of_rowsStmt (T : List (Nat × Bool)) : ∀ (pl live : Bool) (s : Stmt),
      (∀ r ∈ rowsStmt pl live s, (r.sid, r.live) ∈ T) → ConsStmt T live s
    | pl, live, .fnDef n ns ps (.mk body bs) f sid sp => by
        intro h
        simp only [rowsStmt, List.mem_append] at h
        exact ⟨mkRow_in (s := .fnDef n ns ps (.mk body bs) f sid sp) (fun r hr => h r (Or.inl hr)),
               cons_of_rowsStmts T live true body (fun r hr => h r (Or.inr hr))⟩
    | pl, live, .ifS c (.mk t ts) none sid sp => by
        intro h
        simp only [rowsStmt, List.mem_append] at h
        exact ⟨mkRow_in (s := .ifS c (.mk t ts) none sid sp) (fun r hr => h r (Or.inl hr)),
               cons_of_rowsStmts T live live t (fun r hr => h r (Or.inr hr))⟩
    | pl, live, .ifS c (.mk t ts) (some (.mk e es)) sid sp => by
        intro h
        simp only [rowsStmt, List.mem_append] at h
        exact ⟨mkRow_in (s := .ifS c (.mk t ts) (some (.mk e es)) sid sp) (fun r hr => h r (Or.inl (Or.inl hr))),
               cons_of_rowsStmts T live live t (fun r hr => h r (Or.inl (Or.inr hr))),
               cons_of_rowsStmts T live live e (fun r hr => h r (Or.inr hr))⟩
    | pl, live, .loop c (.mk b bs) sid sp => by
        intro h
        simp only [rowsStmt, List.mem_append] at h
        exact ⟨mkRow_in (s := .loop c (.mk b bs) sid sp) (fun r hr => h r (Or.inl hr)),
               cons_of_rowsStmts T live live b (fun r hr => h r (Or.inr hr))⟩
    | pl, live, .block (.mk b bs) sid sp => by
        intro h
        simp only [rowsStmt, List.mem_append] at h
        exact ⟨mkRow_in (s := .block (.mk b bs) sid sp) (fun r hr => h r (Or.inl hr)),
               cons_of_rowsStmts T live live b (fun r hr => h r (Or.inr hr))⟩
    | pl, live, .assign v vs e b sid sp => by
        intro h; simp only [rowsStmt] at h; exact mkRow_in (s := .assign v vs e b sid sp) h
    | pl, live, .assignExisting v vs e b sid sp => by
        intro h; simp only [rowsStmt] at h; exact mkRow_in (s := .assignExisting v vs e b sid sp) h
    | pl, live, .assignIndex t e sid sp => by
        intro h; simp only [rowsStmt] at h; exact mkRow_in (s := .assignIndex t e sid sp) h
    | pl, live, .ret e sid sp => by
        intro h; simp only [rowsStmt] at h; exact mkRow_in (s := .ret e sid sp) h
    | pl, live, .brk sid sp => by
        intro h; simp only [rowsStmt] at h; exact mkRow_in (s := .brk sid sp) h
    | pl, live, .cont sid sp => by
        intro h; simp only [rowsStmt] at h; exact mkRow_in (s := .cont sid sp) h
    | pl, live, .expr e sid sp => by
        intro h; simp only [rowsStmt] at h; exact mkRow_in (s := .expr e sid sp) h
  theorem cons_of_rowsStmts (T : List (Nat × Bool)) : ∀ (pl live : Bool) (ss : List Stmt),
      (∀ r ∈ rowsStmts pl live ss, (r.sid, r.live) ∈ T) → ConsStmts T live ss
    | _, _, [] => by intro _; simp [ConsStmts]
    | pl, live, s :: ss => by
        intro h
        simp only [rowsStmts, List.mem_append] at h
        exact ⟨cons_of_rowsStmt T pl live s (fun r hr => h r (Or.inl hr)),
               cons_of_rowsStmts T pl (afterStmt live s) ss (fun r hr => h r (Or.inr hr))⟩
end

/-- The program is consistent with its own reachability table. -/
theorem cons_root (root : Block) : ConsStmts (tbl root) true root.stmts := by
  apply cons_of_rowsStmts (tbl root) true true
  intro r hr
  simp only [tbl, rows, List.mem_map]
  exact ⟨r, hr, rfl⟩


/-! ### The evaluator only executes statements whose flag is `true` -/

variable {V : Type}

def FnsOk (T : List (Nat × Bool)) (fns : List (List FnDef)) : Prop :=
  ∀ sc ∈ fns, ∀ fd ∈ sc, ConsStmts T true fd.body

def TraceOk (T : List (Nat × Bool)) (tr : List Nat) : Prop := ∀ i ∈ tr, (i, true) ∈ T

def Inv (T : List (Nat × Bool)) (st : St V) : Prop := FnsOk T st.fns ∧ TraceOk T st.trace

def plain : Cfg := Cfg.ofPlan none

/-- `cfg` never skips a statement the table calls reachable and never drops a function. -/
def Harmless (T : List (Nat × Bool)) (cfg : Cfg) : Prop :=
  (∀ i, (i, true) ∈ T → cfg.skip i = false) ∧ (∀ f, cfg.dropFn f = false)

theorem plain_harmless (T : List (Nat × Bool)) : Harmless T plain := by
  constructor <;> intros <;> rfl

theorem hoist_ok {T : List (Nat × Bool)} : ∀ (live : Bool) (ss : List Stmt), ConsStmts T live ss →
    ∀ fd ∈ hoist ss, ConsStmts T true fd.body
  | _, [], _ => by simp [hoist]
  | live, s :: ss, h => by
      have ih := hoist_ok (afterStmt live s) ss h.2
      cases s <;> try (simpa [hoist] using ih)
      next n ns ps body f sid sp =>
        cases body with | mk b bs =>
        cases f with
        | none => simpa [hoist] using ih
        | some f =>
          have hb : ConsStmts T true b := by have := h.1; simp only [ConsStmt] at this; exact this.2
          intro fd hfd
          simp only [hoist] at hfd
          rcases List.mem_cons.mp hfd with rfl | hfd
          · exact hb
          · exact ih fd hfd

theorem findFn_ok {T : List (Nat × Bool)} {f : Nat} : ∀ {fns : List (List FnDef)} {fd : FnDef}, FnsOk T fns →
    findFn f fns = some fd → ConsStmts T true fd.body
  | [], _, _, h => by simp [findFn] at h
  | sc :: scs, fd, hok, h => by
      simp only [findFn] at h
      split at h
      next g hg =>
        cases h
        exact hok sc (by simp) _ (List.mem_of_find?_eq_some hg)
      next => exact findFn_ok (fun sc' hsc' => hok sc' (List.mem_cons_of_mem _ hsc')) h

theorem FnsOk.drop {T : List (Nat × Bool)} {fns : List (List FnDef)} (h : FnsOk T fns) : FnsOk T (fns.drop 1) :=
  fun sc hsc => h sc (List.mem_of_mem_drop hsc)

theorem FnsOk.push {T : List (Nat × Bool)} {fns : List (List FnDef)} {sc : List FnDef} (h : FnsOk T fns)
    (hs : ∀ fd ∈ sc, ConsStmts T true fd.body) : FnsOk T (sc :: fns) := by
  intro sc' hsc'
  rcases List.mem_cons.mp hsc' with rfl | h'
  · exact hs
  · exact h sc' h'

end NaijaVerif.C03
