import NaijaVerif.Lemmas.AnalysisRel
/-
Step lemmas of the relational simulation (`Sim P S n → Sim P S (n+1)`).
-/
namespace NaijaVerif.C03
open NaijaVerif NaijaVerif.Analysis NaijaVerif.AEval

variable {V : Type}

/- After `obtain ⟨ho, hq⟩ := ih…`: split on the two results.  Closes the cases "plain side ended in
fuel/unbound" and "both sides ended in the same error"; leaves the case "both `ok v`" with
`hrel' : Rel S s1 s2` and `hq : Inv2 … s2`. -/
set_option hygiene false in
macro "chain " t1:term ", " t2:term ", " ho:ident ", " hq:ident : tactic => `(tactic|
  ( generalize $t2 = r2 at $ho:ident $hq:ident ⊢
    generalize $t1 = r1 at $ho:ident ⊢
    obtain ⟨x2, s2⟩ := r2
    obtain ⟨x1, s1⟩ := r1
    rcases $ho:ident with hbad | ⟨heq, hrel'⟩
    · rcases hbad with hb | hb | hb <;>
        (simp only at hb; subst hb; first | exact ⟨Or.inl bad_fuel, $hq⟩ | exact ⟨Or.inl bad_unbound, $hq⟩ | exact ⟨Or.inl bad_panic, $hq⟩)
    simp only at heq
    subst heq
    rcases x1 with er | v
    · exact ⟨Or.inr ⟨rfl, hrel'⟩, $hq⟩
    try simp only [] ))

section step
variable {P : Prims V} {S : Setup} {n : Nat}

theorem rstep_list (ih : Sim P S n) : ∀ (es : List Expr) (a b : St V), eOkList S.BR S.D2 es = true →
    Rel S a b → Inv2 P S b →
    Out S (evalList P S.cfg (n + 1) es a) (evalList P plain (n + 1) es b) ∧
      Inv2 P S (evalList P plain (n + 1) es b).2
  | [], a, b, _, hr, hi => ⟨Or.inr ⟨rfl, hr⟩, hi⟩
  | e :: es, a, b, he, hr, hi => by
      simp only [eOkList, Bool.and_eq_true] at he
      simp only [evalList]
      obtain ⟨ho, hq⟩ := ih.expr e a b he.1 hr hi
      chain (evalExpr P S.cfg n e a), (evalExpr P plain n e b), ho, hq
      obtain ⟨ho2, hq2⟩ := ih.list es s1 s2 he.2 hrel' hq
      chain (evalList P S.cfg n es s1), (evalList P plain n es s2), ho2, hq2
      exact ⟨Or.inr ⟨rfl, hrel'⟩, hq2⟩

theorem d1_of_d2 (hs : SetupOk S) {l : Nat} (h : S.D2 l = false) : S.D1 l = false := by
  cases hc : S.D1 l with
  | false => rfl
  | true => rw [hs.d12 l hc] at h; cases h

theorem findFn_id {f : Nat} : ∀ {fns : List (List FnDef)} {fd : FnDef}, findFn f fns = some fd → fd.id = f
  | [], _, h => by simp [findFn] at h
  | sc :: scs, fd, h => by
      simp only [findFn] at h
      split at h
      next g hg =>
        cases h
        have := List.find?_some hg
        simpa using this
      next => exact findFn_id h

theorem findFn_ok2 {f : Nat} : ∀ {fns : List (List FnDef)} {fd : FnDef}, FnsOk2 P S fns →
    findFn f fns = some fd → SOkList P S fd.id fd.body
  | [], _, _, h => by simp [findFn] at h
  | sc :: scs, fd, hok, h => by
      simp only [findFn] at h
      split at h
      next g hg =>
        cases h
        exact hok sc (by simp) _ (List.mem_of_find?_eq_some hg)
      next => exact findFn_ok2 (fun sc' hsc' => hok sc' (List.mem_cons_of_mem _ hsc')) h

theorem rstep_var (hs : SetupOk S) (nm : Bytes) (bd : Option Nat) (sp : Span) (a b : St V)
    (he : eOk S.BR S.D2 (.var nm bd sp) = true) (hr : Rel S a b) (hi : Inv2 P S b) :
    Out S (evalExpr P S.cfg (n + 1) (.var nm bd sp) a) (evalExpr P plain (n + 1) (.var nm bd sp) b) ∧
      Inv2 P S (evalExpr P plain (n + 1) (.var nm bd sp) b).2 := by
  simp only [evalExpr]
  have e : bd.bind (fun id => lookupEnv P.dscope id a.env) = bd.bind (fun id => lookupEnv P.dscope id b.env) := by
    cases bd with
    | none => rfl
    | some id =>
      simp only [eOk, Bool.not_eq_true'] at he
      exact lookup_rel hs.d12 he _ _ _ hr.2.2
  rw [e]
  cases bd.bind (fun id => lookupEnv P.dscope id b.env) with
  | some v => exact ⟨Or.inr ⟨rfl, hr⟩, hi⟩
  | none => exact ⟨Or.inl bad_unbound, hi⟩

theorem rstep_logic (ih : Sim P S n) (l r : Expr) (a b : St V) (hl : eOk S.BR S.D2 l = true)
    (hrr : eOk S.BR S.D2 r = true) (hr : Rel S a b) (hi : Inv2 P S b) (stop : V → Bool) (short : V) :
    Out S
      (match evalExpr P S.cfg n l a with
        | (.error e, st1) => ((.error e, st1) : R V V)
        | (.ok lv, st1) =>
            if stop lv then (.ok short, st1) else
            match evalExpr P S.cfg n r st1 with
            | (.error e, st2) => (.error e, st2)
            | (.ok rv, st2) => (P.logicRhs rv, st2))
      (match evalExpr P plain n l b with
        | (.error e, st1) => ((.error e, st1) : R V V)
        | (.ok lv, st1) =>
            if stop lv then (.ok short, st1) else
            match evalExpr P plain n r st1 with
            | (.error e, st2) => (.error e, st2)
            | (.ok rv, st2) => (P.logicRhs rv, st2)) ∧
    Inv2 P S
      (match evalExpr P plain n l b with
        | (.error e, st1) => ((.error e, st1) : R V V)
        | (.ok lv, st1) =>
            if stop lv then (.ok short, st1) else
            match evalExpr P plain n r st1 with
            | (.error e, st2) => (.error e, st2)
            | (.ok rv, st2) => (P.logicRhs rv, st2)).2 := by
  obtain ⟨ho, hq⟩ := ih.expr l a b hl hr hi
  chain (evalExpr P S.cfg n l a), (evalExpr P plain n l b), ho, hq
  cases stop v with
  | true => exact ⟨Or.inr ⟨rfl, hrel'⟩, hq⟩
  | false =>
    simp only [Bool.false_eq_true, ↓reduceIte]
    obtain ⟨ho2, hq2⟩ := ih.expr r s1 s2 hrr hrel' hq
    chain (evalExpr P S.cfg n r s1), (evalExpr P plain n r s2), ho2, hq2
    exact ⟨Or.inr ⟨rfl, hrel'⟩, hq2⟩

theorem rstep_generic (hs : SetupOk S) (ih : Sim P S n) (e : Expr) (a b : St V)
    (hc : eOkList S.BR S.D2 (children e) = true) (he : eOk S.BR S.D2 e = true) (hr : Rel S a b) (hi : Inv2 P S b) :
    Out S (finishNode P e (evalList P S.cfg n (children e) a)) (finishNode P e (evalList P plain n (children e) b)) ∧
      Inv2 P S (finishNode P e (evalList P plain n (children e) b)).2 := by
  obtain ⟨ho, hq⟩ := ih.list (children e) a b hc hr hi
  chain (evalList P S.cfg n (children e) a), (evalList P plain n (children e) b), ho, hq
  simp only [finishNode]
  have e1 : readAll P.dscope s1.env (interpIds e) = readAll P.dscope s2.env (interpIds e) :=
    readAll_rel hs.d12 _ hrel'.2.2 _ (eOk_interpIds e he)
  rw [e1]
  cases readAll P.dscope s2.env (interpIds e) with
  | none => exact ⟨Or.inl bad_unbound, hq⟩
  | some rs => exact ⟨Or.inr ⟨rfl, hrel'⟩, hq⟩

theorem inv2_pop {st : St V} (h : Inv2 P S st) :
    Inv2 P S { st with env := st.env.drop 1, fns := st.fns.drop 1 } :=
  ⟨⟨FnsOk.drop h.1.1, h.1.2⟩, fun sc hsc => h.2.1 sc (List.mem_of_mem_drop hsc), h.2.2⟩

theorem rel_pop {a b : St V} (h : Rel S a b) :
    Rel S { a with env := a.env.drop 1, fns := a.fns.drop 1 } { b with env := b.env.drop 1, fns := b.fns.drop 1 } :=
  ⟨h.1, by simp [h.2.1], EnvRel.drop h.2.2⟩

theorem rstep_userCall (hs : SetupOk S) (ih : Sim P S n) (args : List Expr) (f : Nat) (a b : St V)
    (hf : S.BR f = true) (hargs : eOkList S.BR S.D2 args = true) (hr : Rel S a b) (hi : Inv2 P S b) :
    Out S
      (match findFnC S.cfg f a.fns with
        | none => ((.error .panic, { a with looked := f :: a.looked }) : R V V)
        | some fd =>
            match evalList P S.cfg n args { a with looked := f :: a.looked } with
            | (.error e, st1) => (.error e, st1)
            | (.ok vs, st1) =>
                match bindParams fd.params vs with
                | none => (.error .panic, st1)
                | some slots =>
                    match execBlock P S.cfg n fd.body { st1 with env := ⟨paramTag P.dscope fd.params, slots⟩ :: st1.env, fns := [] :: st1.fns } with
                    | (.error e, st3) => (.error e, { st3 with env := st3.env.drop 1, fns := st3.fns.drop 1 })
                    | (.ok fl, st3) =>
                        match fl with
                        | .normal => (.ok P.null, { st3 with env := st3.env.drop 1, fns := st3.fns.drop 1 })
                        | .ret v => (.ok v, { st3 with env := st3.env.drop 1, fns := st3.fns.drop 1 })
                        | _ => (.error .panic, { st3 with env := st3.env.drop 1, fns := st3.fns.drop 1 }))
      (match findFnC plain f b.fns with
        | none => ((.error .panic, { b with looked := f :: b.looked }) : R V V)
        | some fd =>
            match evalList P plain n args { b with looked := f :: b.looked } with
            | (.error e, st1) => (.error e, st1)
            | (.ok vs, st1) =>
                match bindParams fd.params vs with
                | none => (.error .panic, st1)
                | some slots =>
                    match execBlock P plain n fd.body { st1 with env := ⟨paramTag P.dscope fd.params, slots⟩ :: st1.env, fns := [] :: st1.fns } with
                    | (.error e, st3) => (.error e, { st3 with env := st3.env.drop 1, fns := st3.fns.drop 1 })
                    | (.ok fl, st3) =>
                        match fl with
                        | .normal => (.ok P.null, { st3 with env := st3.env.drop 1, fns := st3.fns.drop 1 })
                        | .ret v => (.ok v, { st3 with env := st3.env.drop 1, fns := st3.fns.drop 1 })
                        | _ => (.error .panic, { st3 with env := st3.env.drop 1, fns := st3.fns.drop 1 })) ∧
    Inv2 P S
      (match findFnC plain f b.fns with
        | none => ((.error .panic, { b with looked := f :: b.looked }) : R V V)
        | some fd =>
            match evalList P plain n args { b with looked := f :: b.looked } with
            | (.error e, st1) => (.error e, st1)
            | (.ok vs, st1) =>
                match bindParams fd.params vs with
                | none => (.error .panic, st1)
                | some slots =>
                    match execBlock P plain n fd.body { st1 with env := ⟨paramTag P.dscope fd.params, slots⟩ :: st1.env, fns := [] :: st1.fns } with
                    | (.error e, st3) => (.error e, { st3 with env := st3.env.drop 1, fns := st3.fns.drop 1 })
                    | (.ok fl, st3) =>
                        match fl with
                        | .normal => (.ok P.null, { st3 with env := st3.env.drop 1, fns := st3.fns.drop 1 })
                        | .ret v => (.ok v, { st3 with env := st3.env.drop 1, fns := st3.fns.drop 1 })
                        | _ => (.error .panic, { st3 with env := st3.env.drop 1, fns := st3.fns.drop 1 })).2 := by
  have e1 : findFnC S.cfg f a.fns = findFn f b.fns := by simp [findFnC, hs.drop f hf, hr.2.1]
  have e2 : findFnC plain f b.fns = findFn f b.fns := by simp [findFnC, plain, Cfg.ofPlan]
  rw [e1, e2]
  have hi0 : Inv2 P S { b with looked := f :: b.looked } :=
    ⟨hi.1, hi.2.1, by
      intro g hg
      rcases List.mem_cons.mp hg with rfl | hg
      · exact hf
      · exact hi.2.2 g hg⟩
  have hr0 : Rel S { a with looked := f :: a.looked } { b with looked := f :: b.looked } := hr
  cases hfd : findFn f b.fns with
  | none => exact ⟨Or.inr ⟨rfl, hr0⟩, hi0⟩
  | some fd =>
    have hbody := findFn_ok hi.1.1 hfd
    have hbody2 := findFn_ok2 hi.2.1 hfd
    have hid := findFn_id hfd
    simp only []
    obtain ⟨ho, hq⟩ := ih.list args _ _ hargs hr0 hi0
    chain (evalList P S.cfg n args { a with looked := f :: a.looked }), (evalList P plain n args { b with looked := f :: b.looked }), ho, hq
    cases bindParams fd.params v with
    | none => exact ⟨Or.inr ⟨rfl, hrel'⟩, hq⟩
    | some slots =>
      simp only []
      have hr2 : Rel S { s1 with env := ⟨paramTag P.dscope fd.params, slots⟩ :: s1.env, fns := [] :: s1.fns }
          { s2 with env := ⟨paramTag P.dscope fd.params, slots⟩ :: s2.env, fns := [] :: s2.fns } :=
        ⟨hrel'.1, by have := hrel'.2.1; simp only at this; simp [this], EnvRel.push ⟨paramTag P.dscope fd.params, slots⟩ hrel'.2.2⟩
      have hi2 : Inv2 P S { s2 with env := ⟨paramTag P.dscope fd.params, slots⟩ :: s2.env, fns := [] :: s2.fns } :=
        ⟨⟨FnsOk.push hq.1.1 (by intro fd hfd; cases hfd), hq.1.2⟩,
         by
          intro sc hsc
          rcases List.mem_cons.mp hsc with rfl | h'
          · intro fd hfd; cases hfd
          · exact hq.2.1 sc h',
         hq.2.2⟩
      obtain ⟨ho3, hq3⟩ := ih.block fd.body _ _ fd.id hbody hbody2 (by rw [hid]; exact hf) hr2 hi2
      generalize execBlock P plain n fd.body { s2 with env := ⟨paramTag P.dscope fd.params, slots⟩ :: s2.env, fns := [] :: s2.fns } = r2 at ho3 hq3 ⊢
      generalize execBlock P S.cfg n fd.body { s1 with env := ⟨paramTag P.dscope fd.params, slots⟩ :: s1.env, fns := [] :: s1.fns } = r1 at ho3 ⊢
      obtain ⟨x2, t2⟩ := r2
      obtain ⟨x1, t1⟩ := r1
      have hpop := inv2_pop hq3
      rcases ho3 with hbad | ⟨heq, hrel3⟩
      · rcases hbad with hb | hb | hb <;> (simp only at hb; subst hb)
        · exact ⟨Or.inl bad_fuel, hpop⟩
        · exact ⟨Or.inl bad_unbound, hpop⟩
        · exact ⟨Or.inl bad_panic, hpop⟩
      · simp only at heq
        subst heq
        have hrp := rel_pop hrel3
        rcases x1 with er | fl
        · exact ⟨Or.inr ⟨rfl, hrp⟩, hpop⟩
        · cases fl <;> exact ⟨Or.inr ⟨rfl, hrp⟩, hpop⟩

theorem eOk_mem {X D : Nat → Bool} : ∀ (es : List Expr), eOkList X D es = true → ∀ e ∈ es, eOk X D e = true
  | [], _, _, he => by cases he
  | x :: xs, h, e, he => by
      simp only [eOkList, Bool.and_eq_true] at h
      rcases List.mem_cons.mp he with rfl | he
      · exact h.1
      · exact eOk_mem xs h.2 e he

theorem selArgs_mem' {args : List Expr} {idx : List Nat} {e : Expr} {chk : V → Except Err V}
    (h : (some e, chk) ∈ selArgs (V := V) args idx) : e ∈ args := by
  simp only [selArgs, List.mem_map, Prod.mk.injEq] at h
  obtain ⟨i, _, hi, _⟩ := h
  exact List.mem_of_getElem? hi

theorem stepArgs_mem {args : List Expr} {steps : List (Nat × (V → Except Err V))} {e : Expr} {chk : V → Except Err V}
    (h : (some e, chk) ∈ stepArgs args steps) : e ∈ args := by
  simp only [stepArgs, List.mem_map, Prod.mk.injEq] at h
  obtain ⟨q, _, hi, _⟩ := h
  exact List.mem_of_getElem? hi

theorem pathItems_mem {c : V → Except Err V} {path : List Expr} {e : Expr} {chk : V → Except Err V}
    (h : (some e, chk) ∈ pathItems c path) : e ∈ path := by
  simp only [pathItems, List.mem_map, Prod.mk.injEq, Option.some.injEq] at h
  obtain ⟨x, hx, rfl, _⟩ := h
  exact hx

/-- Selected expressions evaluated in order with checks, in both runs. -/
theorem rchecked (ih : Sim P S n) (miss : Err) : ∀ (items : List (Option Expr × (V → Except Err V))) (a b : St V),
    (∀ e chk, (some e, chk) ∈ items → eOk S.BR S.D2 e = true) → Rel S a b → Inv2 P S b →
    Out S (evalChecked (evalExpr P S.cfg n) miss items a) (evalChecked (evalExpr P plain n) miss items b) ∧
      Inv2 P S (evalChecked (evalExpr P plain n) miss items b).2
  | [], a, b, _, hr, hi => ⟨Or.inr ⟨rfl, hr⟩, hi⟩
  | (none, _) :: _, a, b, _, hr, hi => ⟨Or.inr ⟨rfl, hr⟩, hi⟩
  | (some e, chk) :: rest, a, b, h, hr, hi => by
      simp only [evalChecked]
      obtain ⟨ho, hq⟩ := ih.expr e a b (h e chk (by simp)) hr hi
      chain (evalExpr P S.cfg n e a), (evalExpr P plain n e b), ho, hq
      cases chk v with
      | error er => exact ⟨Or.inr ⟨rfl, hrel'⟩, hq⟩
      | ok v' =>
        simp only []
        obtain ⟨ho2, hq2⟩ := rchecked ih miss rest s1 s2 (fun e' c' hm => h e' c' (List.mem_cons_of_mem _ hm)) hrel' hq
        chain (evalChecked (evalExpr P S.cfg n) miss rest s1), (evalChecked (evalExpr P plain n) miss rest s2), ho2, hq2
        exact ⟨Or.inr ⟨rfl, hrel'⟩, hq2⟩

theorem rstep_expr (hs : SetupOk S) (ih : Sim P S n) : ∀ (e : Expr) (a b : St V), eOk S.BR S.D2 e = true →
    Rel S a b → Inv2 P S b →
    Out S (evalExpr P S.cfg (n + 1) e a) (evalExpr P plain (n + 1) e b) ∧
      Inv2 P S (evalExpr P plain (n + 1) e b).2
  | .var nm bd sp, a, b, he, hr, hi => rstep_var hs nm bd sp a b he hr hi
  | .binary .and l r _, a, b, he, hr, hi => by
      simp only [eOk, Bool.and_eq_true] at he
      simp only [evalExpr]
      exact rstep_logic ih l r a b he.1 he.2 hr hi P.falsy (P.logicShort .and)
  | .binary .or l r _, a, b, he, hr, hi => by
      simp only [eOk, Bool.and_eq_true] at he
      simp only [evalExpr]
      exact rstep_logic ih l r a b he.1 he.2 hr hi P.truthy (P.logicShort .or)
  | .binary .add l r sp, a, b, he, hr, hi | .binary .minus l r sp, a, b, he, hr, hi
  | .binary .times l r sp, a, b, he, hr, hi | .binary .divide l r sp, a, b, he, hr, hi
  | .binary .mod l r sp, a, b, he, hr, hi | .binary .eq l r sp, a, b, he, hr, hi
  | .binary .gt l r sp, a, b, he, hr, hi | .binary .lt l r sp, a, b, he, hr, hi => by
      have he' := he
      simp only [eOk, Bool.and_eq_true] at he'
      simp only [evalExpr]
      exact rstep_generic hs ih _ a b (by simp [children, eOkList, he'.1, he'.2]) he hr hi
  | .index x i s1 s2, a, b, he, hr, hi => by
      have he' := he
      simp only [eOk, Bool.and_eq_true] at he'
      simp only [evalExpr]
      exact rstep_generic hs ih _ a b (by simp [children, eOkList, he'.1, he'.2]) he hr hi
  | .str p sp, a, b, he, hr, hi => by
      simp only [evalExpr]; exact rstep_generic hs ih _ a b (by simp [children, eOkList]) he hr hi
  | .num l sp, a, b, he, hr, hi => by
      simp only [evalExpr]; exact rstep_generic hs ih _ a b (by simp [children, eOkList]) he hr hi
  | .bool v sp, a, b, he, hr, hi => by
      simp only [evalExpr]; exact rstep_generic hs ih _ a b (by simp [children, eOkList]) he hr hi
  | .null sp, a, b, he, hr, hi => by
      simp only [evalExpr]; exact rstep_generic hs ih _ a b (by simp [children, eOkList]) he hr hi
  | .array es sp, a, b, he, hr, hi => by
      have he' := he
      simp only [eOk] at he'
      simp only [evalExpr]
      exact rstep_generic hs ih _ a b (by simpa [children] using he') he hr hi
  | .unary op x sp, a, b, he, hr, hi => by
      have he' := he
      simp only [eOk] at he'
      simp only [evalExpr]
      exact rstep_generic hs ih _ a b (by simp [children, eOkList, he']) he hr hi
  | .member o f s1 s2, a, b, he, hr, hi => by
      have he' := he
      simp only [eOk] at he'
      simp only [evalExpr]
      exact rstep_generic hs ih _ a b (by simp [children, eOkList, he']) he hr hi
  | .call (.var name _ _) args fn _, a, b, he, hr, hi => by
      simp only [eOk, Bool.and_eq_true] at he
      simp only [evalExpr]
      cases P.isGlobal name with
      | true =>
        simp only [↓reduceIte]
        obtain ⟨ho, hq⟩ := ih.list args a b he.2 hr hi
        chain (evalList P S.cfg n args a), (evalList P plain n args b), ho, hq
        cases P.isShout name with
        | false => exact ⟨Or.inr ⟨by first | rfl | trivial, hrel'⟩, hq⟩
        | true =>
          simp only [↓reduceIte]
          match v with
          | [] => exact ⟨Or.inr ⟨rfl, hrel'⟩, hq⟩
          | [w] =>
            have h1 := hrel'.1
            simp only at h1
            exact ⟨Or.inr ⟨rfl, ⟨by simp [h1], hrel'.2.1, hrel'.2.2⟩⟩, hq⟩
          | _ :: _ :: _ => exact ⟨Or.inr ⟨rfl, hrel'⟩, hq⟩
      | false =>
        simp only [Bool.false_eq_true, ↓reduceIte]
        cases fn with
        | none => exact ⟨Or.inr ⟨rfl, hr⟩, hi⟩
        | some f => exact rstep_userCall hs ih args f a b he.1 he.2 hr hi
  | .call (.member o field fs sp) args fn sp2, a, b, he, hr, hi => by
      have he' := he
      simp only [eOk, Bool.and_eq_true] at he'
      simp only [evalExpr]
      cases P.isMut field with
      | false =>
        simp only [Bool.false_eq_true, ↓reduceIte]
        obtain ⟨ho, hq⟩ := ih.expr o a b he'.1 hr hi
        chain (evalExpr P S.cfg n o a), (evalExpr P plain n o b), ho, hq
        cases P.memberSel field v with
        | error er => exact ⟨Or.inr ⟨rfl, hrel'⟩, hq⟩
        | ok idx =>
          simp only []
          obtain ⟨ho2, hq2⟩ := rchecked ih P.argMissing (selArgs args idx) s1 s2
            (fun e chk hm => eOk_mem args he'.2 e (selArgs_mem' hm)) hrel' hq
          chain (evalChecked (evalExpr P S.cfg n) P.argMissing (selArgs args idx) s1),
            (evalChecked (evalExpr P plain n) P.argMissing (selArgs args idx) s2), ho2, hq2
          exact ⟨Or.inr ⟨rfl, hrel'⟩, hq2⟩
      | true =>
        simp only [↓reduceIte]
        obtain ⟨ho, hq⟩ := rchecked ih P.argMissing (stepArgs args (P.mutSteps field)) a b
          (fun e chk hm => eOk_mem args he'.2 e (stepArgs_mem hm)) hr hi
        chain (evalChecked (evalExpr P S.cfg n) P.argMissing (stepArgs args (P.mutSteps field)) a),
          (evalChecked (evalExpr P plain n) P.argMissing (stepArgs args (P.mutSteps field)) b), ho, hq
        simp only at hq hrel'
        revert v
        intro vargs
        cases hlv : lvalue o with
        | none => exact ⟨Or.inr ⟨rfl, hrel'⟩, hq⟩
        | some rp =>
          obtain ⟨root, path⟩ := rp
          have hlo := eOk_lvalue o root path he'.1 hlv
          simp only []
          obtain ⟨ho2, hq2⟩ := rchecked ih P.argMissing (pathItems P.idx path) s1 s2
            (fun e chk hm => eOk_mem path hlo.2 e (pathItems_mem hm)) hrel' hq
          chain (evalChecked (evalExpr P S.cfg n) P.argMissing (pathItems P.idx path) s1),
            (evalChecked (evalExpr P plain n) P.argMissing (pathItems P.idx path) s2), ho2, hq2
          have el : lookupEnv P.dscope root s1.env = lookupEnv P.dscope root s2.env := lookup_rel hs.d12 hlo.1 _ _ _ hrel'.2.2
          rw [el]
          cases lookupEnv P.dscope root s2.env with
          | none => exact ⟨Or.inl bad_unbound, hq2⟩
          | some old =>
            simp only []
            cases P.mutMember field old v vargs with
            | error er => exact ⟨Or.inr ⟨rfl, hrel'⟩, hq2⟩
            | ok nr =>
              obtain ⟨new, res⟩ := nr
              simp only []
              have ha := assign_rel (v1 := new) (v2 := new) (d1_of_d2 hs hlo.1) (Or.inr rfl) P.dscope _ _ hrel'.2.2
              cases e1 : assignEnv P.dscope root new s1.env <;> cases e2 : assignEnv P.dscope root new s2.env <;>
                simp only [e1, e2, ORel] at ha
              · exact ⟨Or.inr ⟨rfl, hrel'⟩, hq2⟩
              · exact ⟨Or.inr ⟨rfl, ⟨hrel'.1, hrel'.2.1, ha⟩⟩, hq2⟩
  | .call (.index _ _ _ _) args fn sp, a, b, he, hr, hi | .call (.str _ _) args fn sp, a, b, he, hr, hi
  | .call (.num _ _) args fn sp, a, b, he, hr, hi | .call (.binary _ _ _ _) args fn sp, a, b, he, hr, hi
  | .call (.call _ _ _ _) args fn sp, a, b, he, hr, hi | .call (.array _ _) args fn sp, a, b, he, hr, hi
  | .call (.unary _ _ _) args fn sp, a, b, he, hr, hi | .call (.bool _ _) args fn sp, a, b, he, hr, hi
  | .call (.null _) args fn sp, a, b, he, hr, hi => by
      simp only [evalExpr]
      exact rstep_generic hs ih _ a b (by simp [children, eOkList]) he hr hi

theorem base_ok (hs : SetupOk S) {f i : Nat} {es : List Expr} (hiT : (i, true) ∈ S.T) (hf : S.BR f = true)
    (hb : S.base f i es) : eOkList S.BR S.D2 es = true := by
  obtain ⟨hfn, hes⟩ := hb
  refine eOkList_mono ?_ es hes
  intro g hg
  have : g ∈ S.callees i := by simpa using hg
  exact hs.closed i hiT (by rw [hfn]; exact hf) g this

theorem rstep_stmt (hs : SetupOk S) (ih : Sim P S n) : ∀ (s : Stmt) (a b : St V) (f i : Nat), s.sid = some i →
    S.cfg.skip i = false → ConsStmt S.T true s → SOk P S f s → S.BR f = true → Rel S a b → Inv2 P S b →
    Out S (execStmt P S.cfg (n + 1) s a) (execStmt P plain (n + 1) s b) ∧
      Inv2 P S (execStmt P plain (n + 1) s b).2
  | .assign _ _ e bd (some j) _, a, b, f, i, _, _, hc, hok, hf, hr, hi => by
      have hiT : (j, true) ∈ S.T := consStmt_inTbl hc j rfl
      simp only [SOk] at hok
      have he := base_ok hs hiT hf hok.1
      simp only [eOkList, Bool.and_true] at he
      simp only [execStmt]
      obtain ⟨ho, hq⟩ := ih.expr e a b he hr hi
      chain (evalExpr P S.cfg n e a), (evalExpr P plain n e b), ho, hq
      cases bd with
      | none => exact ⟨Or.inr ⟨rfl, hrel'⟩, hq⟩
      | some l => exact ⟨Or.inr ⟨rfl, ⟨hrel'.1, hrel'.2.1, define_rel _ _ hrel'.2.2⟩⟩, hq⟩
  | .assignExisting _ _ e bd (some j) _, a, b, f, i, hsid, hsk, hc, hok, hf, hr, hi => by
      have hiT : (j, true) ∈ S.T := consStmt_inTbl hc j rfl
      have hji : j = i := by simpa [Stmt.sid] using hsid
      subst hji
      simp only [SOk] at hok
      have he := base_ok hs hiT hf hok.1
      simp only [eOkList, Bool.and_true] at he
      simp only [execStmt]
      obtain ⟨ho, hq⟩ := ih.expr e a b he hr hi
      chain (evalExpr P S.cfg n e a), (evalExpr P plain n e b), ho, hq
      cases bd with
      | none => exact ⟨Or.inl bad_unbound, hq⟩
      | some l =>
        simp only [Option.bind_some]
        have hd : S.D1 l = false := hok.2.2 hsk l rfl
        have ha := assign_rel (v1 := v) (v2 := v) hd (Or.inr rfl) P.dscope _ _ hrel'.2.2
        cases e1 : assignEnv P.dscope l v s1.env <;> cases e2 : assignEnv P.dscope l v s2.env <;> simp only [e1, e2, ORel] at ha
        · exact ⟨Or.inl bad_unbound, hq⟩
        · exact ⟨Or.inr ⟨rfl, ⟨hrel'.1, hrel'.2.1, ha⟩⟩, hq⟩
  | .assignIndex t e (some j) _, a, b, f, i, _, _, hc, hok, hf, hr, hi => by
      have hiT : (j, true) ∈ S.T := consStmt_inTbl hc j rfl
      simp only [SOk] at hok
      have he := base_ok hs hiT hf hok.1
      simp only [eOkList, Bool.and_true, Bool.and_eq_true] at he
      simp only [execStmt]
      obtain ⟨ho, hq⟩ := ih.expr e a b he.2 hr hi
      chain (evalExpr P S.cfg n e a), (evalExpr P plain n e b), ho, hq
      simp only at hq hrel'
      revert v
      intro val
      cases hlv : lvalue t with
      | none => exact ⟨Or.inr ⟨rfl, hrel'⟩, hq⟩
      | some rp =>
        obtain ⟨root, path⟩ := rp
        have hlo := eOk_lvalue t root path he.1 hlv
        simp only []
        obtain ⟨ho2, hq2⟩ := rchecked ih P.argMissing (pathItems P.idx path) s1 s2
          (fun e chk hm => eOk_mem path hlo.2 e (pathItems_mem hm)) hrel' hq
        chain (evalChecked (evalExpr P S.cfg n) P.argMissing (pathItems P.idx path) s1),
          (evalChecked (evalExpr P plain n) P.argMissing (pathItems P.idx path) s2), ho2, hq2
        have el : lookupEnv P.dscope root s1.env = lookupEnv P.dscope root s2.env := lookup_rel hs.d12 hlo.1 _ _ _ hrel'.2.2
        rw [el]
        cases lookupEnv P.dscope root s2.env with
        | none => exact ⟨Or.inl bad_unbound, hq2⟩
        | some old =>
          simp only []
          cases P.setPath old v val with
          | error er => exact ⟨Or.inr ⟨rfl, hrel'⟩, hq2⟩
          | ok new =>
            simp only []
            have ha := assign_rel (v1 := new) (v2 := new) (d1_of_d2 hs hlo.1) (Or.inr rfl) P.dscope _ _ hrel'.2.2
            cases e1 : assignEnv P.dscope root new s1.env <;> cases e2 : assignEnv P.dscope root new s2.env <;>
              simp only [e1, e2, ORel] at ha
            · exact ⟨Or.inr ⟨rfl, hrel'⟩, hq2⟩
            · exact ⟨Or.inr ⟨rfl, ⟨hrel'.1, hrel'.2.1, ha⟩⟩, hq2⟩
  | .ifS c (.mk t _) none (some j) _, a, b, f, i, _, _, hc, hok, hf, hr, hi => by
      have hiT : (j, true) ∈ S.T := consStmt_inTbl hc j rfl
      simp only [SOk] at hok
      simp only [ConsStmt] at hc
      have he := base_ok hs hiT hf hok.1
      simp only [eOkList, Bool.and_true] at he
      simp only [execStmt]
      obtain ⟨ho, hq⟩ := ih.expr c a b he hr hi
      chain (evalExpr P S.cfg n c a), (evalExpr P plain n c b), ho, hq
      cases P.cond v with
      | error er => exact ⟨Or.inr ⟨rfl, hrel'⟩, hq⟩
      | ok bv =>
        cases bv with
        | false => exact ⟨Or.inr ⟨rfl, hrel'⟩, hq⟩
        | true => exact ih.block t s1 s2 f hc.2 hok.2.2 hf hrel' hq
  | .ifS c (.mk t _) (some (.mk el _)) (some j) _, a, b, f, i, _, _, hc, hok, hf, hr, hi => by
      have hiT : (j, true) ∈ S.T := consStmt_inTbl hc j rfl
      simp only [SOk] at hok
      simp only [ConsStmt] at hc
      have he := base_ok hs hiT hf hok.1
      simp only [eOkList, Bool.and_true] at he
      simp only [execStmt]
      obtain ⟨ho, hq⟩ := ih.expr c a b he hr hi
      chain (evalExpr P S.cfg n c a), (evalExpr P plain n c b), ho, hq
      cases P.cond v with
      | error er => exact ⟨Or.inr ⟨rfl, hrel'⟩, hq⟩
      | ok bv =>
        cases bv with
        | false => exact ih.block el s1 s2 f hc.2.2 hok.2.2.2 hf hrel' hq
        | true => exact ih.block t s1 s2 f hc.2.1 hok.2.2.1 hf hrel' hq
  | .loop c (.mk bd _) (some j) _, a, b, f, i, _, _, hc, hok, hf, hr, hi => by
      have hiT : (j, true) ∈ S.T := consStmt_inTbl hc j rfl
      simp only [SOk] at hok
      simp only [ConsStmt] at hc
      have he := base_ok hs hiT hf hok.1
      simp only [eOkList, Bool.and_true] at he
      simp only [execStmt]
      exact ih.loop c bd a b f he hc.2 hok.2.2 hf hr hi
  | .block (.mk bd _) (some j) _, a, b, f, i, _, _, hc, hok, hf, hr, hi => by
      simp only [SOk] at hok
      simp only [ConsStmt] at hc
      simp only [execStmt]
      exact ih.block bd a b f hc.2 hok.2.2 hf hr hi
  | .fnDef _ _ _ _ _ (some j) _, a, b, f, i, _, _, _, _, _, hr, hi => by
      simp only [execStmt]
      exact ⟨Or.inr ⟨rfl, hr⟩, hi⟩
  | .ret (some e) (some j) _, a, b, f, i, _, _, hc, hok, hf, hr, hi => by
      have hiT : (j, true) ∈ S.T := consStmt_inTbl hc j rfl
      simp only [SOk] at hok
      have he := base_ok hs hiT hf hok.1
      simp only [eOkList, Bool.and_true] at he
      simp only [execStmt]
      obtain ⟨ho, hq⟩ := ih.expr e a b he hr hi
      chain (evalExpr P S.cfg n e a), (evalExpr P plain n e b), ho, hq
      exact ⟨Or.inr ⟨rfl, hrel'⟩, hq⟩
  | .ret none (some j) _, a, b, f, i, _, _, _, _, _, hr, hi => by
      simp only [execStmt]; exact ⟨Or.inr ⟨rfl, hr⟩, hi⟩
  | .brk (some j) _, a, b, f, i, _, _, _, _, _, hr, hi => by
      simp only [execStmt]; exact ⟨Or.inr ⟨rfl, hr⟩, hi⟩
  | .cont (some j) _, a, b, f, i, _, _, _, _, _, hr, hi => by
      simp only [execStmt]; exact ⟨Or.inr ⟨rfl, hr⟩, hi⟩
  | .expr e (some j) _, a, b, f, i, _, _, hc, hok, hf, hr, hi => by
      have hiT : (j, true) ∈ S.T := consStmt_inTbl hc j rfl
      simp only [SOk] at hok
      have he := base_ok hs hiT hf hok.1
      simp only [eOkList, Bool.and_true] at he
      simp only [execStmt]
      obtain ⟨ho, hq⟩ := ih.expr e a b he hr hi
      chain (evalExpr P S.cfg n e a), (evalExpr P plain n e b), ho, hq
      exact ⟨Or.inr ⟨rfl, hrel'⟩, hq⟩
  | .assign _ _ _ _ none _, _, _, _, _, hsid, _, _, _, _, _, _ | .assignExisting _ _ _ _ none _, _, _, _, _, hsid, _, _, _, _, _, _
  | .assignIndex _ _ none _, _, _, _, _, hsid, _, _, _, _, _, _ | .ifS _ _ _ none _, _, _, _, _, hsid, _, _, _, _, _, _
  | .loop _ _ none _, _, _, _, _, hsid, _, _, _, _, _, _ | .block _ none _, _, _, _, _, hsid, _, _, _, _, _, _
  | .fnDef _ _ _ _ _ none _, _, _, _, _, hsid, _, _, _, _, _, _ | .ret _ none _, _, _, _, _, hsid, _, _, _, _, _, _
  | .brk none _, _, _, _, _, hsid, _, _, _, _, _, _ | .cont none _, _, _, _, _, hsid, _, _, _, _, _, _
  | .expr _ none _, _, _, _, _, hsid, _, _, _, _, _, _ => by simp [Stmt.sid] at hsid

/-- The plain run of a quiet declaration: it ends in fuel/unbound with the state untouched, or
completes normally having only declared the variable. -/
theorem quiet_assign {e : Expr} (hq : Quiet P e) (m : Nat) (st : St V) (vr : Bytes) (vs : Span) (l : Nat)
    (sid : Option Nat) (sp : Span) :
    (Bad (execStmt P plain m (.assign vr vs e (some l) sid sp) st).1 ∧
        (execStmt P plain m (.assign vr vs e (some l) sid sp) st).2 = st) ∨
      ∃ val, execStmt P plain m (.assign vr vs e (some l) sid sp) st =
        (.ok .normal, { st with env := defineEnv l val st.env }) := by
  cases m with
  | zero => exact Or.inl ⟨Or.inl (by simp [execStmt]), by simp [execStmt]⟩
  | succ m =>
    obtain ⟨h1, h2⟩ := hq plain m st
    simp only [execStmt]
    generalize evalExpr P plain m e st = r at h1 h2 ⊢
    obtain ⟨x, s'⟩ := r
    simp only at h1
    subst h1
    rcases h2 with ⟨v, hv⟩ | hb
    · simp only at hv
      subst hv
      exact Or.inr ⟨v, rfl⟩
    · rcases hb with hb | hb <;> (simp only at hb; subst hb)
      · exact Or.inl ⟨bad_fuel, rfl⟩
      · exact Or.inl ⟨bad_unbound, rfl⟩

theorem quiet_assignExisting {e : Expr} (hq : Quiet P e) (m : Nat) (st : St V) (vr : Bytes) (vs : Span) (l : Nat)
    (sid : Option Nat) (sp : Span) :
    (Bad (execStmt P plain m (.assignExisting vr vs e (some l) sid sp) st).1 ∧
        (execStmt P plain m (.assignExisting vr vs e (some l) sid sp) st).2 = st) ∨
      ∃ val env', assignEnv P.dscope l val st.env = some env' ∧
        execStmt P plain m (.assignExisting vr vs e (some l) sid sp) st = (.ok .normal, { st with env := env' }) := by
  cases m with
  | zero => exact Or.inl ⟨Or.inl (by simp [execStmt]), by simp [execStmt]⟩
  | succ m =>
    obtain ⟨h1, h2⟩ := hq plain m st
    simp only [execStmt]
    generalize evalExpr P plain m e st = r at h1 h2 ⊢
    obtain ⟨x, s'⟩ := r
    simp only at h1
    subst h1
    rcases h2 with ⟨v, hv⟩ | hb
    · simp only at hv
      subst hv
      simp only [Option.bind_some]
      cases ha : assignEnv P.dscope l v s'.env with
      | none => exact Or.inl ⟨bad_unbound, rfl⟩
      | some env' => exact Or.inr ⟨v, env', ha, rfl⟩
    · rcases hb with hb | hb <;> (simp only at hb; subst hb)
      · exact Or.inl ⟨bad_fuel, rfl⟩
      · exact Or.inl ⟨bad_unbound, rfl⟩

/-- The only statements the pruned run may skip at a reachable point are quiet stores. -/
theorem skipped_is_store (hs : SetupOk S) {f i : Nat} : ∀ {s : Stmt}, s.sid = some i → (i, true) ∈ S.T →
    S.cfg.skip i = true → SOk P S f s →
    (∃ vr vs e l sp, s = .assign vr vs e (some l) (some i) sp ∧ S.D1 l = true ∧ Quiet P e) ∨
    (∃ vr vs e l sp, s = .assignExisting vr vs e (some l) (some i) sp ∧ S.D2 l = true ∧ Quiet P e)
  | .assign vr vs e bd (some j) sp, hsid, hiT, hsk, hok => by
      have hji : j = i := by simpa [Stmt.sid] using hsid
      subst hji
      simp only [SOk] at hok
      rcases hok.2.1 hsk with hdead | ⟨l, rfl, hd, hq⟩
      · exact absurd hdead (hs.func j hiT)
      · exact Or.inl ⟨vr, vs, e, l, sp, rfl, by simpa using hd, hq⟩
  | .assignExisting vr vs e bd (some j) sp, hsid, hiT, hsk, hok => by
      have hji : j = i := by simpa [Stmt.sid] using hsid
      subst hji
      simp only [SOk] at hok
      rcases hok.2.1 hsk with hdead | ⟨l, rfl, hd, hq⟩
      · exact absurd hdead (hs.func j hiT)
      · exact Or.inr ⟨vr, vs, e, l, sp, rfl, by simpa using hd, hq⟩
  | .assignIndex _ _ (some j) _, hsid, hiT, hsk, hok | .ifS _ (.mk _ _) none (some j) _, hsid, hiT, hsk, hok
  | .ifS _ (.mk _ _) (some (.mk _ _)) (some j) _, hsid, hiT, hsk, hok | .loop _ (.mk _ _) (some j) _, hsid, hiT, hsk, hok
  | .block (.mk _ _) (some j) _, hsid, hiT, hsk, hok | .fnDef _ _ _ (.mk _ _) (some _) (some j) _, hsid, hiT, hsk, hok
  | .fnDef _ _ _ (.mk _ _) none (some j) _, hsid, hiT, hsk, hok | .ret (some _) (some j) _, hsid, hiT, hsk, hok
  | .ret none (some j) _, hsid, hiT, hsk, hok | .brk (some j) _, hsid, hiT, hsk, hok
  | .cont (some j) _, hsid, hiT, hsk, hok | .expr _ (some j) _, hsid, hiT, hsk, hok => by
      have hji : j = i := by simpa [Stmt.sid] using hsid
      subst hji
      simp only [SOk] at hok
      first
        | exact absurd (hok.2.1 hsk) (hs.func j hiT)
        | exact absurd (hok.2 hsk) (hs.func j hiT)
  | .assign _ _ _ _ none _, hsid, _, _, _ | .assignExisting _ _ _ _ none _, hsid, _, _, _
  | .assignIndex _ _ none _, hsid, _, _, _ | .ifS _ _ _ none _, hsid, _, _, _ | .loop _ _ none _, hsid, _, _, _
  | .block _ none _, hsid, _, _, _ | .fnDef _ _ _ _ _ none _, hsid, _, _, _ | .ret _ none _, hsid, _, _, _
  | .brk none _, hsid, _, _, _ | .cont none _, hsid, _, _, _ | .expr _ none _, hsid, _, _, _ => by
      simp [Stmt.sid] at hsid

theorem rstep_stmts (hs : SetupOk S) (ih : Sim P S n) : ∀ (ss : List Stmt) (a b : St V) (f : Nat),
    ConsStmts S.T true ss → SOkList P S f ss → S.BR f = true → Rel S a b → Inv2 P S b →
    Out S (execStmts P S.cfg (n + 1) ss a) (execStmts P plain (n + 1) ss b) ∧
      Inv2 P S (execStmts P plain (n + 1) ss b).2
  | [], a, b, f, _, _, _, hr, hi => ⟨Or.inr ⟨rfl, hr⟩, hi⟩
  | s :: ss, a, b, f, hcs, hok, hf, hr, hi => by
      obtain ⟨hc1, hc2⟩ := hcs
      obtain ⟨hok1, hok2⟩ := hok
      simp only [execStmts]
      cases hsid : s.sid with
      | none => exact ⟨Or.inr ⟨rfl, hr⟩, hi⟩
      | some i =>
        have hiT : (i, true) ∈ S.T := consStmt_inTbl hc1 i hsid
        have hpl : plain.skip i = false := rfl
        simp only [hpl, Bool.false_eq_true, ↓reduceIte]
        have hi' : Inv2 P S { b with trace := i :: b.trace } :=
          ⟨⟨hi.1.1, by
              intro j hj
              rcases List.mem_cons.mp hj with rfl | hj
              · exact hiT
              · exact hi.1.2 j hj⟩, hi.2.1, hi.2.2⟩
        -- facts about the plain execution of `s` from the T1 simulation
        have hm := (main_all P (plain_harmless S.T) n).stmt s { b with trace := i :: b.trace } hc1 hi'.1
        have hafter := hm.2.2
        cases hsk : S.cfg.skip i with
        | false =>
          simp only [Bool.false_eq_true, ↓reduceIte]
          have hr' : Rel S { a with trace := i :: a.trace } { b with trace := i :: b.trace } := hr
          obtain ⟨ho, hq⟩ := ih.stmt s _ _ f i hsid hsk hc1 hok1 hf hr' hi'
          generalize execStmt P plain n s { b with trace := i :: b.trace } = r2 at ho hq hafter ⊢
          generalize execStmt P S.cfg n s { a with trace := i :: a.trace } = r1 at ho ⊢
          obtain ⟨x2, s2⟩ := r2
          obtain ⟨x1, s1⟩ := r1
          rcases ho with hbad | ⟨heq, hrel'⟩
          · rcases hbad with hb | hb | hb <;> (simp only at hb; subst hb)
            · exact ⟨Or.inl bad_fuel, hq⟩
            · exact ⟨Or.inl bad_unbound, hq⟩
            · exact ⟨Or.inl bad_panic, hq⟩
          · simp only at heq
            subst heq
            rcases x1 with er | fl
            · exact ⟨Or.inr ⟨rfl, hrel'⟩, hq⟩
            · cases fl with
              | normal =>
                have ha : afterStmt true s = true := hafter rfl
                rw [ha] at hc2
                exact ih.stmts ss s1 s2 f hc2 hok2 hf hrel' hq
              | ret v => exact ⟨Or.inr ⟨rfl, hrel'⟩, hq⟩
              | brk => exact ⟨Or.inr ⟨rfl, hrel'⟩, hq⟩
              | cont => exact ⟨Or.inr ⟨rfl, hrel'⟩, hq⟩
        | true =>
          simp only [↓reduceIte]
          rcases skipped_is_store hs hsid hiT hsk hok1 with ⟨vr, vs, e, l, sp, rfl, hd, hqt⟩ | ⟨vr, vs, e, l, sp, rfl, hd, hqt⟩
          · -- a removed declaration
            have hc2' : ConsStmts S.T true ss := by simpa [afterStmt] using hc2
            rcases quiet_assign hqt n { b with trace := i :: b.trace } vr vs l (some i) sp with ⟨hb, hst⟩ | ⟨val, hv⟩
            · generalize execStmt P plain n (.assign vr vs e (some l) (some i) sp) { b with trace := i :: b.trace } = r2 at hb hst ⊢
              obtain ⟨x2, s2⟩ := r2
              simp only at hst
              subst hst
              rcases hb with hb | hb | hb <;> (simp only at hb; subst hb)
              · exact ⟨Or.inl bad_fuel, hi'⟩
              · exact ⟨Or.inl bad_unbound, hi'⟩
              · exact ⟨Or.inl bad_panic, hi'⟩
            · rw [hv]
              simp only []
              have hr2 : Rel S a { b with trace := i :: b.trace, env := defineEnv l val b.env } :=
                ⟨hr.1, hr.2.1, define_plain hd _ _ hr.2.2⟩
              have hi2 : Inv2 P S { b with trace := i :: b.trace, env := defineEnv l val b.env } := hi'
              exact ih.stmts ss a _ f hc2' hok2 hf hr2 hi2
          · -- a removed store to a never-read variable
            have hc2' : ConsStmts S.T true ss := by simpa [afterStmt] using hc2
            rcases quiet_assignExisting hqt n { b with trace := i :: b.trace } vr vs l (some i) sp with
              ⟨hb, hst⟩ | ⟨val, env', hae, hv⟩
            · generalize execStmt P plain n (.assignExisting vr vs e (some l) (some i) sp) { b with trace := i :: b.trace } = r2 at hb hst ⊢
              obtain ⟨x2, s2⟩ := r2
              simp only at hst
              subst hst
              rcases hb with hb | hb | hb <;> (simp only at hb; subst hb)
              · exact ⟨Or.inl bad_fuel, hi'⟩
              · exact ⟨Or.inl bad_unbound, hi'⟩
              · exact ⟨Or.inl bad_panic, hi'⟩
            · rw [hv]
              simp only []
              have hr2 : Rel S a { b with trace := i :: b.trace, env := env' } :=
                ⟨hr.1, hr.2.1, assign_plain hd _ _ _ _ hr.2.2 hae⟩
              have hi2 : Inv2 P S { b with trace := i :: b.trace, env := env' } := hi'
              exact ih.stmts ss a _ f hc2' hok2 hf hr2 hi2

theorem hoist_ok2 : ∀ (f : Nat) (ss : List Stmt), SOkList P S f ss → ∀ fd ∈ hoist ss, SOkList P S fd.id fd.body
  | _, [], _ => by simp [hoist]
  | f, s :: ss, h => by
      have ih := hoist_ok2 f ss h.2
      match s, h.1 with
      | .fnDef _ _ _ (.mk bd _) (some g) (some j) _, h1 =>
        simp only [SOk] at h1
        intro fd hfd
        simp only [hoist] at hfd
        rcases List.mem_cons.mp hfd with rfl | hfd
        · exact h1.2.2
        · exact ih fd hfd
      | .fnDef _ _ _ (.mk bd _) (some g) none _, h1 =>
        simp only [SOk] at h1
        intro fd hfd
        simp only [hoist] at hfd
        rcases List.mem_cons.mp hfd with rfl | hfd
        · exact h1
        · exact ih fd hfd
      | .fnDef _ _ _ (.mk _ _) none _ _, _ => simpa [hoist] using ih
      | .assign .., _ | .assignExisting .., _ | .assignIndex .., _ | .ifS .., _ | .loop .., _ | .block .., _
      | .ret .., _ | .brk .., _ | .cont .., _ | .expr .., _ => simpa [hoist] using ih

theorem rstep_block (ih : Sim P S n) (ss : List Stmt) (a b : St V) (f : Nat)
    (hcs : ConsStmts S.T true ss) (hok : SOkList P S f ss) (hf : S.BR f = true) (hr : Rel S a b) (hi : Inv2 P S b) :
    Out S (execBlock P S.cfg (n + 1) ss a) (execBlock P plain (n + 1) ss b) ∧
      Inv2 P S (execBlock P plain (n + 1) ss b).2 := by
  simp only [execBlock]
  have hr1 : Rel S { a with env := ⟨blockTag P.sscope ss, []⟩ :: a.env, fns := hoist ss :: a.fns }
      { b with env := ⟨blockTag P.sscope ss, []⟩ :: b.env, fns := hoist ss :: b.fns } :=
    ⟨hr.1, by simp [hr.2.1], EnvRel.push ⟨blockTag P.sscope ss, []⟩ hr.2.2⟩
  have hi1 : Inv2 P S { b with env := ⟨blockTag P.sscope ss, []⟩ :: b.env, fns := hoist ss :: b.fns } :=
    ⟨⟨FnsOk.push hi.1.1 (hoist_ok true ss hcs), hi.1.2⟩,
     by
      intro sc hsc
      rcases List.mem_cons.mp hsc with rfl | h'
      · exact hoist_ok2 f ss hok
      · exact hi.2.1 sc h',
     hi.2.2⟩
  obtain ⟨ho, hq⟩ := ih.stmts ss _ _ f hcs hok hf hr1 hi1
  generalize execStmts P plain n ss { b with env := ⟨blockTag P.sscope ss, []⟩ :: b.env, fns := hoist ss :: b.fns } = r2 at ho hq ⊢
  generalize execStmts P S.cfg n ss { a with env := ⟨blockTag P.sscope ss, []⟩ :: a.env, fns := hoist ss :: a.fns } = r1 at ho ⊢
  obtain ⟨x2, s2⟩ := r2
  obtain ⟨x1, s1⟩ := r1
  refine ⟨?_, inv2_pop hq⟩
  rcases ho with hbad | ⟨heq, hrel'⟩
  · exact Or.inl hbad
  · exact Or.inr ⟨heq, rel_pop hrel'⟩

theorem rstep_loop (ih : Sim P S n) (c : Expr) (bd : List Stmt) (a b : St V) (f : Nat)
    (hc : eOk S.BR S.D2 c = true) (hcs : ConsStmts S.T true bd) (hok : SOkList P S f bd) (hf : S.BR f = true)
    (hr : Rel S a b) (hi : Inv2 P S b) :
    Out S (execLoop P S.cfg (n + 1) c bd a) (execLoop P plain (n + 1) c bd b) ∧
      Inv2 P S (execLoop P plain (n + 1) c bd b).2 := by
  simp only [execLoop]
  obtain ⟨ho, hq⟩ := ih.expr c a b hc hr hi
  chain (evalExpr P S.cfg n c a), (evalExpr P plain n c b), ho, hq
  cases P.cond v with
  | error er => exact ⟨Or.inr ⟨rfl, hrel'⟩, hq⟩
  | ok bv =>
    cases bv with
    | false => exact ⟨Or.inr ⟨rfl, hrel'⟩, hq⟩
    | true =>
      simp only []
      obtain ⟨ho2, hq2⟩ := ih.block bd s1 s2 f hcs hok hf hrel' hq
      generalize execBlock P plain n bd s2 = r2 at ho2 hq2 ⊢
      generalize execBlock P S.cfg n bd s1 = r1 at ho2 ⊢
      obtain ⟨x2, t2⟩ := r2
      obtain ⟨x1, t1⟩ := r1
      rcases ho2 with hbad | ⟨heq, hrel2⟩
      · rcases hbad with hb | hb | hb <;> (simp only at hb; subst hb)
        · exact ⟨Or.inl bad_fuel, hq2⟩
        · exact ⟨Or.inl bad_unbound, hq2⟩
        · exact ⟨Or.inl bad_panic, hq2⟩
      · simp only at heq
        subst heq
        rcases x1 with er | fl
        · exact ⟨Or.inr ⟨rfl, hrel2⟩, hq2⟩
        · cases fl with
          | brk => exact ⟨Or.inr ⟨rfl, hrel2⟩, hq2⟩
          | ret w => exact ⟨Or.inr ⟨rfl, hrel2⟩, hq2⟩
          | normal => exact ih.loop c bd t1 t2 f hc hcs hok hf hrel2 hq2
          | cont => exact ih.loop c bd t1 t2 f hc hcs hok hf hrel2 hq2

end step

/-- The relational simulation for every amount of fuel. -/
theorem sim_all (P : Prims V) {S : Setup} (hs : SetupOk S) : ∀ n, Sim P S n
  | 0 => sim_zero P S
  | n + 1 =>
      have ih := sim_all P hs n
      { expr := rstep_expr hs ih
        list := rstep_list ih
        block := rstep_block ih
        stmts := rstep_stmts hs ih
        stmt := rstep_stmt hs ih
        loop := rstep_loop ih }

end NaijaVerif.C03
