/-
Lemmas for C13, part 2: characters and UTF-8 well-formedness (unique decomposition into encoded
characters, concatenation, cutting at a boundary, left cancellation, self-synchronisation).
-/
import NaijaVerif.Model.Strs
import NaijaVerif.Spec.Strs
import NaijaVerif.Lemmas.StrsFind

namespace NaijaVerif.Strs
open NaijaVerif NaijaVerif.Bytes

/-! ### `chars` -/

theorem chars_cons_shape (x : Nat) (s : Bytes) : ∃ g gs, chars (x :: s) = (x :: g) :: gs := by
  rw [chars]
  split
  · split
    · exact ⟨_, _, rfl⟩
    · exact ⟨_, _, rfl⟩
  · exact ⟨_, _, rfl⟩

theorem chars_flatten (s : Bytes) : (chars s).flatten = s := by
  induction s with
  | nil => simp [chars]
  | cons b rest ih =>
    rw [chars]
    split
    · next c g gs heq =>
      rw [heq] at ih
      split <;> simp at ih ⊢ <;> exact ih
    · next gs hne =>
      simp [ih]

theorem chars_ne_nil (s : Bytes) : ∀ g ∈ chars s, g ≠ [] := by
  induction s with
  | nil => simp [chars]
  | cons b rest ih =>
    rw [chars]
    split
    · next c g gs heq =>
      rw [heq] at ih
      split
      · intro g' hg'
        simp at hg'
        rcases hg' with rfl | hg'
        · simp
        · exact ih g' (by simp [hg'])
      · intro g' hg'
        simp at hg'
        rcases hg' with rfl | rfl | hg'
        · simp
        · simp
        · exact ih g' (by simp [hg'])
    · intro g' hg'
      simp at hg'
      rcases hg' with rfl | hg'
      · simp
      · exact ih g' hg'

theorem chars_eq_nil_iff (s : Bytes) : chars s = [] ↔ s = [] := by
  constructor
  · intro h
    have := chars_flatten s
    rw [h] at this
    simpa using this.symm
  · intro h; subst h; simp [chars]

/-- A lead byte followed by continuation bytes, in front of a string that does not start with a
continuation byte, is one group. -/
theorem chars_group (tl : Bytes) (htl : tl.all isCont = true) (r : Bytes)
    (hr : r = [] ∨ ∃ y r', r = y :: r' ∧ isCont y = false) :
    ∀ a, chars (a :: (tl ++ r)) = (a :: tl) :: chars r := by
  induction tl with
  | nil =>
    intro a
    simp only [List.nil_append]
    rcases hr with rfl | ⟨y, r', rfl, hy⟩
    · simp [chars]
    · obtain ⟨g, gs, hg⟩ := chars_cons_shape y r'
      rw [chars, hg]
      simp [hy]
  | cons t tl ih =>
    intro a
    simp only [List.all_cons, Bool.and_eq_true] at htl
    have := ih htl.2 t
    rw [List.cons_append, chars, this]
    simp [htl.1]

/-! ### well-formed characters -/

theorem isCont_lt {b : Nat} (h : isCont b = true) : 128 ≤ b ∧ b < 192 := by
  simpa [isCont] using h

theorem validChar_shape {c : Bytes} (h : validChar c = true) :
    ∃ a tl, c = a :: tl ∧ isCont a = false ∧ tl.all isCont = true := by
  match c, h with
  | [a], h =>
    refine ⟨a, [], rfl, ?_, by simp⟩
    simp [validChar, isCont] at h ⊢; omega
  | [a, b], h =>
    refine ⟨a, [b], rfl, ?_, ?_⟩
    · simp [validChar, isCont] at h ⊢; omega
    · simp [validChar, isCont] at h ⊢; omega
  | [a, b, c], h =>
    refine ⟨a, [b, c], rfl, ?_, ?_⟩
    · simp [validChar, isCont] at h ⊢; omega
    · simp [validChar, isCont] at h ⊢; omega
  | [a, b, c, d], h =>
    refine ⟨a, [b, c, d], rfl, ?_, ?_⟩
    · simp [validChar, isCont] at h ⊢; omega
    · simp [validChar, isCont] at h ⊢; omega

/-- Length of an encoded character as announced by its lead byte. -/
def charWidth (b : Nat) : Nat := if b < 0x80 then 1 else if b < 0xE0 then 2 else if b < 0xF0 then 3 else 4

theorem validChar_width {a : Nat} {tl : Bytes} (h : validChar (a :: tl) = true) :
    (a :: tl).length = charWidth a := by
  match tl, h with
  | [], h =>
    simp [validChar] at h; unfold charWidth
    simp only [List.length_cons, List.length_nil]; (repeat' split) <;> omega
  | [b], h =>
    simp [validChar, isCont] at h; unfold charWidth
    simp only [List.length_cons, List.length_nil]; (repeat' split) <;> omega
  | [b, c], h =>
    simp [validChar, isCont] at h; unfold charWidth
    simp only [List.length_cons, List.length_nil]; (repeat' split) <;> omega
  | [b, c, d], h =>
    simp [validChar, isCont] at h; unfold charWidth
    simp only [List.length_cons, List.length_nil]; (repeat' split) <;> omega

/-! ### `ValidUtf8` -/

theorem valid_nil : ValidUtf8 [] := ⟨[], by simp, by simp⟩

theorem valid_char {c : Bytes} (h : validChar c = true) : ValidUtf8 c :=
  ⟨[c], by simpa using h, by simp⟩

theorem valid_append {a b : Bytes} (ha : ValidUtf8 a) (hb : ValidUtf8 b) : ValidUtf8 (a ++ b) := by
  obtain ⟨ca, hca, rfl⟩ := ha
  obtain ⟨cb, hcb, rfl⟩ := hb
  refine ⟨ca ++ cb, ?_, by simp⟩
  intro c hc
  rcases List.mem_append.mp hc with h | h
  · exact hca c h
  · exact hcb c h

theorem valid_flatten {xs : List Bytes} (h : ∀ x ∈ xs, ValidUtf8 x) : ValidUtf8 xs.flatten := by
  induction xs with
  | nil => exact valid_nil
  | cons x xs ih =>
    rw [List.flatten_cons]
    exact valid_append (h x (by simp)) (ih (fun y hy => h y (by simp [hy])))

theorem valid_of_groups {cs : List Bytes} (h : ∀ c ∈ cs, validChar c = true) : ValidUtf8 cs.flatten :=
  ⟨cs, h, rfl⟩

/-- The first byte of a non-empty well-formed string is not a continuation byte. -/
theorem valid_head {a : Nat} {s : Bytes} (h : ValidUtf8 (a :: s)) : isCont a = false := by
  obtain ⟨cs, hcs, hfl⟩ := h
  induction cs with
  | nil => simp at hfl
  | cons c cs _ =>
    obtain ⟨a', tl, rfl, ha', _⟩ := validChar_shape (hcs c (by simp))
    simp at hfl
    rw [← hfl.1]; exact ha'

theorem flatten_head_not_cont {cs : List Bytes} (h : ∀ c ∈ cs, validChar c = true) :
    cs.flatten = [] ∨ ∃ y r', cs.flatten = y :: r' ∧ isCont y = false := by
  cases hfl : cs.flatten with
  | nil => exact Or.inl rfl
  | cons y r' =>
    refine Or.inr ⟨y, r', rfl, ?_⟩
    exact valid_head (hfl ▸ valid_of_groups h)

/-- Unique decomposition: `chars` recovers the encoded characters of a well-formed string. -/
theorem chars_of_valid {cs : List Bytes} (h : ∀ c ∈ cs, validChar c = true) :
    chars cs.flatten = cs := by
  induction cs with
  | nil => simp [chars]
  | cons c cs ih =>
    have hcs : ∀ c' ∈ cs, validChar c' = true := fun c' hc' => h c' (by simp [hc'])
    obtain ⟨a, tl, rfl, _, htl⟩ := validChar_shape (h c (by simp))
    rw [List.flatten_cons, List.cons_append, chars_group tl htl _ (flatten_head_not_cont hcs), ih hcs]

theorem validUtf8_iff (s : Bytes) : validUtf8 s = true ↔ ValidUtf8 s := by
  constructor
  · intro h
    refine ⟨chars s, ?_, chars_flatten s⟩
    simpa [validUtf8, List.all_eq_true] using h
  · rintro ⟨cs, hcs, rfl⟩
    rw [validUtf8, chars_of_valid hcs]
    simpa [List.all_eq_true] using hcs

theorem valid_chars {s : Bytes} (h : ValidUtf8 s) : ∀ c ∈ chars s, validChar c = true := by
  obtain ⟨cs, hcs, rfl⟩ := h
  rw [chars_of_valid hcs]; exact hcs

/-- Cutting a well-formed string in front of a non-continuation byte (or at its end) leaves two
well-formed strings. -/
theorem valid_cut {h : Bytes} (hv : ValidUtf8 h) :
    ∀ i, (i = h.length ∨ ∃ b, h[i]? = some b ∧ isCont b = false) →
      ValidUtf8 (h.take i) ∧ ValidUtf8 (h.drop i) := by
  obtain ⟨cs, hcs, rfl⟩ := hv
  induction cs with
  | nil =>
    intro i _
    simp; exact valid_nil
  | cons c cs ih =>
    have hcs' : ∀ c' ∈ cs, validChar c' = true := fun c' hc' => hcs c' (by simp [hc'])
    have hc := hcs c (by simp)
    intro i hi
    simp only [List.flatten_cons] at hi ⊢
    by_cases h0 : i = 0
    · subst h0
      simp
      exact ⟨valid_nil, valid_append (valid_char hc) (valid_of_groups hcs')⟩
    · by_cases hlt : i < c.length
      · -- strictly inside the first character: the byte there is a continuation byte
        exfalso
        obtain ⟨a, tl, rfl, _, htl⟩ := validChar_shape hc
        rcases hi with hi | ⟨b, hb, hnb⟩
        · simp at hi hlt; omega
        · rw [List.getElem?_append_left hlt] at hb
          obtain ⟨k, rfl⟩ : ∃ k, i = k + 1 := ⟨i - 1, by omega⟩
          simp at hb hlt
          have hk : k < tl.length := by omega
          rw [List.getElem?_eq_getElem hk] at hb
          have := (List.all_eq_true.mp htl) tl[k] (List.getElem_mem hk)
          simp at hb
          rw [hb] at this
          simp [this] at hnb
      · have hge : c.length ≤ i := by omega
        have := ih hcs' (i - c.length) (by
          rcases hi with hi | ⟨b, hb, hnb⟩
          · left; rw [List.length_append] at hi; omega
          · right
            refine ⟨b, ?_, hnb⟩
            rw [List.getElem?_append_right hge] at hb
            exact hb)
        rw [List.take_append, List.drop_append]
        rw [List.take_of_length_le hge, List.drop_of_length_le hge]
        simp only [List.nil_append]
        exact ⟨valid_append (valid_char hc) this.1, this.2⟩

/-- Left cancellation. -/
theorem valid_cancel {a b : Bytes} (hab : ValidUtf8 (a ++ b)) (ha : ValidUtf8 a) : ValidUtf8 b := by
  obtain ⟨ca, hca, rfl⟩ := ha
  obtain ⟨cab, hcab, hfl⟩ := hab
  induction ca generalizing cab with
  | nil => simp at hfl; exact ⟨cab, hcab, hfl⟩
  | cons c ca ih =>
    have hc := hca c (by simp)
    obtain ⟨x, tl, rfl, _, _⟩ := validChar_shape hc
    cases cab with
    | nil => simp at hfl
    | cons d cab =>
      have hd := hcab d (by simp)
      obtain ⟨y, tl', rfl, _, _⟩ := validChar_shape hd
      simp only [List.flatten_cons, List.cons_append, List.append_assoc] at hfl
      have hxy : y = x := by
        have := hfl; simp at this; exact this.1
      subst hxy
      have hw : (y :: tl').length = (y :: tl).length := by
        rw [validChar_width hd, validChar_width hc]
      have hfl' : tl' ++ cab.flatten = tl ++ (ca.flatten ++ b) := by
        have := hfl; simp at this; exact this
      have hlen : tl'.length = tl.length := by simpa using hw
      obtain ⟨_, h2⟩ := List.append_inj hfl' hlen
      exact ih (fun c' hc' => hca c' (by simp [hc'])) cab (fun c' hc' => hcab c' (by simp [hc'])) h2

/-- Self-synchronisation: an occurrence of a non-empty well-formed needle in a well-formed haystack
starts and ends on character boundaries. -/
theorem occ_boundary {h n : Bytes} {i : Nat} (hv : ValidUtf8 h) (nv : ValidUtf8 n) (hn : n ≠ [])
    (ho : OccAt h n i) : Boundary h i ∧ Boundary h (i + n.length) := by
  have hlen := occ_len ho hn
  obtain ⟨a, r, rfl⟩ : ∃ a r, n = a :: r := by
    cases n with
    | nil => exact absurd rfl hn
    | cons a r => exact ⟨a, r, rfl⟩
  have ha : isCont a = false := valid_head nv
  have hia : h[i]? = some a := occ_first (by simp) ho
  obtain ⟨v1, v2⟩ := valid_cut hv i (Or.inr ⟨a, hia, ha⟩)
  obtain ⟨t, ht⟩ := ho
  have vt : ValidUtf8 t := valid_cancel (ht ▸ v2) nv
  have hdrop : h.drop (i + (a :: r).length) = t := by
    rw [← List.drop_drop, ← ht]; simp
  have htake : h.take (i + (a :: r).length) = h.take i ++ (a :: r) := by
    rw [List.take_add, ← ht]; simp
  refine ⟨⟨by omega, v1, v2⟩, ⟨hlen, ?_, ?_⟩⟩
  · rw [htake]; exact valid_append v1 nv
  · rw [hdrop]; exact vt

/-- The semantic boundary agrees with `str::is_char_boundary` (`Bytes.isBoundary`) on well-formed
strings. -/
theorem boundary_iff {h : Bytes} (hv : ValidUtf8 h) (i : Nat) :
    Boundary h i ↔ isBoundary h i = true := by
  constructor
  · rintro ⟨hle, _, v2⟩
    unfold isBoundary
    by_cases h0 : i = 0
    · simp [h0]
    · by_cases hl : i = h.length
      · simp [hl]
      · have hlt : i < h.length := by omega
        rw [List.drop_eq_getElem_cons hlt] at v2
        have := valid_head v2
        simp [List.getElem?_eq_getElem hlt, this]
  · intro hb
    unfold isBoundary at hb
    by_cases h0 : i = 0
    · subst h0; exact ⟨by omega, by simpa using valid_nil, by simpa using hv⟩
    · by_cases hl : i = h.length
      · subst hl; exact ⟨by omega, by simpa using hv, by simpa using valid_nil⟩
      · have : (i == 0) = false := by simpa using h0
        have h2 : (i == h.length) = false := by simpa using hl
        simp only [this, h2, Bool.false_or] at hb
        cases hg : h[i]? with
        | none => simp [hg] at hb
        | some b =>
          simp [hg] at hb
          have hlt : i < h.length := by
            by_cases hlt : i < h.length
            · exact hlt
            · rw [List.getElem?_eq_none (by omega)] at hg; cases hg
          obtain ⟨v1, v2⟩ := valid_cut hv i (Or.inr ⟨b, hg, hb⟩)
          exact ⟨by omega, v1, v2⟩

end NaijaVerif.Strs
