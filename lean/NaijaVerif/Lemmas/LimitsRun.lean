import NaijaVerif.Model.Eval
/-
Helper lemmas for `Props/C18Run.lean`: the evaluator (`Model/Eval.lean`, family `run`) consults
`cfg.plan` only through `Plan.prunesStmt` (the statement loop) and `Plan.prunesFn` (hoisting), so two
configurations that differ only in plans that prune nothing evaluate identically.  One induction on
the fuel with the eight mutually recursive functions side by side (the pattern of
`Lemmas/EvalFuel.lean`).
-/
set_option linter.unusedSectionVars false
set_option linter.unusedSimpArgs false
namespace NaijaVerif.Eval
open NaijaVerif
variable {N : Type} [NumOps N]

section
variable (cfg : RunCfg) (p : Option Plan)

@[simp] theorem trap_plan {α : Type} (site : PanicSite) (sp : Span) (st : State N) :
    (trap { cfg with plan := p } site sp st : Res N α) = trap cfg site sp st := rfl
@[simp] theorem ofFault_plan {α : Type} (flt : Fault) (sp : Span) (st : State N) :
    (Res.ofFault { cfg with plan := p } flt sp st : Res N α) = Res.ofFault cfg flt sp st := rfl
@[simp] theorem ofExcept_plan {α : Type} (x : Except Fault α) (sp : Span) (st : State N) :
    (Res.ofExcept { cfg with plan := p } x sp st : Res N α) = Res.ofExcept cfg x sp st := rfl
@[simp] theorem slotOf_plan (st : State N) (b : Option Nat) (n : Bytes) :
    slotOf { cfg with plan := p } st b n = slotOf cfg st b n := rfl
@[simp] theorem lookupVal_plan (st : State N) (b : Option Nat) (n : Bytes) :
    lookupVal { cfg with plan := p } st b n = lookupVal cfg st b n := rfl
@[simp] theorem assign_plan (st : State N) (b : Option Nat) (n : Bytes) (v : Value N) :
    assign { cfg with plan := p } st b n v = assign cfg st b n v := rfl
@[simp] theorem lookupFn_plan (st : State N) (a : Option Nat) (n : Bytes) :
    lookupFn { cfg with plan := p } st a n = lookupFn cfg st a n := rfl
@[simp] theorem applyMut_plan (st : State N) (n : Bytes) (b : Option Nat) (path : List (Nat × Span))
    (op : MutOp N) (sp : Span) :
    applyMut { cfg with plan := p } st n b path op sp = applyMut cfg st n b path op sp := rfl
@[simp] theorem assignIndex_plan (st : State N) (n : Bytes) (b : Option Nat) (path : List (Nat × Span))
    (v : Value N) (sp : Span) :
    assignIndex { cfg with plan := p } st n b path v sp = assignIndex cfg st n b path v sp := rfl
@[simp] theorem interp_plan (st : State N) (segs : List Seg) (acc : Bytes) :
    interp { cfg with plan := p } st segs acc = interp cfg st segs acc := by
  induction segs generalizing acc with
  | nil => rfl
  | cons s rest ih => cases s <;> simp [interp, ih]
@[simp] theorem runCommand_plan (c : Proc.Cmd) (sp : Span) (st : State N) :
    runCommand { cfg with plan := p } c sp st = runCommand cfg c sp st := rfl
@[simp] theorem globalCall_plan (b : GlobalB) (v : Value N) (sp : Span) (st : State N) :
    globalCall { cfg with plan := p } b v sp st = globalCall cfg b v sp st := rfl
@[simp] theorem init_plan : (State.init { cfg with plan := p } : State N) = State.init cfg := rfl
end

theorem prunesStmt_none (sid : Option Nat) : Plan.prunesStmt none sid = false := by
  cases sid <;> rfl
theorem prunesStmt_empty (sid : Option Nat) : Plan.prunesStmt (some {}) sid = false := by
  cases sid <;> rfl
theorem prunesFn_none (fid : Option Nat) : Plan.prunesFn none fid = false := by
  cases fid <;> rfl
theorem prunesFn_empty (fid : Option Nat) : Plan.prunesFn (some {}) fid = false := by
  cases fid <;> rfl

/-- A configuration whose plan prunes nothing. -/
def NoPrune (cfg : RunCfg) : Prop :=
  (∀ sid, Plan.prunesStmt cfg.plan sid = false) ∧ (∀ fid, Plan.prunesFn cfg.plan fid = false)

theorem hoist_noprune (c1 c2 : RunCfg) (h1 : NoPrune c1) (h2 : NoPrune c2) (ss : List Stmt) (st : State N) :
    hoist c1 ss st = hoist c2 ss st := by
  induction ss generalizing st with
  | nil => rfl
  | cons s rest ih =>
    cases s <;> simp only [hoist, h1.2, h2.2, ih]
    all_goals (try (split <;> simp [ih]))


theorem Res.bind_congr {α β : Type} {r r' : Res N α} {k k' : α → State N → Res N β}
    (hr : r = r') (hk : ∀ a st, k a st = k' a st) : r.bind k = r'.bind k' := by
  subst hr
  have : k = k' := funext fun a => funext fun st => hk a st
  rw [this]

/-- All eight functions agree, at fuel `f`, under two plans. -/
structure Same (cfg : RunCfg) (p1 p2 : Option Plan) (f : Nat) : Prop where
  expr : ∀ (e : Expr) (st : State N),
    evalExpr { cfg with plan := p1 } f e st = evalExpr { cfg with plan := p2 } f e st
  sel : ∀ es (st : State N),
    evalSel { cfg with plan := p1 } f es st = evalSel { cfg with plan := p2 } f es st
  idxs : ∀ is (st : State N),
    evalIdxs { cfg with plan := p1 } f is st = evalIdxs { cfg with plan := p2 } f is st
  mutOp : ∀ m args sp (st : State N),
    evalMutOp { cfg with plan := p1 } f m args sp st = evalMutOp { cfg with plan := p2 } f m args sp st
  stmt : ∀ s (st : State N),
    execStmt { cfg with plan := p1 } f s st = execStmt { cfg with plan := p2 } f s st
  stmts : ∀ ss (st : State N),
    execStmts { cfg with plan := p1 } f ss st = execStmts { cfg with plan := p2 } f ss st
  block : ∀ b (st : State N),
    execBlock { cfg with plan := p1 } f b st = execBlock { cfg with plan := p2 } f b st
  loop : ∀ c b sp (st : State N),
    loopW { cfg with plan := p1 } f c b sp st = loopW { cfg with plan := p2 } f c b sp st

section Step
variable {cfg : RunCfg} {p1 p2 : Option Plan} {f : Nat}

/-- Close `A = B` where `A` and `B` are the same term up to the plan of recursive calls. -/
macro "same_close" h:ident : tactic => `(tactic| (
  repeat (first
    | rfl
    | exact Same.expr $h _ _
    | exact Same.sel $h _ _
    | exact Same.idxs $h _ _
    | exact Same.mutOp $h _ _ _ _
    | exact Same.stmt $h _ _
    | exact Same.stmts $h _ _
    | exact Same.block $h _ _
    | exact Same.loop $h _ _ _ _
    | (apply Res.bind_congr)
    | (intro _ _)
    | split)))

theorem same_sel_step (h : Same (N := N) cfg p1 p2 f) (es) (st : State N) :
    evalSel { cfg with plan := p1 } (f + 1) es st = evalSel { cfg with plan := p2 } (f + 1) es st := by
  cases es with
  | nil => simp only [evalSel]
  | cons e rest =>
    cases e with
    | error s => simp only [evalSel, trap_plan]
    | ok e => simp only [evalSel]; same_close h

theorem same_idxs_step (h : Same (N := N) cfg p1 p2 f) (is) (st : State N) :
    evalIdxs { cfg with plan := p1 } (f + 1) is st = evalIdxs { cfg with plan := p2 } (f + 1) is st := by
  cases is with
  | nil => simp only [evalIdxs]
  | cons e rest => obtain ⟨e, isp⟩ := e; simp only [evalIdxs, ofExcept_plan]; same_close h

theorem same_mutOp_step (h : Same (N := N) cfg p1 p2 f) (m args sp) (st : State N) :
    evalMutOp { cfg with plan := p1 } (f + 1) m args sp st =
      evalMutOp { cfg with plan := p2 } (f + 1) m args sp st := by
  cases m with
  | push => simp only [evalMutOp, trap_plan]; same_close h
  | pop => simp only [evalMutOp]; same_close h
  | reverse => simp only [evalMutOp]; same_close h
  | cmd c => cases c <;> simp only [evalMutOp, trap_plan, ofExcept_plan] <;> same_close h

theorem same_stmts_step (h : Same (N := N) cfg p1 p2 f) (hp1 : ∀ sid, Plan.prunesStmt p1 sid = false)
    (hp2 : ∀ sid, Plan.prunesStmt p2 sid = false) (ss) (st : State N) :
    execStmts { cfg with plan := p1 } (f + 1) ss st = execStmts { cfg with plan := p2 } (f + 1) ss st := by
  cases ss with
  | nil => simp only [execStmts]
  | cons s rest => simp only [execStmts, hp1, hp2]; same_close h

theorem same_block_step (h : Same (N := N) cfg p1 p2 f) (hn1 : NoPrune { cfg with plan := p1 })
    (hn2 : NoPrune { cfg with plan := p2 }) (b) (st : State N) :
    execBlock { cfg with plan := p1 } (f + 1) b st = execBlock { cfg with plan := p2 } (f + 1) b st := by
  simp only [execBlock, hoist_noprune _ _ hn1 hn2]; same_close h

theorem same_loop_step (h : Same (N := N) cfg p1 p2 f) (c b sp) (st : State N) :
    loopW { cfg with plan := p1 } (f + 1) c b sp st = loopW { cfg with plan := p2 } (f + 1) c b sp st := by
  simp only [loopW, ofExcept_plan]; same_close h

theorem same_stmt_step (h : Same (N := N) cfg p1 p2 f) (s) (st : State N) :
    execStmt { cfg with plan := p1 } (f + 1) s st = execStmt { cfg with plan := p2 } (f + 1) s st := by
  cases s with
  | ret e _ _ => cases e <;> simp only [execStmt] <;> same_close h
  | _ => simp only [execStmt, trap_plan, ofExcept_plan, assign_plan, assignIndex_plan] <;> same_close h

theorem same_expr_step (h : Same (N := N) cfg p1 p2 f) (e) (st : State N) :
    evalExpr { cfg with plan := p1 } (f + 1) e st = evalExpr { cfg with plan := p2 } (f + 1) e st := by
  cases e with
  | str parts sp => cases parts <;> simp only [evalExpr, trap_plan, interp_plan] <;> same_close h
  | call callee args fn sp =>
    cases callee <;>
      simp only [evalExpr, trap_plan, ofExcept_plan, lookupFn_plan, globalCall_plan, runCommand_plan,
        applyMut_plan] <;> same_close h
  | _ => simp only [evalExpr, trap_plan, ofExcept_plan, lookupVal_plan] <;> same_close h

theorem same_step (h : Same (N := N) cfg p1 p2 f) (hn1 : NoPrune { cfg with plan := p1 })
    (hn2 : NoPrune { cfg with plan := p2 }) : Same (N := N) cfg p1 p2 (f + 1) :=
  ⟨same_expr_step h, same_sel_step h, same_idxs_step h, same_mutOp_step h, same_stmt_step h,
   same_stmts_step h hn1.1 hn2.1, same_block_step h hn1 hn2, same_loop_step h⟩

end Step

theorem same_zero (cfg : RunCfg) (p1 p2 : Option Plan) : Same (N := N) cfg p1 p2 0 :=
  ⟨fun _ _ => by simp only [evalExpr], fun _ _ => by simp only [evalSel],
   fun _ _ => by simp only [evalIdxs], fun _ _ _ _ => by simp only [evalMutOp],
   fun _ _ => by simp only [execStmt], fun _ _ => by simp only [execStmts],
   fun _ _ => by simp only [execBlock], fun _ _ _ _ => by simp only [loopW]⟩

/-- Two plans that prune nothing are indistinguishable to all eight evaluator functions, at every
fuel. -/
theorem same_all (cfg : RunCfg) (p1 p2 : Option Plan) (hn1 : NoPrune { cfg with plan := p1 })
    (hn2 : NoPrune { cfg with plan := p2 }) : ∀ f, Same (N := N) cfg p1 p2 f
  | 0 => same_zero cfg p1 p2
  | f + 1 => same_step (same_all cfg p1 p2 hn1 hn2 f) hn1 hn2

theorem noPrune_none (cfg : RunCfg) : NoPrune { cfg with plan := none } :=
  ⟨prunesStmt_none, prunesFn_none⟩

theorem noPrune_empty (cfg : RunCfg) : NoPrune { cfg with plan := some {} } :=
  ⟨prunesStmt_empty, prunesFn_empty⟩

end NaijaVerif.Eval
