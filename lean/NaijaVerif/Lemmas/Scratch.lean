/-
Helper lemmas for C14: the invariant of a program state over the two scratch arenas and its
preservation by every operation that the decidable protocol check allows.
-/
import NaijaVerif.Model.Protocol

namespace NaijaVerif.Scratch

/-! ## Arena and Scratch bookkeeping -/

@[simp] theorem get_set_same (s : Scratch) (i : Ix) (a : Arena) : (s.set i a).get i = a := by
  cases i <;> rfl

theorem get_set_other (s : Scratch) (i j : Ix) (a : Arena) (h : j ≠ i) : (s.set i a).get j = s.get j := by
  cases i <;> cases j <;> first | rfl | exact absurd rfl h

theorem le_alignUp (x a : Nat) (h : 0 < a) : x ≤ alignUp x a := by
  unfold alignUp
  have h1 := Nat.div_add_mod (x + a - 1) a
  have h2 := Nat.mod_lt (x + a - 1) h
  have h3 : a * ((x + a - 1) / a) = (x + a - 1) / a * a := Nat.mul_comm _ _
  omega

@[simp] theorem decommit_offset (a : Arena) : a.decommit.offset = a.offset := by
  unfold Arena.decommit
  by_cases h : alignUp a.offset chunk < a.commit <;> simp [h]

@[simp] theorem decommit_borrows (a : Arena) : a.decommit.borrows = a.borrows := by
  unfold Arena.decommit
  by_cases h : alignUp a.offset chunk < a.commit <;> simp [h]

/-! ## Association lists with distinct keys -/

theorem lookup_mem {β : Type} : ∀ (l : List (Nat × β)) (v : Nat) (b : β), l.lookup v = some b → (v, b) ∈ l
  | [], _, _, h => by simp at h
  | (k, x) :: r, v, b, h => by
    rw [List.lookup_cons] at h
    by_cases hk : v == k
    · simp [hk] at h; have : v = k := by simpa using hk
      subst this; subst h; simp
    · simp [hk] at h; exact List.mem_cons_of_mem _ (lookup_mem r v b h)

theorem lookup_none_not_mem {β : Type} : ∀ (l : List (Nat × β)) (v : Nat), l.lookup v = none → ∀ b, (v, b) ∉ l
  | [], _, _, _ => by simp
  | (k, x) :: r, v, h, b => by
    rw [List.lookup_cons] at h
    cases hk : (v == k)
    · simp only [hk] at h
      intro hm
      rcases List.mem_cons.mp hm with he | hr
      · have : v = k := (Prod.mk.inj he).1
        simp [this] at hk
      · exact lookup_none_not_mem r v h b hr
    · simp only [hk] at h; cases h

theorem mem_unique {β : Type} : ∀ (l : List (Nat × β)), (l.map (·.1)).Nodup → ∀ v b b', (v, b) ∈ l → (v, b') ∈ l → b = b'
  | [], _, _, _, _, h, _ => by simp at h
  | (k, x) :: r, hn, v, b, b', h1, h2 => by
    simp only [List.map_cons, List.nodup_cons] at hn
    rcases List.mem_cons.mp h1 with e1 | r1 <;> rcases List.mem_cons.mp h2 with e2 | r2
    · rw [Prod.mk.injEq] at e1 e2; rw [e1.2, e2.2]
    · exfalso; apply hn.1; rw [← (Prod.mk.inj e1).1]; exact List.mem_map.mpr ⟨(v, b'), r2, rfl⟩
    · exfalso; apply hn.1; rw [← (Prod.mk.inj e2).1]; exact List.mem_map.mpr ⟨(v, b), r1, rfl⟩
    · exact mem_unique r hn.2 v b b' r1 r2

theorem mem_lookup {β : Type} (l : List (Nat × β)) (hn : (l.map (·.1)).Nodup) (v : Nat) (b : β)
    (h : (v, b) ∈ l) : l.lookup v = some b := by
  cases hl : l.lookup v with
  | none => exact absurd h (lookup_none_not_mem l v hl b)
  | some b' => rw [mem_unique l hn v b' b (lookup_mem l v b' hl) h]

/-! ## Stacks and chains -/

/-- The guards of arena `i`, newest first. -/
def stack (i : Ix) (env : List (Nat × Borrow)) : List (Nat × Borrow) := env.filter (fun e => e.2.ix = i)

theorem mem_stack (i : Ix) (env : List (Nat × Borrow)) (e : Nat × Borrow) :
    e ∈ stack i env ↔ e ∈ env ∧ e.2.ix = i := by
  unfold stack; simp [List.mem_filter]

/-- Guards of one arena: borrow numbers count down from the arena's counter, saved offsets descend
from the arena's offset, and below the oldest guard lie the origin offset and count `o`. -/
def Chain1 : List (Nat × Borrow) → Nat → Nat → Nat × Nat → Prop
  | [], hi, n, o => hi = o.1 ∧ n = o.2
  | e :: rest, hi, n, o => e.2.no = n ∧ 0 < n ∧ e.2.saved ≤ hi ∧ Chain1 rest e.2.saved (n - 1) o

theorem chain_bounds : ∀ (l : List (Nat × Borrow)) (hi n : Nat) (o : Nat × Nat), Chain1 l hi n o →
    ∀ e ∈ l, e.2.no ≤ n ∧ e.2.saved ≤ hi
  | [], _, _, _, _, _, h => by simp at h
  | e :: rest, hi, n, o, hc, x, hx => by
    obtain ⟨h1, _, h3, h4⟩ := hc
    rcases List.mem_cons.mp hx with rfl | hr
    · omega
    · have := chain_bounds rest _ _ o h4 x hr; omega

theorem chain_below (e : Nat × Borrow) (rest : List (Nat × Borrow)) (hi n : Nat) (o : Nat × Nat)
    (hc : Chain1 (e :: rest) hi n o) : ∀ x ∈ rest, x.2.no < e.2.no ∧ x.2.saved ≤ e.2.saved := by
  intro x hx
  obtain ⟨h1, h2, _, h4⟩ := hc
  have := chain_bounds rest _ _ o h4 x hx
  omega

/-! ## Shape of a state -/

def shape (st : St) : Shape := st.env.map (fun e => (e.1, e.2.ix))

theorem shape_lookup : ∀ (env : List (Nat × Borrow)) (v : Nat),
    (env.map (fun e => (e.1, e.2.ix))).lookup v = (env.lookup v).map (·.ix)
  | [], _ => rfl
  | (k, b) :: r, v => by
    simp only [List.map_cons, List.lookup_cons]
    by_cases hk : v == k <;> simp [hk, shape_lookup r v]

theorem shape_topOf (env : List (Nat × Borrow)) (i : Ix) :
    topOf (env.map (fun e => (e.1, e.2.ix))) i = ((stack i env).head?).map (·.1) := by
  unfold topOf stack
  rw [List.filter_map]
  simp only [List.head?_map, Option.map_map]
  rfl

/-- The abstract "newest guard of its arena" gives the concrete stack head. -/
theorem isTop_spec (env : List (Nat × Borrow)) (hn : (env.map (·.1)).Nodup) (v : Nat)
    (h : isTop (env.map (fun e => (e.1, e.2.ix))) v = true) :
    ∃ b rest, env.lookup v = some b ∧ stack b.ix env = (v, b) :: rest := by
  unfold isTop at h
  rw [shape_lookup] at h
  cases hl : env.lookup v with
  | none => simp [hl] at h
  | some b =>
    simp only [hl, Option.map_some] at h
    rw [shape_topOf] at h
    cases hs : stack b.ix env with
    | nil => simp [hs] at h
    | cons e rest =>
      simp only [hs, List.head?_cons, Option.map_some, beq_iff_eq, Option.some.injEq] at h
      have hmem : e ∈ stack b.ix env := by rw [hs]; simp
      have he := (mem_stack _ _ _).mp hmem
      have hb : e.2 = b := by
        apply mem_unique env hn v e.2 b
        · rw [← h]; exact he.1
        · exact lookup_mem env v b hl
      refine ⟨b, rest, rfl, ?_⟩
      have : e = (v, b) := by rw [← h, ← hb]
      rw [hs, this]


/-! ## The invariant -/

/-- `o i` = offset and borrow count of arena `i` below its oldest live guard. -/
structure Inv (o : Ix → Nat × Nat) (st : St) : Prop where
  names  : (st.env.map (·.1)).Nodup
  chain  : ∀ i, Chain1 (stack i st.env) (st.sc.get i).offset (st.sc.get i).borrows (o i)
  blocks : ∀ blk ∈ st.blocks, ∃ b, (blk.owner, b) ∈ st.env ∧ b.ix = blk.ix ∧ b.saved ≤ blk.beg ∧
             blk.beg ≤ blk.fin ∧ blk.fin ≤ (st.sc.get blk.ix).offset ∧
             ∀ e ∈ st.env, e.2.ix = blk.ix → b.no < e.2.no → blk.fin ≤ e.2.saved
  disj   : st.blocks.Pairwise (fun x y => x.ix = y.ix → y.fin ≤ x.beg)
  marks  : ∀ e ∈ st.marks, ∃ b, (e.1, b) ∈ st.env ∧ b.saved ≤ e.2
  lost   : st.lost = []

/-- With no guard alive there are no blocks and no readable marks. -/
theorem Inv.blocks_nil {o st} (h : Inv o st) (he : st.env = []) : st.blocks = [] := by
  apply List.eq_nil_iff_forall_not_mem.mpr
  intro blk hb
  obtain ⟨b, hm, _⟩ := h.blocks blk hb
  rw [he] at hm; cases hm

theorem Inv.marks_nil {o st} (h : Inv o st) (he : st.env = []) : st.marks = [] := by
  apply List.eq_nil_iff_forall_not_mem.mpr
  intro e hb
  obtain ⟨b, hm, _⟩ := h.marks e hb
  rw [he] at hm; cases hm

/-- `v` holds the newest guard `b` of its arena. -/
structure Top (st : St) (v : Nat) (b : Borrow) (rest : List (Nat × Borrow)) : Prop where
  look : st.env.lookup v = some b
  stk  : stack b.ix st.env = (v, b) :: rest

theorem Top.mem {st v b rest} (t : Top st v b rest) : (v, b) ∈ st.env := lookup_mem _ _ _ t.look

theorem Top.head {o st v b rest} (t : Top st v b rest) (h : Inv o st) :
    b.no = (st.sc.get b.ix).borrows ∧ 0 < b.no ∧ b.saved ≤ (st.sc.get b.ix).offset ∧
      Chain1 rest b.saved (b.no - 1) (o b.ix) := by
  have hc := h.chain b.ix
  rw [t.stk] at hc
  obtain ⟨h1, h2, h3, h4⟩ := hc
  simp only at h1 h2 h3 h4
  rw [← h1] at h2 h4
  exact ⟨h1, h2, h3, h4⟩

theorem Top.others {o st v b rest} (t : Top st v b rest) (h : Inv o st) :
    ∀ e ∈ st.env, e.2.ix = b.ix → e = (v, b) ∨ (e.2.no < b.no ∧ e.2.saved ≤ b.saved ∧ e ∈ rest) := by
  intro e he hix
  have hm : e ∈ stack b.ix st.env := (mem_stack _ _ _).mpr ⟨he, hix⟩
  rw [t.stk] at hm
  rcases List.mem_cons.mp hm with rfl | hr
  · exact Or.inl rfl
  · have hc := h.chain b.ix
    rw [t.stk] at hc
    have := chain_below _ _ _ _ _ hc e hr
    exact Or.inr ⟨this.1, this.2, hr⟩

theorem Top.isCurrent {o st v b rest} (t : Top st v b rest) (h : Inv o st) :
    NaijaVerif.Scratch.current st.sc b = true := by
  unfold NaijaVerif.Scratch.current; simp [(t.head h).1]

theorem Top.rest_names {o st v b rest} (t : Top st v b rest) (h : Inv o st) : ∀ e ∈ rest, e.1 ≠ v := by
  have hsub : (stack b.ix st.env).Sublist st.env := List.filter_sublist
  have hn : ((stack b.ix st.env).map (·.1)).Nodup := List.Nodup.sublist (hsub.map _) h.names
  rw [t.stk] at hn
  simp only [List.map_cons, List.nodup_cons] at hn
  intro e he hv
  apply hn.1
  rw [← hv]
  exact List.mem_map.mpr ⟨e, he, rfl⟩

/-- A block owned by another guard of the same arena ends below the newest guard's base. -/
theorem Top.block_below {o st v b rest} (t : Top st v b rest) (h : Inv o st) (blk : Block)
    (hb : blk ∈ st.blocks) (hix : blk.ix = b.ix) (hown : blk.owner ≠ v) : blk.fin ≤ b.saved := by
  obtain ⟨b0, hm, hi0, _, _, _, hall⟩ := h.blocks blk hb
  rcases t.others h (blk.owner, b0) hm (by simp [hi0, hix]) with heq | ⟨hlt, _, _⟩
  · exact absurd (Prod.mk.inj heq).1 hown
  · exact hall (v, b) t.mem (by simp [hix]) hlt

/-- From the shape check to `Top`. -/
theorem top_of_isTop {o st} (h : Inv o st) (v : Nat) (ht : isTop (shape st) v = true) :
    ∃ b rest, Top st v b rest := by
  obtain ⟨b, rest, h1, h2⟩ := isTop_spec st.env h.names v ht
  exact ⟨b, rest, ⟨h1, h2⟩⟩


/-! ## Preservation, one operation at a time -/

theorem init_offset (sc : Scratch) (i : Ix) : (sc.init.get i).offset = 0 := by
  cases i <;> rfl

theorem init_borrows (sc : Scratch) (i : Ix) : (sc.init.get i).borrows = (sc.get i).borrows := by
  cases i <;> rfl

theorem inv_init {o st} (h : Inv o st) (he : st.env = []) :
    Inv (fun i => (0, (o i).2)) st.doInit ∧ st.doInit.env = [] := by
  have hb := h.blocks_nil he
  refine ⟨⟨?_, ?_, ?_, ?_, ?_, ?_⟩, he⟩
  · show (st.env.map (·.1)).Nodup
    exact h.names
  · intro i
    show Chain1 (stack i st.env) (st.sc.init.get i).offset (st.sc.init.get i).borrows _
    have hc := h.chain i
    rw [he] at hc ⊢
    rw [init_offset, init_borrows]
    exact ⟨rfl, hc.2⟩
  · intro blk hm; exact absurd hm (by simp [St.doInit])
  · show List.Pairwise _ []
    exact List.Pairwise.nil
  · intro e hm
    have := h.marks_nil he
    simp [St.doInit, this] at hm
  · simp [St.doInit, h.lost, hb]

theorem stack_cons_same (i : Ix) (v : Nat) (b : Borrow) (env : List (Nat × Borrow)) (h : b.ix = i) :
    stack i ((v, b) :: env) = (v, b) :: stack i env := by
  unfold stack; simp [h]

theorem stack_cons_other (i : Ix) (v : Nat) (b : Borrow) (env : List (Nat × Borrow)) (h : b.ix ≠ i) :
    stack i ((v, b) :: env) = stack i env := by
  unfold stack; simp [h]

/-- The state after `let v = scratch_arena(..)` landing on arena `i`. -/
def pushed (st : St) (v : Nat) (i : Ix) : St :=
  { st with sc := st.sc.set i { st.sc.get i with borrows := (st.sc.get i).borrows + 1 },
            env := (v, { ix := i, saved := (st.sc.get i).offset, no := (st.sc.get i).borrows + 1 }) :: st.env }

theorem inv_pushed {o st} (h : Inv o st) (v : Nat) (i : Ix) (hv : st.env.lookup v = none) :
    Inv o (pushed st v i) := by
  have hoff : ∀ j, ((pushed st v i).sc.get j).offset = (st.sc.get j).offset := by
    intro j
    by_cases hj : j = i
    · subst hj; simp [pushed]
    · simp [pushed, get_set_other _ _ _ _ hj]
  refine ⟨?_, ?_, ?_, ?_, ?_, ?_⟩
  · show (((v, _) :: st.env).map (·.1)).Nodup
    simp only [List.map_cons, List.nodup_cons]
    refine ⟨?_, h.names⟩
    intro hm
    obtain ⟨e, he, hev⟩ := List.mem_map.mp hm
    exact lookup_none_not_mem _ _ hv e.2 (by rw [← hev]; exact he)
  · intro j
    by_cases hj : j = i
    · subst hj
      show Chain1 (stack j ((v, _) :: st.env)) _ _ _
      rw [stack_cons_same j v { ix := j, saved := (st.sc.get j).offset, no := (st.sc.get j).borrows + 1 } st.env rfl]
      refine ⟨?_, ?_, ?_, ?_⟩
      · simp [pushed]
      · simp [pushed]
      · simp [pushed]
      · have := h.chain j
        simpa [pushed] using this
    · show Chain1 (stack j ((v, _) :: st.env)) _ _ _
      rw [stack_cons_other j v { ix := i, saved := (st.sc.get i).offset, no := (st.sc.get i).borrows + 1 } st.env
        (fun h' => hj h'.symm)]
      have := h.chain j
      simpa [pushed, get_set_other _ _ _ _ hj] using this
  · intro blk hb
    obtain ⟨b0, hm, h1, h2, h3, h4, h5⟩ := h.blocks blk hb
    refine ⟨b0, List.mem_cons_of_mem _ hm, h1, h2, h3, ?_, ?_⟩
    · rw [hoff]; exact h4
    · intro e he hix hlt
      rcases List.mem_cons.mp he with rfl | he'
      · simp only at hix ⊢
        rw [hix]; exact h4
      · exact h5 e he' hix hlt
  · exact h.disj
  · intro e he
    obtain ⟨b, hm, hs⟩ := h.marks e he
    exact ⟨b, List.mem_cons_of_mem _ hm, hs⟩
  · exact h.lost

theorem shape_pushed (st : St) (v : Nat) (i : Ix) : shape (pushed st v i) = (v, i) :: shape st := rfl


/-- State after an allocation through the guard `b` held in `v`. -/
def allocated (st : St) (v : Nat) (b : Borrow) (bytes align : Nat) : St :=
  { st with sc := st.sc.set b.ix ((st.sc.get b.ix).alloc bytes align).2,
            blocks := { owner := v, ix := b.ix, beg := alignUp (st.sc.get b.ix).offset align,
                        fin := alignUp (st.sc.get b.ix).offset align + bytes } :: st.blocks }

theorem doAlloc_top {o st v b rest} (t : Top st v b rest) (h : Inv o st) (bytes align : Nat) :
    st.doAlloc true v bytes align = .ok (allocated st v b bytes align) := by
  unfold St.doAlloc
  simp [t.look, t.isCurrent h, Arena.alloc, allocated]

theorem inv_allocated {o st v b rest} (t : Top st v b rest) (h : Inv o st) (bytes align : Nat)
    (ha : 0 < align) : Inv o (allocated st v b bytes align) := by
  obtain ⟨hno, hpos, hsav, hrest⟩ := t.head h
  have hal := le_alignUp (st.sc.get b.ix).offset align ha
  have hoff_same : ((allocated st v b bytes align).sc.get b.ix).offset
      = alignUp (st.sc.get b.ix).offset align + bytes := by simp [allocated, Arena.alloc]
  have hbor_same : ((allocated st v b bytes align).sc.get b.ix).borrows = (st.sc.get b.ix).borrows := by
    simp [allocated, Arena.alloc]
  have hother : ∀ j, j ≠ b.ix → (allocated st v b bytes align).sc.get j = st.sc.get j := by
    intro j hj; simp [allocated, get_set_other _ _ _ _ hj]
  have hoff_le : ∀ j, (st.sc.get j).offset ≤ ((allocated st v b bytes align).sc.get j).offset := by
    intro j
    by_cases hj : j = b.ix
    · subst hj; rw [hoff_same]; omega
    · rw [hother j hj]; exact Nat.le_refl _
  refine ⟨h.names, ?_, ?_, ?_, h.marks, h.lost⟩
  · intro j
    show Chain1 (stack j st.env) _ _ _
    by_cases hj : j = b.ix
    · subst hj
      rw [hoff_same, hbor_same, t.stk]
      have hc := h.chain b.ix
      rw [t.stk] at hc
      exact ⟨hc.1, hc.2.1, by simp only; omega, hc.2.2.2⟩
    · rw [hother j hj]; exact h.chain j
  · intro blk hb
    rcases List.mem_cons.mp hb with rfl | hb'
    · refine ⟨b, t.mem, rfl, ?_, ?_, ?_, ?_⟩
      · simp only; omega
      · simp only; omega
      · simp only; rw [hoff_same]; exact Nat.le_refl _
      · intro e he hix hlt
        rcases t.others h e he hix with rfl | ⟨hlt', _, _⟩
        · exact absurd hlt (Nat.lt_irrefl _)
        · omega
    · obtain ⟨b0, hm, h1, h2, h3, h4, h5⟩ := h.blocks blk hb'
      exact ⟨b0, hm, h1, h2, h3, Nat.le_trans h4 (hoff_le _), h5⟩
  · show List.Pairwise _ (_ :: st.blocks)
    refine List.Pairwise.cons ?_ h.disj
    intro y hy hix
    obtain ⟨_, _, _, _, _, h4, _⟩ := h.blocks y hy
    simp only at hix ⊢
    rw [← hix] at h4
    omega

/-- State after `let m = v.offset()`. -/
def marked (st : St) (v : Nat) (b : Borrow) : St :=
  { st with marks := st.marks ++ [(v, (st.sc.get b.ix).offset)] }

theorem doMark_top {o st v b rest} (t : Top st v b rest) (h : Inv o st) :
    st.doMark true v = .ok (marked st v b) := by
  unfold St.doMark
  simp [t.look, t.isCurrent h, marked]

theorem inv_marked {o st v b rest} (t : Top st v b rest) (h : Inv o st) : Inv o (marked st v b) := by
  refine ⟨h.names, h.chain, h.blocks, h.disj, ?_, h.lost⟩
  intro e he
  rcases List.mem_append.mp he with he' | he'
  · exact h.marks e he'
  · simp only [List.mem_singleton] at he'
    subst he'
    exact ⟨b, t.mem, (t.head h).2.2.1⟩

/-- State after `v.reset(m)`. -/
def resetTo (st : St) (b : Borrow) (m : Nat) : St :=
  { st with sc := st.sc.set b.ix ((st.sc.get b.ix).reset m),
            blocks := st.blocks.filter (fun blk => !killed b.ix m blk) }

/-- No block of another guard is given back by a reset (or release) through the newest guard of the
arena to an offset at or above that guard's base. -/
theorem no_foreign_kill {o st v b rest} (t : Top st v b rest) (h : Inv o st) (m : Nat) (hm : b.saved ≤ m) :
    st.blocks.filter (fun blk => killed b.ix m blk && blk.owner != v) = [] := by
  apply List.filter_eq_nil_iff.mpr
  intro blk hb
  simp only [killed, Bool.and_eq_true, beq_iff_eq, decide_eq_true_eq, bne_iff_ne, ne_eq, not_and,
    Decidable.not_not]
  intro ⟨hix, hlt⟩
  apply Decidable.byContradiction
  intro hown
  have := t.block_below h blk hb hix hown
  omega

theorem doReset_top {o st v b rest} (t : Top st v b rest) (h : Inv o st) (k m : Nat)
    (hk : st.marks[k]? = some (v, m)) (hle : ¬ (st.sc.get b.ix).offset < m) :
    st.doReset true v k = .ok (resetTo st b m) := by
  obtain ⟨b', hb', hs⟩ := h.marks (v, m) (List.mem_of_getElem? hk)
  have : b' = b := mem_unique _ h.names v b' b hb' t.mem
  subst this
  unfold St.doReset
  simp [t.look, hk, t.isCurrent h, resetTo, no_foreign_kill t h m hs, h.lost, hle]

theorem inv_resetTo {o st v b rest} (t : Top st v b rest) (h : Inv o st) (m : Nat) (hs : b.saved ≤ m) :
    Inv o (resetTo st b m) := by
  have hother : ∀ j, j ≠ b.ix → (resetTo st b m).sc.get j = st.sc.get j := by
    intro j hj; simp [resetTo, get_set_other _ _ _ _ hj]
  refine ⟨h.names, ?_, ?_, ?_, h.marks, h.lost⟩
  · intro j
    show Chain1 (stack j st.env) _ _ _
    by_cases hj : j = b.ix
    · subst hj
      have hc := h.chain b.ix
      rw [t.stk] at hc ⊢
      simp only [resetTo, get_set_same, Arena.reset]
      exact ⟨hc.1, hc.2.1, hs, hc.2.2.2⟩
    · rw [hother j hj]; exact h.chain j
  · intro blk hb
    have hb2 := List.mem_filter.mp hb
    obtain ⟨b0, hm, h1, h2, h3, h4, h5⟩ := h.blocks blk hb2.1
    refine ⟨b0, hm, h1, h2, h3, ?_, h5⟩
    by_cases hj : blk.ix = b.ix
    · rw [hj]
      simp only [resetTo, get_set_same, Arena.reset]
      have := hb2.2
      simp only [killed, hj, beq_self_eq_true, Bool.true_and, Bool.not_eq_true', decide_eq_false_iff_not,
        Nat.not_lt] at this
      exact this
    · rw [hother _ hj]; exact h4
  · exact List.Pairwise.filter _ h.disj


/-- State after the guard `b` held in `v` is dropped. -/
def released (st : St) (v : Nat) (b : Borrow) : St :=
  { sc := st.sc.set b.ix { ((st.sc.get b.ix).reset b.saved).decommit with
                            borrows := ((st.sc.get b.ix).reset b.saved).decommit.borrows - 1 },
    env := st.env.filter (fun e => e.1 != v),
    marks := st.marks.filter (fun e => e.1 != v),
    blocks := st.blocks.filter (fun blk => !killed b.ix b.saved blk && blk.owner != v),
    lost := st.lost }

theorem doRelease_top {o st v b rest} (t : Top st v b rest) (h : Inv o st) :
    st.doRelease true v = .ok (released st v b) := by
  unfold St.doRelease
  simp [t.look, t.isCurrent h, released, no_foreign_kill t h b.saved (Nat.le_refl _), h.lost]

theorem stack_filter (i : Ix) (env : List (Nat × Borrow)) (p : Nat × Borrow → Bool) :
    stack i (env.filter p) = (stack i env).filter p := by
  unfold stack
  rw [List.filter_filter, List.filter_filter]
  congr 1
  funext e
  exact Bool.and_comm _ _

theorem inv_released {o st v b rest} (t : Top st v b rest) (h : Inv o st) : Inv o (released st v b) := by
  obtain ⟨hno, hpos, hsav, hrest⟩ := t.head h
  have hother : ∀ j, j ≠ b.ix → (released st v b).sc.get j = st.sc.get j := by
    intro j hj; simp [released, get_set_other _ _ _ _ hj]
  have hkeep : ∀ e ∈ st.env, e.1 ≠ v → e ∈ (released st v b).env := by
    intro e he hv
    exact List.mem_filter.mpr ⟨he, by simpa using hv⟩
  have hsub : ∀ e ∈ (released st v b).env, e ∈ st.env := fun e he => (List.mem_filter.mp he).1
  refine ⟨?_, ?_, ?_, ?_, ?_, h.lost⟩
  · exact List.Nodup.sublist ((List.filter_sublist (l := st.env)).map _) h.names
  · intro j
    show Chain1 (stack j (st.env.filter _)) _ _ _
    rw [stack_filter]
    by_cases hj : j = b.ix
    · subst hj
      rw [t.stk]
      have hr : (((v, b) :: rest).filter (fun e => e.1 != v)) = rest := by
        rw [List.filter_cons]
        simp only [bne_self_eq_false, Bool.false_eq_true, ↓reduceIte]
        apply List.filter_eq_self.mpr
        intro e he
        simpa using t.rest_names h e he
      rw [hr]
      simp only [released, get_set_same, decommit_offset, decommit_borrows, Arena.reset]
      rw [← hno]
      exact hrest
    · rw [hother j hj]
      have hr : (stack j st.env).filter (fun e => e.1 != v) = stack j st.env := by
        apply List.filter_eq_self.mpr
        intro e he
        have he' := (mem_stack _ _ _).mp he
        simp only [bne_iff_ne, ne_eq]
        intro hv
        have : e.2 = b := mem_unique _ h.names v e.2 b (by rw [← hv]; exact he'.1) t.mem
        exact hj (by rw [← he'.2, this])
      rw [hr]; exact h.chain j
  · intro blk hb
    have hb2 := List.mem_filter.mp hb
    have hown : blk.owner ≠ v := by
      have := hb2.2
      simp only [Bool.and_eq_true, bne_iff_ne, ne_eq] at this
      exact this.2
    obtain ⟨b0, hm, h1, h2, h3, h4, h5⟩ := h.blocks blk hb2.1
    refine ⟨b0, hkeep _ hm hown, h1, h2, h3, ?_, fun e he => h5 e (hsub e he)⟩
    by_cases hj : blk.ix = b.ix
    · rw [hj]
      simp only [released, get_set_same, decommit_offset, Arena.reset]
      exact t.block_below h blk hb2.1 hj hown
    · rw [hother _ hj]; exact h4
  · exact List.Pairwise.filter _ h.disj
  · intro e he
    have he2 := List.mem_filter.mp he
    obtain ⟨b0, hm, hs⟩ := h.marks e he2.1
    exact ⟨b0, hkeep _ hm (by simpa using he2.2), hs⟩

theorem shape_released (st : St) (v : Nat) (b : Borrow) :
    shape (released st v b) = (shape st).filter (fun e => e.1 != v) := by
  unfold shape released
  simp only
  rw [List.filter_map]
  rfl

/-- After a release the arena is back at the guard's saved offset and borrow count. -/
theorem released_arena {o st v b rest} (t : Top st v b rest) (h : Inv o st) :
    ((released st v b).sc.get b.ix).offset = b.saved ∧
      ((released st v b).sc.get b.ix).borrows = b.no - 1 := by
  simp [released, Arena.reset, (t.head h).1]


/-! ## Whole phases and whole paths -/

/-- What a run may end in: a state satisfying `P`, or the refusal of a reset that names no offset
read through that guard (such a request is not an operation of the modelled code; `Fault.badMark`).
In particular never one of the debug assertions (`stale`, `dropOrder`). -/
def Outcome (P : St → Prop) : Except Fault St → Prop
  | .ok st => P st
  | .error e => e = .badMark

theorem Outcome.mono {P Q : St → Prop} (hpq : ∀ st, P st → Q st) : ∀ r, Outcome P r → Outcome Q r
  | .ok st, h => hpq st h
  | .error _, h => h

theorem run_append (chk : Bool) : ∀ (xs ys : List Op) (st : St),
    run chk st (xs ++ ys) = match run chk st xs with
      | .ok st' => run chk st' ys
      | .error e => .error e
  | [], _, _ => rfl
  | x :: xs, ys, st => by
    simp only [List.cons_append, run]
    cases step chk st x with
    | ok st' => exact run_append chk xs ys st'
    | error e => rfl

/-- Origin (offset, borrow count below the oldest guard) after an operation. -/
def originStep (o : Ix → Nat × Nat) : ProtoOp → (Ix → Nat × Nat)
  | .init => fun i => (0, (o i).2)
  | _ => o

theorem work_good {o : Ix → Nat × Nat} (uses : List Nat) : ∀ (ws : List WorkOp) (st : St), Inv o st →
    uses.all (isTop (shape st)) = true →
    ws.all (fun w => uses.contains w.var && w.wf) = true →
    Outcome (fun st' => Inv o st' ∧ st'.env = st.env) (run true st (ws.map WorkOp.toOp))
  | [], st, h, _, _ => ⟨h, rfl⟩
  | w :: ws, st, h, hu, hw => by
    simp only [List.all_cons, Bool.and_eq_true] at hw
    obtain ⟨⟨hmem, hwf⟩, hrest⟩ := hw
    have hvtop : isTop (shape st) w.var = true := by
      have := List.all_eq_true.mp hu w.var (by simpa using hmem)
      exact this
    obtain ⟨b, rest, t⟩ := top_of_isTop h w.var hvtop
    have hrest' : ws.all (fun w => uses.contains w.var && w.wf) = true := hrest
    cases w with
    | alloc v bytes align =>
      simp only [WorkOp.var] at t
      have ha : 0 < align := by simpa [WorkOp.wf] using hwf
      simp only [List.map_cons, WorkOp.toOp, run, step, doAlloc_top t h]
      have hi := inv_allocated t h bytes align ha
      have := work_good uses ws (allocated st v b bytes align) hi hu hrest'
      exact Outcome.mono (fun st' hp => ⟨hp.1, hp.2⟩) _ this
    | mark v =>
      simp only [WorkOp.var] at t
      simp only [List.map_cons, WorkOp.toOp, run, step, doMark_top t h]
      have hi := inv_marked t h
      have := work_good uses ws (marked st v b) hi hu hrest'
      exact Outcome.mono (fun st' hp => ⟨hp.1, hp.2⟩) _ this
    | reset v k =>
      simp only [WorkOp.var] at t
      simp only [List.map_cons, WorkOp.toOp, run, step]
      cases hk : st.marks[k]? with
      | none =>
        have : st.doReset true v k = .error .badMark := by
          unfold St.doReset; simp [t.look, hk]
        rw [this]; rfl
      | some e =>
        obtain ⟨w', m⟩ := e
        by_cases hwv : w' = v
        · subst hwv
          obtain ⟨b', hb', hs⟩ := h.marks (w', m) (List.mem_of_getElem? hk)
          have hbb : b' = b := mem_unique _ h.names w' b' b hb' t.mem
          subst hbb
          by_cases hle : (st.sc.get b'.ix).offset < m
          · have : st.doReset true w' k = .error .badMark := by
              unfold St.doReset; simp [t.look, hk, t.isCurrent h, hle]
            rw [this]; rfl
          · rw [doReset_top t h k m hk hle]
            have hi := inv_resetTo t h m hs
            have := work_good uses ws (resetTo st b' m) hi hu hrest'
            exact Outcome.mono (fun st' hp => ⟨hp.1, hp.2⟩) _ this
        · have : st.doReset true v k = .error .badMark := by
            unfold St.doReset; simp [t.look, hk, hwv]
          rw [this]; rfl

theorem shape_nil {st : St} (h : (shape st).isEmpty = true) : st.env = [] := by
  unfold shape at h
  cases he : st.env with
  | nil => rfl
  | cons a r => simp [he] at h

theorem lookup_of_shape_none {st : St} {v : Nat} (h : (shape st).lookup v = none) : st.env.lookup v = none := by
  unfold shape at h
  rw [shape_lookup] at h
  cases hl : st.env.lookup v with
  | none => rfl
  | some b => simp [hl] at h

theorem lookup_of_shape_some {st : St} {w : Nat} {i : Ix} (h : (shape st).lookup w = some i) :
    ∃ b, st.env.lookup w = some b ∧ b.ix = i := by
  unfold shape at h
  rw [shape_lookup] at h
  cases hl : st.env.lookup w with
  | none => simp [hl] at h
  | some b => exact ⟨b, rfl, by simpa [hl] using h⟩

theorem fop_good {o : Ix → Nat × Nat} {st : St} (h : Inv o st) (f : FOp) (hok : f.ok = true) (sh' : Shape)
    (ha : absStep (shape st) f.erase = some sh') :
    Outcome (fun st' => Inv (originStep o f.erase) st' ∧ shape st' = sh') (run true st f.ops) := by
  cases f with
  | init =>
    simp only [FOp.erase, absStep] at ha
    split at ha
    · next hemp =>
      cases ha
      have he := shape_nil hemp
      have := inv_init h he
      simp only [FOp.ops, run, step, Outcome, FOp.erase, originStep]
      refine ⟨this.1, ?_⟩
      unfold shape; rw [this.2]; rfl
    · cases ha
  | borrow v c =>
    simp only [FOp.erase, absStep] at ha
    split at ha
    · cases ha
    · next hnone =>
      have hv := lookup_of_shape_none hnone
      cases c with
      | none =>
        simp only [Option.some.injEq] at ha
        subst ha
        have hd : st.doBorrow v none = .ok (pushed st v (scratchIndex none)) := by
          unfold St.doBorrow; simp [hv, pushed]
        simp only [FOp.ops, run, step, hd, Outcome, FOp.erase, originStep]
        exact ⟨inv_pushed h v _ hv, shape_pushed st v _⟩
      | some w =>
        simp only at ha
        split at ha
        · cases ha
        · next i hw =>
          simp only [Option.some.injEq] at ha
          subst ha
          obtain ⟨bw, hbw, hix⟩ := lookup_of_shape_some hw
          have hd : st.doBorrow v (some w) = .ok (pushed st v (scratchIndex (some (.scratch i)))) := by
            unfold St.doBorrow; simp [hv, hbw, pushed, hix]
          simp only [FOp.ops, run, step, hd, Outcome, FOp.erase, originStep]
          exact ⟨inv_pushed h v _ hv, shape_pushed st v _⟩
  | work uses ws =>
    simp only [FOp.erase, absStep] at ha
    split at ha
    · next hu =>
      cases ha
      have := work_good (o := o) uses ws st h hu hok
      simp only [FOp.ops, FOp.erase, originStep]
      refine Outcome.mono ?_ _ this
      intro st' hp
      refine ⟨hp.1, ?_⟩
      unfold shape; rw [hp.2]
    · cases ha
  | release v =>
    simp only [FOp.erase, absStep] at ha
    split at ha
    · next ht =>
      cases ha
      obtain ⟨b, rest, t⟩ := top_of_isTop h v ht
      simp only [FOp.ops, run, step, doRelease_top t h, Outcome, FOp.erase, originStep]
      exact ⟨inv_released t h, shape_released st v b⟩
    · cases ha

theorem path_good : ∀ (fs : List FOp) (o : Ix → Nat × Nat) (st : St), Inv o st → (∀ f ∈ fs, f.ok = true) →
    ∀ sh', absRun (shape st) (fs.map FOp.erase) = some sh' →
    Outcome (fun st' => Inv (fs.foldl (fun o f => originStep o f.erase) o) st' ∧ shape st' = sh')
      (run true st (flatOps fs))
  | [], o, st, h, _, sh', ha => by
    simp only [List.map_nil, absRun, Option.some.injEq] at ha
    exact ⟨h, ha⟩
  | f :: fs, o, st, h, hok, sh', ha => by
    simp only [List.map_cons, absRun] at ha
    split at ha
    · next sh1 h1 =>
      have hf := fop_good h f (hok f (by simp)) sh1 h1
      simp only [flatOps, List.flatMap_cons, List.foldl_cons]
      rw [run_append]
      cases hr : run true st f.ops with
      | ok st1 =>
        rw [hr] at hf
        obtain ⟨hi1, hs1⟩ := hf
        simp only
        have := path_good fs (originStep o f.erase) st1 hi1 (fun g hg => hok g (by simp [hg])) sh'
          (by rw [hs1]; exact ha)
        exact this
      | error e =>
        rw [hr] at hf
        exact hf
    · cases ha

/-- The borrow count below the oldest guard never changes; after an `init` the offset there is 0. -/
theorem origin_fold_snd : ∀ (fs : List FOp) (o : Ix → Nat × Nat) (i : Ix),
    ((fs.foldl (fun o f => originStep o f.erase) o) i).2 = (o i).2
  | [], _, _ => rfl
  | f :: fs, o, i => by
    simp only [List.foldl_cons]
    rw [origin_fold_snd fs _ i]
    cases f <;> rfl

theorem origin_fold_zero : ∀ (fs : List FOp) (o : Ix → Nat × Nat) (i : Ix), (o i).1 = 0 →
    ((fs.foldl (fun o f => originStep o f.erase) o) i).1 = 0
  | [], _, _, h => h
  | f :: fs, o, i, h => by
    simp only [List.foldl_cons]
    apply origin_fold_zero fs _ i
    cases f <;> first | exact h | rfl

theorem origin_fold_noinit : ∀ (fs : List FOp) (o : Ix → Nat × Nat) (i : Ix),
    (∀ f ∈ fs, f.erase ≠ .init) → (fs.foldl (fun o f => originStep o f.erase) o) i = o i
  | [], _, _, _ => rfl
  | f :: fs, o, i, h => by
    simp only [List.foldl_cons]
    rw [origin_fold_noinit fs _ i (fun g hg => h g (by simp [hg]))]
    have := h f (by simp)
    cases f <;> first | rfl | exact absurd rfl this

/-- A state with no guard alive satisfies the invariant with its own offsets and counts as origin. -/
theorem inv_start (sc : Scratch) : Inv (fun i => ((sc.get i).offset, (sc.get i).borrows)) (St.start sc) := by
  refine ⟨by simp [St.start], ?_, ?_, by simp [St.start], ?_, rfl⟩
  · intro i; exact ⟨rfl, rfl⟩
  · intro blk hb; simp [St.start] at hb
  · intro e he; simp [St.start] at he

/-- With no guard alive the state is a start state and the arenas are at their origin. -/
theorem Inv.at_rest {o st} (h : Inv o st) (he : st.env = []) :
    st = St.start st.sc ∧ ∀ i, (st.sc.get i).offset = (o i).1 ∧ (st.sc.get i).borrows = (o i).2 := by
  constructor
  · have h1 := h.blocks_nil he
    have h2 := h.marks_nil he
    have h3 := h.lost
    cases st
    simp only at he h1 h2 h3
    simp [St.start, he, h1, h2, h3]
  · intro i
    have := h.chain i
    rw [he] at this
    exact this

end NaijaVerif.Scratch
