import NaijaVerif.Lemmas.AnalysisRefineRevExpr
/-
BRIDGE, converse direction, part 3: calls of built-in functions and of user functions.
-/
namespace NaijaVerif.C03
open NaijaVerif NaijaVerif.Analysis

variable {N : Type} [NumOps N] {B : Brg}

theorem rev_global (hB : B.Ok N) {f : Nat} (IH : SimAt' (N := N) B f) (name : Bytes) (b0 : Option Nat) (vsp : Span)
    (args : List Expr) (fn : Option Nat) (sp : Span) (g : Eval.GlobalB) (hg : Eval.GlobalB.ofName name = some g)
    (s : Eval.State N) (t : AEval.St (VE N)) (hok : okExprs B.o args = true) (hs : B.Sim s t)
    (hne : Eval.evalExpr B.rc (f + 1) (.call (.var name b0 vsp) args fn sp) s ≠ .fuel) :
    Ev' B Eq (Eval.evalExpr B.rc (f + 1) (.call (.var name b0 vsp) args fn sp) s)
      (fun n => AEval.evalExpr B.P B.ac n (.call (.var name b0 vsp) args fn sp) t) := by
  apply Ev'.shift
  generalize hr : Eval.evalExpr B.rc (f + 1) (.call (.var name b0 vsp) args fn sp) s = res at hne ⊢
  simp only [Eval.evalExpr, hg] at hr
  simp only [AEval.evalExpr, P_isGlobal, hg, Option.isSome_some, ↓reduceIte]
  have ih1 := IH.sel args s t hok hs
  ev'_sub (Eval.evalSel B.rc f (args.map .ok) s) as vs s1 t1 hs1 with ih1 hr hne
  simp only [P_isShout, hg, P_null, P_global]
  have hpan : ∀ a : AEval.R (VE N) (VE N), a = (.error .panic, t1) →
      Ev' B Eq (Eval.trap B.rc .builtinArity sp s1) (fun _ => a) := by
    intro a ha; subst ha
    exact Ev'.const (RSim.err (trap_sim hB hs1.out .builtinArity sp))
  have e1 : (some Eval.GlobalB.typeOf == some Eval.GlobalB.shout) = false := by decide
  have e2 : (some Eval.GlobalB.readLine == some Eval.GlobalB.shout) = false := by decide
  have e3 : (some Eval.GlobalB.toString == some Eval.GlobalB.shout) = false := by decide
  have e4 : (some Eval.GlobalB.command == some Eval.GlobalB.shout) = false := by decide
  match vs with
  | [] => subst hr; exact hpan _ (by cases g <;> simp [globalE, hg])
  | _ :: _ :: _ => subst hr; exact hpan _ (by cases g <;> simp [globalE, hg])
  | [v] =>
    simp only at hr
    subst hr
    cases g with
    | shout => simp only [beq_self_eq_true, ↓reduceIte]; exact Ev'.const (RSim.ok rfl (shout_sim hs1 v))
    | typeOf => simp only [e1, Bool.false_eq_true, ↓reduceIte, globalE, hg]; exact Ev'.const (RSim.ok rfl hs1)
    | readLine =>
      simp only [e2, Bool.false_eq_true, ↓reduceIte, globalE, hg, Eval.globalCall, hs1.input]
      exact Ev'.const (RSim.ok rfl hs1)
    | toString => simp only [e3, Bool.false_eq_true, ↓reduceIte, globalE, hg]; exact Ev'.const (RSim.ok rfl hs1)
    | command =>
      simp only [e4, Bool.false_eq_true, ↓reduceIte, globalE, hg]
      cases v with
      | str p => exact Ev'.const (RSim.ok rfl hs1)
      | num _ => exact Ev'.const (RSim.err (trap_sim hB hs1.out .commandArg sp))
      | bool _ => exact Ev'.const (RSim.err (trap_sim hB hs1.out .commandArg sp))
      | arr _ => exact Ev'.const (RSim.err (trap_sim hB hs1.out .commandArg sp))
      | host _ => exact Ev'.const (RSim.err (trap_sim hB hs1.out .commandArg sp))
      | null => exact Ev'.const (RSim.err (trap_sim hB hs1.out .commandArg sp))

theorem rev_userCall (hB : B.Ok N) {f : Nat} (IH : SimAt' (N := N) B f) (name : Bytes) (b0 : Option Nat) (vsp : Span)
    (args : List Expr) (g : Nat) (sp : Span) (hg : Eval.GlobalB.ofName name = none)
    (s : Eval.State N) (t : AEval.St (VE N)) (hok : okExprs B.o args = true) (hs : B.Sim s t)
    (hne : Eval.evalExpr B.rc (f + 1) (.call (.var name b0 vsp) args (some g) sp) s ≠ .fuel) :
    Ev' B Eq (Eval.evalExpr B.rc (f + 1) (.call (.var name b0 vsp) args (some g) sp) s)
      (fun n => AEval.evalExpr B.P B.ac n (.call (.var name b0 vsp) args (some g) sp) t) := by
  apply Ev'.shift
  generalize hr : Eval.evalExpr B.rc (f + 1) (.call (.var name b0 vsp) args (some g) sp) s = res at hne ⊢
  simp only [Eval.evalExpr, hg] at hr
  simp only [AEval.evalExpr, P_isGlobal, hg, Option.isSome_none, Bool.false_eq_true, ↓reduceIte]
  have hs0 : B.Sim s { t with looked := g :: t.looked } := sim_looked hs _
  have hfn := lookupFn_sim hB hs g name
  cases hfe : Eval.lookupFn B.rc s (some g) name with
  | none =>
    cases hfa : AEval.findFnC B.ac g t.fns with
    | some fa => simp [hfe, hfa, ORel2] at hfn
    | none =>
      simp only [hfe, Option.isSome_some, ↓reduceIte] at hr
      subst hr
      exact Ev'.const (RSim.err (trap_sim hB hs0.out .fnById sp))
  | some fe =>
    cases hfa : AEval.findFnC B.ac g t.fns with
    | none => simp [hfe, hfa, ORel2] at hfn
    | some fa =>
      simp only [hfe, hfa, ORel2] at hfn
      simp only [hfe] at hr
      dsimp only
      obtain ⟨hpb, hpn, hpt⟩ := hB.orc.par fa.params hfn.okp
      have ih1 := IH.sel args s _ hok hs0
      ev'_sub (Eval.evalSel B.rc f (args.map .ok) s) as vs s1 t1 hs1 with ih1 hr hne
      rw [hfn.params] at hr
      cases hbp : AEval.bindParams fa.params vs with
      | none =>
        have hlen : vs.length ≠ fa.params.length := by
          intro h
          have := (bindParams_some_iff fa.params vs hpb).mpr h
          simp [hbp] at this
        simp only [hlen, ne_eq, not_false_eq_true, ↓reduceIte] at hr
        subst hr
        exact Ev'.const (RSim.err (trap_sim hB hs1.out .callArity sp))
      | some slots =>
        have hlen : vs.length = fa.params.length := (bindParams_some_iff fa.params vs hpb).mp (by simp [hbp])
        have hpi : Eval.paramIds fe = some (fa.params.map (·.bind)) := by
          rw [← hfn.params]; exact paramIds_eq hfn.id (by rw [hfn.params]; exact hpb)
        simp only [hlen, ne_eq, not_true_eq_false, ↓reduceIte, hpi] at hr
        simp only [P_dscope]
        have hs2 := params_sim hs1 fa.params vs slots hbp hpn hpt (.params fe.id) fe.chain
        rw [← hfn.body]
        have ih2 := IH.block fe.body _ _ hfn.okb hs2
        generalize Eval.execBlock (N := N) B.rc f fe.body _ = r3 at hr ih2
        rcases r3 with ⟨fl', s3⟩ | ⟨kd, esp, s3⟩ | ⟨site, s3⟩ | _
        · obtain ⟨a3, n3, hsim3, hG3⟩ := ih2 (ne_fuel_ok _ _)
          obtain ⟨fl, t3, ha3, hfl, hs3⟩ := RSim.inv_ok hsim3
          subst ha3
          dsimp only at hG3
          refine Ev'.rw n3 (fun n hn => by rw [hG3 n hn]) ?_
          simp only [Res.ok_bind] at hr
          have hs4 := pop_sim hs3 s1.chain
          simp only [P_null]
          cases fl with
          | normal => cases fl' <;> first | (subst hr; exact Ev'.const (RSim.ok rfl hs4)) | cases hfl
          | ret v => cases fl' <;> first | (cases hfl; subst hr; exact Ev'.const (RSim.ok rfl hs4)) | cases hfl
          | brk =>
            cases fl' <;> first
              | (subst hr; exact Ev'.const (RSim.err (trap_sim hB hs4.out .flowEscape sp))) | cases hfl
          | cont =>
            cases fl' <;> first
              | (subst hr; exact Ev'.const (RSim.err (trap_sim hB hs4.out .flowEscape sp))) | cases hfl
        · simp only [Res.err_bind] at hr
          subst hr
          obtain ⟨a3, n3, hsim3, hG3⟩ := ih2 (ne_fuel_err _ _ _)
          obtain ⟨er, t3, ha3, herr⟩ := RSim.inv_err hsim3
          subst ha3
          dsimp only at hG3
          refine Ev'.rw n3 (fun n hn => by rw [hG3 n hn]) ?_
          refine Ev'.const (RSim.err ?_)
          exact ⟨(herr (δ := VE N)).1, (herr (δ := VE N)).2⟩
        · simp only [Res.panic_bind] at hr
          subst hr
          obtain ⟨a3, n3, hsim3, hG3⟩ := ih2 (ne_fuel_panic _ _)
          obtain ⟨er, t3, ha3, herr⟩ := RSim.inv_panic hsim3
          subst ha3
          dsimp only at hG3
          refine Ev'.rw n3 (fun n hn => by rw [hG3 n hn]) ?_
          refine Ev'.const (RSim.err ?_)
          exact ⟨(herr (δ := VE N)).1, (herr (δ := VE N)).2⟩
        · simp only [Res.fuel_bind] at hr
          exact absurd hr.symm hne

end NaijaVerif.C03
